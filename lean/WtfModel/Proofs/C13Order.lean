import WtfModel.Proofs.SearchBasic
/-
  C13, engine half, part 1: order lemmas derived from `ScoreLaws`, association-list lemmas
  (`look` / `upd` / `raiseTo`), the per-term boost table with and without context boosts, and
  non-negativity of `termBM25F`.  Core Lean only.
-/
namespace Wtf.C13
open Wtf.Text Wtf.Index Wtf.Filters Wtf.Search ScoreOps ScoreLaws

variable {S : Type} [ScoreOps S]

/-! ### order lemmas -/
section order
variable [ScoreLaws S]

theorem ge_refl (a : S) : ge a a := lt_irrefl a

theorem ge_trans {a b c : S} (h1 : ge a b) (h2 : ge b c) : ge a c := ScoreLaws.le_trans a b c h1 h2

theorem pos_of_ge_one {b : S} (h : ge b one) : Pos b := by
  cases hb : lt (zero : S) b with
  | true => exact hb
  | false =>
    have h2 := ScoreLaws.le_trans (zero : S) b one hb h
    rw [zero_lt_one] at h2
    cases h2

theorem ge_of_lt {a b : S} (h : lt b a = true) : ge a b := lt_asymm _ _ h

theorem nonneg_of_ge {a b : S} (h : ge a b) (hb : Nonneg b) : Nonneg a := ScoreLaws.le_trans a b zero h hb

theorem add_mono {a a' b b' : S} (h1 : ge a a') (h2 : ge b b') : ge (add a b) (add a' b') :=
  ge_trans (add_le_add_right a a' b h1) (add_le_add_left b b' a' h2)

end order

/-! ### association lists -/
section assoc
variable {α : Type}

theorem look_upd (m : List (Token × α)) (k t : Token) (d : α) (f : α → α) :
    look (upd m k d f) t = if k = t then some (f ((look m k).getD d)) else look m t := by
  induction m with
  | nil =>
    by_cases h : k = t <;> simp [upd, look, h]
  | cons a rest ih =>
    obtain ⟨k', v⟩ := a
    by_cases hk : k' = k
    · subst hk
      by_cases ht : k' = t <;> simp [upd, look, ht]
    · by_cases ht : k = t
      · subst ht
        simp [upd, look, hk, ih]
      · by_cases ht' : k' = t
        · subst ht'
          simp [upd, look, hk, ht]
        · simp [upd, look, hk, ht, ht', ih]

theorem look_some_mem {m : List (Token × α)} {t : Token} {b : α} (h : look m t = some b) : (t, b) ∈ m := by
  induction m with
  | nil => simp [look] at h
  | cons a rest ih =>
    obtain ⟨k', v⟩ := a
    by_cases hk : k' = t
    · subst hk
      simp [look] at h
      simp [h]
    · simp [look, hk] at h
      simp [ih h]

theorem look_none_of_not_key {m : List (Token × α)} {t : Token} (h : t ∉ m.map (·.1)) : look m t = none := by
  induction m with
  | nil => rfl
  | cons a rest ih =>
    obtain ⟨k', v⟩ := a
    simp only [List.map_cons, List.mem_cons, not_or] at h
    have : ¬ k' = t := fun e => h.1 e.symm
    simp [look, this, ih h.2]

theorem mem_keys_upd (m : List (Token × α)) (k t : Token) (d : α) (f : α → α) :
    t ∈ (upd m k d f).map (·.1) ↔ t = k ∨ t ∈ m.map (·.1) := by
  induction m with
  | nil => simp [upd]
  | cons a rest ih =>
    obtain ⟨k', v⟩ := a
    by_cases hk : k' = k
    · subst hk
      simp [upd]
    · simp only [upd, beq_iff_eq, hk, ↓reduceIte, List.map_cons, List.mem_cons, ih]
      constructor
      · rintro (h | h | h) <;> simp [h]
      · rintro (h | h | h) <;> simp [h]

end assoc

/-! ### the per-term boost table -/

theorem look_raiseTo (tb : List (Bytes × S)) (k t : Bytes) (v : S) :
    look (raiseTo tb k v) t =
      if k = t then
        (match look tb k with
         | some b => some (if lt b v then v else b)
         | none => if lt zero v then some v else none)
      else look tb t := by
  unfold raiseTo
  by_cases hk : k = t
  · subst hk
    simp only [↓reduceIte]
    cases hb : look tb k with
    | some b =>
      simp only
      cases hlt : lt b v <;> simp [look_upd, hb]
    | none =>
      simp only
      cases hlt : lt (zero : S) v <;> simp [look_upd, hb]
  · simp only [hk, ↓reduceIte]
    split <;> split <;> simp [look_upd, hk]

/-- `boostOf` reads the table only through `look` -/
theorem boostOf_congr {tb1 tb2 : List (Bytes × S)} {t : Token} (h : look tb1 t = look tb2 t) :
    boostOf tb1 t = boostOf tb2 t := by
  unfold boostOf; rw [h]

theorem look_raiseTo_congr {tb1 tb2 : List (Bytes × S)} (k t : Bytes) (v : S) (h : look tb1 t = look tb2 t) :
    look (raiseTo tb1 k v) t = look (raiseTo tb2 k v) t := by
  rw [look_raiseTo, look_raiseTo]
  by_cases hk : k = t
  · subst hk; simp [h]
  · simp [hk, h]

theorem look_foldl_raiseTo_congr {tb1 tb2 : List (Bytes × S)} (l : List Bytes) (t : Bytes) (v : S)
    (h : look tb1 t = look tb2 t) :
    look (l.foldl (fun tb a => raiseTo tb a v) tb1) t = look (l.foldl (fun tb a => raiseTo tb a v) tb2) t := by
  induction l generalizing tb1 tb2 with
  | nil => exact h
  | cons a rest ih => exact ih (look_raiseTo_congr a t v h)

/-- a word that is not a context-boost key has the same entry in both tables (NLP on or off) -/
theorem look_termBoosts_indep (o : Opts S) (B : List (Bytes × S)) (pq : Option (NlpOut S)) (t : Token)
    (ht : t ∉ B.map (·.1)) :
    look (termBoosts { o with boosts := B } pq) t = look (termBoosts { o with boosts := [] } pq) t := by
  have h0 : look B t = look ([] : List (Bytes × S)) t := by rw [look_none_of_not_key ht]; rfl
  cases pq with
  | none => exact h0
  | some n =>
    simp only [termBoosts]
    exact look_foldl_raiseTo_congr _ _ _ (look_foldl_raiseTo_congr _ _ _ h0)

/-- relation between the table built from context boosts (all ≥ 1) and the table built without -/
def TbRel [ScoreLaws S] (tb1 tb2 : List (Bytes × S)) : Prop :=
  ∀ t, (∀ b, look tb1 t = some b → Pos b) ∧ (∀ b, look tb2 t = some b → Pos b) ∧
       (∀ b2, look tb2 t = some b2 → ∃ b1, look tb1 t = some b1 ∧ ge b1 b2) ∧
       (look tb2 t = none → ∀ b1, look tb1 t = some b1 → ge b1 one)

section tbrel
variable [ScoreLaws S]

theorem tbRel_base (B : List (Bytes × S)) (hB : ∀ p ∈ B, ge p.2 one) : TbRel B [] := by
  intro t
  refine ⟨?_, ?_, ?_, ?_⟩
  · intro b hb; exact pos_of_ge_one (hB _ (look_some_mem hb))
  · intro b hb; simp [look] at hb
  · intro b hb; simp [look] at hb
  · intro _ b hb; exact hB _ (look_some_mem hb)

theorem tbRel_raiseTo {tb1 tb2 : List (Bytes × S)} (h : TbRel tb1 tb2) (k : Bytes) (v : S) (hv : Pos v) :
    TbRel (raiseTo tb1 k v) (raiseTo tb2 k v) := by
  intro t
  obtain ⟨h1, h2, h3, h4⟩ := h t
  rw [look_raiseTo, look_raiseTo]
  by_cases hk : k = t
  · subst hk
    simp only [↓reduceIte]
    have hv' : lt (zero : S) v = true := hv
    cases e1 : look tb1 k with
    | none =>
      cases e2 : look tb2 k with
      | none =>
        simp only [hv', ↓reduceIte]
        refine ⟨?_, ?_, ?_, ?_⟩
        · intro b hb; cases hb; exact hv
        · intro b hb; cases hb; exact hv
        · intro b hb; cases hb; exact ⟨_, rfl, ge_refl _⟩
        · intro hn; cases hn
      | some b2 =>
        obtain ⟨b1, hb1, _⟩ := h3 b2 e2
        rw [e1] at hb1; cases hb1
    | some b1 =>
      have p1 : Pos b1 := h1 b1 e1
      cases e2 : look tb2 k with
      | none =>
        simp only [hv', ↓reduceIte]
        refine ⟨?_, ?_, ?_, ?_⟩
        · intro b hb; cases hb; split <;> assumption
        · intro b hb; cases hb; exact hv
        · intro b hb; cases hb
          refine ⟨_, rfl, ?_⟩
          split
          · exact ge_refl _
          · rename_i hlt; simpa using hlt
        · intro hn; cases hn
      | some b2 =>
        have p2 : Pos b2 := h2 b2 e2
        obtain ⟨b1', hb1', hge⟩ := h3 b2 e2
        rw [e1] at hb1'; cases hb1'
        refine ⟨?_, ?_, ?_, ?_⟩
        · intro b hb; cases hb; split <;> assumption
        · intro b hb; cases hb; split <;> assumption
        · intro b hb; cases hb
          refine ⟨_, rfl, ?_⟩
          cases c1 : lt b1 v <;> cases c2 : lt b2 v <;> simp only [Bool.false_eq_true, ↓reduceIte]
          · exact hge
          · exact c1
          · -- b1 < v, v ≤ b2 ≤ b1 : v ≥ b2 follows from v ≥ b1 ≥ b2
            exact ge_trans (ge_of_lt c1) hge
          · exact ge_refl _
        · intro hn; cases hn
  · simp only [hk, ↓reduceIte]
    exact ⟨h1, h2, h3, h4⟩

theorem tbRel_foldl {tb1 tb2 : List (Bytes × S)} (h : TbRel tb1 tb2) (l : List Bytes) (v : S) (hv : Pos v) :
    TbRel (l.foldl (fun tb a => raiseTo tb a v) tb1) (l.foldl (fun tb a => raiseTo tb a v) tb2) := by
  induction l generalizing tb1 tb2 with
  | nil => exact h
  | cons a rest ih => exact ih (tbRel_raiseTo h a v hv)

theorem actionEmphasis_pos : Pos (ofQ actionEmphasis : S) := ofQ_pos _ (by decide) (by decide)
theorem targetEmphasis_pos : Pos (ofQ targetEmphasis : S) := ofQ_pos _ (by decide) (by decide)

theorem tbRel_termBoosts (o : Opts S) (B : List (Bytes × S)) (hB : ∀ p ∈ B, ge p.2 one) (pq : Option (NlpOut S)) :
    TbRel (termBoosts { o with boosts := B } pq) (termBoosts { o with boosts := [] } pq) := by
  cases pq with
  | none => exact tbRel_base B hB
  | some n =>
    simp only [termBoosts]
    exact tbRel_foldl (tbRel_foldl (tbRel_base B hB) _ _ actionEmphasis_pos) _ _ targetEmphasis_pos

/-- the per-term multiplier with context boosts is never below the one without -/
theorem boostOf_ge {tb1 tb2 : List (Bytes × S)} (h : TbRel tb1 tb2) (t : Token) :
    ge (boostOf tb1 t) (boostOf tb2 t) := by
  obtain ⟨h1, h2, h3, h4⟩ := h t
  unfold boostOf
  cases e2 : look tb2 t with
  | none =>
    cases e1 : look tb1 t with
    | none => exact ge_refl _
    | some b1 =>
      have p1 : lt (zero : S) b1 = true := h1 b1 e1
      simp only [p1, ↓reduceIte]
      exact h4 e2 b1 e1
  | some b2 =>
    obtain ⟨b1, e1, hge⟩ := h3 b2 e2
    have p1 : lt (zero : S) b1 = true := h1 b1 e1
    have p2 : lt (zero : S) b2 = true := h2 b2 e2
    simp only [e1, p1, p2, ↓reduceIte]
    exact hge

theorem boostOf_nonneg (tb : List (Bytes × S)) (t : Token) : Nonneg (boostOf tb t) := by
  unfold boostOf
  split
  · split
    · rename_i h; exact pos_nonneg h
    · exact one_nonneg
  · exact one_nonneg

end tbrel

/-! ### BM25F is non-negative under sane parameters -/

/-- what `defaultParams()` must satisfy for the scores to be non-negative -/
structure ParamsSane [ScoreLaws S] (P : Params S) : Prop where
  k1 : Nonneg P.k1
  wCmd : Pos P.wCmd
  wDesc : Pos P.wDesc
  wKeys : Pos P.wKeys
  wTags : Pos P.wTags
  bCmd0 : Nonneg P.bCmd
  bDesc0 : Nonneg P.bDesc
  bKeys0 : Nonneg P.bKeys
  bTags0 : Nonneg P.bTags
  bCmd1 : ge (one : S) P.bCmd
  bDesc1 : ge (one : S) P.bDesc
  bKeys1 : ge (one : S) P.bKeys
  bTags1 : ge (one : S) P.bTags
  minIDF : Nonneg P.minIDF

section bm25
variable [ScoreLaws S]

/-- the regenerated parameters (`Gen.Bm25`) are sane: checked by `decide` on every run -/
theorem genParams_sane : ParamsSane (genParams : Params S) where
  k1 := ofQ_nonneg _ (by decide) (by decide)
  wCmd := ofQ_pos _ (by decide) (by decide)
  wDesc := ofQ_pos _ (by decide) (by decide)
  wKeys := ofQ_pos _ (by decide) (by decide)
  wTags := ofQ_pos _ (by decide) (by decide)
  bCmd0 := ofQ_nonneg _ (by decide) (by decide)
  bDesc0 := ofQ_nonneg _ (by decide) (by decide)
  bKeys0 := ofQ_nonneg _ (by decide) (by decide)
  bTags0 := ofQ_nonneg _ (by decide) (by decide)
  bCmd1 := ofQ_le_one _ (by decide) (by decide)
  bDesc1 := ofQ_le_one _ (by decide) (by decide)
  bKeys1 := ofQ_le_one _ (by decide) (by decide)
  bTags1 := ofQ_le_one _ (by decide) (by decide)
  minIDF := ofQ_nonneg _ (by decide) (by decide)

theorem fieldBM25_nonneg' {k1 w b : S} (hk : Nonneg k1) (hw : Pos w) (hb0 : Nonneg b) (hb1 : ge (one : S) b)
    (tf dl : Nat) (htf : 0 < tf) (avgdl : S) :
    Nonneg (fieldBM25 k1 (ofNat tf) (ofNat dl) avgdl w b) := by
  unfold fieldBM25
  simp only
  have htfp : Pos (ofNat tf : S) := ofNat_pos tf htf
  have hwt : Pos (mul w (ofNat tf : S)) := mul_pos _ _ hw htfp
  have havg : Pos (if ScoreOps.le avgdl zero then (one : S) else avgdl) := by
    unfold ScoreOps.le
    cases h : lt (zero : S) avgdl with
    | true => simpa using h
    | false => simpa using one_pos
  have hdiv : Nonneg (div (ofNat dl : S) (if ScoreOps.le avgdl zero then (one : S) else avgdl)) :=
    div_nonneg _ _ (ofNat_nonneg dl) havg
  have hnorm : Nonneg (add (sub (one : S) b) (mul b (div (ofNat dl : S) (if ScoreOps.le avgdl zero then (one : S) else avgdl)))) :=
    add_nonneg _ _ (sub_nonneg _ _ hb1) (mul_nonneg _ _ hb0 hdiv)
  have hden : Pos (add (mul w (ofNat tf : S))
      (mul k1 (add (sub (one : S) b) (mul b (div (ofNat dl : S) (if ScoreOps.le avgdl zero then (one : S) else avgdl)))))) :=
    add_pos_of_pos_nonneg _ _ hwt (mul_nonneg _ _ hk hnorm)
  have hnum : Nonneg (mul (mul w (ofNat tf : S)) (add k1 one)) :=
    mul_nonneg _ _ (pos_nonneg hwt) (add_nonneg _ _ hk one_nonneg)
  exact div_nonneg _ _ hnum hden

theorem termBM25F_nonneg {P : Params S} (hP : ParamsSane P) (n : Nat) (tot dl : DocLens) (tf : FieldTF) :
    Nonneg (termBM25F P n tot dl tf) := by
  unfold termBM25F
  simp only
  have step : ∀ (s : S) (c : Nat) (x : S), Nonneg s → (0 < c → Nonneg x) →
      Nonneg (if c > 0 then add s x else s) := by
    intro s c x hs hx
    split
    · rename_i h; exact add_nonneg _ _ hs (hx h)
    · exact hs
  apply step
  · apply step
    · apply step
      · apply step
        · exact zero_nonneg
        · intro h; exact fieldBM25_nonneg' hP.k1 hP.wCmd hP.bCmd0 hP.bCmd1 _ _ h _
      · intro h; exact fieldBM25_nonneg' hP.k1 hP.wDesc hP.bDesc0 hP.bDesc1 _ _ h _
    · intro h; exact fieldBM25_nonneg' hP.k1 hP.wKeys hP.bKeys0 hP.bKeys1 _ _ h _
  · intro h; exact fieldBM25_nonneg' hP.k1 hP.wTags hP.bTags0 hP.bTags1 _ _ h _

end bm25

end Wtf.C13
