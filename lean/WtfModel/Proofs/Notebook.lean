import WtfModel.Model.Notebook
/-! Helper lemmas for C08 (notebook list update and its file-level wrapper). -/
namespace Wtf.Notebook

/-! ### the list update -/

theorem save_mem (xs : List Cmd) (e : Cmd) : e ∈ save xs e := by
  induction xs with
  | nil => simp [save]
  | cons x xs ih =>
    simp only [save]
    split
    · simp
    · simp [ih]

theorem present_cons (c : Bytes) (x : Cmd) (xs : List Cmd) :
    present c (x :: xs) = (decide (x.command = c) || present c xs) := by
  simp [present]

theorem indexOf_lt_of_present (c : Bytes) (xs : List Cmd) (h : present c xs = true) : indexOf c xs < xs.length := by
  induction xs with
  | nil => simp [present] at h
  | cons x xs ih =>
    simp only [indexOf]
    split
    · simp
    · rename_i hne
      rw [present_cons] at h
      simp [hne] at h
      have := ih h
      simp; omega

theorem indexOf_eq_length_of_absent (c : Bytes) (xs : List Cmd) (h : present c xs = false) : indexOf c xs = xs.length := by
  induction xs with
  | nil => rfl
  | cons x xs ih =>
    rw [present_cons] at h
    simp at h
    simp [indexOf, h.1, ih h.2]

theorem indexOf_le (c : Bytes) (xs : List Cmd) : indexOf c xs ≤ xs.length := by
  induction xs with
  | nil => simp [indexOf]
  | cons x xs ih => simp only [indexOf]; split <;> simp <;> omega

/-- the entry at `indexOf` (when there is one) carries that command string -/
theorem getElem_indexOf (c : Bytes) (xs : List Cmd) (x : Cmd) (h : xs[indexOf c xs]? = some x) : x.command = c := by
  induction xs with
  | nil => simp at h
  | cons y ys ih =>
    simp only [indexOf] at h
    split at h
    · rename_i hy; simp at h; subst h; exact hy
    · simp at h; exact ih h

/-- the saved entry sits at the position of the first entry with its command string, else at the end -/
theorem save_getElem_index (xs : List Cmd) (e : Cmd) : (save xs e)[indexOf e.command xs]? = some e := by
  induction xs with
  | nil => simp [save, indexOf]
  | cons x xs ih =>
    simp only [save, indexOf]
    split
    · simp
    · simpa using ih

/-- every other position is untouched -/
theorem save_getElem_other (xs : List Cmd) (e : Cmd) (i : Nat) (hi : i < xs.length) (hne : i ≠ indexOf e.command xs) :
    (save xs e)[i]? = xs[i]? := by
  induction xs generalizing i with
  | nil => simp at hi
  | cons x xs ih =>
    simp only [save]
    simp only [indexOf] at hne
    split
    · rename_i hx
      simp only [hx, ↓reduceIte] at hne
      cases i with
      | zero => exact absurd rfl hne
      | succ j => simp
    · rename_i hx
      simp only [hx, ↓reduceIte] at hne
      cases i with
      | zero => simp
      | succ j =>
        simp only [List.getElem?_cons_succ]
        exact ih j (by simpa using hi) (by omega)

theorem save_length (xs : List Cmd) (e : Cmd) :
    (save xs e).length = if present e.command xs then xs.length else xs.length + 1 := by
  induction xs with
  | nil => simp [save, present]
  | cons x xs ih =>
    rw [present_cons]
    simp only [save]
    split
    · rename_i hx; simp [hx]
    · rename_i hx
      simp only [List.length_cons, ih, hx, decide_false, Bool.false_or]
      split <;> rfl

/-- the command strings after a save: unchanged when the string was present, one more at the end otherwise -/
theorem save_commands (xs : List Cmd) (e : Cmd) :
    (save xs e).map (·.command) =
      if present e.command xs then xs.map (·.command) else xs.map (·.command) ++ [e.command] := by
  induction xs with
  | nil => simp [save, present]
  | cons x xs ih =>
    rw [present_cons]
    simp only [save]
    split
    · rename_i hx; simp [hx]
    · rename_i hx
      simp only [List.map_cons, ih, hx, decide_false, Bool.false_or]
      split <;> simp

theorem not_mem_commands_of_absent (c : Bytes) (xs : List Cmd) (h : present c xs = false) : c ∉ xs.map (·.command) := by
  induction xs with
  | nil => simp
  | cons x xs ih =>
    rw [present_cons] at h
    simp at h
    simp only [List.map_cons, List.mem_cons, not_or]
    exact ⟨fun e => h.1 e.symm, ih h.2⟩

theorem save_nodup (xs : List Cmd) (e : Cmd) (h : (xs.map (·.command)).Nodup) : ((save xs e).map (·.command)).Nodup := by
  rw [save_commands]
  cases hp : present e.command xs with
  | true => simpa using h
  | false =>
    simp only [Bool.false_eq_true, ↓reduceIte]
    rw [List.nodup_append]
    refine ⟨h, by simp, ?_⟩
    intro a ha b hb
    simp at hb; subst hb
    intro hab; subst hab
    exact not_mem_commands_of_absent _ xs hp ha

/-! ### the file level -/

variable (enc : List Cmd → Bytes) (dec : Bytes → Option (List Cmd))

theorem saveFile_ok {file : Option Bytes} {e : Cmd} {b : Bytes} (h : saveFile enc dec file e = .ok b) :
    ∃ xs, loadFile dec file = some xs ∧ b = enc (save xs e) ∧ dec b = some (save xs e) := by
  unfold saveFile at h
  split at h
  · cases h
  · rename_i xs hx
    simp only at h
    split at h
    · rename_i hrt
      cases h
      exact ⟨xs, hx, rfl, hrt⟩
    · cases h

theorem saveFile_of_roundtrip {file : Option Bytes} {e : Cmd} {xs : List Cmd} (hx : loadFile dec file = some xs)
    (hrt : RoundTrips enc dec (save xs e)) : saveFile enc dec file e = .ok (enc (save xs e)) := by
  unfold saveFile
  rw [hx]
  simp only
  unfold RoundTrips at hrt
  rw [if_pos hrt]

theorem stepFile_load {file : Option Bytes} {e : Cmd} {xs : List Cmd} (hx : loadFile dec file = some xs) :
    (∃ b, saveFile enc dec file e = .ok b ∧ stepFile enc dec file e = some b ∧ loadFile dec (some b) = some (save xs e)) ∨
    (∃ err, saveFile enc dec file e = .error err ∧ stepFile enc dec file e = file) := by
  cases hs : saveFile enc dec file e with
  | ok b =>
    left
    obtain ⟨ys, hy, _, hd⟩ := saveFile_ok enc dec hs
    rw [hx] at hy; cases hy
    exact ⟨b, rfl, by simp [stepFile, hs], by simpa [loadFile] using hd⟩
  | error err => right; exact ⟨err, rfl, by simp [stepFile, hs]⟩

/-- after any sequence of save commands the file decodes to the fold of `save` over those that succeeded -/
theorem runFile_load (es : List Cmd) :
    ∀ (file : Option Bytes) (xs : List Cmd), loadFile dec file = some xs →
      loadFile dec (runFile enc dec file es) = some ((succeeded enc dec file es).foldl save xs) := by
  induction es with
  | nil => intro file xs hx; simpa [runFile, succeeded] using hx
  | cons e es ih =>
    intro file xs hx
    rcases stepFile_load enc dec (e := e) hx with ⟨b, hs, hst, hl⟩ | ⟨err, hs, hst⟩
    · have := ih (some b) (save xs e) hl
      simp only [runFile, List.foldl_cons, succeeded, hs, hst] at this ⊢
      exact this
    · have := ih file xs hx
      simp only [runFile, List.foldl_cons, succeeded, hs, hst] at this ⊢
      exact this

/-- with the round-trip contract for every list, every save succeeds -/
theorem succeeded_all (hrt : ∀ ys, RoundTrips enc dec ys) (es : List Cmd) :
    ∀ (file : Option Bytes) (xs : List Cmd), loadFile dec file = some xs → succeeded enc dec file es = es := by
  induction es with
  | nil => intros; rfl
  | cons e es ih =>
    intro file xs hx
    have hs := saveFile_of_roundtrip enc dec hx (hrt (save xs e))
    simp only [succeeded, hs]
    rw [ih (some (enc (save xs e))) (save xs e) (by have := hrt (save xs e); unfold RoundTrips at this; simpa [loadFile] using this)]

end Wtf.Notebook
