import Mathlib.Analysis.Real.Sqrt
import WtfModel.Proofs.EScoreField

/-! `ℝ` with `Real.sqrt` satisfies `SqrtLaws`: the hypotheses of the field-level theorems are
    dischargeable. -/
namespace Wtf

noncomputable instance : HasSqrt ℝ := ⟨Real.sqrt⟩

instance : SqrtLaws ℝ where
  sqrt_nonneg := Real.sqrt_nonneg
  sqrt_mul_self := fun _ h => Real.mul_self_sqrt h

end Wtf
