import WtfModel.Proofs.SearchPaths
import WtfModel.Proofs.FuzzyAccept
import WtfModel.Proofs.Utf8Nul
/-
  Helper lemmas for C07 (and the panic-freedom part C10 needs): the rune equality of the matcher, what
  `matchOne` / `findNoSort` return on NUL-free targets, what `fuzzyCollect` keeps, and the shape of
  `search` around the fallback.  Everything lives in namespace `Wtf.C07` so that nothing clashes with the
  lemmas other builders add to `Wtf.Search`.  Core Lean only.
-/
namespace Wtf.C07
open Wtf.Text Wtf.Filters Wtf.Search Wtf.Fuzzy Wtf.Utf8 ScoreOps

/-! ### the matcher's rune equality -/

/-- table condition: no listed code point folds to 0 (U+0000 is alone in its SimpleFold orbit).  Validated
    on every rune table the harness dumps, and for all 1,114,112 code points by `wtfverif tool c07unicode`. -/
def FoldOK (ri : RuneInfo) : Prop := ∀ f ∈ ri.table, f.foldRep ≠ 0

theorem eqFold_symm (ri : RuneInfo) (a b : Nat) : ri.eqFold a b = ri.eqFold b a := by
  unfold RuneInfo.eqFold
  rw [Bool.beq_comm (a := a), Bool.beq_comm (a := ri.foldRep a)]

theorem foldRep_ne_zero (ri : RuneInfo) (h : FoldOK ri) (c : Nat) (hc : c ≠ 0) : ri.foldRep c ≠ 0 := by
  unfold RuneInfo.foldRep
  split
  · split
    · rename_i h2; simp only [Bool.and_eq_true, decide_eq_true_eq] at h2; omega
    · exact hc
  · split
    · rename_i f hf
      unfold RuneInfo.find at hf
      exact h f (List.mem_of_find?_eq_some hf)
    · exact hc

theorem foldRep_zero (ri : RuneInfo) : ri.foldRep 0 = 0 := by
  unfold RuneInfo.foldRep; simp

/-- rune 0 is equal only to itself -/
theorem eqFold_zero (ri : RuneInfo) (h : FoldOK ri) (c : Nat) (hc : c ≠ 0) : ri.eqFold 0 c = false := by
  unfold RuneInfo.eqFold
  rw [foldRep_zero]
  have h1 : (0 == c) = false := by simpa using (Ne.symm hc)
  have h2 : (0 == ri.foldRep c) = false := by simpa using (Ne.symm (foldRep_ne_zero ri h c hc))
  simp [h1, h2]

/-! ### NUL-free targets -/

theorem nulToSpace_ne_zero (s : Bytes) : ∀ b ∈ nulToSpace s, b ≠ 0 := by
  intro b hb
  simp only [nulToSpace, List.mem_map] at hb
  obtain ⟨a, _, rfl⟩ := hb
  split
  · decide
  · rename_i h; simpa using h

/-- the targets handed to the matcher contain no NUL byte (performFuzzySearch's `ReplaceAll`) … -/
theorem fuzzyTarget_bytes_ne_zero (c : Cmd) : ∀ b ∈ fuzzyTarget c, b ≠ 0 := nulToSpace_ne_zero _

/-- … hence no rune 0 -/
theorem fuzzyTarget_runes_ne_zero (c : Cmd) : ∀ r ∈ runes (fuzzyTarget c), r ≠ 0 :=
  runes_ne_zero _ (fuzzyTarget_bytes_ne_zero c)

theorem runes_ne_nil (s : Bytes) (h : s ≠ []) : runes s ≠ [] := by
  cases s with
  | nil => exact absurd rfl h
  | cons b rest => simp [runes, decode, decodeAux]

/-! ### one target -/

/-- For a non-empty pattern and a NUL-free target the matcher does not panic, and it reports a match iff the
    pattern's runes occur in the target's runes in order under simple case folding. -/
theorem matchOne_spec (ri : RuneInfo) (hf : FoldOK ri) (p t : Bytes) (hp : p ≠ []) (ht : ∀ c ∈ runes t, c ≠ 0) :
    ∃ r, matchOne ri p t = .ok r ∧ r.isSome = subseqFold ri.eqFold (runes p) (runes t) := by
  obtain ⟨rem, sn, hrun, hacc⟩ := arun_accepts ri.eqFold (eqFold_symm ri) (eqFold_zero ri hf) (runes p) (runes t)
    (runes_ne_nil p hp) ht
  obtain ⟨habs, _⟩ := loop_abs ri (runes p).toArray (decode t) {} inv_init (Nat.zero_le _)
  have hrun' : arun ri.eqFold (List.drop ({} : St).patternIndex (runes p).toArray.toList)
      (decide (({} : St).matchedIndex > -1)) ((decode t).map (·.1)) = .ok (rem, sn) := by
    simpa [runes] using hrun
  obtain ⟨s', hloop, hinv, hle, hdrop, _⟩ := habs rem sn hrun'
  unfold matchOne
  simp only [hloop]
  have hsize : (runes p).toArray.size = (runes p).length := by simp
  have hle' : s'.patternIndex ≤ (runes p).length := by simpa using hle
  have hlen : (s'.matched.length == (runes p).toArray.size) = rem.isEmpty := by
    rw [hinv.len, ← hdrop, hsize]
    by_cases h : s'.patternIndex = (runes p).length
    · simp [h]
    · have h1 : (s'.patternIndex == (runes p).length) = false := by simpa using h
      have h2 : List.drop s'.patternIndex (runes p) ≠ [] := by
        intro h0; rw [List.drop_eq_nil_iff] at h0; omega
      rw [h1]
      cases hd : List.drop s'.patternIndex (runes p) with
      | nil => exact absurd hd h2
      | cons _ _ => rfl
  rw [hlen, hacc]
  cases subseqFold ri.eqFold (runes p) (runes t) with
  | true => exact ⟨_, rfl, rfl⟩
  | false => exact ⟨_, rfl, rfl⟩

/-! ### all targets -/

/-- what `FindFromNoSort` reports when no target makes the matcher panic: exactly the targets that match,
    each with its library score -/
theorem findNoSort_go_spec (ri : RuneInfo) (p : Bytes) (ts : List Bytes) (i : Nat)
    (hok : ∀ t ∈ ts, ∃ r, matchOne ri p t = .ok r) :
    ∃ ms, findNoSort.go ri p i ts = .ok ms ∧
      ∀ k sc, (k, sc) ∈ ms ↔ ∃ t idxs, i ≤ k ∧ ts[k - i]? = some t ∧ matchOne ri p t = .ok (some (sc, idxs)) := by
  induction ts generalizing i with
  | nil => exact ⟨[], rfl, by intro k sc; simp⟩
  | cons t rest ih =>
    obtain ⟨ms, hms, hspec⟩ := ih (i + 1) (fun t' ht' => hok t' (List.mem_cons_of_mem _ ht'))
    obtain ⟨r, hr⟩ := hok t (by simp)
    have shift : ∀ k sc, (k, sc) ∈ ms ↔
        ∃ t' idxs, i ≤ k ∧ k ≠ i ∧ (t :: rest)[k - i]? = some t' ∧ matchOne ri p t' = .ok (some (sc, idxs)) := by
      intro k sc
      rw [hspec]
      constructor
      · rintro ⟨t', idxs, hle, hget, hm⟩
        refine ⟨t', idxs, by omega, by omega, ?_, hm⟩
        have : k - i = (k - (i + 1)) + 1 := by omega
        rw [this, List.getElem?_cons_succ]; exact hget
      · rintro ⟨t', idxs, hle, hne, hget, hm⟩
        refine ⟨t', idxs, by omega, ?_, hm⟩
        have : k - i = (k - (i + 1)) + 1 := by omega
        rw [this, List.getElem?_cons_succ] at hget; exact hget
    cases r with
    | none =>
      refine ⟨ms, by simp only [findNoSort.go, hr, hms], ?_⟩
      intro k sc
      rw [shift]
      constructor
      · rintro ⟨t', idxs, hle, _, hget, hm⟩; exact ⟨t', idxs, hle, hget, hm⟩
      · rintro ⟨t', idxs, hle, hget, hm⟩
        refine ⟨t', idxs, hle, ?_, hget, hm⟩
        intro hk
        subst hk
        simp only [Nat.sub_self, List.getElem?_cons_zero, Option.some.injEq] at hget
        subst hget
        rw [hr] at hm; cases hm
    | some m =>
      obtain ⟨sc0, idx0⟩ := m
      refine ⟨(i, sc0) :: ms, by simp only [findNoSort.go, hr, hms], ?_⟩
      intro k sc
      simp only [List.mem_cons, Prod.mk.injEq]
      rw [shift]
      constructor
      · rintro (⟨rfl, rfl⟩ | ⟨t', idxs, hle, _, hget, hm⟩)
        · exact ⟨t, idx0, Nat.le_refl _, by simp, hr⟩
        · exact ⟨t', idxs, hle, hget, hm⟩
      · rintro ⟨t', idxs, hle, hget, hm⟩
        by_cases hk : k = i
        · subst hk
          simp only [Nat.sub_self, List.getElem?_cons_zero, Option.some.injEq] at hget
          subst hget
          rw [hr] at hm
          injection hm with hm; injection hm with hm; injection hm with h1 h2
          exact Or.inl ⟨rfl, h1.symm⟩
        · exact Or.inr ⟨t', idxs, hle, hk, hget, hm⟩

theorem findNoSort_spec (ri : RuneInfo) (p : Bytes) (ts : List Bytes) (hp : p ≠ [])
    (hok : ∀ t ∈ ts, ∃ r, matchOne ri p t = .ok r) :
    ∃ ms, findNoSort ri p ts = .ok ms ∧
      ∀ k sc, (k, sc) ∈ ms ↔ ∃ t idxs, ts[k]? = some t ∧ matchOne ri p t = .ok (some (sc, idxs)) := by
  obtain ⟨ms, hms, hspec⟩ := findNoSort_go_spec ri p ts 0 hok
  refine ⟨ms, ?_, ?_⟩
  · unfold findNoSort
    have : p.isEmpty = false := by cases p with | nil => exact absurd rfl hp | cons _ _ => rfl
    simp only [this, Bool.false_eq_true, if_false]
    exact hms
  · intro k sc
    rw [hspec]
    constructor
    · rintro ⟨t, idxs, _, hget, hm⟩; exact ⟨t, idxs, by simpa using hget, hm⟩
    · rintro ⟨t, idxs, hget, hm⟩; exact ⟨t, idxs, Nat.zero_le _, by simpa using hget, hm⟩

/-- the matcher over the database's fuzzy targets: never a panic (the NUL guard), and a complete
    characterisation of the matches for a non-empty pattern -/
theorem findNoSort_targets (ri : RuneInfo) (hf : FoldOK ri) (db : Db) (nq : Bytes) :
    ∃ ms, findNoSort ri nq (db.map fuzzyTarget) = .ok ms ∧
      ∀ k sc, (k, sc) ∈ ms ↔ nq ≠ [] ∧ ∃ c idxs, db[k]? = some c ∧
        matchOne ri nq (fuzzyTarget c) = .ok (some (sc, idxs)) := by
  by_cases hq : nq = []
  · subst hq
    exact ⟨[], by simp [findNoSort], by intro k sc; simp⟩
  · have hok : ∀ t ∈ db.map fuzzyTarget, ∃ r, matchOne ri nq t = .ok r := by
      intro t ht
      rw [List.mem_map] at ht
      obtain ⟨c, _, rfl⟩ := ht
      obtain ⟨r, hr, _⟩ := matchOne_spec ri hf nq (fuzzyTarget c) hq (fuzzyTarget_runes_ne_zero c)
      exact ⟨r, hr⟩
    obtain ⟨ms, hms, hspec⟩ := findNoSort_spec ri nq (db.map fuzzyTarget) hq hok
    refine ⟨ms, hms, ?_⟩
    intro k sc
    rw [hspec]
    constructor
    · rintro ⟨t, idxs, hget, hm⟩
      rw [List.getElem?_map] at hget
      cases hc : db[k]? with
      | none => rw [hc] at hget; cases hget
      | some c =>
        rw [hc] at hget
        simp only [Option.map_some, Option.some.injEq] at hget
        subst hget
        exact ⟨hq, c, idxs, rfl, hm⟩
    · rintro ⟨_, c, idxs, hc, hm⟩
      exact ⟨fuzzyTarget c, idxs, by rw [List.getElem?_map, hc]; rfl, hm⟩

/-! ### the fallback as a whole -/

variable {S : Type} [ScoreOps S]

/-- the library's final sort (`sort.Stable` with `Less = Score >`): a permutation, best score first.
    Discharged by the contract of `sort.Stable` (trusted base); checked on every generated case: the driver
    accepts Go's order only if it is a score-sorted permutation of the model's own matches, and the C07
    monitor re-checks the order of the real answer. -/
def SortOK (T : Tuning S) : Prop :=
  ∀ ms, (T.fuzzySort ms).Perm ms ∧ (T.fuzzySort ms).Pairwise (fun a b => a.2 ≥ b.2)

/-- the typo fallback never panics (every target is NUL-free) -/
theorem fuzzySearch_ok (T : Tuning S) (hf : FoldOK T.ri) (db : Db) (nq : Bytes) (o : Opts S) (limit : Nat) :
    ∃ r, fuzzySearch T db nq o limit = .ok r := by
  obtain ⟨ms, hms, _⟩ := findNoSort_targets T.ri hf db nq
  refine ⟨(fuzzyCollect T db o (limit * fuzzyMult) (T.fuzzySort ms) []).take limit, ?_⟩
  unfold fuzzySearch; simp only [hms]

/-- a library match that the fallback keeps: the command exists, passes the gate and the threshold -/
def Kept (T : Tuning S) (db : Db) (o : Opts S) (m : Nat × Int) : Prop :=
  Eligible T db o m.1 ∧ (o.fuzzyThreshold ≠ 0 → o.fuzzyThreshold ≤ m.2)

instance (T : Tuning S) (db : Db) (o : Opts S) (m : Nat × Int) : Decidable (Kept T db o m) := by
  unfold Kept Eligible
  cases h : db[m.1]? with
  | none => exact isFalse (by rintro ⟨⟨c, hc, _⟩, _⟩; cases hc)
  | some c =>
    by_cases hp : passes T.ri T.host o.filter c = true
    · by_cases ht : o.fuzzyThreshold ≠ 0 → o.fuzzyThreshold ≤ m.2
      · exact isTrue ⟨⟨c, rfl, hp⟩, ht⟩
      · exact isFalse (fun h' => ht h'.2)
    · exact isFalse (by rintro ⟨⟨c', hc', hp'⟩, _⟩; cases hc'; exact hp hp')

/-- `fuzzyCollect` walks the sorted matches in order and keeps a prefix-bounded sub-list of the kept ones,
    each with its normalised score -/
theorem fuzzyCollect_sublist (T : Tuning S) (db : Db) (o : Opts S) (cap : Nat) (l : List (Nat × Int))
    (acc : List (Nat × S)) :
    ∃ sub : List (Nat × Int), sub.Sublist l ∧ (∀ m ∈ sub, Kept T db o m) ∧
      fuzzyCollect T db o cap l acc = acc.reverse ++ sub.map (fun m => (m.1, normalizeFuzzy m.2)) := by
  induction l generalizing acc with
  | nil => exact ⟨[], List.Sublist.refl _, by simp, by simp [fuzzyCollect]⟩
  | cons m rest ih =>
    obtain ⟨i, sc⟩ := m
    unfold fuzzyCollect
    split
    · exact ⟨[], List.nil_sublist _, by simp, by simp⟩
    · split
      · obtain ⟨sub, h1, h2, h3⟩ := ih acc; exact ⟨sub, h1.cons _, h2, h3⟩
      · rename_i c hc
        split
        · obtain ⟨sub, h1, h2, h3⟩ := ih acc; exact ⟨sub, h1.cons _, h2, h3⟩
        · rename_i hp
          split
          · obtain ⟨sub, h1, h2, h3⟩ := ih acc; exact ⟨sub, h1.cons _, h2, h3⟩
          · rename_i hthr
            obtain ⟨sub, h1, h2, h3⟩ := ih ((i, normalizeFuzzy sc) :: acc)
            refine ⟨(i, sc) :: sub, h1.cons_cons _, ?_, ?_⟩
            · intro m hm
              simp only [List.mem_cons] at hm
              rcases hm with rfl | hm
              · refine ⟨⟨c, hc, by simpa using hp⟩, ?_⟩
                intro h0
                have hb : (o.fuzzyThreshold != 0) = true := by simpa using h0
                simp only [hb, Bool.true_and, decide_eq_true_eq] at hthr
                simp only; omega
              · exact h2 m hm
            · rw [h3]; simp

/-- with room for at least one result, a kept match anywhere in the list makes the collection non-empty -/
theorem fuzzyCollect_ne_nil (T : Tuning S) (db : Db) (o : Opts S) (cap : Nat) (hcap : 1 ≤ cap)
    (l : List (Nat × Int)) (acc : List (Nat × S)) (h : acc ≠ [] ∨ ∃ m ∈ l, Kept T db o m) :
    fuzzyCollect T db o cap l acc ≠ [] := by
  induction l generalizing acc with
  | nil =>
    rcases h with h | ⟨m, hm, _⟩
    · simpa [fuzzyCollect] using h
    · cases hm
  | cons m rest ih =>
    obtain ⟨i, sc⟩ := m
    have hacc : acc.length ≥ cap → acc ≠ [] := by
      intro hl h0; rw [h0] at hl; simp at hl; omega
    have skip : ¬ Kept T db o (i, sc) → (acc ≠ [] ∨ ∃ m ∈ rest, Kept T db o m) := by
      intro hn
      rcases h with h | ⟨m, hm, hk⟩
      · exact Or.inl h
      · simp only [List.mem_cons] at hm
        rcases hm with rfl | hm
        · exact absurd hk hn
        · exact Or.inr ⟨m, hm, hk⟩
    unfold fuzzyCollect
    split
    · rename_i hge; simpa using hacc hge
    · split
      · rename_i hnone
        exact ih acc (skip (by rintro ⟨⟨c, hc, _⟩, _⟩; simp only at hc; rw [hnone] at hc; cases hc))
      · rename_i c hc
        split
        · rename_i hp
          refine ih acc (skip ?_)
          rintro ⟨⟨c', hc', hp'⟩, _⟩
          simp only at hc'; rw [hc] at hc'; cases hc'
          simp [hp'] at hp
        · split
          · rename_i hthr
            refine ih acc (skip ?_)
            rintro ⟨_, ht⟩
            simp only [Bool.and_eq_true, bne_iff_ne, ne_eq, decide_eq_true_eq] at hthr
            have := ht hthr.1
            simp only at this; omega
          · exact ih _ (Or.inl (by simp))

/-! ### a lexical answer is never empty -/

theorem rerank_ne_nil (T : Tuning S) (nq : Bytes) (limit : Nat) (r : List (Nat × S)) (h : r ≠ []) :
    rerank T nq limit r ≠ [] := by
  unfold rerank
  split
  · exact h
  · intro h0
    have hl := congrArg List.length h0
    simp only [length_sortDesc, List.length_map, List.length_take, List.length_nil] at hl
    have : 0 < r.length := List.length_pos_iff.mpr h
    have : 1 ≤ max (limit * rerankMult) rerankMin := by unfold rerankMin Gen.SearchParams.rerankMin; omega
    omega

theorem cascade_ne_nil (n : NlpOut S) (r : List (Nat × S)) (h : r ≠ []) : cascadeStage n r ≠ [] := by
  unfold cascadeStage
  split
  · exact h
  · intro h0
    have hl := congrArg List.length h0
    simp only [length_sortDesc, List.length_map, List.length_nil] at hl
    exact h (List.length_eq_zero_iff.mp hl)

omit [ScoreOps S] in
theorem effLimit_pos (o : Opts S) : 1 ≤ effLimit o := by
  unfold effLimit defaultLimit Gen.SearchParams.defaultLimit
  split
  · omega
  · omega

/-- when SearchUniversal answers lexically it returns at least one result -/
theorem lexical_ne_nil (T : Tuning S) (db : Db) (q : Bytes) (o : Opts S) {r : List (Nat × S)}
    (h : lexical T db q o = some r) : r ≠ [] := by
  obtain ⟨_, hne, hr⟩ := ite_ite_some _ _ _ _ h
  subst hr
  generalize hpq : (if o.useNLP = true then some (T.nlp (T.normQ q)) else none : Option (NlpOut S)) = pq at hne ⊢
  generalize hsc : initialScores T db (Index.build db) o pq _ = scores at hne ⊢
  have hinv : ScoresInv T db o scores := hsc ▸ initialScores_inv T db (Index.build db) o pq _
  have hcol : (collect T db o pq scores).map (·.1) = scores.map (·.1) :=
    collect_ids T db o pq scores (fun k hk => let ⟨c, hc, _⟩ := hinv.2 k hk; ⟨c, hc⟩)
  have hs : scores ≠ [] := by simpa using hne
  have h0 : sortDesc (·.2) (collect T db o pq scores) ≠ [] := by
    intro h0
    have hl := congrArg List.length h0
    have hl2 := congrArg List.length hcol
    simp only [length_sortDesc, List.length_map, List.length_nil] at hl hl2
    exact hs (List.length_eq_zero_iff.mp (by omega))
  have h1 : (if o.useNLP = true then rerank T (T.normQ q) (effLimit o) (sortDesc (·.2) (collect T db o pq scores))
      else sortDesc (·.2) (collect T db o pq scores)) ≠ [] := by
    split
    · exact rerank_ne_nil _ _ _ _ h0
    · exact h0
  have h2 : (match pq with
      | some n => cascadeStage n (if o.useNLP = true then rerank T (T.normQ q) (effLimit o) (sortDesc (·.2) (collect T db o pq scores))
          else sortDesc (·.2) (collect T db o pq scores))
      | none => (if o.useNLP = true then rerank T (T.normQ q) (effLimit o) (sortDesc (·.2) (collect T db o pq scores))
          else sortDesc (·.2) (collect T db o pq scores))) ≠ [] := by
    cases pq with
    | none => exact h1
    | some n => exact cascade_ne_nil n _ h1
  intro h3
  have := effLimit_pos o
  rw [List.take_eq_nil_iff] at h3
  rcases h3 with h3 | h3
  · omega
  · exact h2 h3

/-! ### `search` around the fallback -/

/-- "nothing matches lexically": the request without typo tolerance returns the empty list exactly when
    SearchUniversal took one of its two "nothing" exits -/
theorem off_empty_iff (T : Tuning S) (db : Db) (q : Bytes) (o : Opts S) :
    search T db q { o with useFuzzy := false } = .ok [] ↔ lexical T db q o = none := by
  rw [search_eq, lexical_useFuzzy]
  cases hl : lexical T db q o with
  | none => simp [orElse, fallback]
  | some r =>
    simp only [orElse, Except.ok.injEq, reduceCtorEq, iff_false]
    exact lexical_ne_nil T db q o hl

/-- with typo tolerance on and nothing matching lexically, the answer is the fallback's -/
theorem on_of_lexical_none (T : Tuning S) (db : Db) (q : Bytes) (o : Opts S) (h : lexical T db q o = none) :
    search T db q { o with useFuzzy := true } =
      fuzzySearch T db (T.normQ q) { o with useFuzzy := true } (effLimit o) := by
  rw [search_eq, lexical_useFuzzy, h]
  simp [orElse, fallback, effLimit]

/-- every result of the fallback, spelled out -/
theorem fuzzySearch_genuine (T : Tuning S) (hf : FoldOK T.ri) (hs : SortOK T) (db : Db) (nq : Bytes) (o : Opts S)
    (limit : Nat) {r : List (Nat × S)} (h : fuzzySearch T db nq o limit = .ok r) :
    ∀ x ∈ r, ∃ c sc idxs, db[x.1]? = some c ∧ nq ≠ [] ∧
      matchOne T.ri nq (fuzzyTarget c) = .ok (some (sc, idxs)) ∧
      subseqFold T.ri.eqFold (runes nq) (runes (fuzzyTarget c)) = true ∧
      (o.fuzzyThreshold ≠ 0 → o.fuzzyThreshold ≤ sc) ∧ x.2 = normalizeFuzzy sc ∧
      passes T.ri T.host o.filter c = true := by
  obtain ⟨ms, hms, _, hall⟩ := fuzzySearch_entries T db nq o limit h
  obtain ⟨ms', hms', hspec⟩ := findNoSort_targets T.ri hf db nq
  rw [hms] at hms'; injection hms' with hms'; subst hms'
  intro x hx
  obtain ⟨sc, hmem, ⟨c, hc, hp⟩, hthr, hnorm⟩ := hall x hx
  have hmem' : (x.1, sc) ∈ ms := (hs ms).1.mem_iff.mp hmem
  obtain ⟨hq, c', idxs, hc', hm⟩ := (hspec x.1 sc).mp hmem'
  rw [hc] at hc'; injection hc' with hc'; subst hc'
  obtain ⟨r', hr', hsome⟩ := matchOne_spec T.ri hf nq (fuzzyTarget c) hq (fuzzyTarget_runes_ne_zero c)
  rw [hm] at hr'; injection hr' with hr'; subst hr'
  exact ⟨c, sc, idxs, hc, hq, hm, by simpa using hsome.symm, hthr, hnorm, hp⟩

/-- the fallback's answer is the normalised image of an in-order sub-list of the library's sorted matches -/
theorem fuzzySearch_sorted (T : Tuning S) (hs : SortOK T) (db : Db) (nq : Bytes) (o : Opts S) (limit : Nat)
    {r : List (Nat × S)} (h : fuzzySearch T db nq o limit = .ok r) :
    ∃ ms : List (Nat × Int), r = ms.map (fun m => (m.1, normalizeFuzzy m.2)) ∧
      ms.Pairwise (fun a b => a.2 ≥ b.2) ∧ ∀ m ∈ ms, Kept T db o m := by
  obtain ⟨ms, _, hr, _⟩ := fuzzySearch_entries T db nq o limit h
  obtain ⟨sub, hsub, hkept, hcol⟩ := fuzzyCollect_sublist T db o (limit * fuzzyMult) (T.fuzzySort ms) []
  refine ⟨sub.take limit, ?_, ?_, ?_⟩
  · rw [hr, hcol]; simp [List.map_take]
  · exact ((hs ms).2.sublist hsub).sublist (List.take_sublist _ _)
  · intro m hm; exact hkept m (List.mem_of_mem_take hm)

/-- completeness of the fallback: no threshold, room for one result, an eligible command whose text has the
    pattern as a folded subsequence ⇒ a non-empty answer -/
theorem fuzzySearch_complete (T : Tuning S) (hf : FoldOK T.ri) (hs : SortOK T) (db : Db) (nq : Bytes) (o : Opts S)
    (limit : Nat) (hl : 1 ≤ limit) (h0 : o.fuzzyThreshold = 0) (hq : nq ≠ [])
    (hd : ∃ (i : Nat) (c : Cmd), db[i]? = some c ∧ passes T.ri T.host o.filter c = true ∧
      subseqFold T.ri.eqFold (runes nq) (runes (fuzzyTarget c)) = true) :
    ∃ r, fuzzySearch T db nq o limit = .ok r ∧ r ≠ [] := by
  obtain ⟨i, c, hc, hp, hsub⟩ := hd
  obtain ⟨ms, hms, hspec⟩ := findNoSort_targets T.ri hf db nq
  obtain ⟨r', hr', hsome⟩ := matchOne_spec T.ri hf nq (fuzzyTarget c) hq (fuzzyTarget_runes_ne_zero c)
  rw [hsub] at hsome
  cases r' with
  | none => cases hsome
  | some m =>
    obtain ⟨sc, idxs⟩ := m
    have hmem : (i, sc) ∈ T.fuzzySort ms :=
      (hs ms).1.mem_iff.mpr ((hspec i sc).mpr ⟨hq, c, idxs, hc, hr'⟩)
    have hk : Kept T db o (i, sc) := ⟨⟨c, hc, hp⟩, fun h => absurd h0 h⟩
    have hne := fuzzyCollect_ne_nil T db o (limit * fuzzyMult) (by unfold fuzzyMult Gen.SearchParams.fuzzyMult; omega) (T.fuzzySort ms) []
      (Or.inr ⟨(i, sc), hmem, hk⟩)
    refine ⟨(fuzzyCollect T db o (limit * fuzzyMult) (T.fuzzySort ms) []).take limit, ?_, ?_⟩
    · unfold fuzzySearch; simp only [hms]
    · intro h
      rw [List.take_eq_nil_iff] at h
      rcases h with h | h
      · omega
      · exact hne h

end Wtf.C07
