import WtfModel.Proofs.SearchBasic
/-
  Lemmas about the term pipeline of SearchUniversal for C06: the NLP merge (`enhanceTerms`) only appends, term
  selection keeps the first four terms, the candidate set (keys of the score map) grows with the term list as a
  set, and every stage after scoring keeps the candidate set when the limit is at least the database size.
  Core Lean only; no assumption on the score type or on any `Tuning` parameter.
-/
namespace Wtf.Search
open Text Index Filters ScoreOps

variable {S : Type} [ScoreOps S]

/-! ### enhanceQueryWithNLP -/

theorem enhanceTerms_prefix (terms : List Token) (enh : List Bytes) : terms <+: enhanceTerms terms enh := by
  unfold enhanceTerms
  induction enh generalizing terms with
  | nil => exact List.prefix_refl _
  | cons e rest ih =>
    simp only [List.foldl_cons]
    split
    · exact (List.prefix_append terms [e]).trans (ih _)
    · exact ih _

theorem subset_enhanceTerms (terms : List Token) (enh : List Bytes) : terms ⊆ enhanceTerms terms enh :=
  (enhanceTerms_prefix terms enh).subset

theorem length_enhanceTerms_le (terms : List Token) (enh : List Bytes) :
    (enhanceTerms terms enh).length ≤ max terms.length appendCap := by
  unfold enhanceTerms
  induction enh generalizing terms with
  | nil => simp only [List.foldl_nil]; omega
  | cons e rest ih =>
    simp only [List.foldl_cons]
    split
    · rename_i h
      have hl : terms.length < appendCap := by
        simp only [Bool.and_eq_true, decide_eq_true_eq] at h
        exact h.2
      have := ih (terms ++ [e])
      simp only [List.length_append, List.length_cons, List.length_nil] at this
      omega
    · exact ih _

theorem take_subset_take_of_prefix {α : Type} {l₁ l₂ : List α} (h : l₁ <+: l₂) (n : Nat) : l₁.take n ⊆ l₂.take n := by
  obtain ⟨r, rfl⟩ := h
  rw [List.take_append]
  exact List.subset_append_left _ _

/-! ### selectTopTerms -/

theorem selectTopTerms_of_le (T : Tuning S) (idx : Index) {terms : List Token} {cap : Nat}
    (h : terms.length ≤ cap) : selectTopTerms T idx terms cap = terms := by
  unfold selectTopTerms
  simp [h]

/-- a term whose first occurrence lies in the protected prefix is scored as `isOriginal` -/
theorem scoreTermsAux_original (T : Tuning S) (idx : Index) (preserve : Nat) (t : Token) :
    ∀ (terms : List Token) (i : Nat) (seen : List Token) (k : Nat), terms[k]? = some t → i + k < preserve →
      t ∉ seen → ∃ e ∈ scoreTermsAux T idx preserve i terms seen, e.term = t ∧ e.isOriginal = true := by
  intro terms
  induction terms with
  | nil => intro i seen k h; simp at h
  | cons x rest ih =>
    intro i seen k hk hlt hns
    by_cases hx : x = t
    · -- the head is the term: an entry is produced here
      subst hx
      have hc : seen.contains x = false := by simpa using hns
      have hi : i < preserve := by omega
      unfold scoreTermsAux
      simp only [hc, Bool.false_eq_true, ↓reduceIte]
      split
      · exact ⟨_, List.mem_cons_self .., rfl, by simpa using hi⟩
      · simp only [hi, ↓reduceIte]
        exact ⟨_, List.mem_cons_self .., rfl, rfl⟩
    · -- the head is another term: look in the tail
      have hk0 : k ≠ 0 := by
        intro h0; subst h0; simp at hk; exact hx hk
      obtain ⟨k', rfl⟩ := Nat.exists_eq_succ_of_ne_zero hk0
      have hk' : rest[k']? = some t := by simpa using hk
      have hlt' : (i + 1) + k' < preserve := by omega
      unfold scoreTermsAux
      split
      · exact ih (i + 1) seen k' hk' hlt' hns
      · have hns' : t ∉ x :: seen := by
          intro h; cases List.mem_cons.mp h with
          | inl e => exact hx e.symm
          | inr e => exact hns e
        obtain ⟨e, he, h1, h2⟩ := ih (i + 1) (x :: seen) k' hk' hlt' hns'
        split
        · exact ⟨e, List.mem_cons_of_mem _ he, h1, h2⟩
        · split
          · exact ⟨e, List.mem_cons_of_mem _ he, h1, h2⟩
          · exact ⟨e, he, h1, h2⟩

/-- selectTopTerms never drops one of the first four terms, whatever the cap and the length -/
theorem first_four_mem_selectTopTerms (T : Tuning S) (idx : Index) (terms : List Token) (cap : Nat)
    {t : Token} (ht : t ∈ terms.take preserveCount) : t ∈ selectTopTerms T idx terms cap := by
  have htm : t ∈ terms := List.mem_of_mem_take ht
  unfold selectTopTerms
  split
  · exact htm
  · obtain ⟨k, hk⟩ := List.getElem?_of_mem ht
    have hklt : k < (terms.take preserveCount).length := by
      have := List.getElem?_eq_some_iff.mp hk; exact this.1
    have hk2 : terms[k]? = some t := by
      rw [List.getElem?_take] at hk
      split at hk
      · exact hk
      · simp at hk
    have hpres : 0 + k < min preserveCount terms.length := by
      simp only [List.length_take] at hklt; omega
    obtain ⟨e, he, h1, h2⟩ := scoreTermsAux_original T idx (min preserveCount terms.length) t terms 0 [] k hk2 hpres (by simp)
    simp only
    split
    · exact List.mem_map.mpr ⟨e, he, h1⟩
    · have horig : t ∈ (List.filter (·.isOriginal) (scoreTermsAux T idx (min preserveCount terms.length) 0 terms [])).map (·.term) :=
        List.mem_map.mpr ⟨e, List.mem_filter.mpr ⟨he, h2⟩, h1⟩
      split
      · exact List.mem_append_left _ horig
      · exact horig

/-! ### the candidate set: keys of the score map -/

/-- term `t` contributes document `k`: it has a posting for `k`, its idf passes the floor, and `k` passes the gate -/
def Hits (T : Tuning S) (db : Db) (idx : Index) (o : Opts S) (t : Token) (k : Nat) : Prop :=
  ∃ ps, look idx.postings t = some ps ∧ lt (T.idf idx.n ((look idx.df t).getD 0)) T.params.minIDF = false ∧
    ∃ p ∈ ps, p.doc = k ∧ ∃ c, db[k]? = some c ∧ passes T.ri T.host o.filter c = true

theorem mem_keys_processPostings (T : Tuning S) (db : Db) (idx : Index) (tot : DocLens) (o : Opts S) (w : S)
    (ps : List Posting) (m : List (Nat × S)) (k : Nat) :
    k ∈ (processPostings T db idx tot o w ps m).map (·.1) ↔
      k ∈ m.map (·.1) ∨ ∃ p ∈ ps, p.doc = k ∧ ∃ c, db[k]? = some c ∧ passes T.ri T.host o.filter c = true := by
  unfold processPostings
  induction ps generalizing m with
  | nil => simp
  | cons p rest ih =>
    simp only [List.foldl_cons]
    rw [ih]
    split
    · rename_i hnone
      constructor
      · rintro (h | ⟨p', hp', h⟩)
        · exact Or.inl h
        · exact Or.inr ⟨p', List.mem_cons_of_mem _ hp', h⟩
      · rintro (h | ⟨p', hp', hd, c, hc, hpass⟩)
        · exact Or.inl h
        · cases List.mem_cons.mp hp' with
          | inl e => subst e; subst hd; rw [hnone] at hc; cases hc
          | inr e => exact Or.inr ⟨p', e, hd, c, hc, hpass⟩
    · rename_i c hc
      split
      · rename_i hpass
        rw [mem_keys_addScore]
        constructor
        · rintro ((h | h) | ⟨p', hp', h⟩)
          · exact Or.inr ⟨p, List.mem_cons_self .., h.symm, c, by rw [h]; exact hc, hpass⟩
          · exact Or.inl h
          · exact Or.inr ⟨p', List.mem_cons_of_mem _ hp', h⟩
        · rintro (h | ⟨p', hp', hd, h⟩)
          · exact Or.inl (Or.inr h)
          · cases List.mem_cons.mp hp' with
            | inl e => subst e; exact Or.inl (Or.inl hd.symm)
            | inr e => exact Or.inr ⟨p', e, hd, h⟩
      · rename_i hpass
        constructor
        · rintro (h | ⟨p', hp', h⟩)
          · exact Or.inl h
          · exact Or.inr ⟨p', List.mem_cons_of_mem _ hp', h⟩
        · rintro (h | ⟨p', hp', hd, c', hc', hpass'⟩)
          · exact Or.inl h
          · cases List.mem_cons.mp hp' with
            | inl e =>
              subst e; subst hd; rw [hc] at hc'; cases hc'; exact absurd hpass' hpass
            | inr e => exact Or.inr ⟨p', e, hd, c', hc', hpass'⟩

/-- the candidate set is exactly the set of gate-passing documents with a posting of some search term;
    the NLP analysis (`pq`) changes weights only -/
theorem mem_keys_initialScores (T : Tuning S) (db : Db) (idx : Index) (o : Opts S) (pq : Option (NlpOut S))
    (terms : List Token) (k : Nat) :
    k ∈ (initialScores T db idx o pq terms).map (·.1) ↔ ∃ t ∈ terms, Hits T db idx o t k := by
  unfold initialScores
  generalize termBoosts o pq = tb
  generalize sumLens idx.lens = tot
  suffices h : ∀ (m : List (Nat × S)),
      k ∈ (terms.foldl (fun sc t =>
        match look idx.postings t with
        | none => sc
        | some ps =>
          let idf := T.idf idx.n ((look idx.df t).getD 0)
          if lt idf T.params.minIDF then sc
          else processPostings T db idx tot o (mul idf (boostOf tb t)) ps sc) m).map (·.1) ↔
      k ∈ m.map (·.1) ∨ ∃ t ∈ terms, Hits T db idx o t k by
    have := h []
    simp only [List.map_nil, List.not_mem_nil, false_or] at this
    exact this
  induction terms with
  | nil => intro m; simp
  | cons t rest ih =>
    intro m
    simp only [List.foldl_cons]
    rw [ih]
    have step : (k ∈ List.map (·.1) (match look idx.postings t with
        | none => m
        | some ps =>
          let idf := T.idf idx.n ((look idx.df t).getD 0)
          if lt idf T.params.minIDF then m
          else processPostings T db idx tot o (mul idf (boostOf tb t)) ps m)) ↔
        (k ∈ m.map (·.1) ∨ Hits T db idx o t k) := by
      unfold Hits
      split
      · rename_i hnone
        simp [hnone]
      · rename_i ps hps
        simp only
        split
        · rename_i hlt
          simp [hps, hlt]
        · rename_i hlt
          have hlt' : lt (T.idf idx.n ((look idx.df t).getD 0)) T.params.minIDF = false := by simpa using hlt
          rw [mem_keys_processPostings]
          simp [hps, hlt']
    rw [step]
    constructor
    · rintro ((h | h) | ⟨t', ht', h⟩)
      · exact Or.inl h
      · exact Or.inr ⟨t, List.mem_cons_self .., h⟩
      · exact Or.inr ⟨t', List.mem_cons_of_mem _ ht', h⟩
    · rintro (h | ⟨t', ht', h⟩)
      · exact Or.inl (Or.inl h)
      · cases List.mem_cons.mp ht' with
        | inl e => subst e; exact Or.inl (Or.inr h)
        | inr e => exact Or.inr ⟨t', e, h⟩

/-- more terms (as a set), more candidates -/
theorem keys_initialScores_mono (T : Tuning S) (db : Db) (idx : Index) (o o' : Opts S) (pq pq' : Option (NlpOut S))
    {terms terms' : List Token} (hsub : terms ⊆ terms') (hf : o.filter = o'.filter) {k : Nat}
    (hk : k ∈ (initialScores T db idx o pq terms).map (·.1)) : k ∈ (initialScores T db idx o' pq' terms').map (·.1) := by
  rw [mem_keys_initialScores] at hk ⊢
  obtain ⟨t, ht, ps, h1, h2, p, hp, hd, c, hc, hpass⟩ := hk
  exact ⟨t, hsub ht, ps, h1, h2, p, hp, hd, c, hc, by rw [← hf]; exact hpass⟩

/-! ### a strictly increasing list of document ids below `n` has at most `n` elements -/

theorem length_le_of_sorted_lt : ∀ (l : List Nat) (lo n : Nat), lo ≤ n → l.Pairwise (· < ·) →
    (∀ x ∈ l, lo ≤ x ∧ x < n) → l.length + lo ≤ n
  | [], lo, n, h, _, _ => by simpa using h
  | a :: rest, lo, n, _, hp, hb => by
    have ha := hb a (List.mem_cons_self ..)
    have hp' := List.pairwise_cons.mp hp
    have := length_le_of_sorted_lt rest (lo + 1) n (by omega) hp'.2 (by
      intro x hx
      have h1 := hp'.1 x hx
      have h2 := hb x (List.mem_cons_of_mem _ hx)
      omega)
    simp only [List.length_cons]; omega

omit [ScoreOps S] in
theorem scores_length_le (T : Tuning S) (db : Db) (o : Opts S) (m : List (Nat × S)) (h : ScoresInv T db o m) :
    m.length ≤ db.length := by
  have := length_le_of_sorted_lt (m.map (fun x : Nat × S => x.1)) 0 db.length (Nat.zero_le _) h.1 (by
    intro x hx
    obtain ⟨c, hc, _⟩ := h.2 x hx
    have := (List.getElem?_eq_some_iff.mp hc).1
    omega)
  simpa using this

/-! ### the stages after scoring keep the candidate set when nothing is cut -/

theorem rerank_ids_perm_of_le (T : Tuning S) (nq : Bytes) (limit : Nat) (r : List (Nat × S))
    (h : r.length ≤ max (limit * rerankMult) rerankMin) : ((rerank T nq limit r).map (·.1)).Perm (r.map (·.1)) := by
  unfold rerank
  split
  · exact List.Perm.refl _
  · refine (sortDesc_map_perm _ _ _).trans ?_
    rw [List.map_map, List.take_of_length_le h]
    apply List.Perm.of_eq
    apply List.map_congr_left
    intro x _
    obtain ⟨d, s⟩ := x
    simp only [Function.comp]
    split <;> rfl

/-- ids of an answer (`[]` for the typo-fallback panic value, which cannot occur with the fallback off) -/
def ids (r : Except Fuzzy.Panic (List (Nat × S))) : List Nat :=
  match r with
  | .ok l => l.map (·.1)
  | .error _ => []

/-- the terms the engine searches with -/
def searchTerms (T : Tuning S) (db : Db) (q : Bytes) (o : Opts S) : List Token :=
  let nq := T.normQ q
  let terms1 := if o.useNLP then enhanceTerms (tokenize nq) (T.nlp nq).enhanced else tokenize nq
  selectTopTerms T (build db) terms1 (effCap o)

/-- With the typo fallback off and a limit of at least the database size, the answer consists exactly of the
    candidates: the gate-passing documents that have a posting of one of the search terms. -/
theorem mem_ids_search (T : Tuning S) (db : Db) (q : Bytes) (o : Opts S) (hf : o.useFuzzy = false)
    (hlim : db.length ≤ effLimit o) (d : Nat) :
    d ∈ ids (search T db q o) ↔ ∃ t ∈ searchTerms T db q o, Hits T db (build db) o t d := by
  unfold search searchTerms
  simp only [hf, Bool.false_eq_true, ↓reduceIte]
  cases hn : o.useNLP
  · -- NLP off
    simp only [Bool.false_eq_true, ↓reduceIte]
    split
    · rename_i hemp
      have : tokenize (T.normQ q) = [] := by simpa using hemp
      simp [ids, this, selectTopTerms]
    · split
      · rename_i hsc
        rw [← mem_keys_initialScores T db (build db) o none]
        have : initialScores T db (build db) o none (selectTopTerms T (build db) (tokenize (T.normQ q)) (effCap o)) = [] := by
          simpa using hsc
        simp [ids, this]
      · rw [← mem_keys_initialScores T db (build db) o none]
        generalize hm : initialScores T db (build db) o none (selectTopTerms T (build db) (tokenize (T.normQ q)) (effCap o)) = m
        have hinv : ScoresInv T db o m := hm ▸ initialScores_inv T db (build db) o none _
        have hlen := scores_length_le T db o m hinv
        have hcol := collect_ids T db o none m (fun k hk => let ⟨c, hc, _⟩ := hinv.2 k hk; ⟨c, hc⟩)
        simp only [ids]
        have hl : (sortDesc (·.2) (collect T db o none m)).length ≤ effLimit o := by
          rw [length_sortDesc]
          have : (collect T db o none m).length = m.length := by
            have := congrArg List.length hcol; simpa using this
          omega
        rw [List.take_of_length_le hl]
        rw [(sortDesc_map_perm (·.2) (·.1) (collect T db o none m)).mem_iff, hcol]
  · -- NLP on
    simp only [↓reduceIte]
    split
    · rename_i hemp
      have : enhanceTerms (tokenize (T.normQ q)) (T.nlp (T.normQ q)).enhanced = [] := by simpa using hemp
      simp [ids, this, selectTopTerms]
    · split
      · rename_i hsc
        rw [← mem_keys_initialScores T db (build db) o (some (T.nlp (T.normQ q)))]
        have : initialScores T db (build db) o (some (T.nlp (T.normQ q)))
            (selectTopTerms T (build db) (enhanceTerms (tokenize (T.normQ q)) (T.nlp (T.normQ q)).enhanced) (effCap o)) = [] := by
          simpa using hsc
        simp [ids, this]
      · rw [← mem_keys_initialScores T db (build db) o (some (T.nlp (T.normQ q)))]
        generalize hm : initialScores T db (build db) o (some (T.nlp (T.normQ q)))
            (selectTopTerms T (build db) (enhanceTerms (tokenize (T.normQ q)) (T.nlp (T.normQ q)).enhanced) (effCap o)) = m
        have hinv : ScoresInv T db o m := hm ▸ initialScores_inv T db (build db) o _ _
        have hlen := scores_length_le T db o m hinv
        have hcol := collect_ids T db o (some (T.nlp (T.normQ q))) m (fun k hk => let ⟨c, hc, _⟩ := hinv.2 k hk; ⟨c, hc⟩)
        have hclen : (collect T db o (some (T.nlp (T.normQ q))) m).length = m.length := by
          have := congrArg List.length hcol; simpa using this
        simp only [ids]
        generalize hr0 : sortDesc (·.2) (collect T db o (some (T.nlp (T.normQ q))) m) = r0
        have hr0len : r0.length = m.length := by rw [← hr0, length_sortDesc, hclen]
        have hr0ids : (r0.map (·.1)).Perm (m.map (·.1)) := by
          rw [← hr0, ← hcol]; exact sortDesc_map_perm _ _ _
        have hwin : r0.length ≤ max (effLimit o * rerankMult) rerankMin := by
          have : effLimit o ≤ effLimit o * rerankMult := by unfold rerankMult Gen.SearchParams.rerankMult; omega
          omega
        have h1 := rerank_ids_perm_of_le T (T.normQ q) (effLimit o) r0 hwin
        have h2 := cascade_ids_perm (T.nlp (T.normQ q)) (rerank T (T.normQ q) (effLimit o) r0)
        have hp := (h2.trans h1).trans hr0ids
        have hl : (cascadeStage (T.nlp (T.normQ q)) (rerank T (T.normQ q) (effLimit o) r0)).length ≤ effLimit o := by
          have := (h2.trans h1).length_eq
          simp only [List.length_map] at this
          omega
        rw [List.take_of_length_le hl, hp.mem_iff]

end Wtf.Search
