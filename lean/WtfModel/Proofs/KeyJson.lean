import WtfModel.Model.KeyJson

/-!
  The JSON text of the cache key determines the key view (C05): helper lemmas.  Core Lean only.

  Route: every value encoder is self-delimiting -- from `enc a ++ r = enc a' ++ r'` (with `r`, `r'` starting with one of the
  structural bytes `,` `}` `]` where the encoder needs it) follow `a = a'` and `r = r'`:
    strings   by a decoder: `unquote (quote a ++ r) = some (a, r)`
    numbers   their bytes are in the number alphabet, the byte after them is not
    sequences by induction, element by element
-/
namespace Wtf.KeyJson
open Wtf Wtf.CacheLayer

/-! ### strings -/

def unhex (c : UInt8) : Nat := if c.toNat < 58 then c.toNat - 48 else c.toNat - 87

def unshort (e : UInt8) : UInt8 :=
  if e.toNat = 0x62 then 8 else if e.toNat = 0x66 then 12 else if e.toNat = 0x6E then 10
  else if e.toNat = 0x72 then 13 else if e.toNat = 0x74 then 9 else e

def unU (code : Nat) : Bytes :=
  if code = 0x2028 then [0xE2, 0x80, 0xA8] else if code = 0x2029 then [0xE2, 0x80, 0xA9]
  else if code = 0xFFFD then [0xFF] else [UInt8.ofNat code]

/-- reads an escaped string body up to its closing quote: (contents, rest after the quote) -/
def unquoteBody : Bytes → Option (Bytes × Bytes)
  | [] => none
  | c :: r =>
    if c.toNat = 0x22 then some ([], r)
    else if c.toNat = 0x5C then
      match r with
      | [] => none
      | e :: r1 =>
        if e.toNat = 0x75 then
          match r1 with
          | h1 :: h2 :: h3 :: h4 :: r2 =>
            (unquoteBody r2).map (fun p => (unU (((unhex h1 * 16 + unhex h2) * 16 + unhex h3) * 16 + unhex h4) ++ p.1, p.2))
          | _ => none
        else (unquoteBody r1).map (fun p => (unshort e :: p.1, p.2))
    else (unquoteBody r).map (fun p => (c :: p.1, p.2))

theorem unhex_hexDigit (d : Nat) (h : d < 16) : unhex (hexDigit d) = d := by
  unfold unhex hexDigit
  split
  · have e : (48 + d) % 256 = 48 + d := by omega
    simp [e]; omega
  · have e : (87 + d) % 256 = 87 + d := by omega
    simp [e]; omega

theorem toNat_inj {a b : UInt8} (h : a.toNat = b.toNat) : a = b := UInt8.toNat_inj.mp h

theorem unquoteBody_escByte (b : UInt8) (x : Bytes) :
    unquoteBody (escByte b ++ x) = (unquoteBody x).map (fun p => (b :: p.1, p.2)) := by
  have hb : b.toNat < 256 := UInt8.toNat_lt b
  unfold escByte
  simp only
  split
  · rename_i h; have : b = 0x22 := toNat_inj h; subst this; rw [unquoteBody.eq_def]; simp [unshort]
  split
  · rename_i h; have : b = 0x5C := toNat_inj h; subst this; rw [unquoteBody.eq_def]; simp [unshort]
  split
  · rename_i h; have : b = 0x08 := toNat_inj h; subst this; rw [unquoteBody.eq_def]; simp [unshort]
  split
  · rename_i h; have : b = 0x0C := toNat_inj h; subst this; rw [unquoteBody.eq_def]; simp [unshort]
  split
  · rename_i h; have : b = 0x0A := toNat_inj h; subst this; rw [unquoteBody.eq_def]; simp [unshort]
  split
  · rename_i h; have : b = 0x0D := toNat_inj h; subst this; rw [unquoteBody.eq_def]; simp [unshort]
  split
  · rename_i h; have : b = 0x09 := toNat_inj h; subst this; rw [unquoteBody.eq_def]; simp [unshort]
  split
  · rename_i h
    have h1 : unhex (hexDigit (b.toNat / 16)) = b.toNat / 16 := unhex_hexDigit _ (by omega)
    have h2 : unhex (hexDigit (b.toNat % 16)) = b.toNat % 16 := unhex_hexDigit _ (by omega)
    have h0 : unhex 0x30 = 0 := by decide
    have hc : b.toNat / 16 * 16 + b.toNat % 16 = b.toNat := by omega
    have hu : unU b.toNat = [b] := by
      unfold unU
      rw [if_neg (by omega), if_neg (by omega), if_neg (by omega)]
      simp
    rw [unquoteBody.eq_def]
    simp [h0, h1, h2, hc, hu]
  split
  · rename_i h; have : b = 0xFF := toNat_inj h; subst this; rw [unquoteBody.eq_def]
    have e : ((unhex 0x66 * 16 + unhex 0x66) * 16 + unhex 0x66) * 16 + unhex 0x64 = 0xFFFD := by decide
    simp [e, unU]
  · rename_i h1 h2 h3 h4 h5 h6 h7 h8 h9
    rw [List.singleton_append, unquoteBody.eq_def]
    simp [h1, h2]

theorem unquoteBody_quoteBody (a r : Bytes) : unquoteBody (quoteBody a ++ 0x22 :: r) = some (a, r) := by
  induction a using quoteBody.induct with
  | case1 => rw [quoteBody, List.nil_append, unquoteBody.eq_def]; simp
  | case2 b b1 b2 rest' h ih =>
    obtain ⟨h0, h1, h2⟩ := h
    have e0 : b = 0xE2 := toNat_inj h0
    have e1 : b1 = 0x80 := toNat_inj h1
    have e2 : b2 = 0xA8 := toNat_inj h2
    subst e0 e1 e2
    have e : ((unhex 0x32 * 16 + unhex 0x30) * 16 + unhex 0x32) * 16 + unhex 0x38 = 0x2028 := by decide
    rw [quoteBody]
    simp only [u202x, List.cons_append, List.nil_append]
    rw [unquoteBody.eq_def]
    simp [e, unU, ih]
  | case3 b b1 b2 rest' hn h ih =>
    obtain ⟨h0, h1, h2⟩ := h
    have e0 : b = 0xE2 := toNat_inj h0
    have e1 : b1 = 0x80 := toNat_inj h1
    have e2 : b2 = 0xA9 := toNat_inj h2
    subst e0 e1 e2
    have e : ((unhex 0x32 * 16 + unhex 0x30) * 16 + unhex 0x32) * 16 + unhex 0x39 = 0x2029 := by decide
    rw [quoteBody]
    simp only [u202x, List.cons_append, List.nil_append]
    rw [unquoteBody.eq_def]
    simp [e, unU, ih]
  | case4 b b1 b2 rest' h1 h2 ih =>
    rw [quoteBody, if_neg h1, if_neg h2, List.append_assoc, unquoteBody_escByte, ih]
    rfl
  | case5 b rest hne ih =>
    have hq : quoteBody (b :: rest) = escByte b ++ quoteBody rest := by
      match rest, hne with
      | [], _ => simp [quoteBody]
      | [_], _ => simp [quoteBody]
      | b1 :: b2 :: t, hne => exact (hne b1 b2 t rfl).elim
    rw [hq, List.append_assoc, unquoteBody_escByte, ih]
    rfl

/-- a quoted string is self-delimiting -/
theorem quote_delim {a a' r r' : Bytes} (h : quote a ++ r = quote a' ++ r') : a = a' ∧ r = r' := by
  unfold quote at h
  simp only [List.cons_append, List.append_assoc, List.cons.injEq, true_and, List.nil_append] at h
  have h1 := unquoteBody_quoteBody a r
  rw [h, unquoteBody_quoteBody] at h1
  simpa using h1.symm

theorem quote_inj {a a' : Bytes} (h : quote a = quote a') : a = a' := by
  have := quote_delim (r := []) (r' := []) (by simpa using h)
  exact this.1

theorem quote_head (a : Bytes) : ∃ t, quote a = 0x22 :: t := ⟨_, rfl⟩

/-! ### numbers -/

/-- the stream continues with a byte outside the number alphabet (or ends) -/
def NumEnd : Bytes → Prop
  | [] => True
  | c :: _ => numChar c = false

/-- a string over the number alphabet is self-delimiting before a byte outside the alphabet -/
theorem num_delim {xs ys r r' : Bytes} (hx : ∀ c ∈ xs, numChar c = true) (hy : ∀ c ∈ ys, numChar c = true)
    (hr : NumEnd r) (hr' : NumEnd r') (h : xs ++ r = ys ++ r') : xs = ys ∧ r = r' := by
  induction xs generalizing ys with
  | nil =>
    cases ys with
    | nil => exact ⟨rfl, by simpa using h⟩
    | cons y ys =>
      simp only [List.nil_append, List.cons_append] at h
      subst h
      have := hy y (by simp)
      simp [NumEnd, this] at hr
  | cons x xs ih =>
    cases ys with
    | nil =>
      simp only [List.nil_append, List.cons_append] at h
      subst h
      have := hx x (by simp)
      simp [NumEnd, this] at hr'
    | cons y ys =>
      simp only [List.cons_append, List.cons.injEq] at h
      obtain ⟨h1, h2⟩ := h
      subst h1
      have := ih (fun c hc => hx c (by simp [hc])) (fun c hc => hy c (by simp [hc])) h2
      exact ⟨by rw [this.1], this.2⟩

def digitVal (ds : Bytes) : Nat := ds.foldl (fun n c => n * 10 + (c.toNat - 48)) 0

theorem digitVal_append (ds : Bytes) (c : UInt8) : digitVal (ds ++ [c]) = digitVal ds * 10 + (c.toNat - 48) := by
  simp [digitVal, List.foldl_append]

theorem digitVal_natDigits (n : Nat) : digitVal (natDigits n) = n := by
  induction n using natDigits.induct with
  | case1 n h =>
    rw [natDigits, if_pos h]
    have e : (48 + n) % 256 = 48 + n := by omega
    simp [digitVal, e]
  | case2 n h ih =>
    rw [natDigits, if_neg h, digitVal_append, ih]
    have e : (48 + n % 10) % 256 = 48 + n % 10 := by omega
    simp [e]
    omega

theorem natDigits_inj {n m : Nat} (h : natDigits n = natDigits m) : n = m := by
  rw [← digitVal_natDigits n, ← digitVal_natDigits m, h]

theorem natDigits_digit (n : Nat) : ∀ c ∈ natDigits n, 48 ≤ c.toNat ∧ c.toNat ≤ 57 := by
  induction n using natDigits.induct with
  | case1 n h =>
    rw [natDigits, if_pos h]
    have e : (48 + n) % 256 = 48 + n := by omega
    intro c hc
    simp only [List.mem_singleton] at hc
    subst hc
    simp [e]; omega
  | case2 n h ih =>
    rw [natDigits, if_neg h]
    have e : (48 + n % 10) % 256 = 48 + n % 10 := by omega
    intro c hc
    rw [List.mem_append] at hc
    cases hc with
    | inl hc => exact ih c hc
    | inr hc =>
      simp only [List.mem_singleton] at hc
      subst hc
      simp [e]; omega

theorem natDigits_ne_nil (n : Nat) : natDigits n ≠ [] := by
  rw [natDigits]; split <;> simp

theorem intText_numChar (i : Int) : ∀ c ∈ intText i, numChar c = true := by
  intro c hc
  unfold intText at hc
  have key : ∀ c ∈ natDigits i.natAbs, numChar c = true := by
    intro c hc
    have := natDigits_digit _ c hc
    simp [numChar, this.1, this.2]
  split at hc
  · rw [List.mem_cons] at hc
    cases hc with
    | inl h => subst h; decide
    | inr h => exact key c h
  · exact key c hc

theorem intText_inj {i j : Int} (h : intText i = intText j) : i = j := by
  unfold intText at h
  have hd : ∀ n, ∃ c t, natDigits n = c :: t ∧ c ≠ 0x2D := by
    intro n
    match hn : natDigits n with
    | [] => exact (natDigits_ne_nil n hn).elim
    | c :: t =>
      refine ⟨c, t, rfl, ?_⟩
      intro hc
      have := natDigits_digit n c (by rw [hn]; simp)
      subst hc
      simp at this
  split at h <;> split at h
  · have := natDigits_inj (List.cons.inj h).2
    omega
  · obtain ⟨c, t, e, hc⟩ := hd j.natAbs
    rw [e] at h
    exact (hc (List.cons.inj h).1.symm).elim
  · obtain ⟨c, t, e, hc⟩ := hd i.natAbs
    rw [e] at h
    exact (hc (List.cons.inj h).1).elim
  · have := natDigits_inj h
    omega

/-! ### sequences -/

/-- the stream continues with `,` `}` or `]` -/
def Term (r : Bytes) : Prop := ∃ c t, r = c :: t ∧ (c = 0x2C ∨ c = 0x7D ∨ c = 0x5D)

theorem Term.numEnd {r : Bytes} (h : Term r) : NumEnd r := by
  obtain ⟨c, t, rfl, hc⟩ := h
  rcases hc with rfl | rfl | rfl <;> (show numChar _ = false) <;> decide

/-- `enc` is self-delimiting on the values satisfying `P`, before a structural byte -/
def Delim {α : Type} (P : α → Prop) (enc : α → Bytes) : Prop :=
  ∀ a a' r r', P a → P a' → Term r → Term r' → enc a ++ r = enc a' ++ r' → a = a' ∧ r = r'

theorem joinTail_term (close : UInt8) (hc : close = 0x7D ∨ close = 0x5D) (l : List Bytes) (r : Bytes) :
    Term (joinTail close l ++ r) := by
  cases l with
  | nil => exact ⟨close, r, rfl, .inr hc⟩
  | cons x t => exact ⟨0x2C, _, rfl, .inl rfl⟩

theorem joinTail_delim {α : Type} {P : α → Prop} {enc : α → Bytes} (close : UInt8) (hc : close = 0x7D ∨ close = 0x5D)
    (hd : Delim P enc) (l l' : List α) (r r' : Bytes) (hl : ∀ a ∈ l, P a) (hl' : ∀ a ∈ l', P a)
    (h : joinTail close (l.map enc) ++ r = joinTail close (l'.map enc) ++ r') : l = l' ∧ r = r' := by
  have hne : close ≠ 0x2C := by rcases hc with rfl | rfl <;> decide
  induction l generalizing l' with
  | nil =>
    cases l' with
    | nil => simpa [joinTail] using h
    | cons x t =>
      simp only [List.map_nil, joinTail, List.cons_append, List.nil_append, List.map_cons, List.cons.injEq] at h
      exact (hne h.1).elim
  | cons x t ih =>
    cases l' with
    | nil =>
      simp only [List.map_nil, joinTail, List.cons_append, List.nil_append, List.map_cons, List.cons.injEq] at h
      exact (hne h.1.symm).elim
    | cons x' t' =>
      simp only [List.map_cons, joinTail, List.cons_append, List.cons.injEq, true_and, List.append_assoc] at h
      have := hd x x' _ _ (hl x (by simp)) (hl' x' (by simp)) (joinTail_term close hc _ r) (joinTail_term close hc _ r') h
      obtain ⟨e1, e2⟩ := this
      have := ih t' (fun a ha => hl a (by simp [ha])) (fun a ha => hl' a (by simp [ha])) e2
      exact ⟨by rw [e1, this.1], this.2⟩

theorem joinClose_delim {α : Type} {P : α → Prop} {enc : α → Bytes} (close : UInt8) (hc : close = 0x7D ∨ close = 0x5D)
    (hd : Delim P enc) (hq : ∀ a, ∃ t, enc a = 0x22 :: t) (l l' : List α) (r r' : Bytes)
    (hl : ∀ a ∈ l, P a) (hl' : ∀ a ∈ l', P a)
    (h : joinClose close (l.map enc) ++ r = joinClose close (l'.map enc) ++ r') : l = l' ∧ r = r' := by
  have hne : close ≠ 0x22 := by rcases hc with rfl | rfl <;> decide
  cases l with
  | nil =>
    cases l' with
    | nil => simpa [joinClose] using h
    | cons x t =>
      obtain ⟨u, hu⟩ := hq x
      simp only [List.map_nil, joinClose, List.cons_append, List.nil_append, List.map_cons, hu, List.cons.injEq] at h
      exact (hne h.1).elim
  | cons x t =>
    cases l' with
    | nil =>
      obtain ⟨u, hu⟩ := hq x
      simp only [List.map_nil, joinClose, List.cons_append, List.nil_append, List.map_cons, hu, List.cons.injEq] at h
      exact (hne h.1.symm).elim
    | cons x' t' =>
      simp only [List.map_cons, joinClose, List.append_assoc] at h
      have := hd x x' _ _ (hl x (by simp)) (hl' x' (by simp)) (joinTail_term close hc _ r) (joinTail_term close hc _ r') h
      obtain ⟨e1, e2⟩ := this
      have := joinTail_delim close hc hd t t' r r' (fun a ha => hl a (by simp [ha])) (fun a ha => hl' a (by simp [ha])) e2
      exact ⟨by rw [e1, this.1], this.2⟩

/-! ### values -/

/-- json.Marshal accepts the value (no NaN / ±Inf) and its float patterns are 64-bit patterns -/
def ValOK (v : Val) : Prop := v.marshalOK = true ∧ bitsOK v = true

theorem quote_Delim : Delim (fun _ : Bytes => True) quote :=
  fun _ _ _ _ _ _ _ _ h => quote_delim h

theorem encEntry_Delim {fmt : Nat → Bytes} (hf : FloatFmtOK fmt) :
    Delim (fun kv : Bytes × Nat => finiteBits kv.2 = true ∧ kv.2 < 2 ^ 64) (encEntry fmt) := by
  intro a a' r r' ha ha' hr hr' h
  unfold encEntry at h
  simp only [List.append_assoc] at h
  obtain ⟨e1, e2⟩ := quote_delim h
  simp only [List.cons_append, List.cons.injEq, true_and] at e2
  obtain ⟨e3, e4⟩ := num_delim (hf.alphabet _ ha.2 ha.1) (hf.alphabet _ ha'.2 ha'.1) hr.numEnd hr'.numEnd e2
  have := hf.inj _ _ ha.2 ha'.2 ha.1 ha'.1 e3
  exact ⟨Prod.ext e1 this, e4⟩

theorem encEntry_head (fmt : Nat → Bytes) (kv : Bytes × Nat) : ∃ t, encEntry fmt kv = 0x22 :: t := ⟨_, rfl⟩

theorem encVal_delim {fmt : Nat → Bytes} (hf : FloatFmtOK fmt) {v v' : Val} {r r' : Bytes}
    (hk : kindOf v = kindOf v') (hv : ValOK v) (hv' : ValOK v') (hr : Term r) (hr' : Term r')
    (h : encVal fmt v ++ r = encVal fmt v' ++ r') : v = v' ∧ r = r' := by
  cases v with
  | int i =>
    cases v' with
    | int j =>
      obtain ⟨e1, e2⟩ := num_delim (intText_numChar i) (intText_numChar j) hr.numEnd hr'.numEnd h
      exact ⟨by rw [intText_inj e1], e2⟩
    | _ => cases hk
  | bool b =>
    cases v' with
    | bool c =>
      cases b <;> cases c <;> simp [encVal, trueText, falseText] at h
      · exact ⟨rfl, h⟩
      · exact ⟨rfl, h⟩
    | _ => cases hk
  | float b =>
    cases v' with
    | float c =>
      have hb : finiteBits b = true ∧ b < 2 ^ 64 := ⟨hv.1, by simpa [bitsOK] using hv.2⟩
      have hc : finiteBits c = true ∧ c < 2 ^ 64 := ⟨hv'.1, by simpa [bitsOK] using hv'.2⟩
      obtain ⟨e1, e2⟩ := num_delim (hf.alphabet _ hb.2 hb.1) (hf.alphabet _ hc.2 hc.1) hr.numEnd hr'.numEnd h
      exact ⟨by rw [hf.inj _ _ hb.2 hc.2 hb.1 hc.1 e1], e2⟩
    | _ => cases hk
  | str s =>
    cases v' with
    | str s' =>
      obtain ⟨e1, e2⟩ := quote_delim h
      exact ⟨by rw [e1], e2⟩
    | _ => cases hk
  | strs l =>
    cases v' with
    | strs l' =>
      cases l with
      | none =>
        cases l' with
        | none => exact ⟨rfl, by simpa [encVal] using h⟩
        | some l' => simp [encVal, nullText] at h
      | some l =>
        cases l' with
        | none => simp [encVal, nullText] at h
        | some l' =>
          simp only [encVal, List.cons_append, List.cons.injEq, true_and] at h
          obtain ⟨e1, e2⟩ := joinClose_delim 0x5D (.inr rfl) quote_Delim quote_head l l' r r' (fun _ _ => trivial) (fun _ _ => trivial) h
          exact ⟨by rw [e1], e2⟩
    | _ => cases hk
  | boosts m =>
    cases v' with
    | boosts m' =>
      cases m with
      | none =>
        cases m' with
        | none => exact ⟨rfl, by simpa [encVal] using h⟩
        | some m' => simp [encVal, nullText] at h
      | some m =>
        cases m' with
        | none => simp [encVal, nullText] at h
        | some m' =>
          simp only [encVal, List.cons_append, List.cons.injEq, true_and] at h
          have hm : ∀ kv ∈ m, finiteBits kv.2 = true ∧ kv.2 < 2 ^ 64 := by
            intro kv hkv
            have h1 := hv.1; have h2 := hv.2
            simp only [Val.marshalOK, bitsOK, Option.getD_some, List.all_eq_true, decide_eq_true_eq] at h1 h2
            exact ⟨h1 kv hkv, h2 kv hkv⟩
          have hm' : ∀ kv ∈ m', finiteBits kv.2 = true ∧ kv.2 < 2 ^ 64 := by
            intro kv hkv
            have h1 := hv'.1; have h2 := hv'.2
            simp only [Val.marshalOK, bitsOK, Option.getD_some, List.all_eq_true, decide_eq_true_eq] at h1 h2
            exact ⟨h1 kv hkv, h2 kv hkv⟩
          obtain ⟨e1, e2⟩ := joinClose_delim 0x7D (.inl rfl) (encEntry_Delim hf) (encEntry_head fmt) m m' r r' hm hm' h
          exact ⟨by rw [e1], e2⟩
    | _ => cases hk

/-! ### the options object -/

/-- json names: distinct as byte strings, and free of `"` (so that `"name":` is self-delimiting; the translator asserts the
    stronger "plain ASCII letters, digits, underscore", which also rules out HTML escaping of names) -/
def NamesOK (names : List String) : Prop :=
  (names.map lit).Nodup ∧ ∀ n ∈ names, ∀ c ∈ lit n, c ≠ 0x22

theorem plain_delim {q : UInt8} {a a' x x' : Bytes} (ha : ∀ c ∈ a, c ≠ q) (ha' : ∀ c ∈ a', c ≠ q)
    (h : a ++ q :: x = a' ++ q :: x') : a = a' ∧ x = x' := by
  induction a generalizing a' with
  | nil =>
    cases a' with
    | nil => simpa using h
    | cons c t =>
      simp only [List.nil_append, List.cons_append, List.cons.injEq] at h
      exact (ha' c (by simp) h.1.symm).elim
  | cons c t ih =>
    cases a' with
    | nil =>
      simp only [List.nil_append, List.cons_append, List.cons.injEq] at h
      exact (ha c (by simp) h.1).elim
    | cons c' t' =>
      simp only [List.cons_append, List.cons.injEq] at h
      have := ih (fun c hc => ha c (by simp [hc])) (fun c hc => ha' c (by simp [hc])) h.2
      exact ⟨by rw [h.1, this.1], this.2⟩

theorem jname_delim {n n' : String} {x x' : Bytes} (hn : ∀ c ∈ lit n, c ≠ 0x22) (hn' : ∀ c ∈ lit n', c ≠ 0x22)
    (h : jname n ++ x = jname n' ++ x') : lit n = lit n' ∧ x = x' := by
  unfold jname at h
  simp only [List.cons_append, List.append_assoc, List.cons.injEq, true_and, List.nil_append] at h
  obtain ⟨e1, e2⟩ := plain_delim hn hn' h
  exact ⟨e1, by simpa using e2⟩

theorem inj_of_nodup_map {α β : Type} {f : α → β} {l : List α} (d : (l.map f).Nodup) {x y : α}
    (hx : x ∈ l) (hy : y ∈ l) (h : f x = f y) : x = y := by
  induction l with
  | nil => cases hx
  | cons a t ih =>
    simp only [List.map_cons, List.nodup_cons, List.mem_map, not_exists, not_and] at d
    simp only [List.mem_cons] at hx hy
    rcases hx with rfl | hx <;> rcases hy with rfl | hy
    · rfl
    · exact (d.1 y hy h.symm).elim
    · exact (d.1 x hx h).elim
    · exact ih d.2 hx hy

theorem nodup_of_map {α β : Type} {f : α → β} {l : List α} (d : (l.map f).Nodup) : l.Nodup := by
  induction l with
  | nil => exact List.nodup_nil
  | cons a t ih =>
    simp only [List.map_cons, List.nodup_cons, List.mem_map, not_exists, not_and] at d
    exact List.nodup_cons.mpr ⟨fun h => d.1 a h rfl, ih d.2⟩

/-- the fields that are present, with their values -/
def present (ko : KeyOpts) : List (String × Val) := ko.filterMap (fun e => e.2.map (fun v => (e.1, v)))

def encPresent (fmt : Nat → Bytes) (e : String × Val) : Bytes := jname e.1 ++ encVal fmt e.2

theorem objText_eq (fmt : Nat → Bytes) (ko : KeyOpts) :
    objText fmt ko = 0x7B :: joinClose 0x7D ((present ko).map (encPresent fmt)) := by
  unfold objText present
  rw [List.map_filterMap]
  congr 2
  induction ko with
  | nil => rfl
  | cons e t ih =>
    have : encField fmt e = Option.map (encPresent fmt) (Option.map (fun v => (e.fst, v)) e.snd) := by
      cases h : e.2 <;> simp [encField, encPresent, h]
    simp only [List.filterMap_cons, this, ih]

/-- what a field entry must satisfy: a known name, the kind declared for that name, marshalable -/
def EntryOK (names : List String) (K : String → Kind) (e : String × Val) : Prop :=
  e.1 ∈ names ∧ kindOf e.2 = K e.1 ∧ ValOK e.2

theorem encPresent_Delim {fmt : Nat → Bytes} (hf : FloatFmtOK fmt) {names : List String} (hn : NamesOK names)
    (K : String → Kind) : Delim (EntryOK names K) (encPresent fmt) := by
  intro e e' r r' he he' hr hr' h
  unfold encPresent at h
  simp only [List.append_assoc] at h
  obtain ⟨e1, e2⟩ := jname_delim (hn.2 _ he.1) (hn.2 _ he'.1) h
  have e3 : e.1 = e'.1 := inj_of_nodup_map hn.1 he.1 he'.1 e1
  have hk : kindOf e.2 = kindOf e'.2 := by rw [he.2.1, he'.2.1, e3]
  obtain ⟨e4, e5⟩ := encVal_delim hf hk he.2.2 he'.2.2 hr hr' e2
  exact ⟨Prod.ext e3 e4, e5⟩

theorem encPresent_head (fmt : Nat → Bytes) (e : String × Val) : ∃ t, encPresent fmt e = 0x22 :: t := ⟨_, rfl⟩

theorem mem_present {ko : KeyOpts} {e : String × Val} (h : e ∈ present ko) : (e.1, some e.2) ∈ ko := by
  unfold present at h
  rw [List.mem_filterMap] at h
  obtain ⟨a, ha, h2⟩ := h
  cases h3 : a.2 with
  | none => simp [h3] at h2
  | some v =>
    simp only [h3, Option.map_some, Option.some.injEq] at h2
    subst h2
    have : a = (a.1, some v) := Prod.ext rfl h3
    rw [← this]; exact ha

/-- the present fields determine the whole record when the names are known and distinct -/
theorem present_inj {ko ko' : KeyOpts} (hn : ko.map (·.1) = ko'.map (·.1)) (hd : (ko.map (·.1)).Nodup)
    (h : present ko = present ko') : ko = ko' := by
  induction ko generalizing ko' with
  | nil =>
    cases ko' with
    | nil => rfl
    | cons _ _ => simp at hn
  | cons a t ih =>
    cases ko' with
    | nil => simp at hn
    | cons a' t' =>
      simp only [List.map_cons, List.cons.injEq] at hn
      simp only [List.map_cons, List.nodup_cons] at hd
      obtain ⟨n, ov⟩ := a
      obtain ⟨n', ov'⟩ := a'
      simp only at hn hd
      obtain ⟨rfl, hn⟩ := hn
      have notin : ∀ (l : KeyOpts) (v : Val), l.map (·.1) = t.map (·.1) → (n, v) ∉ present l := by
        intro l v hl hm
        have := mem_present hm
        have : n ∈ l.map (·.1) := List.mem_map.mpr ⟨_, this, rfl⟩
        rw [hl] at this
        exact hd.1 this
      cases ov with
      | none =>
        cases ov' with
        | none =>
          have : present t = present t' := by simpa [present] using h
          rw [ih hn hd.2 this]
        | some v' =>
          have : present t = (n, v') :: present t' := by simpa [present] using h
          exact (notin t v' rfl (by rw [this]; simp)).elim
      | some v =>
        cases ov' with
        | none =>
          have : (n, v) :: present t = present t' := by simpa [present] using h
          exact (notin t' v hn.symm (by rw [← this]; simp)).elim
        | some v' =>
          have : (n, v) :: present t = (n, v') :: present t' := by simpa [present] using h
          simp only [List.cons.injEq, Prod.mk.injEq, true_and] at this
          rw [this.1, ih hn hd.2 this.2]

/-- a key-option record over the names `names` whose present values have the kinds `K` and are marshalable -/
def KoOK (names : List String) (K : String → Kind) (ko : KeyOpts) : Prop :=
  ko.map (·.1) = names ∧ ∀ n v, (n, some v) ∈ ko → kindOf v = K n ∧ ValOK v

theorem objText_delim {fmt : Nat → Bytes} (hf : FloatFmtOK fmt) {names : List String} (hn : NamesOK names)
    {K : String → Kind} {ko ko' : KeyOpts} (hk : KoOK names K ko) (hk' : KoOK names K ko') {r r' : Bytes}
    (h : objText fmt ko ++ r = objText fmt ko' ++ r') : ko = ko' ∧ r = r' := by
  rw [objText_eq, objText_eq] at h
  simp only [List.cons_append, List.cons.injEq, true_and] at h
  have ok : ∀ {l : KeyOpts}, KoOK names K l → ∀ e ∈ present l, EntryOK names K e := by
    intro l hl e he
    have hm := mem_present he
    refine ⟨?_, hl.2 _ _ hm⟩
    rw [← hl.1]
    exact List.mem_map.mpr ⟨_, hm, rfl⟩
  obtain ⟨e1, e2⟩ := joinClose_delim 0x7D (.inl rfl) (encPresent_Delim hf hn K) (encPresent_head fmt) _ _ r r' (ok hk) (ok hk') h
  refine ⟨present_inj (hk.1.trans hk'.1.symm) ?_ e1, e2⟩
  rw [hk.1]
  exact nodup_of_map hn.1

/-! ### the whole text -/

theorem jsonText_inj {fmt : Nat → Bytes} (hf : FloatFmtOK fmt) {names : List String} (hn : NamesOK names)
    {K : String → Kind} (qn on : String) {q q' : Query} {ko ko' : KeyOpts}
    (hk : KoOK names K ko) (hk' : KoOK names K ko')
    (h : jsonText fmt qn on q ko = jsonText fmt qn on q' ko') : coerce q = coerce q' ∧ ko = ko' := by
  unfold jsonText goString at h
  simp only [List.cons.injEq, true_and] at h
  have h := List.append_cancel_left h
  rw [← List.append_assoc, ← List.append_assoc] at h
  simp only [List.append_assoc] at h
  obtain ⟨e1, e2⟩ := quote_delim h
  simp only [List.cons.injEq, true_and] at e2
  have e2 := List.append_cancel_left e2
  exact ⟨e1, (objText_delim hf hn hk hk' e2).1⟩

theorem jsonText_head (fmt : Nat → Bytes) (qn on : String) (q : Query) (ko : KeyOpts) :
    ∃ t, jsonText fmt qn on q ko = 0x7B :: t := ⟨_, rfl⟩

/-! ### the view `proj` of a request -/

def jsonNames (sh : Shape) : List String := sh.keyFields.map (·.2.2.1)

/-- kind declared for a json name (first field with that name) -/
def kindTable (sh : Shape) (n : String) : Kind :=
  match sh.keyFields.find? (fun kf => kf.2.2.1 == n) with
  | some kf => (kindOfGo kf.2.1).getD .int
  | none => .int

/-- The request is a well-typed Go value: every key field receives a value of the kind its Go type says (one of the six
    modelled kinds), with 64-bit float patterns.  (The Go compiler guarantees it; the model's `Opts` are untyped.) -/
def Typed (sh : Shape) (o : Opts) : Prop :=
  ∀ kf ∈ sh.keyFields, kindOfGo kf.2.1 = some (kindOf (fieldVal sh o kf)) ∧ bitsOK (fieldVal sh o kf) = true

theorem find_of_nodup {l : List (String × String × String × Bool)} (hd : (l.map (·.2.2.1)).Nodup)
    {kf : String × String × String × Bool} (hm : kf ∈ l) : l.find? (fun x => x.2.2.1 == kf.2.2.1) = some kf := by
  induction l with
  | nil => cases hm
  | cons a t ih =>
    simp only [List.map_cons, List.nodup_cons, List.mem_map, not_exists, not_and] at hd
    simp only [List.mem_cons] at hm
    rcases hm with rfl | hm
    · simp
    · have : (a.2.2.1 == kf.2.2.1) = false := by
        simp only [beq_eq_false_iff_ne, ne_eq]
        exact fun h => hd.1 kf hm h.symm
      rw [List.find?_cons, this]
      exact ih hd.2 hm

theorem kindOf_json (utf8 : Bytes → Bytes) (v : Val) : kindOf (v.json utf8) = kindOf v := by
  cases v <;> rfl

theorem ValOK_json (utf8 : Bytes → Bytes) {v : Val} (h1 : v.marshalOK = true) (h2 : bitsOK v = true) :
    ValOK (v.json utf8) := by
  cases v with
  | boosts m =>
    cases m with
    | none => exact ⟨rfl, rfl⟩
    | some m =>
      simp only [Val.marshalOK, bitsOK, Option.getD_some, List.all_eq_true] at h1 h2
      constructor
      · simp only [Val.json, Option.map_some, Val.marshalOK, Option.getD_some, List.all_eq_true, List.mem_map]
        rintro kv ⟨a, ha, rfl⟩
        exact h1 a ha
      · simp only [Val.json, Option.map_some, bitsOK, Option.getD_some, List.all_eq_true, List.mem_map]
        rintro kv ⟨a, ha, rfl⟩
        exact h2 a ha
  | _ => exact ⟨h1, h2⟩

theorem proj_KoOK (utf8 : Bytes → Bytes) {sh : Shape} (hd : (jsonNames sh).Nodup) {o : Opts}
    (ht : Typed sh o) (hm : marshalOK sh o = true) : KoOK (jsonNames sh) (kindTable sh) (proj utf8 sh o) := by
  constructor
  · simp [proj, jsonNames]
  · intro n v hmem
    unfold proj at hmem
    rw [List.mem_map] at hmem
    obtain ⟨kf, hkf, he⟩ := hmem
    simp only [Prod.mk.injEq] at he
    obtain ⟨rfl, hv⟩ := he
    unfold jsonView at hv
    split at hv
    · cases hv
    · simp only [Option.some.injEq] at hv
      subst hv
      have h1 := ht kf hkf
      have h2 : (fieldVal sh o kf).marshalOK = true := by
        unfold marshalOK at hm
        rw [List.all_eq_true] at hm
        exact hm kf hkf
      refine ⟨?_, ValOK_json utf8 h2 h1.2⟩
      rw [kindOf_json]
      unfold kindTable
      rw [find_of_nodup hd hkf]
      simp [h1.1]

/-- THE TEXT DETERMINES THE VIEW (JSON family): requests whose views differ have different texts. -/
theorem jsonText_proj_inj {fmt : Nat → Bytes} (hf : FloatFmtOK fmt) (utf8 : Bytes → Bytes) {sh : Shape}
    (hn : NamesOK (jsonNames sh)) (qn on : String) {q q' : Query} {o o' : Opts}
    (ht : Typed sh o) (ht' : Typed sh o') (hm : marshalOK sh o = true) (hm' : marshalOK sh o' = true)
    (h : jsonText fmt qn on q (proj utf8 sh o) = jsonText fmt qn on q' (proj utf8 sh o')) :
    coerce q = coerce q' ∧ proj utf8 sh o = proj utf8 sh o' :=
  jsonText_inj hf hn qn on (proj_KoOK utf8 (nodup_of_map hn.1) ht hm) (proj_KoOK utf8 (nodup_of_map hn.1) ht' hm') h

variable {Db Ans κ : Type}

/-- the normaliser's output is valid UTF-8 (strings.ToLower: an ASCII-only string is mapped bytewise, any other is rebuilt
    rune by rune by strings.Map, which writes U+FFFD for an invalid byte); so pass 1 leaves the query alone -/
def NormValid (E : Env Db Ans κ) : Prop := ∀ q, coerce (E.normQ q) = E.normQ q

/-- THE TEXT DETERMINES THE KEY's PRE-IMAGE, for both families. -/
theorem keyText_keyOf_inj {fmt : Nat → Bytes} (hf : FloatFmtOK fmt) {goText : Query → List (String × Val) → Bytes}
    (hg : GoTextOK goText) (E : Env Db Ans κ) (hv : NormValid E) {sh : Shape} (hn : NamesOK (jsonNames sh))
    (qn on : String) {q q' : Query} {o o' : Opts} (ht : Typed sh o) (ht' : Typed sh o')
    (h : keyText fmt goText qn on (keyOf E sh q o) = keyText fmt goText qn on (keyOf E sh q' o')) :
    keyOf E sh q o = keyOf E sh q' o' := by
  unfold keyOf at h ⊢
  split at h <;> split at h
  · rename_i h1 h2
    rw [if_pos h1, if_pos h2]
    obtain ⟨e1, e2⟩ := jsonText_proj_inj hf E.utf8 hn qn on ht ht' h1 h2 h
    rw [hv, hv] at e1
    rw [e1, e2]
  · obtain ⟨t, ht⟩ := hg.head (E.normQ q') (goProj sh o')
    simp [keyText, jsonText, ht] at h
  · obtain ⟨t, ht⟩ := hg.head (E.normQ q) (goProj sh o)
    simp [keyText, jsonText, ht] at h
  · rename_i h1 h2
    rw [if_neg h1, if_neg h2]
    obtain ⟨e1, e2⟩ := hg.inj _ _ _ _ h
    rw [e1, e2]

/-- the two key families never meet before hashing: a Go-syntax text is not a JSON text -/
theorem families_disjoint {goText : Query → List (String × Val) → Bytes} (hg : GoTextOK goText) (fmt : Nat → Bytes)
    (qn on : String) (q q' : Query) (ko : KeyOpts) (vals : List (String × Val)) :
    jsonText fmt qn on q ko ≠ goText q' vals := by
  obtain ⟨t, ht⟩ := hg.head q' vals
  simp [jsonText, ht]

end Wtf.KeyJson
