import WtfModel.Model.Conc

/-! Invariants of the concurrent model (C11): mutual exclusion, commit-point linearizability,
    soundness of the executable checker, counters, lock-free readers.  Core Lean only. -/
namespace Wtf.Conc

set_option linter.unusedSectionVars false
variable {σ ι ο : Type}

/-- The lock discipline on the model side: an operation that takes the lock in shared mode does not
    change the object.  (For the LRU this is discharged from the regenerated lock facts.) -/
def ReadersPure (S : Spec σ ι ο) : Prop := ∀ i s, S.mode i = .shared → (S.step s i).1 = s

@[simp] theorem upd_same (f : Nat → Thread σ ι ο) (t : Nat) (v : Thread σ ι ο) : upd f t v t = v := by
  simp [upd]

theorem upd_other (f : Nat → Thread σ ι ο) {t u : Nat} (h : u ≠ t) (v : Thread σ ι ο) : upd f t v u = f u := by
  simp [upd, h]

/-! ### sequential runs -/

theorem runSeq_append (step : σ → ι → σ × ο) (s : σ) (xs : List ι) (i : ι) :
    runSeq step s (xs ++ [i]) =
      ((step (runSeq step s xs).1 i).1, (runSeq step s xs).2 ++ [(step (runSeq step s xs).1 i).2]) := by
  induction xs generalizing s with
  | nil => simp [runSeq]
  | cons x xs ih => simp [runSeq, ih]

theorem runSeq_length (step : σ → ι → σ × ο) (s : σ) (xs : List ι) : (runSeq step s xs).2.length = xs.length := by
  induction xs generalizing s with
  | nil => simp [runSeq]
  | cons x xs ih => simp [runSeq, ih]

/-! ### the invariant -/

def PC.invStamp : PC σ ι ο → Option Nat
  | .invoked _ n => some n
  | .acquired _ n => some n
  | .loaded _ n _ => some n
  | _ => none

def PC.pending (pc : PC σ ι ο) (e : TEntry ι ο) : Prop :=
  pc = .committed e.op e.inv e.lin e.out ∨ pc = .released e.op e.inv e.lin e.out

structure Inv (S : Spec σ ι ο) (s0 : σ) (s : Sys σ ι ο) : Prop where
  wr : ∀ t, holdsExcl S (s.threads t) ↔ s.lock.writer = some t
  rd : ∀ t, holdsShared S (s.threads t) ↔ t ∈ s.lock.readers
  wr_rd : s.lock.writer ≠ none → s.lock.readers = []
  loc : ReadersPure S → ∀ t i n l, (s.threads t).pc = .loaded i n l → l = s.obj
  pcStamp : ∀ t n, (s.threads t).pc.invStamp = some n → n < s.clk
  trLin : s.trace.Pairwise (fun a b => a.lin < b.lin)
  trStamp : ∀ e ∈ s.trace, e.inv < e.lin ∧ e.lin < s.clk ∧ ∀ r, e.res = some r → e.lin < r ∧ r < s.clk
  run : ReadersPure S → runSeq S.step s0 (s.trace.map (·.op)) = (s.obj, s.trace.map (·.out))
  hist : s.hist.Perm (s.trace.filterMap TEntry.complete?)
  pend : ∀ e ∈ s.trace, e.res = none → (s.threads e.tid).pc.pending e
  pcTr : ∀ t i n l o, ((s.threads t).pc = .committed i n l o ∨ (s.threads t).pc = .released i n l o) →
      (⟨t, i, o, n, l, none⟩ : TEntry ι ο) ∈ s.trace

theorem inv_init (S : Spec σ ι ο) (s0 : σ) (progs : List (List ι)) : Inv S s0 (init s0 progs) := by
  refine ⟨?_, ?_, ?_, ?_, ?_, ?_, ?_, ?_, ?_, ?_, ?_⟩ <;>
    simp [init, holdsExcl, holdsShared, PC.holding, PC.invStamp, runSeq]

/-- entries of a list that is strictly sorted by `lin` are determined by `lin` -/
theorem eq_of_lin_eq {l : List (TEntry ι ο)} (h : l.Pairwise (fun a b => a.lin < b.lin))
    {a b : TEntry ι ο} (ha : a ∈ l) (hb : b ∈ l) (hab : a.lin = b.lin) : a = b := by
  induction l with
  | nil => cases ha
  | cons x xs ih =>
    rw [List.pairwise_cons] at h
    rcases List.mem_cons.mp ha with rfl | ha' <;> rcases List.mem_cons.mp hb with rfl | hb'
    · rfl
    · have := h.1 b hb'; omega
    · have := h.1 a ha'; omega
    · exact ih h.2 ha' hb'

theorem setRes_lin (l r : Nat) (e : TEntry ι ο) : (setRes l r e).lin = e.lin := by
  unfold setRes; split <;> rfl
theorem setRes_op (l r : Nat) (e : TEntry ι ο) : (setRes l r e).op = e.op := by
  unfold setRes; split <;> rfl
theorem setRes_out (l r : Nat) (e : TEntry ι ο) : (setRes l r e).out = e.out := by
  unfold setRes; split <;> rfl
theorem setRes_inv (l r : Nat) (e : TEntry ι ο) : (setRes l r e).inv = e.inv := by
  unfold setRes; split <;> rfl
theorem setRes_tid (l r : Nat) (e : TEntry ι ο) : (setRes l r e).tid = e.tid := by
  unfold setRes; split <;> rfl
theorem setRes_of_ne {l r : Nat} {e : TEntry ι ο} (h : e.lin ≠ l) : setRes l r e = e := by
  unfold setRes; simp [h]

/-- Filling in the response stamp of the (unique) pending entry with commit stamp `l` adds exactly
    that completed record to the completed part of the trace. -/
theorem filterMap_setRes {tr : List (TEntry ι ο)} (hs : tr.Pairwise (fun a b => a.lin < b.lin))
    {e : TEntry ι ο} (he : e ∈ tr) (hres : e.res = none) (r : Nat) :
    ((tr.map (setRes e.lin r)).filterMap TEntry.complete?).Perm
      (⟨e.tid, e.op, e.out, e.inv, r⟩ :: tr.filterMap TEntry.complete?) := by
  induction tr with
  | nil => cases he
  | cons x xs ih =>
    rw [List.pairwise_cons] at hs
    by_cases hx : x.lin = e.lin
    · have hxe : x = e := eq_of_lin_eq (List.pairwise_cons.mpr hs) (List.mem_cons_self ..) he hx
      subst hxe
      have hrest : xs.map (setRes x.lin r) = xs := by
        conv => rhs; rw [← List.map_id xs]
        apply List.map_congr_left
        intro y hy
        have := hs.1 y hy
        exact setRes_of_ne (by omega)
      simp only [List.map_cons, hrest, List.filterMap_cons]
      have h1 : (setRes x.lin r x).complete? = some ⟨x.tid, x.op, x.out, x.inv, r⟩ := by
        simp [setRes, TEntry.complete?]
      have h2 : x.complete? = none := by simp [TEntry.complete?, hres]
      rw [h1, h2]
    · have he' : e ∈ xs := by
        rcases List.mem_cons.mp he with rfl | h
        · exact absurd rfl hx
        · exact h
      have ih' := ih hs.2 he'
      simp only [List.map_cons, List.filterMap_cons, setRes_of_ne hx]
      cases hc : x.complete? with
      | none => simpa using ih'
      | some g =>
        simp only
        exact (List.Perm.cons g ih').trans (List.Perm.swap _ _ _)

section Step
variable {S : Spec σ ι ο} {s0 : σ} {s : Sys σ ι ο}

/-- a thread whose `holding` does not change and which is not in a `loaded`/`committed`/`released`
    state before or after: used for the pure bookkeeping steps -/
private theorem holds_congr {th th' : Thread σ ι ο} (h : th'.pc.holding = th.pc.holding) :
    (holdsExcl S th' ↔ holdsExcl S th) ∧ (holdsShared S th' ↔ holdsShared S th) := by
  simp [holdsExcl, holdsShared, h]

theorem inv_invoke (h : Inv S s0 s) (t : Nat) (i : ι) (rest : List ι)
    (hpc : (s.threads t).pc = .idle) :
    Inv S s0 { s with clk := s.clk + 1, threads := upd s.threads t ⟨rest, .invoked i s.clk⟩ } := by
  have hne : ∀ e ∈ s.trace, e.res = none → e.tid ≠ t := by
    intro e he hr heq
    have := h.pend e he hr
    rw [heq, hpc] at this
    rcases this with h1 | h1 <;> cases h1
  refine ⟨?_, ?_, h.wr_rd, ?_, ?_, h.trLin, ?_, h.run, h.hist, ?_, ?_⟩
  · intro u
    by_cases hu : u = t
    · subst hu
      have := h.wr u
      simp only [holdsExcl, hpc, PC.holding] at this
      simp [holdsExcl, PC.holding]
      simpa using this
    · simp only [upd_other _ hu]; exact h.wr u
  · intro u
    by_cases hu : u = t
    · subst hu
      have := h.rd u
      simp only [holdsShared, hpc, PC.holding] at this
      simp [holdsShared, PC.holding]
      simpa using this
    · simp only [upd_other _ hu]; exact h.rd u
  · intro hp u j n l
    by_cases hu : u = t
    · subst hu; simp
    · simp only [upd_other _ hu]; exact h.loc hp u j n l
  · intro u n
    by_cases hu : u = t
    · subst hu; simp [PC.invStamp]; omega
    · simp only [upd_other _ hu]; intro hn; have := h.pcStamp u n hn; omega
  · intro e he
    obtain ⟨a, b, c⟩ := h.trStamp e he
    dsimp only
    refine ⟨a, by omega, ?_⟩
    intro r hr; have := c r hr; omega
  · intro e he hr
    simp only [upd_other _ (hne e he hr)]; exact h.pend e he hr
  · intro u j n l o
    by_cases hu : u = t
    · subst hu; simp
    · simp only [upd_other _ hu]; exact h.pcTr u j n l o

theorem inv_acquire_excl (h : Inv S s0 s) (t : Nat) (i : ι) (n : Nat)
    (hpc : (s.threads t).pc = .invoked i n) (hm : S.mode i = .excl)
    (hw : s.lock.writer = none) (hr : s.lock.readers = []) :
    Inv S s0 { s with lock := ⟨some t, []⟩, threads := upd s.threads t ⟨(s.threads t).prog, .acquired i n⟩ } := by
  have hne : ∀ e ∈ s.trace, e.res = none → e.tid ≠ t := by
    intro e he hr heq
    have := h.pend e he hr
    rw [heq, hpc] at this
    rcases this with h1 | h1 <;> cases h1
  refine ⟨?_, ?_, ?_, ?_, ?_, h.trLin, h.trStamp, h.run, h.hist, ?_, ?_⟩
  · intro u
    by_cases hu : u = t
    · subst hu; simp [holdsExcl, PC.holding, hm]
    · simp only [upd_other _ hu]
      have := h.wr u
      rw [hw] at this
      constructor
      · intro hx; exact absurd (this.mp hx) (by simp)
      · intro hx; simp at hx; exact absurd hx.symm hu
  · intro u
    by_cases hu : u = t
    · subst hu; simp [holdsShared, PC.holding, hm]
    · simp only [upd_other _ hu]
      have := h.rd u
      rw [hr] at this
      simpa using this
  · intro _; rfl
  · intro hp u j m l
    by_cases hu : u = t
    · subst hu; simp
    · simp only [upd_other _ hu]; exact h.loc hp u j m l
  · intro u m
    by_cases hu : u = t
    · subst hu
      have := h.pcStamp u m
      simp only [hpc, PC.invStamp] at this
      simpa [PC.invStamp] using this
    · simp only [upd_other _ hu]; exact h.pcStamp u m
  · intro e he hr'
    simp only [upd_other _ (hne e he hr')]; exact h.pend e he hr'
  · intro u j m l o
    by_cases hu : u = t
    · subst hu; simp
    · simp only [upd_other _ hu]; exact h.pcTr u j m l o

theorem inv_acquire_shared (h : Inv S s0 s) (t : Nat) (i : ι) (n : Nat)
    (hpc : (s.threads t).pc = .invoked i n) (hm : S.mode i = .shared)
    (hw : s.lock.writer = none) :
    Inv S s0 { s with lock := ⟨none, t :: s.lock.readers⟩,
                      threads := upd s.threads t ⟨(s.threads t).prog, .acquired i n⟩ } := by
  have hne : ∀ e ∈ s.trace, e.res = none → e.tid ≠ t := by
    intro e he hr heq
    have := h.pend e he hr
    rw [heq, hpc] at this
    rcases this with h1 | h1 <;> cases h1
  refine ⟨?_, ?_, ?_, ?_, ?_, h.trLin, h.trStamp, h.run, h.hist, ?_, ?_⟩
  · intro u
    by_cases hu : u = t
    · subst hu; simp [holdsExcl, PC.holding, hm]
    · simp only [upd_other _ hu]
      have := h.wr u
      rw [hw] at this
      simpa using this
  · intro u
    by_cases hu : u = t
    · subst hu; simp [holdsShared, PC.holding, hm]
    · simp only [upd_other _ hu]
      have := h.rd u
      simp [hu, this]
  · intro hx; simp at hx
  · intro hp u j m l
    by_cases hu : u = t
    · subst hu; simp
    · simp only [upd_other _ hu]; exact h.loc hp u j m l
  · intro u m
    by_cases hu : u = t
    · subst hu
      have := h.pcStamp u m
      simp only [hpc, PC.invStamp] at this
      simpa [PC.invStamp] using this
    · simp only [upd_other _ hu]; exact h.pcStamp u m
  · intro e he hr'
    simp only [upd_other _ (hne e he hr')]; exact h.pend e he hr'
  · intro u j m l o
    by_cases hu : u = t
    · subst hu; simp
    · simp only [upd_other _ hu]; exact h.pcTr u j m l o

theorem inv_load (h : Inv S s0 s) (t : Nat) (i : ι) (n : Nat)
    (hpc : (s.threads t).pc = .acquired i n) :
    Inv S s0 { s with threads := upd s.threads t ⟨(s.threads t).prog, .loaded i n s.obj⟩ } := by
  have hne : ∀ e ∈ s.trace, e.res = none → e.tid ≠ t := by
    intro e he hr heq
    have := h.pend e he hr
    rw [heq, hpc] at this
    rcases this with h1 | h1 <;> cases h1
  refine ⟨?_, ?_, h.wr_rd, ?_, ?_, h.trLin, h.trStamp, h.run, h.hist, ?_, ?_⟩
  · intro u
    by_cases hu : u = t
    · subst hu
      have := h.wr u
      simp only [holdsExcl, hpc, PC.holding] at this
      simpa [holdsExcl, PC.holding] using this
    · simp only [upd_other _ hu]; exact h.wr u
  · intro u
    by_cases hu : u = t
    · subst hu
      have := h.rd u
      simp only [holdsShared, hpc, PC.holding] at this
      simpa [holdsShared, PC.holding] using this
    · simp only [upd_other _ hu]; exact h.rd u
  · intro hp u j m l
    by_cases hu : u = t
    · subst hu; simp; intro _ _ hl; exact hl.symm
    · simp only [upd_other _ hu]; exact h.loc hp u j m l
  · intro u m
    by_cases hu : u = t
    · subst hu
      have := h.pcStamp u m
      simp only [hpc, PC.invStamp] at this
      simpa [PC.invStamp] using this
    · simp only [upd_other _ hu]; exact h.pcStamp u m
  · intro e he hr'
    simp only [upd_other _ (hne e he hr')]; exact h.pend e he hr'
  · intro u j m l o
    by_cases hu : u = t
    · subst hu; simp
    · simp only [upd_other _ hu]; exact h.pcTr u j m l o

theorem inv_commit (h : Inv S s0 s) (t : Nat) (i : ι) (n : Nat) (l : σ)
    (hpc : (s.threads t).pc = .loaded i n l) :
    Inv S s0 { s with obj := (S.step l i).1, clk := s.clk + 1,
                      threads := upd s.threads t ⟨(s.threads t).prog, .committed i n s.clk (S.step l i).2⟩,
                      trace := s.trace ++ [⟨t, i, (S.step l i).2, n, s.clk, none⟩] } := by
  have hne : ∀ e ∈ s.trace, e.res = none → e.tid ≠ t := by
    intro e he hr heq
    have := h.pend e he hr
    rw [heq, hpc] at this
    rcases this with h1 | h1 <;> cases h1
  have hn : n < s.clk := h.pcStamp t n (by simp [hpc, PC.invStamp])
  refine ⟨?_, ?_, h.wr_rd, ?_, ?_, ?_, ?_, ?_, ?_, ?_, ?_⟩
  · intro u
    by_cases hu : u = t
    · subst hu
      have := h.wr u
      simp only [holdsExcl, hpc, PC.holding] at this
      simpa [holdsExcl, PC.holding] using this
    · simp only [upd_other _ hu]; exact h.wr u
  · intro u
    by_cases hu : u = t
    · subst hu
      have := h.rd u
      simp only [holdsShared, hpc, PC.holding] at this
      simpa [holdsShared, PC.holding] using this
    · simp only [upd_other _ hu]; exact h.rd u
  · -- other threads' local copies are still current
    intro hp u j m l'
    have hl : l = s.obj := h.loc hp t i n l hpc
    subst hl
    by_cases hu : u = t
    · subst hu; simp
    · simp only [upd_other _ hu]
      intro hul
      have hold := h.loc hp u j m l' hul
      cases hm : S.mode i with
      | shared => show l' = (S.step s.obj i).1; rw [hp i s.obj hm]; exact hold
      | excl =>
        exfalso
        have hwt : s.lock.writer = some t := (h.wr t).mp ⟨i, by simp [hpc, PC.holding], hm⟩
        cases hmj : S.mode j with
        | excl =>
          have : s.lock.writer = some u := (h.wr u).mp ⟨j, by simp [hul, PC.holding], hmj⟩
          rw [hwt] at this
          exact hu (Option.some.inj this).symm
        | shared =>
          have : u ∈ s.lock.readers := (h.rd u).mp ⟨j, by simp [hul, PC.holding], hmj⟩
          rw [h.wr_rd (by simp [hwt])] at this
          cases this
  · intro u m
    by_cases hu : u = t
    · subst hu; simp [PC.invStamp]
    · simp only [upd_other _ hu]; intro hm; have := h.pcStamp u m hm; omega
  · rw [List.pairwise_append]
    refine ⟨h.trLin, by simp, ?_⟩
    intro a ha b hb
    simp at hb; subst hb
    exact (h.trStamp a ha).2.1
  · intro e he
    rcases List.mem_append.mp he with he | he
    · obtain ⟨a, b, c⟩ := h.trStamp e he
      dsimp only
      refine ⟨a, by omega, ?_⟩
      intro r hr; have := c r hr; omega
    · simp at he; subst he
      exact ⟨hn, by simp, by simp⟩
  · intro hp
    have hl : l = s.obj := h.loc hp t i n l hpc
    subst hl
    simp only [List.map_append, List.map_cons, List.map_nil]
    rw [runSeq_append, h.run hp]
  · show s.hist.Perm ((s.trace ++ [_]).filterMap TEntry.complete?)
    rw [List.filterMap_append]
    simp only [List.filterMap_cons, TEntry.complete?, List.filterMap_nil, List.append_nil]
    exact h.hist
  · intro e he hr
    rcases List.mem_append.mp he with he | he
    · simp only [upd_other _ (hne e he hr)]; exact h.pend e he hr
    · simp at he; subst he
      simp [PC.pending]
  · intro u j m l' o
    by_cases hu : u = t
    · subst hu
      simp only [upd_same]
      intro hx
      rcases hx with hx | hx
      · cases hx; simp
      · cases hx
    · simp only [upd_other _ hu]
      intro hx
      exact List.mem_append_left _ (h.pcTr u j m l' o hx)

theorem inv_release (h : Inv S s0 s) (t : Nat) (i : ι) (n l : Nat) (o : ο)
    (hpc : (s.threads t).pc = .committed i n l o) :
    Inv S s0 { s with lock := (match S.mode i with
                                | .excl => ⟨none, s.lock.readers⟩
                                | .shared => ⟨s.lock.writer, s.lock.readers.filter (fun u => u != t)⟩),
                      threads := upd s.threads t ⟨(s.threads t).prog, .released i n l o⟩ } := by
  refine ⟨?_, ?_, ?_, ?_, ?_, h.trLin, h.trStamp, h.run, h.hist, ?_, ?_⟩
  · intro u
    have ht := h.wr t
    simp only [holdsExcl, hpc, PC.holding] at ht
    by_cases hu : u = t
    · subst hu
      simp only [upd_same, holdsExcl, PC.holding]
      cases hm : S.mode i with
      | excl => simp
      | shared =>
        simp only
        have : ¬ s.lock.writer = some u := by
          intro hx; have := ht.mpr hx; simp [hm] at this
        simpa using this
    · simp only [upd_other _ hu]
      have hu' := h.wr u
      cases hm : S.mode i with
      | shared => simpa using hu'
      | excl =>
        simp only
        have hwt : s.lock.writer = some t := ht.mp ⟨i, rfl, hm⟩
        rw [hwt] at hu'
        constructor
        · intro hx; have := hu'.mp hx; exact absurd (Option.some.inj this).symm hu
        · intro hx; cases hx
  · intro u
    have ht := h.rd t
    simp only [holdsShared, hpc, PC.holding] at ht
    by_cases hu : u = t
    · subst hu
      simp only [upd_same, holdsShared, PC.holding]
      cases hm : S.mode i with
      | excl =>
        simp only
        have : u ∉ s.lock.readers := by
          intro hx; have := ht.mpr hx; simp [hm] at this
        simpa using this
      | shared => simp
    · simp only [upd_other _ hu]
      have hu' := h.rd u
      cases hm : S.mode i with
      | excl => simpa using hu'
      | shared => simp [List.mem_filter, hu, hu']
  · cases hm : S.mode i with
    | excl => simp
    | shared =>
      simp only
      intro hx
      rw [h.wr_rd hx]; rfl
  · intro hp u j m l'
    by_cases hu : u = t
    · subst hu; simp
    · simp only [upd_other _ hu]; exact h.loc hp u j m l'
  · intro u m
    by_cases hu : u = t
    · subst hu; simp [PC.invStamp]
    · simp only [upd_other _ hu]; exact h.pcStamp u m
  · intro e he hr
    have hold := h.pend e he hr
    by_cases hu : e.tid = t
    · rw [hu, hpc] at hold
      rw [hu]
      simp only [upd_same]
      rcases hold with h1 | h1
      · cases h1; right; rfl
      · cases h1
    · simp only [upd_other _ hu]; exact hold
  · intro u j m l' o'
    by_cases hu : u = t
    · subst hu
      simp only [upd_same]
      intro hx
      rcases hx with hx | hx
      · cases hx
      · cases hx; exact h.pcTr u i n l o (Or.inl hpc)
    · simp only [upd_other _ hu]; exact h.pcTr u j m l' o'

theorem inv_respond (h : Inv S s0 s) (t : Nat) (i : ι) (n l : Nat) (o : ο)
    (hpc : (s.threads t).pc = .released i n l o) :
    Inv S s0 { s with clk := s.clk + 1, hist := s.hist ++ [⟨t, i, o, n, s.clk⟩],
                      trace := s.trace.map (setRes l s.clk),
                      threads := upd s.threads t ⟨(s.threads t).prog, .idle⟩ } := by
  have he0 : (⟨t, i, o, n, l, none⟩ : TEntry ι ο) ∈ s.trace := h.pcTr t i n l o (Or.inr hpc)
  refine ⟨?_, ?_, h.wr_rd, ?_, ?_, ?_, ?_, ?_, ?_, ?_, ?_⟩
  · intro u
    by_cases hu : u = t
    · subst hu
      have := h.wr u
      simp only [holdsExcl, hpc, PC.holding] at this
      simp [holdsExcl, PC.holding]
      simpa using this
    · simp only [upd_other _ hu]; exact h.wr u
  · intro u
    by_cases hu : u = t
    · subst hu
      have := h.rd u
      simp only [holdsShared, hpc, PC.holding] at this
      simp [holdsShared, PC.holding]
      simpa using this
    · simp only [upd_other _ hu]; exact h.rd u
  · intro hp u j m l'
    by_cases hu : u = t
    · subst hu; simp
    · simp only [upd_other _ hu]; exact h.loc hp u j m l'
  · intro u m
    by_cases hu : u = t
    · subst hu; simp [PC.invStamp]
    · simp only [upd_other _ hu]; intro hm; have := h.pcStamp u m hm; omega
  · rw [List.pairwise_map]
    exact h.trLin.imp (fun hab => by simpa [setRes_lin] using hab)
  · intro e' he'
    obtain ⟨e, he, rfl⟩ := List.mem_map.mp he'
    obtain ⟨a, b, c⟩ := h.trStamp e he
    rw [setRes_inv, setRes_lin]
    dsimp only
    refine ⟨a, by omega, ?_⟩
    intro r hr
    unfold setRes at hr
    split at hr
    · simp at hr; subst hr; omega
    · have := c r hr; omega
  · have h1 : (s.trace.map (setRes l s.clk)).map (·.op) = s.trace.map (·.op) := by
      rw [List.map_map]; apply List.map_congr_left; intro e _; exact setRes_op _ _ _
    have h2 : (s.trace.map (setRes l s.clk)).map (·.out) = s.trace.map (·.out) := by
      rw [List.map_map]; apply List.map_congr_left; intro e _; exact setRes_out _ _ _
    intro hp; simp only [h1, h2]; exact h.run hp
  · have hf := filterMap_setRes h.trLin he0 rfl s.clk
    simp only at hf
    refine (List.perm_append_singleton _ _).trans ?_
    exact (List.Perm.cons _ h.hist).trans hf.symm
  · intro e' he' hr
    obtain ⟨e, he, rfl⟩ := List.mem_map.mp he'
    have hne : e.lin ≠ l := by
      intro heq; simp [setRes, heq] at hr
    rw [setRes_of_ne hne] at hr ⊢
    have hold := h.pend e he hr
    have hu : e.tid ≠ t := by
      intro heq
      rw [heq, hpc] at hold
      rcases hold with h1 | h1
      · cases h1
      · cases h1; exact hne rfl
    simp only [upd_other _ hu]; exact hold
  · intro u j m l' o'
    by_cases hu : u = t
    · subst hu; simp
    · simp only [upd_other _ hu]
      intro hx
      have hmem := h.pcTr u j m l' o' hx
      have hne : l' ≠ l := by
        intro heq
        have := eq_of_lin_eq h.trLin hmem he0 (by simpa using heq)
        simp at this
        exact hu this.1
      refine List.mem_map.mpr ⟨_, hmem, ?_⟩
      exact setRes_of_ne (by simpa using hne)

theorem inv_tstep (h : Inv S s0 s) (t : Nat) : Inv S s0 (tstep S s t) := by
  unfold tstep
  simp only
  split
  · rename_i hpc
    split
    · exact h
    · exact inv_invoke h t _ _ hpc
  · rename_i i n hpc
    split
    · rename_i hm
      split
      · rename_i hc; exact inv_acquire_excl h t i n hpc hm hc.1 hc.2
      · exact h
    · rename_i hm
      split
      · rename_i hc; exact inv_acquire_shared h t i n hpc hm hc
      · exact h
  · rename_i i n hpc; exact inv_load h t i n hpc
  · rename_i i n l hpc; exact inv_commit h t i n l hpc
  · rename_i i n l o hpc; exact inv_release h t i n l o hpc
  · rename_i i n l o hpc; exact inv_respond h t i n l o hpc

theorem inv_exec (h : Inv S s0 s) (sch : List Nat) : Inv S s0 (exec S s sch) := by
  induction sch generalizing s with
  | nil => exact h
  | cons t ts ih => exact ih (inv_tstep h t)

end Step

/-! ### consequences -/

/-- Mutual exclusion needs no hypothesis on the specification. -/
theorem inv_mutex {S : Spec σ ι ο} {s0 : σ} {s : Sys σ ι ο} (h : Inv S s0 s) (t u : Nat) (htu : t ≠ u)
    (ht : holdsExcl S (s.threads t)) : ¬ holdsAny (s.threads u) := by
  intro ⟨j, hj⟩
  have hwt := (h.wr t).mp ht
  cases hm : S.mode j with
  | excl =>
    have := (h.wr u).mp ⟨j, hj, hm⟩
    rw [hwt] at this
    exact htu (Option.some.inj this)
  | shared =>
    have := (h.rd u).mp ⟨j, hj, hm⟩
    rw [h.wr_rd (by simp [hwt])] at this
    cases this

theorem complete?_of_res {e : TEntry ι ο} {r : Nat} (h : e.res = some r) :
    e.complete? = some ⟨e.tid, e.op, e.out, e.inv, r⟩ := by
  simp [TEntry.complete?, h]

/-- In a quiescent state the completed trace is a linearization of the history. -/
theorem inv_linearization {S : Spec σ ι ο} {s0 : σ} {s : Sys σ ι ο} (hp : ReadersPure S) (h : Inv S s0 s) (hq : Quiescent s) :
    IsLinearization S.step s0 s.hist (s.trace.filterMap TEntry.complete?) ∧
      (runSeq S.step s0 ((s.trace.filterMap TEntry.complete?).map (·.op))).1 = s.obj := by
  have hall : ∀ e ∈ s.trace, ∃ r, e.res = some r := by
    intro e he
    cases hr : e.res with
    | some r => exact ⟨r, rfl⟩
    | none =>
      have := h.pend e he hr
      rw [hq e.tid] at this
      rcases this with h1 | h1 <;> cases h1
  have hop : ∀ (tr : List (TEntry ι ο)), (∀ e ∈ tr, ∃ r, e.res = some r) →
      (tr.filterMap TEntry.complete?).map (·.op) = tr.map (·.op) ∧
      (tr.filterMap TEntry.complete?).map (·.out) = tr.map (·.out) := by
    intro tr
    induction tr with
    | nil => intro _; simp
    | cons x xs ih =>
      intro hx
      obtain ⟨r, hr⟩ := hx x (List.mem_cons_self ..)
      have := ih (fun e he => hx e (List.mem_cons_of_mem _ he))
      simp [complete?_of_res hr, this.1, this.2]
  obtain ⟨h1, h2⟩ := hop s.trace hall
  refine ⟨⟨h.hist.symm, ?_, ?_⟩, ?_⟩
  · -- real time: commit stamps are increasing along the trace and lie inside [inv, res]
    rw [List.pairwise_filterMap]
    refine (List.Pairwise.and_mem.mp h.trLin).imp ?_
    intro a b ⟨ha, hb, hab⟩ a' ha' b' hb'
    obtain ⟨ra, hra⟩ := hall a ha
    obtain ⟨rb, hrb⟩ := hall b hb
    rw [complete?_of_res hra] at ha'
    rw [complete?_of_res hrb] at hb'
    cases ha'; cases hb'
    simp only
    have := (h.trStamp a ha).1
    have := ((h.trStamp b hb).2.2 rb hrb).1
    omega
  · rw [h1, h2, h.run hp]
  · rw [h1, h.run hp]

/-! ### soundness of the executable checker -/

theorem pickEach_perm {α : Type} {l : List α} {p : α × List α} (h : p ∈ pickEach l) : (p.1 :: p.2).Perm l := by
  induction l generalizing p with
  | nil => cases h
  | cons a as ih =>
    simp only [pickEach, List.mem_cons, List.mem_map] at h
    rcases h with rfl | ⟨q, hq, rfl⟩
    · exact List.Perm.refl _
    · exact (List.Perm.swap _ _ _).trans (List.Perm.cons a (ih hq))

theorem search_sound [DecidableEq ο] (step : σ → ι → σ × ο) (fuel : Nat) (s : σ) (rem : List (Rec ι ο))
    (h : search step fuel s rem = true) : Linearizable step s rem := by
  induction fuel generalizing s rem with
  | zero =>
    simp [search] at h
    subst h
    exact ⟨[], List.Perm.refl _, List.Pairwise.nil, by simp [runSeq]⟩
  | succ fuel ih =>
    simp only [search, Bool.or_eq_true, List.any_eq_true, Bool.and_eq_true, List.all_eq_true,
      decide_eq_true_eq] at h
    rcases h with h | ⟨p, hp, hmin, hout, hrest⟩
    · simp at h; subst h
      exact ⟨[], List.Perm.refl _, List.Pairwise.nil, by simp [runSeq]⟩
    · obtain ⟨w, hw⟩ := ih _ _ hrest
      refine ⟨p.1 :: w, (List.Perm.cons _ hw.perm).trans (pickEach_perm hp), ?_, ?_⟩
      · rw [List.pairwise_cons]
        refine ⟨?_, hw.realtime⟩
        intro b hb
        have := hmin b (hw.perm.subset hb)
        simpa using this
      · simp only [List.map_cons, runSeq]
        rw [hw.legal, hout]

theorem linearizable?_sound [DecidableEq ο] (step : σ → ι → σ × ο) (s0 : σ) (h : List (Rec ι ο))
    (hc : linearizable? step s0 h = true) : Linearizable step s0 h :=
  search_sound step _ _ _ hc

/-! ### completeness of the executable checker -/

theorem pickEach_of_mem {α : Type} {l : List α} {a : α} (h : a ∈ l) : ∃ rest, (a, rest) ∈ pickEach l := by
  induction l with
  | nil => cases h
  | cons x xs ih =>
    rcases List.mem_cons.mp h with rfl | h'
    · exact ⟨xs, by simp [pickEach]⟩
    · obtain ⟨rest, hr⟩ := ih h'
      refine ⟨x :: rest, ?_⟩
      simp only [pickEach, List.mem_cons, List.mem_map]
      exact Or.inr ⟨(a, rest), hr, rfl⟩

theorem search_complete [DecidableEq ο] (step : σ → ι → σ × ο) (w : List (Rec ι ο)) :
    ∀ (s : σ) (rem : List (Rec ι ο)), IsLinearization step s rem w → search step rem.length s rem = true := by
  induction w with
  | nil =>
    intro s rem h
    have : rem = [] := List.Perm.eq_nil (h.perm.symm)
    subst this
    simp [search]
  | cons a w' ih =>
    intro s rem h
    have ha : a ∈ rem := h.perm.subset (List.mem_cons_self ..)
    obtain ⟨rest, hp⟩ := pickEach_of_mem ha
    have hperm : (a :: rest).Perm rem := pickEach_perm hp
    have hrest : w'.Perm rest := (List.Perm.cons_inv (h.perm.trans hperm.symm))
    have hlen : rem.length = rest.length + 1 := by rw [← hperm.length_eq]; simp
    have hrt := List.pairwise_cons.mp h.realtime
    have hleg := h.legal
    simp only [List.map_cons, runSeq, List.cons.injEq] at hleg
    have hsub : IsLinearization step (step s a.op).1 rest w' := ⟨hrest, hrt.2, hleg.2⟩
    have := ih _ _ hsub
    rw [hlen]
    simp only [search, Bool.or_eq_true, List.any_eq_true, Bool.and_eq_true, List.all_eq_true, decide_eq_true_eq]
    refine Or.inr ⟨(a, rest), hp, ?_, hleg.1, this⟩
    intro r' hr'
    have := hrt.1 r' (hrest.symm.subset hr')
    simpa using this

theorem linearizable?_complete [DecidableEq ο] (step : σ → ι → σ × ο) (s0 : σ) (h : List (Rec ι ο))
    (hl : Linearizable step s0 h) : linearizable? step s0 h = true := by
  obtain ⟨w, hw⟩ := hl
  exact search_complete step w s0 h hw

theorem linearizable?_iff [DecidableEq ο] (step : σ → ι → σ × ο) (s0 : σ) (h : List (Rec ι ο)) :
    linearizable? step s0 h = true ↔ Linearizable step s0 h :=
  ⟨linearizable?_sound step s0 h, linearizable?_complete step s0 h⟩
/-! ### counters -/

def sumAll (ps : List (List Int)) : Int := (ps.map List.sum).sum

theorem sumAll_set {ps : List (List Int)} {t : Nat} {d : Int} {rest : List Int}
    (h : ps[t]? = some (d :: rest)) : sumAll (ps.set t rest) + d = sumAll ps := by
  induction ps generalizing t with
  | nil => simp at h
  | cons p ps ih =>
    cases t with
    | zero =>
      simp at h; subst h
      simp [sumAll, List.sum_cons]; omega
    | succ t =>
      simp at h
      have := ih h
      simp only [sumAll, List.set_cons_succ, List.map_cons, List.sum_cons] at this ⊢
      omega

theorem AtomicCounter.step_total (c : AtomicCounter) (t : Nat) :
    (c.step t).val + sumAll (c.step t).progs = c.val + sumAll c.progs := by
  unfold AtomicCounter.step
  split
  · rename_i d rest h
    have := sumAll_set h
    simp only; omega
  · rfl

theorem AtomicCounter.exec_total (c : AtomicCounter) (sch : List Nat) :
    (c.exec sch).val + sumAll (c.exec sch).progs = c.val + sumAll c.progs := by
  induction sch generalizing c with
  | nil => rfl
  | cons t ts ih => simp only [AtomicCounter.exec]; rw [ih, AtomicCounter.step_total]

theorem sumAll_done {ps : List (List Int)} (h : ∀ p ∈ ps, p = []) : sumAll ps = 0 := by
  induction ps with
  | nil => rfl
  | cons p ps ih =>
    have hp := h p (List.mem_cons_self ..)
    subst hp
    have := ih (fun q hq => h q (List.mem_cons_of_mem _ hq))
    simp only [sumAll, List.map_cons, List.sum_cons, List.sum_nil] at this ⊢
    omega

theorem sumAll_ones {ps : List (List Int)} (h : ∀ p ∈ ps, ∀ d ∈ p, d = 1) :
    sumAll ps = ((ps.map List.length).sum : Nat) := by
  induction ps with
  | nil => rfl
  | cons p ps ih =>
    have ih' := ih (fun q hq => h q (List.mem_cons_of_mem _ hq))
    have hp : p.sum = (p.length : Nat) := by
      have hp' := h p (List.mem_cons_self ..)
      clear ih ih' h
      induction p with
      | nil => rfl
      | cons d ds ihd =>
        have := hp' d (List.mem_cons_self ..)
        have := ihd (fun e he => hp' e (List.mem_cons_of_mem _ he))
        simp only [List.sum_cons, List.length_cons]; omega
    simp only [sumAll, List.map_cons, List.sum_cons] at ih' ⊢
    omega

/-! ### lock-free readers -/

theorem readAlone_length {δ α : Type} (chunk : δ → Nat → α) (db : δ) (k : Nat) :
    (readAlone chunk db k).length = k := by
  induction k with
  | zero => rfl
  | succ k ih => simp [readAlone, ih]

/-- If no other operation writes the database, then after any schedule every reader holds exactly
    the chunks it would hold after the same number of its own steps run alone. -/
theorem rexec_alone {δ α ω : Type} (chunk : δ → Nat → α) (wr : ω → δ → δ) (hwr : ∀ w d, wr w d = d)
    (s : RState δ α) (hs : ∀ t, s.got t = readAlone chunk s.db (s.got t).length) (sch : List (RAct ω)) :
    (rexec chunk wr s sch).db = s.db ∧
    ∀ t, (rexec chunk wr s sch).got t = readAlone chunk s.db ((s.got t).length + countReads t sch) := by
  induction sch generalizing s with
  | nil => exact ⟨rfl, fun t => by simpa [countReads, rexec] using hs t⟩
  | cons a as ih =>
    simp only [rexec]
    cases a with
    | other w =>
      have hdb : (rstep chunk wr s (.other w)).db = s.db := by simp [rstep, hwr]
      have hs' : ∀ t, (rstep chunk wr s (.other w)).got t =
          readAlone chunk (rstep chunk wr s (.other w)).db ((rstep chunk wr s (.other w)).got t).length := by
        intro t; rw [hdb]; exact hs t
      obtain ⟨h1, h2⟩ := ih _ hs'
      refine ⟨h1.trans hdb, fun t => ?_⟩
      rw [h2 t, hdb]; rfl
    | read u =>
      have hdb : (rstep chunk wr s (.read u : RAct ω)).db = s.db := rfl
      have hgot : ∀ t, (rstep chunk wr s (.read u : RAct ω)).got t =
          readAlone chunk s.db ((s.got t).length + (if u = t then 1 else 0)) := by
        intro t
        by_cases hu : t = u
        · subst hu
          simp only [rstep, ↓reduceIte]
          show chunk s.db (s.got t).length :: s.got t = readAlone chunk s.db ((s.got t).length + 1)
          rw [readAlone]; congr 1; exact hs t
        · have hu' : ¬ u = t := fun h => hu h.symm
          simp only [rstep, hu, hu', ↓reduceIte, Nat.add_zero]
          exact hs t
      have hlen : ∀ t, ((rstep chunk wr s (.read u : RAct ω)).got t).length = (s.got t).length + (if u = t then 1 else 0) := by
        intro t; rw [hgot t, readAlone_length]
      have hs' : ∀ t, (rstep chunk wr s (.read u : RAct ω)).got t =
          readAlone chunk (rstep chunk wr s (.read u : RAct ω)).db ((rstep chunk wr s (.read u : RAct ω)).got t).length := by
        intro t; rw [hdb, hlen t]; exact hgot t
      obtain ⟨h1, h2⟩ := ih _ hs'
      refine ⟨h1.trans hdb, fun t => ?_⟩
      rw [h2 t, hdb, hlen t]
      simp only [countReads, Nat.add_assoc]

end Wtf.Conc
