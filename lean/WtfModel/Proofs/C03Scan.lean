import WtfModel.Proofs.C03Index
import WtfModel.Proofs.SearchBasic
/-
  C03, part 2: the BM25F accumulation over the inverted index (`initialScores`, mirrors
  calculateInitialScores / processPostingsForTerm / termBM25F) equals, entry by entry and with the
  same order of floating-point operations, the score recomputed by scanning the commands' texts.
  Core Lean only; no law about the score type is used (the equality is syntactic, so it holds for
  IEEE floats as well as for an ordered field).
-/
namespace Wtf.Search
open Text Index Filters ScoreOps

variable {S : Type} [ScoreOps S]

/-! ### the scan specification of the score map (no index involved) -/

/-- the term passes the `idf < minIDF` gate of calculateInitialScores (idf recomputed from the
    document frequency counted by scanning) -/
def termLive (T : Tuning S) (db : Db) (t : Token) : Bool :=
  !(lt (T.idf db.length (dfOf db t)) T.params.minIDF)

/-- contribution of one query term to one command: `(idf * boost) * Σ_fields fieldBM25`, every
    ingredient recomputed from the texts: df by scanning, field lengths and term frequencies by
    tokenising the command's fields, averages from the summed field lengths -/
def scanContrib (T : Tuning S) (db : Db) (tb : List (Bytes × S)) (c : Cmd) (t : Token) : S :=
  mul (mul (T.idf db.length (dfOf db t)) (boostOf tb t))
    (termBM25F T.params db.length (sumLens (db.map docLens)) (docLens c) (tfOf c t))

/-- one step of the left fold over the query terms (in order, with multiplicity); a fresh entry
    starts as `0 + x`, as in Go's `s := scores[id]; s += x` -/
def scanStep (T : Tuning S) (db : Db) (tb : List (Bytes × S)) (c : Cmd) (acc : Option S) (t : Token) : Option S :=
  if containsTerm c t && termLive T db t then some (add (acc.getD zero) (scanContrib T db tb c t)) else acc

/-- scan score of one command (none: no live query term occurs in it) -/
def scanScore (T : Tuning S) (db : Db) (tb : List (Bytes × S)) (terms : List Token) (c : Cmd) : Option S :=
  terms.foldl (scanStep T db tb c) none

/-- the entry of document `d` in the scan score map: only eligible documents have one -/
def scanEntry (T : Tuning S) (db : Db) (o : Opts S) (terms : List Token) (d : Nat) : Option S :=
  match db[d]? with
  | some c => if passes T.ri T.host o.filter c then scanScore T db o.boosts terms c else none
  | none => none

/-- the whole scan score map, in document order -/
def scanScores (T : Tuning S) (db : Db) (o : Opts S) (terms : List Token) : List (Nat × S) :=
  (List.range db.length).filterMap (fun d => (scanEntry T db o terms d).map (fun s => (d, s)))

theorem scanStep_isSome (T : Tuning S) (db : Db) (tb : List (Bytes × S)) (c : Cmd) (acc : Option S) (t : Token) :
    (scanStep T db tb c acc t).isSome = (acc.isSome || (containsTerm c t && termLive T db t)) := by
  unfold scanStep; split <;> simp_all

theorem scanFold_isSome (T : Tuning S) (db : Db) (tb : List (Bytes × S)) (c : Cmd) (terms : List Token) (acc : Option S) :
    (terms.foldl (scanStep T db tb c) acc).isSome =
      (acc.isSome || terms.any (fun t => containsTerm c t && termLive T db t)) := by
  induction terms generalizing acc with
  | nil => simp
  | cons t rest ih => simp only [List.foldl_cons, ih, scanStep_isSome, List.any_cons, Bool.or_assoc]

/-- a command has a scan score iff it contains at least one live query term -/
theorem scanScore_isSome (T : Tuning S) (db : Db) (tb : List (Bytes × S)) (terms : List Token) (c : Cmd) :
    (scanScore T db tb terms c).isSome = terms.any (fun t => containsTerm c t && termLive T db t) := by
  unfold scanScore; rw [scanFold_isSome]; simp

/-! ### the score map: lookups -/

omit [ScoreOps S] in
theorem lookup_cons_if (k d : Nat) (s : S) (m : List (Nat × S)) :
    List.lookup k ((d, s) :: m) = if k = d then some s else List.lookup k m := by
  by_cases h : k = d
  · subst h; simp
  · have : (k == d) = false := by simpa using h
    simp [List.lookup_cons, this, h]

omit [ScoreOps S] in
theorem lookup_none_of_lt {m : List (Nat × S)} {d : Nat} (h : ∀ k ∈ m.map (·.1), d < k) : List.lookup d m = none := by
  induction m with
  | nil => rfl
  | cons a rest ih =>
    obtain ⟨d', s⟩ := a
    have h1 : d < d' := h d' (by simp)
    have h2 : ¬ d = d' := by omega
    simp only [lookup_cons_if, h2, ↓reduceIte]
    exact ih (fun k hk => h k (by simp [hk]))

theorem lookup_addScore {m : List (Nat × S)} (hs : KeysSorted m) (d : Nat) (x : S) (k : Nat) :
    List.lookup k (addScore m d x) =
      if k = d then some (add ((List.lookup d m).getD zero) x) else List.lookup k m := by
  induction m with
  | nil =>
    simp only [addScore, lookup_cons_if, List.lookup_nil]
    by_cases h : k = d <;> simp [h]
  | cons a rest ih =>
    obtain ⟨d', s⟩ := a
    simp only [KeysSorted, List.map_cons, List.pairwise_cons] at hs
    simp only [addScore]
    by_cases hd : d' = d
    · subst hd
      simp only [beq_self_eq_true, ↓reduceIte, lookup_cons_if]
      by_cases hk : k = d' <;> simp [hk]
    · have hd' : (d' == d) = false := by simpa using hd
      simp only [hd', Bool.false_eq_true, ↓reduceIte]
      by_cases hlt : d < d'
      · simp only [hlt, ↓reduceIte]
        have hnone : List.lookup d ((d', s) :: rest) = none := by
          apply lookup_none_of_lt
          intro k' hk'
          simp only [List.map_cons, List.mem_cons] at hk'
          cases hk' with
          | inl e => omega
          | inr e => have := hs.1 k' e; omega
        rw [hnone]
        by_cases hk : k = d
        · subst hk; simp
        · simp only [lookup_cons_if (d := d), hk, ↓reduceIte]
      · simp only [hlt, ↓reduceIte]
        have hdd : ¬ d = d' := fun e => hd e.symm
        by_cases hk : k = d'
        · subst hk
          have : ¬ k = d := hd
          simp [this]
        · simp only [lookup_cons_if, hk, hdd, ↓reduceIte]
          exact ih hs.2

/-- the body of the loop over a posting list in processPostingsForTerm -/
def ppStep (T : Tuning S) (db : Db) (idx : Index) (tot : DocLens) (o : Opts S) (w : S)
    (sc : List (Nat × S)) (p : Posting) : List (Nat × S) :=
  match db[p.doc]? with
  | none => sc
  | some c =>
    if passes T.ri T.host o.filter c then
      addScore sc p.doc (mul w (termBM25F T.params idx.n tot (idx.lens.getD p.doc {}) p.tf))
    else sc

theorem processPostings_eq_foldl (T : Tuning S) (db : Db) (idx : Index) (tot : DocLens) (o : Opts S) (w : S)
    (ps : List Posting) (m : List (Nat × S)) :
    processPostings T db idx tot o w ps m = ps.foldl (ppStep T db idx tot o w) m := rfl

theorem keysSorted_ppStep (T : Tuning S) (db : Db) (idx : Index) (tot : DocLens) (o : Opts S) (w : S)
    (p : Posting) {m : List (Nat × S)} (hs : KeysSorted m) : KeysSorted (ppStep T db idx tot o w m p) := by
  unfold ppStep
  split
  · exact hs
  · split
    · exact keysSorted_addScore hs _ _
    · exact hs

theorem lookup_ppStep (T : Tuning S) (db : Db) (idx : Index) (tot : DocLens) (o : Opts S) (w : S)
    (p : Posting) {m : List (Nat × S)} (hs : KeysSorted m) (k : Nat) :
    List.lookup k (ppStep T db idx tot o w m p) =
      if k = p.doc then
        match db[k]? with
        | none => List.lookup k m
        | some c =>
          if passes T.ri T.host o.filter c then
            some (add ((List.lookup k m).getD zero) (mul w (termBM25F T.params idx.n tot (idx.lens.getD k {}) p.tf)))
          else List.lookup k m
      else List.lookup k m := by
  unfold ppStep
  by_cases hk : k = p.doc
  · subst hk
    simp only [↓reduceIte]
    cases db[p.doc]? with
    | none => rfl
    | some c =>
      simp only
      split
      · rw [lookup_addScore hs]; simp
      · rfl
  · simp only [hk, ↓reduceIte]
    split
    · rfl
    · split
      · rw [lookup_addScore hs]; simp [hk]
      · rfl

/-- processPostingsForTerm, read at one document -/
theorem lookup_processPostings (T : Tuning S) (db : Db) (idx : Index) (tot : DocLens) (o : Opts S) (w : S)
    (ps : List Posting) (hnd : (ps.map (·.doc)).Nodup) (m : List (Nat × S)) (hs : KeysSorted m) (k : Nat) :
    List.lookup k (processPostings T db idx tot o w ps m) =
      match ps.find? (·.doc == k) with
      | none => List.lookup k m
      | some p =>
        match db[k]? with
        | none => List.lookup k m
        | some c =>
          if passes T.ri T.host o.filter c then
            some (add ((List.lookup k m).getD zero) (mul w (termBM25F T.params idx.n tot (idx.lens.getD k {}) p.tf)))
          else List.lookup k m := by
  rw [processPostings_eq_foldl]
  induction ps generalizing m with
  | nil => simp
  | cons p rest ih =>
    simp only [List.map_cons, List.nodup_cons] at hnd
    simp only [List.foldl_cons]
    rw [ih hnd.2 _ (keysSorted_ppStep T db idx tot o w p hs), lookup_ppStep T db idx tot o w p hs]
    by_cases hpk : p.doc = k
    · subst hpk
      have hnone : rest.find? (·.doc == p.doc) = none := by
        rw [List.find?_eq_none]
        intro q hq hqk
        have : q.doc = p.doc := by simpa using hqk
        exact hnd.1 (this ▸ List.mem_map_of_mem hq)
      simp only [hnone, List.find?_cons, beq_self_eq_true, ↓reduceIte]
    · have hpk' : (p.doc == k) = false := by simpa using hpk
      have hkp : ¬ k = p.doc := fun e => hpk e.symm
      simp only [List.find?_cons, hpk', hkp, ↓reduceIte]

/-! ### one query term, then all of them -/

/-- the body of the loop over the query terms in calculateInitialScores -/
def termStep (T : Tuning S) (db : Db) (idx : Index) (o : Opts S) (tb : List (Bytes × S))
    (sc : List (Nat × S)) (t : Token) : List (Nat × S) :=
  match look idx.postings t with
  | none => sc
  | some ps =>
    let idf := T.idf idx.n ((look idx.df t).getD 0)
    if lt idf T.params.minIDF then sc
    else processPostings T db idx (sumLens idx.lens) o (mul idf (boostOf tb t)) ps sc

theorem initialScores_eq_foldl (T : Tuning S) (db : Db) (idx : Index) (o : Opts S) (pq : Option (NlpOut S))
    (terms : List Token) :
    initialScores T db idx o pq terms = terms.foldl (termStep T db idx o (termBoosts o pq)) [] := rfl

theorem termStep_inv (T : Tuning S) (db : Db) (idx : Index) (o : Opts S) (tb : List (Bytes × S))
    {m : List (Nat × S)} (h : ScoresInv T db o m) (t : Token) : ScoresInv T db o (termStep T db idx o tb m t) := by
  unfold termStep
  split
  · exact h
  · dsimp only
    split
    · exact h
    · exact processPostings_inv T db idx _ o _ _ m h

theorem getD_lens (db : Db) (k : Nat) (c : Cmd) (h : db[k]? = some c) : (db.map docLens).getD k {} = docLens c := by
  simp [List.getD, h]

theorem nodup_scanPostings (db : Db) (t : Token) : ((scanPostings db t).map (·.doc)).Nodup :=
  (scanPostingsAux_sorted 0 db t).imp (fun h => Nat.ne_of_lt h)

/-- one term of the query, read at one document: index side = scan side -/
theorem lookup_termStep (T : Tuning S) (db : Db) (idx : Index) (hidx : BuildSpec db idx) (o : Opts S)
    (tb : List (Bytes × S)) (m : List (Nat × S)) (hs : KeysSorted m) (t : Token) (k : Nat) :
    List.lookup k (termStep T db idx o tb m t) =
      match db[k]? with
      | some c => if passes T.ri T.host o.filter c then scanStep T db tb c (List.lookup k m) t else List.lookup k m
      | none => List.lookup k m := by
  have hdf : (look idx.df t).getD 0 = dfOf db t := by
    rw [hidx.df]; split <;> simp_all
  unfold termStep scanStep termLive scanContrib
  rw [hidx.postings, hdf, hidx.n, hidx.lens]
  have hfind := find_scanPostings db t k
  by_cases hemp : (scanPostings db t).isEmpty
  · -- no document contains the term
    simp only [hemp, ↓reduceIte]
    have : scanPostings db t = [] := by simpa using hemp
    rw [this] at hfind
    cases hdb : db[k]? with
    | none => rfl
    | some c =>
      rw [hdb] at hfind
      have hc : containsTerm c t = false := by
        by_cases hc : containsTerm c t
        · simp [hc] at hfind
        · simpa using hc
      simp [hc]
  · simp only [hemp, Bool.false_eq_true, ↓reduceIte]
    by_cases hlive : lt (T.idf db.length (dfOf db t)) T.params.minIDF
    · simp only [hlive, ↓reduceIte]
      cases hdb : db[k]? with
      | none => rfl
      | some c => simp
    · simp only [hlive, Bool.false_eq_true, ↓reduceIte]
      rw [lookup_processPostings T db idx _ o _ _ (nodup_scanPostings db t) m hs k, hfind]
      cases hdb : db[k]? with
      | none => rfl
      | some c =>
        simp only
        by_cases hc : containsTerm c t
        · simp only [hc, ↓reduceIte, Bool.not_false, Bool.and_self, hidx.n, hidx.lens, getD_lens db k c hdb]
        · simp [hc]

theorem lookup_foldl_termStep (T : Tuning S) (db : Db) (idx : Index) (hidx : BuildSpec db idx) (o : Opts S)
    (tb : List (Bytes × S)) (terms : List Token) (m : List (Nat × S)) (hm : ScoresInv T db o m) (k : Nat) :
    List.lookup k (terms.foldl (termStep T db idx o tb) m) =
      match db[k]? with
      | some c =>
        if passes T.ri T.host o.filter c then terms.foldl (scanStep T db tb c) (List.lookup k m) else List.lookup k m
      | none => List.lookup k m := by
  induction terms generalizing m with
  | nil => simp only [List.foldl_nil]; split <;> simp
  | cons t rest ih =>
    simp only [List.foldl_cons]
    rw [ih _ (termStep_inv T db idx o tb hm t), lookup_termStep T db idx hidx o tb m hm.1 t k]
    cases hdb : db[k]? with
    | none => rfl
    | some c => simp only; split <;> rfl

/-- **index = scan for the scores**: every entry of the score map computed through the index is the
    scan entry, for any boost table -/
theorem lookup_initialScores (T : Tuning S) (db : Db) (idx : Index) (hidx : BuildSpec db idx) (o : Opts S)
    (pq : Option (NlpOut S)) (terms : List Token) (d : Nat) :
    List.lookup d (initialScores T db idx o pq terms) =
      match db[d]? with
      | some c => if passes T.ri T.host o.filter c then scanScore T db (termBoosts o pq) terms c else none
      | none => none := by
  rw [initialScores_eq_foldl, lookup_foldl_termStep T db idx hidx o _ terms [] (scoresInv_nil T db o) d]
  simp only [List.lookup_nil, scanScore]

/-! ### the map is determined by its lookups -/

omit [ScoreOps S] in
theorem lookup_isSome_iff_mem (m : List (Nat × S)) (k : Nat) : (List.lookup k m).isSome ↔ k ∈ m.map (·.1) := by
  induction m with
  | nil => simp
  | cons a rest ih =>
    obtain ⟨d, s⟩ := a
    by_cases h : k = d
    · subst h; simp
    · simp [lookup_cons_if, ih, h]

omit [ScoreOps S] in
theorem keysSorted_ext {m1 m2 : List (Nat × S)} (h1 : KeysSorted m1) (h2 : KeysSorted m2)
    (h : ∀ k, List.lookup k m1 = List.lookup k m2) : m1 = m2 := by
  induction m1 generalizing m2 with
  | nil =>
    cases m2 with
    | nil => rfl
    | cons b r2 => obtain ⟨d, s⟩ := b; have := h d; simp at this
  | cons a r1 ih =>
    cases m2 with
    | nil => obtain ⟨d, s⟩ := a; have := h d; simp at this
    | cons b r2 =>
      obtain ⟨da, sa⟩ := a
      obtain ⟨db', sb⟩ := b
      simp only [KeysSorted, List.map_cons, List.pairwise_cons] at h1 h2
      have hkey : da = db' := by
        by_cases hlt : da < db'
        · have e := h da
          have hn : List.lookup da ((db', sb) :: r2) = none := by
            apply lookup_none_of_lt
            intro k hk
            simp only [List.map_cons, List.mem_cons] at hk
            cases hk with
            | inl e => omega
            | inr e => have := h2.1 k e; omega
          rw [hn] at e; simp at e
        · by_cases hgt : db' < da
          · have e := h db'
            have hn : List.lookup db' ((da, sa) :: r1) = none := by
              apply lookup_none_of_lt
              intro k hk
              simp only [List.map_cons, List.mem_cons] at hk
              cases hk with
              | inl e => omega
              | inr e => have := h1.1 k e; omega
            rw [hn] at e; simp at e
          · omega
      subst hkey
      have hval : sa = sb := by have e := h da; simpa [lookup_cons_if] using e
      subst hval
      congr 1
      apply ih h1.2 h2.2
      intro k
      by_cases hk : k = da
      · subst hk
        rw [lookup_none_of_lt (fun k' hk' => h1.1 k' hk'), lookup_none_of_lt (fun k' hk' => h2.1 k' hk')]
      · have e := h k
        simpa [lookup_cons_if, hk] using e

omit [ScoreOps S] in
theorem lookup_filterMap_range (f : Nat → Option S) (n k : Nat) :
    List.lookup k ((List.range n).filterMap (fun d => (f d).map (fun s => (d, s)))) = if k < n then f k else none := by
  induction n with
  | zero => simp
  | succ n ih =>
    have hlast : List.lookup k ([n].filterMap (fun d => (f d).map (fun s => (d, s)))) = if k = n then f k else none := by
      by_cases hkn : k = n
      · subst hkn
        cases hf : f k <;> simp [hf]
      · cases hf : f n <;> simp [hf, lookup_cons_if, hkn]
    rw [List.range_succ, List.filterMap_append, List.lookup_append, ih, hlast]
    by_cases hk : k < n
    · have h1 : k < n + 1 := by omega
      have h2 : ¬ k = n := by omega
      simp only [hk, ↓reduceIte, h1, h2]
      cases f k <;> simp
    · by_cases hkn : k = n
      · simp [hkn]
      · have : ¬ k < n + 1 := by omega
        simp [hk, hkn, this]

omit [ScoreOps S] in
theorem keysSorted_filterMap_range (f : Nat → Option S) (n : Nat) :
    KeysSorted ((List.range n).filterMap (fun d => (f d).map (fun s => (d, s)))) := by
  unfold KeysSorted
  induction n with
  | zero => simp
  | succ n ih =>
    rw [List.range_succ, List.filterMap_append, List.map_append, List.pairwise_append]
    refine ⟨ih, ?_, ?_⟩
    · cases hn : f n <;> simp [hn]
    · intro a ha b hb
      simp only [List.mem_map, List.mem_filterMap, List.mem_range, Option.map_eq_some_iff] at ha
      obtain ⟨x, ⟨d, hd, s, _, rfl⟩, rfl⟩ := ha
      cases hn : f n with
      | none => simp [hn] at hb
      | some s' => simp [hn] at hb; subst hb; exact hd

/-- **index = scan for the scores**, as one equation between lists: same entries, same order, same
    arithmetic expression in every entry -/
theorem initialScores_eq_scanScores (T : Tuning S) (db : Db) (idx : Index) (hidx : BuildSpec db idx) (o : Opts S)
    (terms : List Token) :
    initialScores T db idx o none terms = scanScores T db o terms := by
  apply keysSorted_ext (initialScores_inv T db idx o none terms).1 (keysSorted_filterMap_range _ _)
  intro k
  rw [lookup_initialScores T db idx hidx]
  rw [lookup_filterMap_range (fun d => scanEntry T db o terms d)]
  unfold scanEntry
  cases hdb : db[k]? with
  | none => simp
  | some c =>
    have : k < db.length := by
      have := List.getElem?_eq_some_iff.mp hdb; exact this.1
    simp [this, termBoosts]

end Wtf.Search
