import WtfModel.Gen.LruCode
/-
  Running the translated method bodies of lru_cache.go (`Gen/LruCode.lean`) on the abstract state IS the hand-written model
  (`Model/Lru.lean`), for every state, time and argument.  Core Lean only.
-/
namespace Wtf.LruProg
open Wtf.Lru

variable {κ ν : Type} [DecidableEq κ]

theorem get_eq (s : State κ ν) (now : Int) (k : κ) :
    call Gen.LruCode.get s { now := now, key := some k } = ((Lru.get s now k).1, Out.val (Lru.get s now k).2) := by
  unfold call Gen.LruCode.get Lru.get
  cases hf : find? k s.entries with
  | none => simp [exec, execBasic, execBasics, evalCond, Sel.entry?, retOut, hf]
  | some e =>
    cases hx : expired s.ttl now e with
    | true =>
      have hk : e.key = k := by
        have := List.find?_some hf
        simpa using this
      simp [exec, execBasic, execBasics, evalCond, Sel.entry?, retOut, hf, hx, hk]
    | false =>
      have hk : e.key = k := by
        have := List.find?_some hf
        simpa using this
      simp [exec, execBasic, evalCond, Sel.entry?, Sel.map, retOut, hf, hx, hk]

theorem put_eq (s : State κ ν) (now : Int) (k : κ) (v : ν) :
    call Gen.LruCode.put s { now := now, key := some k, value := some v } = (Lru.put s now k v, Out.unit) := by
  unfold call Gen.LruCode.put Lru.put
  cases hf : find? k s.entries with
  | some e =>
    have hk : e.key = k := by
      have := List.find?_some hf
      simpa using this
    simp [exec, execBasic, execBasics, evalCond, Sel.entry?, Sel.map, retOut, hf, hk]
  | none =>
    by_cases hc : s.cap < s.entries.length + 1
    · simp [exec, execBasic, execBasics, evalCond, Sel.entry?, retOut, hf, hc, evictOldestSem, List.getLast?_cons]
    · simp [exec, execBasic, evalCond, Sel.entry?, retOut, hf, hc]

theorem delete_eq (s : State κ ν) (now : Int) (k : κ) :
    call Gen.LruCode.delete s { now := now, key := some k } = ((Lru.delete s k).1, Out.bool (Lru.delete s k).2) := by
  unfold call Gen.LruCode.delete Lru.delete
  cases hf : find? k s.entries with
  | some e =>
    have hk : e.key = k := by
      have := List.find?_some hf
      simpa using this
    simp [exec, execBasic, execBasics, evalCond, Sel.entry?, retOut, hf, hk]
  | none => simp [exec, execBasic, evalCond, Sel.entry?, retOut, hf]

theorem clear_eq (s : State κ ν) (now : Int) :
    call Gen.LruCode.clear s { now := now } = (Lru.clear s, Out.unit) := by
  simp [call, Gen.LruCode.clear, Lru.clear, exec, execBasic, retOut]

theorem cleanup_eq (s : State κ ν) (now : Int) :
    call Gen.LruCode.cleanupExpired s { now := now } = ((Lru.cleanup s now).1, Out.nat (Lru.cleanup s now).2) := by
  unfold call Gen.LruCode.cleanupExpired Lru.cleanup
  by_cases ht : s.ttl ≤ 0
  · simp [exec, execBasics, evalCond, retOut, ht]
  · simp [exec, execBasic, evalCond, retOut, ht]

theorem size_eq (s : State κ ν) (now : Int) :
    call Gen.LruCode.size s { now := now } = (s, Out.nat s.entries.length) := by
  simp [call, Gen.LruCode.size, exec, retOut]

/-- the translated body of evictOldest means what the call statement means -/
theorem evictOldest_eq (s : State κ ν) (now : Int) :
    (call Gen.LruCode.evictOldest s ({ now := now } : Args κ ν)).1 = evictOldestSem s := by
  unfold call Gen.LruCode.evictOldest evictOldestSem
  cases hl : s.entries.getLast? with
  | none => simp [exec, execBasic, evalCond, Sel.entry?, hl]
  | some e => simp [exec, execBasic, execBasics, evalCond, Sel.entry?, hl]

/-- one step of the model is the translated method for that operation (Stats and Keys only read fields) -/
theorem step_regenerated (s : State κ ν) (now : Int) :
    (∀ k, Lru.step s now (.get k) = call Gen.LruCode.get s { now := now, key := some k }) ∧
    (∀ k v, Lru.step s now (.put k v) = call Gen.LruCode.put s { now := now, key := some k, value := some v }) ∧
    (∀ k, Lru.step s now (.delete k) = call Gen.LruCode.delete s { now := now, key := some k }) ∧
    Lru.step s now .clear = call Gen.LruCode.clear s { now := now } ∧
    Lru.step s now .cleanup = call Gen.LruCode.cleanupExpired s { now := now } ∧
    Lru.step s now .size = call Gen.LruCode.size s { now := now } := by
  refine ⟨fun k => ?_, fun k v => ?_, fun k => ?_, ?_, ?_, ?_⟩
  · rw [get_eq]; rfl
  · rw [put_eq]; rfl
  · rw [delete_eq]; rfl
  · rw [clear_eq]; rfl
  · rw [cleanup_eq]; rfl
  · rw [size_eq]; rfl

end Wtf.LruProg
