import Mathlib.Algebra.Order.Field.Basic
import WtfModel.Basic.EScoreOps

/-!
  The proof-side instance of `EScoreOps`: any linearly ordered field `S`, with a square-root
  *operation* supplied through `HasSqrt` (data) and its two laws through `SqrtLaws` (a `Prop`).
  `ℝ` with `Real.sqrt` is an instance (`Proofs/ScoreReal.lean`).
  Over a field there is no NaN: `eq` is decidable equality, so `isNaN` is constantly `false`.
-/
namespace Wtf

/-- a square-root operation (no laws) -/
class HasSqrt (S : Type) where
  sqrt : S → S

section
variable {S : Type} [Field S] [LinearOrder S] [HasSqrt S]

instance fieldOps : EScoreOps S where
  zero := 0
  one := 1
  add := (· + ·)
  sub := (· - ·)
  mul := (· * ·)
  div := (· / ·)
  sqrt := HasSqrt.sqrt
  le a b := decide (a ≤ b)
  lt a b := decide (a < b)
  eq a b := decide (a = b)
  ofNat n := (n : S)
  ofQ q := (q.num : S) / (q.den : S)

/-- what the proofs use about the square root -/
class SqrtLaws (S : Type) [Field S] [LinearOrder S] [HasSqrt S] : Prop where
  sqrt_nonneg : ∀ x : S, 0 ≤ HasSqrt.sqrt x
  sqrt_mul_self : ∀ x : S, 0 ≤ x → HasSqrt.sqrt x * HasSqrt.sqrt x = x

@[simp] theorem ops_zero : (EScoreOps.zero : S) = 0 := rfl
@[simp] theorem ops_one : (EScoreOps.one : S) = 1 := rfl
@[simp] theorem ops_add (a b : S) : EScoreOps.add a b = a + b := rfl
@[simp] theorem ops_sub (a b : S) : EScoreOps.sub a b = a - b := rfl
@[simp] theorem ops_mul (a b : S) : EScoreOps.mul a b = a * b := rfl
@[simp] theorem ops_div (a b : S) : EScoreOps.div a b = a / b := rfl
@[simp] theorem ops_sqrt (a : S) : EScoreOps.sqrt a = HasSqrt.sqrt a := rfl
@[simp] theorem ops_le (a b : S) : EScoreOps.le a b = decide (a ≤ b) := rfl
@[simp] theorem ops_lt (a b : S) : EScoreOps.lt a b = decide (a < b) := rfl
@[simp] theorem ops_eq (a b : S) : EScoreOps.eq a b = decide (a = b) := rfl
@[simp] theorem ops_ge (a b : S) : EScoreOps.ge a b = decide (b ≤ a) := rfl
@[simp] theorem ops_gt (a b : S) : EScoreOps.gt a b = decide (b < a) := rfl
@[simp] theorem ops_isNaN (a : S) : EScoreOps.isNaN a = false := by simp [EScoreOps.isNaN]
@[simp] theorem ops_ofNat (n : Nat) : (EScoreOps.ofNat n : S) = (n : S) := rfl
theorem ops_ofQ (q : Q) : (EScoreOps.ofQ q : S) = (q.num : S) / (q.den : S) := rfl

end
end Wtf
