import WtfModel.Model.Index
/-
  C03, part 1: the incrementally built inverted index (`build`, mirrors BuildUniversalIndex /
  indexCommand) answers every lookup exactly like the scan specification (`scanPostings`, `dfOf`,
  `docLens`), for every database.  Core Lean only.
-/
namespace Wtf.Index
open Text

/-! ### association lists -/
section assoc
variable {α : Type}

theorem look_upd_same (m : List (Token × α)) (k : Token) (d : α) (f : α → α) :
    look (upd m k d f) k = some (f ((look m k).getD d)) := by
  induction m with
  | nil => simp [upd, look]
  | cons a rest ih =>
    obtain ⟨k', v⟩ := a
    by_cases h : k' = k
    · subst h; simp [upd, look]
    · simp [upd, look, h, ih]

theorem look_upd_ne (m : List (Token × α)) (k k' : Token) (d : α) (f : α → α) (h : k' ≠ k) :
    look (upd m k d f) k' = look m k' := by
  induction m with
  | nil => simp [upd, look, Ne.symm h]
  | cons a rest ih =>
    obtain ⟨k1, v⟩ := a
    by_cases h1 : k1 = k
    · subst h1
      simp [upd, look, Ne.symm h]
    · by_cases h2 : k1 = k'
      · subst h2; simp [upd, look, h1]
      · simp [upd, look, h1, h2, ih]

theorem look_upd (m : List (Token × α)) (k k' : Token) (d : α) (f : α → α) :
    look (upd m k d f) k' = if k' = k then some (f ((look m k).getD d)) else look m k' := by
  split
  · rename_i h; subst h; exact look_upd_same m _ d f
  · rename_i h; exact look_upd_ne m k k' d f h

theorem keys_upd (m : List (Token × α)) (k : Token) (d : α) (f : α → α) :
    (upd m k d f).map (·.1) = if k ∈ m.map (·.1) then m.map (·.1) else m.map (·.1) ++ [k] := by
  induction m with
  | nil => simp [upd]
  | cons a rest ih =>
    obtain ⟨k', v⟩ := a
    by_cases h : k' = k
    · subst h; simp [upd]
    · have h' : ¬ k = k' := fun e => h e.symm
      simp only [upd, beq_iff_eq, h, ↓reduceIte, List.map_cons, ih, List.mem_cons, h', false_or]
      split <;> simp

theorem nodup_keys_upd {m : List (Token × α)} (h : (m.map (·.1)).Nodup) (k : Token) (d : α) (f : α → α) :
    ((upd m k d f).map (·.1)).Nodup := by
  rw [keys_upd]
  split
  · exact h
  · rename_i hk
    rw [List.nodup_append]
    refine ⟨h, by simp, ?_⟩
    intro a ha b hb
    simp at hb; subst hb
    intro e; subst e; exact hk ha

theorem look_eq_none_iff (m : List (Token × α)) (k : Token) : look m k = none ↔ k ∉ m.map (·.1) := by
  induction m with
  | nil => simp [look]
  | cons a rest ih =>
    obtain ⟨k', v⟩ := a
    by_cases h : k' = k
    · subst h; simp [look]
    · have h' : ¬ k = k' := fun e => h e.symm
      simp [look, h, h', ih]

/-- folding `upd` over an association list with distinct keys touches every key exactly once -/
theorem look_foldl_upd {β : Type} (tf : List (Token × β)) (hnd : (tf.map (·.1)).Nodup)
    (d : α) (g : β → α → α) (m0 : List (Token × α)) (t : Token) :
    look (tf.foldl (fun m x => upd m x.1 d (g x.2)) m0) t =
      match look tf t with
      | none => look m0 t
      | some v => some (g v ((look m0 t).getD d)) := by
  induction tf generalizing m0 with
  | nil => simp [look]
  | cons a rest ih =>
    obtain ⟨k, v⟩ := a
    simp only [List.map_cons, List.nodup_cons] at hnd
    simp only [List.foldl_cons]
    rw [ih hnd.2]
    by_cases h : k = t
    · subst h
      have hn : look rest k = none := (look_eq_none_iff rest k).mpr hnd.1
      simp [look, hn, look_upd_same]
    · have h' : t ≠ k := fun e => h e.symm
      simp only [look, beq_iff_eq, h, ↓reduceIte, look_upd_ne _ _ _ _ _ h']

end assoc

/-! ### per-document term frequencies -/

def FieldTF.addN (x : FieldTF) : Field → Nat → FieldTF
  | .cmd, n => { x with cmd := x.cmd + n }
  | .desc, n => { x with desc := x.desc + n }
  | .keys, n => { x with keys := x.keys + n }
  | .tags, n => { x with tags := x.tags + n }

theorem FieldTF.addN_zero (x : FieldTF) (f : Field) : x.addN f 0 = x := by cases f <;> rfl

theorem FieldTF.inc_addN (x : FieldTF) (f : Field) (n : Nat) : (x.inc f).addN f n = x.addN f (n + 1) := by
  cases f <;> simp [FieldTF.inc, FieldTF.addN] <;> omega

theorem count_cons (a : Token) (ts : List Token) (t : Token) :
    count (a :: ts) t = (if a = t then 1 else 0) + count ts t := by
  unfold count
  by_cases h : a = t
  · subst h; simp; omega
  · simp [h]

theorem look_addTokens (m : List (Token × FieldTF)) (ts : List Token) (f : Field) (t : Token) :
    look (addTokens m ts f) t =
      if count ts t = 0 then look m t else some (((look m t).getD {}).addN f (count ts t)) := by
  unfold addTokens
  induction ts generalizing m with
  | nil => simp [count]
  | cons a rest ih =>
    simp only [List.foldl_cons]
    rw [ih, count_cons, look_upd]
    by_cases h : a = t
    · subst h
      simp only [↓reduceIte, Option.getD_some]
      have : 1 + count rest a ≠ 0 := by omega
      simp only [this, ↓reduceIte]
      split
      · rename_i h0
        rw [h0, ← FieldTF.addN_zero (((look m a).getD {}).inc f) f, FieldTF.inc_addN]
      · rw [FieldTF.inc_addN]; congr 2; omega
    · have h' : ¬ t = a := fun e => h e.symm
      simp [h, h']

theorem nodup_keys_addTokens {m : List (Token × FieldTF)} (h : (m.map (·.1)).Nodup) (ts : List Token) (f : Field) :
    ((addTokens m ts f).map (·.1)).Nodup := by
  unfold addTokens
  induction ts generalizing m with
  | nil => exact h
  | cons a rest ih => simp only [List.foldl_cons]; exact ih (nodup_keys_upd h _ _ _)

theorem nodup_keys_docTF (c : Cmd) : ((docTF c).map (·.1)).Nodup := by
  unfold docTF
  exact nodup_keys_addTokens (nodup_keys_addTokens (nodup_keys_addTokens (nodup_keys_addTokens (by simp) _ _) _ _) _ _) _ _

/-- indexCommand's frequency map of one command, read at a term: absent iff the term occurs in no
    field, otherwise the four true per-field counts. -/
theorem look_docTF (c : Cmd) (t : Token) :
    look (docTF c) t = if containsTerm c t then some (tfOf c t) else none := by
  unfold docTF containsTerm tfOf FieldTF.isZero
  simp only [look_addTokens, look]
  generalize count c.cmdTokens t = a
  generalize count c.descTokens t = b
  generalize count c.keysTokens t = k
  generalize count c.tagsTokens t = g
  cases a <;> cases b <;> cases k <;> cases g <;> simp [FieldTF.addN]

/-! ### scan specification: elementary facts -/

theorem scanPostingsAux_append (i : Nat) (db : Db) (c : Cmd) (t : Token) :
    scanPostingsAux i (db ++ [c]) t =
      scanPostingsAux i db t ++ (if containsTerm c t then [{ doc := i + db.length, tf := tfOf c t }] else []) := by
  induction db generalizing i with
  | nil => simp [scanPostingsAux]
  | cons a rest ih =>
    simp only [List.cons_append, scanPostingsAux, ih, List.length_cons]
    have : i + 1 + rest.length = i + (rest.length + 1) := by omega
    split <;> simp [this]

theorem scanPostings_append (db : Db) (c : Cmd) (t : Token) :
    scanPostings (db ++ [c]) t =
      scanPostings db t ++ (if containsTerm c t then [{ doc := db.length, tf := tfOf c t }] else []) := by
  unfold scanPostings
  rw [scanPostingsAux_append]; simp

theorem dfOf_append (db : Db) (c : Cmd) (t : Token) :
    dfOf (db ++ [c]) t = dfOf db t + (if containsTerm c t then 1 else 0) := by
  unfold dfOf
  rw [List.filter_append, List.length_append]
  by_cases h : containsTerm c t <;> simp [h]

theorem scanPostingsAux_length (i : Nat) (db : Db) (t : Token) : (scanPostingsAux i db t).length = dfOf db t := by
  induction db generalizing i with
  | nil => simp [scanPostingsAux, dfOf]
  | cons a rest ih =>
    unfold dfOf at ih ⊢
    simp only [scanPostingsAux, List.filter_cons]
    split <;> simp [ih]

/-- the posting list of a term has one entry per document containing it -/
theorem scanPostings_length (db : Db) (t : Token) : (scanPostings db t).length = dfOf db t :=
  scanPostingsAux_length 0 db t

theorem scanPostings_isEmpty (db : Db) (t : Token) : (scanPostings db t).isEmpty = (dfOf db t == 0) := by
  rw [← scanPostings_length]
  cases scanPostings db t <;> simp

theorem mem_scanPostingsAux_ge {i : Nat} {db : Db} {t : Token} {p : Posting} (h : p ∈ scanPostingsAux i db t) :
    i ≤ p.doc := by
  induction db generalizing i with
  | nil => simp [scanPostingsAux] at h
  | cons a rest ih =>
    simp only [scanPostingsAux] at h
    split at h
    · simp only [List.mem_cons] at h
      cases h with
      | inl h => subst h; exact Nat.le_refl _
      | inr h => have := ih h; omega
    · have := ih h; omega

/-- document ids in a posting list are strictly increasing (document order) -/
theorem scanPostingsAux_sorted (i : Nat) (db : Db) (t : Token) :
    ((scanPostingsAux i db t).map (·.doc)).Pairwise (· < ·) := by
  induction db generalizing i with
  | nil => simp [scanPostingsAux]
  | cons a rest ih =>
    simp only [scanPostingsAux]
    split
    · simp only [List.map_cons, List.pairwise_cons]
      refine ⟨?_, ih (i + 1)⟩
      intro d hd
      obtain ⟨p, hp, rfl⟩ := List.mem_map.mp hd
      have := mem_scanPostingsAux_ge hp; omega
    · exact ih (i + 1)

theorem find_scanPostingsAux (i : Nat) (db : Db) (t : Token) (k : Nat) :
    (scanPostingsAux i db t).find? (·.doc == k) =
      if i ≤ k then
        match db[k - i]? with
        | some c => if containsTerm c t then some { doc := k, tf := tfOf c t } else none
        | none => none
      else none := by
  induction db generalizing i with
  | nil => simp [scanPostingsAux]
  | cons a rest ih =>
    simp only [scanPostingsAux]
    by_cases hik : i = k
    · subst hik
      simp only [Nat.le_refl, ↓reduceIte, Nat.sub_self, List.getElem?_cons_zero]
      have hn : ¬ i + 1 ≤ i := by omega
      split
      · simp
      · rw [ih]; simp [hn]
    · have hstep : (if containsTerm a t = true then ({ doc := i, tf := tfOf a t } : Posting) :: scanPostingsAux (i + 1) rest t
          else scanPostingsAux (i + 1) rest t).find? (·.doc == k) = (scanPostingsAux (i + 1) rest t).find? (·.doc == k) := by
        split
        · simp [hik]
        · rfl
      rw [hstep, ih]
      by_cases hle : i ≤ k
      · have h1 : i + 1 ≤ k := by omega
        have h2 : k - i = (k - (i + 1)) + 1 := by omega
        simp only [h1, hle, ↓reduceIte, h2, List.getElem?_cons_succ]
      · have h1 : ¬ i + 1 ≤ k := by omega
        simp [h1, hle]

/-- the posting list of a term, read at a document: present iff the document contains the term,
    and then with the true per-field frequencies -/
theorem find_scanPostings (db : Db) (t : Token) (k : Nat) :
    (scanPostings db t).find? (·.doc == k) =
      match db[k]? with
      | some c => if containsTerm c t then some { doc := k, tf := tfOf c t } else none
      | none => none := by
  unfold scanPostings
  rw [find_scanPostingsAux]; simp

/-! ### the built index -/

theorem build_append (db : Db) (c : Cmd) : build (db ++ [c]) = addDoc (build db) c := by
  simp [build, List.foldl_append]

theorem build_nil : build [] = {} := rfl

/-- invariant proved by induction over the documents, in the order BuildUniversalIndex visits them -/
structure BuildSpec (db : Db) (idx : Index) : Prop where
  postings : ∀ t, look idx.postings t = if (scanPostings db t).isEmpty then none else some (scanPostings db t)
  df : ∀ t, look idx.df t = if dfOf db t = 0 then none else some (dfOf db t)
  lens : idx.lens = db.map docLens
  n : idx.n = db.length

theorem buildSpec_nil : BuildSpec [] {} :=
  ⟨fun t => by simp [scanPostings, scanPostingsAux, look], fun t => by simp [dfOf, look], rfl, rfl⟩

theorem buildSpec_addDoc {db : Db} {idx : Index} (h : BuildSpec db idx) (c : Cmd) :
    BuildSpec (db ++ [c]) (addDoc idx c) := by
  have hlen : idx.lens.length = db.length := by rw [h.lens]; simp
  refine ⟨?_, ?_, ?_, ?_⟩
  · intro t
    have hf := look_foldl_upd (docTF c) (nodup_keys_docTF c) ([] : List Posting)
      (fun ftf l => l ++ [{ doc := idx.lens.length, tf := ftf }]) idx.postings t
    have : (addDoc idx c).postings =
        (docTF c).foldl (fun m x => upd m x.1 [] ((fun ftf l => l ++ [{ doc := idx.lens.length, tf := ftf }]) x.2)) idx.postings := rfl
    rw [this, hf, look_docTF, h.postings, scanPostings_append, hlen]
    by_cases hc : containsTerm c t
    · simp only [hc, ↓reduceIte]
      split <;> simp_all
    · simp [hc]
  · intro t
    have hf := look_foldl_upd (docTF c) (nodup_keys_docTF c) (0 : Nat) (fun _ n => n + 1) idx.df t
    have : (addDoc idx c).df = (docTF c).foldl (fun m x => upd m x.1 0 ((fun _ n => n + 1) x.2)) idx.df := rfl
    rw [this, hf, look_docTF, h.df, dfOf_append]
    by_cases hc : containsTerm c t
    · simp only [hc, ↓reduceIte]
      split <;> simp_all
    · simp [hc]
  · show idx.lens ++ [docLens c] = _
    rw [h.lens]; simp
  · show idx.n + 1 = _
    rw [h.n]; simp

theorem buildSpec_foldl (db pre : Db) (idx : Index) (h : BuildSpec pre idx) :
    BuildSpec (pre ++ db) (db.foldl addDoc idx) := by
  induction db generalizing pre idx with
  | nil => simpa using h
  | cons c rest ih =>
    have := ih (pre ++ [c]) (addDoc idx c) (buildSpec_addDoc h c)
    simpa using this

theorem buildSpec_build (db : Db) : BuildSpec db (build db) := by
  have := buildSpec_foldl db [] {} buildSpec_nil
  simpa [build] using this

def addLens (a l : DocLens) : DocLens :=
  { cmd := a.cmd + l.cmd, desc := a.desc + l.desc, keys := a.keys + l.keys, tags := a.tags + l.tags }

theorem sumLens_eq (ls : List DocLens) : sumLens ls = ls.foldl addLens {} := rfl

theorem foldl_addLens (ls : List DocLens) (a : DocLens) :
    ls.foldl addLens a =
      { cmd := a.cmd + (ls.map (·.cmd)).sum, desc := a.desc + (ls.map (·.desc)).sum,
        keys := a.keys + (ls.map (·.keys)).sum, tags := a.tags + (ls.map (·.tags)).sum } := by
  induction ls generalizing a with
  | nil => simp
  | cons l rest ih =>
    simp only [List.foldl_cons, ih, List.map_cons, List.sum_cons, addLens]
    congr 1 <;> omega

/-- the collection totals the averages are computed from are the plain sums of the field lengths -/
theorem sumLens_spec (ls : List DocLens) :
    sumLens ls = { cmd := (ls.map (·.cmd)).sum, desc := (ls.map (·.desc)).sum,
                   keys := (ls.map (·.keys)).sum, tags := (ls.map (·.tags)).sum } := by
  rw [sumLens_eq, foldl_addLens]; simp

end Wtf.Index
