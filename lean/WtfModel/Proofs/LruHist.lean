import WtfModel.Proofs.Lru

/-! History-level lemmas for the LRU model: what a lookup may return (latest value, staleness),
    victim choice, statistics.  Core Lean only. -/
namespace Wtf.Lru

set_option linter.unusedSectionVars false
variable {κ ν : Type} [DecidableEq κ]

/-- Abstract log: key ↦ (value most recently stored, time of that store); forgotten on delete / clear. -/
def latestStep (m : κ → Option (ν × Int)) (now : Int) : Op κ ν → (κ → Option (ν × Int))
  | .put k v => fun k' => if k' = k then some (v, now) else m k'
  | .delete k => fun k' => if k' = k then none else m k'
  | .clear => fun _ => none
  | _ => m

def latest : List (Int × Op κ ν) → (κ → Option (ν × Int)) → (κ → Option (ν × Int))
  | [], m => m
  | (now, op) :: rest, m => latest rest (latestStep m now op)

/-- the clock never goes backwards along a history that starts at time `t` -/
def Mono : Int → List (Int × Op κ ν) → Prop
  | _, [] => True
  | t, (now, _) :: rest => t ≤ now ∧ Mono now rest

def lastTime : Int → List (Int × Op κ ν) → Int
  | t, [] => t
  | _, (now, _) :: rest => lastTime now rest

/-- every cached entry holds the latest stored value for its key, stored no earlier than the entry was created -/
def Agree (s : State κ ν) (m : κ → Option (ν × Int)) (t : Int) : Prop :=
  ∀ e ∈ s.entries, m e.key = some (e.val, e.stored) ∧ e.created ≤ e.stored ∧ e.stored ≤ t

theorem agree_sub {s s' : State κ ν} {m t t'} (h : Agree s m t) (ht : t ≤ t')
    (hsub : ∀ e ∈ s'.entries, e ∈ s.entries) : Agree s' m t' := by
  intro e he
  obtain ⟨a, b, c⟩ := h e (hsub e he)
  exact ⟨a, b, Int.le_trans c ht⟩

theorem step_agree {s : State κ ν} {m t} (h : Agree s m t) (now : Int) (ht : t ≤ now) (op : Op κ ν) :
    Agree (step s now op).1 (latestStep m now op) now := by
  cases op with
  | get k =>
    simp only [step, latestStep, get]
    split
    · exact agree_sub h ht (fun e he => he)
    · rename_i e0 he0
      split
      · exact agree_sub h ht (fun e he => (mem_remove.mp he).1)
      · intro e he
        simp only [List.mem_cons] at he
        cases he with
        | inl he =>
          subst he
          obtain ⟨a, b, c⟩ := h e0 (find?_some he0).1
          exact ⟨a, b, Int.le_trans c ht⟩
        | inr he =>
          obtain ⟨a, b, c⟩ := h e (mem_remove.mp he).1
          exact ⟨a, b, Int.le_trans c ht⟩
  | put k v =>
    simp only [step, latestStep, put]
    split
    · rename_i e0 he0
      intro e he
      simp only [List.mem_cons] at he
      cases he with
      | inl he =>
        subst he
        obtain ⟨_, b, c⟩ := h e0 (find?_some he0).1
        refine ⟨by simp [(find?_some he0).2], ?_, Int.le_refl _⟩
        exact Int.le_trans b (Int.le_trans c ht)
      | inr he =>
        obtain ⟨hm, hk⟩ := mem_remove.mp he
        obtain ⟨a, b, c⟩ := h e hm
        exact ⟨by simp [hk, a], b, Int.le_trans c ht⟩
    · rename_i he0
      have key : ∀ e ∈ (({ key := k, val := v, created := now, stored := now, used := s.tick } : Entry κ ν) ::
          s.entries), (if e.key = k then some (v, now) else m e.key) = some (e.val, e.stored) ∧
            e.created ≤ e.stored ∧ e.stored ≤ now := by
        intro e he
        simp only [List.mem_cons] at he
        cases he with
        | inl he => subst he; simp
        | inr he =>
          obtain ⟨a, b, c⟩ := h e he
          have hk := find?_none he0 e he
          exact ⟨by simp [hk, a], b, Int.le_trans c ht⟩
      split
      · intro e he; exact key e (mem_dropLast he)
      · exact key
  | delete k =>
    simp only [step, latestStep, delete]
    split
    · intro e he
      obtain ⟨hm, hk⟩ := mem_remove.mp he
      obtain ⟨a, b, c⟩ := h e hm
      exact ⟨by simp [hk, a], b, Int.le_trans c ht⟩
    · rename_i he0
      intro e he
      obtain ⟨a, b, c⟩ := h e he
      have hk := find?_none he0 e he
      exact ⟨by simp [hk, a], b, Int.le_trans c ht⟩
  | clear => intro e he; simp [step, clear] at he
  | cleanup =>
    simp only [step, latestStep]
    obtain ⟨r, hr, _⟩ := cleanup_spec s now
    apply agree_sub h ht
    intro e he
    rw [hr]
    exact List.mem_append_left _ he
  | size => exact agree_sub h ht (fun e he => he)
  | stats => exact agree_sub h ht (fun e he => he)
  | keys => exact agree_sub h ht (fun e he => he)

theorem run_agree {s : State κ ν} {m t} (h : Agree s m t) (hist : List (Int × Op κ ν)) (hm : Mono t hist) :
    Agree (final s hist) (latest hist m) (lastTime t hist) := by
  induction hist generalizing s m t with
  | nil => exact h
  | cons a rest ih =>
    obtain ⟨now, op⟩ := a
    exact ih (step_agree h now hm.1 op) hm.2

/-- What a successful lookup returns. -/
theorem get_some {s : State κ ν} {now : Int} {k : κ} {v : ν} (h : (get s now k).2 = some v) :
    ∃ e, e ∈ s.entries ∧ e.key = k ∧ e.val = v ∧ expired s.ttl now e = false := by
  unfold get at h
  split at h
  · cases h
  · rename_i e he
    split at h
    · cases h
    · rename_i hexp
      refine ⟨e, (find?_some he).1, (find?_some he).2, ?_, by simpa using hexp⟩
      simpa using h

/-- statistics bookkeeping: (hits, misses) as a function of the visible trace -/
def tallyStep (a : Nat × Nat) : Op κ ν → Out κ ν → Nat × Nat
  | .get _, .val (some _) => (a.1 + 1, a.2)
  | .get _, .val none => (a.1, a.2 + 1)
  | .clear, _ => (0, 0)
  | _, _ => a

def tally : Nat × Nat → List (Int × Op κ ν) → List (Out κ ν) → Nat × Nat
  | a, (_, op) :: rest, o :: os => tally (tallyStep a op o) rest os
  | a, _, _ => a

theorem step_tally (s : State κ ν) (now : Int) (op : Op κ ν) :
    ((step s now op).1.hits, (step s now op).1.misses) = tallyStep (s.hits, s.misses) op (step s now op).2 := by
  cases op with
  | get k =>
    simp only [step, get]
    split
    · rfl
    · split <;> rfl
  | put k v =>
    simp only [step, put, tallyStep]
    split
    · rfl
    · split <;> rfl
  | delete k => simp only [step, delete, tallyStep]; split <;> rfl
  | clear => rfl
  | cleanup =>
    obtain ⟨_, _, _, _, _, hh, hmm, _⟩ := cleanup_spec s now
    simp only [step, tallyStep, hh, hmm]
  | size => rfl
  | stats => rfl
  | keys => rfl

theorem run_tally (s : State κ ν) (hist : List (Int × Op κ ν)) :
    ((final s hist).hits, (final s hist).misses) = tally (s.hits, s.misses) hist (run s hist).2 := by
  induction hist generalizing s with
  | nil => rfl
  | cons a rest ih =>
    obtain ⟨now, op⟩ := a
    simp only [final, run, tally]
    rw [← step_tally]
    exact ih (s := (step s now op).1)

/-- eviction counter: +1 exactly for a put of an absent key into a full cache; reset by clear -/
def evDelta (s : State κ ν) : Op κ ν → Nat
  | .put k _ => if find? k s.entries = none ∧ s.entries.length = s.cap then 1 else 0
  | _ => 0

theorem step_evictions {s : State κ ν} (h : Inv s) (now : Int) (op : Op κ ν) :
    (step s now op).1.evictions = (match op with | .clear => 0 | _ => s.evictions + evDelta s op) := by
  cases op with
  | get k => simp only [step, get, evDelta]; split <;> (try split) <;> rfl
  | put k v =>
    simp only [step, put, evDelta]
    split
    · rename_i e he; simp [he]
    · rename_i he
      simp only [he, true_and, List.length_cons]
      have := h.bounded
      split <;> split <;> simp <;> omega
  | delete k => simp only [step, delete, evDelta]; split <;> rfl
  | clear => rfl
  | cleanup =>
    obtain ⟨_, _, _, _, _, _, _, he, _⟩ := cleanup_spec s now
    simp only [step, evDelta, he, Nat.add_zero]
  | size => rfl
  | stats => rfl
  | keys => rfl

end Wtf.Lru
