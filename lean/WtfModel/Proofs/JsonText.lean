import WtfModel.Model.JsonText
import WtfModel.Proofs.KeyJson

namespace Wtf.JsonText
open Wtf Wtf.Cli Wtf.Utf8 Wtf.KeyJson

/-! ### white space -/

def AllWs (w : Bytes) : Prop := ∀ c ∈ w, isWs c = true

theorem skipWs_append {w : Bytes} (h : AllWs w) (r : Bytes) : skipWs (w ++ r) = skipWs r := by
  induction w with
  | nil => rfl
  | cons c t ih =>
    have hc : isWs c = true := h c (by simp)
    have ht : AllWs t := fun x hx => h x (by simp [hx])
    simp [skipWs, hc, ih ht]

theorem skipWs_cons {c : UInt8} (h : isWs c = false) (r : Bytes) : skipWs (c :: r) = c :: r := by
  simp [skipWs, h]

/-! ### UTF-8: the shapes utf8.DecodeRune accepts -/

def Cont (b : UInt8) : Prop := 0x80 ≤ b.toNat ∧ b.toNat ≤ 0xBF

def V2 (b b1 : UInt8) : Prop := 0xC2 ≤ b.toNat ∧ b.toNat < 0xE0 ∧ Cont b1

def V3 (b b1 b2 : UInt8) : Prop :=
  0xE0 ≤ b.toNat ∧ b.toNat < 0xF0 ∧ (if b.toNat = 0xE0 then 0xA0 else 0x80) ≤ b1.toNat ∧
    b1.toNat ≤ (if b.toNat = 0xED then 0x9F else 0xBF) ∧ Cont b2

def V4 (b b1 b2 b3 : UInt8) : Prop :=
  0xF0 ≤ b.toNat ∧ b.toNat < 0xF5 ∧ (if b.toNat = 0xF0 then 0x90 else 0x80) ≤ b1.toNat ∧
    b1.toNat ≤ (if b.toNat = 0xF4 then 0x8F else 0xBF) ∧ Cont b2 ∧ Cont b3

theorem decodeRune_shape (b : UInt8) (rest : Bytes) :
    decodeRune (b :: rest) = (runeError, 1) ∨
    (b.toNat < 0x80 ∧ decodeRune (b :: rest) = (b.toNat, 1)) ∨
    (∃ b1 r, rest = b1 :: r ∧ V2 b b1) ∨
    (∃ b1 b2 r, rest = b1 :: b2 :: r ∧ V3 b b1 b2) ∨
    (∃ b1 b2 b3 r, rest = b1 :: b2 :: b3 :: r ∧ V4 b b1 b2 b3) := by
  by_cases h1 : b.toNat < 0x80
  · right; left
    exact ⟨h1, by simp [decodeRune, UInt8.lt_iff_toNat_lt, h1]⟩
  by_cases h2 : b.toNat < 0xC2
  · left; simp [decodeRune, UInt8.lt_iff_toNat_lt, h1, h2]
  by_cases h3 : b.toNat < 0xE0
  · match rest with
    | [] => left; simp [decodeRune, UInt8.lt_iff_toNat_lt, h1, h2, h3]
    | b1 :: r =>
      by_cases hc : Cont b1
      · right; right; left
        exact ⟨b1, r, rfl, by omega, h3, hc⟩
      · left
        unfold Cont at hc
        simp [decodeRune, UInt8.lt_iff_toNat_lt, UInt8.le_iff_toNat_le, isCont, h1, h2, h3]
        omega
  by_cases h4 : b.toNat < 0xF0
  · match rest with
    | [] => left; simp [decodeRune, UInt8.lt_iff_toNat_lt, h1, h2, h3, h4]
    | [_] => left; simp [decodeRune, UInt8.lt_iff_toNat_lt, h1, h2, h3, h4]
    | b1 :: b2 :: r =>
      by_cases hv : V3 b b1 b2
      · right; right; right; left
        exact ⟨b1, b2, r, rfl, hv⟩
      · left
        unfold V3 Cont at hv
        by_cases e0 : b.toNat = 0xE0 <;> by_cases ed : b.toNat = 0xED <;>
          simp [decodeRune, UInt8.lt_iff_toNat_lt, UInt8.le_iff_toNat_le, isCont, ← UInt8.toNat_inj, h1, h2, h3, h4, e0, ed] <;>
          simp [e0, ed] at hv <;> omega
  by_cases h5 : b.toNat < 0xF5
  · match rest with
    | [] => left; simp [decodeRune, UInt8.lt_iff_toNat_lt, h1, h2, h3, h4, h5]
    | [_] => left; simp [decodeRune, UInt8.lt_iff_toNat_lt, h1, h2, h3, h4, h5]
    | [_, _] => left; simp [decodeRune, UInt8.lt_iff_toNat_lt, h1, h2, h3, h4, h5]
    | b1 :: b2 :: b3 :: r =>
      by_cases hv : V4 b b1 b2 b3
      · right; right; right; right
        exact ⟨b1, b2, b3, r, rfl, hv⟩
      · left
        unfold V4 Cont at hv
        by_cases e0 : b.toNat = 0xF0 <;> by_cases ed : b.toNat = 0xF4 <;>
          simp [decodeRune, UInt8.lt_iff_toNat_lt, UInt8.le_iff_toNat_le, isCont, ← UInt8.toNat_inj, h1, h2, h3, h4, h5, e0, ed] <;>
          simp [e0, ed] at hv <;> omega
  · left; simp [decodeRune, UInt8.lt_iff_toNat_lt, h1, h2, h3, h4, h5]

theorem decodeRune_V2 {b b1 : UInt8} (h : V2 b b1) (t : Bytes) : (decodeRune (b :: b1 :: t)).2 = 2 := by
  obtain ⟨h1, h2, h3, h4⟩ := h
  have a1 : ¬ b.toNat < 128 := by omega
  have a2 : ¬ b.toNat < 194 := by omega
  simp [decodeRune, UInt8.lt_iff_toNat_lt, UInt8.le_iff_toNat_le, isCont, a1, a2, h2, h3, h4]

theorem decodeRune_V3 {b b1 b2 : UInt8} (h : V3 b b1 b2) (t : Bytes) : (decodeRune (b :: b1 :: b2 :: t)).2 = 3 := by
  obtain ⟨h1, h2, h3, h4, h5, h6⟩ := h
  have a1 : ¬ b.toNat < 128 := by omega
  have a2 : ¬ b.toNat < 194 := by omega
  have a3 : ¬ b.toNat < 224 := by omega
  by_cases e0 : b.toNat = 0xE0 <;> by_cases ed : b.toNat = 0xED <;>
    simp [e0, ed] at h3 h4 <;>
    simp [decodeRune, UInt8.lt_iff_toNat_lt, UInt8.le_iff_toNat_le, isCont, ← UInt8.toNat_inj, a1, a2, a3, h2, h3, h4, h5, h6, e0, ed]

theorem decodeRune_V4 {b b1 b2 b3 : UInt8} (h : V4 b b1 b2 b3) (t : Bytes) :
    (decodeRune (b :: b1 :: b2 :: b3 :: t)).2 = 4 := by
  obtain ⟨h1, h2, h3, h4, ⟨h5, h6⟩, h7, h8⟩ := h
  have a1 : ¬ b.toNat < 128 := by omega
  have a2 : ¬ b.toNat < 194 := by omega
  have a3 : ¬ b.toNat < 224 := by omega
  have a4 : ¬ b.toNat < 240 := by omega
  by_cases e0 : b.toNat = 0xF0 <;> by_cases ed : b.toNat = 0xF4 <;>
    simp [e0, ed] at h3 h4 <;>
    simp [decodeRune, UInt8.lt_iff_toNat_lt, UInt8.le_iff_toNat_le, isCont, ← UInt8.toNat_inj, a1, a2, a3, a4, h2, h3, h4, h5, h6,
      h7, h8, e0, ed]

/-! ### the string encoder, byte by byte -/

theorem quoteBody_cons_ne {b : UInt8} (h : b.toNat ≠ 0xE2) (y : Bytes) : quoteBody (b :: y) = escByte b ++ quoteBody y := by
  match y with
  | [] => simp [quoteBody]
  | [_] => simp [quoteBody]
  | b1 :: b2 :: t => rw [quoteBody, if_neg (by simp [h]), if_neg (by simp [h])]

theorem escByte_hi {b : UInt8} (h : 0x80 ≤ b.toNat) (h' : b.toNat ≠ 0xFF) : escByte b = [b] := by
  unfold escByte
  simp only
  rw [if_neg (by omega), if_neg (by omega), if_neg (by omega), if_neg (by omega), if_neg (by omega), if_neg (by omega),
    if_neg (by omega), if_neg (by omega), if_neg (by omega)]

theorem parseStrAux_copy (pre r : Bytes) :
    parseStrAux pre.length (pre ++ r) = (parseStrAux 0 r).map (fun p => (pre ++ p.1, p.2)) := by
  induction pre with
  | nil => cases h : parseStrAux 0 r <;> simp [h]
  | cons b t ih =>
    simp only [List.length_cons, List.cons_append, parseStrAux, ih, Option.map_map]
    rfl

theorem hexVal_hexDigit (d : Nat) (h : d < 16) : hexVal (hexDigit d) = some d := by
  unfold hexVal hexDigit
  split
  · have e : (48 + d) % 256 = 48 + d := by omega
    simp only [UInt8.toNat_ofNat', e]
    rw [if_pos (by omega)]; congr 1; omega
  · have e : (87 + d) % 256 = 87 + d := by omega
    simp only [UInt8.toNat_ofNat', e]
    rw [if_neg (by omega), if_pos (by omega)]; congr 1; omega

theorem encodeRune_ascii (n : Nat) (h : n < 0x80) : encodeRune n = [UInt8.ofNat n] := by
  unfold encodeRune
  have e : (if (0xD800 ≤ n && n ≤ 0xDFFF) || n > 0x10FFFF then runeError else n) = n := by
    rw [if_neg]; simp; omega
  simp only [e]
  rw [if_pos h]

/-- an ASCII byte, however the encoder writes it, is read back as itself -/
theorem parseStrAux_escByte {b : UInt8} (hb : b.toNat < 0x80) (x : Bytes) :
    parseStrAux 0 (escByte b ++ x) = (parseStrAux 0 x).map (fun p => (b :: p.1, p.2)) := by
  unfold escByte
  simp only
  split
  · rename_i h; have : b = 0x22 := toNat_inj h; subst this; rw [parseStrAux.eq_def]; simp [unescape]
  split
  · rename_i h; have : b = 0x5C := toNat_inj h; subst this; rw [parseStrAux.eq_def]; simp [unescape]
  split
  · rename_i h; have : b = 0x08 := toNat_inj h; subst this; rw [parseStrAux.eq_def]; simp [unescape]
  split
  · rename_i h; have : b = 0x0C := toNat_inj h; subst this; rw [parseStrAux.eq_def]; simp [unescape]
  split
  · rename_i h; have : b = 0x0A := toNat_inj h; subst this; rw [parseStrAux.eq_def]; simp [unescape]
  split
  · rename_i h; have : b = 0x0D := toNat_inj h; subst this; rw [parseStrAux.eq_def]; simp [unescape]
  split
  · rename_i h; have : b = 0x09 := toNat_inj h; subst this; rw [parseStrAux.eq_def]; simp [unescape]
  split
  · rename_i h
    have h1 : hexVal (hexDigit (b.toNat / 16)) = some (b.toNat / 16) := hexVal_hexDigit _ (by omega)
    have h2 : hexVal (hexDigit (b.toNat % 16)) = some (b.toNat % 16) := hexVal_hexDigit _ (by omega)
    have h0 : hexVal 0x30 = some 0 := by decide
    have hc : ((0 * 16 + 0) * 16 + b.toNat / 16) * 16 + b.toNat % 16 = b.toNat := by omega
    have he : encodeRune b.toNat = [b] := by rw [encodeRune_ascii _ hb]; simp
    rw [parseStrAux.eq_def]
    simp [hex4, h0, h1, h2]
    have hc' : b.toNat / 16 * 16 + b.toNat % 16 = b.toNat := by omega
    rw [hc', if_neg (by omega), he]
    rfl
  split
  · omega
  · rename_i h1 h2 h3 h4 h5 h6 h7 h8 h9
    rw [List.singleton_append, parseStrAux.eq_def]
    simp only [h1, h2, if_false]
    rw [if_neg (by omega), if_pos hb]

theorem parseStrAux_u {h1 h2 h3 h4 : UInt8} {code : Nat} (hh : hex4 h1 h2 h3 h4 = some code)
    (hs : ¬ (0xD800 ≤ code ∧ code ≤ 0xDFFF)) (x : Bytes) :
    parseStrAux 0 (0x5C :: 0x75 :: h1 :: h2 :: h3 :: h4 :: x)
      = (parseStrAux 0 x).map (fun p => (encodeRune code ++ p.1, p.2)) := by
  rw [parseStrAux.eq_def]
  simp [hh, hs]

theorem coerceAux_pre (pre rest : Bytes) : coerceAux pre.length (pre ++ rest) = pre ++ coerceAux 0 rest := by
  induction pre with
  | nil => rfl
  | cons b t ih => simp [coerceAux, ih]

theorem toValidAux_pre (pre rest : Bytes) : toValidAux pre.length (pre ++ rest) = pre ++ toValidAux 0 rest := by
  induction pre with
  | nil => rfl
  | cons b t ih => simp [toValidAux, ih]

/-- a sequence utf8.DecodeRune accepts at width `pre.length + 1 ≥ 2` is copied by both -/
theorem coerce_valid (b : UInt8) (pre rest : Bytes) (hw : (decodeRune (b :: (pre ++ rest))).2 = pre.length + 1)
    (hp : pre ≠ []) :
    coerceAux 0 (b :: (pre ++ rest)) = b :: (pre ++ coerceAux 0 rest) ∧
    toValidAux 0 (b :: (pre ++ rest)) = b :: (pre ++ toValidAux 0 rest) := by
  have hl : pre.length ≠ 0 := by simpa using hp
  have hne : ((decodeRune (b :: (pre ++ rest))).1 == runeError && (decodeRune (b :: (pre ++ rest))).2 == 1) = false := by
    rw [hw]; simp [hl]
  constructor
  · rw [coerceAux]; rw [hne]; simp [hw, coerceAux_pre]
  · rw [toValidAux]; rw [hne]; simp [hw, toValidAux_pre]

theorem coerce_bad (b : UInt8) (rest : Bytes) (hd : decodeRune (b :: rest) = (runeError, 1)) :
    coerceAux 0 (b :: rest) = 0xFF :: coerceAux 0 rest ∧
    toValidAux 0 (b :: rest) = 0xEF :: 0xBF :: 0xBD :: toValidAux 0 rest := by
  constructor
  · rw [coerceAux]; simp [hd, badByte]
  · rw [toValidAux]; simp [hd]

theorem coerce_ascii1 (b : UInt8) (rest : Bytes) (hb : b.toNat < 0x80) (hd : decodeRune (b :: rest) = (b.toNat, 1)) :
    coerceAux 0 (b :: rest) = b :: coerceAux 0 rest ∧ toValidAux 0 (b :: rest) = b :: toValidAux 0 rest := by
  have hne : (b.toNat == runeError) = false := by simp [runeError]; omega
  constructor
  · rw [coerceAux]; simp [hd, hne]
  · rw [toValidAux]; simp [hd, hne]

theorem parseStrAux_quote (r : Bytes) : parseStrAux 0 (0x22 :: r) = some ([], r) := by
  rw [parseStrAux.eq_def]; simp

/-- a multi-byte sequence utf8.DecodeRune accepts is copied -/
theorem parseStrAux_valid (b : UInt8) (pre x : Bytes) (hb : 0x80 ≤ b.toNat)
    (hw : (decodeRune (b :: (pre ++ x))).2 = pre.length + 1) (hp : pre ≠ []) :
    parseStrAux 0 (b :: (pre ++ x)) = (parseStrAux 0 x).map (fun p => (b :: (pre ++ p.1), p.2)) := by
  have hl : pre.length ≠ 0 := by simpa using hp
  rw [parseStrAux.eq_def]
  simp only [hw]
  rw [if_neg (by omega), if_neg (by omega), if_neg (by omega), if_neg (by omega), if_neg (by omega)]
  simp only [Nat.add_sub_cancel, parseStrAux_copy, Option.map_map]
  rfl

theorem Cont.ne_e2 {b : UInt8} (h : Cont b) : b.toNat ≠ 0xE2 := by unfold Cont at h; omega
theorem Cont.esc {b : UInt8} (h : Cont b) : escByte b = [b] := by unfold Cont at h; exact escByte_hi (by omega) (by omega)

/-- KEY LEMMA.  The body the encoder writes for `s`, followed by the closing quote, is read back as `toValid s`, and the
    reader stops exactly after that quote: the escaped text contains no raw `"`, `\` or control byte and is valid UTF-8. -/
theorem parseStr_body : ∀ (n : Nat) (s : Bytes), s.length ≤ n → ∀ r : Bytes,
    parseStrAux 0 (quoteBody (coerceAux 0 s) ++ 0x22 :: r) = some (toValidAux 0 s, r) := by
  intro n
  induction n with
  | zero =>
    intro s hs r
    have : s = [] := List.length_eq_zero_iff.mp (by omega)
    subst this
    simp [coerceAux, toValidAux, quoteBody, parseStrAux_quote]
  | succ n ih =>
    intro s hs r
    match s, hs with
    | [], _ => simp [coerceAux, toValidAux, quoteBody, parseStrAux_quote]
    | b :: rest, hs =>
      have hlen : rest.length ≤ n := by simpa using hs
      rcases decodeRune_shape b rest with hd | ⟨hb, hd⟩ | ⟨b1, r', rfl, hv⟩ | ⟨b1, b2, r', rfl, hv⟩ | ⟨b1, b2, b3, r', rfl, hv⟩
      · -- a byte DecodeRune rejects
        obtain ⟨e1, e2⟩ := coerce_bad b rest hd
        have hq : escByte 0xFF = [0x5C, 0x75, 0x66, 0x66, 0x66, 0x64] := by decide
        have hh : hex4 0x66 0x66 0x66 0x64 = some 0xFFFD := by decide
        have he : encodeRune 0xFFFD = [0xEF, 0xBF, 0xBD] := by decide
        rw [e1, e2, quoteBody_cons_ne (by decide), hq]
        simp only [List.cons_append, List.nil_append]
        rw [parseStrAux_u hh (by decide), ih rest hlen r, he]
        rfl
      · -- ASCII
        obtain ⟨e1, e2⟩ := coerce_ascii1 b rest hb hd
        rw [e1, e2, quoteBody_cons_ne (by omega), List.append_assoc, parseStrAux_escByte hb, ih rest hlen r]
        rfl
      · -- two bytes
        obtain ⟨h1, h2, hc⟩ := hv
        have hw := decodeRune_V2 ⟨h1, h2, hc⟩ r'
        obtain ⟨e1, e2⟩ := coerce_valid b [b1] r' (by simpa using hw) (by simp)
        simp only [List.cons_append, List.nil_append] at e1 e2
        rw [e1, e2, quoteBody_cons_ne (by omega), escByte_hi (by omega) (by omega), quoteBody_cons_ne hc.ne_e2, hc.esc]
        simp only [List.cons_append, List.nil_append]
        have hp := parseStrAux_valid b [b1] (quoteBody (coerceAux 0 r') ++ 0x22 :: r) (by omega)
          (by simpa using decodeRune_V2 ⟨h1, h2, hc⟩ _) (by simp)
        simp only [List.cons_append, List.nil_append] at hp
        rw [hp, ih r' (by simp at hlen; omega) r]
        rfl
      · -- three bytes
        obtain ⟨h1, h2, h3, h4, hc⟩ := hv
        have hv : V3 b b1 b2 := ⟨h1, h2, h3, h4, hc⟩
        have hc1 : Cont b1 := by unfold Cont; split at h3 <;> split at h4 <;> omega
        obtain ⟨e1, e2⟩ := coerce_valid b [b1, b2] r' (by simpa using decodeRune_V3 hv r') (by simp)
        simp only [List.cons_append, List.nil_append] at e1 e2
        have hr' : r'.length ≤ n := by simp at hlen; omega
        rw [e1, e2]
        by_cases s8 : b.toNat = 0xE2 ∧ b1.toNat = 0x80 ∧ b2.toNat = 0xA8
        · obtain ⟨x0, x1, x2⟩ := s8
          have y0 : b = 0xE2 := toNat_inj x0
          have y1 : b1 = 0x80 := toNat_inj x1
          have y2 : b2 = 0xA8 := toNat_inj x2
          subst y0 y1 y2
          have hh : hex4 0x32 0x30 0x32 0x38 = some 0x2028 := by decide
          have he : encodeRune 0x2028 = [0xE2, 0x80, 0xA8] := by decide
          rw [quoteBody, if_pos (by decide)]
          simp only [u202x, List.cons_append, List.nil_append]
          rw [parseStrAux_u hh (by decide), ih r' hr' r, he]
          rfl
        by_cases s9 : b.toNat = 0xE2 ∧ b1.toNat = 0x80 ∧ b2.toNat = 0xA9
        · obtain ⟨x0, x1, x2⟩ := s9
          have y0 : b = 0xE2 := toNat_inj x0
          have y1 : b1 = 0x80 := toNat_inj x1
          have y2 : b2 = 0xA9 := toNat_inj x2
          subst y0 y1 y2
          have hh : hex4 0x32 0x30 0x32 0x39 = some 0x2029 := by decide
          have he : encodeRune 0x2029 = [0xE2, 0x80, 0xA9] := by decide
          rw [quoteBody, if_neg (by decide), if_pos (by decide)]
          simp only [u202x, List.cons_append, List.nil_append]
          rw [parseStrAux_u hh (by decide), ih r' hr' r, he]
          rfl
        rw [quoteBody, if_neg s8, if_neg s9, escByte_hi (by omega) (by omega), quoteBody_cons_ne hc1.ne_e2, hc1.esc,
          quoteBody_cons_ne hc.ne_e2, hc.esc]
        simp only [List.cons_append, List.nil_append]
        have hp := parseStrAux_valid b [b1, b2] (quoteBody (coerceAux 0 r') ++ 0x22 :: r) (by omega)
          (by simpa using decodeRune_V3 hv _) (by simp)
        simp only [List.cons_append, List.nil_append] at hp
        rw [hp, ih r' hr' r]
        rfl
      · -- four bytes
        obtain ⟨h1, h2, h3, h4, hc2, hc3⟩ := hv
        have hv : V4 b b1 b2 b3 := ⟨h1, h2, h3, h4, hc2, hc3⟩
        have hc1 : Cont b1 := by unfold Cont; split at h3 <;> split at h4 <;> omega
        obtain ⟨e1, e2⟩ := coerce_valid b [b1, b2, b3] r' (by simpa using decodeRune_V4 hv r') (by simp)
        simp only [List.cons_append, List.nil_append] at e1 e2
        have hr' : r'.length ≤ n := by simp at hlen; omega
        rw [e1, e2, quoteBody_cons_ne (by omega), escByte_hi (by omega) (by omega), quoteBody_cons_ne hc1.ne_e2, hc1.esc,
          quoteBody_cons_ne hc2.ne_e2, hc2.esc, quoteBody_cons_ne hc3.ne_e2, hc3.esc]
        simp only [List.cons_append, List.nil_append]
        have hp := parseStrAux_valid b [b1, b2, b3] (quoteBody (coerceAux 0 r') ++ 0x22 :: r) (by omega)
          (by simpa using decodeRune_V4 hv _) (by simp)
        simp only [List.cons_append, List.nil_append] at hp
        rw [hp, ih r' hr' r]
        rfl
