import WtfModel.Model.JsonText
import WtfModel.Proofs.KeyJson

/-!
  The JSON block of `wtf --format json` is a JSON text (C17b): helper lemmas.  Core Lean only.

  Route.  `Parses pv e v`: the reader `pv` reads the bytes `e` as the value `v`, whatever white space precedes them, and stops
  right after them (what follows only has to start with a byte outside the number alphabet).
    strings   `parseStr_body`: by induction over what utf8.DecodeRune makes of the input (`decodeRune_shape`: a rejected byte,
              an ASCII byte, or one of the three multi-byte shapes).  The encoder's text for each shape -- an escape for the
              rejected byte, for `"` `\` controls `<` `>` `&` and for U+2028/9, the bytes themselves otherwise -- is read back
              as the shape itself (U+FFFD for the rejected byte) and nothing in it is a raw quote, backslash or control byte.
    numbers   a token the nine-state automaton accepts lies in the number alphabet; the longest such run is the token
              itself because the next byte is outside the alphabet; `%d` integers are tokens (`isNumTok_intDec`)
    arrays, objects   `parseElems_join` / `parseMembers_join`: by induction over the elements, the byte budget never runs
              out because every round consumes the separating comma; `parseV_arr` / `parseV_obj` add the brackets and the
              SetIndent layout (`nl_ws`: line break, prefix and indentation are white space, `indentOK`)
    the block `parseValue_encodeItems`
-/
namespace Wtf.JsonText
open Wtf Wtf.Cli Wtf.Utf8 Wtf.KeyJson

/-! ### white space -/

def AllWs (w : Bytes) : Prop := ∀ c ∈ w, isWs c = true

theorem skipWs_append {w : Bytes} (h : AllWs w) (r : Bytes) : skipWs (w ++ r) = skipWs r := by
  induction w with
  | nil => rfl
  | cons c t ih =>
    have hc : isWs c = true := h c (by simp)
    have ht : AllWs t := fun x hx => h x (by simp [hx])
    simp [skipWs, hc, ih ht]

theorem skipWs_cons {c : UInt8} (h : isWs c = false) (r : Bytes) : skipWs (c :: r) = c :: r := by
  simp [skipWs, h]

/-! ### UTF-8: the shapes utf8.DecodeRune accepts -/

def Cont (b : UInt8) : Prop := 0x80 ≤ b.toNat ∧ b.toNat ≤ 0xBF

def V2 (b b1 : UInt8) : Prop := 0xC2 ≤ b.toNat ∧ b.toNat < 0xE0 ∧ Cont b1

def V3 (b b1 b2 : UInt8) : Prop :=
  0xE0 ≤ b.toNat ∧ b.toNat < 0xF0 ∧ (if b.toNat = 0xE0 then 0xA0 else 0x80) ≤ b1.toNat ∧
    b1.toNat ≤ (if b.toNat = 0xED then 0x9F else 0xBF) ∧ Cont b2

def V4 (b b1 b2 b3 : UInt8) : Prop :=
  0xF0 ≤ b.toNat ∧ b.toNat < 0xF5 ∧ (if b.toNat = 0xF0 then 0x90 else 0x80) ≤ b1.toNat ∧
    b1.toNat ≤ (if b.toNat = 0xF4 then 0x8F else 0xBF) ∧ Cont b2 ∧ Cont b3

theorem decodeRune_shape (b : UInt8) (rest : Bytes) :
    decodeRune (b :: rest) = (runeError, 1) ∨
    (b.toNat < 0x80 ∧ decodeRune (b :: rest) = (b.toNat, 1)) ∨
    (∃ b1 r, rest = b1 :: r ∧ V2 b b1) ∨
    (∃ b1 b2 r, rest = b1 :: b2 :: r ∧ V3 b b1 b2) ∨
    (∃ b1 b2 b3 r, rest = b1 :: b2 :: b3 :: r ∧ V4 b b1 b2 b3) := by
  by_cases h1 : b.toNat < 0x80
  · right; left
    exact ⟨h1, by simp [decodeRune, UInt8.lt_iff_toNat_lt, h1]⟩
  by_cases h2 : b.toNat < 0xC2
  · left; simp [decodeRune, UInt8.lt_iff_toNat_lt, h1, h2]
  by_cases h3 : b.toNat < 0xE0
  · match rest with
    | [] => left; simp [decodeRune, UInt8.lt_iff_toNat_lt, h1, h2, h3]
    | b1 :: r =>
      by_cases hc : Cont b1
      · right; right; left
        exact ⟨b1, r, rfl, by omega, h3, hc⟩
      · left
        unfold Cont at hc
        simp [decodeRune, UInt8.lt_iff_toNat_lt, UInt8.le_iff_toNat_le, isCont, h1, h2, h3]
        omega
  by_cases h4 : b.toNat < 0xF0
  · match rest with
    | [] => left; simp [decodeRune, UInt8.lt_iff_toNat_lt, h1, h2, h3, h4]
    | [_] => left; simp [decodeRune, UInt8.lt_iff_toNat_lt, h1, h2, h3, h4]
    | b1 :: b2 :: r =>
      by_cases hv : V3 b b1 b2
      · right; right; right; left
        exact ⟨b1, b2, r, rfl, hv⟩
      · left
        unfold V3 Cont at hv
        by_cases e0 : b.toNat = 0xE0 <;> by_cases ed : b.toNat = 0xED <;>
          simp [decodeRune, UInt8.lt_iff_toNat_lt, UInt8.le_iff_toNat_le, isCont, ← UInt8.toNat_inj, h1, h2, h3, h4, e0, ed] <;>
          simp [e0, ed] at hv <;> omega
  by_cases h5 : b.toNat < 0xF5
  · match rest with
    | [] => left; simp [decodeRune, UInt8.lt_iff_toNat_lt, h1, h2, h3, h4, h5]
    | [_] => left; simp [decodeRune, UInt8.lt_iff_toNat_lt, h1, h2, h3, h4, h5]
    | [_, _] => left; simp [decodeRune, UInt8.lt_iff_toNat_lt, h1, h2, h3, h4, h5]
    | b1 :: b2 :: b3 :: r =>
      by_cases hv : V4 b b1 b2 b3
      · right; right; right; right
        exact ⟨b1, b2, b3, r, rfl, hv⟩
      · left
        unfold V4 Cont at hv
        by_cases e0 : b.toNat = 0xF0 <;> by_cases ed : b.toNat = 0xF4 <;>
          simp [decodeRune, UInt8.lt_iff_toNat_lt, UInt8.le_iff_toNat_le, isCont, ← UInt8.toNat_inj, h1, h2, h3, h4, h5, e0, ed] <;>
          simp [e0, ed] at hv <;> omega
  · left; simp [decodeRune, UInt8.lt_iff_toNat_lt, h1, h2, h3, h4, h5]

theorem decodeRune_V2 {b b1 : UInt8} (h : V2 b b1) (t : Bytes) : (decodeRune (b :: b1 :: t)).2 = 2 := by
  obtain ⟨h1, h2, h3, h4⟩ := h
  have a1 : ¬ b.toNat < 128 := by omega
  have a2 : ¬ b.toNat < 194 := by omega
  simp [decodeRune, UInt8.lt_iff_toNat_lt, UInt8.le_iff_toNat_le, isCont, a1, a2, h2, h3, h4]

theorem decodeRune_V3 {b b1 b2 : UInt8} (h : V3 b b1 b2) (t : Bytes) : (decodeRune (b :: b1 :: b2 :: t)).2 = 3 := by
  obtain ⟨h1, h2, h3, h4, h5, h6⟩ := h
  have a1 : ¬ b.toNat < 128 := by omega
  have a2 : ¬ b.toNat < 194 := by omega
  have a3 : ¬ b.toNat < 224 := by omega
  by_cases e0 : b.toNat = 0xE0 <;> by_cases ed : b.toNat = 0xED <;>
    simp [e0, ed] at h3 h4 <;>
    simp [decodeRune, UInt8.lt_iff_toNat_lt, UInt8.le_iff_toNat_le, isCont, ← UInt8.toNat_inj, a1, a2, a3, h2, h3, h4, h5, h6, e0, ed]

theorem decodeRune_V4 {b b1 b2 b3 : UInt8} (h : V4 b b1 b2 b3) (t : Bytes) :
    (decodeRune (b :: b1 :: b2 :: b3 :: t)).2 = 4 := by
  obtain ⟨h1, h2, h3, h4, ⟨h5, h6⟩, h7, h8⟩ := h
  have a1 : ¬ b.toNat < 128 := by omega
  have a2 : ¬ b.toNat < 194 := by omega
  have a3 : ¬ b.toNat < 224 := by omega
  have a4 : ¬ b.toNat < 240 := by omega
  by_cases e0 : b.toNat = 0xF0 <;> by_cases ed : b.toNat = 0xF4 <;>
    simp [e0, ed] at h3 h4 <;>
    simp [decodeRune, UInt8.lt_iff_toNat_lt, UInt8.le_iff_toNat_le, isCont, ← UInt8.toNat_inj, a1, a2, a3, a4, h2, h3, h4, h5, h6,
      h7, h8, e0, ed]

/-! ### the string encoder, byte by byte -/

theorem quoteBody_cons_ne {b : UInt8} (h : b.toNat ≠ 0xE2) (y : Bytes) : quoteBody (b :: y) = escByte b ++ quoteBody y := by
  match y with
  | [] => simp [quoteBody]
  | [_] => simp [quoteBody]
  | b1 :: b2 :: t => rw [quoteBody, if_neg (by simp [h]), if_neg (by simp [h])]

theorem escByte_hi {b : UInt8} (h : 0x80 ≤ b.toNat) (h' : b.toNat ≠ 0xFF) : escByte b = [b] := by
  unfold escByte
  simp only
  rw [if_neg (by omega), if_neg (by omega), if_neg (by omega), if_neg (by omega), if_neg (by omega), if_neg (by omega),
    if_neg (by omega), if_neg (by omega), if_neg (by omega)]

theorem parseStrAux_copy (pre r : Bytes) :
    parseStrAux pre.length (pre ++ r) = (parseStrAux 0 r).map (fun p => (pre ++ p.1, p.2)) := by
  induction pre with
  | nil => cases h : parseStrAux 0 r <;> simp [h]
  | cons b t ih =>
    simp only [List.length_cons, List.cons_append, parseStrAux, ih, Option.map_map]
    rfl

theorem hexVal_hexDigit (d : Nat) (h : d < 16) : hexVal (hexDigit d) = some d := by
  unfold hexVal hexDigit
  split
  · have e : (48 + d) % 256 = 48 + d := by omega
    simp only [UInt8.toNat_ofNat', e]
    rw [if_pos (by omega)]; congr 1; omega
  · have e : (87 + d) % 256 = 87 + d := by omega
    simp only [UInt8.toNat_ofNat', e]
    rw [if_neg (by omega), if_pos (by omega)]; congr 1; omega

theorem encodeRune_ascii (n : Nat) (h : n < 0x80) : encodeRune n = [UInt8.ofNat n] := by
  unfold encodeRune
  have e : (if (0xD800 ≤ n && n ≤ 0xDFFF) || n > 0x10FFFF then runeError else n) = n := by
    rw [if_neg]; simp; omega
  simp only [e]
  rw [if_pos h]

/-- an ASCII byte, however the encoder writes it, is read back as itself -/
theorem parseStrAux_escByte {b : UInt8} (hb : b.toNat < 0x80) (x : Bytes) :
    parseStrAux 0 (escByte b ++ x) = (parseStrAux 0 x).map (fun p => (b :: p.1, p.2)) := by
  unfold escByte
  simp only
  split
  · rename_i h; have : b = 0x22 := toNat_inj h; subst this; rw [parseStrAux.eq_def]; simp [unescape]
  split
  · rename_i h; have : b = 0x5C := toNat_inj h; subst this; rw [parseStrAux.eq_def]; simp [unescape]
  split
  · rename_i h; have : b = 0x08 := toNat_inj h; subst this; rw [parseStrAux.eq_def]; simp [unescape]
  split
  · rename_i h; have : b = 0x0C := toNat_inj h; subst this; rw [parseStrAux.eq_def]; simp [unescape]
  split
  · rename_i h; have : b = 0x0A := toNat_inj h; subst this; rw [parseStrAux.eq_def]; simp [unescape]
  split
  · rename_i h; have : b = 0x0D := toNat_inj h; subst this; rw [parseStrAux.eq_def]; simp [unescape]
  split
  · rename_i h; have : b = 0x09 := toNat_inj h; subst this; rw [parseStrAux.eq_def]; simp [unescape]
  split
  · rename_i h
    have h1 : hexVal (hexDigit (b.toNat / 16)) = some (b.toNat / 16) := hexVal_hexDigit _ (by omega)
    have h2 : hexVal (hexDigit (b.toNat % 16)) = some (b.toNat % 16) := hexVal_hexDigit _ (by omega)
    have h0 : hexVal 0x30 = some 0 := by decide
    have he : encodeRune b.toNat = [b] := by rw [encodeRune_ascii _ hb]; simp
    rw [parseStrAux.eq_def]
    simp [hex4, h0, h1, h2]
    have hc' : b.toNat / 16 * 16 + b.toNat % 16 = b.toNat := by omega
    rw [hc', if_neg (by omega), he]
    rfl
  split
  · omega
  · rename_i h1 h2 h3 h4 h5 h6 h7 h8 h9
    rw [List.singleton_append, parseStrAux.eq_def]
    simp only [h1, h2, if_false]
    rw [if_neg (by omega), if_pos hb]

theorem parseStrAux_u {h1 h2 h3 h4 : UInt8} {code : Nat} (hh : hex4 h1 h2 h3 h4 = some code)
    (hs : ¬ (0xD800 ≤ code ∧ code ≤ 0xDFFF)) (x : Bytes) :
    parseStrAux 0 (0x5C :: 0x75 :: h1 :: h2 :: h3 :: h4 :: x)
      = (parseStrAux 0 x).map (fun p => (encodeRune code ++ p.1, p.2)) := by
  rw [parseStrAux.eq_def]
  simp [hh, hs]

theorem coerceAux_pre (pre rest : Bytes) : coerceAux pre.length (pre ++ rest) = pre ++ coerceAux 0 rest := by
  induction pre with
  | nil => rfl
  | cons b t ih => simp [coerceAux, ih]

theorem toValidAux_pre (pre rest : Bytes) : toValidAux pre.length (pre ++ rest) = pre ++ toValidAux 0 rest := by
  induction pre with
  | nil => rfl
  | cons b t ih => simp [toValidAux, ih]

/-- a sequence utf8.DecodeRune accepts at width `pre.length + 1 ≥ 2` is copied by both -/
theorem coerce_valid (b : UInt8) (pre rest : Bytes) (hw : (decodeRune (b :: (pre ++ rest))).2 = pre.length + 1)
    (hp : pre ≠ []) :
    coerceAux 0 (b :: (pre ++ rest)) = b :: (pre ++ coerceAux 0 rest) ∧
    toValidAux 0 (b :: (pre ++ rest)) = b :: (pre ++ toValidAux 0 rest) := by
  have hl : pre.length ≠ 0 := by simpa using hp
  have hne : ((decodeRune (b :: (pre ++ rest))).1 == runeError && (decodeRune (b :: (pre ++ rest))).2 == 1) = false := by
    rw [hw]; simp [hl]
  constructor
  · rw [coerceAux]; rw [hne]; simp [hw, coerceAux_pre]
  · rw [toValidAux]; rw [hne]; simp [hw, toValidAux_pre]

theorem coerce_bad (b : UInt8) (rest : Bytes) (hd : decodeRune (b :: rest) = (runeError, 1)) :
    coerceAux 0 (b :: rest) = 0xFF :: coerceAux 0 rest ∧
    toValidAux 0 (b :: rest) = 0xEF :: 0xBF :: 0xBD :: toValidAux 0 rest := by
  constructor
  · rw [coerceAux]; simp [hd, badByte]
  · rw [toValidAux]; simp [hd]

theorem coerce_ascii1 (b : UInt8) (rest : Bytes) (hb : b.toNat < 0x80) (hd : decodeRune (b :: rest) = (b.toNat, 1)) :
    coerceAux 0 (b :: rest) = b :: coerceAux 0 rest ∧ toValidAux 0 (b :: rest) = b :: toValidAux 0 rest := by
  have hne : (b.toNat == runeError) = false := by simp [runeError]; omega
  constructor
  · rw [coerceAux]; simp [hd, hne]
  · rw [toValidAux]; simp [hd, hne]

theorem parseStrAux_quote (r : Bytes) : parseStrAux 0 (0x22 :: r) = some ([], r) := by
  rw [parseStrAux.eq_def]; simp

/-- a multi-byte sequence utf8.DecodeRune accepts is copied -/
theorem parseStrAux_valid (b : UInt8) (pre x : Bytes) (hb : 0x80 ≤ b.toNat)
    (hw : (decodeRune (b :: (pre ++ x))).2 = pre.length + 1) (hp : pre ≠ []) :
    parseStrAux 0 (b :: (pre ++ x)) = (parseStrAux 0 x).map (fun p => (b :: (pre ++ p.1), p.2)) := by
  have hl : pre.length ≠ 0 := by simpa using hp
  rw [parseStrAux.eq_def]
  simp only [hw]
  rw [if_neg (by omega), if_neg (by omega), if_neg (by omega), if_neg (by omega), if_neg (by omega)]
  simp only [Nat.add_sub_cancel, parseStrAux_copy, Option.map_map]
  rfl

theorem Cont.ne_e2 {b : UInt8} (h : Cont b) : b.toNat ≠ 0xE2 := by unfold Cont at h; omega
theorem Cont.esc {b : UInt8} (h : Cont b) : escByte b = [b] := by unfold Cont at h; exact escByte_hi (by omega) (by omega)

/-- KEY LEMMA.  The body the encoder writes for `s`, followed by the closing quote, is read back as `toValid s`, and the
    reader stops exactly after that quote: the escaped text contains no raw `"`, `\` or control byte and is valid UTF-8. -/
theorem parseStr_body : ∀ (n : Nat) (s : Bytes), s.length ≤ n → ∀ r : Bytes,
    parseStrAux 0 (quoteBody (coerceAux 0 s) ++ 0x22 :: r) = some (toValidAux 0 s, r) := by
  intro n
  induction n with
  | zero =>
    intro s hs r
    have : s = [] := List.length_eq_zero_iff.mp (by omega)
    subst this
    simp [coerceAux, toValidAux, quoteBody, parseStrAux_quote]
  | succ n ih =>
    intro s hs r
    match s, hs with
    | [], _ => simp [coerceAux, toValidAux, quoteBody, parseStrAux_quote]
    | b :: rest, hs =>
      have hlen : rest.length ≤ n := by simpa using hs
      rcases decodeRune_shape b rest with hd | ⟨hb, hd⟩ | ⟨b1, r', rfl, hv⟩ | ⟨b1, b2, r', rfl, hv⟩ | ⟨b1, b2, b3, r', rfl, hv⟩
      · -- a byte DecodeRune rejects
        obtain ⟨e1, e2⟩ := coerce_bad b rest hd
        have hq : escByte 0xFF = [0x5C, 0x75, 0x66, 0x66, 0x66, 0x64] := by decide
        have hh : hex4 0x66 0x66 0x66 0x64 = some 0xFFFD := by decide
        have he : encodeRune 0xFFFD = [0xEF, 0xBF, 0xBD] := by decide
        rw [e1, e2, quoteBody_cons_ne (by decide), hq]
        simp only [List.cons_append, List.nil_append]
        rw [parseStrAux_u hh (by decide), ih rest hlen r, he]
        rfl
      · -- ASCII
        obtain ⟨e1, e2⟩ := coerce_ascii1 b rest hb hd
        rw [e1, e2, quoteBody_cons_ne (by omega), List.append_assoc, parseStrAux_escByte hb, ih rest hlen r]
        rfl
      · -- two bytes
        obtain ⟨h1, h2, hc⟩ := hv
        have hw := decodeRune_V2 ⟨h1, h2, hc⟩ r'
        obtain ⟨e1, e2⟩ := coerce_valid b [b1] r' (by simpa using hw) (by simp)
        simp only [List.cons_append, List.nil_append] at e1 e2
        rw [e1, e2, quoteBody_cons_ne (by omega), escByte_hi (by omega) (by omega), quoteBody_cons_ne hc.ne_e2, hc.esc]
        simp only [List.cons_append, List.nil_append]
        have hp := parseStrAux_valid b [b1] (quoteBody (coerceAux 0 r') ++ 0x22 :: r) (by omega)
          (by simpa using decodeRune_V2 ⟨h1, h2, hc⟩ _) (by simp)
        simp only [List.cons_append, List.nil_append] at hp
        rw [hp, ih r' (by simp at hlen; omega) r]
        rfl
      · -- three bytes
        obtain ⟨h1, h2, h3, h4, hc⟩ := hv
        have hv : V3 b b1 b2 := ⟨h1, h2, h3, h4, hc⟩
        have hc1 : Cont b1 := by unfold Cont; split at h3 <;> split at h4 <;> omega
        obtain ⟨e1, e2⟩ := coerce_valid b [b1, b2] r' (by simpa using decodeRune_V3 hv r') (by simp)
        simp only [List.cons_append, List.nil_append] at e1 e2
        have hr' : r'.length ≤ n := by simp at hlen; omega
        rw [e1, e2]
        by_cases s8 : b.toNat = 0xE2 ∧ b1.toNat = 0x80 ∧ b2.toNat = 0xA8
        · obtain ⟨x0, x1, x2⟩ := s8
          have y0 : b = 0xE2 := toNat_inj x0
          have y1 : b1 = 0x80 := toNat_inj x1
          have y2 : b2 = 0xA8 := toNat_inj x2
          subst y0 y1 y2
          have hh : hex4 0x32 0x30 0x32 0x38 = some 0x2028 := by decide
          have he : encodeRune 0x2028 = [0xE2, 0x80, 0xA8] := by decide
          rw [quoteBody, if_pos (by decide)]
          simp only [u202x, List.cons_append, List.nil_append]
          rw [parseStrAux_u hh (by decide), ih r' hr' r, he]
          rfl
        by_cases s9 : b.toNat = 0xE2 ∧ b1.toNat = 0x80 ∧ b2.toNat = 0xA9
        · obtain ⟨x0, x1, x2⟩ := s9
          have y0 : b = 0xE2 := toNat_inj x0
          have y1 : b1 = 0x80 := toNat_inj x1
          have y2 : b2 = 0xA9 := toNat_inj x2
          subst y0 y1 y2
          have hh : hex4 0x32 0x30 0x32 0x39 = some 0x2029 := by decide
          have he : encodeRune 0x2029 = [0xE2, 0x80, 0xA9] := by decide
          rw [quoteBody, if_neg (by decide), if_pos (by decide)]
          simp only [u202x, List.cons_append, List.nil_append]
          rw [parseStrAux_u hh (by decide), ih r' hr' r, he]
          rfl
        rw [quoteBody, if_neg s8, if_neg s9, escByte_hi (by omega) (by omega), quoteBody_cons_ne hc1.ne_e2, hc1.esc,
          quoteBody_cons_ne hc.ne_e2, hc.esc]
        simp only [List.cons_append, List.nil_append]
        have hp := parseStrAux_valid b [b1, b2] (quoteBody (coerceAux 0 r') ++ 0x22 :: r) (by omega)
          (by simpa using decodeRune_V3 hv _) (by simp)
        simp only [List.cons_append, List.nil_append] at hp
        rw [hp, ih r' hr' r]
        rfl
      · -- four bytes
        obtain ⟨h1, h2, h3, h4, hc2, hc3⟩ := hv
        have hv : V4 b b1 b2 b3 := ⟨h1, h2, h3, h4, hc2, hc3⟩
        have hc1 : Cont b1 := by unfold Cont; split at h3 <;> split at h4 <;> omega
        obtain ⟨e1, e2⟩ := coerce_valid b [b1, b2, b3] r' (by simpa using decodeRune_V4 hv r') (by simp)
        simp only [List.cons_append, List.nil_append] at e1 e2
        have hr' : r'.length ≤ n := by simp at hlen; omega
        rw [e1, e2, quoteBody_cons_ne (by omega), escByte_hi (by omega) (by omega), quoteBody_cons_ne hc1.ne_e2, hc1.esc,
          quoteBody_cons_ne hc2.ne_e2, hc2.esc, quoteBody_cons_ne hc3.ne_e2, hc3.esc]
        simp only [List.cons_append, List.nil_append]
        have hp := parseStrAux_valid b [b1, b2, b3] (quoteBody (coerceAux 0 r') ++ 0x22 :: r) (by omega)
          (by simpa using decodeRune_V4 hv _) (by simp)
        simp only [List.cons_append, List.nil_append] at hp
        rw [hp, ih r' hr' r]
        rfl

theorem parseStr_model (s r : Bytes) :
    ∃ t, jsonStrModel s ++ r = 0x22 :: t ∧ parseStrAux 0 t = some (toValid s, r) := by
  refine ⟨quoteBody (coerce s) ++ 0x22 :: r, ?_, parseStr_body _ s (Nat.le_refl _) r⟩
  simp [jsonStrModel, goString, quote]

/-- plain text (printable ASCII without `"` and `\`) between quotes is read as it is -/
def Plain (a : Bytes) : Prop := ∀ c ∈ a, 0x20 ≤ c.toNat ∧ c.toNat < 0x80 ∧ c.toNat ≠ 0x22 ∧ c.toNat ≠ 0x5C

theorem parseStrAux_plain {a : Bytes} (h : Plain a) (r : Bytes) : parseStrAux 0 (a ++ 0x22 :: r) = some (a, r) := by
  induction a with
  | nil => exact parseStrAux_quote r
  | cons c t ih =>
    obtain ⟨h1, h2, h3, h4⟩ := h c (by simp)
    have ht : Plain t := fun x hx => h x (by simp [hx])
    rw [List.cons_append, parseStrAux.eq_def]
    simp only []
    rw [if_neg h3, if_neg h4, if_neg (by omega), if_pos h2, ih ht]
    rfl

/-! ### numbers -/

/-- what follows a value in a JSON text: a byte outside the number alphabet -/
def Stop (rest : Bytes) : Prop := ∃ c t, rest = c :: t ∧ numChar c = false

theorem spanNum_tok {t : Bytes} (ht : ∀ c ∈ t, numChar c = true) {rest : Bytes} (hr : Stop rest) :
    spanNum (t ++ rest) = (t, rest) := by
  induction t with
  | nil =>
    obtain ⟨c, u, rfl, hc⟩ := hr
    simp [spanNum, hc]
  | cons c u ih =>
    have hc : numChar c = true := ht c (by simp)
    have hu : ∀ x ∈ u, numChar x = true := fun x hx => ht x (by simp [hx])
    simp [spanNum, hc, ih hu]

theorem parseNum_tok {t : Bytes} (h : isNumTok t = true) {rest : Bytes} (hr : Stop rest) :
    parseNum (t ++ rest) = some (.num t, rest) := by
  have ha : ∀ c ∈ t, numChar c = true := by
    unfold isNumTok at h
    simp only [Bool.and_eq_true, List.all_eq_true] at h
    exact h.1
  simp [parseNum, spanNum_tok ha hr, h]

theorem isWs_not_numChar {c : UInt8} (h : isWs c = true) : numChar c = false := by
  unfold isWs at h
  unfold numChar
  simp only [Bool.or_eq_true, beq_iff_eq] at h
  simp only [Bool.or_eq_false_iff, Bool.and_eq_false_iff, decide_eq_false_iff_not, beq_eq_false_iff_ne]
  omega

theorem stop_ws {w : Bytes} (hw : AllWs w) {c : UInt8} (hc : numChar c = false) (t : Bytes) : Stop (w ++ c :: t) := by
  match w, hw with
  | [], _ => exact ⟨c, t, rfl, hc⟩
  | x :: u, hw => exact ⟨x, u ++ c :: t, rfl, isWs_not_numChar (hw x (by simp))⟩

/-! ### values -/

/-- `pv` reads the text `e` as the value `v`, whatever white space precedes it, and stops right after it -/
def Parses (pv : Bytes → Option (JVal × Bytes)) (e : Bytes) (v : JVal) : Prop :=
  ∀ (w rest : Bytes), AllWs w → Stop rest → pv (w ++ (e ++ rest)) = some (v, rest)

theorem parseV_str (d : Nat) (s : Bytes) : Parses (parseV (d + 1)) (jsonStrModel s) (.str (toValid s)) := by
  intro w rest hw _
  obtain ⟨t, e, hp⟩ := parseStr_model s rest
  rw [parseV, skipWs_append hw, e, skipWs_cons (by decide)]
  simp [hp]

theorem isNumTok_head {t : Bytes} (h : isNumTok t = true) : ∃ c u, t = c :: u ∧ numChar c = true := by
  match t, h with
  | [], h => exact absurd h (by decide)
  | c :: u, h =>
    refine ⟨c, u, rfl, ?_⟩
    unfold isNumTok at h
    simp only [Bool.and_eq_true, List.all_eq_true] at h
    exact h.1 c (by simp)

theorem parseV_num (d : Nat) {t : Bytes} (h : isNumTok t = true) : Parses (parseV (d + 1)) t (.num t) := by
  intro w rest hw hr
  obtain ⟨c, u, rfl, hc⟩ := isNumTok_head h
  have hws : isWs c = false := by
    cases hx : isWs c
    · rfl
    · rw [isWs_not_numChar hx] at hc; exact absurd hc (by decide)
  have hn : c.toNat ≠ 0x22 ∧ c.toNat ≠ 0x5B ∧ c.toNat ≠ 0x7B ∧ c.toNat ≠ 0x74 ∧ c.toNat ≠ 0x66 ∧ c.toNat ≠ 0x6E := by
    unfold numChar at hc
    simp only [Bool.or_eq_true, Bool.and_eq_true, decide_eq_true_eq, beq_iff_eq] at hc
    omega
  rw [parseV, skipWs_append hw, List.cons_append, skipWs_cons hws]
  simp only []
  rw [if_neg hn.1, if_neg hn.2.1, if_neg hn.2.2.1, if_neg hn.2.2.2.1, if_neg hn.2.2.2.2.1, if_neg hn.2.2.2.2.2]
  exact parseNum_tok h hr

theorem parseV_lit (d : Nat) :
    Parses (parseV (d + 1)) (bs "true") (.bool true) ∧ Parses (parseV (d + 1)) (bs "false") (.bool false) ∧
    Parses (parseV (d + 1)) (bs "null") .null := by
  have e1 : bs "true" = [0x74, 0x72, 0x75, 0x65] := by decide
  have e2 : bs "false" = [0x66, 0x61, 0x6C, 0x73, 0x65] := by decide
  have e3 : bs "null" = [0x6E, 0x75, 0x6C, 0x6C] := by decide
  refine ⟨?_, ?_, ?_⟩
  · intro w rest hw _
    rw [parseV, skipWs_append hw, e1, List.cons_append, skipWs_cons (by decide)]
    simp [dropPrefix]
  · intro w rest hw _
    rw [parseV, skipWs_append hw, e2, List.cons_append, skipWs_cons (by decide)]
    simp [dropPrefix]
  · intro w rest hw _
    rw [parseV, skipWs_append hw, e3, List.cons_append, skipWs_cons (by decide)]
    simp [dropPrefix]

/-! ### sequences -/

theorem parseElems_join {α : Type} (pv : Bytes → Option (JVal × Bytes)) (enc : α → Bytes) (val : α → JVal)
    {w1 w2 : Bytes} (hw1 : AllWs w1) (hw2 : AllWs w2) (rest : Bytes) :
    ∀ (xs : List α), xs ≠ [] → (∀ x ∈ xs, Parses pv (enc x) (val x)) → ∀ (w0 : Bytes), AllWs w0 → ∀ n : Nat,
      (w0 ++ (joinBytes (0x2C :: w1) (xs.map enc) ++ (w2 ++ 0x5D :: rest))).length ≤ n →
      parseElemsWith pv n (w0 ++ (joinBytes (0x2C :: w1) (xs.map enc) ++ (w2 ++ 0x5D :: rest))) = some (xs.map val, rest) := by
  intro xs
  induction xs with
  | nil => intro h; exact absurd rfl h
  | cons x t ih =>
    intro _ hp w0 hw0 n hn
    have hx := hp x (by simp)
    match t, ih with
    | [], _ =>
      simp only [List.map_cons, List.map_nil, joinBytes] at hn ⊢
      match n, hn with
      | 0, hn => simp at hn
      | m + 1, _ =>
        rw [parseElemsWith, hx w0 _ hw0 (stop_ws hw2 (by decide) rest)]
        simp only []
        rw [skipWs_append hw2, skipWs_cons (by decide)]
        simp
    | y :: u, ih =>
      have hj : joinBytes (0x2C :: w1) ((x :: y :: u).map enc)
          = enc x ++ (0x2C :: (w1 ++ joinBytes (0x2C :: w1) ((y :: u).map enc))) := by
        simp [joinBytes]
      rw [hj] at hn ⊢
      match n, hn with
      | 0, hn => simp at hn
      | m + 1, hn =>
        have hstop : Stop (0x2C :: (w1 ++ joinBytes (0x2C :: w1) ((y :: u).map enc)) ++ (w2 ++ 0x5D :: rest)) :=
          ⟨0x2C, _, rfl, by decide⟩
        rw [parseElemsWith, List.append_assoc (enc x), hx w0 _ hw0 hstop]
        simp only []
        rw [List.cons_append, skipWs_cons (by decide)]
        simp only []
        rw [if_pos (by decide), List.append_assoc,
          ih (by simp) (fun z hz => hp z (by simp [hz])) w1 hw1 m (by
            simp only [List.length_append, List.length_cons] at hn ⊢
            omega)]
        simp

/-- one member as the encoder lays it out: `"name": value` -/
def memBytes (name val : Bytes) : Bytes := 0x22 :: (name ++ 0x22 :: 0x3A :: 0x20 :: val)

theorem allWs_sp : AllWs [0x20] := by intro c hc; simp at hc; subst hc; decide

theorem parseMembers_join {α : Type} (pv : Bytes → Option (JVal × Bytes)) (name encv : α → Bytes) (val : α → JVal)
    {w1 w2 : Bytes} (hw1 : AllWs w1) (hw2 : AllWs w2) (rest : Bytes) :
    ∀ (xs : List α), xs ≠ [] → (∀ x ∈ xs, Plain (name x)) → (∀ x ∈ xs, Parses pv (encv x) (val x)) →
      ∀ (w0 : Bytes), AllWs w0 → ∀ n : Nat,
      (w0 ++ (joinBytes (0x2C :: w1) (xs.map (fun x => memBytes (name x) (encv x))) ++ (w2 ++ 0x7D :: rest))).length ≤ n →
      parseMembersWith pv n (w0 ++ (joinBytes (0x2C :: w1) (xs.map (fun x => memBytes (name x) (encv x))) ++ (w2 ++ 0x7D :: rest)))
        = some (xs.map (fun x => (name x, val x)), rest) := by
  intro xs
  induction xs with
  | nil => intro h; exact absurd rfl h
  | cons x t ih =>
    intro _ hnm hp w0 hw0 n hn
    have hx := hp x (by simp)
    have hnx := hnm x (by simp)
    match t, ih with
    | [], _ =>
      simp only [List.map_cons, List.map_nil, joinBytes] at hn ⊢
      match n, hn with
      | 0, hn => simp at hn
      | m + 1, _ =>
        have h20 := hx [0x20] (w2 ++ 0x7D :: rest) allWs_sp (stop_ws hw2 (by decide) rest)
        simp only [List.cons_append, List.nil_append] at h20
        rw [parseMembersWith, skipWs_append hw0]
        simp only [memBytes, List.cons_append, List.append_assoc]
        rw [skipWs_cons (by decide)]
        simp only []
        rw [if_pos (by decide), parseStrAux_plain hnx]
        simp only []
        rw [skipWs_cons (by decide)]
        simp only []
        rw [if_pos (by decide), h20]
        simp only []
        rw [skipWs_append hw2, skipWs_cons (by decide)]
        simp
    | y :: u, ih =>
      have hj : joinBytes (0x2C :: w1) ((x :: y :: u).map (fun x => memBytes (name x) (encv x)))
          = memBytes (name x) (encv x) ++ (0x2C :: (w1 ++ joinBytes (0x2C :: w1) ((y :: u).map (fun x => memBytes (name x) (encv x))))) := by
        simp [joinBytes]
      rw [hj] at hn ⊢
      match n, hn with
      | 0, hn => simp at hn
      | m + 1, hn =>
        have h20 := hx [0x20] (0x2C :: (w1 ++ joinBytes (0x2C :: w1) ((y :: u).map (fun x => memBytes (name x) (encv x)))) ++ (w2 ++ 0x7D :: rest))
          allWs_sp ⟨0x2C, _, rfl, by decide⟩
        simp only [List.cons_append, List.nil_append] at h20
        rw [parseMembersWith, skipWs_append hw0]
        simp only [memBytes, List.cons_append, List.append_assoc]
        rw [skipWs_cons (by decide)]
        simp only []
        rw [if_pos (by decide), parseStrAux_plain hnx]
        simp only []
        rw [skipWs_cons (by decide)]
        simp only []
        simp only [memBytes, List.append_assoc] at h20
        rw [if_pos (by decide), h20]
        simp only []
        rw [skipWs_cons (by decide)]
        simp only []
        have := ih (by simp) (fun z hz => hnm z (by simp [hz])) (fun z hz => hp z (by simp [hz])) w1 hw1 m (by
            simp only [List.length_append, List.length_cons, memBytes] at hn ⊢
            omega)
        simp only [memBytes] at this
        rw [if_pos (by decide), this]
        simp

/-! ### the layout of SetIndent -/

theorem nl_ws (hi : indentOK = true) (d : Nat) : AllWs (nl d) := by
  unfold indentOK at hi
  simp only [Bool.and_eq_true, List.all_eq_true] at hi
  intro c hc
  simp only [nl, List.mem_cons, List.mem_append, List.mem_flatten, List.mem_replicate] at hc
  rcases hc with (rfl | hc) | ⟨l, ⟨_, rfl⟩, hc⟩
  · decide
  · exact hi.1 c hc
  · exact hi.2 c hc

theorem allWs_nil : AllWs [] := by intro c hc; simp at hc

/-- the first byte of an array element: not white space, not `]` -/
def Head (e : Bytes) : Prop := ∃ c t, e = c :: t ∧ isWs c = false ∧ c.toNat ≠ 0x5D

theorem joinBytes_head {sep x : Bytes} {c : UInt8} {t : Bytes} (hx : x = c :: t) (l : List Bytes) :
    ∃ u, joinBytes sep (x :: l) = c :: u := by
  subst hx
  match l with
  | [] => exact ⟨t, rfl⟩
  | y :: l' => exact ⟨t ++ sep ++ joinBytes sep (y :: l'), by simp [joinBytes]⟩

theorem parseV_arr {α : Type} (hi : indentOK = true) (d depth : Nat) (enc : α → Bytes) (val : α → JVal) (xs : List α)
    (hp : ∀ x ∈ xs, Parses (parseV d) (enc x) (val x)) (hh : ∀ x ∈ xs, Head (enc x)) :
    Parses (parseV (d + 1)) (encSeq 0x5B 0x5D depth (xs.map enc)) (.arr (xs.map val)) := by
  intro w rest hw _
  match xs, hp, hh with
  | [], _, _ =>
    simp only [List.map_nil, encSeq, List.isEmpty_nil, if_true]
    rw [parseV, skipWs_append hw, List.cons_append, skipWs_cons (by decide)]
    simp only []
    rw [if_neg (by decide), if_pos (by decide), List.cons_append, skipWs_cons (by decide)]
    simp
  | x :: t, hp, hh =>
    obtain ⟨c, t', hx, hws, hne⟩ := hh x (by simp)
    obtain ⟨u, hu⟩ := joinBytes_head (sep := 0x2C :: nl (depth + 1)) hx (t.map enc)
    have key := parseElems_join (parseV d) enc val (nl_ws hi (depth + 1)) (nl_ws hi depth) rest (x :: t) (by simp) hp []
      allWs_nil ((u ++ (nl depth ++ 0x5D :: rest)).length + 1) (by
        simp only [List.map_cons, List.nil_append, hu]; simp)
    simp only [List.map_cons, List.nil_append, hu, List.cons_append] at key
    simp only [List.map_cons, encSeq, List.isEmpty_cons, Bool.false_eq_true, if_false, hu, List.cons_append, List.nil_append,
      List.append_assoc]
    rw [parseV, skipWs_append hw, skipWs_cons (by decide)]
    simp only []
    rw [if_neg (by decide), if_pos (by decide), skipWs_append (nl_ws hi (depth + 1)), skipWs_cons hws]
    simp only []
    rw [if_neg hne, key]
    simp

theorem parseV_obj {α : Type} (hi : indentOK = true) (d depth : Nat) (name encv : α → Bytes) (val : α → JVal) (xs : List α)
    (hn : ∀ x ∈ xs, Plain (name x)) (hp : ∀ x ∈ xs, Parses (parseV d) (encv x) (val x)) :
    Parses (parseV (d + 1)) (encSeq 0x7B 0x7D depth (xs.map (fun x => memBytes (name x) (encv x))))
      (.obj (xs.map (fun x => (name x, val x)))) := by
  intro w rest hw _
  match xs, hn, hp with
  | [], _, _ =>
    simp only [List.map_nil, encSeq, List.isEmpty_nil, if_true]
    rw [parseV, skipWs_append hw, List.cons_append, skipWs_cons (by decide)]
    simp only []
    rw [if_neg (by decide), if_neg (by decide), if_pos (by decide), List.cons_append, skipWs_cons (by decide)]
    simp
  | x :: t, hn, hp =>
    obtain ⟨u, hu⟩ := joinBytes_head (sep := 0x2C :: nl (depth + 1)) (x := memBytes (name x) (encv x)) rfl
      (t.map (fun x => memBytes (name x) (encv x)))
    have key := parseMembers_join (parseV d) name encv val (nl_ws hi (depth + 1)) (nl_ws hi depth) rest (x :: t) (by simp) hn hp []
      allWs_nil ((u ++ (nl depth ++ 0x7D :: rest)).length + 1) (by
        simp only [List.map_cons, List.nil_append, hu]; simp)
    simp only [List.map_cons, List.nil_append, hu, List.cons_append] at key
    simp only [List.map_cons, encSeq, List.isEmpty_cons, Bool.false_eq_true, if_false, hu, List.cons_append, List.nil_append,
      List.append_assoc]
    rw [parseV, skipWs_append hw, skipWs_cons (by decide)]
    simp only []
    rw [if_neg (by decide), if_neg (by decide), if_pos (by decide), skipWs_append (nl_ws hi (depth + 1)), skipWs_cons (by decide)]
    simp only []
    rw [if_neg (by decide), key]
    simp

/-! ### `%d` integers are number tokens -/

theorem natDecAux_eq : ∀ (fuel n : Nat) (acc : Bytes), n < fuel → natDecAux fuel n acc = natDigits n ++ acc := by
  intro fuel
  induction fuel with
  | zero => intro n acc h; omega
  | succ f ih =>
    intro n acc h
    rw [natDecAux]
    split
    · rename_i h10
      rw [natDigits, if_pos h10, Nat.mod_eq_of_lt h10]; rfl
    · rename_i h10
      rw [ih (n / 10) _ (by omega)]
      conv => rhs; rw [natDigits, if_neg h10]
      simp

theorem natDec_eq (n : Nat) : natDec n = natDigits n := by
  simp [natDec, natDecAux_eq (n + 1) n [] (by omega)]

theorem numStep_digit_run (s : NumSt) (hs : s = .start ∨ s = .minus) (n : Nat) :
    (natDigits n).foldl numStep s = if n = 0 then .zero else .int := by
  induction n using natDigits.induct with
  | case1 n h =>
    rw [natDigits, if_pos h]
    have e : (48 + n) % 256 = 48 + n := by omega
    rcases hs with rfl | rfl <;> simp only [List.foldl, numStep, UInt8.toNat_ofNat', e]
    · rw [if_neg (by omega)]
      by_cases h0 : n = 0
      · simp [h0]
      · rw [if_neg (by omega), if_pos (by omega), if_neg h0]
    · by_cases h0 : n = 0
      · simp [h0]
      · rw [if_neg (by omega), if_pos (by omega), if_neg h0]
  | case2 n h ih =>
    rw [natDigits, if_neg h, List.foldl_append, ih, if_neg (by omega)]
    have e : (48 + n % 10) % 256 = 48 + n % 10 := by omega
    simp only [List.foldl, numStep, UInt8.toNat_ofNat', e]
    rw [if_pos (by omega), if_neg (by omega)]

theorem isNumTok_intDec (i : Int) : isNumTok (intDec i) = true := by
  unfold isNumTok intDec
  rw [natDec_eq]
  have hd : ∀ c ∈ natDigits i.natAbs, numChar c = true := by
    intro c hc
    have := natDigits_digit _ c hc
    unfold numChar
    simp; omega
  split
  · rename_i hneg
    have h0 : i.natAbs ≠ 0 := by omega
    simp only [List.all_cons, List.foldl_cons, Bool.and_eq_true, List.all_eq_true]
    refine ⟨⟨by decide, hd⟩, ?_⟩
    have : numStep .start 0x2d = .minus := by decide
    rw [this, numStep_digit_run _ (Or.inr rfl), if_neg h0]; rfl
  · simp only [Bool.and_eq_true, List.all_eq_true]
    refine ⟨hd, ?_⟩
    rw [numStep_digit_run _ (Or.inl rfl)]
    split <;> rfl

/-! ### a form of the string encoder that evaluates

  `KeyJson.quoteBody` is compiled by well-founded recursion (its three-byte look-ahead), so `decide` cannot run it.
  `quoteBodyF` is the same function by recursion on a byte budget; `jsonStrF` the encoder built on it. -/

def quoteBodyF : Nat → Bytes → Bytes
  | 0, _ => []
  | _ + 1, [] => []
  | f + 1, b :: rest =>
    match rest with
    | b1 :: b2 :: rest' =>
      if b.toNat = 0xE2 ∧ b1.toNat = 0x80 ∧ b2.toNat = 0xA8 then u202x 0x38 ++ quoteBodyF f rest'
      else if b.toNat = 0xE2 ∧ b1.toNat = 0x80 ∧ b2.toNat = 0xA9 then u202x 0x39 ++ quoteBodyF f rest'
      else escByte b ++ quoteBodyF f rest
    | _ => escByte b ++ quoteBodyF f rest

theorem quoteBodyF_eq (a : Bytes) : ∀ f, a.length ≤ f → quoteBodyF f a = quoteBody a := by
  induction a using quoteBody.induct with
  | case1 => intro f _; cases f <;> simp [quoteBodyF, quoteBody]
  | case2 b b1 b2 rest' h ih =>
    intro f hf
    match f, hf with
    | f + 1, hf =>
      rw [quoteBodyF, quoteBody, if_pos h]
      simp only [if_pos h]
      rw [ih f (by simp at hf; omega)]
  | case3 b b1 b2 rest' hn h ih =>
    intro f hf
    match f, hf with
    | f + 1, hf =>
      rw [quoteBodyF, quoteBody, if_neg hn, if_pos h]
      simp only [if_neg hn, if_pos h]
      rw [ih f (by simp at hf; omega)]
  | case4 b b1 b2 rest' h1 h2 ih =>
    intro f hf
    match f, hf with
    | f + 1, hf =>
      rw [quoteBodyF, quoteBody, if_neg h1, if_neg h2]
      simp only [if_neg h1, if_neg h2]
      rw [ih f (by simp at hf ⊢; omega)]
  | case5 b rest hne ih =>
    intro f hf
    match f, hf with
    | f + 1, hf =>
      have hq : quoteBody (b :: rest) = escByte b ++ quoteBody rest := by
        match rest, hne with
        | [], _ => simp [quoteBody]
        | [_], _ => simp [quoteBody]
        | b1 :: b2 :: t, hne => exact (hne b1 b2 t rfl).elim
      rw [hq, ← ih f (by simp at hf; omega)]
      match rest, hne with
      | [], _ => simp [quoteBodyF]
      | [_], _ => simp [quoteBodyF]
      | b1 :: b2 :: t, hne => exact (hne b1 b2 t rfl).elim

/-- `jsonStrModel`, in a form `decide` can run -/
def jsonStrF (s : Bytes) : Bytes := 0x22 :: (quoteBodyF (coerce s).length (coerce s) ++ [0x22])

theorem jsonStrF_eq : jsonStrF = jsonStrModel := by
  funext s
  simp [jsonStrF, jsonStrModel, goString, quote, quoteBodyF_eq _ _ (Nat.le_refl _)]

/-! ### the encoder of the CLI -/

variable {S : Type} [ScoreOps S]

theorem head_str (s : Bytes) : Head (jsonStrModel s) := ⟨0x22, _, rfl, by decide, by decide⟩

theorem encSeq_head (op cl : UInt8) (depth : Nat) (elems : List Bytes) : ∃ t, encSeq op cl depth elems = op :: t := by
  unfold encSeq; split
  · exact ⟨_, rfl⟩
  · exact ⟨nl (depth + 1) ++ joinBytes (0x2c :: nl (depth + 1)) elems ++ nl depth ++ [cl], by simp⟩

omit [ScoreOps S] in
/-- every field value, as the encoder lays it out at any depth, reads back as `jvalOf` -/
theorem parseV_val (hi : indentOK = true) {F : Fmt S} (hstr : F.jsonStr = jsonStrModel) (hnum : NumOK F)
    (d depth : Nat) (v : Val S) : Parses (parseV (d + 2)) (Cli.encVal F depth v) (jvalOf F v) := by
  cases v with
  | bytes b => simp only [Cli.encVal, jvalOf, hstr]; exact parseV_str (d + 1) b
  | int n => exact parseV_num (d + 1) (isNumTok_intDec n)
  | score s => exact parseV_num (d + 1) (hnum s)
  | strs l =>
    simp only [Cli.encVal, jvalOf, hstr]
    exact parseV_arr hi (d + 1) depth jsonStrModel (fun b => .str (toValid b)) l (fun x _ => parseV_str d x) (fun x _ => head_str x)
  | bool b =>
    cases b
    · exact (parseV_lit (d + 1)).2.1
    · exact (parseV_lit (d + 1)).1
  | sliceLen n => exact (parseV_lit (d + 1)).2.2
  | bad => exact (parseV_lit (d + 1)).2.2

theorem plain_of_nameOK {n : String} (h : nameOK n = true) : Plain (bs n) := by
  unfold nameOK at h
  simp only [List.all_eq_true, Bool.and_eq_true, decide_eq_true_eq, bne_iff_ne] at h
  intro c hc
  have := h c hc
  omega

omit [ScoreOps S] in
theorem parseV_encObj (hi : indentOK = true) {F : Fmt S} (hstr : F.jsonStr = jsonStrModel) (hnum : NumOK F)
    (d depth : Nat) (fs : List (String × Val S)) (hn : ∀ kv ∈ fs, nameOK kv.1 = true) :
    Parses (parseV (d + 3)) (encObj F depth fs) (jobjOf F fs) := by
  have e : (fun kv : String × Val S => [0x22] ++ bs kv.1 ++ [0x22, 0x3a, 0x20] ++ Cli.encVal F (depth + 1) kv.2)
      = (fun kv => memBytes (bs kv.1) (Cli.encVal F (depth + 1) kv.2)) := by
    funext kv; simp [memBytes]
  unfold encObj jobjOf
  rw [e]
  have h := parseV_obj hi (d + 2) depth (fun kv : String × Val S => bs kv.1) (fun kv => Cli.encVal F (depth + 1) kv.2)
    (fun kv => jvalOf F kv.2) fs (fun kv h => plain_of_nameOK (hn kv h)) (fun kv _ => parseV_val hi hstr hnum d (depth + 1) kv.2)
  exact h

theorem objFields_names (fields : List Gen.Cli.JsonField) (it : Item S) :
    ∀ kv ∈ objFields fields it, ∃ f ∈ fields, kv.1 = f.jsonName := by
  intro kv hkv
  simp only [objFields, List.mem_flatMap] at hkv
  obtain ⟨f, hf, hm⟩ := hkv
  split at hm
  · simp at hm
  · simp only [List.mem_singleton] at hm
    exact ⟨f, hf, by rw [hm]⟩

theorem encSeq_length (op cl : UInt8) (depth : Nat) (elems : List Bytes) : 2 ≤ (encSeq op cl depth elems).length := by
  unfold encSeq; split
  · simp
  · simp; omega

/-- the names of the regenerated member table are written and read as they are -/
def NamesOK : Prop := ∀ f ∈ Gen.Cli.jsonFields, nameOK f.jsonName = true

/-- MAIN THEOREM (model level).  Whatever the items, the block `encodeItems` lays out is a JSON text: the recogniser reads
    one array off it, with one object per item whose members are the item's fields by name and in order, every value read
    back (`jvalOf`), and only the final newline is left. -/
theorem parseValue_encodeItems (hi : indentOK = true) (hn : NamesOK) {F : Fmt S} (hstr : F.jsonStr = jsonStrModel)
    (hnum : NumOK F) (items : List (Item S)) :
    parseValue (encodeItems F items) = some (expectedJson F items, [0x0A]) := by
  have hl := encSeq_length 0x5b 0x5d 0 (items.map (fun it => encObj F 1 (objFields Gen.Cli.jsonFields it)))
  obtain ⟨k, hk⟩ : ∃ k, (encodeItems F items).length + 1 = k + 4 := ⟨(encodeItems F items).length - 3, by
    simp only [encodeItems, List.length_append, List.length_singleton]; omega⟩
  have key := parseV_arr hi (k + 3) 0 (fun it : Item S => encObj F 1 (objFields Gen.Cli.jsonFields it))
    (fun it => jobjOf F (objFields Gen.Cli.jsonFields it)) items
    (fun it _ => parseV_encObj hi hstr hnum k 1 _ (fun kv hkv => by
      obtain ⟨f, hf, e⟩ := objFields_names Gen.Cli.jsonFields it kv hkv
      rw [e]; exact hn f hf))
    (fun it _ => by
      obtain ⟨t, ht⟩ := encSeq_head 0x7b 0x7d 1 ((objFields Gen.Cli.jsonFields it).map
        (fun kv => [0x22] ++ bs kv.1 ++ [0x22, 0x3a, 0x20] ++ Cli.encVal F (1 + 1) kv.2))
      exact ⟨0x7b, t, ht, by decide, by decide⟩)
    [] [0x0A] allWs_nil ⟨0x0A, [], rfl, by decide⟩
  rw [parseValue, hk]
  simpa [encodeItems, expectedJson] using key

theorem parseText_encodeItems (hi : indentOK = true) (hn : NamesOK) {F : Fmt S} (hstr : F.jsonStr = jsonStrModel)
    (hnum : NumOK F) (items : List (Item S)) :
    parseText (encodeItems F items) = some (expectedJson F items) := by
  rw [parseText, parseValue_encodeItems hi hn hstr hnum]
  rfl

end Wtf.JsonText
