import WtfModel.Proofs.ValidateUtf8
import WtfModel.Proofs.ValidateText

/-!
  Lemmas about `validate` itself: when it accepts, what the accepted text looks like, what a second
  validation does with it, how padding acts.  The property theorems in `Props/C14.lean` are assembled
  from these.
-/
namespace Wtf.Validate

/-- the text returned for an accepted query, as code points -/
def outOf (rs : List Rune) : List Nat := joinSp (fields (trimSpace (stripCtl rs)))

theorem outOf_eq (rs : List Rune) : outOf rs = joinSp (fields (stripCtl rs)) := by
  unfold outOf; rw [fields_trimSpace]

/-! ### the replacement byte behaves like U+FFFD in every test the function makes -/

theorem kept_repl : kept Wtf.Gen.Validate.invalidRepl = true := by decide

theorem isSpace_out (r : Rune) : isSpace r.out = isSpace r.val := by
  cases r with
  | cp c => rfl
  | bad b => simp only [Rune.out, Rune.val]; decide

theorem isControl_out (r : Rune) : isControl r.out = isControl r.val := by
  cases r with
  | cp c => rfl
  | bad b => simp only [Rune.out, Rune.val]; decide

theorem isMeta_out (r : Rune) : isMeta r.out = isMeta r.val := by
  cases r with
  | cp c => rfl
  | bad b => simp only [Rune.out, Rune.val]; decide

theorem kept_out (r : Rune) : kept r.out = kept r.val := by
  cases r with
  | cp c => rfl
  | bad b => simp only [Rune.out, Rune.val]; decide

theorem out_of_not_bad {r : Rune} (h : r.isBad = false) : r.out = r.val := by
  cases r with
  | cp c => rfl
  | bad b => cases h

/-- the loop of the code (one `switch` per rune) is a map followed by a filter -/
theorem stripCtl_eq (rs : List Rune) : stripCtl rs = (rs.map Rune.out).filter kept := by
  induction rs with
  | nil => rfl
  | cons r rs ih =>
    unfold stripCtl at ih ⊢
    cases r with
    | cp c =>
      cases hk : kept c <;> simp [stripStep, Rune.out, hk, ih]
    | bad b =>
      simp [stripStep, Rune.out, kept_repl, ih]

theorem mem_stripCtl {rs : List Rune} {x : Nat} : x ∈ stripCtl rs ↔ kept x = true ∧ ∃ r ∈ rs, r.out = x := by
  simp only [stripCtl_eq, List.mem_filter, List.mem_map]
  constructor
  · rintro ⟨⟨r, hr, rfl⟩, hk⟩; exact ⟨hk, r, hr, rfl⟩
  · rintro ⟨hk, r, hr, rfl⟩; exact ⟨⟨r, hr, rfl⟩, hk⟩

theorem stripCtl_append (a b : List Rune) : stripCtl (a ++ b) = stripCtl a ++ stripCtl b := by
  simp [stripCtl]

theorem outOf_ne_nil_iff (rs : List Rune) : outOf rs ≠ [] ↔ ∃ x ∈ stripCtl rs, isSpace x = false := by
  rw [outOf_eq, Ne, joinSp_eq_nil (words_fields _), fields_eq_nil_iff]
  constructor
  · intro h
    apply Classical.byContradiction
    intro hn
    apply h
    intro x hx
    cases hs : isSpace x
    · exact absurd ⟨x, hx, hs⟩ hn
    · rfl
  · rintro ⟨x, hx, hs⟩ h
    rw [h x hx] at hs; cases hs

theorem mem_outOf {rs : List Rune} {x : Nat} (hx : x ∈ outOf rs) : x = 0x20 ∨ (x ∈ stripCtl rs ∧ isSpace x = false) := by
  rw [outOf_eq] at hx
  rcases mem_joinSp hx with h | ⟨f, hf, hxf⟩
  · exact .inl h
  · exact .inr ((fields_good _ f hf).2 x hxf)

theorem sanitize_ok_iff (rs : List Rune) (out : List Nat) :
    sanitize rs = .ok out ↔ (stripCtl rs).any isMeta = false ∧ outOf rs ≠ [] ∧ out = outOf rs := by
  unfold sanitize
  simp only []
  cases hm : (stripCtl rs).any isMeta
  · simp only [Bool.false_eq_true, if_false, true_and]
    change (if (outOf rs).isEmpty = true then Except.error Err.empty else Except.ok (outOf rs)) = Except.ok out ↔ _
    cases ho : outOf rs with
    | nil => simp
    | cons a l =>
      simp only [List.isEmpty_cons, Bool.false_eq_true, if_false, ne_eq, reduceCtorEq, not_false_eq_true, true_and]
      constructor
      · intro h; injection h with h; exact h.symm
      · intro h; rw [h]
  · simp

theorem validate_ok_iff (q r : Bytes) :
    validate q = .ok r ↔
      blank (decodeGo q) = false ∧ q.length ≤ maxQueryLength ∧ (stripCtl (decodeGo q)).any isMeta = false ∧
      outOf (decodeGo q) ≠ [] ∧ r = encodeGo (outOf (decodeGo q)) := by
  unfold validate
  simp only []
  cases hb : blank (decodeGo q)
  · simp only [Bool.false_eq_true, if_false, true_and]
    by_cases hl : q.length > maxQueryLength
    · simp only [if_pos hl]
      constructor
      · intro h; cases h
      · intro h; omega
    · simp only [if_neg hl]
      have hl' : q.length ≤ maxQueryLength := by omega
      cases hs : sanitize (decodeGo q) with
      | error e =>
        simp only [reduceCtorEq, false_iff]
        rintro ⟨_, h2, h3, _⟩
        have := (sanitize_ok_iff (decodeGo q) _).mpr ⟨h2, h3, rfl⟩
        rw [hs] at this; cases this
      | ok cs =>
        obtain ⟨h1, h2, h3⟩ := (sanitize_ok_iff _ _).mp hs
        simp only [Except.ok.injEq]
        constructor
        · intro h; exact ⟨hl', h1, h2, by rw [← h, h3]⟩
        · rintro ⟨_, _, _, h⟩; rw [h, h3]
  · simp

/-- which error: a restatement of the order of the tests -/
theorem validate_error_toolong {q : Bytes} (hb : blank (decodeGo q) = false) (hl : q.length > maxQueryLength) :
    validate q = .error .toolong := by
  unfold validate
  simp [hb, hl]

/-! ### raw blank test is implied -/

theorem blank_imp_strip_spaces {rs : List Rune} (h : blank rs = true) : ∀ x ∈ stripCtl rs, isSpace x = true := by
  intro x hx
  obtain ⟨_, r, hr, rfl⟩ := mem_stripCtl.mp hx
  have := List.all_eq_true.mp h r hr
  simp only [Bool.and_eq_true] at this
  rw [isSpace_out]
  exact this.2

theorem not_blank_of_out {rs : List Rune} (h : outOf rs ≠ []) : blank rs = false := by
  cases hb : blank rs
  · rfl
  · obtain ⟨x, hx, hs⟩ := (outOf_ne_nil_iff rs).mp h
    rw [blank_imp_strip_spaces hb x hx] at hs; cases hs

/-- acceptance in terms of the decoded characters -/
theorem validate_isOk_iff (q : Bytes) :
    (∃ r, validate q = .ok r) ↔
      q.length ≤ maxQueryLength ∧ (∀ ru ∈ decodeGo q, isMeta ru.val = false) ∧
      (∃ ru ∈ decodeGo q, kept ru.val = true ∧ isSpace ru.val = false) := by
  constructor
  · rintro ⟨r, h⟩
    obtain ⟨_, h2, h3, h4, _⟩ := (validate_ok_iff q r).mp h
    refine ⟨h2, ?_, ?_⟩
    · intro ru hru
      cases hm : isMeta ru.val
      · rfl
      · rw [← isMeta_out] at hm
        have : ru.out ∈ stripCtl (decodeGo q) := mem_stripCtl.mpr ⟨meta_kept hm, ru, hru, rfl⟩
        have := List.any_eq_false.mp h3 _ this
        simp [hm] at this
    · obtain ⟨x, hx, hs⟩ := (outOf_ne_nil_iff _).mp h4
      obtain ⟨hk, ru, hru, rfl⟩ := mem_stripCtl.mp hx
      rw [kept_out] at hk; rw [isSpace_out] at hs
      exact ⟨ru, hru, hk, hs⟩
  · rintro ⟨h1, h2, ru, hru, hk, hs⟩
    rw [← kept_out] at hk; rw [← isSpace_out] at hs
    have h4 : outOf (decodeGo q) ≠ [] := (outOf_ne_nil_iff _).mpr ⟨ru.out, mem_stripCtl.mpr ⟨hk, ru, hru, rfl⟩, hs⟩
    refine ⟨_, (validate_ok_iff q _).mpr ⟨not_blank_of_out h4, h1, ?_, h4, rfl⟩⟩
    rw [List.any_eq_false]
    intro x hx
    obtain ⟨_, r, hr, rfl⟩ := mem_stripCtl.mp hx
    simp [isMeta_out, h2 r hr]

/-! ### bytes and characters -/

theorem decodeGo_append (a b : Bytes) : decodeGo (a ++ b) = decodeNat (a.map (·.toNat) ++ b.map (·.toNat)) := by
  simp [decodeGo]

theorem toNat_encodeGo (cs : List Nat) : (encodeGo cs).map (·.toNat) = encodeAll cs :=
  toNat_toBytes _ (encodeAll_lt cs)

theorem length_encodeGo (cs : List Nat) : (encodeGo cs).length = (encodeAll cs).length := by
  simp [encodeGo, toBytes]

/-- metacharacter bytes of a string are exactly its metacharacter characters -/
theorem meta_bytes_iff (q : Bytes) : (∀ b ∈ q, isMeta b.toNat = false) ↔ (∀ ru ∈ decodeGo q, isMeta ru.val = false) := by
  constructor
  · intro h ru hru
    cases hm : isMeta ru.val
    · rfl
    · have hlt := (meta_plain hm).2.2
      have : ru.val ∈ q.map (·.toNat) := (ascii_mem_decode _ _ hlt).mpr ⟨ru, hru, rfl⟩
      obtain ⟨b, hb, hbe⟩ := List.mem_map.mp this
      have := h b hb
      rw [hbe, hm] at this; cases this
  · intro h b hb
    cases hm : isMeta b.toNat
    · rfl
    · have hlt := (meta_plain hm).2.2
      obtain ⟨ru, hru, hv⟩ := (ascii_mem_decode (q.map (·.toNat)) _ hlt).mp (List.mem_map.mpr ⟨b, hb, rfl⟩)
      have := h ru hru
      rw [hv, hm] at this; cases this

theorem scalar_stripCtl (s : List Nat) : ∀ x ∈ stripCtl (decodeNat s), scalar x := by
  intro x hx
  obtain ⟨_, r, hr, rfl⟩ := mem_stripCtl.mp hx
  exact decodeNat_scalar_out s r hr

theorem scalar_outOf (s : List Nat) : ∀ x ∈ outOf (decodeNat s), scalar x := by
  intro x hx
  rcases mem_outOf hx with rfl | ⟨h, _⟩
  · exact scalar_sp
  · exact scalar_stripCtl s x h

/-! ### what an accepted text looks like -/

/-- Output shape: words joined by single spaces, every character a kept non-control, non-meta scalar. -/
structure Clean (out : List Nat) : Prop where
  ws : ∃ ws, Words ws ∧ ws ≠ [] ∧ out = joinSp ws
  noCtl : ∀ x ∈ out, isControl x = false
  noMeta : ∀ x ∈ out, isMeta x = false
  scal : ∀ x ∈ out, scalar x
  spaces : ∀ x ∈ out, isSpace x = true → x = 0x20

theorem clean_outOf {s : List Nat} (hm : (stripCtl (decodeNat s)).any isMeta = false) (hne : outOf (decodeNat s) ≠ []) :
    Clean (outOf (decodeNat s)) := by
  refine ⟨⟨fields (stripCtl (decodeNat s)), words_fields _, ?_, outOf_eq _⟩, ?_, ?_, scalar_outOf s, ?_⟩
  · intro h; rw [outOf_eq, h] at hne; exact hne rfl
  · intro x hx
    rcases mem_outOf hx with rfl | ⟨h, hs⟩
    · exact isControl_sp
    · exact not_control_of_kept_nonspace (mem_stripCtl.mp h).1 hs
  · intro x hx
    rcases mem_outOf hx with rfl | ⟨h, _⟩
    · exact isMeta_sp
    · have := List.any_eq_false.mp hm x h
      simpa using this
  · intro x hx hs
    rcases mem_outOf hx with rfl | ⟨_, h⟩
    · rfl
    · rw [h] at hs; cases hs

theorem clean_outOf_go {q : Bytes} (hm : (stripCtl (decodeGo q)).any isMeta = false) (hne : outOf (decodeGo q) ≠ []) :
    Clean (outOf (decodeGo q)) := clean_outOf (s := q.map (fun (b : UInt8) => b.toNat)) hm hne

theorem Clean.ne_nil {out : List Nat} (h : Clean out) : out ≠ [] := by
  obtain ⟨ws, hw, hne, rfl⟩ := h.ws
  rw [Ne, joinSp_eq_nil hw]; exact hne

theorem Clean.noEdge {out : List Nat} (h : Clean out) : noEdgeSpace out := by
  obtain ⟨ws, hw, _, rfl⟩ := h.ws
  exact ⟨head_joinSp hw, getLast_joinSp hw⟩

theorem Clean.noAdj {out : List Nat} (h : Clean out) : noAdjSpace out := by
  obtain ⟨ws, hw, _, rfl⟩ := h.ws
  exact noAdjSpace_joinSp hw

theorem filter_eq_self' {p : Nat → Bool} {l : List Nat} (h : ∀ x ∈ l, p x = true) : l.filter p = l :=
  List.filter_eq_self.mpr h

theorem stripCtl_map_cp (cs : List Nat) : stripCtl (cs.map .cp) = cs.filter kept := by
  simp [stripCtl_eq, Rune.out, Function.comp_def]

theorem blank_map_cp (cs : List Nat) : blank (cs.map .cp) = cs.all isSpace := by
  simp [blank, Rune.isBad, Rune.val, List.all_map, Function.comp_def]

/-- a clean text passes all tests after the length test and comes back as it is -/
theorem sanitize_clean {out : List Nat} (h : Clean out) : sanitize (out.map .cp) = .ok out := by
  rw [sanitize_ok_iff]
  have hs : stripCtl (out.map .cp) = out := by
    rw [stripCtl_map_cp]
    exact filter_eq_self' (fun x hx => kept_of_not_control (h.noCtl x hx))
  have ho : outOf (out.map .cp) = out := by
    rw [outOf_eq, hs]
    obtain ⟨ws, hw, _, rfl⟩ := h.ws
    rw [fields_joinSp hw]
  refine ⟨?_, by rw [ho]; exact h.ne_nil, ho.symm⟩
  rw [hs, List.any_eq_false]
  intro x hx; simp [h.noMeta x hx]

theorem blank_clean {out : List Nat} (h : Clean out) : blank (out.map .cp) = false := by
  rw [blank_map_cp]
  have hne := h.ne_nil
  cases out with
  | nil => exact absurd rfl hne
  | cons c l =>
    have := h.noEdge.1 c rfl
    simp [this]

/-- the second validation of a clean text depends on its byte length only -/
theorem validate_clean {out : List Nat} (h : Clean out) :
    validate (encodeGo out) =
      if (encodeGo out).length > maxQueryLength then .error .toolong else .ok (encodeGo out) := by
  have hd : decodeGo (encodeGo out) = out.map .cp := decode_encode out h.scal
  unfold validate
  simp only [hd, blank_clean h, Bool.false_eq_true, if_false, sanitize_clean h]

/-! ### sizes -/

def byteLen (c : Nat) : Nat := (encodeNat c).length

theorem encodeAll_length (cs : List Nat) : (encodeAll cs).length = weight byteLen cs := by
  induction cs with
  | nil => rfl
  | cons c cs ih => simp only [encodeAll, List.flatMap_cons, List.length_append, weight_cons, byteLen] at *; omega

theorem byteLen_pos (c : Nat) : 1 ≤ byteLen c := by
  unfold byteLen encodeNat
  split <;> exact encodeScalar_length_pos _

theorem byteLen_sp : byteLen 0x20 = 1 := by decide

theorem weight_outOf_le (w : Nat → Nat) (hw : ∀ c, isSpace c = true → w 0x20 ≤ w c) (rs : List Rune) :
    weight w (outOf rs) ≤ weight w (rs.map Rune.out) := by
  rw [outOf_eq]
  have h1 := weight_collapse w hw (stripCtl rs)
  have h2 : weight w (stripCtl rs) ≤ weight w (rs.map Rune.out) := by
    rw [stripCtl_eq]; exact weight_filter_le w kept _
  omega

theorem weight_one (l : List Nat) : weight (fun _ => 1) l = l.length := by
  induction l with
  | nil => rfl
  | cons c l ih => rw [weight_cons, ih, List.length_cons]; omega

theorem length_outOf_le (rs : List Rune) : (outOf rs).length ≤ rs.length := by
  have := weight_outOf_le (fun _ => 1) (fun _ _ => Nat.le_refl _) rs
  rwa [weight_one, weight_one, List.length_map] at this

/-- the accepted text is never longer, in bytes, than the input (every step of the function copies, drops or
    replaces by something not longer: an invalid byte by one byte, a white-space run by one space) -/
theorem bytes_outOf_le (s : List Nat) :
    (encodeAll (outOf (decodeNat s))).length ≤ s.length := by
  have := weight_outOf_le byteLen (fun c _ => by rw [byteLen_sp]; exact byteLen_pos c) (decodeNat s)
  rw [← encodeAll_length, ← encodeAll_length, encode_out_length] at this
  exact this

theorem bytes_outOf_le_go (q : Bytes) :
    (encodeGo (outOf (decodeGo q))).length ≤ q.length := by
  have := bytes_outOf_le (q.map (fun (b : UInt8) => b.toNat))
  rw [List.length_map] at this
  rw [length_encodeGo]
  exact this

/-! ### padding -/

theorem blank_append (a b : List Rune) : blank (a ++ b) = (blank a && blank b) := by simp [blank]

theorem space_not_meta {x : Nat} (h : isSpace x = true) : isMeta x = false := by
  cases hm : isMeta x
  · rfl
  · rw [(meta_plain hm).1] at h; cases h

theorem any_meta_spaces {s : List Nat} (h : ∀ x ∈ s, isSpace x = true) : s.any isMeta = false := by
  rw [List.any_eq_false]; intro x hx; simp [space_not_meta (h x hx)]

theorem filter_spaces {s : List Nat} (h : ∀ x ∈ s, isSpace x = true) : ∀ x ∈ s.filter kept, isSpace x = true :=
  fun x hx => h x (List.mem_filter.mp hx).1

/-- white space before and after does not change anything after the length test -/
theorem sanitize_pad (s₁ s₂ : List Nat) (h₁ : ∀ x ∈ s₁, isSpace x = true) (h₂ : ∀ x ∈ s₂, isSpace x = true) (rs : List Rune) :
    sanitize (s₁.map .cp ++ rs ++ s₂.map .cp) = sanitize rs ∧
    blank (s₁.map .cp ++ rs ++ s₂.map .cp) = blank rs := by
  have e : stripCtl (s₁.map .cp ++ rs ++ s₂.map .cp) = s₁.filter kept ++ stripCtl rs ++ s₂.filter kept := by
    rw [stripCtl_append, stripCtl_append, stripCtl_map_cp, stripCtl_map_cp]
  have f₁ := filter_spaces h₁
  have f₂ := filter_spaces h₂
  constructor
  · have hm : (stripCtl (s₁.map .cp ++ rs ++ s₂.map .cp)).any isMeta = (stripCtl rs).any isMeta := by
      rw [e, List.any_append, List.any_append, any_meta_spaces f₁, any_meta_spaces f₂]; simp
    have ho : outOf (s₁.map .cp ++ rs ++ s₂.map .cp) = outOf rs := by
      rw [outOf_eq, outOf_eq, e, fields_append_spaces _ _ f₂, fields_spaces_append _ _ f₁]
    unfold sanitize
    simp only []
    rw [hm]
    change (if _ then _ else if (outOf _).isEmpty = true then _ else Except.ok (outOf _)) =
      (if _ then _ else if (outOf _).isEmpty = true then _ else Except.ok (outOf _))
    rw [ho]
  · rw [blank_append, blank_append, blank_map_cp, blank_map_cp]
    have a₁ : s₁.all isSpace = true := List.all_eq_true.mpr h₁
    have a₂ : s₂.all isSpace = true := List.all_eq_true.mpr h₂
    simp [a₁, a₂]

/-- a run of white space containing a character that survives the control strip acts, in the middle of
    a query, like one plain space -/
theorem sanitize_inner (s : List Nat) (hs : ∀ x ∈ s, isSpace x = true) (hk : ∃ x ∈ s, kept x = true) (a b : List Rune) :
    sanitize (a ++ s.map .cp ++ b) = sanitize (a ++ [Rune.cp 0x20] ++ b) ∧
    blank (a ++ s.map .cp ++ b) = blank (a ++ [Rune.cp 0x20] ++ b) := by
  have e1 : stripCtl (a ++ s.map .cp ++ b) = stripCtl a ++ s.filter kept ++ stripCtl b := by
    rw [stripCtl_append, stripCtl_append, stripCtl_map_cp]
  have k20 : kept 0x20 = true := by decide
  have e2 : stripCtl (a ++ [Rune.cp 0x20] ++ b) = stripCtl a ++ [0x20] ++ stripCtl b := by
    rw [stripCtl_append, stripCtl_append]
    simp [stripCtl_eq, Rune.out, k20]
  have f := filter_spaces hs
  have fne : s.filter kept ≠ [] := by
    obtain ⟨x, hx, hkx⟩ := hk
    intro h
    have : x ∈ s.filter kept := List.mem_filter.mpr ⟨hx, hkx⟩
    rw [h] at this; simp at this
  have sp20 : ∀ x ∈ [0x20], isSpace x = true := by intro x hx; simp at hx; subst hx; exact isSpace_sp
  constructor
  · have hm : (stripCtl (a ++ s.map .cp ++ b)).any isMeta = (stripCtl (a ++ [Rune.cp 0x20] ++ b)).any isMeta := by
      rw [e1, e2]
      simp only [List.any_append, any_meta_spaces f, any_meta_spaces sp20]
    have ho : outOf (a ++ s.map .cp ++ b) = outOf (a ++ [Rune.cp 0x20] ++ b) := by
      rw [outOf_eq, outOf_eq, e1, e2, fields_inner _ _ _ f fne, fields_inner _ _ _ sp20 (by simp)]
    unfold sanitize
    simp only []
    rw [hm]
    change (if _ then _ else if (outOf _).isEmpty = true then _ else Except.ok (outOf _)) =
      (if _ then _ else if (outOf _).isEmpty = true then _ else Except.ok (outOf _))
    rw [ho]
  · simp only [blank_append, blank_map_cp]
    have a₁ : s.all isSpace = true := List.all_eq_true.mpr hs
    simp [a₁, blank, Rune.isBad, Rune.val, isSpace_sp]

/-! ### decoding padded strings -/

theorem decodeGo_pad (s₁ s₂ : List Nat) (h₁ : ∀ c ∈ s₁, isSpace c = true) (h₂ : ∀ c ∈ s₂, isSpace c = true) (q : Bytes) :
    decodeGo (encodeGo s₁ ++ q ++ encodeGo s₂) = s₁.map .cp ++ decodeGo q ++ s₂.map .cp := by
  unfold decodeGo
  rw [List.map_append, List.map_append, toNat_encodeGo, toNat_encodeGo, List.append_assoc,
    decodeNat_encodeAll s₁ (fun c hc => space_scalar (h₁ c hc)),
    decodeNat_append _ _ (by simpa using startOK_encodeAll s₂ [] (fun _ => trivial))]
  have := decodeNat_encodeAll s₂ (fun c hc => space_scalar (h₂ c hc)) []
  rw [List.append_nil, decodeNat_nil, List.append_nil] at this
  rw [this, List.append_assoc]

theorem decodeGo_inner (s : List Nat) (hs : ∀ c ∈ s, isSpace c = true) (hne : s ≠ []) (a b : Bytes) :
    decodeGo (a ++ encodeGo s ++ b) = decodeGo a ++ s.map .cp ++ decodeGo b := by
  unfold decodeGo
  rw [List.map_append, List.map_append, toNat_encodeGo, List.append_assoc,
    decodeNat_append _ _ (startOK_encodeAll s _ (fun h => absurd h hne)),
    decodeNat_encodeAll s (fun c hc => space_scalar (hs c hc)), List.append_assoc]

theorem encodeGo_sp : encodeGo [0x20] = [0x20] := by decide

/-! ### n invalid bytes -/

theorem decodeNat_replicate_FF (n : Nat) : decodeNat (List.replicate n 0xFF) = List.replicate n (.bad 0xFF) := by
  induction n with
  | zero => exact decodeNat_nil
  | succ n ih =>
    rw [List.replicate_succ, decodeNat_bad (by simp [decode1]), ih, List.replicate_succ]

theorem weight_replicate (w : Nat → Nat) (n c : Nat) : weight w (List.replicate n c) = n * w c := by
  induction n with
  | zero => simp [weight]
  | succ n ih => rw [List.replicate_succ, weight_cons, ih, Nat.succ_mul]; omega

theorem encodeGo_replicate_repl (n : Nat) :
    encodeGo (List.replicate n Wtf.Gen.Validate.invalidRepl) = List.replicate n (UInt8.ofNat Wtf.Gen.Validate.invalidRepl) := by
  induction n with
  | zero => rfl
  | succ n ih =>
    simp only [encodeGo, toBytes, encodeAll, List.replicate_succ, List.flatMap_cons, encodeNat_repl,
      List.map_cons, List.cons_append, List.nil_append] at *
    rw [ih]

/-- `n` invalid bytes (1 ≤ n ≤ limit) are accepted and come back as `n` replacement bytes -/
theorem validate_replicate_FF (n : Nat) (h0 : 0 < n) (hn : n ≤ maxQueryLength) :
    validate (List.replicate n 0xFF) = .ok (List.replicate n (UInt8.ofNat Wtf.Gen.Validate.invalidRepl)) := by
  have hd : decodeGo (List.replicate n 0xFF) = List.replicate n (.bad 0xFF) := by
    unfold decodeGo
    rw [List.map_replicate]
    exact decodeNat_replicate_FF n
  have hs : stripCtl (decodeGo (List.replicate n 0xFF)) = List.replicate n Wtf.Gen.Validate.invalidRepl := by
    rw [hd, stripCtl_eq]
    simp only [List.map_replicate, Rune.out]
    exact List.filter_eq_self.mpr (fun x hx => by rw [List.eq_of_mem_replicate hx]; exact kept_repl)
  have hne : List.replicate n Wtf.Gen.Validate.invalidRepl ≠ [] := by
    cases n with
    | zero => omega
    | succ n => simp [List.replicate_succ]
  have ho : outOf (decodeGo (List.replicate n 0xFF)) = List.replicate n Wtf.Gen.Validate.invalidRepl := by
    rw [outOf_eq, hs, fields_word hne (by intro x hx; rw [List.eq_of_mem_replicate hx]; decide)]
    rfl
  rw [validate_ok_iff, ho, hs]
  refine ⟨?_, by simpa using hn, ?_, hne, (encodeGo_replicate_repl n).symm⟩
  · rw [hd]
    cases n with
    | zero => omega
    | succ n => simp [List.replicate_succ, blank, Rune.isBad]
  · rw [List.any_eq_false]; intro x hx; rw [List.eq_of_mem_replicate hx]; decide

end Wtf.Validate
