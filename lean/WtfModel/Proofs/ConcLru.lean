import WtfModel.Model.ConcLru
import WtfModel.Proofs.Conc
import WtfModel.Proofs.Lru

/-! LRU-specific lemmas for C11.  Core only. -/
namespace Wtf.ConcLru
open Wtf.Conc Wtf.Lru

set_option linter.unusedSectionVars false
variable {κ ν : Type} [DecidableEq κ]

/-- the generic sequential run, instantiated with `Lru.step`, is `Lru.run` -/
theorem runSeq_eq_run (s : State κ ν) (h : List (Int × Op κ ν)) :
    runSeq (lruSpec (κ := κ) (ν := ν)).step s h = Lru.run s h := by
  induction h generalizing s with
  | nil => rfl
  | cons x xs ih =>
    obtain ⟨now, op⟩ := x
    have ih' := ih (step s now op).1
    simp only [lruSpec] at ih'
    simp only [runSeq, Lru.run, lruSpec, ih']

/-! ### what a cached value can be

  If every `put k v` stores `v = f k` (the cached search stores the result of the search that the key
  stands for), then every successful `get k` returns `f k`, in every sequential run. -/

def ValOK (f : κ → ν) (s : State κ ν) : Prop := ∀ e ∈ s.entries, e.val = f e.key

def PutsAgree (f : κ → ν) : Op κ ν → Prop
  | .put k v => v = f k
  | _ => True

theorem step_valok (f : κ → ν) {s : State κ ν} (h : ValOK f s) (now : Int) (op : Op κ ν)
    (hop : PutsAgree f op) :
    ValOK f (step s now op).1 ∧ ∀ k v, op = .get k → (step s now op).2 = .val (some v) → v = f k := by
  cases op with
  | get k =>
    refine ⟨?_, ?_⟩
    · simp only [step, Lru.get]
      split
      · exact h
      · rename_i e he
        obtain ⟨hm, hk⟩ := find?_some he
        split
        · intro x hx; exact h x (mem_remove.mp hx).1
        · intro x hx
          simp only [List.mem_cons] at hx
          rcases hx with rfl | hx
          · exact h e hm
          · exact h x (mem_remove.mp hx).1
    · intro k' v hk hv
      cases hk
      simp only [step, Lru.get] at hv
      split at hv
      · simp at hv
      · rename_i e he
        obtain ⟨hm, hkk⟩ := find?_some he
        split at hv
        · simp at hv
        · simp at hv; rw [← hv, ← hkk]; exact h e hm
  | put k v =>
    refine ⟨?_, by intro _ _ h'; cases h'⟩
    simp only [PutsAgree] at hop
    simp only [step, Lru.put]
    split
    · rename_i e he
      obtain ⟨hm, hk⟩ := find?_some he
      intro x hx
      simp only [List.mem_cons] at hx
      rcases hx with rfl | hx
      · simp [hop, hk]
      · exact h x (mem_remove.mp hx).1
    · have hnew : ∀ x ∈ ({ key := k, val := v, created := now, stored := now, used := s.tick } : Entry κ ν) :: s.entries,
          x.val = f x.key := by
        intro x hx
        simp only [List.mem_cons] at hx
        rcases hx with rfl | hx
        · exact hop
        · exact h x hx
      split
      · intro x hx; exact hnew x (mem_dropLast hx)
      · exact hnew
  | delete k =>
    refine ⟨?_, by intro _ _ h'; cases h'⟩
    simp only [step, Lru.delete]
    split
    · intro x hx; exact h x (mem_remove.mp hx).1
    · exact h
  | clear => exact ⟨by intro x hx; simp [step, Lru.clear] at hx, by intro _ _ h'; cases h'⟩
  | cleanup =>
    refine ⟨?_, by intro _ _ h'; cases h'⟩
    obtain ⟨removed, hr, _⟩ := cleanup_spec s now
    intro x hx
    apply h x
    simp only [step] at hx
    rw [hr]; exact List.mem_append_left _ hx
  | size => exact ⟨h, by intro _ _ h'; cases h'⟩
  | stats => exact ⟨h, by intro _ _ h'; cases h'⟩
  | keys => exact ⟨h, by intro _ _ h'; cases h'⟩

/-- In a sequential run whose puts agree with `f`, every hit returns `f` of its key. -/
theorem run_gets_agree (f : κ → ν) {s : State κ ν} (h : ValOK f s) (hist : List (Int × Op κ ν))
    (hp : ∀ x ∈ hist, PutsAgree f x.2) :
    ∀ x ∈ (hist.zip (Lru.run s hist).2), ∀ k v, x.1.2 = .get k → x.2 = .val (some v) → v = f k := by
  induction hist generalizing s with
  | nil => intro x hx; simp at hx
  | cons a as ih =>
    obtain ⟨now, op⟩ := a
    have hs := step_valok f h now op (hp (now, op) (List.mem_cons_self ..))
    intro x hx k v hk hv
    simp only [Lru.run, List.zip_cons_cons, List.mem_cons] at hx
    rcases hx with rfl | hx
    · exact hs.2 k v hk hv
    · exact ih hs.1 (fun y hy => hp y (List.mem_cons_of_mem _ hy)) x hx k v hk hv

end Wtf.ConcLru
