import WtfModel.Model.Metrics

/-!
  Helper lemmas for C18 (core Lean only; `Rat` lives in core).
  A. sorting   B. series keys   C. registries   D. counters   (histograms, monitor and interleavings
  are in `MetricsHist.lean`, `MetricsMonitor.lean`).
-/
namespace Wtf.Metrics

/-! ## A. the byte order and insertion sort -/

theorem bytesLe_total : ∀ a b : Bytes, bytesLe a b = true ∨ bytesLe b a = true
  | [], _ => by simp [bytesLe]
  | _ :: _, [] => by simp [bytesLe]
  | a :: as, b :: bs => by
    have ih := bytesLe_total as bs
    simp only [bytesLe]
    by_cases h1 : a.toNat < b.toNat
    · simp [h1]
    · by_cases h2 : b.toNat < a.toNat
      · simp [h2]
      · simp [h1, h2, ih]

theorem bytesLe_antisymm : ∀ a b : Bytes, bytesLe a b = true → bytesLe b a = true → a = b
  | [], [] => by simp
  | [], _ :: _ => by simp [bytesLe]
  | _ :: _, [] => by simp [bytesLe]
  | a :: as, b :: bs => by
    simp only [bytesLe]
    intro h1 h2
    by_cases l1 : a.toNat < b.toNat
    · have : ¬ b.toNat < a.toNat := by omega
      simp [l1, this] at h2
    · by_cases l2 : b.toNat < a.toNat
      · simp [l1, l2] at h1
      · simp only [l1, l2, ↓reduceIte] at h1 h2
        have hab : a = b := UInt8.toNat_inj.mp (by omega)
        rw [hab, bytesLe_antisymm as bs h1 h2]

theorem bytesLe_trans : ∀ a b c : Bytes, bytesLe a b = true → bytesLe b c = true → bytesLe a c = true
  | [], _, _ => by simp [bytesLe]
  | _ :: _, [], _ => by simp [bytesLe]
  | _ :: _, _ :: _, [] => by simp [bytesLe]
  | a :: as, b :: bs, c :: cs => by
    simp only [bytesLe]
    intro h1 h2
    by_cases l1 : a.toNat < b.toNat
    · by_cases l2 : b.toNat < c.toNat
      · have : a.toNat < c.toNat := by omega
        simp [this]
      · by_cases l3 : c.toNat < b.toNat
        · simp [l2, l3] at h2
        · have : a.toNat < c.toNat := by omega
          simp [this]
    · by_cases l1' : b.toNat < a.toNat
      · simp [l1, l1'] at h1
      · simp only [l1, l1', ↓reduceIte] at h1
        by_cases l2 : b.toNat < c.toNat
        · have : a.toNat < c.toNat := by omega
          simp [this]
        · by_cases l3 : c.toNat < b.toNat
          · simp [l2, l3] at h2
          · simp only [l2, l3, ↓reduceIte] at h2
            have e1 : ¬ a.toNat < c.toNat := by omega
            have e2 : ¬ c.toNat < a.toNat := by omega
            simp only [e1, e2, ↓reduceIte]
            exact bytesLe_trans as bs cs h1 h2

section SortSec
variable {α : Type} (le : α → α → Bool)

theorem insertBy_perm (x : α) : ∀ l : List α, (insertBy le x l).Perm (x :: l)
  | [] => List.Perm.refl _
  | y :: ys => by
    simp only [insertBy]
    split
    · exact List.Perm.refl _
    · exact ((insertBy_perm x ys).cons y).trans (List.Perm.swap x y ys)

theorem sortBy_perm : ∀ l : List α, (sortBy le l).Perm l
  | [] => List.Perm.refl _
  | x :: xs => (insertBy_perm le x (sortBy le xs)).trans ((sortBy_perm xs).cons x)

theorem insertBy_sorted (htot : ∀ a b, le a b = true ∨ le b a = true)
    (htr : ∀ a b c, le a b = true → le b c = true → le a c = true) (x : α) :
    ∀ l : List α, l.Pairwise (fun a b => le a b = true) → (insertBy le x l).Pairwise (fun a b => le a b = true)
  | [], _ => by simp [insertBy]
  | y :: ys, h => by
    simp only [insertBy]
    have hy := List.pairwise_cons.mp h
    split
    · rename_i hxy
      refine List.pairwise_cons.mpr ⟨?_, h⟩
      intro z hz
      rcases List.mem_cons.mp hz with rfl | hz
      · exact hxy
      · exact htr _ _ _ hxy (hy.1 z hz)
    · rename_i hxy
      have hyx : le y x = true := by
        rcases htot x y with h' | h'
        · exact absurd h' hxy
        · exact h'
      refine List.pairwise_cons.mpr ⟨?_, insertBy_sorted htot htr x ys hy.2⟩
      intro z hz
      have := (insertBy_perm le x ys).subset hz
      rcases List.mem_cons.mp this with rfl | hz'
      · exact hyx
      · exact hy.1 z hz'

theorem sortBy_sorted (htot : ∀ a b, le a b = true ∨ le b a = true)
    (htr : ∀ a b c, le a b = true → le b c = true → le a c = true) :
    ∀ l : List α, (sortBy le l).Pairwise (fun a b => le a b = true)
  | [] => List.Pairwise.nil
  | x :: xs => insertBy_sorted le htot htr x _ (sortBy_sorted htot htr xs)

/-- sorting two arrangements of the same elements gives the same list -/
theorem sortBy_perm_eq (htot : ∀ a b, le a b = true ∨ le b a = true)
    (htr : ∀ a b c, le a b = true → le b c = true → le a c = true)
    (has : ∀ a b, le a b = true → le b a = true → a = b)
    {l₁ l₂ : List α} (h : l₁.Perm l₂) : sortBy le l₁ = sortBy le l₂ :=
  List.Perm.eq_of_pairwise (le := fun a b => le a b = true) (fun a b _ _ => has a b)
    (sortBy_sorted le htot htr l₁) (sortBy_sorted le htot htr l₂)
    ((sortBy_perm le l₁).trans (h.trans (sortBy_perm le l₂).symm))

end SortSec

theorem sortKeys_perm_eq {σ₁ σ₂ : List Bytes} (h : σ₁.Perm σ₂) : sortKeys σ₁ = sortKeys σ₂ :=
  sortBy_perm_eq bytesLe bytesLe_total bytesLe_trans bytesLe_antisymm h

/-! ## B. series keys -/

theorem render_congr (sp : Seps) {t₁ t₂ : Tags} (h : ∀ k, tagValue t₁ k = tagValue t₂ k) (order : List Bytes) :
    ∀ name, render sp name t₁ order = render sp name t₂ order := by
  induction order with
  | nil => intro name; rfl
  | cons k ks ih => intro name; simp only [render, List.foldl_cons, h k]; exact ih _

theorem tagValue_of_not_mem : ∀ (tags : Tags) (k : Bytes), k ∉ tagNames tags → tagValue tags k = []
  | [], _, _ => rfl
  | (k', v) :: rest, k, h => by
    simp only [tagNames, List.map_cons, List.mem_cons, not_or] at h
    have : ¬ k' = k := fun e => h.1 e.symm
    simp only [tagValue, this, ↓reduceIte]
    exact tagValue_of_not_mem rest k h.2

/-- the value found under a name does not depend on the arrangement of a duplicate-free tag list -/
theorem tagValue_perm {t₁ t₂ : Tags} (h : t₁.Perm t₂) (hn : (tagNames t₁).Nodup) (k : Bytes) :
    tagValue t₁ k = tagValue t₂ k := by
  induction h with
  | nil => rfl
  | cons x _ ih =>
    obtain ⟨k', v⟩ := x
    simp only [tagNames, List.map_cons, List.nodup_cons] at hn
    simp only [tagValue]
    split
    · rfl
    · exact ih hn.2
  | swap x y l =>
    obtain ⟨kx, vx⟩ := x
    obtain ⟨ky, vy⟩ := y
    simp only [tagNames, List.map_cons, List.nodup_cons, List.mem_cons, not_or] at hn
    simp only [tagValue]
    by_cases h1 : ky = k
    · by_cases h2 : kx = k
      · exact absurd (h1.trans h2.symm) hn.1.1
      · simp [h1, h2]
    · simp [h1]
  | trans p _ ih1 ih2 =>
    have hn2 : (tagNames _).Nodup := (List.Perm.nodup_iff (p.map Prod.fst)).mp hn
    exact (ih1 hn).trans (ih2 hn2)

theorem metricKey_sorted_indep (sp : Seps) (name : Bytes) (tags : Tags) {σ₁ σ₂ : List Bytes}
    (h : σ₁.Perm σ₂) : metricKey true sp name tags σ₁ = metricKey true sp name tags σ₂ := by
  simp only [metricKey, ↓reduceIte, sortKeys_perm_eq h]

theorem metricKey_perm (sp : Seps) (name : Bytes) {t₁ t₂ : Tags} (ht : t₁.Perm t₂)
    (hn : (tagNames t₁).Nodup) {σ₁ σ₂ : List Bytes} (h₁ : ValidSched t₁ σ₁) (h₂ : ValidSched t₂ σ₂) :
    metricKey true sp name t₁ σ₁ = metricKey true sp name t₂ σ₂ := by
  have hm : (tagNames t₁).Perm (tagNames t₂) := ht.map Prod.fst
  have hσ : σ₁.Perm σ₂ := h₁.trans (hm.trans h₂.symm)
  simp only [metricKey, ↓reduceIte, sortKeys_perm_eq hσ, ht.isEmpty_eq]
  split
  · rfl
  · exact render_congr sp (tagValue_perm ht hn) _ _

theorem render_ne_nil (sp : Seps) (tags : Tags) : ∀ (order : List Bytes) (name : Bytes), name ≠ [] →
    (render sp name tags order).head? = name.head? := by
  intro order
  induction order with
  | nil => intro name _; rfl
  | cons k ks ih =>
    intro name hne
    simp only [render, List.foldl_cons]
    have h1 : name ++ sp.tag ++ k ++ sp.kv ++ tagValue tags k ≠ [] := by
      cases name with
      | nil => exact absurd rfl hne
      | cons a as => simp
    have := ih (name ++ sp.tag ++ k ++ sp.kv ++ tagValue tags k) h1
    simp only [render] at this
    rw [this]
    cases name with
    | nil => exact absurd rfl hne
    | cons a as => simp

/-- a key starts with the first byte of the metric name -/
theorem metricKey_head (sorts : Bool) (sp : Seps) (name : Bytes) (tags : Tags) (σ : List Bytes) (hne : name ≠ []) :
    (metricKey sorts sp name tags σ).head? = name.head? := by
  simp only [metricKey]
  split
  · rfl
  · split <;> exact render_ne_nil sp tags _ name hne

/-! ## C. registries -/

section Registry
variable {β : Type}

def keysOf (r : Registry β) : List Bytes := r.map (·.key)

/-- value filed under `key`, or `fresh` when there is none -/
def valD (r : Registry β) (key : Bytes) (fresh : β) : β := (valueOf? r key).getD fresh

theorem getOrCreate_fst_snd (r : Registry β) (key name : Bytes) (tags : Tags) (fresh : β) :
    ∃ s, (getOrCreate r key name tags fresh).1[(getOrCreate r key name tags fresh).2]? = some s ∧ s.key = key := by
  induction r with
  | nil => exact ⟨⟨key, name, tags, fresh⟩, by simp [getOrCreate]⟩
  | cons s rest ih =>
    simp only [getOrCreate]
    split
    · exact ⟨s, by simp, by assumption⟩
    · obtain ⟨s', h1, h2⟩ := ih
      exact ⟨s', by simpa using h1, h2⟩

/-- asking again for the key just obtained returns the same position and creates nothing -/
theorem getOrCreate_again (r : Registry β) (key name name' : Bytes) (tags tags' : Tags) (fresh fresh' : β) :
    getOrCreate (getOrCreate r key name tags fresh).1 key name' tags' fresh' = getOrCreate r key name tags fresh := by
  induction r with
  | nil => simp [getOrCreate]
  | cons s rest ih =>
    simp only [getOrCreate]
    split
    · rename_i h; simp [getOrCreate, h]
    · rename_i h
      simp only [getOrCreate, h, ↓reduceIte]
      rw [ih]

theorem getOrCreate_keys (r : Registry β) (key name : Bytes) (tags : Tags) (fresh : β) :
    keysOf (getOrCreate r key name tags fresh).1 = if key ∈ keysOf r then keysOf r else keysOf r ++ [key] := by
  induction r with
  | nil => simp [getOrCreate, keysOf]
  | cons s rest ih =>
    simp only [getOrCreate]
    by_cases h : s.key = key
    · simp [h, keysOf]
    · have h' : ¬ key = s.key := fun e => h e.symm
      simp only [h, ↓reduceIte]
      simp only [keysOf, List.map_cons, List.mem_cons, h', false_or] at ih ⊢
      rw [ih]
      by_cases hm : key ∈ List.map (fun x => x.key) rest
      · simp only [hm, ↓reduceIte]
      · simp only [hm, ↓reduceIte, List.cons_append]

theorem getOrCreate_nodup (r : Registry β) (key name : Bytes) (tags : Tags) (fresh : β)
    (h : (keysOf r).Nodup) : (keysOf (getOrCreate r key name tags fresh).1).Nodup := by
  rw [getOrCreate_keys]
  split
  · exact h
  · rename_i hk
    exact List.nodup_append.mpr ⟨h, by simp, by
      intro a ha b hb
      simp only [List.mem_singleton] at hb
      subst hb
      intro e; exact hk (e ▸ ha)⟩

theorem modifyAt_keys (r : Registry β) (i : Nat) (f : β → β) : keysOf (modifyAt r i f) = keysOf r := by
  induction r generalizing i with
  | nil => rfl
  | cons s rest ih =>
    cases i with
    | zero => simp [modifyAt, keysOf]
    | succ j =>
      simp only [modifyAt, keysOf, List.map_cons] at ih ⊢
      rw [ih]

theorem touch_keys (r : Registry β) (key name : Bytes) (tags : Tags) (fresh : β) (f : β → β) :
    keysOf (touch r key name tags fresh f) = if key ∈ keysOf r then keysOf r else keysOf r ++ [key] := by
  simp only [touch, modifyAt_keys, getOrCreate_keys]

theorem touch_nodup (r : Registry β) (key name : Bytes) (tags : Tags) (fresh : β) (f : β → β)
    (h : (keysOf r).Nodup) : (keysOf (touch r key name tags fresh f)).Nodup := by
  simp only [touch, modifyAt_keys]
  exact getOrCreate_nodup r key name tags fresh h

/-- effect of one recorded event on what is filed under any key -/
theorem valD_touch (r : Registry β) (key name : Bytes) (tags : Tags) (fresh : β) (f : β → β) (K : Bytes) :
    valD (touch r key name tags fresh f) K fresh = if K = key then f (valD r K fresh) else valD r K fresh := by
  induction r with
  | nil =>
    simp only [touch, getOrCreate, modifyAt, valD, valueOf?]
    by_cases h : key = K
    · simp [h]
    · have : ¬ K = key := fun e => h e.symm
      simp [h, this]
  | cons s rest ih =>
    simp only [touch, getOrCreate] at ih ⊢
    by_cases hs : s.key = key
    · simp only [hs, ↓reduceIte, modifyAt, valD, valueOf?]
      by_cases hK : K = key
      · simp [hK]
      · have : ¬ key = K := fun e => hK e.symm
        simp [hK, this]
    · simp only [hs, ↓reduceIte, modifyAt, valD, valueOf?]
      by_cases hK : s.key = K
      · have : ¬ K = key := fun e => hs (hK.trans e)
        simp [hK, this]
      · simp only [hK, ↓reduceIte]
        simpa [valD] using ih

/-- a recorded event: the key it is filed under, the identity given by the caller, what it does -/
structure Ev (β : Type) where
  key : Bytes
  name : Bytes
  tags : Tags
  f : β → β

def applyEvs (fresh : β) (r : Registry β) (es : List (Ev β)) : Registry β :=
  es.foldl (fun r e => touch r e.key e.name e.tags fresh e.f) r

theorem applyEvs_append (fresh : β) (r : Registry β) (es₁ es₂ : List (Ev β)) :
    applyEvs fresh r (es₁ ++ es₂) = applyEvs fresh (applyEvs fresh r es₁) es₂ := by
  simp [applyEvs, List.foldl_append]

/-- **Every event lands in the series of its key**: after any sequence of events, what is filed under
    `K` is the result of applying, in order, exactly the events whose key is `K`. -/
theorem valD_applyEvs (fresh : β) (es : List (Ev β)) (K : Bytes) : ∀ r : Registry β,
    valD (applyEvs fresh r es) K fresh =
      (es.filter (fun e => decide (e.key = K))).foldl (fun v e => e.f v) (valD r K fresh) := by
  induction es with
  | nil => intro r; rfl
  | cons e es ih =>
    intro r
    simp only [applyEvs, List.foldl_cons] at ih ⊢
    rw [ih, valD_touch]
    by_cases h : e.key = K
    · have : K = e.key := h.symm
      simp [h]
    · have : ¬ K = e.key := fun e' => h e'.symm
      simp [h, this]

theorem applyEvs_nodup (fresh : β) (es : List (Ev β)) : ∀ r : Registry β, (keysOf r).Nodup →
    (keysOf (applyEvs fresh r es)).Nodup := by
  induction es with
  | nil => intro r h; exact h
  | cons e es ih =>
    intro r h
    simp only [applyEvs, List.foldl_cons] at ih ⊢
    exact ih _ (touch_nodup r e.key e.name e.tags fresh e.f h)

/-- no series exists under a key nobody asked for -/
theorem applyEvs_keys_sub (fresh : β) (es : List (Ev β)) : ∀ (r : Registry β) (k : Bytes),
    k ∈ keysOf (applyEvs fresh r es) → k ∈ keysOf r ∨ k ∈ es.map (·.key) := by
  induction es with
  | nil => intro r k h; exact Or.inl h
  | cons e es ih =>
    intro r k h
    simp only [applyEvs, List.foldl_cons] at ih h
    rcases ih _ k h with h' | h'
    · rw [touch_keys] at h'
      split at h'
      · exact Or.inl h'
      · rcases List.mem_append.mp h' with h'' | h''
        · exact Or.inl h''
        · simp only [List.mem_singleton] at h''
          exact Or.inr (by simp [h''])
    · exact Or.inr (by simp [h'])

end Registry

/-! ## D. counters -/

theorem wrap64_add_wrap64 (a b : Int) : wrap64 (wrap64 a + b) = wrap64 (a + b) := by
  simp only [wrap64]; exact Int.bmod_add_bmod

theorem wrap64_idem (a : Int) : wrap64 (wrap64 a) = wrap64 a := by
  simp [wrap64]

theorem wrap64_of_range {x : Int} (h1 : -(2 ^ 63) ≤ x) (h2 : x < 2 ^ 63) : wrap64 x = x := by
  unfold wrap64
  apply Int.bmod_eq_of_le <;> omega

/-- the unbounded tally the property speaks about: +1 per `inc`, +n per `add n`, back to 0 at `reset` -/
def tally (v : Int) : List CounterOp → Int
  | [] => v
  | .inc :: rest => tally (v + 1) rest
  | .add n :: rest => tally (v + n) rest
  | .reset :: rest => tally 0 rest

theorem tally_congr : ∀ (ops : List CounterOp) (a b : Int), wrap64 a = wrap64 b →
    wrap64 (tally a ops) = wrap64 (tally b ops)
  | [], _, _, h => h
  | .inc :: rest, a, b, h => tally_congr rest _ _ (by rw [← wrap64_add_wrap64 a, ← wrap64_add_wrap64 b, h])
  | .add n :: rest, a, b, h => tally_congr rest _ _ (by rw [← wrap64_add_wrap64 a, ← wrap64_add_wrap64 b, h])
  | .reset :: rest, _, _, _ => rfl

theorem counterRun_eq : ∀ (ops : List CounterOp) (v : Int), wrap64 v = v →
    counterRun v ops = wrap64 (tally v ops)
  | [], v, h => h.symm
  | .inc :: rest, v, _ => by
    simp only [counterRun, List.foldl_cons, counterStep, tally]
    have := counterRun_eq rest (wrap64 (v + 1)) (wrap64_idem _)
    simp only [counterRun] at this
    rw [this]
    exact tally_congr rest _ _ (wrap64_idem _)
  | .add n :: rest, v, _ => by
    simp only [counterRun, List.foldl_cons, counterStep, tally]
    have := counterRun_eq rest (wrap64 (v + n)) (wrap64_idem _)
    simp only [counterRun] at this
    rw [this]
    exact tally_congr rest _ _ (wrap64_idem _)
  | .reset :: rest, v, _ => by
    simp only [counterRun, List.foldl_cons, counterStep, tally]
    have := counterRun_eq rest 0 (by decide)
    simpa [counterRun] using this

/-- the operations after the last `reset` -/
def sinceReset : List CounterOp → List CounterOp
  | [] => []
  | op :: rest => if rest.contains .reset then sinceReset rest else
      (if op = .reset then rest else op :: rest)

def incs (ops : List CounterOp) : Nat := (ops.filter (· = .inc)).length
def adds : List CounterOp → Int
  | [] => 0
  | .add n :: rest => n + adds rest
  | _ :: rest => adds rest

theorem tally_no_reset : ∀ (ops : List CounterOp) (v : Int), ops.contains .reset = false →
    tally v ops = v + incs ops + adds ops
  | [], v, _ => by simp [tally, incs, adds]
  | .inc :: rest, v, h => by
    have h' : rest.contains .reset = false := by simpa using h
    simp only [tally, tally_no_reset rest _ h', incs, adds]
    simp only [List.filter_cons_of_pos, decide_true, List.length_cons]
    omega
  | .add n :: rest, v, h => by
    have h' : rest.contains .reset = false := by simpa using h
    simp only [tally, tally_no_reset rest _ h', incs, adds]
    have : (CounterOp.add n = CounterOp.inc) = False := by simp
    simp only [this, decide_false, Bool.false_eq_true, not_false_eq_true, List.filter_cons_of_neg]
    omega
  | .reset :: rest, v, h => by simp at h

theorem tally_sinceReset : ∀ (ops : List CounterOp) (v : Int), ops.contains .reset = true →
    tally v ops = (incs (sinceReset ops) : Int) + adds (sinceReset ops)
  | [], _, h => by simp at h
  | op :: rest, v, h => by
    by_cases hr : rest.contains .reset = true
    · have ih := fun w => tally_sinceReset rest w hr
      simp only [sinceReset, hr, ↓reduceIte]
      cases op <;> simp only [tally, ih]
    · have hr' : rest.contains .reset = false := by simpa using hr
      have hop : op = .reset := by
        simp only [List.contains_cons, Bool.or_eq_true, beq_iff_eq] at h
        rcases h with h | h
        · exact h.symm
        · exact absurd h hr
      subst hop
      simp only [sinceReset, hr', Bool.false_eq_true, ↓reduceIte, tally, tally_no_reset rest 0 hr']
      omega

end Wtf.Metrics
