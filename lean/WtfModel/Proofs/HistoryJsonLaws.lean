/-
  C16: the executable JSON codec of the history file (`Model/HistoryJson.lean`, the codec the driver runs
  against encoding/json on every check) SATISFIES the laws the save / load theorems need
  (`Codec.LawsOn`), for valid UTF-8 strings, calendar instants of the years 1 .. 9999 and integers in
  Go's `int` range.  Nothing is assumed: the string part is `Proofs/HistoryJsonStr.lean`, the digit and
  RFC 3339 part `Proofs/HistoryJsonTime.lean`, the parser part `Proofs/HistoryJsonParse.lean`.
  Core Lean only.
-/
import WtfModel.Proofs.History
import WtfModel.Proofs.HistoryJsonStr
import WtfModel.Proofs.HistoryJsonTime
import WtfModel.Proofs.HistoryJsonParse
namespace Wtf.History.Json
open Wtf.History

/-- Go's `int` on the platforms the tool is built for (64 bit) -/
def Int64 (i : Int) : Prop := -9223372036854775808 ≤ i ∧ i ≤ 9223372036854775807

theorem key_ok_query : unquote (quote kQuery) = kQuery := by decide
theorem key_ok_timestamp : unquote (quote kTimestamp) = kTimestamp := by decide
theorem key_ok_results : unquote (quote kResults) = kResults := by decide
theorem key_ok_context : unquote (quote kContext) = kContext := by decide
theorem key_ok_duration : unquote (quote kDuration) = kDuration := by decide
theorem key_ok_entries : unquote (quote kEntries) = kEntries := by decide
theorem key_ok_maxSize : unquote (quote kMaxSize) = kMaxSize := by decide

/-- what `Save` writes for one entry is a document the parser reads back -/
theorem wfj_encEntry (e : Entry) (hr : Int64 e.results) (hd : Int64 e.duration) : WFJ (encEntry goCodec e) := by
  unfold encEntry
  refine WFJ.obj _ ?_ ?_
  · intro kv hkv
    simp only [List.mem_append, List.mem_cons, List.not_mem_nil, or_false] at hkv
    rcases hkv with ((h | h | h) | h) | h
    · subst h; exact key_ok_query
    · subst h; exact key_ok_timestamp
    · subst h; exact key_ok_results
    · split at h
      · simp at h
      · simp only [List.mem_cons, List.not_mem_nil, or_false] at h; subst h; exact key_ok_context
    · split at h
      · simp at h
      · simp only [List.mem_cons, List.not_mem_nil, or_false] at h; subst h; exact key_ok_duration
  · intro kv hkv
    simp only [List.mem_append, List.mem_cons, List.not_mem_nil, or_false] at hkv
    rcases hkv with ((h | h | h) | h) | h
    · subst h; exact WFJ.str _ (litOK_quote _)
    · subst h; exact WFJ.str _ (litOK_fmtTime _)
    · subst h; exact WFJ.int _ hr.1 hr.2
    · split at h
      · simp at h
      · simp only [List.mem_cons, List.not_mem_nil, or_false] at h; subst h; exact WFJ.str _ (litOK_quote _)
    · split at h
      · simp at h
      · simp only [List.mem_cons, List.not_mem_nil, or_false] at h; subst h; exact WFJ.int _ hd.1 hd.2

theorem wfj_encode (s : State) (hm : Int64 s.maxSize) (he : ∀ e ∈ s.entries, Int64 e.results ∧ Int64 e.duration) :
    WFJ (encode goCodec s) := by
  unfold encode
  refine WFJ.obj _ ?_ ?_
  · intro kv hkv
    simp only [List.mem_cons, List.not_mem_nil, or_false] at hkv
    rcases hkv with h | h
    · subst h; exact key_ok_entries
    · subst h; exact key_ok_maxSize
  · intro kv hkv
    simp only [List.mem_cons, List.not_mem_nil, or_false] at hkv
    rcases hkv with h | h
    · subst h
      refine WFJ.arr _ ?_
      intro x hx
      obtain ⟨e, hem, rfl⟩ := List.mem_map.mp hx
      exact wfj_encEntry e (he e hem).1 (he e hem).2
    · subst h; exact WFJ.int _ hm.1 hm.2

theorem print_ne_nil (v : JVal) : print v ≠ [] := by
  cases v with
  | null => simp [print]
  | bool b => cases b <;> simp [print]
  | int i =>
    simp only [print, intLit]
    split
    · simp
    · exact digitFacts.nonempty _
  | badnum => simp [print]
  | str raw => simp [print]
  | arr xs => simp [print]
  | obj kvs => simp [print]

theorem go_parse_print (s : State) (hm : Int64 s.maxSize)
    (he : ∀ e ∈ s.entries, Int64 e.results ∧ Int64 e.duration) :
    parse (print (encode goCodec s)) = some (encode goCodec s) :=
  parse_print_wf digitFacts _ (wfj_encode s hm he)

theorem go_print_nonempty (s : State) : (print (encode goCodec s)).isEmpty = false := by
  have h := print_ne_nil (encode goCodec s)
  cases hp : print (encode goCodec s) with
  | nil => exact absurd hp h
  | cons a r => rfl



theorem go_parse_eq : goCodec.parse = parse := rfl
theorem go_print_eq : goCodec.print = print := rfl
theorem go_isEmpty_eq : goCodec.isEmpty = List.isEmpty := rfl
theorem go_unquote_eq : goCodec.unquote = unquote := rfl
theorem go_quote_eq : goCodec.quote = quote := rfl
theorem go_parseTime_eq : goCodec.parseTime = parseTime := rfl
theorem go_fmtTime_eq : goCodec.fmtTime = fmtTime := rfl

/-- **The laws hold for the executable codec.** -/
theorem goCodec_lawsOn : Codec.LawsOn goCodec (fun b => validUtf8 b = true) OkTime Int64 :=
  { parse_print := fun s hm he => by
      rw [go_parse_eq, go_print_eq]; exact go_parse_print s hm (fun e h => (he e h).2.2.2)
    print_nonempty := fun s => by rw [go_isEmpty_eq, go_print_eq]; exact go_print_nonempty s
    unquote_quote := fun b hb => by rw [go_unquote_eq, go_quote_eq]; exact unquote_quote_of_valid b hb
    parseTime_fmtTime := fun t ht => by rw [go_parseTime_eq, go_fmtTime_eq]; exact parseTime_fmtTime_ok t ht }

end Wtf.History.Json
