import Mathlib.Algebra.Order.Field.Basic
import Mathlib.Tactic.Linarith
import Mathlib.Tactic.Positivity
import Mathlib.Tactic.Ring
import WtfModel.Model.Embedding
import WtfModel.Proofs.EScoreField

/-!
  Helper lemmas for C19 about `cosine` and `semanticStage`.
  * law-parametric lemmas over a bare `EScoreOps` (symmetry needs only commutativity of `mul`);
  * order lemmas over any linearly ordered field (`fieldOps`), Cauchy–Schwarz by induction on the
    accumulation loop itself (no reassociation of the sums).
-/
set_option linter.unusedSectionVars false

namespace Wtf.Embedding
open Wtf

/-! ### symmetry (any arithmetic with a commutative product) -/

section Symm
variable {S : Type} [EScoreOps S]
open EScoreOps

theorem cosAcc_swap (hmul : ∀ x y : S, mul x y = mul y x) :
    ∀ (a b : List S) (d na nb : S),
      cosAcc b a (d, nb, na) = ((cosAcc a b (d, na, nb)).1, (cosAcc a b (d, na, nb)).2.2, (cosAcc a b (d, na, nb)).2.1)
  | [], [], _, _, _ => by simp [cosAcc]
  | [], _ :: _, _, _, _ => by simp [cosAcc]
  | _ :: _, [], _, _, _ => by simp [cosAcc]
  | x :: as, y :: bs, d, na, nb => by
    simp only [cosAcc]
    rw [hmul y x]
    exact cosAcc_swap hmul as bs _ _ _

theorem cosine_symm (hmul : ∀ x y : S, mul x y = mul y x) (a b : List S) : cosine a b = cosine b a := by
  unfold cosine
  by_cases hl : a.length = b.length
  · have h := cosAcc_swap hmul a b zero zero zero
    simp only [h, hl, hmul (sqrt (cosAcc a b (zero, zero, zero)).2.2), Bool.or_comm (eq (cosAcc a b (zero, zero, zero)).2.2 zero)]
  · have hl' : ¬ b.length = a.length := fun h => hl h.symm
    simp [hl, hl']

end Symm

/-! ### order facts over a linearly ordered field -/

section Field
variable {S : Type} [Field S] [LinearOrder S] [IsStrictOrderedRing S] [HasSqrt S]

/-- invariant of the accumulation loop: Cauchy–Schwarz for the prefix read so far -/
def CS (acc : S × S × S) : Prop := 0 ≤ acc.2.1 ∧ 0 ≤ acc.2.2 ∧ acc.1 * acc.1 ≤ acc.2.1 * acc.2.2

theorem CS_step {d na nb : S} (h : CS (d, na, nb)) (a b : S) :
    CS (d + a * b, na + a * a, nb + b * b) := by
  obtain ⟨h1, h2, h3⟩ := h
  simp only [CS] at *
  refine ⟨add_nonneg h1 (mul_self_nonneg a), add_nonneg h2 (mul_self_nonneg b), ?_⟩
  -- 2·d·a·b ≤ na·b² + nb·a²  because (na·b² + nb·a²)² − (2dab)² ≥ (na·b² − nb·a²)² ≥ 0
  have hR : 0 ≤ na * (b * b) + nb * (a * a) :=
    add_nonneg (mul_nonneg h1 (mul_self_nonneg b)) (mul_nonneg h2 (mul_self_nonneg a))
  have key : 2 * (d * (a * b)) ≤ na * (b * b) + nb * (a * a) := by
    by_contra hc
    push Not at hc
    have hpos : 0 < 2 * (d * (a * b)) := lt_of_le_of_lt hR hc
    have h4 : (na * (b * b) + nb * (a * a)) * (na * (b * b) + nb * (a * a)) <
        (2 * (d * (a * b))) * (2 * (d * (a * b))) := by
      calc (na * (b * b) + nb * (a * a)) * (na * (b * b) + nb * (a * a))
          ≤ (na * (b * b) + nb * (a * a)) * (2 * (d * (a * b))) := by
            apply mul_le_mul_of_nonneg_left (le_of_lt hc) hR
        _ < (2 * (d * (a * b))) * (2 * (d * (a * b))) := by
            apply mul_lt_mul_of_pos_right hc hpos
    have h5 : (2 * (d * (a * b))) * (2 * (d * (a * b))) ≤ 4 * (na * nb) * ((a * a) * (b * b)) := by
      have : (2 * (d * (a * b))) * (2 * (d * (a * b))) = 4 * (d * d) * ((a * a) * (b * b)) := by ring
      rw [this]
      have hab : 0 ≤ (a * a) * (b * b) := mul_nonneg (mul_self_nonneg a) (mul_self_nonneg b)
      have : d * d * ((a * a) * (b * b)) ≤ na * nb * ((a * a) * (b * b)) := mul_le_mul_of_nonneg_right h3 hab
      linarith
    have h6 : 0 ≤ (na * (b * b) - nb * (a * a)) * (na * (b * b) - nb * (a * a)) := mul_self_nonneg _
    have h7 : (na * (b * b) + nb * (a * a)) * (na * (b * b) + nb * (a * a)) =
        (na * (b * b) - nb * (a * a)) * (na * (b * b) - nb * (a * a)) + 4 * (na * nb) * ((a * a) * (b * b)) := by ring
    linarith
  have e1 : (d + a * b) * (d + a * b) = d * d + 2 * (d * (a * b)) + (a * a) * (b * b) := by ring
  have e2 : (na + a * a) * (nb + b * b) = na * nb + (na * (b * b) + nb * (a * a)) + (a * a) * (b * b) := by ring
  rw [e1, e2]
  linarith

theorem cosAcc_CS : ∀ (a b : List S) (acc : S × S × S), CS acc → CS (cosAcc a b acc)
  | [], _, _, h => by simpa [cosAcc] using h
  | _ :: _, [], _, h => by simpa [cosAcc] using h
  | x :: as, y :: bs, (d, na, nb), h => by
    simp only [cosAcc, ops_add, ops_mul]
    exact cosAcc_CS as bs _ (CS_step h x y)

theorem CS_zero : CS ((0 : S), (0 : S), (0 : S)) := by simp [CS]

/-- the quotient lies in [-1, 1] -/
theorem quotient_range [SqrtLaws S] {d na nb : S} (h : CS (d, na, nb)) (ha : na ≠ 0) (hb : nb ≠ 0) :
    -1 ≤ d / (HasSqrt.sqrt na * HasSqrt.sqrt nb) ∧ d / (HasSqrt.sqrt na * HasSqrt.sqrt nb) ≤ 1 := by
  obtain ⟨h1, h2, h3⟩ := h
  simp only at h1 h2 h3
  have hna : 0 < na := lt_of_le_of_ne h1 (Ne.symm ha)
  have hnb : 0 < nb := lt_of_le_of_ne h2 (Ne.symm hb)
  set r := HasSqrt.sqrt na * HasSqrt.sqrt nb with hr
  have hr0 : 0 ≤ r := mul_nonneg (SqrtLaws.sqrt_nonneg na) (SqrtLaws.sqrt_nonneg nb)
  have hrr : r * r = na * nb := by
    rw [hr, mul_mul_mul_comm, SqrtLaws.sqrt_mul_self na h1, SqrtLaws.sqrt_mul_self nb h2]
  have hrpos : 0 < r := by
    rcases lt_or_eq_of_le hr0 with h | h
    · exact h
    · exfalso
      have : na * nb = 0 := by rw [← hrr, ← h]; ring
      have : 0 < na * nb := mul_pos hna hnb
      linarith
  have hdd : d * d ≤ r * r := by rw [hrr]; exact h3
  have habs : -r ≤ d ∧ d ≤ r := by
    constructor
    · by_contra hc
      push Not at hc
      have hnd : r < -d := by linarith
      have : r * r < (-d) * (-d) := by
        calc r * r ≤ r * (-d) := mul_le_mul_of_nonneg_left (le_of_lt hnd) hr0
          _ < (-d) * (-d) := mul_lt_mul_of_pos_right hnd (lt_trans hrpos hnd)
      have : (-d) * (-d) = d * d := by ring
      linarith
    · by_contra hc
      push Not at hc
      have : r * r < d * d := by
        calc r * r ≤ r * d := mul_le_mul_of_nonneg_left (le_of_lt hc) hr0
          _ < d * d := mul_lt_mul_of_pos_right hc (lt_trans hrpos hc)
      linarith
  constructor
  · rw [le_div_iff₀ hrpos]; linarith
  · rw [div_le_iff₀ hrpos]; linarith

/-- over a field the clamp and the NaN rule do nothing to a value already in range -/
theorem clampCos_id {c : S} (h1 : -1 ≤ c) (h2 : c ≤ 1) : clampCos c = c := by
  unfold clampCos negOne
  simp only [ops_isNaN, ops_lt, ops_zero, ops_one, ops_sub, zero_sub]
  have : ¬ (1 < c) := not_lt.mpr h2
  have : ¬ (c < -1) := not_lt.mpr h1
  simp [*]

theorem cosine_eq_raw [SqrtLaws S] (a b : List S) : cosine a b = cosineRaw a b := by
  unfold cosine cosineRaw
  split
  · rfl
  · dsimp only
    split
    · rfl
    · rename_i hz
      simp only [ops_eq, ops_zero, Bool.or_eq_true, decide_eq_true_eq, not_or] at hz
      have hcs := cosAcc_CS a b ((0 : S), (0 : S), (0 : S)) CS_zero
      have := quotient_range (S := S) (d := (cosAcc a b (0, 0, 0)).1) (na := (cosAcc a b (0, 0, 0)).2.1)
        (nb := (cosAcc a b (0, 0, 0)).2.2) hcs hz.1 hz.2
      exact clampCos_id this.1 this.2

theorem cosine_range [SqrtLaws S] (a b : List S) : -1 ≤ cosine a b ∧ cosine a b ≤ 1 := by
  unfold cosine
  split
  · simp
  · dsimp only
    split
    · simp
    · rename_i hz
      simp only [ops_eq, ops_zero, Bool.or_eq_true, decide_eq_true_eq, not_or] at hz
      have hcs := cosAcc_CS a b ((0 : S), (0 : S), (0 : S)) CS_zero
      have := quotient_range (S := S) (d := (cosAcc a b (0, 0, 0)).1) (na := (cosAcc a b (0, 0, 0)).2.1)
        (nb := (cosAcc a b (0, 0, 0)).2.2) hcs hz.1 hz.2
      rw [show (EScoreOps.zero : S) = 0 from rfl]
      simp only [ops_div, ops_mul, ops_sqrt]
      rw [clampCos_id this.1 this.2]
      exact this

/-! ### zero vectors -/

theorem cosAcc_zero_left : ∀ (a b : List S) (d na nb : S), (∀ x ∈ a, x = 0) →
    (cosAcc a b (d, na, nb)).2.1 = na
  | [], _, _, _, _, _ => by simp [cosAcc]
  | _ :: _, [], _, _, _, _ => by simp [cosAcc]
  | x :: as, y :: bs, d, na, nb, h => by
    simp only [cosAcc, ops_add, ops_mul]
    have hx : x = 0 := h x (by simp)
    rw [cosAcc_zero_left as bs _ _ _ (fun z hz => h z (by simp [hz]))]
    simp [hx]

theorem cosAcc_zero_right : ∀ (a b : List S) (d na nb : S), (∀ x ∈ b, x = 0) →
    (cosAcc a b (d, na, nb)).2.2 = nb
  | [], _, _, _, _, _ => by simp [cosAcc]
  | _ :: _, [], _, _, _, _ => by simp [cosAcc]
  | x :: as, y :: bs, d, na, nb, h => by
    simp only [cosAcc, ops_add, ops_mul]
    have hy : y = 0 := h y (by simp)
    rw [cosAcc_zero_right as bs _ _ _ (fun z hz => h z (by simp [hz]))]
    simp [hy]

theorem cosine_zero (a b : List S)
    (h : a = [] ∨ a.length ≠ b.length ∨ (∀ x ∈ a, x = 0) ∨ (∀ x ∈ b, x = 0)) : cosine a b = 0 := by
  unfold cosine
  split
  · rfl
  · rename_i hg
    simp only [bne_iff_ne, ne_eq, beq_iff_eq, Bool.or_eq_true, not_or, not_not] at hg
    rcases h with h | h | h | h
    · subst h; simp at hg
    · exact absurd hg.1 h
    · have := cosAcc_zero_left a b (0 : S) 0 0 h
      simp only [ops_zero, ops_eq, this, decide_true, Bool.true_or, ↓reduceIte]
    · have := cosAcc_zero_right a b (0 : S) 0 0 h
      simp only [ops_zero, ops_eq, this, decide_true, Bool.or_true, ↓reduceIte]

/-! ### semantic stage -/

theorem boostOne_spec (α floor : S) (hα : 0 ≤ α) (hfl : 0 ≤ floor) (sim : Nat → Option S)
    (hsim : ∀ id x, sim id = some x → x ≤ 1) (r : Nat × S) (hr : 0 ≤ r.2) :
    (boostOne α floor sim r).1 = r.1 ∧ r.2 ≤ (boostOne α floor sim r).2 ∧
      (boostOne α floor sim r).2 ≤ (1 + α) * r.2 ∧
      ((∀ x, sim r.1 = some x → x < floor) → boostOne α floor sim r = r) := by
  unfold boostOne
  have hmax : r.2 ≤ (1 + α) * r.2 := by nlinarith
  split
  · rename_i x hx
    have hx1 := hsim _ _ hx
    simp only [ops_ge, decide_eq_true_eq, ops_mul, ops_add, ops_one]
    split
    · rename_i hge
      have hx0 : 0 ≤ x := le_trans hfl hge
      have hax : 0 ≤ α * x := mul_nonneg hα hx0
      have hax1 : α * x ≤ α := by nlinarith
      refine ⟨rfl, by nlinarith, by nlinarith, ?_⟩
      intro hlt
      exact absurd (hlt x hx) (not_lt.mpr hge)
    · exact ⟨rfl, le_refl _, hmax, fun _ => rfl⟩
  · exact ⟨rfl, le_refl _, hmax, fun _ => rfl⟩

theorem keepsOrder_iff (x y : Nat × S) : keepsOrder x y = true ↔ y.2 ≤ x.2 := by
  simp [keepsOrder]

theorem keepsOrder_trans (a b c : Nat × S) (h1 : keepsOrder a b = true) (h2 : keepsOrder b c = true) :
    keepsOrder a c = true := by
  rw [keepsOrder_iff] at *
  exact le_trans h2 h1

theorem keepsOrder_total (a b : Nat × S) : (keepsOrder a b || keepsOrder b a) = true := by
  rw [Bool.or_eq_true, keepsOrder_iff, keepsOrder_iff]
  exact le_total _ _

theorem sortDesc_sorted (l : List (Nat × S)) : (sortDesc l).Pairwise (fun x y => y.2 ≤ x.2) := by
  have := List.pairwise_mergeSort keepsOrder_trans keepsOrder_total l
  exact this.imp (fun h => (keepsOrder_iff _ _).mp h)

theorem sortDesc_perm (l : List (Nat × S)) : (sortDesc l).Perm l := List.mergeSort_perm l _

/-- stability: two results that were in an admissible order stay in that order -/
theorem sortDesc_stable (l : List (Nat × S)) (x y : Nat × S) (hxy : y.2 ≤ x.2)
    (h : [x, y].Sublist l) : [x, y].Sublist (sortDesc l) :=
  List.pair_sublist_mergeSort keepsOrder_trans keepsOrder_total ((keepsOrder_iff x y).mpr hxy) h

/-- a list that is already in descending order is left alone -/
theorem sortDesc_of_sorted (l : List (Nat × S)) (h : l.Pairwise (fun x y => y.2 ≤ x.2)) : sortDesc l = l :=
  List.mergeSort_of_pairwise (h.imp (fun h => (keepsOrder_iff _ _).mpr h))

end Field

end Wtf.Embedding
