/-
  C16, the parser half: `parse (print v) = some v` for the executable JSON codec of the history file
  (`Model/HistoryJson.lean`), for every well-formed document (`WFJ`), given the facts about the decimal
  printer (`DigitFacts`, proved in `Proofs/HistoryJsonTime.lean`).  Core Lean only.
-/
import WtfModel.Proofs.HistoryJsonDefs
set_option linter.unusedSimpArgs false
namespace Wtf.History.Json
open Wtf.History

/-! ### String literals -/

theorem scanString_quote (r acc : Bytes) : scanString (34 :: r) acc = some (acc.reverse, r) := by
  rw [scanString.eq_def]; simp

theorem scanString_plain (a : UInt8) (r acc : Bytes) (h1 : (a == 34) = false) (h2 : ¬ a < 32)
    (h3 : (a == 92) = false) : scanString (a :: r) acc = scanString r (a :: acc) := by
  rw [scanString.eq_def]; simp [h1, h2, h3]

theorem scanString_u (h1 h2 h3 h4 : UInt8) (r acc : Bytes)
    (k1 : isHex h1 = true) (k2 : isHex h2 = true) (k3 : isHex h3 = true) (k4 : isHex h4 = true) :
    scanString (92 :: 117 :: h1 :: h2 :: h3 :: h4 :: r) acc
      = scanString r (h4 :: h3 :: h2 :: h1 :: 117 :: 92 :: acc) := by
  rw [scanString.eq_def]; simp [k1, k2, k3, k4]

theorem scanString_esc (e : UInt8) (r acc : Bytes) (h : (e == 117) = false)
    (he : (e == 34 || e == 92 || e == 47 || e == 98 || e == 102 || e == 110 || e == 114 || e == 116) = true) :
    scanString (92 :: e :: r) acc = scanString r (e :: 92 :: acc) := by
  rw [scanString.eq_def]
  simp only [Bool.or_eq_true, beq_iff_eq] at he
  simp [h]
  intros; simp_all

theorem scanString_lit (rest : Bytes) (raw : Bytes) :
    ∀ acc, litOK raw = true → scanString (raw ++ 34 :: rest) acc = some (acc.reverse ++ raw, rest) := by
  fun_induction litOK raw with
  | case1 => intro acc _; simp [scanString_quote]
  | case2 a r h => intro acc hl; simp at hl
  | case3 a h1 h2 => intro acc hl; simp at hl
  | case4 a h1 h2 e h3 x1 x2 x3 x4 r2 ih =>
    intro acc hl
    simp only [Bool.and_eq_true] at hl
    have ha : a = 92 := by simpa using h2
    have he : e = 117 := by simpa using h3
    subst ha; subst he
    simp only [List.cons_append]
    rw [scanString_u _ _ _ _ _ _ hl.1.1.1.1 hl.1.1.1.2 hl.1.1.2 hl.1.2, ih _ hl.2]
    simp
  | case5 a h1 h2 e r1 h3 hne => intro acc hl; simp at hl
  | case6 a h1 h2 e r1 h3 ih =>
    intro acc hl
    simp only [Bool.and_eq_true] at hl
    have ha : a = 92 := by simpa using h2
    have he : (e == 117) = false := by simpa using h3
    subst ha
    simp only [List.cons_append]
    rw [scanString_esc _ _ _ he hl.1, ih _ hl.2]
    simp
  | case7 a r h1 h2 ih =>
    intro acc hl
    simp only [Bool.or_eq_true, not_or] at h1
    have ha : (a == 34) = false := by simpa using h1.1
    have hb : ¬ (a < 32) := by simpa using h1.2
    have hc : (a == 92) = false := by simpa using h2
    simp only [List.cons_append]
    rw [scanString_plain _ _ _ ha hb hc, ih _ hl]
    simp

theorem isHex_hexDigitBP : ∀ n, n < 16 → isHex (hexDigitB n) = true := by decide

theorem litOK_escP (e : UInt8) (r : Bytes) (h : (e == 117) = false) :
    litOK (92 :: e :: r)
      = ((e == 34 || e == 92 || e == 47 || e == 98 || e == 102 || e == 110 || e == 114 || e == 116) && litOK r) := by
  rw [litOK.eq_def]; simp [h]

theorem litOK_uP (h1 h2 h3 h4 : UInt8) (r : Bytes) :
    litOK (92 :: 117 :: h1 :: h2 :: h3 :: h4 :: r)
      = (isHex h1 && isHex h2 && isHex h3 && isHex h4 && litOK r) := by
  rw [litOK.eq_def]; simp

theorem litOK_plainP (a : UInt8) (r : Bytes) (h1 : (a == 34) = false) (h2 : ¬ a < 32)
    (h3 : (a == 92) = false) : litOK (a :: r) = litOK r := by
  rw [litOK.eq_def]; simp [h1, h2, h3]

theorem litOK_quote' (b : Bytes) : litOK (quote b) = true := by
  induction b with
  | nil => simp [quote, litOK]
  | cons c r ih =>
    rw [quote]
    split
    · rw [litOK_escP _ _ (by decide)]; simp [ih]
    · split
      · rw [litOK_escP _ _ (by decide)]; simp [ih]
      · split
        · have hc := c.toNat_lt
          have k1 : isHex (hexDigitB (c.toNat / 16)) = true := isHex_hexDigitBP _ (by omega)
          have k2 : isHex (hexDigitB (c.toNat % 16)) = true := isHex_hexDigitBP _ (by omega)
          have k0 : isHex 48 = true := by decide
          simp [litOK_uP, ih, k1, k2, k0]
        · rename_i h1 h2 h3
          rw [litOK_plainP _ _ (by simpa using h1) h3 (by simpa using h2)]; exact ih

/-! ### Numbers -/

/-- the byte after a number literal does not continue it -/
def numEnd : Bytes → Bool
  | [] => true
  | c :: _ => !(isDigit c || c == 46 || c == 101 || c == 69)

theorem takeDigits_appendP (ds rest : Bytes) (h : ds.all isDigit = true) (hr : numEnd rest = true) :
    takeDigits (ds ++ rest) = (ds, rest) := by
  induction ds with
  | nil =>
    cases rest with
    | nil => simp [takeDigits]
    | cons c t =>
      simp [numEnd] at hr
      simp [takeDigits, hr.1]
  | cons d ds ih =>
    simp only [List.all_cons, Bool.and_eq_true] at h
    simp [takeDigits, h.1, ih h.2]

def fracPart (s2 : Bytes) : Option (Bool × Bytes) :=
  match s2 with
  | 46 :: r => let (fs, r') := takeDigits r; if fs.isEmpty then none else some (true, r')
  | _ => some (false, s2)

def expPart (s3 : Bytes) : Option (Bool × Bytes) :=
  match s3 with
  | c :: r =>
    if c == 101 || c == 69 then
      let r1 := match r with
        | 43 :: t => t
        | 45 :: t => t
        | _ => r
      let (es, r') := takeDigits r1
      if es.isEmpty then none else some (true, r')
    else some (false, s3)
  | [] => some (false, [])

def numTail (neg : Bool) (s1 : Bytes) : Option (JVal × Bytes) :=
  let (ds, s2) := takeDigits s1
  if ds.isEmpty then none
  else if ds.length > 1 && ds.head? == some 48 then none      -- leading zero
  else
    match fracPart s2 with
    | none => none
    | some (hasFrac, s3) =>
      match expPart s3 with
      | none => none
      | some (hasExp, s4) =>
        if hasFrac || hasExp then some (.badnum, s4)
        else
          let n := natOfDigits ds
          let i : Int := if neg then - (n : Int) else (n : Int)
          if - (9223372036854775808 : Int) ≤ i ∧ i ≤ 9223372036854775807 then some (.int i, s4)
          else some (.badnum, s4)

theorem fracPart_numEnd (rest : Bytes) (hr : numEnd rest = true) : fracPart rest = some (false, rest) := by
  unfold fracPart
  split
  · simp [numEnd] at hr
  · rfl

theorem expPart_numEnd (rest : Bytes) (hr : numEnd rest = true) : expPart rest = some (false, rest) := by
  unfold expPart
  split
  · simp [numEnd] at hr
    simp [hr]
  · rfl

theorem scanNumber_neg (r : Bytes) : scanNumber (45 :: r) = numTail true r := rfl

theorem scanNumber_pos (d : UInt8) (t : Bytes) (h : d ≠ 45) : scanNumber (d :: t) = numTail false (d :: t) := by
  unfold scanNumber
  split
  · rename_i heq
    split at heq
    · rename_i h2; injection h2 with h2; exact absurd h2 h
    · injection heq with h1 h2; subst h1; subst h2; rfl

theorem numTail_digits (D : DigitFacts) (neg : Bool) (n : Nat) (rest : Bytes) (hr : numEnd rest = true)
    (hi : - (9223372036854775808 : Int) ≤ (if neg then - (n : Int) else (n : Int)) ∧ 
       (if neg then - (n : Int) else (n : Int)) ≤ 9223372036854775807) :
    numTail neg (natDigits n ++ rest) = some (.int (if neg then - (n : Int) else (n : Int)), rest) := by
  unfold numTail
  rw [takeDigits_appendP _ _ (D.all_digits n) hr]
  simp only []
  have h1 : (natDigits n).isEmpty = false := by
    have := D.nonempty n
    cases h : natDigits n <;> simp_all
  have h2 : (decide ((natDigits n).length > 1) && (natDigits n).head? == some 48) = false := by
    by_cases hl : 1 < (natDigits n).length
    · have := D.no_leading_zero n hl
      simp [this]
    · simp [hl]
  rw [h1, h2]
  rw [fracPart_numEnd _ hr]
  simp only []
  rw [expPart_numEnd _ hr]
  simp [D.value, hi]

theorem intLit_head (D : DigitFacts) (i : Int) :
    ∃ c t, intLit i = c :: t ∧ (c = 45 ∨ isDigit c = true) := by
  unfold intLit
  split
  · exact ⟨45, _, rfl, Or.inl rfl⟩
  · have h1 := D.nonempty i.natAbs
    have h2 := D.all_digits i.natAbs
    cases h : natDigits i.natAbs with
    | nil => exact absurd h h1
    | cons d t =>
      rw [h] at h2
      simp only [List.all_cons, Bool.and_eq_true] at h2
      exact ⟨d, t, rfl, Or.inr h2.1⟩

theorem scanNumber_intLit (D : DigitFacts) (i : Int) (lo : -9223372036854775808 ≤ i) (hi : i ≤ 9223372036854775807)
    (rest : Bytes) (hr : numEnd rest = true) : scanNumber (intLit i ++ rest) = some (.int i, rest) := by
  unfold intLit
  split
  · rename_i hneg
    rw [List.cons_append, scanNumber_neg, numTail_digits D true _ _ hr]
    · simp only [if_true]
      congr 3
      omega
    · simp only [if_true]; omega
  · rename_i hneg
    have h1 := D.nonempty i.natAbs
    have h2 := D.all_digits i.natAbs
    cases h : natDigits i.natAbs with
    | nil => exact absurd h h1
    | cons d t =>
      rw [h] at h2
      simp only [List.all_cons, Bool.and_eq_true] at h2
      have hd : d ≠ 45 := by
        intro h45; subst h45; exact absurd h2.1 (by decide)
      rw [List.cons_append, scanNumber_pos _ _ hd, ← List.cons_append, ← h, numTail_digits D false _ _ hr]
      · simp only [Bool.false_eq_true, if_false]
        congr 3
        omega
      · simp only [Bool.false_eq_true, if_false]; omega

/-! ### Printer equations, first bytes -/

theorem printElems_one (v : JVal) : printElems [v] = print v := by simp [printElems]
theorem printElems_two (v w : JVal) (ws : List JVal) :
    printElems (v :: w :: ws) = print v ++ 44 :: 10 :: printElems (w :: ws) := by simp [printElems]
theorem printMembers_one (k : Bytes) (v : JVal) :
    printMembers [(k, v)] = 34 :: quote k ++ [34, 58, 32] ++ print v := by simp [printMembers]
theorem printMembers_two (k : Bytes) (v : JVal) (kv : Bytes × JVal) (kvs : List (Bytes × JVal)) :
    printMembers ((k, v) :: kv :: kvs)
      = 34 :: quote k ++ [34, 58, 32] ++ print v ++ 44 :: 10 :: printMembers (kv :: kvs) := by simp [printMembers]

theorem not_digit_lit (c k : UInt8) (h : isDigit c = true) (hk : isDigit k = false) : (c == k) = false := by
  cases hc : (c == k) with
  | false => rfl
  | true => have := eq_of_beq hc; subst this; rw [h] at hk; cases hk

/-- first byte of a printed value: not white space, not a closing bracket -/
def valHead (s : Bytes) : Prop := ∃ c t, s = c :: t ∧ isWs c = false ∧ c ≠ 93

theorem print_head (D : DigitFacts) (v : JVal) : valHead (print v) := by
  cases v with
  | null => exact ⟨110, [117, 108, 108], by rw [print], by decide, by decide⟩
  | bool b =>
    cases b
    · exact ⟨102, [97, 108, 115, 101], by rw [print], by decide, by decide⟩
    · exact ⟨116, [114, 117, 101], by rw [print], by decide, by decide⟩
  | int i =>
    obtain ⟨c, t, h, hc⟩ := intLit_head D i
    refine ⟨c, t, by rw [print, h], ?_, ?_⟩
    · cases hc with
      | inl h => subst h; decide
      | inr h =>
        simp only [isWs, not_digit_lit c 32 h (by decide), not_digit_lit c 9 h (by decide),
          not_digit_lit c 10 h (by decide), not_digit_lit c 13 h (by decide), Bool.or_self]
    · cases hc with
      | inl h => subst h; decide
      | inr h => have := not_digit_lit c 93 h (by decide); simpa using this
  | badnum => exact ⟨49, [46, 53], by rw [print], by decide, by decide⟩
  | str raw => exact ⟨34, raw ++ [34], by rw [print]; rfl, by decide, by decide⟩
  | arr xs => exact ⟨91, printElems xs ++ [93], by rw [print]; rfl, by decide, by decide⟩
  | obj kvs => exact ⟨123, printMembers kvs ++ [125], by rw [print]; rfl, by decide, by decide⟩

theorem printElems_head (D : DigitFacts) (x : JVal) (xs : List JVal) (tail : Bytes) :
    valHead (printElems (x :: xs) ++ tail) := by
  obtain ⟨c, t, h, h1, h2⟩ := print_head D x
  cases xs with
  | nil => exact ⟨c, t ++ tail, by rw [printElems_one, h]; rfl, h1, h2⟩
  | cons y ys => exact ⟨c, t ++ (44 :: 10 :: printElems (y :: ys)) ++ tail, by rw [printElems_two, h]; simp, h1, h2⟩

theorem printMembers_head (kv : Bytes × JVal) (kvs : List (Bytes × JVal)) :
    ∃ t, printMembers (kv :: kvs) = 34 :: t := by
  obtain ⟨k, v⟩ := kv
  cases kvs with
  | nil => exact ⟨_, by rw [printMembers_one]; rfl⟩
  | cons y ys => exact ⟨_, by rw [printMembers_two]; rfl⟩

/-! ### White space in front of a value -/

theorem skipWs_cons_ws (c : UInt8) (s : Bytes) (h : isWs c = true) : skipWs (c :: s) = skipWs s := by
  simp [skipWs, h]
theorem skipWs_cons_nws (c : UInt8) (s : Bytes) (h : isWs c = false) : skipWs (c :: s) = c :: s := by
  simp [skipWs, h]

theorem parseValue_ws (fuel : Nat) (c : UInt8) (s : Bytes) (h : isWs c = true) :
    parseValue fuel (c :: s) = parseValue fuel s := by
  cases fuel with
  | zero => simp [parseValue]
  | succ f => rw [parseValue, parseValue, skipWs_cons_ws _ _ h]

theorem parseMembers_ws (fuel : Nat) (c : UInt8) (s : Bytes) (acc : List (Bytes × JVal)) (h : isWs c = true) :
    parseMembers fuel (c :: s) acc = parseMembers fuel s acc := by
  cases fuel with
  | zero => simp [parseMembers]
  | succ f => rw [parseMembers, parseMembers, skipWs_cons_ws _ _ h]

theorem parseElems_ws (fuel : Nat) (c : UInt8) (s : Bytes) (acc : List JVal) (h : isWs c = true) :
    parseElems fuel (c :: s) acc = parseElems fuel s acc := by
  cases fuel with
  | zero => simp [parseElems]
  | succ f => rw [parseElems, parseElems, parseValue_ws _ _ _ h]

/-! ### One element, one member -/

theorem parseElems_last (f : Nat) (v : JVal) (rest : Bytes) (acc : List JVal)
    (hpv : parseValue f (print v ++ 93 :: rest) = some (v, 93 :: rest)) :
    parseElems (f + 1) (print v ++ 93 :: rest) acc = some (.arr (acc ++ [v]), rest) := by
  rw [parseElems, hpv]
  simp only []
  rw [skipWs_cons_nws _ _ (by decide)]
  rfl

theorem parseElems_more (f : Nat) (v : JVal) (more : Bytes) (acc : List JVal)
    (hpv : parseValue f (print v ++ 44 :: 10 :: more) = some (v, 44 :: 10 :: more)) :
    parseElems (f + 1) (print v ++ 44 :: 10 :: more) acc = parseElems f more (acc ++ [v]) := by
  rw [parseElems, hpv]
  simp only []
  rw [skipWs_cons_nws _ _ (by decide)]
  simp only []
  rw [parseElems_ws _ _ _ _ (by decide)]

theorem parseMembers_last (f : Nat) (k : Bytes) (v : JVal) (rest : Bytes) (acc : List (Bytes × JVal))
    (hk : unquote (quote k) = k) (hpv : parseValue f (print v ++ 125 :: rest) = some (v, 125 :: rest)) :
    parseMembers (f + 1) (34 :: (quote k ++ 34 :: 58 :: 32 :: (print v ++ 125 :: rest))) acc =
      some (.obj (acc ++ [(k, v)]), rest) := by
  rw [parseMembers, skipWs_cons_nws _ _ (by decide)]
  simp only []
  rw [scanString_lit _ _ [] (litOK_quote' k)]
  simp only [List.reverse_nil, List.nil_append]
  rw [skipWs_cons_nws _ _ (by decide)]
  simp only []
  rw [parseValue_ws _ _ _ (by decide), hpv]
  simp only [hk]
  rw [skipWs_cons_nws _ _ (by decide)]
  rfl

theorem parseMembers_more (f : Nat) (k : Bytes) (v : JVal) (more : Bytes) (acc : List (Bytes × JVal))
    (hk : unquote (quote k) = k) (hpv : parseValue f (print v ++ 44 :: 10 :: more) = some (v, 44 :: 10 :: more)) :
    parseMembers (f + 1) (34 :: (quote k ++ 34 :: 58 :: 32 :: (print v ++ 44 :: 10 :: more))) acc =
      parseMembers f more (acc ++ [(k, v)]) := by
  rw [parseMembers, skipWs_cons_nws _ _ (by decide)]
  simp only []
  rw [scanString_lit _ _ [] (litOK_quote' k)]
  simp only [List.reverse_nil, List.nil_append]
  rw [skipWs_cons_nws _ _ (by decide)]
  simp only []
  rw [parseValue_ws _ _ _ (by decide), hpv]
  simp only [hk]
  rw [skipWs_cons_nws _ _ (by decide)]
  simp only []
  rw [parseMembers_ws _ _ _ _ (by decide)]

/-! ### Fuel -/

mutual
def size : JVal → Nat
  | .arr xs => 1 + sizeE xs
  | .obj kvs => 1 + sizeM kvs
  | .null => 1
  | .bool _ => 1
  | .int _ => 1
  | .badnum => 1
  | .str _ => 1
def sizeE : List JVal → Nat
  | [] => 0
  | v :: vs => 1 + size v + sizeE vs
def sizeM : List (Bytes × JVal) → Nat
  | [] => 0
  | (_, v) :: kvs => 1 + size v + sizeM kvs
end

/-- the statement about one value, for any fuel that covers its size -/
def PV (v : JVal) : Prop :=
  ∀ fuel rest, size v ≤ fuel → numEnd rest = true → parseValue fuel (print v ++ rest) = some (v, rest)

theorem parseElems_print (xs : List JVal) (ih : ∀ x, x ∈ xs → PV x) (hne : xs ≠ []) :
    ∀ fuel acc rest, sizeE xs ≤ fuel →
      parseElems fuel (printElems xs ++ 93 :: rest) acc = some (.arr (acc ++ xs), rest) := by
  induction xs with
  | nil => exact absurd rfl hne
  | cons x xs ihx =>
    intro fuel acc rest hf
    rw [sizeE] at hf
    obtain ⟨f, rfl⟩ : ∃ f, fuel = f + 1 := ⟨fuel - 1, by omega⟩
    cases xs with
    | nil =>
      rw [printElems_one]
      exact parseElems_last f x rest acc (ih x (by simp) f _ (by omega) rfl)
    | cons y ys =>
      rw [printElems_two, List.append_assoc, List.cons_append, List.cons_append]
      rw [parseElems_more f x _ acc (ih x (by simp) f _ (by omega) rfl)]
      rw [ihx (fun z hz => ih z (List.mem_cons_of_mem _ hz)) (by simp) f _ rest (by omega)]
      simp

theorem parseMembers_print (kvs : List (Bytes × JVal)) (hk : ∀ kv, kv ∈ kvs → unquote (quote kv.1) = kv.1)
    (ih : ∀ kv, kv ∈ kvs → PV kv.2) (hne : kvs ≠ []) :
    ∀ fuel acc rest, sizeM kvs ≤ fuel →
      parseMembers fuel (printMembers kvs ++ 125 :: rest) acc = some (.obj (acc ++ kvs), rest) := by
  induction kvs with
  | nil => exact absurd rfl hne
  | cons x xs ihx =>
    intro fuel acc rest hf
    obtain ⟨k, v⟩ := x
    rw [sizeM] at hf
    obtain ⟨f, rfl⟩ : ∃ f, fuel = f + 1 := ⟨fuel - 1, by omega⟩
    have hkk : unquote (quote k) = k := hk (k, v) (by simp)
    have hv : PV v := ih (k, v) (by simp)
    cases xs with
    | nil =>
      rw [printMembers_one]
      simp only [List.append_assoc, List.cons_append, List.nil_append]
      exact parseMembers_last f k v rest acc hkk (hv f _ (by omega) rfl)
    | cons y ys =>
      rw [printMembers_two]
      simp only [List.append_assoc, List.cons_append, List.nil_append]
      rw [parseMembers_more f k v _ acc hkk (hv f _ (by omega) rfl)]
      rw [ihx (fun z hz => hk z (List.mem_cons_of_mem _ hz)) (fun z hz => ih z (List.mem_cons_of_mem _ hz))
        (by simp) f _ rest (by omega)]
      simp

theorem parseValue_number (f : Nat) (c : UInt8) (t : Bytes) (hc : c = 45 ∨ isDigit c = true) :
    parseValue (f + 1) (c :: t) = scanNumber (c :: t) := by
  cases hc with
  | inl h => subst h; rw [parseValue, skipWs_cons_nws _ _ (by decide)]; simp
  | inr h =>
    have hws : isWs c = false := by
      simp only [isWs, not_digit_lit c 32 h (by decide), not_digit_lit c 9 h (by decide),
        not_digit_lit c 10 h (by decide), not_digit_lit c 13 h (by decide), Bool.or_self]
    rw [parseValue, skipWs_cons_nws _ _ hws]
    simp [not_digit_lit c 123 h (by decide), not_digit_lit c 91 h (by decide), not_digit_lit c 34 h (by decide),
      not_digit_lit c 116 h (by decide), not_digit_lit c 102 h (by decide), not_digit_lit c 110 h (by decide), h]

theorem parseValue_print (D : DigitFacts) (v : JVal) (h : WFJ v) : PV v := by
  induction h with
  | null =>
    intro fuel rest hf _
    rw [size] at hf
    obtain ⟨f, rfl⟩ : ∃ f, fuel = f + 1 := ⟨fuel - 1, by omega⟩
    simp only [print, List.append_assoc, List.cons_append, List.nil_append]
    rw [parseValue, skipWs_cons_nws _ _ (by decide)]
    simp [startsWith, List.isPrefixOf]
  | bool b =>
    intro fuel rest hf _
    rw [size] at hf
    obtain ⟨f, rfl⟩ : ∃ f, fuel = f + 1 := ⟨fuel - 1, by omega⟩
    cases b
    · simp only [print, List.append_assoc, List.cons_append, List.nil_append]
      rw [parseValue, skipWs_cons_nws _ _ (by decide)]
      simp [startsWith, List.isPrefixOf]
    · simp only [print, List.append_assoc, List.cons_append, List.nil_append]
      rw [parseValue, skipWs_cons_nws _ _ (by decide)]
      simp [startsWith, List.isPrefixOf]
  | int i lo hi =>
    intro fuel rest hf hr
    rw [size] at hf
    obtain ⟨f, rfl⟩ : ∃ f, fuel = f + 1 := ⟨fuel - 1, by omega⟩
    obtain ⟨c, t, hc, hcd⟩ := intLit_head D i
    rw [print, hc, List.cons_append, parseValue_number f c _ hcd, ← List.cons_append, ← hc]
    exact scanNumber_intLit D i lo hi rest hr
  | str raw hl =>
    intro fuel rest hf _
    rw [size] at hf
    obtain ⟨f, rfl⟩ : ∃ f, fuel = f + 1 := ⟨fuel - 1, by omega⟩
    simp only [print, List.append_assoc, List.cons_append, List.nil_append]
    rw [parseValue, skipWs_cons_nws _ _ (by decide)]
    simp only [List.append_assoc, List.cons_append, List.nil_append]
    rw [scanString_lit _ _ [] hl]
    simp
  | arr xs hx ih =>
    intro fuel rest hf _
    rw [size] at hf
    obtain ⟨f, rfl⟩ : ∃ f, fuel = f + 1 := ⟨fuel - 1, by omega⟩
    simp only [print, List.append_assoc, List.cons_append, List.nil_append]
    rw [parseValue, skipWs_cons_nws _ _ (by decide)]
    simp only []
    rw [if_neg (by decide), if_pos (by decide)]
    cases xs with
    | nil =>
      rw [printElems, List.nil_append, skipWs_cons_nws _ _ (by decide)]
      rfl
    | cons x xs =>
      obtain ⟨c, t, hc, h1, h2⟩ := printElems_head D x xs (93 :: rest)
      have hs : skipWs (printElems (x :: xs) ++ 93 :: rest) = printElems (x :: xs) ++ 93 :: rest := by
        rw [hc]; exact skipWs_cons_nws _ _ h1
      rw [hs]
      split
      · rename_i heq
        rw [hc] at heq
        injection heq with heq _
        exact absurd heq h2
      · rw [parseElems_print (x :: xs) ih (by simp) f [] rest (by omega)]
        simp
  | obj kvs hk hx ih =>
    intro fuel rest hf _
    rw [size] at hf
    obtain ⟨f, rfl⟩ : ∃ f, fuel = f + 1 := ⟨fuel - 1, by omega⟩
    simp only [print, List.append_assoc, List.cons_append, List.nil_append]
    rw [parseValue, skipWs_cons_nws _ _ (by decide)]
    simp only []
    rw [if_pos (by decide)]
    cases kvs with
    | nil =>
      rw [printMembers, List.nil_append, skipWs_cons_nws _ _ (by decide)]
      rfl
    | cons x xs =>
      obtain ⟨t, hc⟩ := printMembers_head x xs
      have hs : skipWs (printMembers (x :: xs) ++ 125 :: rest) = printMembers (x :: xs) ++ 125 :: rest := by
        rw [hc]; exact skipWs_cons_nws _ _ (by decide)
      rw [hs]
      split
      · rename_i heq
        rw [hc] at heq
        injection heq with heq _
        exact absurd heq (by decide)
      · rw [parseMembers_print (x :: xs) hk ih (by simp) f [] rest (by omega)]
        simp

/-! ### The fuel `parse` supplies is enough -/

theorem sizeE_le (xs : List JVal) (ih : ∀ x, x ∈ xs → size x ≤ (print x).length) :
    sizeE xs ≤ (printElems xs).length + 1 := by
  induction xs with
  | nil => simp [sizeE]
  | cons x xs ihx =>
    have hx := ih x (by simp)
    cases xs with
    | nil => rw [printElems_one, sizeE, sizeE]; omega
    | cons y ys =>
      have := ihx (fun z hz => ih z (List.mem_cons_of_mem _ hz))
      rw [printElems_two, sizeE]
      simp only [List.length_append, List.length_cons]
      omega

theorem sizeM_le (kvs : List (Bytes × JVal)) (ih : ∀ kv, kv ∈ kvs → size kv.2 ≤ (print kv.2).length) :
    sizeM kvs ≤ (printMembers kvs).length + 1 := by
  induction kvs with
  | nil => simp [sizeM]
  | cons x xs ihx =>
    obtain ⟨k, v⟩ := x
    have hx : size v ≤ (print v).length := ih (k, v) (by simp)
    cases xs with
    | nil =>
      rw [printMembers_one, sizeM, sizeM]
      simp only [List.length_append, List.length_cons]
      omega
    | cons y ys =>
      have := ihx (fun z hz => ih z (List.mem_cons_of_mem _ hz))
      rw [printMembers_two, sizeM]
      simp only [List.length_append, List.length_cons]
      omega

theorem size_le_print (D : DigitFacts) (v : JVal) (h : WFJ v) : size v ≤ (print v).length := by
  induction h with
  | null => simp [size, print]
  | bool b => cases b <;> simp [size, print]
  | int i lo hi =>
    obtain ⟨c, t, hc, _⟩ := intLit_head D i
    simp [size, print, hc]
  | str raw hl => simp [size, print]
  | arr xs hx ih =>
    have := sizeE_le xs ih
    simp only [size, print, List.length_append, List.length_cons, List.length_nil]
    omega
  | obj kvs hk hx ih =>
    have := sizeM_le kvs ih
    simp only [size, print, List.length_append, List.length_cons, List.length_nil]
    omega

/-- **The parser reads back what the printer writes**, for every well-formed document. -/
theorem parse_print_wf (D : DigitFacts) (v : JVal) (h : WFJ v) : parse (print v) = some v := by
  have hs := size_le_print D v h
  have hp := parseValue_print D v h (2 * (print v).length + 2) [] (by omega) rfl
  rw [List.append_nil] at hp
  unfold parse
  rw [hp]
  rfl

end Wtf.History.Json
