/-
  C16, digits and RFC 3339 text of the executable JSON codec (`Model/HistoryJson.lean`):
  `natDigits` (= `toString` of a `Nat`, as bytes) is the usual decimal expansion (`DigitFacts`),
  `parseTime (fmtTime t) = some t` for the time keys of real instants, and the text of `fmtTime`
  is a string-literal body the scanner accepts.  Core Lean only.
-/
import WtfModel.Proofs.HistoryJsonDefs
namespace Wtf.History.Json
open Wtf.History

/-! ### `ByteArray.toList` is the list of the underlying array -/

theorem byteArray_toList_loop (bs : ByteArray) (k i : Nat) (r : List UInt8) (hk : k = bs.size - i) (hi : i ≤ bs.size) :
    ByteArray.toList.loop bs i r = r.reverse ++ bs.data.toList.drop i := by
  induction k generalizing i r with
  | zero =>
    rw [ByteArray.toList.loop]
    have h1 : ¬ i < bs.size := by omega
    have h2 : bs.data.toList.length ≤ i := by
      have : bs.data.toList.length = bs.size := by rw [Array.length_toList, ByteArray.size_data]
      omega
    simp [h1, List.drop_eq_nil_of_le h2]
  | succ k ih =>
    rw [ByteArray.toList.loop]
    have h1 : i < bs.size := by omega
    have hlen : i < bs.data.toList.length := by
      have : bs.data.toList.length = bs.size := by rw [Array.length_toList, ByteArray.size_data]
      omega
    simp only [h1, if_true]
    rw [ih (i + 1) _ (by omega) (by omega)]
    rw [List.drop_eq_getElem_cons hlen]
    have hget : bs.get! i = bs.data.toList[i] := by
      simp only [ByteArray.get!]
      simp at hlen
      simp [hlen]
    simp [hget]

theorem byteArray_toList (bs : ByteArray) : bs.toList = bs.data.toList := by
  rw [ByteArray.toList, byteArray_toList_loop bs (bs.size - 0) 0 [] rfl (Nat.zero_le _)]
  simp

/-! ### `natDigits` is the usual decimal expansion -/

/-- the decimal expansion, most significant digit first, as ASCII bytes -/
def myDigits (n : Nat) : Bytes :=
  if n < 10 then [UInt8.ofNat (48 + n)] else myDigits (n / 10) ++ [UInt8.ofNat (48 + n % 10)]
termination_by n
decreasing_by omega

theorem natDigits_eq_flatMap (n : Nat) : natDigits n = (Nat.toDigits 10 n).flatMap String.utf8EncodeChar := by
  unfold natDigits
  rw [byteArray_toList, Nat.toString_eq_ofList_toDigits, String.toUTF8_eq_toByteArray, String.toByteArray_ofList]
  unfold List.utf8Encode
  rw [List.toList_data_toByteArray]

theorem utf8EncodeChar_digitChar (d : Nat) (h : d < 10) :
    String.utf8EncodeChar (Nat.digitChar d) = [UInt8.ofNat (48 + d)] := by
  have : d = 0 ∨ d = 1 ∨ d = 2 ∨ d = 3 ∨ d = 4 ∨ d = 5 ∨ d = 6 ∨ d = 7 ∨ d = 8 ∨ d = 9 := by omega
  rcases this with h | h | h | h | h | h | h | h | h | h <;> subst h <;> decide

theorem natDigits_eq_myDigits (n : Nat) : natDigits n = myDigits n := by
  rw [natDigits_eq_flatMap]
  induction n using Nat.strongRecOn with
  | _ n ih =>
    rw [myDigits, Nat.toDigits_eq_if (by decide)]
    split
    · rename_i h
      simp [utf8EncodeChar_digitChar n h]
    · rename_i h
      rw [List.flatMap_append, ih (n / 10) (by omega)]
      simp [utf8EncodeChar_digitChar (n % 10) (by omega)]

/-- the byte of a decimal digit -/
def dig (d : Nat) : UInt8 := UInt8.ofNat (48 + d)

theorem dig_facts (d : Nat) (h : d < 10) :
    isDigit (dig d) = true ∧ (dig d).toNat - 48 = d ∧ (dig d = 48 ↔ d = 0) ∧ 32 ≤ dig d ∧ dig d ≠ 34 ∧ dig d ≠ 92 := by
  have : d = 0 ∨ d = 1 ∨ d = 2 ∨ d = 3 ∨ d = 4 ∨ d = 5 ∨ d = 6 ∨ d = 7 ∨ d = 8 ∨ d = 9 := by omega
  rcases this with h | h | h | h | h | h | h | h | h | h <;> subst h <;> decide

theorem isDigit_dig (d : Nat) (h : d < 10) : isDigit (dig d) = true := (dig_facts d h).1
theorem toNat_dig (d : Nat) (h : d < 10) : (dig d).toNat - 48 = d := (dig_facts d h).2.1

theorem myDigits_lt (n : Nat) (h : n < 10) : myDigits n = [dig n] := by
  rw [myDigits, if_pos h]; rfl

theorem myDigits_ge (n : Nat) (h : 10 ≤ n) : myDigits n = myDigits (n / 10) ++ [dig (n % 10)] := by
  rw [myDigits, if_neg (by omega)]; rfl

theorem natOfDigits_append (xs : Bytes) (c : UInt8) :
    natOfDigits (xs ++ [c]) = natOfDigits xs * 10 + (c.toNat - 48) := by
  simp [natOfDigits, List.foldl_append]

theorem myDigits_all (n : Nat) : (myDigits n).all isDigit = true := by
  induction n using Nat.strongRecOn with
  | _ n ih =>
    by_cases h : n < 10
    · simp [myDigits_lt n h, isDigit_dig n h]
    · rw [myDigits_ge n (by omega), List.all_append, ih (n / 10) (by omega)]
      simp [isDigit_dig (n % 10) (by omega)]

theorem myDigits_ne_nil (n : Nat) : myDigits n ≠ [] := by
  by_cases h : n < 10
  · simp [myDigits_lt n h]
  · simp [myDigits_ge n (by omega)]

theorem myDigits_value (n : Nat) : natOfDigits (myDigits n) = n := by
  induction n using Nat.strongRecOn with
  | _ n ih =>
    by_cases h : n < 10
    · simp [myDigits_lt n h, natOfDigits, toNat_dig n h]
    · rw [myDigits_ge n (by omega), natOfDigits_append, ih (n / 10) (by omega), toNat_dig (n % 10) (by omega)]
      omega

theorem myDigits_head (n : Nat) (h : 1 ≤ n) : (myDigits n).head? ≠ some 48 := by
  induction n using Nat.strongRecOn with
  | _ n ih =>
    by_cases h10 : n < 10
    · have hz := (dig_facts n h10).2.2.1
      rw [myDigits_lt n h10]
      intro hh
      have h48 : dig n = 48 := by simpa using hh
      have := hz.mp h48
      omega
    · rw [myDigits_ge n (by omega)]
      have hne := myDigits_ne_nil (n / 10)
      have := ih (n / 10) (by omega) (by omega)
      cases hm : myDigits (n / 10) with
      | nil => exact absurd hm hne
      | cons a r => rw [hm] at this; simpa using this

theorem myDigits_length_one (n : Nat) (h : 1 < (myDigits n).length) : 10 ≤ n := by
  by_cases h10 : n < 10
  · rw [myDigits_lt n h10] at h; simp at h
  · omega

/-- PRIORITY 1: the decimal printer behind `natDigits` (`toString`) is the usual decimal expansion. -/
theorem digitFacts : DigitFacts where
  all_digits n := by rw [natDigits_eq_myDigits]; exact myDigits_all n
  nonempty n := by rw [natDigits_eq_myDigits]; exact myDigits_ne_nil n
  value n := by rw [natDigits_eq_myDigits]; exact myDigits_value n
  no_leading_zero n h := by
    rw [natDigits_eq_myDigits] at h ⊢
    exact myDigits_head n (by have := myDigits_length_one n h; omega)

/-! ### Fixed-width fields -/

/-- exactly `w` decimal digits of `n` (the low ones), most significant first -/
def fixedDigits : Nat → Nat → Bytes
  | 0, _ => []
  | w + 1, n => fixedDigits w (n / 10) ++ [dig (n % 10)]

theorem fixedDigits_zero (w : Nat) : fixedDigits w 0 = List.replicate w 48 := by
  induction w with
  | zero => rfl
  | succ w ih =>
    simp only [fixedDigits, Nat.zero_div, ih, Nat.zero_mod]
    rw [List.replicate_succ']
    rfl

theorem fixedDigits_length (w n : Nat) : (fixedDigits w n).length = w := by
  induction w generalizing n with
  | zero => rfl
  | succ w ih => simp [fixedDigits, ih]

theorem fixedDigits_all (w n : Nat) : (fixedDigits w n).all isDigit = true := by
  induction w generalizing n with
  | zero => rfl
  | succ w ih =>
    rw [fixedDigits, List.all_append, ih]
    simp [isDigit_dig (n % 10) (by omega)]

theorem fixedDigits_value (w n : Nat) : natOfDigits (fixedDigits w n) = n % 10 ^ w := by
  induction w generalizing n with
  | zero => simp [fixedDigits, natOfDigits, Nat.mod_one]
  | succ w ih =>
    rw [fixedDigits, natOfDigits_append, ih, toNat_dig (n % 10) (by omega), Nat.pow_succ, Nat.mul_comm (10 ^ w) 10,
      Nat.mod_mul]
    omega

theorem myDigits_length_pos (n : Nat) : 0 < (myDigits n).length :=
  List.length_pos_iff.mpr (myDigits_ne_nil n)

theorem myDigits_length_le (w n : Nat) (h : n < 10 ^ (w + 1)) : (myDigits n).length ≤ w + 1 := by
  induction w generalizing n with
  | zero =>
    rw [myDigits_lt n (by simpa using h)]; simp
  | succ w ih =>
    by_cases h10 : n < 10
    · rw [myDigits_lt n h10]; simp
    · rw [myDigits_ge n (by omega)]
      have : n / 10 < 10 ^ (w + 1) := by
        rw [Nat.div_lt_iff_lt_mul (by decide)]
        rw [Nat.pow_succ] at h; exact h
      have := ih (n / 10) this
      simp; omega

theorem pad_eq_fixedDigits (w n : Nat) (h : n < 10 ^ (w + 1)) : pad (w + 1) n = fixedDigits (w + 1) n := by
  induction w generalizing n with
  | zero =>
    have h10 : n < 10 := by simpa using h
    simp [pad, natDigits_eq_myDigits, myDigits_lt n h10, fixedDigits, Nat.mod_eq_of_lt h10]
  | succ w ih =>
    by_cases h10 : n < 10
    · rw [fixedDigits, Nat.div_eq_of_lt h10, fixedDigits_zero, Nat.mod_eq_of_lt h10]
      simp [pad, natDigits_eq_myDigits, myDigits_lt n h10]
    · have hlt : n / 10 < 10 ^ (w + 1) := by
        rw [Nat.div_lt_iff_lt_mul (by decide)]
        rw [Nat.pow_succ] at h; exact h
      rw [fixedDigits, ← ih (n / 10) hlt]
      have hl := myDigits_length_le w (n / 10) hlt
      simp only [pad, natDigits_eq_myDigits]
      rw [myDigits_ge n (by omega)]
      simp only [List.length_append, List.length_singleton, List.append_assoc]
      have : w + 1 + 1 - ((myDigits (n / 10)).length + 1) = w + 1 - (myDigits (n / 10)).length := by omega
      rw [this]

theorem pad2 (x : Nat) (h : x < 100) : pad 2 x = [dig (x / 10 % 10), dig (x % 10)] := by
  rw [pad_eq_fixedDigits 1 x (by simpa using h)]; simp [fixedDigits]

theorem pad4 (x : Nat) (h : x < 10000) :
    pad 4 x = [dig (x / 10 / 10 / 10 % 10), dig (x / 10 / 10 % 10), dig (x / 10 % 10), dig (x % 10)] := by
  rw [pad_eq_fixedDigits 3 x (by simpa using h)]; simp [fixedDigits]

theorem pad9 (x : Nat) (h : x < 1000000000) : pad 9 x = fixedDigits 9 x :=
  pad_eq_fixedDigits 8 x (by simpa using h)

theorem num2 (a b : Nat) (ha : a < 10) (hb : b < 10) : num? [dig a, dig b] = some (a * 10 + b) := by
  simp [num?, isDigit_dig, ha, hb, natOfDigits, toNat_dig]

theorem num4 (a b c d : Nat) (ha : a < 10) (hb : b < 10) (hc : c < 10) (hd : d < 10) :
    num? [dig a, dig b, dig c, dig d] = some (((a * 10 + b) * 10 + c) * 10 + d) := by
  simp [num?, isDigit_dig, ha, hb, hc, hd, natOfDigits, toNat_dig]

theorem takeDigits_append (fs : Bytes) (c : UInt8) (r : Bytes) (h : fs.all isDigit = true) (hc : isDigit c = false) :
    takeDigits (fs ++ c :: r) = (fs, c :: r) := by
  induction fs with
  | nil => simp [takeDigits, hc]
  | cons a fs ih =>
    simp only [List.all_cons, Bool.and_eq_true] at h
    simp [takeDigits, h.1, ih h.2]

/-! ### `parseTime` after `fmtTime` -/

theorem parseTime_shape (y1 y2 y3 y4 m1 m2 d1 d2 h1 h2 i1 i2 s1 s2 : UInt8) (fs : Bytes) (y mo d h mi s : Nat)
    (hy : num? [y1, y2, y3, y4] = some y) (hmo : num? [m1, m2] = some mo) (hd : num? [d1, d2] = some d)
    (hh : num? [h1, h2] = some h) (hmi : num? [i1, i2] = some mi) (hs : num? [s1, s2] = some s)
    (hr : 1 ≤ mo ∧ mo ≤ 12 ∧ 1 ≤ d ∧ d ≤ daysIn y mo ∧ h ≤ 23 ∧ mi ≤ 59 ∧ s ≤ 59)
    (hfs : fs.all isDigit = true) (hlen : fs.length = 9) :
    parseTime (y1 :: y2 :: y3 :: y4 :: 45 :: m1 :: m2 :: 45 :: d1 :: d2 :: 84 :: h1 :: h2 :: 58 :: i1 :: i2 :: 58 ::
        s1 :: s2 :: 46 :: (fs ++ [90]))
      = some ((pack y mo d h mi s (natOfDigits fs) : Int) - (zeroPacked : Int)) := by
  have htd : takeDigits (fs ++ [90]) = (fs, [90]) := takeDigits_append fs 90 [] hfs (by decide)
  have hne : fs ≠ [] := by intro h0; rw [h0] at hlen; simp at hlen
  have htake : (fs ++ [48, 48, 48, 48, 48, 48, 48, 48, 48]).take 9 = fs := by
    rw [List.take_append_of_le_length (by omega), List.take_of_length_le (by omega)]
  simp only [parseTime, hy, hmo, hd, hh, hmi, hs, if_pos hr, htd]
  simp [hne, htake]

theorem fmtTime_fields (y mo d h mi s ns : Nat) (hmo : mo ≤ 99) (hd : d ≤ 99) (hh : h ≤ 99)
    (hmi : mi ≤ 99) (hs : s ≤ 99) (hns : ns < 1000000000) (hpos : zeroPacked ≤ pack y mo d h mi s ns) :
    fmtTime ((pack y mo d h mi s ns : Int) - (zeroPacked : Int)) =
      pad 4 y ++ [45] ++ pad 2 mo ++ [45] ++ pad 2 d ++ [84] ++ pad 2 h ++ [58] ++ pad 2 mi ++ [58] ++ pad 2 s ++ [46] ++
        pad 9 ns ++ [90] := by
  have hp : ((pack y mo d h mi s ns : Int) - (zeroPacked : Int) + (zeroPacked : Int)).toNat = pack y mo d h mi s ns := by
    omega
  unfold fmtTime
  simp only [hp]
  have e1 : pack y mo d h mi s ns % 1000000000 = ns := by unfold pack; omega
  have e2 : pack y mo d h mi s ns / 1000000000 % 100 = s := by unfold pack; omega
  have e3 : pack y mo d h mi s ns / 1000000000 / 100 % 100 = mi := by unfold pack; omega
  have e4 : pack y mo d h mi s ns / 1000000000 / 100 / 100 % 100 = h := by unfold pack; omega
  have e5 : pack y mo d h mi s ns / 1000000000 / 100 / 100 / 100 % 100 = d := by unfold pack; omega
  have e6 : pack y mo d h mi s ns / 1000000000 / 100 / 100 / 100 / 100 % 100 = mo := by unfold pack; omega
  have e7 : pack y mo d h mi s ns / 1000000000 / 100 / 100 / 100 / 100 / 100 = y := by unfold pack; omega
  rw [e1, e2, e3, e4, e5, e6, e7]

theorem daysIn_le (y m : Nat) : daysIn y m ≤ 31 := by
  unfold daysIn
  split
  · split <;> omega
  · split <;> omega

/-- PRIORITY 2: the RFC 3339 text `fmtTime` writes for the key of a real instant is read back as that key. -/
theorem parseTime_fmtTime_ok (t : Int) (h : OkTime t) : parseTime (fmtTime t) = some t := by
  obtain ⟨y, mo, d, hh, mi, s, ns, hy1, hy2, hmo1, hmo2, hd1, hd2, hh2, hmi2, hs2, hns, rfl⟩ := h
  have hd31 := daysIn_le y mo
  have hpos : zeroPacked ≤ pack y mo d hh mi s ns := by unfold zeroPacked pack; omega
  rw [fmtTime_fields y mo d hh mi s ns (by omega) (by omega) (by omega) (by omega) (by omega) hns hpos]
  rw [pad4 y (by omega), pad2 mo (by omega), pad2 d (by omega), pad2 hh (by omega), pad2 mi (by omega),
    pad2 s (by omega), pad9 ns hns]
  simp only [List.cons_append, List.nil_append]
  rw [parseTime_shape _ _ _ _ _ _ _ _ _ _ _ _ _ _ (fixedDigits 9 ns) y mo d hh mi s
    (by rw [num4 _ _ _ _ (by omega) (by omega) (by omega) (by omega)]; congr 1; omega)
    (by rw [num2 _ _ (by omega) (by omega)]; congr 1; omega)
    (by rw [num2 _ _ (by omega) (by omega)]; congr 1; omega)
    (by rw [num2 _ _ (by omega) (by omega)]; congr 1; omega)
    (by rw [num2 _ _ (by omega) (by omega)]; congr 1; omega)
    (by rw [num2 _ _ (by omega) (by omega)]; congr 1; omega)
    ⟨hmo1, hmo2, hd1, hd2, hh2, hmi2, hs2⟩ (fixedDigits_all 9 ns) (fixedDigits_length 9 ns)]
  rw [fixedDigits_value, Nat.mod_eq_of_lt (by simpa using hns)]

/-! ### The text of `fmtTime` is a literal body the scanner accepts -/

/-- helper for PRIORITY 3: a text without quote, backslash and control bytes is an accepted literal body -/
theorem litOK_of_plain (b : Bytes) (h : ∀ c ∈ b, 32 ≤ c ∧ c ≠ 34 ∧ c ≠ 92) : litOK b = true := by
  induction b with
  | nil => rfl
  | cons a r ih =>
    have ha := h a (by simp)
    have hr : ∀ c ∈ r, 32 ≤ c ∧ c ≠ 34 ∧ c ≠ 92 := fun c hc => h c (by simp [hc])
    have h32 : ¬ a < 32 := UInt8.not_lt.mpr ha.1
    unfold litOK
    simp [ha.2.1, ha.2.2, h32, ih hr]

theorem plain_of_isDigit (c : UInt8) (h : isDigit c = true) : 32 ≤ c ∧ c ≠ 34 ∧ c ≠ 92 := by
  simp only [isDigit, Bool.and_eq_true, decide_eq_true_eq, UInt8.le_iff_toNat_le] at h
  refine ⟨?_, ?_, ?_⟩
  · rw [UInt8.le_iff_toNat_le]
    have : (32 : UInt8).toNat = 32 := rfl
    have : (48 : UInt8).toNat = 48 := rfl
    omega
  · intro hc; subst hc; revert h; decide
  · intro hc; subst hc; revert h; decide

theorem pad_isDigit (w n : Nat) : ∀ c ∈ pad w n, isDigit c = true := by
  intro c hc
  simp only [pad, List.mem_append, List.mem_replicate] at hc
  rcases hc with ⟨_, rfl⟩ | hc
  · decide
  · exact List.all_eq_true.mp (digitFacts.all_digits n) c hc

/-- every byte of `fmtTime t` is a digit or one of `- : T . Z` -/
theorem fmtTime_bytes (t : Int) :
    ∀ c ∈ fmtTime t, isDigit c = true ∨ c = 45 ∨ c = 58 ∨ c = 84 ∨ c = 46 ∨ c = 90 := by
  intro c hc
  simp only [fmtTime, List.mem_append, List.mem_singleton] at hc
  rcases hc with ((((((((((((hc | hc) | hc) | hc) | hc) | hc) | hc) | hc) | hc) | hc) | hc) | hc) | hc) | hc
  all_goals first
    | exact Or.inl (pad_isDigit _ _ c hc)
    | (subst hc; decide)

/-- PRIORITY 3: the RFC 3339 text of any key is a string-literal body the scanner reads to its end. -/
theorem litOK_fmtTime (t : Int) : litOK (fmtTime t) = true := by
  apply litOK_of_plain
  intro c hc
  rcases fmtTime_bytes t c hc with h | h | h | h | h | h
  · exact plain_of_isDigit c h
  all_goals (subst h; decide)

end Wtf.History.Json
