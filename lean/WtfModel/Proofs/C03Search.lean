import WtfModel.Proofs.C03Scan
import WtfModel.Proofs.C03Terms
/-
  C03, part 5: what `search` returns with NLP expansion and the typo fallback off, in terms of the
  scan specification.  Core Lean only; no law about the score type is used.
-/
namespace Wtf.Search
open Text Index Filters ScoreOps

variable {S : Type} [ScoreOps S]

theorem sortDesc_nil {α : Type} (key : α → S) : sortDesc key ([] : List α) = [] := by
  simp [sortDesc]

/-- the query terms that reach the index -/
def usedTerms (T : Tuning S) (db : Db) (q : Bytes) (o : Opts S) : List Token :=
  selectTopTerms T (build db) (tokenize (T.normQ q)) (effCap o)

/-- with NLP and the typo fallback off, SearchUniversal is: tokenise, select terms, accumulate,
    collect in document order, stable sort by score, truncate -/
theorem search_lexical_eq (T : Tuning S) (db : Db) (q : Bytes) (o : Opts S)
    (hn : o.useNLP = false) (hf : o.useFuzzy = false) :
    search T db q o =
      .ok ((sortDesc (·.2) (collect T db o none
            (initialScores T db (build db) o none (usedTerms T db q o)))).take (effLimit o)) := by
  unfold search usedTerms
  simp only [hn, hf, Bool.false_eq_true, ↓reduceIte]
  by_cases h0 : (tokenize (T.normQ q)).isEmpty
  · have : tokenize (T.normQ q) = [] := by simpa using h0
    simp [this, selectTopTerms, initialScores, collect, sortDesc_nil]
  · simp only [h0, Bool.false_eq_true, ↓reduceIte]
    split
    · rename_i h1
      have : initialScores T db (build db) o none (selectTopTerms T (build db) (tokenize (T.normQ q)) (effCap o)) = [] := by
        simpa using h1
      simp [this, collect, sortDesc_nil]
    · rfl

/-- the pipeline boost of collectResults (the only factor applied to a score when NLP is off) -/
def pipeAdj (T : Tuning S) (o : Opts S) (c : Cmd) (s : S) : S :=
  if isPipeline T.ri c && lt zero o.pipelineBoost then mul s o.pipelineBoost else s

theorem mem_collect_none (T : Tuning S) (db : Db) (o : Opts S) (m : List (Nat × S)) (d : Nat) (s : S)
    (h : (d, s) ∈ collect T db o none m) :
    ∃ c s0, db[d]? = some c ∧ (d, s0) ∈ m ∧ s = pipeAdj T o c s0 := by
  unfold collect at h
  rw [List.mem_filterMap] at h
  obtain ⟨⟨d', s0⟩, hm, hx⟩ := h
  simp only at hx
  split at hx
  · simp at hx
  · rename_i c hc
    simp only [Option.some.injEq, Prod.mk.injEq] at hx
    obtain ⟨rfl, rfl⟩ := hx
    exact ⟨c, s0, hc, hm, rfl⟩

omit [ScoreOps S] in
theorem lookup_of_mem {m : List (Nat × S)} (hs : KeysSorted m) {d : Nat} {s : S} (h : (d, s) ∈ m) :
    List.lookup d m = some s := by
  induction m with
  | nil => simp at h
  | cons a rest ih =>
    obtain ⟨d', s'⟩ := a
    simp only [KeysSorted, List.map_cons, List.pairwise_cons] at hs
    simp only [List.mem_cons, Prod.mk.injEq] at h
    rw [lookup_cons_if]
    cases h with
    | inl h => obtain ⟨rfl, rfl⟩ := h; simp
    | inr h =>
      have : d' < d := hs.1 d (List.mem_map_of_mem (f := (·.1)) h)
      have hne : ¬ d = d' := by omega
      simp only [hne, ↓reduceIte]
      exact ih hs.2 h

theorem scanScores_length_le (T : Tuning S) (db : Db) (o : Opts S) (terms : List Token) :
    (scanScores T db o terms).length ≤ db.length := by
  unfold scanScores
  exact Nat.le_trans (List.length_filterMap_le _ _) (by simp)

/-- a document has an entry in the scan score map iff it exists, passes the platform / pipeline
    gate and contains at least one live query term in one of its four fields -/
theorem scanEntry_isSome (T : Tuning S) (db : Db) (o : Opts S) (terms : List Token) (d : Nat) :
    (scanEntry T db o terms d).isSome = true ↔
      ∃ c, db[d]? = some c ∧ passes T.ri T.host o.filter c = true ∧
        ∃ t ∈ terms, containsTerm c t = true ∧ termLive T db t = true := by
  unfold scanEntry
  cases hdb : db[d]? with
  | none => simp
  | some c =>
    simp only [Option.some.injEq, exists_eq_left']
    by_cases hp : passes T.ri T.host o.filter c = true
    · simp only [hp, ↓reduceIte, true_and, scanScore_isSome, List.any_eq_true, Bool.and_eq_true]
    · simp [hp]

/-- **what a lexical search returns** (NLP expansion and typo fallback off), for every database,
    query, option record and parameter values:
    * every returned score is the scan score of that command (times the pipeline boost where it applies);
    * no command is returned twice;
    * when the limit does not cut (limit ≥ number of commands) the returned commands are exactly
      those with a scan entry. -/
theorem search_lexical_spec (T : Tuning S) (db : Db) (q : Bytes) (o : Opts S)
    (hn : o.useNLP = false) (hf : o.useFuzzy = false) :
    ∃ res, search T db q o = .ok res ∧
      (∀ d s, (d, s) ∈ res → ∃ c s0, db[d]? = some c ∧
          scanEntry T db o (usedTerms T db q o) d = some s0 ∧ s = pipeAdj T o c s0) ∧
      (res.map (·.1)).Nodup ∧
      (db.length ≤ effLimit o → ∀ d, d ∈ res.map (·.1) ↔ (scanEntry T db o (usedTerms T db q o) d).isSome = true) := by
  refine ⟨_, search_lexical_eq T db q o hn hf, ?_, ?_, ?_⟩
  · intro d s h
    have h1 := (mem_sortDesc _).mp (List.mem_of_mem_take h)
    obtain ⟨c, s0, hc, hm, hs⟩ := mem_collect_none T db o _ d s h1
    refine ⟨c, s0, hc, ?_, hs⟩
    have hl := lookup_of_mem (initialScores_inv T db (build db) o none _).1 hm
    rw [initialScores_eq_scanScores T db (build db) (buildSpec_build db)] at hl
    unfold scanScores at hl
    rw [lookup_filterMap_range (fun d => scanEntry T db o (usedTerms T db q o) d)] at hl
    split at hl
    · exact hl
    · simp at hl
  · have hinv := initialScores_inv T db (build db) o none (usedTerms T db q o)
    have hids := collect_ids T db o none _ (fun k hk => by obtain ⟨c, hc, _⟩ := hinv.2 k hk; exact ⟨c, hc⟩)
    have hnd : ((sortDesc (·.2) (collect T db o none (initialScores T db (build db) o none (usedTerms T db q o)))).map (·.1)).Nodup := by
      apply sortDesc_nodup_map
      rw [hids]; exact keysSorted_nodup hinv.1
    exact (List.Sublist.map _ (List.take_sublist _ _)).nodup hnd
  · intro hlim d
    have hinv := initialScores_inv T db (build db) o none (usedTerms T db q o)
    have hids := collect_ids T db o none _ (fun k hk => by obtain ⟨c, hc, _⟩ := hinv.2 k hk; exact ⟨c, hc⟩)
    have hlen : (sortDesc (·.2) (collect T db o none (initialScores T db (build db) o none (usedTerms T db q o)))).length ≤ effLimit o := by
      rw [length_sortDesc]
      have : (collect T db o none (initialScores T db (build db) o none (usedTerms T db q o))).length =
          (initialScores T db (build db) o none (usedTerms T db q o)).length := by
        have := congrArg List.length hids
        simpa using this
      rw [this, initialScores_eq_scanScores T db (build db) (buildSpec_build db)]
      exact Nat.le_trans (scanScores_length_le T db o _) hlim
    rw [List.take_of_length_le hlen]
    have hperm := sortDesc_map_perm (S := S) (·.2) (·.1) (collect T db o none (initialScores T db (build db) o none (usedTerms T db q o)))
    rw [hperm.mem_iff, hids, ← lookup_isSome_iff_mem, lookup_initialScores T db (build db) (buildSpec_build db)]
    rfl

end Wtf.Search
