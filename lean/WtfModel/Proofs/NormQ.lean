import WtfModel.Model.NormQ
/-! Lemmas about Go's `strings.ToLower` as modelled in Basic/GoStr.lean.  Core Lean only. -/
namespace Wtf.GoStr
open Wtf.Utf8 Wtf.Text

/-- lower-casing without the all-ASCII fast path -/
def toLowerGen (ri : RuneInfo) (s : Bytes) : Bytes :=
  ((decode s).map (fun x => encodeRune (ri.lower x.1))).flatten

def asciiLower (r : Nat) : Nat := if 0x41 ≤ r && r ≤ 0x5A then r + 0x20 else r

theorem lower_ascii (ri : RuneInfo) (r : Nat) (h : r < 0x80) : ri.lower r = asciiLower r := by
  simp [RuneInfo.lower, asciiLower, h]

/-- a complete table over the 128 ASCII code points (a finite domain enumerated entirely) -/
theorem enc_table : ∀ n, n < 128 → encodeRune (asciiLower n) = [lowerB (UInt8.ofNat n)] := by decide

theorem enc_lower_ascii (ri : RuneInfo) (b : UInt8) (hb : b < 0x80) :
    encodeRune (ri.lower b.toNat) = [lowerB b] := by
  have h1 : b.toNat < 128 := by simpa using UInt8.lt_iff_toNat_lt.mp hb
  rw [lower_ascii ri _ h1, enc_table _ h1]
  simp

theorem dec_ascii (b : UInt8) (rest : Bytes) (hb : b < 0x80) : decodeRune (b :: rest) = (b.toNat, 1) := by
  simp [decodeRune, hb]

theorem gen_ascii (ri : RuneInfo) : ∀ (bs : Bytes) (fuel off : Nat), bs.length ≤ fuel → bs.all (· < 0x80) = true →
    ((decodeAux fuel off bs).map (fun x => encodeRune (ri.lower x.1))).flatten = bs.map lowerB := by
  intro bs
  induction bs with
  | nil => intro fuel off _ _; cases fuel <;> simp [decodeAux]
  | cons b rest ih =>
    intro fuel off hf ha
    cases fuel with
    | zero => simp at hf
    | succ fuel =>
      simp only [List.all_cons, Bool.and_eq_true, decide_eq_true_eq] at ha
      simp only [decodeAux, dec_ascii b rest ha.1]
      simp only [Nat.reduceBEq, Bool.false_eq_true, ↓reduceIte, List.map_cons, List.flatten_cons,
        List.drop_succ_cons, List.drop_zero]
      rw [ih fuel (off + 1) (by simpa using hf) ha.2, enc_lower_ascii ri b ha.1]
      rfl

/-- the fast path of strings.ToLower agrees with the general path -/
theorem toLower_eq_gen (ri : RuneInfo) (s : Bytes) : toLower ri s = toLowerGen ri s := by
  unfold toLower toLowerGen
  split
  · rename_i h
    rw [decode, gen_ascii ri s s.length 0 (Nat.le_refl _) (by simpa [isAsciiStr] using h)]
    rfl
  · rfl

/-- lower-casing depends only on the lower-case forms of the runes, in order -/
theorem toLowerGen_runes (ri : RuneInfo) (s : Bytes) :
    toLowerGen ri s = (((runes s).map ri.lower).map encodeRune).flatten := by
  simp [toLowerGen, runes, List.map_map, Function.comp_def]

end Wtf.GoStr
