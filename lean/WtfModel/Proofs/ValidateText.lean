import WtfModel.Model.Validate

/-!
  Facts about the code-point level steps of `Model/Validate.lean`: `fields`, `joinSp`, `trimSpace`,
  and the small table facts (proved by evaluation over the regenerated `Gen.Validate` lists).
-/
namespace Wtf.Validate

/-! ### table facts -/

theorem isSpace_sp : isSpace 0x20 = true := by decide
theorem isControl_sp : isControl 0x20 = false := by decide
theorem isMeta_sp : isMeta 0x20 = false := by decide
theorem scalar_sp : scalar 0x20 := by decide
theorem isSpace_FFFD : isSpace 0xFFFD = false := by decide

/-- every control character that the `strings.Map` callback exempts is white space (so `Fields` removes it) -/
theorem keptControls_space : Wtf.Gen.Validate.keptControls.all isSpace = true := by decide

/-- the metacharacters are ASCII, and neither white space nor control characters -/
theorem metaChars_plain :
    Wtf.Gen.Validate.metaChars.all (fun c => !isSpace c && !isControl c && decide (c < 0x80)) = true := by decide

theorem isMeta_eq_shell (c : Nat) : isMeta c = isShellMeta c := by
  rw [Bool.eq_iff_iff]
  simp only [isMeta, isShellMeta, Wtf.Gen.Validate.metaChars, shellMetas, List.contains_eq_mem, List.mem_cons,
    List.not_mem_nil, or_false, decide_eq_true_eq]
  try omega

theorem space_scalar {c : Nat} (h : isSpace c = true) : scalar c := by
  simp [isSpace, inRanges, spaceRanges] at h
  unfold scalar; omega

theorem maxQueryLength_eq : maxQueryLength = 1000 := by decide
theorem maxLimit_eq : maxLimit = 100 := by decide

theorem kept_control_space {c : Nat} (hk : kept c = true) (hc : isControl c = true) : isSpace c = true := by
  have := keptControls_space
  rw [List.all_eq_true] at this
  apply this
  simpa [kept, hc] using hk

theorem kept_of_not_control {c : Nat} (hc : isControl c = false) : kept c = true := by simp [kept, hc]

theorem not_control_of_kept_nonspace {c : Nat} (hk : kept c = true) (hs : isSpace c = false) : isControl c = false := by
  cases h : isControl c
  · rfl
  · rw [kept_control_space hk h] at hs; cases hs

theorem meta_plain {c : Nat} (hm : isMeta c = true) : isSpace c = false ∧ isControl c = false ∧ c < 0x80 := by
  have := metaChars_plain
  rw [List.all_eq_true] at this
  have := this c (by simpa [isMeta] using hm)
  simp only [Bool.and_eq_true, Bool.not_eq_true', decide_eq_true_eq] at this
  exact ⟨this.1.1, this.1.2, this.2⟩

theorem meta_kept {c : Nat} (hm : isMeta c = true) : kept c = true := kept_of_not_control (meta_plain hm).2.1

/-! ### fields -/

theorem fields_cons (c : Nat) (cs : List Nat) :
    fields (c :: cs) = if isSpace c = true then fields cs
      else if startsNonSpace cs = true then consHead c (fields cs) else [c] :: fields cs := by
  simp [fields]

theorem mem_takeWhile {p : Nat → Bool} {l : List Nat} {x : Nat} (h : x ∈ l.takeWhile p) : p x = true := by
  induction l with
  | nil => simp at h
  | cons c l ih =>
    rw [List.takeWhile_cons] at h
    split at h
    · rcases List.mem_cons.mp h with rfl | h
      · assumption
      · exact ih h
    · simp at h

theorem getLast?_append_cons (a : List Nat) (c : Nat) {r : List Nat} (h : r ≠ []) : (a ++ c :: r).getLast? = r.getLast? := by
  induction a with
  | nil => exact List.getLast?_cons_of_ne_nil h
  | cons x a ih => rw [List.cons_append, List.getLast?_cons_of_ne_nil (by simp), ih]

theorem fields_space {c : Nat} (cs : List Nat) (h : isSpace c = true) : fields (c :: cs) = fields cs := by
  simp [fields, h]

theorem fields_allSpace {cs : List Nat} (h : ∀ x ∈ cs, isSpace x = true) : fields cs = [] := by
  induction cs with
  | nil => rfl
  | cons c cs ih =>
    rw [fields_space cs (h c (by simp))]
    exact ih (fun x hx => h x (by simp [hx]))

theorem fields_ne_nil_of_nonspace {cs : List Nat} {x : Nat} (hx : x ∈ cs) (hs : isSpace x = false) : fields cs ≠ [] := by
  induction cs with
  | nil => simp at hx
  | cons c cs ih =>
    unfold fields
    by_cases hc : isSpace c = true
    · rw [if_pos hc]
      rcases List.mem_cons.mp hx with rfl | hx
      · rw [hs] at hc; cases hc
      · exact ih hx
    · rw [if_neg hc]
      split
      · cases fields cs <;> simp [consHead]
      · simp

theorem fields_eq_nil_iff (cs : List Nat) : fields cs = [] ↔ ∀ x ∈ cs, isSpace x = true := by
  constructor
  · intro h x hx
    cases hs : isSpace x
    · exact absurd h (fields_ne_nil_of_nonspace hx hs)
    · rfl
  · exact fields_allSpace

theorem fields_ne_nil_of_starts {cs : List Nat} (h : startsNonSpace cs = true) : fields cs ≠ [] := by
  cases cs with
  | nil => simp [startsNonSpace] at h
  | cons d cs =>
    exact fields_ne_nil_of_nonspace (x := d) (by simp) (by simpa [startsNonSpace] using h)

/-- every field is a non-empty run of non-space code points of the text -/
theorem fields_good (cs : List Nat) : ∀ f ∈ fields cs, f ≠ [] ∧ ∀ x ∈ f, x ∈ cs ∧ isSpace x = false := by
  induction cs with
  | nil => simp [fields]
  | cons c cs ih =>
    unfold fields
    by_cases hc : isSpace c = true
    · rw [if_pos hc]
      intro f hf
      obtain ⟨h1, h2⟩ := ih f hf
      exact ⟨h1, fun x hx => ⟨by simp [(h2 x hx).1], (h2 x hx).2⟩⟩
    · rw [if_neg hc]
      have hc' : isSpace c = false := by simpa using hc
      split
      · intro f hf
        cases hfs : fields cs with
        | nil =>
          rw [hfs] at hf
          simp only [consHead, List.mem_singleton] at hf
          subst hf
          exact ⟨by simp, fun x hx => by simp at hx; subst hx; exact ⟨by simp, hc'⟩⟩
        | cons g gs =>
          rw [hfs] at hf
          simp only [consHead, List.mem_cons] at hf
          rcases hf with rfl | hf
          · obtain ⟨h1, h2⟩ := ih g (by simp [hfs])
            refine ⟨by simp, fun x hx => ?_⟩
            rcases List.mem_cons.mp hx with rfl | hx
            · exact ⟨by simp, hc'⟩
            · exact ⟨by simp [(h2 x hx).1], (h2 x hx).2⟩
          · obtain ⟨h1, h2⟩ := ih f (by simp [hfs, hf])
            exact ⟨h1, fun x hx => ⟨by simp [(h2 x hx).1], (h2 x hx).2⟩⟩
      · intro f hf
        rcases List.mem_cons.mp hf with rfl | hf
        · exact ⟨by simp, fun x hx => by simp at hx; subst hx; exact ⟨by simp, hc'⟩⟩
        · obtain ⟨h1, h2⟩ := ih f hf
          exact ⟨h1, fun x hx => ⟨by simp [(h2 x hx).1], (h2 x hx).2⟩⟩

theorem consHead_append (c : Nat) {fs : List (List Nat)} (gs : List (List Nat)) (h : fs ≠ []) :
    consHead c (fs ++ gs) = consHead c fs ++ gs := by
  cases fs with
  | nil => exact absurd rfl h
  | cons f fs => rfl

theorem startsNonSpace_append {a : List Nat} (b : List Nat) (h : a ≠ []) : startsNonSpace (a ++ b) = startsNonSpace a := by
  cases a with
  | nil => exact absurd rfl h
  | cons x a => rfl

/-- splitting distributes over `++` when the right part is empty or starts with white space -/
theorem fields_append (a b : List Nat) (hb : startsNonSpace b = false) : fields (a ++ b) = fields a ++ fields b := by
  induction a with
  | nil => simp [fields]
  | cons c a ih =>
    rw [List.cons_append, fields_cons c (a ++ b), fields_cons c a]
    by_cases hc : isSpace c = true
    · simp only [if_pos hc]; exact ih
    · simp only [if_neg hc]
      cases a with
      | nil =>
        simp only [List.nil_append, hb, Bool.false_eq_true, if_false]
        simp [startsNonSpace, fields]
      | cons d a =>
        rw [startsNonSpace_append b (by simp)]
        split
        · rename_i hd
          rw [ih, consHead_append c _ (fields_ne_nil_of_starts hd)]
        · rw [ih]; rfl

theorem fields_append_spaces (a s : List Nat) (hs : ∀ x ∈ s, isSpace x = true) : fields (a ++ s) = fields a := by
  rw [fields_append a s, fields_allSpace hs, List.append_nil]
  cases s with
  | nil => rfl
  | cons x s => simp [startsNonSpace, hs x (by simp)]

theorem fields_spaces_append (s a : List Nat) (hs : ∀ x ∈ s, isSpace x = true) : fields (s ++ a) = fields a := by
  induction s with
  | nil => rfl
  | cons x s ih =>
    rw [List.cons_append, fields_space _ (hs x (by simp))]
    exact ih (fun y hy => hs y (by simp [hy]))

/-- a run of white space in the middle acts like a single space -/
theorem fields_inner (a s b : List Nat) (hs : ∀ x ∈ s, isSpace x = true) (hne : s ≠ []) :
    fields (a ++ s ++ b) = fields a ++ fields b := by
  rw [List.append_assoc, fields_append a (s ++ b), fields_spaces_append s b hs]
  cases s with
  | nil => exact absurd rfl hne
  | cons x s => simp [startsNonSpace, hs x (by simp)]

theorem fields_word {w : List Nat} (hne : w ≠ []) (hw : ∀ x ∈ w, isSpace x = false) : fields w = [w] := by
  induction w with
  | nil => exact absurd rfl hne
  | cons c w ih =>
    unfold fields
    have hc : ¬ isSpace c = true := by simp [hw c (by simp)]
    rw [if_neg hc]
    cases w with
    | nil => simp [startsNonSpace, fields]
    | cons d w =>
      have hd : startsNonSpace (d :: w) = true := by simp [startsNonSpace, hw d (by simp)]
      rw [if_pos hd, ih (by simp) (fun x hx => hw x (by simp [hx]))]
      rfl

/-- a list of words: non-empty, free of white space -/
def Words (ws : List (List Nat)) : Prop := ∀ f ∈ ws, f ≠ [] ∧ ∀ x ∈ f, isSpace x = false

theorem words_fields (cs : List Nat) : Words (fields cs) :=
  fun f hf => ⟨(fields_good cs f hf).1, fun x hx => ((fields_good cs f hf).2 x hx).2⟩

/-- splitting what `Join` produced gives the words back -/
theorem fields_joinSp {ws : List (List Nat)} (h : Words ws) : fields (joinSp ws) = ws := by
  induction ws with
  | nil => rfl
  | cons f ws ih =>
    have hf := h f (by simp)
    have hws : Words ws := fun g hg => h g (by simp [hg])
    cases ws with
    | nil => simpa [joinSp] using fields_word hf.1 hf.2
    | cons g ws =>
      have : joinSp (f :: g :: ws) = f ++ (0x20 :: joinSp (g :: ws)) := rfl
      rw [this, fields_append f _ (by simp [startsNonSpace, isSpace_sp]), fields_word hf.1 hf.2,
        fields_space _ isSpace_sp, ih hws]
      rfl

/-! ### trimSpace -/

theorem fields_dropWhile (cs : List Nat) : fields (cs.dropWhile isSpace) = fields cs := by
  induction cs with
  | nil => rfl
  | cons c cs ih =>
    by_cases hc : isSpace c = true
    · rw [List.dropWhile_cons_of_pos hc, ih, fields_space cs hc]
    · rw [List.dropWhile_cons_of_neg hc]

theorem trimRight_spec (l : List Nat) :
    ∃ s, (∀ x ∈ s, isSpace x = true) ∧ l = (l.reverse.dropWhile isSpace).reverse ++ s := by
  refine ⟨(l.reverse.takeWhile isSpace).reverse, ?_, ?_⟩
  · intro x hx
    exact mem_takeWhile (List.mem_reverse.mp hx)
  · rw [← List.reverse_append, List.takeWhile_append_dropWhile, List.reverse_reverse]

theorem fields_trimSpace (cs : List Nat) : fields (trimSpace cs) = fields cs := by
  unfold trimSpace
  obtain ⟨s, hs, he⟩ := trimRight_spec (cs.dropWhile isSpace)
  have : fields (cs.dropWhile isSpace) = fields ((List.dropWhile isSpace (cs.dropWhile isSpace).reverse).reverse) := by
    conv => lhs; rw [he]
    exact fields_append_spaces _ s hs
  rw [← this, fields_dropWhile]

/-! ### joinSp -/

theorem joinSp_cons_cons (f g : List Nat) (ws : List (List Nat)) : joinSp (f :: g :: ws) = f ++ 0x20 :: joinSp (g :: ws) := rfl

theorem joinSp_eq_nil {ws : List (List Nat)} (h : Words ws) : joinSp ws = [] ↔ ws = [] := by
  cases ws with
  | nil => simp [joinSp]
  | cons f ws =>
    have := (h f (by simp)).1
    cases ws with
    | nil => simp [joinSp, this]
    | cons g ws => simp [joinSp_cons_cons, this]

theorem mem_joinSp {ws : List (List Nat)} {x : Nat} (hx : x ∈ joinSp ws) : x = 0x20 ∨ ∃ f ∈ ws, x ∈ f := by
  induction ws with
  | nil => simp [joinSp] at hx
  | cons f ws ih =>
    cases ws with
    | nil => exact .inr ⟨f, by simp, by simpa [joinSp] using hx⟩
    | cons g ws =>
      rw [joinSp_cons_cons] at hx
      rcases List.mem_append.mp hx with h | h
      · exact .inr ⟨f, by simp, h⟩
      · rcases List.mem_cons.mp h with h | h
        · exact .inl h
        · rcases ih h with h | ⟨k, hk, hxk⟩
          · exact .inl h
          · exact .inr ⟨k, by simp [hk], hxk⟩

theorem noAdjSpace_word_append {w : List Nat} (hw : ∀ x ∈ w, isSpace x = false) {r : List Nat} (hr : noAdjSpace r) :
    noAdjSpace (w ++ r) := by
  induction w with
  | nil => exact hr
  | cons c w ih =>
    have hc := hw c (by simp)
    have := ih (fun x hx => hw x (by simp [hx]))
    cases hwr : w ++ r with
    | nil => rw [List.cons_append, hwr]; trivial
    | cons d t =>
      rw [List.cons_append, hwr]
      rw [hwr] at this
      exact ⟨by simp [hc], this⟩

theorem head_joinSp {ws : List (List Nat)} (h : Words ws) : ∀ x, (joinSp ws).head? = some x → isSpace x = false := by
  intro x hx
  cases ws with
  | nil => simp [joinSp] at hx
  | cons f ws =>
    obtain ⟨hne, hf⟩ := h f (by simp)
    cases f with
    | nil => exact absurd rfl hne
    | cons c f =>
      have : (joinSp ((c :: f) :: ws)).head? = some c := by
        cases ws <;> simp [joinSp]
      rw [this] at hx
      have hcx : c = x := by simpa using hx
      rw [← hcx]
      exact hf c (by simp)

theorem noAdjSpace_joinSp {ws : List (List Nat)} (h : Words ws) : noAdjSpace (joinSp ws) := by
  induction ws with
  | nil => trivial
  | cons f ws ih =>
    have hf := h f (by simp)
    have hws : Words ws := fun g hg => h g (by simp [hg])
    cases ws with
    | nil =>
      have := noAdjSpace_word_append hf.2 (r := []) trivial
      simpa [joinSp] using this
    | cons g ws =>
      rw [joinSp_cons_cons]
      apply noAdjSpace_word_append hf.2
      have ihh := ih hws
      have hd := head_joinSp hws
      cases hj : joinSp (g :: ws) with
      | nil => trivial
      | cons d t =>
        rw [hj] at ihh hd
        exact ⟨by simp [hd d rfl], ihh⟩

theorem getLast_joinSp {ws : List (List Nat)} (h : Words ws) : ∀ x, (joinSp ws).getLast? = some x → isSpace x = false := by
  induction ws with
  | nil => intro x hx; simp [joinSp] at hx
  | cons f ws ih =>
    have hf := h f (by simp)
    have hws : Words ws := fun g hg => h g (by simp [hg])
    intro x hx
    cases ws with
    | nil =>
      simp only [joinSp] at hx
      exact hf.2 x (List.mem_of_getLast? hx)
    | cons g ws =>
      rw [joinSp_cons_cons] at hx
      have hne : joinSp (g :: ws) ≠ [] := by
        rw [Ne, joinSp_eq_nil hws]; simp
      rw [getLast?_append_cons f 0x20 hne] at hx
      exact ih hws x hx

/-! ### weights (number of characters, number of bytes) -/

def weight (w : Nat → Nat) (l : List Nat) : Nat := (l.map w).sum

theorem weight_cons (w : Nat → Nat) (c : Nat) (l : List Nat) : weight w (c :: l) = w c + weight w l := by
  simp [weight]

theorem weight_append (w : Nat → Nat) (a b : List Nat) : weight w (a ++ b) = weight w a + weight w b := by
  simp [weight]

theorem joinSp_consHead (c : Nat) {fs : List (List Nat)} (h : fs ≠ []) : joinSp (consHead c fs) = c :: joinSp fs := by
  cases fs with
  | nil => exact absurd rfl h
  | cons f fs => cases fs <;> rfl

/-- Collapsing never increases a weight for which a plain space is the lightest white-space character.
    (The second component is the induction invariant for text that starts with white space.) -/
theorem weight_collapse (w : Nat → Nat) (hw : ∀ c, isSpace c = true → w 0x20 ≤ w c) (cs : List Nat) :
    weight w (joinSp (fields cs)) + (if startsNonSpace cs = false ∧ cs ≠ [] then w 0x20 else 0) ≤ weight w cs := by
  induction cs with
  | nil => simp [fields, joinSp, weight]
  | cons c cs ih =>
    rw [weight_cons]
    unfold fields
    by_cases hc : isSpace c = true
    · have h1 : startsNonSpace (c :: cs) = false := by simp [startsNonSpace, hc]
      have := hw c hc
      simp only [if_pos hc, h1, true_and, ne_eq, reduceCtorEq, not_false_eq_true, if_true]
      have : weight w (joinSp (fields cs)) ≤ weight w cs := by
        have := ih; omega
      omega
    · have h1 : ¬ (startsNonSpace (c :: cs) = false ∧ c :: cs ≠ []) := by simp [startsNonSpace, hc]
      simp only [if_neg hc, if_neg h1, Nat.add_zero]
      by_cases hs : startsNonSpace cs = true
      · have h2 : ¬ (startsNonSpace cs = false ∧ cs ≠ []) := by simp [hs]
        rw [if_pos hs, joinSp_consHead c (fields_ne_nil_of_starts hs), weight_cons]
        simp only [if_neg h2, Nat.add_zero] at ih
        omega
      · rw [if_neg hs]
        have hs' : startsNonSpace cs = false := by simpa using hs
        cases hf : fields cs with
        | nil => simp [joinSp, weight]
        | cons g gs =>
          have hne : cs ≠ [] := by intro h; rw [h] at hf; simp [fields] at hf
          rw [joinSp_cons_cons, ← hf, weight_append, weight_cons]
          have h3 : startsNonSpace cs = false ∧ cs ≠ [] := ⟨hs', hne⟩
          simp only [if_pos h3] at ih
          simp only [weight, List.map_cons, List.map_nil, List.sum_cons, List.sum_nil] at *
          omega

theorem weight_dropWhile_le (w : Nat → Nat) (p : Nat → Bool) (l : List Nat) : weight w (l.dropWhile p) ≤ weight w l := by
  induction l with
  | nil => simp
  | cons c l ih =>
    rw [List.dropWhile_cons]
    split
    · rw [weight_cons]; omega
    · exact Nat.le_refl _

theorem weight_filter_le (w : Nat → Nat) (p : Nat → Bool) (l : List Nat) : weight w (l.filter p) ≤ weight w l := by
  induction l with
  | nil => simp
  | cons c l ih =>
    rw [List.filter_cons]
    split
    · rw [weight_cons, weight_cons]; omega
    · rw [weight_cons]; omega

end Wtf.Validate
