import WtfModel.Model.Embedding

/-!
  Helper lemmas about the byte-level loaders of `Model/Embedding.lean` (core Lean only):
  lengths consumed, shape of the returned records, allocation totals.
-/
namespace Wtf.Embedding

/-! ### reader -/

theorem readFull_ok {n : Nat} {bs x rest : Bytes} (h : readFull n bs = .ok (x, rest)) :
    bs = x ++ rest ∧ x.length = n := by
  unfold readFull at h
  split at h
  · rename_i h0
    cases h; subst h0; simp
  · split at h
    · rename_i hle
      cases h
      exact ⟨(List.take_append_drop n bs).symm, by simp [List.length_take]; omega⟩
    · split at h <;> cases h

theorem readFull_len {n : Nat} {bs x rest : Bytes} (h : readFull n bs = .ok (x, rest)) :
    bs.length = n + rest.length := by
  have ⟨h1, h2⟩ := readFull_ok h
  rw [h1, List.length_append, h2]

/-- a read that fits never fails -/
theorem readFull_fits {n : Nat} {bs : Bytes} (h : n ≤ bs.length) :
    ∃ x rest, readFull n bs = .ok (x, rest) := by
  unfold readFull
  by_cases h0 : n = 0
  · simp [h0]
  · simp [h0, h]

theorem leNat_lt (bs : Bytes) : leNat bs < 256 ^ bs.length := by
  induction bs with
  | nil => simp [leNat]
  | cons b bs ih =>
    simp only [leNat, List.length_cons, Nat.pow_succ]
    have := b.toNat_lt
    omega

theorem f32sOfBytes_length : ∀ (n : Nat) (bs : Bytes), bs.length = 4 * n → (f32sOfBytes bs).length = n
  | 0, bs, h => by
    have : bs = [] := List.eq_nil_of_length_eq_zero (by omega)
    subst this; simp [f32sOfBytes]
  | n + 1, bs, h => by
    match bs, h with
    | a :: b :: c :: d :: rest, h =>
      simp only [f32sOfBytes, List.length_cons]
      have := f32sOfBytes_length n rest (by simp only [List.length_cons] at h; omega)
      omega

/-! ### allocation totals -/

@[simp] theorem allocTotal_nil : allocTotal [] = 0 := rfl

@[simp] theorem allocTotal_cons (a : Alloc) (l : List Alloc) : allocTotal (a :: l) = a.cost + allocTotal l := by
  simp [allocTotal]

@[simp] theorem allocTotal_append (l m : List Alloc) : allocTotal (l ++ m) = allocTotal l + allocTotal m := by
  simp [allocTotal, List.sum_append]

theorem allocTotal_wvRec (dim wl : Nat) : allocTotal (wvRecAllocs dim wl) = 2 + wl + 8 * dim := by
  simp [wvRecAllocs, Alloc.cost]; omega

theorem allocTotal_ceRec (dim : Nat) : allocTotal (ceRecAllocs dim) = 8 * dim := by
  simp [ceRecAllocs, Alloc.cost]; omega

/-! ### word-vector records -/

/-- bytes one record occupies in the file -/
def wvRecSize (dim : Nat) (r : WordRec) : Nat := 2 + r.1.length + 4 * dim

def wvSize (dim : Nat) (recs : List WordRec) : Nat := (recs.map (wvRecSize dim)).sum

/-- allocation requests of the record loop: twice the bytes it could read, plus one record's worth
    for the record on which it stops -/
theorem wvRecords_alloc (dim : Nat) : ∀ (todo i : Nat) (bs : Bytes),
    allocTotal (wvRecords dim todo i bs).allocs ≤ 2 * bs.length + (65537 + 8 * dim)
  | 0, _, _ => by simp [wvRecords]
  | todo + 1, i, bs => by
    unfold wvRecords
    split
    · simp [Alloc.cost]; omega
    · rename_i lb bs1 h1
      have hl1 := readFull_len h1
      have hlb : leNat lb < 65536 := by
        have := leNat_lt lb
        rw [(readFull_ok h1).2] at this
        simpa using this
      simp only []
      split
      · simp [Alloc.cost]; omega
      · rename_i w bs2 h2
        have hl2 := readFull_len h2
        split
        · rw [allocTotal_wvRec]; omega
        · rename_i vb bs3 h3
          have hl3 := readFull_len h3
          have ih := wvRecords_alloc dim todo (i + 1) bs3
          simp only [allocTotal_append, allocTotal_wvRec]
          omega

/-- a successful loop returned exactly `todo` records, each with a `dim`-component vector and a word
    shorter than 2^16, and the unread input held all of them -/
theorem wvRecords_ok (dim : Nat) : ∀ (todo i : Nat) (bs : Bytes) (recs : List WordRec),
    (wvRecords dim todo i bs).res = .ok recs →
      recs.length = todo ∧ wvSize dim recs ≤ bs.length ∧
      ∀ r ∈ recs, r.2.length = dim ∧ r.1.length < 65536
  | 0, _, _, recs, h => by
    simp [wvRecords] at h
    subst h; simp [wvSize]
  | todo + 1, i, bs, recs, h => by
    unfold wvRecords at h
    split at h
    · cases h
    · rename_i lb bs1 h1
      have hl1 := readFull_len h1
      have hlb : leNat lb < 65536 := by
        have := leNat_lt lb
        rw [(readFull_ok h1).2] at this
        simpa using this
      simp only [] at h
      split at h
      · cases h
      · rename_i w bs2 h2
        have hl2 := readFull_len h2
        have hw := (readFull_ok h2).2
        split at h
        · cases h
        · rename_i vb bs3 h3
          have hl3 := readFull_len h3
          have hv := (readFull_ok h3).2
          simp only [] at h
          split at h
          · rename_i recs' hr
            cases h
            have ih := wvRecords_ok dim todo (i + 1) bs3 recs' hr
            refine ⟨by simp [ih.1], ?_, ?_⟩
            · simp only [wvSize, List.map_cons, List.sum_cons, wvRecSize] at *
              omega
            · intro r hr
              rcases List.mem_cons.mp hr with rfl | hr
              · exact ⟨f32sOfBytes_length dim vb hv, by show w.length < 65536; omega⟩
              · exact ih.2.2 r hr
          · cases h

theorem wvSize_ge (dim : Nat) : ∀ recs : List WordRec, recs.length * (2 + 4 * dim) ≤ wvSize dim recs
  | [] => by simp [wvSize]
  | r :: rs => by
    have ih := wvSize_ge dim rs
    simp only [wvSize, List.map_cons, List.sum_cons, List.length_cons, wvRecSize] at *
    rw [Nat.succ_mul]; omega

theorem distinct_length_le : ∀ l : List Bytes, (distinct l).length ≤ l.length
  | [] => by simp [distinct]
  | x :: xs => by
    have ih := distinct_length_le xs
    have := List.length_filter_le (fun y => y != x) (distinct xs)
    simp only [distinct, List.length_cons]
    omega

theorem vocab_length_le {V : Type} (recs : List (Bytes × V)) : (vocab recs).length ≤ recs.length := by
  have := distinct_length_le (recs.map (·.1))
  simpa [vocab] using this

/-- every request of the unchecked loader includes the table sized from the header -/
theorem wv_unchecked_alloc (dim : Nat) (file hb rest : Bytes) (h : readFull 4 file = .ok (hb, rest)) :
    mapEntryCost * leNat hb ≤ allocTotal (parseWordVectorsWith false dim file).allocs := by
  simp [parseWordVectorsWith, h, Alloc.cost]
  omega

/-! ### command-embedding records -/

theorem ceRecords_alloc (dim : Nat) : ∀ (todo i : Nat) (bs : Bytes),
    allocTotal (ceRecords dim todo i bs).2.2 ≤ 8 * dim * todo
  | 0, _, _ => by simp [ceRecords]
  | todo + 1, i, bs => by
    unfold ceRecords
    split
    · simp only [allocTotal_ceRec, Nat.mul_succ]; omega
    · rename_i vb bs1 h1
      have ih := ceRecords_alloc dim todo (i + 1) bs1
      simp only [allocTotal_append, allocTotal_ceRec, Nat.mul_succ]
      omega

/-- if the unread input holds `todo` records the loop does not fail -/
theorem ceRecords_fits (dim : Nat) : ∀ (todo i : Nat) (bs : Bytes), todo * (4 * dim) ≤ bs.length →
    (ceRecords dim todo i bs).2.1 = none
  | 0, _, _, _ => by simp [ceRecords]
  | todo + 1, i, bs, h => by
    have hfit : 4 * dim ≤ bs.length := by
      rw [Nat.succ_mul] at h; omega
    obtain ⟨x, rest, hx⟩ := readFull_fits hfit
    have hl := readFull_len hx
    unfold ceRecords
    simp only [hx]
    apply ceRecords_fits dim todo (i + 1) rest
    rw [Nat.succ_mul] at h; omega

theorem ceRecords_table (dim : Nat) : ∀ (todo i : Nat) (bs : Bytes),
    (ceRecords dim todo i bs).1.length = todo ∧
    ((ceRecords dim todo i bs).2.1 = none → ∀ v ∈ (ceRecords dim todo i bs).1, v.length = dim)
  | 0, _, _ => by simp [ceRecords]
  | todo + 1, i, bs => by
    unfold ceRecords
    split
    · simp
    · rename_i vb bs1 h1
      have ih := ceRecords_table dim todo (i + 1) bs1
      have hv := (readFull_ok h1).2
      refine ⟨by simp [ih.1], ?_⟩
      intro hn v hv'
      rcases List.mem_cons.mp hv' with rfl | hv'
      · exact f32sOfBytes_length dim vb hv
      · exact ih.2 hn v hv'

/-! ### EmbedQuery never panics on vectors that fit -/

section
variable {V : Type} [EScoreOps V]

theorem addVec_ok : ∀ (sum vec : List V), vec.length ≤ sum.length →
    ∃ r, addVec sum vec = .ok r ∧ r.length = sum.length
  | sum, [], _ => ⟨sum, by cases sum <;> simp [addVec], rfl⟩
  | [], _ :: _, h => by simp at h
  | s :: ss, v :: vs, h => by
    obtain ⟨r, hr, hl⟩ := addVec_ok ss vs (by simpa using h)
    exact ⟨EScoreOps.add s v :: r, by simp [addVec, hr], by simp [hl]⟩

theorem sumKnown_ok (lookup : Bytes → Option (List V)) (dim : Nat)
    (hfit : ∀ t vec, lookup t = some vec → vec.length ≤ dim) :
    ∀ (tokens : List Bytes) (acc : List V × Nat), acc.1.length = dim →
      ∃ r, sumKnown lookup tokens acc = .ok r ∧ r.1.length = dim
  | [], acc, h => ⟨acc, by simp [sumKnown], h⟩
  | t :: ts, (sum, count), h => by
    unfold sumKnown
    split
    · exact sumKnown_ok lookup dim hfit ts (sum, count) h
    · rename_i vec hv
      obtain ⟨r, hr, hl⟩ := addVec_ok sum vec (by simp at h; rw [h]; exact hfit t vec hv)
      simp only [hr]
      exact sumKnown_ok lookup dim hfit ts (r, count + 1) (by simp at h ⊢; rw [hl, h])

theorem embedTokens_no_panic (lookup : Bytes → Option (List V)) (dim : Nat)
    (hfit : ∀ t vec, lookup t = some vec → vec.length ≤ dim) (tokens : List Bytes) :
    ∃ r, embedTokens dim lookup tokens = .ok r := by
  unfold embedTokens
  split
  · exact ⟨none, rfl⟩
  · obtain ⟨r, hr, _⟩ := sumKnown_ok lookup dim hfit tokens (List.replicate dim EScoreOps.zero, 0) (by simp)
    rw [hr]
    obtain ⟨sum, count⟩ := r
    simp only []
    split
    · exact ⟨none, rfl⟩
    · exact ⟨_, rfl⟩

theorem lookupWord_mem {W : Type} (recs : List (Bytes × W)) (w : Bytes) (v : W)
    (h : lookupWord recs w = some v) : ∃ r ∈ recs, r.2 = v := by
  unfold lookupWord at h
  simp only [Option.map_eq_some_iff] at h
  obtain ⟨r, hr, rfl⟩ := h
  exact ⟨r, List.mem_reverse.mp (List.mem_of_find?_eq_some hr), rfl⟩

end

end Wtf.Embedding
