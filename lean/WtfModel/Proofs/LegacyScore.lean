import WtfModel.Model.LegacyEntry
import WtfModel.Proofs.ScoreLaws
/-
  Lemmas about the modelled legacy scorer (Model/LegacyScore.lean): every summand, factor and bonus is a
  non-negative regenerated constant, so `calculateScore` is non-negative as soon as the caller's context
  boosts are; with a negative boost it can be negative (witness in Props/C01b.lean) — which is why every
  entry point admits a result only after `score > 0`.  Core Lean only.
-/
namespace Wtf.LegacyScore
open Text GoStr ScoreOps ScoreLaws Filters Index

variable {S : Type} [ScoreOps S]

/-- a non-negative exact rational -/
def QNonneg (q : Q) : Prop := 0 ≤ q.num ∧ 0 < q.den

instance (q : Q) : Decidable (QNonneg q) := by unfold QNonneg; infer_instance

theorem ofQ_nonneg' [ScoreLaws S] {q : Q} (h : QNonneg q) : Nonneg (ofQ q : S) := ofQ_nonneg q h.1 h.2

/-! ### regenerated literals are non-negative (re-checked on every run: `decide` over Gen.LegacyScore) -/

theorem literals_nonneg :
    QNonneg Gen.LegacyScore.cmdExact ∧ QNonneg Gen.LegacyScore.cmdPrefix ∧ QNonneg Gen.LegacyScore.cmdWord ∧
    QNonneg Gen.LegacyScore.cmdContains ∧ QNonneg Gen.LegacyScore.domainScore ∧
    QNonneg Gen.LegacyScore.keywordExact ∧ QNonneg Gen.LegacyScore.keywordPartial ∧
    QNonneg Gen.LegacyScore.descWord ∧ QNonneg Gen.LegacyScore.descPartial ∧
    QNonneg Gen.LegacyScore.tagExact ∧ QNonneg Gen.LegacyScore.tagPartial ∧
    QNonneg Gen.LegacyScore.completenessBase ∧ QNonneg Gen.LegacyScore.completenessWeight ∧
    QNonneg Gen.LegacyScore.directBonus ∧ QNonneg Gen.LegacyScore.commandBonus ∧
    QNonneg Gen.LegacyScore.nicheBase ∧ QNonneg Gen.LegacyScore.nicheFactor ∧
    QNonneg Gen.LegacyScore.categoryInit ∧ QNonneg Gen.LegacyScore.categoryDefault ∧
    QNonneg Gen.LegacyScore.crossPlatformPenalty ∧ QNonneg Gen.LegacyScore.fuzzyDiscount ∧
    QNonneg Gen.LegacyScore.similarityScale ∧ QNonneg Gen.LegacyScore.fallbackPriority := by decide

/-- every value in the category rule table (the helpers get*Boost) is non-negative -/
def rulesNonneg : List (List Gen.LegacyScore.Atom × Q) → Bool
  | [] => true
  | (_, v) :: rest => decide (QNonneg v) && rulesNonneg rest

theorem category_table_nonneg :
    Gen.LegacyScore.categoryRules.all (fun r => rulesNonneg r.2.1 && decide (QNonneg r.2.2)) = true := by decide

theorem evalRules_nonneg (cl : Bytes) : ∀ (rules : List (List Gen.LegacyScore.Atom × Q)) (d : Q),
    rulesNonneg rules = true → QNonneg d → QNonneg (evalRules cl rules d)
  | [], d, _, hd => hd
  | (atoms, v) :: rest, d, h, hd => by
    simp only [rulesNonneg, Bool.and_eq_true, decide_eq_true_eq] at h
    simp only [evalRules]
    split
    · exact h.1
    · exact evalRules_nonneg cl rest d h.2 hd

theorem categoryBoostQ_nonneg (w cl : Bytes) : QNonneg (categoryBoostQ w cl) := by
  unfold categoryBoostQ
  split
  · rename_i ws rules d hf
    have hm := List.mem_of_find?_eq_some hf
    have := List.all_eq_true.mp category_table_nonneg _ hm
    simp only [Bool.and_eq_true, decide_eq_true_eq] at this
    exact evalRules_nonneg cl rules d this.1 this.2
  · exact literals_nonneg.2.2.2.2.2.2.2.2.2.2.2.2.2.2.2.2.2.2.1

variable [ScoreLaws S]

/-! ### the summands -/

theorem commandScore_nonneg (w cl : Bytes) : Nonneg (commandScore w cl : S) := by
  have L := literals_nonneg
  unfold commandScore
  split
  · exact ofQ_nonneg' L.1
  · split
    · exact ofQ_nonneg' L.2.1
    · split
      · exact ofQ_nonneg' L.2.2.1
      · split
        · exact ofQ_nonneg' L.2.2.2.1
        · exact zero_nonneg

theorem domainScore_nonneg (ri : RuneInfo) (w : Bytes) (c : Cmd) : Nonneg (domainScore ri w c : S) := by
  unfold domainScore
  split
  · exact ofQ_nonneg' literals_nonneg.2.2.2.2.1
  · exact zero_nonneg

theorem listScore_nonneg (w : Bytes) (items : List Bytes) {e p : Q} (he : QNonneg e) (hp : QNonneg p) :
    Nonneg (listScore w items e p : S) := by
  unfold listScore
  split
  · exact ofQ_nonneg' he
  · split
    · exact ofQ_nonneg' hp
    · exact zero_nonneg

theorem keywordScore_nonneg (w : Bytes) (ks : List Bytes) : Nonneg (keywordScore w ks : S) :=
  listScore_nonneg w ks literals_nonneg.2.2.2.2.2.1 literals_nonneg.2.2.2.2.2.2.1

theorem tagScore_nonneg (w : Bytes) (ts : List Bytes) : Nonneg (tagScore w ts : S) :=
  listScore_nonneg w ts literals_nonneg.2.2.2.2.2.2.2.2.2.1 literals_nonneg.2.2.2.2.2.2.2.2.2.2.1

theorem descriptionScore_nonneg (w d : Bytes) : Nonneg (descriptionScore w d : S) := by
  unfold descriptionScore
  split
  · exact ofQ_nonneg' literals_nonneg.2.2.2.2.2.2.2.1
  · split
    · exact ofQ_nonneg' literals_nonneg.2.2.2.2.2.2.2.2.1
    · exact zero_nonneg

/-- calculateWordScore ≥ 0 -/
theorem wordScore_nonneg (ri : RuneInfo) (w : Bytes) (c : Cmd) : Nonneg (wordScore ri w c : S) := by
  unfold wordScore
  exact add_nonneg _ _ (add_nonneg _ _ (add_nonneg _ _ (add_nonneg _ _ (add_nonneg _ _ zero_nonneg
    (commandScore_nonneg _ _)) (domainScore_nonneg _ _ _)) (keywordScore_nonneg _ _)) (descriptionScore_nonneg _ _))
    (tagScore_nonneg _ _)

/-- getCategoryRelevanceBoost ≥ 0 -/
theorem categoryBoost_nonneg (ri : RuneInfo) (c : Cmd) (words : List Bytes) : Nonneg (categoryBoost ri c words : S) := by
  unfold categoryBoost
  have : ∀ (ws : List Bytes) (b : S), Nonneg b →
      Nonneg (ws.foldl (fun b w => mul b (ofQ (categoryBoostQ w (toLower ri c.command)))) b) := by
    intro ws
    induction ws with
    | nil => intro b hb; exact hb
    | cons w rest ih =>
      intro b hb
      exact ih _ (mul_nonneg _ _ hb (ofQ_nonneg' (categoryBoostQ_nonneg _ _)))
  exact this words _ (ofQ_nonneg' literals_nonneg.2.2.2.2.2.2.2.2.2.2.2.2.2.2.2.2.2.1)

/-! ### the loop and the bonuses -/

/-- every context boost the caller passed is non-negative -/
def BoostsNonneg (boosts : List (Bytes × S)) : Prop := ∀ kv ∈ boosts, Nonneg kv.2

theorem look_mem {α : Type} : ∀ (m : List (Bytes × α)) (k : Bytes) (v : α), look m k = some v → (k, v) ∈ m
  | [], _, _, h => by simp [look] at h
  | (k', v') :: rest, k, v, h => by
    simp only [look] at h
    split at h
    · rename_i hk
      simp only [Option.some.injEq] at h
      have : k' = k := by simpa using hk
      subst this; subst h; exact List.mem_cons_self
    · exact List.mem_cons_of_mem _ (look_mem rest k v h)

theorem stepWord_nonneg (ri : RuneInfo) {boosts : List (Bytes × S)} (hb : BoostsNonneg boosts) (c : Cmd) (a : Acc S)
    (ha : Nonneg a.score) (w : Bytes) : Nonneg (stepWord ri boosts c a w).score := by
  unfold stepWord
  split
  · exact ha
  · simp only
    apply add_nonneg _ _ ha
    split
    · rename_i b hl
      exact mul_nonneg _ _ (wordScore_nonneg ri w c) (hb _ (look_mem _ _ _ hl))
    · exact wordScore_nonneg ri w c

theorem scoreLoop_nonneg (ri : RuneInfo) {boosts : List (Bytes × S)} (hb : BoostsNonneg boosts) (c : Cmd) (words : List Bytes) :
    Nonneg (scoreLoop ri boosts c words).score := by
  unfold scoreLoop
  have : ∀ (ws : List Bytes) (a : Acc S), Nonneg a.score → Nonneg (ws.foldl (stepWord ri boosts c) a).score := by
    intro ws
    induction ws with
    | nil => intro a ha; exact ha
    | cons w rest ih => intro a ha; exact ih _ (stepWord_nonneg ri hb c a ha w)
  exact this words _ zero_nonneg

theorem completeness_nonneg (n m : Nat) {s : S} (hs : Nonneg s) : Nonneg (completeness n m s) := by
  unfold completeness
  split
  · rename_i h
    simp only [Bool.and_eq_true, decide_eq_true_eq] at h
    apply mul_nonneg _ _ hs
    apply add_nonneg _ _ (ofQ_nonneg' literals_nonneg.2.2.2.2.2.2.2.2.2.2.2.1)
    exact mul_nonneg _ _ (div_nonneg _ _ (ofNat_nonneg m) (ofNat_pos n (by omega)))
      (ofQ_nonneg' literals_nonneg.2.2.2.2.2.2.2.2.2.2.2.2.1)
  · exact hs

theorem matchBonus_nonneg (mx : S) {s : S} (hs : Nonneg s) : Nonneg (matchBonus mx s) := by
  unfold matchBonus
  split
  · exact mul_nonneg _ _ hs (ofQ_nonneg' literals_nonneg.2.2.2.2.2.2.2.2.2.2.2.2.2.1)
  · split
    · exact mul_nonneg _ _ hs (ofQ_nonneg' literals_nonneg.2.2.2.2.2.2.2.2.2.2.2.2.2.2.1)
    · exact hs

theorem nicheBoost_nonneg (ri : RuneInfo) {boosts : List (Bytes × S)} (hb : BoostsNonneg boosts) (c : Cmd) {s : S}
    (hs : Nonneg s) : Nonneg (nicheBoost ri boosts c s) := by
  unfold nicheBoost
  split
  · exact hs
  · split
    · rename_i b hl
      apply mul_nonneg _ _ hs
      apply add_nonneg _ _ (ofQ_nonneg' literals_nonneg.2.2.2.2.2.2.2.2.2.2.2.2.2.2.2.1)
      exact mul_nonneg _ _ (hb _ (look_mem _ _ _ hl)) (ofQ_nonneg' literals_nonneg.2.2.2.2.2.2.2.2.2.2.2.2.2.2.2.2.1)
    · exact hs

/-- calculateScore before finiteScore: non-negative when the context boosts are -/
theorem rawScore_nonneg (ri : RuneInfo) {boosts : List (Bytes × S)} (hb : BoostsNonneg boosts) (c : Cmd) (words : List Bytes) :
    Nonneg (rawScore ri boosts c words) := by
  unfold rawScore
  exact nicheBoost_nonneg ri hb c (mul_nonneg _ _
    (matchBonus_nonneg _ (completeness_nonneg _ _ (scoreLoop_nonneg ri hb c words))) (categoryBoost_nonneg ri c words))

/-- what the theorems need of `finiteScore`: it keeps non-negative scores non-negative (it is the
    identity except at +Inf, which becomes math.MaxFloat64) -/
def FinOK (fin : S → S) : Prop := ∀ x, Nonneg x → Nonneg (fin x)

omit [ScoreLaws S] in
theorem finOK_id : FinOK (fun x : S => x) := fun _ h => h

theorem calculateScore_nonneg {fin : S → S} (hf : FinOK fin) (ri : RuneInfo) {boosts : List (Bytes × S)}
    (hb : BoostsNonneg boosts) (c : Cmd) (words : List Bytes) : Nonneg (calculateScore fin ri boosts c words) :=
  hf _ (rawScore_nonneg ri hb c words)

end Wtf.LegacyScore
