import WtfModel.Model.Context
/-
  C13, analyzer half: lemmas about the project-type detector model (Model/Context.lean).
  Core Lean only.
-/
namespace Wtf.Context
open Text

/-! ### the raw type list is the concatenation of what each name contributes -/

theorem applyBranch_types (ri : RuneInfo) (pkg : Option (List Bytes)) (mkText : Bytes → Option Bytes) (name : Bytes)
    (ctx : Ctx) (b : MarkerBranch) : (applyBranch ri pkg mkText name ctx b).types = ctx.types ++ [b.ptype] := by
  unfold applyBranch
  simp only
  split <;> split <;> (try split) <;> (try split) <;> rfl

theorem analyzeFile_types (rules : List MarkerRule) (ri : RuneInfo) (pkg : Option (List Bytes))
    (mkText : Bytes → Option Bytes) (ctx : Ctx) (name : Bytes) :
    (analyzeFile rules ri pkg mkText ctx name).types = ctx.types ++ typesOfName rules name := by
  unfold analyzeFile typesOfName
  induction rules generalizing ctx with
  | nil => simp
  | cons r rest ih =>
    simp only [List.foldl_cons, List.filterMap_cons]
    cases h : fireRule name r with
    | none => simp only [Option.map_none]; exact ih ctx
    | some b =>
      simp only [Option.map_some]
      rw [ih, applyBranch_types]
      simp

def rawTypes (rules : List MarkerRule) (listing : List Bytes) : List String :=
  listing.flatMap (typesOfName rules)

theorem foldl_analyzeFile_types (rules : List MarkerRule) (ri : RuneInfo) (pkg : Option (List Bytes))
    (mkText : Bytes → Option Bytes) (listing : List Bytes) (ctx : Ctx) :
    (listing.foldl (analyzeFile rules ri pkg mkText) ctx).types = ctx.types ++ rawTypes rules listing := by
  unfold rawTypes
  induction listing generalizing ctx with
  | nil => simp
  | cons n rest ih =>
    simp only [List.foldl_cons, List.flatMap_cons]
    rw [ih, analyzeFile_types]
    simp

theorem analyzeWith_types (rules : List MarkerRule) (generic : String) (ri : RuneInfo) (listing : List Bytes)
    (pkg : Option (List Bytes)) (mkText : Bytes → Option Bytes) :
    (analyzeWith rules generic ri listing pkg mkText).types =
      if (dedup (rawTypes rules listing)).isEmpty then [generic] else dedup (rawTypes rules listing) := by
  unfold analyzeWith finalize
  simp only
  rw [foldl_analyzeFile_types]
  simp

/-! ### removeDuplicateProjectTypes -/

theorem mem_dedupAux (seen l : List String) (t : String) : t ∈ dedupAux seen l ↔ t ∈ l ∧ t ∉ seen := by
  induction l generalizing seen with
  | nil => simp [dedupAux]
  | cons a rest ih =>
    simp only [dedupAux]
    by_cases h : seen.contains a = true
    · have ha : a ∈ seen := by simpa using h
      simp only [h, ↓reduceIte, ih, List.mem_cons]
      constructor
      · rintro ⟨h1, h2⟩; exact ⟨Or.inr h1, h2⟩
      · rintro ⟨h1 | h1, h2⟩
        · subst h1; exact absurd ha h2
        · exact ⟨h1, h2⟩
    · have ha : a ∉ seen := by simpa using h
      simp only [h, Bool.false_eq_true, ↓reduceIte, List.mem_cons, ih]
      constructor
      · rintro (h1 | ⟨h1, h2⟩)
        · subst h1; exact ⟨Or.inl rfl, ha⟩
        · exact ⟨Or.inr h1, fun hs => h2 (Or.inr hs)⟩
      · rintro ⟨h1 | h1, h2⟩
        · exact Or.inl h1
        · by_cases hta : t = a
          · exact Or.inl hta
          · exact Or.inr ⟨h1, fun hs => by rcases hs with hs | hs; exact hta hs; exact h2 hs⟩

theorem nodup_dedupAux (seen l : List String) : (dedupAux seen l).Nodup := by
  induction l generalizing seen with
  | nil => simp [dedupAux]
  | cons a rest ih =>
    simp only [dedupAux]
    split
    · exact ih seen
    · rw [List.nodup_cons]
      refine ⟨?_, ih _⟩
      rw [mem_dedupAux]
      simp

theorem mem_dedup (l : List String) (t : String) : t ∈ dedup l ↔ t ∈ l := by
  unfold dedup; rw [mem_dedupAux]; simp

theorem nodup_dedup (l : List String) : (dedup l).Nodup := nodup_dedupAux [] l

theorem dedup_eq_nil (l : List String) : dedup l = [] ↔ l = [] := by
  constructor
  · intro h
    cases l with
    | nil => rfl
    | cons a rest =>
      have : a ∈ dedup (a :: rest) := (mem_dedup _ _).mpr (by simp)
      rw [h] at this; cases this
  · intro h; subst h; rfl

/-! ### which types are reported -/

theorem mem_rawTypes (rules : List MarkerRule) (listing : List Bytes) (t : String) :
    t ∈ rawTypes rules listing ↔ ∃ name ∈ listing, t ∈ typesOfName rules name := by
  unfold rawTypes; simp [List.mem_flatMap]

theorem mem_typesOfName (rules : List MarkerRule) (name : Bytes) (t : String) :
    t ∈ typesOfName rules name ↔ ∃ r ∈ rules, ∃ b, fireRule name r = some b ∧ b.ptype = t := by
  unfold typesOfName
  simp only [List.mem_filterMap, Option.map_eq_some_iff]

theorem fireRule_mem {name : Bytes} {r : MarkerRule} {b : MarkerBranch} (h : fireRule name r = some b) : b ∈ r := by
  induction r with
  | nil => simp [fireRule] at h
  | cons a rest ih =>
    simp only [fireRule] at h
    split at h
    · cases h; simp
    · simp [ih h]

/-- no rule fires on the name -/
def Quiet (rules : List MarkerRule) (name : Bytes) : Prop := ∀ r ∈ rules, fireRule name r = none

instance (rules : List MarkerRule) (name : Bytes) : Decidable (Quiet rules name) :=
  decidable_of_iff (∀ r ∈ rules, (fireRule name r).isNone = true) (by unfold Quiet; simp [Option.isNone_iff_eq_none])

theorem typesOfName_eq_nil (rules : List MarkerRule) (name : Bytes) : typesOfName rules name = [] ↔ Quiet rules name := by
  unfold typesOfName Quiet
  rw [List.filterMap_eq_nil_iff]
  constructor
  · intro h r hr
    have := h r hr
    cases hf : fireRule name r with
    | none => rfl
    | some b => rw [hf] at this; simp at this
  · intro h r hr; rw [h r hr]; rfl

theorem rawTypes_eq_nil (rules : List MarkerRule) (listing : List Bytes) :
    rawTypes rules listing = [] ↔ ∀ name ∈ listing, Quiet rules name := by
  unfold rawTypes
  rw [List.flatMap_eq_nil_iff]
  constructor
  · intro h n hn; exact (typesOfName_eq_nil rules n).mp (h n hn)
  · intro h n hn; exact (typesOfName_eq_nil rules n).mpr (h n hn)

/-- the fallback type is never appended by a rule -/
def GenericFresh (rules : List MarkerRule) (generic : String) : Prop := ∀ r ∈ rules, ∀ b ∈ r, b.ptype ≠ generic

instance (rules : List MarkerRule) (generic : String) : Decidable (GenericFresh rules generic) :=
  inferInstanceAs (Decidable (∀ r ∈ rules, ∀ b ∈ r, b.ptype ≠ generic))

theorem generic_not_raw {rules : List MarkerRule} {generic : String} (hg : GenericFresh rules generic)
    (listing : List Bytes) : generic ∉ rawTypes rules listing := by
  intro h
  obtain ⟨name, _, hn⟩ := (mem_rawTypes _ _ _).mp h
  obtain ⟨r, hr, b, hb, hbt⟩ := (mem_typesOfName _ _ _).mp hn
  exact hg r hr b (fireRule_mem hb) hbt

section types
variable (rules : List MarkerRule) (generic : String) (ri : RuneInfo) (listing : List Bytes)
  (pkg : Option (List Bytes)) (mkText : Bytes → Option Bytes)

theorem analyzeWith_types_nodup : (analyzeWith rules generic ri listing pkg mkText).types.Nodup := by
  rw [analyzeWith_types]
  split
  · simp
  · exact nodup_dedup _

theorem analyzeWith_generic_iff (hg : GenericFresh rules generic) :
    (analyzeWith rules generic ri listing pkg mkText).types = [generic] ↔ ∀ name ∈ listing, Quiet rules name := by
  rw [analyzeWith_types, ← rawTypes_eq_nil, ← dedup_eq_nil]
  constructor
  · intro h
    split at h
    · rename_i he; simpa using he
    · exfalso
      have : generic ∈ dedup (rawTypes rules listing) := by rw [h]; simp
      exact generic_not_raw hg listing ((mem_dedup _ _).mp this)
  · intro h; simp [h]

theorem analyzeWith_generic_alone (hg : GenericFresh rules generic)
    (h : generic ∈ (analyzeWith rules generic ri listing pkg mkText).types) :
    (analyzeWith rules generic ri listing pkg mkText).types = [generic] := by
  rw [analyzeWith_types] at h ⊢
  split
  · rfl
  · rename_i he
    rw [if_neg he] at h
    exact absurd ((mem_dedup _ _).mp h) (generic_not_raw hg listing)

theorem mem_analyzeWith_types (t : String) :
    t ∈ (analyzeWith rules generic ri listing pkg mkText).types ↔
      (t = generic ∧ ∀ name ∈ listing, Quiet rules name) ∨ ∃ name ∈ listing, t ∈ typesOfName rules name := by
  rw [analyzeWith_types, ← rawTypes_eq_nil, ← mem_rawTypes]
  by_cases he : rawTypes rules listing = []
  · simp [he, dedup, dedupAux]
  · have he' : ¬ (dedup (rawTypes rules listing)).isEmpty = true := by
      simp only [List.isEmpty_iff]; exact fun h => he ((dedup_eq_nil _).mp h)
    simp only [he', Bool.false_eq_true, ↓reduceIte, mem_dedup, he, and_false, false_or]

/-- the types do not depend on package.json / Makefile contents -/
theorem analyzeWith_types_indep (pkg' : Option (List Bytes)) (mkText' : Bytes → Option Bytes) (ri' : RuneInfo) :
    (analyzeWith rules generic ri listing pkg mkText).types = (analyzeWith rules generic ri' listing pkg' mkText').types := by
  rw [analyzeWith_types, analyzeWith_types]

end types

/-- the *set* of reported types does not depend on the order of the listing -/
theorem analyzeWith_types_perm (rules : List MarkerRule) (generic : String) (ri : RuneInfo) {l1 l2 : List Bytes}
    (hp : l1.Perm l2) (pkg : Option (List Bytes)) (mkText : Bytes → Option Bytes) (t : String) :
    t ∈ (analyzeWith rules generic ri l1 pkg mkText).types ↔ t ∈ (analyzeWith rules generic ri l2 pkg mkText).types := by
  rw [mem_analyzeWith_types, mem_analyzeWith_types]
  have e1 : (∀ name ∈ l1, Quiet rules name) ↔ (∀ name ∈ l2, Quiet rules name) :=
    ⟨fun h n hn => h n (hp.mem_iff.mpr hn), fun h n hn => h n (hp.mem_iff.mp hn)⟩
  have e2 : (∃ name ∈ l1, t ∈ typesOfName rules name) ↔ (∃ name ∈ l2, t ∈ typesOfName rules name) :=
    ⟨fun ⟨n, hn, h⟩ => ⟨n, hp.mem_iff.mp hn, h⟩, fun ⟨n, hn, h⟩ => ⟨n, hp.mem_iff.mpr hn, h⟩⟩
  rw [e1, e2]

/-! ### GetContextBoosts: every value is a table value or one of the two literals -/

/-- `1 ≤ q` for an exact rational literal -/
def Q.geOne (q : Q) : Bool := decide ((q.den : Int) ≤ q.num) && decide (0 < q.den)

theorem mem_setKV {m : List (Bytes × Q)} {k : Bytes} {v : Q} {p : Bytes × Q} (h : p ∈ setKV m k v) :
    p ∈ m ∨ p.2 = v := by
  induction m with
  | nil => simp [setKV] at h; right; rw [h]
  | cons a rest ih =>
    obtain ⟨k', v'⟩ := a
    simp only [setKV] at h
    split at h
    · simp only [List.mem_cons] at h
      rcases h with h | h
      · right; rw [h]
      · left; simp [h]
    · simp only [List.mem_cons] at h
      rcases h with h | h
      · left; simp [h]
      · rcases ih h with h | h
        · left; simp [h]
        · right; exact h

theorem foldl_setKV_const (P : Q → Prop) (ks : List Bytes) (v : Q) (hv : P v) (m : List (Bytes × Q))
    (hm : ∀ p ∈ m, P p.2) : ∀ p ∈ ks.foldl (fun m k => setKV m k v) m, P p.2 := by
  induction ks generalizing m with
  | nil => exact hm
  | cons k rest ih =>
    simp only [List.foldl_cons]
    apply ih
    intro p hp
    rcases mem_setKV hp with h | h
    · exact hm p h
    · rw [h]; exact hv

theorem foldl_setKV_table (P : Q → Prop) (tbl : List (String × Q)) (ht : ∀ kv ∈ tbl, P kv.2) (m : List (Bytes × Q))
    (hm : ∀ p ∈ m, P p.2) :
    ∀ p ∈ tbl.foldl (fun m (kv : String × Q) => setKV m (Bytes.ofString kv.1) kv.2) m, P p.2 := by
  induction tbl generalizing m with
  | nil => exact hm
  | cons kv rest ih =>
    simp only [List.foldl_cons]
    apply ih (fun x hx => ht x (by simp [hx]))
    intro p hp
    rcases mem_setKV hp with h | h
    · exact hm p h
    · rw [h]; exact ht kv (by simp)

theorem tableOf_mem {table : List (String × List (String × Q))} {t : String} {tbl : List (String × Q)}
    (h : tableOf table t = some tbl) : ∃ t', (t', tbl) ∈ table := by
  unfold tableOf at h
  cases hf : table.find? (·.1 == t) with
  | none => simp [hf] at h
  | some e =>
    simp only [hf, Option.map_some, Option.some.injEq] at h
    refine ⟨e.1, ?_⟩
    have := List.mem_of_find?_eq_some hf
    rw [← h]; exact this

theorem contextBoostsWith_all (P : Q → Prop) (table : List (String × List (String × Q))) (scriptB targetB : Q)
    (htab : ∀ e ∈ table, ∀ kv ∈ e.2, P kv.2) (hs : P scriptB) (ht : P targetB) (ctx : Ctx) :
    ∀ p ∈ contextBoostsWith table scriptB targetB ctx, P p.2 := by
  unfold contextBoostsWith
  simp only
  apply foldl_setKV_const P _ _ ht
  apply foldl_setKV_const P _ _ hs
  generalize ctx.types = ts
  suffices h : ∀ (m : List (Bytes × Q)), (∀ p ∈ m, P p.2) →
      ∀ p ∈ ts.foldl (fun m t =>
        match tableOf table t with
        | some tbl => tbl.foldl (fun m (kv : String × Q) => setKV m (Bytes.ofString kv.1) kv.2) m
        | none => m) m, P p.2 from h [] (by simp)
  induction ts with
  | nil => intro m hm; exact hm
  | cons t rest ih =>
    intro m hm
    simp only [List.foldl_cons]
    apply ih
    cases hto : tableOf table t with
    | none => exact hm
    | some tbl =>
      obtain ⟨t', ht'⟩ := tableOf_mem hto
      exact foldl_setKV_table P tbl (fun kv hkv => htab _ ht' kv hkv) m hm

/-! ### os.ReadDir order: bytewise `≤` is a total order, so sorting is canonical -/

theorem leBytes_total (a b : Bytes) : (leBytes a b || leBytes b a) = true := by
  induction a generalizing b with
  | nil => simp [leBytes]
  | cons x xs ih =>
    cases b with
    | nil => simp [leBytes]
    | cons y ys =>
      simp only [leBytes, Bool.or_eq_true, decide_eq_true_eq, Bool.and_eq_true, beq_iff_eq]
      have := ih ys
      simp only [Bool.or_eq_true] at this
      rcases Nat.lt_trichotomy x.toNat y.toNat with h | h | h
      · left; left; exact UInt8.lt_iff_toNat_lt.mpr h
      · have e : x = y := UInt8.toNat_inj.mp h
        subst e
        rcases this with h | h
        · left; right; exact ⟨rfl, h⟩
        · right; right; exact ⟨rfl, h⟩
      · right; left; exact UInt8.lt_iff_toNat_lt.mpr h

theorem leBytes_antisymm (a b : Bytes) (h1 : leBytes a b = true) (h2 : leBytes b a = true) : a = b := by
  induction a generalizing b with
  | nil => cases b with
    | nil => rfl
    | cons y ys => simp [leBytes] at h2
  | cons x xs ih =>
    cases b with
    | nil => simp [leBytes] at h1
    | cons y ys =>
      simp only [leBytes, Bool.or_eq_true, decide_eq_true_eq, Bool.and_eq_true, beq_iff_eq] at h1 h2
      rcases h1 with h1 | ⟨e1, h1⟩
      · rcases h2 with h2 | ⟨e2, _⟩
        · have a1 := UInt8.lt_iff_toNat_lt.mp h1
          have a2 := UInt8.lt_iff_toNat_lt.mp h2
          omega
        · subst e2
          have a1 := UInt8.lt_iff_toNat_lt.mp h1
          omega
      · subst e1
        rcases h2 with h2 | ⟨_, h2⟩
        · have a2 := UInt8.lt_iff_toNat_lt.mp h2
          omega
        · rw [ih ys h1 h2]

theorem leBytes_trans (a b c : Bytes) (h1 : leBytes a b = true) (h2 : leBytes b c = true) : leBytes a c = true := by
  induction a generalizing b c with
  | nil => simp [leBytes]
  | cons x xs ih =>
    cases b with
    | nil => simp [leBytes] at h1
    | cons y ys =>
      cases c with
      | nil => simp [leBytes] at h2
      | cons z zs =>
        simp only [leBytes, Bool.or_eq_true, decide_eq_true_eq, Bool.and_eq_true, beq_iff_eq] at h1 h2 ⊢
        rcases h1 with h1 | ⟨e1, h1⟩
        · rcases h2 with h2 | ⟨e2, _⟩
          · left
            have a1 := UInt8.lt_iff_toNat_lt.mp h1
            have a2 := UInt8.lt_iff_toNat_lt.mp h2
            exact UInt8.lt_iff_toNat_lt.mpr (by omega)
          · subst e2; left; exact h1
        · subst e1
          rcases h2 with h2 | ⟨e2, h2⟩
          · left; exact h2
          · subst e2; right; exact ⟨rfl, ih ys zs h1 h2⟩

theorem sortNames_perm_eq {l1 l2 : List Bytes} (hp : l1.Perm l2) : sortNames l1 = sortNames l2 := by
  unfold sortNames
  apply List.Perm.eq_of_pairwise (le := fun a b => leBytes a b = true)
  · intro a b _ _ h1 h2; exact leBytes_antisymm a b h1 h2
  · exact List.pairwise_mergeSort leBytes_trans leBytes_total l1
  · exact List.pairwise_mergeSort leBytes_trans leBytes_total l2
  · exact (List.mergeSort_perm l1 _).trans (hp.trans (List.mergeSort_perm l2 _).symm)

end Wtf.Context
