import WtfModel.Model.Fuzzy
/-
  What the matcher of github.com/sahilm/fuzzy v0.1.1 accepts (C07, C10).

  `Fuzzy.loop` (Model/Fuzzy.lean) is the full transliteration of the library's inner loop, scores
  included.  Here:
   * `arun`    — the acceptance skeleton of that loop: remaining pattern + "matchedIndex > -1" (which the
                 library never resets after a commit: once true it stays true);
   * `loop_abs` — refinement: the scored loop and the skeleton make the same accept / reject / panic
                 decision on every input (all the score bookkeeping is irrelevant to acceptance);
   * `arun_spec` — for a NUL-free target the skeleton never indexes past the pattern and ends with the
                 whole pattern consumed iff the pattern is a greedy case-folded subsequence of the target
                 (`subseqFold`), for every rune equality that is symmetric and treats 0 as equal to 0 only;
   * `subseqFold_iff` — the greedy test is the declarative one: some sub-list of the target matches the
                 pattern rune by rune.
  Ported from the design-phase prototype notes/prototypes/FuzzyAccept.lean, extended to the sticky
  `seen` flag, the scored loop and the panic case.  Core Lean only.
-/
namespace Wtf.Fuzzy

/-! ### greedy case-folded subsequence -/

/-- `p` occurs in `t` in order, comparing runes with `eq target pattern` (greedy left-to-right scan) -/
def subseqFold (eq : Nat → Nat → Bool) : List Nat → List Nat → Bool
  | [], _ => true
  | _ :: _, [] => false
  | pc :: ps, c :: cs => if eq c pc then subseqFold eq ps cs else subseqFold eq (pc :: ps) cs

@[simp] theorem subseqFold_nil (eq : Nat → Nat → Bool) (t : List Nat) : subseqFold eq [] t = true := by
  cases t <;> rfl

/-- rune-by-rune match of a pattern against an equally long piece of text -/
inductive Pointwise (eq : Nat → Nat → Bool) : List Nat → List Nat → Prop
  | nil : Pointwise eq [] []
  | cons {pc c : Nat} {ps cs : List Nat} : eq c pc = true → Pointwise eq ps cs → Pointwise eq (pc :: ps) (c :: cs)

/-- declarative reading: some sub-list (characters in order, gaps allowed) of the target matches the
    pattern rune by rune -/
def Occurs (eq : Nat → Nat → Bool) (p t : List Nat) : Prop :=
  ∃ t' : List Nat, t'.Sublist t ∧ Pointwise eq p t'

theorem subseqFold_iff (eq : Nat → Nat → Bool) (p t : List Nat) : subseqFold eq p t = true ↔ Occurs eq p t := by
  induction t generalizing p with
  | nil =>
    cases p with
    | nil => exact ⟨fun _ => ⟨[], List.Sublist.refl _, Pointwise.nil⟩, fun _ => rfl⟩
    | cons pc ps =>
      simp only [subseqFold, Bool.false_eq_true, false_iff]
      rintro ⟨t', hsub, hf⟩
      have : t' = [] := List.sublist_nil.mp hsub
      subst this
      cases hf
  | cons c cs ih =>
    cases p with
    | nil => exact ⟨fun _ => ⟨[], List.nil_sublist _, Pointwise.nil⟩, fun _ => rfl⟩
    | cons pc ps =>
      simp only [subseqFold]
      by_cases he : eq c pc = true
      · simp only [he, if_true]
        rw [ih]
        constructor
        · rintro ⟨t', hsub, hf⟩
          exact ⟨c :: t', hsub.cons_cons c, Pointwise.cons he hf⟩
        · rintro ⟨t', hsub, hf⟩
          cases hf with
          | cons hhd htl =>
            rename_i c' t''
            -- t' = c' :: t'' is a sub-list of c :: cs: either it starts at c or lies inside cs
            cases hsub with
            | cons _ h => exact ⟨t'', (List.sublist_cons_self c' t'').trans h, htl⟩
            | cons_cons _ h => exact ⟨t'', h, htl⟩
      · have he' : eq c pc = false := by simpa using he
        simp only [he', Bool.false_eq_true, if_false]
        rw [ih]
        constructor
        · rintro ⟨t', hsub, hf⟩
          exact ⟨t', hsub.cons c, hf⟩
        · rintro ⟨t', hsub, hf⟩
          cases hf with
          | cons hhd htl =>
            rename_i c' t''
            cases hsub with
            | cons _ h => exact ⟨c' :: t'', h, Pointwise.cons hhd htl⟩
            | cons_cons _ h => exact absurd hhd he

/-! ### the acceptance skeleton -/

/-- state: remaining pattern (head = `runes[patternIndex]`) and `matchedIndex > -1`.  A commit needs
    `matchedIndex > -1`, and the library never resets `matchedIndex`, so the flag stays set afterwards. -/
def arun (eq : Nat → Nat → Bool) : List Nat → Bool → List Nat → Except Panic (List Nat × Bool)
  | rem, seen, [] => .ok (rem, seen)
  | [], _, _ :: _ => .error .indexOutOfRange
  | pc :: ps, seen, c :: rest =>
    let seen' := seen || eq c pc
    let nextp := ps.head?.getD 0
    let nextc := rest.head?.getD 0
    if (eq nextp nextc || nextc == 0) && seen' then arun eq ps seen' rest
    else arun eq (pc :: ps) seen' rest

/-- NUL-free target: the skeleton does not panic, and it consumes the whole pattern iff the pattern is a
    greedy case-folded subsequence.  `g` (ghost) says whether the head of the pattern has really been seen
    since the last commit; `seen` may be stale-true right after a commit, but then the current target rune
    is the one whose look-ahead triggered that commit, so it matches the head. -/
theorem arun_spec (eq : Nat → Nat → Bool) (hsym : ∀ a b, eq a b = eq b a) (hz : ∀ c, c ≠ 0 → eq 0 c = false) :
    ∀ (t : List Nat) (pc : Nat) (ps : List Nat) (seen g : Bool), (∀ c ∈ t, c ≠ 0) → t ≠ [] →
      (g = true → seen = true) → (seen = true → g = false → eq (t.head?.getD 0) pc = true) →
      ∃ rem sn, arun eq (pc :: ps) seen t = .ok (rem, sn) ∧
        rem.isEmpty = (if g then subseqFold eq ps t.tail else subseqFold eq (pc :: ps) t) := by
  intro t
  induction t with
  | nil => intro _ _ _ _ _ h; exact absurd rfl h
  | cons c rest ih =>
    intro pc ps seen g hnz _ hgs hstale
    have hnzr : ∀ x ∈ rest, x ≠ 0 := fun x hx => hnz x (by simp [hx])
    -- the real flag and the ghost agree after this rune
    have hs' : (seen || eq c pc) = (g || eq c pc) := by
      cases g <;> cases seen <;> simp_all
    cases rest with
    | nil =>
      cases hsg : (g || eq c pc) <;> cases ps <;> cases g <;> cases he : eq c pc <;>
        simp_all [arun, subseqFold]
    | cons c2 rest2 =>
      have hc2 : c2 ≠ 0 := hnzr c2 (by simp)
      have hc2b : (c2 == 0) = false := by simpa using hc2
      cases ps with
      | nil =>
        obtain ⟨rem, sn, hrun, hacc⟩ := ih pc [] (seen || eq c pc) (g || eq c pc) hnzr (by simp)
          (by rw [hs']; exact id) (by rw [hs']; intro h1 h2; rw [h1] at h2; cases h2)
        refine ⟨rem, sn, ?_, ?_⟩
        · rw [arun]; simp [hz c2 hc2, hc2b, hrun]
        · rw [hacc]; cases g <;> cases he : eq c pc <;> simp [subseqFold, he]
      | cons pn ps2 =>
        by_cases hq : eq pn c2 = true
        · have hq' : eq c2 pn = true := by rw [hsym]; exact hq
          cases hsg : (g || eq c pc) with
          | true =>
            -- commit; the flag stays set although `pn` has not been seen yet: c2 matches it
            obtain ⟨rem, sn, hrun, hacc⟩ := ih pn ps2 true false hnzr (by simp) (by simp)
              (by intro _ _; simpa using hq')
            refine ⟨rem, sn, ?_, ?_⟩
            · rw [arun]; simp [hq, hs', hsg, hrun]
            · rw [hacc]
              cases g <;> cases he : eq c pc <;> simp_all [subseqFold]
          | false =>
            have hsf : seen = false := by
              cases seen with
              | false => rfl
              | true => rw [hsg] at hs'; simp at hs'
            obtain ⟨rem, sn, hrun, hacc⟩ := ih pc (pn :: ps2) false false hnzr (by simp) (by simp) (by simp)
            refine ⟨rem, sn, ?_, ?_⟩
            · rw [arun]; simp [hs', hsg, hrun]
            · rw [hacc]
              cases g <;> cases he : eq c pc <;> simp_all [subseqFold]
        · have hq0 : eq pn c2 = false := by simpa using hq
          have hq' : eq c2 pn = false := by rw [hsym]; exact hq0
          obtain ⟨rem, sn, hrun, hacc⟩ := ih pc (pn :: ps2) (seen || eq c pc) (g || eq c pc) hnzr (by simp)
            (by rw [hs']; exact id) (by rw [hs']; intro h1 h2; rw [h1] at h2; cases h2)
          refine ⟨rem, sn, ?_, ?_⟩
          · rw [arun]; simp [hq0, hc2b, hrun]
          · rw [hacc]
            cases g <;> cases he : eq c pc <;> simp_all [subseqFold]

/-- acceptance of the skeleton from the initial state = greedy case-folded subsequence -/
theorem arun_accepts (eq : Nat → Nat → Bool) (hsym : ∀ a b, eq a b = eq b a) (hz : ∀ c, c ≠ 0 → eq 0 c = false)
    (p t : List Nat) (hp : p ≠ []) (ht : ∀ c ∈ t, c ≠ 0) :
    ∃ rem sn, arun eq p false t = .ok (rem, sn) ∧ rem.isEmpty = subseqFold eq p t := by
  cases p with
  | nil => exact absurd rfl hp
  | cons pc ps =>
    cases t with
    | nil => exact ⟨pc :: ps, false, rfl, by simp [subseqFold]⟩
    | cons c rest =>
      obtain ⟨rem, sn, hrun, hacc⟩ := arun_spec eq hsym hz (c :: rest) pc ps false false ht (by simp) (by simp) (by simp)
      exact ⟨rem, sn, hrun, by simpa using hacc⟩

/-! ### the scored loop makes the skeleton's decisions -/

/-- facts about the score bookkeeping that acceptance depends on -/
structure Inv (s : St) : Prop where
  /-- a pending best candidate has set `matchedIndex` (scores themselves may have wrapped: nothing is assumed about them) -/
  best : s.bestScore = -1 ∨ 0 ≤ s.matchedIndex
  /-- after the first commit `matchedIndex` stays non-negative (the library never resets it) -/
  seen : s.matched ≠ [] → 0 ≤ s.matchedIndex
  len : s.matched.length = s.patternIndex
  mi : -1 ≤ s.matchedIndex

theorem inv_init : Inv ({} : St) := ⟨Or.inl rfl, by simp, rfl, by decide⟩

/-- the "candidate matches the current pattern rune" half of an iteration -/
def matchHalf (ri : RuneInfo) (pc : Nat) (s : St) (j candidate : Nat) : St :=
  if ri.eqFold candidate pc then
    let sc0 : Int := 0
    let sc1 := if j == 0 then sc0 + 10 else sc0
    let sc2 := if ri.isLower s.last && ri.isUpper candidate then sc1 + 20 else sc1
    let sc3 := if j != 0 && isSeparator s.last then sc2 + 20 else sc2
    let (sc4, adj) :=
      match s.matched with
      | lastMatch :: _ =>
        let bonus := adjacentCharBonus s.lastIndex lastMatch s.currAdj
        (wrap64 (sc3 + bonus), wrap64 (s.currAdj + bonus))
      | [] => (sc3, s.currAdj)
    if sc4 > s.bestScore then { s with bestScore := sc4, matchedIndex := j, currAdj := adj }
    else { s with currAdj := adj }
  else s

/-- the "commit when the next match is coming up or the text ends" half -/
def commitHalf (s1 : St) (cond : Bool) : St :=
  if cond && s1.matchedIndex > -1 then
    let best :=
      if s1.matched.isEmpty then
        let penalty : Int := s1.matchedIndex * (-5)
        s1.bestScore + (if penalty > -15 then penalty else -15)
      else s1.bestScore
    { s1 with score := wrap64 (s1.score + best), matched := s1.matchedIndex.toNat :: s1.matched,
              bestScore := -1, patternIndex := s1.patternIndex + 1 }
  else s1

theorem stepRune_oob (ri : RuneInfo) (pat : Array Nat) (s : St) (j c nextc : Nat) (h : ¬ s.patternIndex < pat.size) :
    stepRune ri pat s j c nextc = .error .indexOutOfRange := by
  unfold stepRune; simp only [h, dite_false]

theorem matchHalf_spec (ri : RuneInfo) (pc : Nat) (s : St) (j c : Nat) (hinv : Inv s) :
    let s1 := matchHalf ri pc s j c
    Inv s1 ∧ s1.patternIndex = s.patternIndex ∧
      (decide (s1.matchedIndex > -1) = (decide (s.matchedIndex > -1) || ri.eqFold c pc)) := by
  unfold matchHalf
  cases he : ri.eqFold c pc with
  | false =>
    simp only [Bool.false_eq_true, if_false, Bool.or_false]
    exact ⟨hinv, by simp⟩
  | true =>
    simp only [if_true, Bool.or_true]
    -- the candidate score is non-negative whatever the bonuses are
    generalize hsc3 : (if (j != 0 && isSeparator s.last) = true then
        (if (ri.isLower s.last && ri.isUpper c) = true then (if (j == 0) = true then (0 : Int) + 10 else 0) + 20
         else (if (j == 0) = true then (0 : Int) + 10 else 0)) + 20
      else (if (ri.isLower s.last && ri.isUpper c) = true then (if (j == 0) = true then (0 : Int) + 10 else 0) + 20
         else (if (j == 0) = true then (0 : Int) + 10 else 0))) = sc3
    have h3 : 0 ≤ sc3 := by
      rw [← hsc3]; split <;> split <;> split <;> omega
    have hbest := hinv.best
    have hseen := hinv.seen
    have hmi := hinv.mi
    have hlen := hinv.len
    cases hm : s.matched with
    | nil =>
      simp only
      split
      · refine ⟨⟨Or.inr (by simp only; omega), fun _ => by simp only; omega, by simpa [hm] using hlen, by simp only; omega⟩, rfl, ?_⟩
        simp only [decide_eq_true_eq]; omega
      · rename_i hle
        have : 0 ≤ s.matchedIndex := by
          rcases hbest with h | h
          · exfalso; rw [h] at hle; omega
          · exact h
        refine ⟨⟨Or.inr this, fun _ => this, by simpa [hm] using hlen, hmi⟩, rfl, ?_⟩
        simp only [decide_eq_true_eq]; omega
    | cons lastMatch rest =>
      simp only
      have hs : 0 ≤ s.matchedIndex := hseen (by rw [hm]; simp)
      split
      · refine ⟨⟨Or.inr (by simp only; omega), fun _ => by simp only; omega, by simpa [hm] using hlen, by simp only; omega⟩, rfl, ?_⟩
        simp only [decide_eq_true_eq]; omega
      · refine ⟨⟨Or.inr hs, fun _ => hs, by simpa [hm] using hlen, hmi⟩, rfl, ?_⟩
        simp only [decide_eq_true_eq]; omega

theorem stepRune_eq (ri : RuneInfo) (pat : Array Nat) (s : St) (j c nextc : Nat) (h : s.patternIndex < pat.size) :
    stepRune ri pat s j c nextc =
      .ok { commitHalf (matchHalf ri pat[s.patternIndex] s j c)
              (ri.eqFold (if (matchHalf ri pat[s.patternIndex] s j c).patternIndex + 1 < pat.size
                          then pat[(matchHalf ri pat[s.patternIndex] s j c).patternIndex + 1]! else 0) nextc || nextc == 0)
            with lastIndex := j, last := c } := by
  unfold stepRune
  rw [dif_pos h]
  rfl

theorem commitHalf_spec (s1 : St) (cond : Bool) (hinv : Inv s1) :
    let s2 := commitHalf s1 cond
    Inv s2 ∧ (if cond && decide (s1.matchedIndex > -1) then
        s2.patternIndex = s1.patternIndex + 1 ∧ decide (s2.matchedIndex > -1) = true
      else s2.patternIndex = s1.patternIndex ∧ s2.matchedIndex = s1.matchedIndex) := by
  unfold commitHalf
  cases hc : (cond && decide (s1.matchedIndex > -1)) with
  | false => simp only [Bool.false_eq_true, if_false]; exact ⟨hinv, by simp⟩
  | true =>
    simp only [if_true]
    have hmi : s1.matchedIndex > -1 := by
      simp only [Bool.and_eq_true, decide_eq_true_eq] at hc; exact hc.2
    refine ⟨⟨Or.inl rfl, fun _ => by simp only; omega, ?_, hinv.mi⟩, ?_⟩
    · simp only [List.length_cons]; rw [hinv.len]
    · simpa using hmi

theorem nextp_eq (pat : Array Nat) (pi : Nat) :
    (if pi + 1 < pat.size then pat[pi + 1]! else 0) = ((pat.toList.drop (pi + 1)).head?.getD 0) := by
  rw [List.head?_drop]
  split
  · rename_i h
    simp [h]
  · rename_i h
    have : pat.toList[pi + 1]? = none := by simp; omega
    simp [this]

/-- the look-ahead rune of the loop (0 at the end of the text) -/
def nextRune (rest : List (Nat × Nat × Nat)) : Nat :=
  match rest with | (r', _, _) :: _ => r' | [] => 0

theorem nextc_eq (rest : List (Nat × Nat × Nat)) : nextRune rest = ((rest.map (·.1)).head?.getD 0) := by
  cases rest with
  | nil => rfl
  | cons a _ => obtain ⟨r', _, _⟩ := a; rfl

theorem loop_cons (ri : RuneInfo) (pat : Array Nat) (s : St) (r off w : Nat) (rest : List (Nat × Nat × Nat)) :
    loop ri pat s ((r, off, w) :: rest) =
      match stepRune ri pat s off r (nextRune rest) with
      | .ok s' => loop ri pat s' rest
      | .error e => .error e := by
  rfl

/-- **refinement**: on every input the scored loop ends (or panics) exactly as the acceptance skeleton does,
    started from the abstraction of its state -/
theorem loop_abs (ri : RuneInfo) (pat : Array Nat) :
    ∀ (d : List (Nat × Nat × Nat)) (s : St), Inv s → s.patternIndex ≤ pat.size →
      (∀ rem sn, arun ri.eqFold (pat.toList.drop s.patternIndex) (decide (s.matchedIndex > -1)) (d.map (·.1)) = .ok (rem, sn) →
        ∃ s', loop ri pat s d = .ok s' ∧ Inv s' ∧ s'.patternIndex ≤ pat.size ∧
          pat.toList.drop s'.patternIndex = rem ∧ decide (s'.matchedIndex > -1) = sn) ∧
      (∀ e, arun ri.eqFold (pat.toList.drop s.patternIndex) (decide (s.matchedIndex > -1)) (d.map (·.1)) = .error e →
        loop ri pat s d = .error .indexOutOfRange) := by
  intro d
  induction d with
  | nil =>
    intro s hinv hle
    refine ⟨?_, ?_⟩
    · intro rem sn h
      simp only [List.map_nil, arun, Except.ok.injEq, Prod.mk.injEq] at h
      exact ⟨s, rfl, hinv, hle, h.1, h.2⟩
    · intro e h
      simp [arun] at h
  | cons a rest ih =>
    obtain ⟨r, off, w⟩ := a
    intro s hinv hle
    by_cases hlt : s.patternIndex < pat.size
    · -- one iteration of both machines
      have hdrop : pat.toList.drop s.patternIndex = pat[s.patternIndex] :: pat.toList.drop (s.patternIndex + 1) := by
        rw [List.drop_eq_getElem_cons (by simpa using hlt)]; simp
      obtain ⟨hinv1, hpi1, hseen1⟩ := matchHalf_spec ri pat[s.patternIndex] s off r hinv
      have hstep := stepRune_eq ri pat s off r (nextRune rest) hlt
      rw [hpi1, nextp_eq, nextc_eq] at hstep
      generalize hcond : (ri.eqFold ((pat.toList.drop (s.patternIndex + 1)).head?.getD 0) ((rest.map (·.1)).head?.getD 0) ||
        (rest.map (·.1)).head?.getD 0 == 0) = cond at hstep
      obtain ⟨hinv2, hc2⟩ := commitHalf_spec (matchHalf ri pat[s.patternIndex] s off r) cond hinv1
      generalize hs2 : commitHalf (matchHalf ri pat[s.patternIndex] s off r) cond = s2 at hstep hinv2 hc2
      -- the state handed to the next iteration
      have hinv3 : Inv { s2 with lastIndex := off, last := r } := ⟨hinv2.best, hinv2.seen, hinv2.len, hinv2.mi⟩
      have hloop : loop ri pat s ((r, off, w) :: rest) = loop ri pat { s2 with lastIndex := off, last := r } rest := by
        rw [loop_cons, nextc_eq, hstep]
      rw [hloop]
      have harun : arun ri.eqFold (pat.toList.drop s.patternIndex) (decide (s.matchedIndex > -1))
            (((r, off, w) :: rest).map (·.1)) =
          arun ri.eqFold (pat.toList.drop ({ s2 with lastIndex := off, last := r } : St).patternIndex)
            (decide (({ s2 with lastIndex := off, last := r } : St).matchedIndex > -1)) (rest.map (·.1)) := by
        rw [hdrop, List.map_cons, arun]
        simp only
        rw [hcond, ← hseen1]
        cases hc : (cond && decide ((matchHalf ri pat[s.patternIndex] s off r).matchedIndex > -1)) with
        | true =>
          rw [hc] at hc2
          simp only [if_true] at hc2 ⊢
          rw [hc2.1, hpi1, hc2.2]
          simp only [Bool.and_eq_true] at hc
          rw [hc.2]
        | false =>
          rw [hc] at hc2
          simp only [Bool.false_eq_true, if_false] at hc2 ⊢
          rw [hc2.1, hpi1, hc2.2, ← hdrop]
      rw [harun]
      apply ih _ hinv3
      show s2.patternIndex ≤ pat.size
      cases hc : (cond && decide ((matchHalf ri pat[s.patternIndex] s off r).matchedIndex > -1)) with
      | true => rw [hc] at hc2; simp only [if_true] at hc2; rw [hc2.1, hpi1]; omega
      | false => rw [hc] at hc2; simp only [Bool.false_eq_true, if_false] at hc2; rw [hc2.1, hpi1]; omega
    · -- pattern exhausted but text left: both index past the pattern
      have hpe : s.patternIndex = pat.size := by omega
      have hdrop : pat.toList.drop s.patternIndex = [] := by simp [hpe]
      refine ⟨?_, ?_⟩
      · intro rem sn h
        rw [hdrop] at h; simp [arun] at h
      · intro e _
        rw [loop_cons, stepRune_oob _ _ _ _ _ _ hlt]

end Wtf.Fuzzy
