import WtfModel.Model.History

/-! Helper lemmas for C16: `lastN`, `add`, the size/ordering invariant, load-after-save. -/
namespace Wtf.History

/-! ### lastN -/

theorem lastN_length {α : Type} (n : Nat) (xs : List α) : (lastN n xs).length = min n xs.length := by
  simp [lastN, List.length_drop]; omega

theorem lastN_of_le {α : Type} {n : Nat} {xs : List α} (h : xs.length ≤ n) : lastN n xs = xs := by
  have : xs.length - n = 0 := by omega
  simp [lastN, this]

theorem lastN_append_singleton {α : Type} {n : Nat} (h : 1 ≤ n) (xs : List α) (x : α) :
    lastN n (xs ++ [x]) = lastN (n - 1) xs ++ [x] := by
  unfold lastN
  have h1 : (xs ++ [x]).length - n = xs.length - (n - 1) := by simp; omega
  rw [h1, List.drop_append_of_le_length (by omega)]

theorem lastN_lastN {α : Type} {k n : Nat} (h : k ≤ n) (xs : List α) : lastN k (lastN n xs) = lastN k xs := by
  unfold lastN
  rw [List.drop_drop, List.length_drop]
  congr 1; omega

theorem lastN_map {α β : Type} (f : α → β) (n : Nat) (xs : List α) : (lastN n xs).map f = lastN n (xs.map f) := by
  simp [lastN, List.map_drop]

theorem lastN_nil {α : Type} (n : Nat) : lastN n ([] : List α) = [] := by simp [lastN]

theorem lastN_getLast? {α : Type} {n : Nat} (h : 1 ≤ n) (xs : List α) : (lastN n xs).getLast? = xs.getLast? := by
  rcases List.eq_nil_or_concat xs with rfl | ⟨ys, y, rfl⟩
  · simp [lastN]
  · simp only [List.concat_eq_append]
    rw [lastN_append_singleton h]; simp

theorem lastN_sublist {α : Type} (n : Nat) (xs : List α) : (lastN n xs).Sublist xs := List.drop_sublist _ _

/-! ### add -/

/-- what `AddEntry` leaves in `Entries` when the limit `m` is positive -/
def addEntries (m : Nat) (es : List Entry) (e : Entry) : List Entry :=
  match es.getLast? with
  | some l => if l.query = e.query then es.dropLast ++ [e] else lastN m (es ++ [e])
  | none => lastN m (es ++ [e])

theorem addNew_eq {s : State} (hm : 0 < s.maxSize) (e : Entry) :
    addNew s e = .ok { s with entries := lastN s.maxSize.toNat (s.entries ++ [e]) } := by
  unfold addNew
  simp only []
  by_cases h : ((s.entries ++ [e]).length : Int) > s.maxSize
  · have hb : 0 ≤ ((s.entries ++ [e]).length : Int) - s.maxSize ∧
        ((s.entries ++ [e]).length : Int) - s.maxSize ≤ ((s.entries ++ [e]).length : Int) := by omega
    simp only [h, ↓reduceIte, sliceFrom, hb, and_self]
    have : (((s.entries ++ [e]).length : Int) - s.maxSize).toNat = (s.entries ++ [e]).length - s.maxSize.toNat := by omega
    rw [this]; rfl
  · simp only [h, ↓reduceIte]
    have : (s.entries ++ [e]).length ≤ s.maxSize.toNat := by omega
    rw [lastN_of_le this]

theorem add_eq {s : State} (hm : 0 < s.maxSize) (e : Entry) :
    add s e = .ok { s with entries := addEntries s.maxSize.toNat s.entries e } := by
  unfold add addEntries
  cases h : s.entries.getLast? with
  | none => simp only [addNew_eq hm]
  | some l =>
    by_cases hq : l.query = e.query
    · simp only [hq, ↓reduceIte]
    · simp only [hq, ↓reduceIte, addNew_eq hm]

theorem addEntries_length_le {m : Nat} (hm : 1 ≤ m) (es : List Entry) (e : Entry) :
    (addEntries m es e).length ≤ max m es.length := by
  unfold addEntries
  cases h : es.getLast? with
  | none =>
    have : es = [] := by simpa using h
    subst this; simp [lastN_length]; omega
  | some l =>
    have hne : es ≠ [] := by intro h0; subst h0; simp at h
    have hl : 0 < es.length := List.length_pos_iff.mpr hne
    by_cases hq : l.query = e.query
    · simp only [hq, ↓reduceIte, List.length_append, List.length_dropLast, List.length_singleton]; omega
    · simp only [hq, ↓reduceIte, lastN_length, List.length_append, List.length_singleton]; omega

theorem addEntries_getLast? (m : Nat) (hm : 1 ≤ m) (es : List Entry) (e : Entry) :
    (addEntries m es e).getLast? = some e := by
  unfold addEntries
  cases h : es.getLast? with
  | none => rw [lastN_getLast? hm]; simp
  | some l =>
    by_cases hq : l.query = e.query
    · simp [hq]
    · simp only [hq, ↓reduceIte]; rw [lastN_getLast? hm]; simp

/-- non-decreasing timestamps, all of them at most `c` -/
def Chrono (c : Int) (es : List Entry) : Prop := es.Pairwise (fun a b => a.ts ≤ b.ts) ∧ ∀ e ∈ es, e.ts ≤ c

theorem Chrono.mono {c c' : Int} {es : List Entry} (h : Chrono c es) (hc : c ≤ c') : Chrono c' es :=
  ⟨h.1, fun e he => Int.le_trans (h.2 e he) hc⟩

theorem Chrono.sublist {c : Int} {es es' : List Entry} (h : Chrono c es) (hs : es'.Sublist es) : Chrono c es' :=
  ⟨h.1.sublist hs, fun e he => h.2 e (hs.subset he)⟩

theorem Chrono.append_singleton {c : Int} {es : List Entry} (h : Chrono c es) (e : Entry) (he : c ≤ e.ts) :
    Chrono e.ts (es ++ [e]) := by
  refine ⟨?_, ?_⟩
  · rw [List.pairwise_append]
    refine ⟨h.1, by simp, ?_⟩
    intro a ha b hb
    simp at hb; subst hb
    exact Int.le_trans (h.2 a ha) he
  · intro x hx
    rw [List.mem_append] at hx
    cases hx with
    | inl hx => exact Int.le_trans (h.2 x hx) he
    | inr hx => simp at hx; subst hx; exact Int.le_refl _

theorem addEntries_chrono {m : Nat} {c : Int} {es : List Entry} (h : Chrono c es) (e : Entry) (he : c ≤ e.ts) :
    Chrono e.ts (addEntries m es e) := by
  unfold addEntries
  cases hl : es.getLast? with
  | none => exact (h.append_singleton e he).sublist (lastN_sublist _ _)
  | some l =>
    by_cases hq : l.query = e.query
    · simp only [hq, ↓reduceIte]
      exact (h.sublist (List.dropLast_sublist es)).append_singleton e he
    · simp only [hq, ↓reduceIte]
      exact (h.append_singleton e he).sublist (lastN_sublist _ _)

/-! ### refinement of the unbounded log -/

theorem specAdd_refines {m : Nat} (hm : 1 ≤ m) {es : List Entry} {log : List Core}
    (h : es.map Entry.core = lastN m log) (e : Entry) :
    (addEntries m es e).map Entry.core = lastN m (specAdd log e.core) := by
  have hlast : (es.getLast?).map Entry.core = log.getLast? := by
    rw [← List.getLast?_map, h, lastN_getLast? hm]
  unfold addEntries specAdd
  cases hl : es.getLast? with
  | none =>
    have hes : es = [] := by simpa using hl
    rw [hl] at hlast
    simp only [Option.map_none] at hlast
    rw [← hlast]
    subst hes
    simp [lastN, Entry.core]
  | some l =>
    rw [hl] at hlast
    simp only [Option.map_some] at hlast
    rw [← hlast]
    have hq : (l.core.1 = e.core.1) = (l.query = e.query) := rfl
    simp only [hq]
    rcases List.eq_nil_or_concat log with hlog | ⟨log0, c0, hlog⟩
    · subst hlog; simp at hlast
    · rw [List.concat_eq_append] at hlog
      subst hlog
      have hc0 : c0 = l.core := by simpa using hlast.symm
      subst hc0
      rw [lastN_append_singleton hm] at h
      by_cases hqq : l.query = e.query
      · simp only [hqq, ↓reduceIte, List.dropLast_concat, List.map_append, List.map_cons, List.map_nil]
        rw [lastN_append_singleton hm]
        congr 1
        have := congrArg List.dropLast h
        simpa [List.map_dropLast] using this
      · simp only [hqq, ↓reduceIte]
        rw [lastN_map, List.map_append, List.map_cons, List.map_nil, h, ← lastN_append_singleton hm,
          lastN_append_singleton hm, lastN_append_singleton hm (log0 ++ [l.core]), lastN_lastN (by omega)]

/-! ### load after save -/

section
variable {F : Type} (C : Codec F)

/-- the strings of an entry survive encoding/json, its instant has an RFC 3339 text, its integers fit Go's `int` -/
def Entry.Valid (valid : Bytes → Prop) (okT okI : Int → Prop) (e : Entry) : Prop :=
  valid e.query ∧ valid e.context ∧ okT e.ts ∧ okI e.results ∧ okI e.duration

/-- The codec laws as far as `Save` / `Load` use them: the parser reads back the documents `Save` writes
    (not every `JVal`), strings in `valid` survive, instants in `okT` survive; `okI` is the range of the integers written.  `Codec.Laws` (all values, all
    instants) implies them; the executable codec of `Model/HistoryJson.lean` satisfies THESE for valid UTF-8
    and calendar instants of the years 1 .. 9999 (`Props/C16b.lean`), which it could not for `Codec.Laws`. -/
structure Codec.LawsOn (valid : Bytes → Prop) (okT okI : Int → Prop) : Prop where
  parse_print : ∀ s : State, okI s.maxSize → (∀ e ∈ s.entries, e.Valid valid okT okI) → C.parse (C.print (encode C s)) = some (encode C s)
  print_nonempty : ∀ s : State, C.isEmpty (C.print (encode C s)) = false
  unquote_quote : ∀ b, valid b → C.unquote (C.quote b) = b
  parseTime_fmtTime : ∀ t, okT t → C.parseTime (C.fmtTime t) = some t

theorem Codec.Laws.on {valid : Bytes → Prop} (L : C.Laws valid) : Codec.LawsOn C valid (fun _ => True) (fun _ => True) :=
  ⟨fun _ _ _ => L.parse_print _, fun _ => L.print_nonempty _, L.unquote_quote, fun t _ => L.parseTime_fmtTime t⟩

theorem foldKey_kQuery : foldKey kQuery = kQuery := by decide
theorem foldKey_kTimestamp : foldKey kTimestamp = kTimestamp := by decide
theorem foldKey_kResults : foldKey kResults = kResults := by decide
theorem foldKey_kContext : foldKey kContext = kContext := by decide
theorem foldKey_kDuration : foldKey kDuration = kDuration := by decide
theorem foldKey_kEntries : foldKey kEntries = kEntries := by decide
theorem foldKey_kMaxSize : foldKey kMaxSize = kMaxSize := by decide

theorem storeEntry_enc {valid : Bytes → Prop} {okT okI : Int → Prop} (L : Codec.LawsOn C valid okT okI) (e : Entry) (hv : e.Valid valid okT okI) :
    storeEntry C Entry.zero (encEntry C e) = ⟨e, false, false⟩ := by
  obtain ⟨q, t, r, c, d⟩ := e
  have hq : C.unquote (C.quote q) = q := L.unquote_quote q hv.1
  have hc : C.unquote (C.quote c) = c := L.unquote_quote c hv.2.1
  have ht : C.parseTime (C.fmtTime t) = some t := L.parseTime_fmtTime t hv.2.2.1
  have k1 : (kTimestamp = kQuery) = False := by decide
  have k2 : (kResults = kQuery) = False := by decide
  have k3 : (kResults = kTimestamp) = False := by decide
  have k4 : (kContext = kQuery) = False := by decide
  have k5 : (kContext = kTimestamp) = False := by decide
  have k6 : (kContext = kResults) = False := by decide
  have k7 : (kDuration = kQuery) = False := by decide
  have k8 : (kDuration = kTimestamp) = False := by decide
  have k9 : (kDuration = kResults) = False := by decide
  have k10 : (kDuration = kContext) = False := by decide
  by_cases h1 : c = [] <;> by_cases h2 : d = 0 <;>
    simp [storeEntry, encEntry, foldDec, storeEntryField, storeStr, storeInt, storeTime, Entry.zero,
      foldKey_kQuery, foldKey_kTimestamp, foldKey_kResults, foldKey_kContext, foldKey_kDuration,
      k1, k2, k3, k4, k5, k6, k7, k8, k9, k10, hq, hc, ht, h1, h2]

theorem storeElems_enc {valid : Bytes → Prop} {okT okI : Int → Prop} (L : Codec.LawsOn C valid okT okI) (es : List Entry) (hv : ∀ e ∈ es, e.Valid valid okT okI)
    (done : List Entry) (err : Bool) :
    storeElems C (es.map (encEntry C)) done [] err = ⟨(done ++ es, []), err, false⟩ := by
  induction es generalizing done err with
  | nil => simp [storeElems]
  | cons e es ih =>
    have he := storeEntry_enc C L e (hv e (by simp))
    simp only [List.map_cons, storeElems, List.head?_nil, Option.getD_none, he, Bool.false_eq_true, ↓reduceIte,
      List.drop_nil, Bool.or_false]
    rw [ih (fun x hx => hv x (by simp [hx]))]
    simp

theorem unmarshal_encode {valid : Bytes → Prop} {okT okI : Int → Prop} (L : Codec.LawsOn C valid okT okI) (s : State) (hv : ∀ e ∈ s.entries, e.Valid valid okT okI) :
    unmarshal C DState.zero (encode C s) = (⟨s.entries, s.maxSize, []⟩, false) := by
  have k : (kMaxSize = kEntries) = False := by decide
  have h := storeElems_enc C L s.entries hv [] false
  simp only [List.nil_append] at h
  by_cases hn : s.entries = []
  · simp [unmarshal, encode, foldDec, storeTopField, storeEntries, storeInt, DState.zero, foldKey_kEntries,
      foldKey_kMaxSize, k, hn, storeElems]
  · have hne : s.entries.isEmpty = false := by simpa using hn
    simp [unmarshal, encode, foldDec, storeTopField, storeEntries, storeInt, DState.zero, foldKey_kEntries,
      foldKey_kMaxSize, k, h, hne]

/-- Loading what `Save` wrote gives back exactly the saved state — whatever the receiver held. -/
theorem load_saveBytes {valid : Bytes → Prop} {okT okI : Int → Prop} (L : Codec.LawsOn C valid okT okI) (P : Params) (r s : State)
    (hm : 0 < s.maxSize) (hi : okI s.maxSize) (hv : ∀ e ∈ s.entries, e.Valid valid okT okI) :
    load C P r (some (saveBytes C s)) = (s, none) := by
  have hnp : ¬ s.maxSize ≤ 0 := by omega
  unfold load saveBytes
  simp only [L.print_nonempty, Bool.false_eq_true, ↓reduceIte, L.parse_print s hi hv, unmarshal_encode C L s hv, hm]
  cases hg : P.loadGuard <;> cases hf : P.loadFallback <;> simp [hnp]

end

/-! ### parameters under which a file can never install a non-positive limit -/

structure ParamsOk (P : Params) : Prop where
  newDefault_pos : 0 < P.newDefault
  protects : P.loadGuard = true ∨ ∃ n, P.loadFallback = some n
  fallback_pos : ∀ n, P.loadFallback = some n → 0 < n

theorem new_maxSize_pos {P : Params} (hP : ParamsOk P) (m : Int) : 0 < (new P m).maxSize := by
  unfold new
  by_cases h : m ≤ 0
  · simp [h, hP.newDefault_pos]
  · simp [h]; omega

theorem new_maxSize {P : Params} (m : Int) : (new P m).maxSize = if m ≤ 0 then P.newDefault else m := rfl

theorem load_maxSize_pos {F : Type} (C : Codec F) {P : Params} (hP : ParamsOk P) (s : State) (hm : 0 < s.maxSize)
    (file : Option F) : 0 < (load C P s file).1.maxSize := by
  unfold load
  cases file with
  | none => exact hm
  | some data =>
    simp only []
    split
    · exact hm
    · split
      · exact hm
      · split
        · exact hm
        · simp only []
          rcases hP.protects with hg | ⟨n, hn⟩
          · simp only [hg, ↓reduceIte]
            cases hf : P.loadFallback with
            | none => simp only []; split <;> omega
            | some n =>
              have := hP.fallback_pos n hf
              simp only []; split <;> split <;> omega
          · have := hP.fallback_pos n hn
            simp only [hn]
            split <;> omega

end Wtf.History

namespace Wtf.History

/-- executable check of `ParamsOk` (so that the regenerated facts are discharged by `decide`) -/
def paramsOkB (P : Params) : Bool :=
  decide (0 < P.newDefault) && (P.loadGuard || P.loadFallback.isSome) &&
    (match P.loadFallback with
     | some n => decide (0 < n)
     | none => true)

theorem paramsOk_of_check {P : Params} (h : paramsOkB P = true) : ParamsOk P := by
  unfold paramsOkB at h
  simp only [Bool.and_eq_true, decide_eq_true_eq, Bool.or_eq_true] at h
  obtain ⟨⟨h1, h2⟩, h3⟩ := h
  refine ⟨h1, ?_, ?_⟩
  · rcases h2 with h2 | h2
    · exact Or.inl h2
    · cases hf : P.loadFallback with
      | none => simp [hf] at h2
      | some n => exact Or.inr ⟨n, rfl⟩
  · intro n hn
    rw [hn] at h3
    simpa using h3

end Wtf.History
