import WtfModel.Proofs.C13Engine
/-
  C13, engine half, part 3: the three clauses on the lexical path of `search`
  (same candidates / never lower / untouched), and soundness of the inverted index's postings
  (a posting for term `t` names a document whose indexed text contains `t`).  Core Lean only.
-/
namespace Wtf.C13
open Wtf.Text Wtf.Index Wtf.Filters Wtf.Search ScoreOps ScoreLaws

variable {S : Type} [ScoreOps S]

/-- the same request with the context boosts replaced -/
def withBoosts (o : Opts S) (B : List (Bytes × S)) : Opts S := { o with boosts := B }

/-! ### postings are sound -/

theorem count_pos_of_mem {ts : List Token} {t : Token} (h : t ∈ ts) : 0 < count ts t := by
  unfold count
  exact List.length_pos_of_mem (List.mem_filter.mpr ⟨h, by simp⟩)

theorem mem_keys_addTokens (m : List (Token × FieldTF)) (ts : List Token) (f : Field) (t : Token) :
    t ∈ (addTokens m ts f).map (·.1) ↔ t ∈ m.map (·.1) ∨ t ∈ ts := by
  unfold addTokens
  induction ts generalizing m with
  | nil => simp
  | cons a rest ih =>
    simp only [List.foldl_cons, ih, mem_keys_upd, List.mem_cons]
    constructor
    · rintro ((h | h) | h) <;> simp [h]
    · rintro (h | h | h) <;> simp [h]

theorem containsTerm_of_mem_docTF {c : Cmd} {t : Token} (h : t ∈ (docTF c).map (·.1)) : containsTerm c t = true := by
  unfold docTF at h
  simp only [mem_keys_addTokens, List.map_nil, List.not_mem_nil, false_or] at h
  unfold containsTerm FieldTF.isZero tfOf
  simp only [Bool.not_eq_true', Bool.and_eq_false_iff, beq_eq_false_iff_ne, ne_eq]
  rcases h with ((h | h) | h) | h
  · have := count_pos_of_mem h; left; left; left; omega
  · have := count_pos_of_mem h; left; left; right; omega
  · have := count_pos_of_mem h; left; right; omega
  · have := count_pos_of_mem h; right; omega

/-- every posting names an existing document that contains the term -/
def PostOK (pre : List Cmd) (post : List (Token × List Posting)) : Prop :=
  ∀ t ps, look post t = some ps → ∀ p ∈ ps, ∃ c, pre[p.doc]? = some c ∧ containsTerm c t = true

theorem postOK_append {pre : List Cmd} {post : List (Token × List Posting)} (h : PostOK pre post) (c : Cmd) :
    PostOK (pre ++ [c]) post := by
  intro t ps hl p hp
  obtain ⟨c', hc', hct⟩ := h t ps hl p hp
  refine ⟨c', ?_, hct⟩
  have hlt : p.doc < pre.length := by
    rcases Nat.lt_or_ge p.doc pre.length with h | h
    · exact h
    · rw [List.getElem?_eq_none h] at hc'; cases hc'
  rw [List.getElem?_append_left hlt]; exact hc'

theorem postOK_fold (pre : List Cmd) (c : Cmd) (L : List (Token × FieldTF))
    (hL : ∀ t ∈ L.map (·.1), containsTerm c t = true) (post : List (Token × List Posting))
    (h : PostOK (pre ++ [c]) post) :
    PostOK (pre ++ [c])
      (L.foldl (fun p (x : Token × FieldTF) => upd p x.1 [] (· ++ [{ doc := pre.length, tf := x.2 }])) post) := by
  induction L generalizing post with
  | nil => exact h
  | cons a rest ih =>
    obtain ⟨t, ftf⟩ := a
    simp only [List.foldl_cons]
    apply ih (fun t' ht' => hL t' (by simp only [List.map_cons, List.mem_cons]; exact Or.inr ht'))
    intro t' ps hl p hp
    rw [look_upd] at hl
    by_cases htt : t = t'
    · subst htt
      simp only [↓reduceIte, Option.some.injEq] at hl
      subst hl
      rw [List.mem_append] at hp
      rcases hp with hp | hp
      · cases hold : look post t with
        | none => rw [hold] at hp; simp at hp
        | some old =>
          rw [hold] at hp
          exact h t old hold p hp
      · simp only [List.mem_singleton] at hp
        subst hp
        refine ⟨c, ?_, hL t (by simp)⟩
        simp
    · simp only [htt, ↓reduceIte] at hl
      exact h t' ps hl p hp

theorem addDoc_postings (idx : Index) (c : Cmd) :
    (addDoc idx c).postings =
      (docTF c).foldl (fun p (x : Token × FieldTF) => upd p x.1 [] (· ++ [{ doc := idx.lens.length, tf := x.2 }])) idx.postings := rfl

theorem postOK_foldl_addDoc (rest pre : List Cmd) (idx : Index) (hlen : idx.lens.length = pre.length)
    (h : PostOK pre idx.postings) : PostOK (pre ++ rest) (rest.foldl addDoc idx).postings := by
  induction rest generalizing pre idx with
  | nil => simpa using h
  | cons c rest ih =>
    simp only [List.foldl_cons]
    have := ih (pre ++ [c]) (addDoc idx c) (by simp [addDoc, hlen])
      (by rw [addDoc_postings, hlen]
          exact postOK_fold pre c (docTF c) (fun t ht => containsTerm_of_mem_docTF ht) _ (postOK_append h c))
    simpa using this

/-- **index soundness**: a posting for `t` names a document of `db` whose indexed text contains `t` -/
theorem posting_sound (db : Db) {t : Token} {ps : List Posting} (hl : look (build db).postings t = some ps)
    {p : Posting} (hp : p ∈ ps) : ∃ c, db[p.doc]? = some c ∧ containsTerm c t = true := by
  have := postOK_foldl_addDoc db [] {} rfl (by intro t ps hl; simp [look] at hl)
  simp only [List.nil_append] at this
  exact this t ps hl p hp

/-! ### a strictly increasing list of naturals below `n` has at most `n` elements -/

theorem length_le_of_sorted_bounded (l : List Nat) (lo n : Nat) (hs : l.Pairwise (· < ·))
    (hb : ∀ x ∈ l, lo ≤ x ∧ x < n) : l.length ≤ n - lo := by
  induction l generalizing lo with
  | nil => simp
  | cons a rest ih =>
    simp only [List.pairwise_cons] at hs
    have ha := hb a (by simp)
    have := ih (a + 1) hs.2 (fun x hx => ⟨hs.1 x hx, (hb x (by simp [hx])).2⟩)
    simp only [List.length_cons]
    omega

theorem scores_length_le {T : Tuning S} {db : Db} {o : Opts S} {m : List (Nat × S)} (h : ScoresInv T db o m) :
    m.length ≤ db.length := by
  have h1 := length_le_of_sorted_bounded (m.map (·.1)) 0 db.length (show (m.map (·.1)).Pairwise (· < ·) from h.1) (by
    intro x hx
    obtain ⟨c, hc, _⟩ := h.2 x hx
    refine ⟨Nat.zero_le _, ?_⟩
    rcases Nat.lt_or_ge x db.length with h | h
    · exact h
    · rw [List.getElem?_eq_none h] at hc; cases hc)
  simpa using h1

/-! ### ids through the later stages when nothing is cut -/

theorem limit_le_window (limit : Nat) : limit ≤ max (limit * rerankMult) rerankMin := by
  unfold rerankMult rerankMin Gen.SearchParams.rerankMult Gen.SearchParams.rerankMin; omega

theorem rerank_ids_perm_of_le (T : Tuning S) (nq : Bytes) (limit : Nat) (r : List (Nat × S))
    (h : r.length ≤ max (limit * rerankMult) rerankMin) : ((rerank T nq limit r).map (·.1)).Perm (r.map (·.1)) := by
  unfold rerank
  split
  · exact List.Perm.refl _
  · simp only [List.take_of_length_le h]
    refine (sortDesc_map_perm _ _ _).trans ?_
    rw [List.map_map]
    apply List.Perm.of_eq
    apply List.map_congr_left
    intro x _
    obtain ⟨d, s⟩ := x
    simp only [Function.comp]
    split <;> rfl

theorem finish_ids_perm (T : Tuning S) (db : Db) (nq : Bytes) (o : Opts S) (pq : Option (NlpOut S)) (scores : List (Nat × S))
    (h : scores.length ≤ effLimit o) :
    ((finish T db nq o pq scores).map (·.1)).Perm ((scores.map (·.1)).filter (fun d => db[d]?.isSome)) := by
  unfold finish
  simp only
  have hc : (collect T db o pq scores).length ≤ effLimit o := by
    have : (collect T db o pq scores).length = ((collect T db o pq scores).map (·.1)).length := by simp
    rw [this, collect_ids']
    exact Nat.le_trans (List.length_filter_le _ _) (by simpa using h)
  have h0 : ((sortDesc (·.2) (collect T db o pq scores)).map (·.1)).Perm ((scores.map (·.1)).filter (fun d => db[d]?.isSome)) := by
    rw [← collect_ids']; exact sortDesc_map_perm _ _ _
  have hl0 : (sortDesc (·.2) (collect T db o pq scores)).length ≤ effLimit o := by simpa using hc
  generalize sortDesc (·.2) (collect T db o pq scores) = r0 at h0 hl0
  clear hc
  have h1 : ((if o.useNLP then rerank T nq (effLimit o) r0 else r0).map (·.1)).Perm (r0.map (·.1)) := by
    split
    · exact rerank_ids_perm_of_le T nq _ r0 (Nat.le_trans hl0 (limit_le_window _))
    · exact List.Perm.refl _
  generalize (if o.useNLP then rerank T nq (effLimit o) r0 else r0) = r1 at h1
  have fin : ∀ r2 : List (Nat × S), (r2.map (·.1)).Perm (r1.map (·.1)) →
      ((r2.take (effLimit o)).map (·.1)).Perm ((scores.map (·.1)).filter (fun d => db[d]?.isSome)) := by
    intro r2 h2
    have hl2 : r2.length ≤ effLimit o := by
      have e2 := (h2.trans h1).length_eq
      simp only [List.length_map] at e2
      omega
    rw [List.take_of_length_le hl2]
    exact (h2.trans h1).trans h0
  cases pq with
  | none => exact fin r1 (List.Perm.refl _)
  | some n => exact fin _ (cascade_ids_perm n r1)

/-! ### the lexical path: two runs that differ only in the boosts -/

section runs
variable (T : Tuning S) (db : Db) (q : Bytes) (o : Opts S)

theorem scoresOf_keys (B B' : List (Bytes × S)) :
    (scoresOf T db q (withBoosts o B)).map (·.1) = (scoresOf T db q (withBoosts o B')).map (·.1) :=
  initialScores_keys_indep_boosts T db (build db) o B B' (pqOf T o (T.normQ q)) (queryTerms T db q o)

theorem scoresOf_isEmpty (B B' : List (Bytes × S)) :
    (scoresOf T db q (withBoosts o B)).isEmpty = (scoresOf T db q (withBoosts o B')).isEmpty := by
  have h := congrArg List.length (scoresOf_keys T db q o B B')
  simp only [List.length_map] at h
  rw [Bool.eq_iff_iff]
  simp only [List.isEmpty_iff]
  rw [← List.length_eq_zero_iff, ← List.length_eq_zero_iff, h]

theorem scoresOf_inv (B : List (Bytes × S)) : ScoresInv T db (withBoosts o B) (scoresOf T db q (withBoosts o B)) :=
  initialScores_inv T db (build db) _ _ _

/-- same candidates on the lexical path when the limit does not cut -/
theorem finish_same_ids (B B' : List (Bytes × S)) (hlim : db.length ≤ effLimit o) :
    ((finish T db (T.normQ q) (withBoosts o B) (pqOf T o (T.normQ q)) (scoresOf T db q (withBoosts o B))).map (·.1)).Perm
    ((finish T db (T.normQ q) (withBoosts o B') (pqOf T o (T.normQ q)) (scoresOf T db q (withBoosts o B'))).map (·.1)) := by
  have l1 := Nat.le_trans (scores_length_le (scoresOf_inv T db q o B)) hlim
  have l2 := Nat.le_trans (scores_length_le (scoresOf_inv T db q o B')) hlim
  have p1 := finish_ids_perm T db (T.normQ q) (withBoosts o B) (pqOf T o (T.normQ q)) _ l1
  have p2 := finish_ids_perm T db (T.normQ q) (withBoosts o B') (pqOf T o (T.normQ q)) _ l2
  rw [scoresOf_keys T db q o B B'] at p1
  exact p1.trans p2.symm

theorem collect_length_indep (B B' : List (Bytes × S)) (pq : Option (NlpOut S)) :
    (collect T db (withBoosts o B) pq (scoresOf T db q (withBoosts o B))).length =
    (collect T db (withBoosts o B') pq (scoresOf T db q (withBoosts o B'))).length := by
  have e1 : ∀ (o' : Opts S) m, (collect T db o' pq m).length = ((collect T db o' pq m).map (·.1)).length := by
    intro o' m; simp
  rw [e1, e1, collect_ids', collect_ids', scoresOf_keys T db q o B B']

end runs

/-! ### monotonicity of the later stages in the initial score -/
section mono
variable [ScoreLaws S]

theorem collectScore_mono (T : Tuning S) (o : Opts S) (pq : Option (NlpOut S)) (d : Nat) (c : Cmd)
    (hib : ∀ n, pq = some n → Nonneg (n.intentBoost d)) {a b : S} (h : ge a b) :
    ge (collectScore T o pq d c a) (collectScore T o pq d c b) := by
  have pipe : ∀ x y : S, ge x y →
      ge (if isPipeline T.ri c && lt zero o.pipelineBoost then mul x o.pipelineBoost else x)
         (if isPipeline T.ri c && lt zero o.pipelineBoost then mul y o.pipelineBoost else y) := by
    intro x y hxy
    split
    · rename_i hp
      simp only [Bool.and_eq_true] at hp
      exact mul_le_mul_right _ _ _ hxy (pos_nonneg hp.2)
    · exact hxy
  unfold collectScore
  cases pq with
  | none => exact pipe _ _ h
  | some n =>
    simp only
    apply pipe
    have hm := mul_le_mul_right a b _ h (hib n rfl)
    split
    · exact mul_le_mul_right _ _ _ hm (ofQ_nonneg coocFactor (by decide) (by decide))
    · exact hm

theorem rerankScore_mono (T : Tuning S) (nq : Bytes) (k d : Nat) {a b : S} (h : ge a b) :
    ge (rerankScore T nq k d a) (rerankScore T nq k d b) := by
  unfold rerankScore
  split
  · exact h
  · split
    · exact add_le_add_right _ _ _ h
    · exact h

theorem postScore_mono (T : Tuning S) (o : Opts S) (nq : Bytes) (pq : Option (NlpOut S)) (k d : Nat) (c : Cmd)
    (hib : ∀ n, pq = some n → Nonneg (n.intentBoost d)) (hcb : ∀ n, pq = some n → Nonneg (n.cascade d))
    {a b : S} (h : ge a b) : ge (postScore T o nq pq k d c a) (postScore T o nq pq k d c b) := by
  unfold postScore
  simp only
  have h1 := collectScore_mono T o pq d c hib h
  have h2 : ge (if o.useNLP then rerankScore T nq k d (collectScore T o pq d c a) else collectScore T o pq d c a)
      (if o.useNLP then rerankScore T nq k d (collectScore T o pq d c b) else collectScore T o pq d c b) := by
    split
    · exact rerankScore_mono T nq k d h1
    · exact h1
  cases pq with
  | none => exact h2
  | some n => exact mul_le_mul_right _ _ _ h2 (hcb n rfl)

/-- initial scores: with boosts ≥ 1 every entry is at least the entry without boosts -/
theorem scoresOf_ge (T : Tuning S) (db : Db) (q : Bytes) (o : Opts S) (hP : ParamsSane T.params)
    (B : List (Bytes × S)) (hB : ∀ p ∈ B, ge p.2 one) :
    MapRel (fun _ a b => ge a b) (scoresOf T db q (withBoosts o B)) (scoresOf T db q (withBoosts o [])) := by
  apply initialScores_rel step_ge T db (build db) (withBoosts o B) (withBoosts o []) rfl
  intro t _ ps _ p _ hidf
  have hidf0 : Nonneg (T.idf (build db).n ((look (build db).df t).getD 0)) := nonneg_of_ge hidf hP.minIDF
  have hb := boostOf_ge (tbRel_termBoosts o B hB (pqOf T o (T.normQ q))) t
  exact mul_le_mul_right _ _ _ (mul_le_mul_left _ _ _ hb hidf0) (termBM25F_nonneg hP _ _ _ _)

/-- **never lower**, lexical path -/
theorem finish_monotone (T : Tuning S) (db : Db) (q : Bytes) (o : Opts S) (hP : ParamsSane T.params)
    (hib : ∀ nq d, Nonneg ((T.nlp nq).intentBoost d)) (hcb : ∀ nq d, Nonneg ((T.nlp nq).cascade d))
    (B : List (Bytes × S)) (hB : ∀ p ∈ B, ge p.2 one) {d : Nat} {sB s0 : S}
    (h1 : (d, sB) ∈ finish T db (T.normQ q) (withBoosts o B) (pqOf T o (T.normQ q)) (scoresOf T db q (withBoosts o B)))
    (h2 : (d, s0) ∈ finish T db (T.normQ q) (withBoosts o []) (pqOf T o (T.normQ q)) (scoresOf T db q (withBoosts o []))) :
    ge sB s0 := by
  obtain ⟨a, c, ha, hc, hsB⟩ := mem_finish h1
  obtain ⟨b, c', hb, hc', hs0⟩ := mem_finish h2
  rw [hc] at hc'; cases hc'
  have hab : ge a b := (scoresOf_ge T db q o hP B hB).lookup (keysSorted_nodup (scoresOf_inv T db q o B).1) ha hb
  rw [hsB, hs0, collect_length_indep T db q o B []]
  have hpq : ∀ n, pqOf T o (T.normQ q) = some n → n = T.nlp (T.normQ q) := by
    intro n hn; unfold pqOf at hn; split at hn <;> simp at hn; exact hn.symm
  exact postScore_mono T (withBoosts o []) (T.normQ q) _ _ d c
    (fun n hn => by rw [hpq n hn]; exact hib _ _) (fun n hn => by rw [hpq n hn]; exact hcb _ _) hab

end mono

/-! ### untouched -/

/-- initial scores: the entry of a document that has no posting under any boosted query term is the same -/
theorem scoresOf_eqAt (T : Tuning S) (db : Db) (q : Bytes) (o : Opts S) (B : List (Bytes × S)) (d : Nat)
    (hd : ∀ t ∈ queryTerms T db q o, t ∈ B.map (·.1) → ∀ ps, look (build db).postings t = some ps → ∀ p ∈ ps, p.doc ≠ d) :
    MapRel (fun d' a b => d' = d → a = b) (scoresOf T db q (withBoosts o B)) (scoresOf T db q (withBoosts o [])) := by
  apply initialScores_rel (step_eqAt d) T db (build db) (withBoosts o B) (withBoosts o []) rfl
  intro t ht ps hps p hp _ hpd
  by_cases hk : t ∈ B.map (·.1)
  · exact absurd hpd (hd t ht hk ps hps p hp)
  · have : boostOf (termBoosts (withBoosts o B) (pqOf T o (T.normQ q))) t =
        boostOf (termBoosts (withBoosts o []) (pqOf T o (T.normQ q))) t :=
      boostOf_congr (look_termBoosts_indep o B _ t hk)
    show mul (mul _ (boostOf (termBoosts (withBoosts o B) (pqOf T o (T.normQ q))) t)) _ =
         mul (mul _ (boostOf (termBoosts (withBoosts o []) (pqOf T o (T.normQ q))) t)) _
    rw [this]

/-- **untouched**, lexical path -/
theorem finish_untouched (T : Tuning S) (db : Db) (q : Bytes) (o : Opts S) (B : List (Bytes × S)) {d : Nat} {sB s0 : S}
    (hd : ∀ t ∈ queryTerms T db q o, t ∈ B.map (·.1) → ∀ ps, look (build db).postings t = some ps → ∀ p ∈ ps, p.doc ≠ d)
    (h1 : (d, sB) ∈ finish T db (T.normQ q) (withBoosts o B) (pqOf T o (T.normQ q)) (scoresOf T db q (withBoosts o B)))
    (h2 : (d, s0) ∈ finish T db (T.normQ q) (withBoosts o []) (pqOf T o (T.normQ q)) (scoresOf T db q (withBoosts o []))) :
    sB = s0 := by
  obtain ⟨a, c, ha, hc, hsB⟩ := mem_finish h1
  obtain ⟨b, c', hb, hc', hs0⟩ := mem_finish h2
  rw [hc] at hc'; cases hc'
  have hab : a = b :=
    (scoresOf_eqAt T db q o B d hd).lookup (keysSorted_nodup (scoresOf_inv T db q o B).1) ha hb rfl
  rw [hsB, hs0, collect_length_indep T db q o B [], hab]
  rfl

/-- the hypothesis of `finish_untouched` from the indexed text: no boosted query term occurs in the document -/
theorem no_posting_of_not_contains (db : Db) (d : Nat) (t : Token)
    (h : ∀ c, db[d]? = some c → containsTerm c t = false) :
    ∀ ps, look (build db).postings t = some ps → ∀ p ∈ ps, p.doc ≠ d := by
  intro ps hps p hp hpd
  obtain ⟨c, hc, hct⟩ := posting_sound db hps hp
  rw [hpd] at hc
  rw [h c hc] at hct
  cases hct

end Wtf.C13

/-! ### the two runs of `search` side by side -/
namespace Wtf.C13
open Wtf.Text Wtf.Index Wtf.Filters Wtf.Search ScoreOps ScoreLaws
variable {S : Type} [ScoreOps S]

/-- the answer of the lexical path for the request with boosts `B` -/
def lexAnswer (T : Tuning S) (db : Db) (q : Bytes) (o : Opts S) (B : List (Bytes × S)) : List (Nat × S) :=
  finish T db (T.normQ q) (withBoosts o B) (pqOf T o (T.normQ q)) (scoresOf T db q (withBoosts o B))

/-- Two runs that differ only in the context boosts take the same path: either both fall back (typo
    search or empty answer) and then return the very same value — the fallback does not read the
    boosts —, or both answer from the index. -/
theorem search_two_runs (T : Tuning S) (db : Db) (q : Bytes) (o : Opts S) (B B' : List (Bytes × S)) :
    (search T db q (withBoosts o B) = search T db q (withBoosts o B')) ∨
    (search T db q (withBoosts o B) = .ok (lexAnswer T db q o B) ∧
     search T db q (withBoosts o B') = .ok (lexAnswer T db q o B')) := by
  rw [search_eq, search_eq]
  have e1 : terms1Of T q (withBoosts o B) = terms1Of T q (withBoosts o B') := rfl
  have e2 := scoresOf_isEmpty T db q o B B'
  have e3 : fallbackOf T db q (withBoosts o B) = fallbackOf T db q (withBoosts o B') := fallbackOf_indep T db q o B B'
  rw [e1, e2, e3]
  cases (terms1Of T q (withBoosts o B')).isEmpty with
  | true => left; rfl
  | false =>
    cases (scoresOf T db q (withBoosts o B')).isEmpty with
    | true => left; rfl
    | false => right; exact ⟨rfl, rfl⟩

/-- evaluation helper for the non-vacuity examples (`List.mergeSort` does not reduce in the kernel):
    NLP off and the collected list already in descending score order -/
theorem search_nlpOff_of_sorted (T : Tuning S) (db : Db) (q : Bytes) (o : Opts S) (hn : o.useNLP = false)
    (L : List (Nat × S)) (ht : (terms1Of T q o).isEmpty = false) (hne : (scoresOf T db q o).isEmpty = false)
    (hc : collect T db o none (scoresOf T db q o) = L) (hs : L.Pairwise (fun a b => lt a.2 b.2 = false)) :
    search T db q o = .ok (L.take (effLimit o)) := by
  rw [search_eq, ht, hne]
  simp only [Bool.false_eq_true, ↓reduceIte]
  have hp : pqOf T o (T.normQ q) = none := by unfold pqOf; simp [hn]
  unfold finish
  simp only [hp, hn, Bool.false_eq_true, ↓reduceIte, hc]
  have : sortDesc (·.2) L = L := by
    unfold sortDesc
    exact List.mergeSort_of_pairwise (hs.imp (by intro a b h; simp [h]))
  rw [this]

end Wtf.C13
