import WtfModel.Model.Lru

/-! Helper lemmas for the LRU model (C12).  Core Lean only. -/
namespace Wtf.Lru

set_option linter.unusedSectionVars false
variable {κ ν : Type} [DecidableEq κ]

/-- Structural invariant of the eviction list. -/
structure Inv (s : State κ ν) : Prop where
  capPos : 0 < s.cap
  bounded : s.entries.length ≤ s.cap
  nodup : (s.entries.map (·.key)).Nodup
  recency : (s.entries.map (·.used)).Pairwise (· > ·)
  tickGt : ∀ e ∈ s.entries, e.used < s.tick

theorem mem_remove {k : κ} {es : List (Entry κ ν)} {e : Entry κ ν} :
    e ∈ remove k es ↔ e ∈ es ∧ e.key ≠ k := by
  simp [remove, List.mem_filter]

theorem remove_length_le (k : κ) (es : List (Entry κ ν)) : (remove k es).length ≤ es.length := by
  simp [remove, List.length_filter_le]

theorem find?_some {k : κ} {es : List (Entry κ ν)} {e : Entry κ ν} (h : find? k es = some e) :
    e ∈ es ∧ e.key = k := by
  unfold find? at h
  have h1 := List.mem_of_find?_eq_some h
  have h2 := List.find?_some h
  exact ⟨h1, by simpa using h2⟩

theorem find?_none {k : κ} {es : List (Entry κ ν)} (h : find? k es = none) :
    ∀ e ∈ es, e.key ≠ k := by
  unfold find? at h
  intro e he
  have := List.find?_eq_none.mp h e he
  simpa using this

theorem filter_length_lt_of_mem {k : κ} {es : List (Entry κ ν)} (h : ∃ x ∈ es, x.key = k) :
    (es.filter (fun e => !(e.key == k))).length < es.length := by
  rw [List.length_filter_lt_length_iff_exists]
  obtain ⟨x, hx, hxk⟩ := h
  exact ⟨x, hx, by simp [hxk]⟩

theorem remove_length_lt {k : κ} {es : List (Entry κ ν)} {e : Entry κ ν} (h : find? k es = some e) :
    (remove k es).length < es.length := by
  obtain ⟨hm, hk⟩ := find?_some h
  exact filter_length_lt_of_mem ⟨e, hm, hk⟩

theorem remove_of_absent {k : κ} {es : List (Entry κ ν)} (h : find? k es = none) : remove k es = es := by
  unfold remove
  apply List.filter_eq_self.mpr
  intro e he
  have := find?_none h e he
  simpa using this

theorem nodup_remove {k : κ} {es : List (Entry κ ν)} (h : (es.map (·.key)).Nodup) :
    ((remove k es).map (·.key)).Nodup := by
  unfold remove
  exact (List.Nodup.sublist (List.Sublist.map _ List.filter_sublist) h)

theorem pairwise_remove {k : κ} {es : List (Entry κ ν)} (h : (es.map (·.used)).Pairwise (· > ·)) :
    ((remove k es).map (·.used)).Pairwise (· > ·) := by
  unfold remove
  exact List.Pairwise.sublist (List.Sublist.map _ List.filter_sublist) h

theorem key_notin_remove (k : κ) (es : List (Entry κ ν)) : k ∉ (remove k es).map (·.key) := by
  intro h
  obtain ⟨e, he, hk⟩ := List.mem_map.mp h
  exact (mem_remove.mp he).2 hk

theorem mem_dropLast {α} {l : List α} {a : α} (h : a ∈ l.dropLast) : a ∈ l :=
  List.dropLast_subset l h

theorem dropLast_map {α β} (f : α → β) (l : List α) : l.dropLast.map f = (l.map f).dropLast := by
  induction l with
  | nil => rfl
  | cons a as ih =>
    cases as with
    | nil => rfl
    | cons b bs => simp [List.dropLast, ih]

theorem init_inv (d : Nat) (hd : 0 < d) (cap ttl : Int) : Inv (init d cap ttl : State κ ν) := by
  refine ⟨?_, by simp [init], by simp [init], by simp [init], by simp [init]⟩
  simp only [init, effCap]
  split
  · exact hd
  · omega

theorem get_inv {s : State κ ν} (h : Inv s) (now : Int) (k : κ) : Inv (get s now k).1 := by
  unfold get
  split
  · exact ⟨h.capPos, h.bounded, h.nodup, h.recency, h.tickGt⟩
  · rename_i e he
    split
    · refine ⟨h.capPos, Nat.le_trans (remove_length_le _ _) h.bounded, nodup_remove h.nodup,
        pairwise_remove h.recency, ?_⟩
      intro x hx
      exact h.tickGt x (mem_remove.mp hx).1
    · refine ⟨h.capPos, ?_, ?_, ?_, ?_⟩
      · have := remove_length_lt he
        simp only [List.length_cons]
        have := h.bounded
        omega
      · simp only [List.map_cons, List.nodup_cons]
        refine ⟨?_, nodup_remove h.nodup⟩
        rw [(find?_some he).2]
        exact key_notin_remove k s.entries
      · simp only [List.map_cons, List.pairwise_cons]
        refine ⟨?_, pairwise_remove h.recency⟩
        intro u hu
        obtain ⟨x, hx, rfl⟩ := List.mem_map.mp hu
        exact h.tickGt x (mem_remove.mp hx).1
      · intro x hx
        simp only [List.mem_cons] at hx
        cases hx with
        | inl hx => subst hx; simp
        | inr hx => have := h.tickGt x (mem_remove.mp hx).1; simp; omega

theorem put_inv {s : State κ ν} (h : Inv s) (now : Int) (k : κ) (v : ν) : Inv (put s now k v) := by
  unfold put
  split
  · rename_i e he
    refine ⟨h.capPos, ?_, ?_, ?_, ?_⟩
    · have := remove_length_lt he
      simp only [List.length_cons]
      have := h.bounded
      omega
    · simp only [List.map_cons, List.nodup_cons]
      refine ⟨?_, nodup_remove h.nodup⟩
      rw [(find?_some he).2]
      exact key_notin_remove k s.entries
    · simp only [List.map_cons, List.pairwise_cons]
      refine ⟨?_, pairwise_remove h.recency⟩
      intro u hu
      obtain ⟨x, hx, rfl⟩ := List.mem_map.mp hu
      exact h.tickGt x (mem_remove.mp hx).1
    · intro x hx
      simp only [List.mem_cons] at hx
      cases hx with
      | inl hx => subst hx; simp
      | inr hx => have := h.tickGt x (mem_remove.mp hx).1; simp; omega
  · rename_i he
    have hfresh : k ∉ s.entries.map (·.key) := by
      intro hk
      obtain ⟨x, hx, hxk⟩ := List.mem_map.mp hk
      exact find?_none he x hx hxk
    have hnd : ((({ key := k, val := v, created := now, stored := now, used := s.tick } : Entry κ ν) ::
        s.entries).map (·.key)).Nodup := by
      simp only [List.map_cons, List.nodup_cons]
      exact ⟨hfresh, h.nodup⟩
    have hpw : ((({ key := k, val := v, created := now, stored := now, used := s.tick } : Entry κ ν) ::
        s.entries).map (·.used)).Pairwise (· > ·) := by
      simp only [List.map_cons, List.pairwise_cons]
      refine ⟨?_, h.recency⟩
      intro u hu
      obtain ⟨x, hx, rfl⟩ := List.mem_map.mp hu
      exact h.tickGt x hx
    have htk : ∀ x ∈ (({ key := k, val := v, created := now, stored := now, used := s.tick } : Entry κ ν) ::
        s.entries), x.used < s.tick + 1 := by
      intro x hx
      simp only [List.mem_cons] at hx
      cases hx with
      | inl hx => subst hx; simp
      | inr hx => have := h.tickGt x hx; omega
    simp only
    split
    · rename_i hlt
      refine ⟨h.capPos, ?_, ?_, ?_, ?_⟩
      · simp only [List.length_dropLast, List.length_cons]
        have := h.bounded
        omega
      · rw [dropLast_map]
        exact List.Nodup.sublist (List.dropLast_sublist _) hnd
      · rw [dropLast_map]
        exact List.Pairwise.sublist (List.dropLast_sublist _) hpw
      · intro x hx
        exact htk x (mem_dropLast hx)
    · rename_i hnlt
      refine ⟨h.capPos, ?_, hnd, hpw, htk⟩
      simp only [List.length_cons] at hnlt ⊢
      omega

theorem delete_inv {s : State κ ν} (h : Inv s) (k : κ) : Inv (delete s k).1 := by
  unfold delete
  split
  · refine ⟨h.capPos, Nat.le_trans (remove_length_le _ _) h.bounded, nodup_remove h.nodup,
      pairwise_remove h.recency, ?_⟩
    intro x hx
    exact h.tickGt x (mem_remove.mp hx).1
  · exact h

theorem clear_inv {s : State κ ν} (h : Inv s) : Inv (clear s) := by
  refine ⟨h.capPos, by simp [clear], by simp [clear], by simp [clear], by simp [clear]⟩

/-- `sweepRev` returns a suffix of its input whose dropped prefix is entirely expired. -/
theorem sweepRev_spec (ttl now : Int) (l : List (Entry κ ν)) :
    ∃ dropped, l = dropped ++ sweepRev ttl now l ∧ ∀ e ∈ dropped, expired ttl now e = true := by
  induction l with
  | nil => exact ⟨[], rfl, by simp⟩
  | cons a as ih =>
    unfold sweepRev
    split
    · rename_i hexp
      obtain ⟨d, hd, hall⟩ := ih
      refine ⟨a :: d, by simp [← hd], ?_⟩
      intro e he
      simp only [List.mem_cons] at he
      cases he with
      | inl h => subst h; exact hexp
      | inr h => exact hall e h
    · exact ⟨[], rfl, by simp⟩

/-- The sweep keeps a prefix (MRU side) of the list and removes an all-expired suffix. -/
theorem cleanup_spec (s : State κ ν) (now : Int) :
    ∃ removed, s.entries = (cleanup s now).1.entries ++ removed ∧
      (cleanup s now).2 = removed.length ∧
      (∀ e ∈ removed, expired s.ttl now e = true) ∧
      (cleanup s now).1.cap = s.cap ∧ (cleanup s now).1.hits = s.hits ∧
      (cleanup s now).1.misses = s.misses ∧ (cleanup s now).1.evictions = s.evictions ∧
      (cleanup s now).1.tick = s.tick ∧ (cleanup s now).1.ttl = s.ttl := by
  unfold cleanup
  split
  · exact ⟨[], by simp, rfl, by simp, rfl, rfl, rfl, rfl, rfl, rfl⟩
  · obtain ⟨d, hd, hall⟩ := sweepRev_spec s.ttl now s.entries.reverse
    refine ⟨d.reverse, ?_, ?_, ?_, rfl, rfl, rfl, rfl, rfl, rfl⟩
    · have := congrArg List.reverse hd
      simpa using this
    · have := congrArg List.length hd
      simp at this ⊢
      omega
    · intro e he
      exact hall e (List.mem_reverse.mp he)

theorem cleanup_inv {s : State κ ν} (h : Inv s) (now : Int) : Inv (cleanup s now).1 := by
  obtain ⟨r, hr, _, _, hc, _, _, _, ht, _⟩ := cleanup_spec s now
  have hsub : (cleanup s now).1.entries.Sublist s.entries := by
    rw [hr]; exact List.sublist_append_left _ _
  refine ⟨by rw [hc]; exact h.capPos, ?_, ?_, ?_, ?_⟩
  · rw [hc]; exact Nat.le_trans hsub.length_le h.bounded
  · exact List.Nodup.sublist (hsub.map _) h.nodup
  · exact List.Pairwise.sublist (hsub.map _) h.recency
  · intro e he
    rw [ht]
    exact h.tickGt e (hsub.subset he)

theorem step_inv {s : State κ ν} (h : Inv s) (now : Int) (op : Op κ ν) : Inv (step s now op).1 := by
  cases op with
  | get k => exact get_inv h now k
  | put k v => exact put_inv h now k v
  | delete k => exact delete_inv h k
  | clear => exact clear_inv h
  | cleanup => exact cleanup_inv h now
  | size => exact h
  | stats => exact h
  | keys => exact h

theorem run_inv {s : State κ ν} (h : Inv s) (hist : List (Int × Op κ ν)) : Inv (final s hist) := by
  induction hist generalizing s with
  | nil => exact h
  | cons a rest ih =>
    obtain ⟨now, op⟩ := a
    exact ih (step_inv h now op)

/-- the capacity and lifetime never change -/
theorem step_cap (s : State κ ν) (now : Int) (op : Op κ ν) :
    (step s now op).1.cap = s.cap ∧ (step s now op).1.ttl = s.ttl := by
  cases op with
  | get k => simp only [step, get]; split <;> (try split) <;> exact ⟨rfl, rfl⟩
  | put k v =>
    simp only [step, put]
    split
    · exact ⟨rfl, rfl⟩
    · constructor <;> (split <;> rfl)
  | delete k => simp only [step, delete]; split <;> exact ⟨rfl, rfl⟩
  | clear => exact ⟨rfl, rfl⟩
  | cleanup =>
    obtain ⟨_, _, _, _, hc, _, _, _, _, ht⟩ := cleanup_spec s now
    exact ⟨hc, ht⟩
  | size => exact ⟨rfl, rfl⟩
  | stats => exact ⟨rfl, rfl⟩
  | keys => exact ⟨rfl, rfl⟩

theorem run_cap (s : State κ ν) (hist : List (Int × Op κ ν)) :
    (final s hist).cap = s.cap ∧ (final s hist).ttl = s.ttl := by
  induction hist generalizing s with
  | nil => exact ⟨rfl, rfl⟩
  | cons a rest ih =>
    obtain ⟨now, op⟩ := a
    have h1 := step_cap s now op
    have h2 := ih (s := (step s now op).1)
    exact ⟨h2.1.trans h1.1, h2.2.trans h1.2⟩

end Wtf.Lru
