import WtfModel.Model.Retry

/-!
  Helper lemmas for Props/C15.lean (core Lean only; `Rat` lives in core).
-/
namespace Wtf.Retry
open Wtf.Gen

/-! ### the decision table and the retry classifier on the five root causes (evaluated on the
    regenerated tables) -/

theorem classify_keeps_cause (c : Cause) : ∃ t, classifyLoadError (some c) = .app t (.os c) :=
  ⟨_, rfl⟩

theorem noRetry_notExist : shouldRetry (classifyLoadError (some .notExist)) = false := by decide
theorem noRetry_permission : shouldRetry (classifyLoadError (some .permission)) = false := by decide
theorem retry_isDirectory : shouldRetry (classifyLoadError (some .isDirectory)) = true := by decide
theorem retry_parse : shouldRetry (classifyLoadError (some .parse)) = true := by decide
theorem retry_other : shouldRetry (classifyLoadError (some .other)) = true := by decide

theorem absent_notExist : personalAbsent (classifyLoadError (some .notExist)) = true := by decide
theorem present_permission : personalAbsent (classifyLoadError (some .permission)) = false := by decide
theorem present_isDirectory : personalAbsent (classifyLoadError (some .isDirectory)) = false := by decide
theorem present_parse : personalAbsent (classifyLoadError (some .parse)) = false := by decide
theorem present_other : personalAbsent (classifyLoadError (some .other)) = false := by decide

/-! ### the loader -/

/-- a file "loads" -/
def FileState.ok : FileState → Option (List Cmd)
  | .good cs => some cs
  | _ => none

/-- files whose failure is not worth a second look (property: "tried once") -/
def FileState.hopeless (f : FileState) : Prop := f = .missing ∨ f = .denied

/-- files whose failure is retried -/
def FileState.retryable (f : FileState) : Prop := f = .directory ∨ f = .malformed ∨ f = .other

theorem loadDatabase_good (cs : List Cmd) : loadDatabase (.good cs) = .ok cs := rfl

theorem lwp_good_good (m p : List Cmd) : loadWithPersonal (.good m) (.good p) = .ok (m ++ p) := rfl

theorem lwp_good_missing (m : List Cmd) : loadWithPersonal (.good m) .missing = .ok m := by
  simp [loadWithPersonal, loadDatabase, readAndParse, absent_notExist]

theorem lwp_main_hopeless {main : FileState} (h : main.hopeless) (personal : FileState) :
    ∃ e, loadWithPersonal main personal = .error e ∧ shouldRetry e = false := by
  rcases h with h | h <;> subst h
  · exact ⟨_, rfl, noRetry_notExist⟩
  · exact ⟨_, rfl, noRetry_permission⟩

theorem lwp_personal_denied (m : List Cmd) :
    ∃ e, loadWithPersonal (.good m) .denied = .error e ∧ shouldRetry e = false := by
  refine ⟨classifyLoadError (some .permission), ?_, noRetry_permission⟩
  simp [loadWithPersonal, loadDatabase, readAndParse, present_permission]

theorem lwp_main_retryable {main : FileState} (h : main.retryable) (personal : FileState) :
    ∃ e, loadWithPersonal main personal = .error e ∧ shouldRetry e = true := by
  rcases h with h | h | h <;> subst h
  · exact ⟨_, rfl, retry_isDirectory⟩
  · exact ⟨_, rfl, retry_parse⟩
  · exact ⟨_, rfl, retry_other⟩

theorem lwp_personal_retryable (m : List Cmd) {personal : FileState} (h : personal.retryable) :
    ∃ e, loadWithPersonal (.good m) personal = .error e ∧ shouldRetry e = true := by
  rcases h with h | h | h <;> subst h
  · exact ⟨classifyLoadError (some .isDirectory), by simp [loadWithPersonal, loadDatabase, readAndParse, present_isDirectory], retry_isDirectory⟩
  · exact ⟨classifyLoadError (some .parse), by simp [loadWithPersonal, loadDatabase, readAndParse, present_parse], retry_parse⟩
  · exact ⟨classifyLoadError (some .other), by simp [loadWithPersonal, loadDatabase, readAndParse, present_other], retry_other⟩

/-- The loader succeeds exactly when the main file loads and the notebook loads or is missing, and
    then returns main followed by notebook. -/
theorem lwp_ok_iff (main personal : FileState) (db : List Cmd) :
    loadWithPersonal main personal = .ok db ↔
      ∃ m, main = .good m ∧ ((∃ p, personal = .good p ∧ db = m ++ p) ∨ (personal = .missing ∧ db = m)) := by
  constructor
  · intro h
    cases main with
    | good m =>
      refine ⟨m, rfl, ?_⟩
      cases personal with
      | good p => left; refine ⟨p, rfl, ?_⟩; simp [lwp_good_good] at h; exact h.symm
      | missing => right; refine ⟨rfl, ?_⟩; simp [lwp_good_missing] at h; exact h.symm
      | denied => obtain ⟨e, he, _⟩ := lwp_personal_denied m; rw [he] at h; cases h
      | directory => obtain ⟨e, he, _⟩ := lwp_personal_retryable m (personal := .directory) (Or.inl rfl); rw [he] at h; cases h
      | malformed => obtain ⟨e, he, _⟩ := lwp_personal_retryable m (personal := .malformed) (Or.inr (Or.inl rfl)); rw [he] at h; cases h
      | other => obtain ⟨e, he, _⟩ := lwp_personal_retryable m (personal := .other) (Or.inr (Or.inr rfl)); rw [he] at h; cases h
    | missing => obtain ⟨e, he, _⟩ := lwp_main_hopeless (main := .missing) (Or.inl rfl) personal; rw [he] at h; cases h
    | denied => obtain ⟨e, he, _⟩ := lwp_main_hopeless (main := .denied) (Or.inr rfl) personal; rw [he] at h; cases h
    | directory => obtain ⟨e, he, _⟩ := lwp_main_retryable (main := .directory) (Or.inl rfl) personal; rw [he] at h; cases h
    | malformed => obtain ⟨e, he, _⟩ := lwp_main_retryable (main := .malformed) (Or.inr (Or.inl rfl)) personal; rw [he] at h; cases h
    | other => obtain ⟨e, he, _⟩ := lwp_main_retryable (main := .other) (Or.inr (Or.inr rfl)) personal; rw [he] at h; cases h
  · rintro ⟨m, rfl, ⟨p, rfl, rfl⟩ | ⟨rfl, rfl⟩⟩
    · exact lwp_good_good m p
    · exact lwp_good_missing _

/-! ### the retry loop -/

theorem retryLoop_ok {cfg : Cfg} {f : Nat → Attempt} {r a : Nat} {last : Option Err} {db : List Cmd}
    (h : f a = .ok db) :
    retryLoop cfg f (r + 1) a last = { db := some db, err := none, attempts := a, delays := [] } := by
  simp [retryLoop, h]

theorem retryLoop_stop {cfg : Cfg} {f : Nat → Attempt} {r a : Nat} {last : Option Err} {e : Err}
    (h : f a = .error e) (hs : shouldRetry e = false) :
    retryLoop cfg f (r + 1) a last = { db := none, err := some e, attempts := a, delays := [] } := by
  simp [retryLoop, h, hs]

/-- never more attempts than the loop bound allows -/
theorem retryLoop_attempts_le (cfg : Cfg) (f : Nat → Attempt) :
    ∀ (r a : Nat) (last : Option Err), (retryLoop cfg f r a last).attempts ≤ a + r - 1 := by
  intro r
  induction r with
  | zero => intro a last; simp [retryLoop]
  | succ r ih =>
    intro a last
    unfold retryLoop
    split
    · simp <;> omega
    · split
      · have := ih (a + 1) (some ‹Err›)
        split <;> simp <;> omega
      · simp <;> omega

/-- at least the current attempt is made when the loop body is entered -/
theorem retryLoop_attempts_ge (cfg : Cfg) (f : Nat → Attempt) :
    ∀ (r a : Nat) (last : Option Err), a ≤ (retryLoop cfg f (r + 1) a last).attempts := by
  intro r
  induction r with
  | zero =>
    intro a last
    unfold retryLoop
    split
    · simp
    · split
      · split <;> simp [retryLoop]
      · simp
  | succ r ih =>
    intro a last
    unfold retryLoop
    split
    · simp
    · split
      · have := ih (a + 1) (some ‹Err›)
        split <;> simp <;> omega
      · simp

/-- the result is well formed (a database and no error, or an error and no database) as soon as one
    attempt is made or an error is already pending -/
theorem retryLoop_wf (cfg : Cfg) (f : Nat → Attempt) :
    ∀ (r a : Nat) (last : Option Err), (0 < r ∨ last.isSome) →
      let o := retryLoop cfg f r a last
      (∃ db, o.db = some db ∧ o.err = none) ∨ (o.db = none ∧ ∃ e, o.err = some e) := by
  intro r
  induction r with
  | zero =>
    intro a last h
    rcases h with h | h
    · omega
    · cases last with
      | none => simp at h
      | some e => right; simp [retryLoop]
  | succ r ih =>
    intro a last _
    unfold retryLoop
    split
    · left; simp
    · split
      · have := ih (a + 1) (some ‹Err›) (Or.inr rfl)
        split <;> simpa using this
      · right; simp

/-- the sleeps are exactly `calculateDelay(a), …, calculateDelay(attempts-1)` -/
theorem retryLoop_delays (cfg : Cfg) (f : Nat → Attempt) :
    ∀ (r a : Nat) (last : Option Err), (r = 0 ∨ (a : Int) + r = cfg.maxAttempts + 1) →
      let o := retryLoop cfg f r a last
      o.delays = (List.range' a (o.attempts - a)).map (delayNs cfg) := by
  intro r
  induction r with
  | zero => intro a last _; simp [retryLoop]
  | succ r ih =>
    intro a last hinv
    have hinv : (a : Int) + (r + 1 : Nat) = cfg.maxAttempts + 1 := by
      rcases hinv with h | h
      · omega
      · exact h
    unfold retryLoop
    split
    · simp
    · split
      · rename_i e _ _
        by_cases hr : r = 0
        · subst hr
          have hlt : ¬ ((a : Int) < cfg.maxAttempts) := by omega
          simp [hlt, retryLoop]
        · have hlt : (a : Int) < cfg.maxAttempts := by omega
          have hrec := ih (a + 1) (some e) (Or.inr (by omega))
          obtain ⟨r', rfl⟩ : ∃ r', r = r' + 1 := ⟨r - 1, by omega⟩
          have hge := retryLoop_attempts_ge cfg f r' (a + 1) (some e)
          simp only [hlt, ↓reduceIte]
          simp only at hrec
          rw [hrec]
          have : (retryLoop cfg f (r' + 1) (a + 1) (some e)).attempts - a =
              ((retryLoop cfg f (r' + 1) (a + 1) (some e)).attempts - (a + 1)) + 1 := by omega
          rw [this, List.range'_succ]
          simp
      · simp

/-- a returned database is the one the last attempt loaded -/
theorem retryLoop_db (cfg : Cfg) (f : Nat → Attempt) :
    ∀ (r a : Nat) (last : Option Err) (db : List Cmd),
      (retryLoop cfg f r a last).db = some db → f (retryLoop cfg f r a last).attempts = .ok db := by
  intro r
  induction r with
  | zero => intro a last db h; simp [retryLoop] at h
  | succ r ih =>
    intro a last db
    unfold retryLoop
    split
    · rename_i d hd
      intro h; simp at h; subst h; simpa using hd
    · split
      · have := ih (a + 1) (some ‹Err›) db
        split <;> simpa using this
      · intro h; simp at h

/-- persistent retryable failure: every permitted attempt is made -/
theorem retryLoop_persistent (cfg : Cfg) (f : Nat → Attempt)
    (hf : ∀ n, ∃ e, f n = .error e ∧ shouldRetry e = true) :
    ∀ (r a : Nat) (last : Option Err),
      let o := retryLoop cfg f r a last
      o.attempts = a + r - 1 ∧ o.db = none := by
  intro r
  induction r with
  | zero => intro a last; simp [retryLoop]
  | succ r ih =>
    intro a last
    obtain ⟨e, he, hs⟩ := hf a
    have := ih (a + 1) (some e)
    dsimp only at this
    obtain ⟨h1, h2⟩ := this
    unfold retryLoop
    simp only [he, hs, ↓reduceIte]
    split <;> simp [h1, h2] <;> omega

/-- transient failure: `k` retryable failures, then success -/
theorem retryLoop_transient (cfg : Cfg) (f : Nat → Attempt) (db : List Cmd) :
    ∀ (k r a : Nat) (last : Option Err), k < r →
      (∀ n, a ≤ n → n < a + k → ∃ e, f n = .error e ∧ shouldRetry e = true) →
      f (a + k) = .ok db →
      let o := retryLoop cfg f r a last
      o.db = some db ∧ o.err = none ∧ o.attempts = a + k := by
  intro k
  induction k with
  | zero =>
    intro r a last hr _ hok
    obtain ⟨r', rfl⟩ : ∃ r', r = r' + 1 := ⟨r - 1, by omega⟩
    simp at hok
    simp [retryLoop_ok hok]
  | succ k ih =>
    intro r a last hr hfail hok
    obtain ⟨r', rfl⟩ : ∃ r', r = r' + 1 := ⟨r - 1, by omega⟩
    obtain ⟨e, he, hs⟩ := hfail a (Nat.le_refl _) (by omega)
    have := ih r' (a + 1) (some e) (by omega) (fun n h1 h2 => hfail n (by omega) (by omega))
      (by rw [← hok]; congr 1; omega)
    unfold retryLoop
    simp only [he, hs, ↓reduceIte]
    dsimp only at this
    obtain ⟨h1, h2, h3⟩ := this
    split <;> simp [h1, h2, h3] <;> omega

end Wtf.Retry
