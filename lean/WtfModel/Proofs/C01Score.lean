import WtfModel.Proofs.SearchBasic
/-
  C01, non-negativity of scores on the lexical path: BM25F terms are non-negative for sane
  parameters, the score map only accumulates non-negative contributions, and every later stage
  multiplies by a non-negative factor or adds a non-negative term.  Core Lean only.
-/
namespace Wtf.Search
open Text Index Filters ScoreOps ScoreLaws

variable {S : Type} [ScoreOps S] [ScoreLaws S]

/-! ### order helpers derived from the laws -/

/-- `a < b`, `c ≥ b` ⊢ `a < c` -/
theorem lt_of_lt_of_ge {a b c : S} (h1 : lt a b = true) (h2 : lt c b = false) : lt a c = true := by
  cases h : lt a c with
  | true => rfl
  | false =>
    have := ScoreLaws.le_trans a c b h h2
    rw [h1] at this; cases this

/-- `a ≥ b`, `b > c` ⊢ `c < a`  (stated as: `lt b a = false`… see use sites) -/
theorem lt_of_ge_of_lt {a b c : S} (h1 : lt a b = false) (h2 : lt c b = true) : lt c a = true := by
  cases h : lt c a with
  | true => rfl
  | false =>
    -- c ≥ a ≥ b  ⇒ c ≥ b, contradiction with c < b
    have := ScoreLaws.le_trans c a b h h1
    rw [h2] at this; cases this

/-! ### parameters -/

/-- Sanity of the BM25F parameters: `k1 > 0`, field weights `> 0`, length-normalisation strengths in
    `[0,1]`.  Discharged for the parameters in the source by `genParams_wf` below (a `decide` over the
    regenerated rationals `Gen.Bm25.*`): a re-tuned but sane parameter set still passes, a negative
    weight or `b > 1` breaks the proof. -/
structure ParamsWF (P : Params S) : Prop where
  k1_pos : Pos P.k1
  wCmd_pos : Pos P.wCmd
  wDesc_pos : Pos P.wDesc
  wKeys_pos : Pos P.wKeys
  wTags_pos : Pos P.wTags
  bCmd_nonneg : Nonneg P.bCmd
  bDesc_nonneg : Nonneg P.bDesc
  bKeys_nonneg : Nonneg P.bKeys
  bTags_nonneg : Nonneg P.bTags
  bCmd_le_one : lt (one : S) P.bCmd = false
  bDesc_le_one : lt (one : S) P.bDesc = false
  bKeys_le_one : lt (one : S) P.bKeys = false
  bTags_le_one : lt (one : S) P.bTags = false

/-- the parameters written in `defaultParams()` (regenerated on every run) are sane -/
theorem genParams_wf : ParamsWF (genParams : Params S) where
  k1_pos := ofQ_pos _ (by decide) (by decide)
  wCmd_pos := ofQ_pos _ (by decide) (by decide)
  wDesc_pos := ofQ_pos _ (by decide) (by decide)
  wKeys_pos := ofQ_pos _ (by decide) (by decide)
  wTags_pos := ofQ_pos _ (by decide) (by decide)
  bCmd_nonneg := ofQ_nonneg _ (by decide) (by decide)
  bDesc_nonneg := ofQ_nonneg _ (by decide) (by decide)
  bKeys_nonneg := ofQ_nonneg _ (by decide) (by decide)
  bTags_nonneg := ofQ_nonneg _ (by decide) (by decide)
  bCmd_le_one := ofQ_le_one _ (by decide) (by decide)
  bDesc_le_one := ofQ_le_one _ (by decide) (by decide)
  bKeys_le_one := ofQ_le_one _ (by decide) (by decide)
  bTags_le_one := ofQ_le_one _ (by decide) (by decide)

/-! ### BM25F -/

theorem fieldBM25_nonneg {k1 w b : S} (hk : Pos k1) (hw : Pos w) (hb0 : Nonneg b) (hb1 : lt (one : S) b = false)
    (tf dl : Nat) (htf : 0 < tf) (avgdl : S) :
    Nonneg (fieldBM25 k1 (ofNat tf) (ofNat dl) avgdl w b) := by
  unfold fieldBM25
  simp only []
  have havg : Pos (if le avgdl zero then one else avgdl : S) := by
    unfold ScoreOps.le
    cases h : lt (zero : S) avgdl with
    | true => simpa using h
    | false => simpa using one_pos
  generalize (if le avgdl zero then one else avgdl : S) = avg at havg
  have hnorm : Nonneg (add (sub one b) (mul b (div (ofNat dl) avg))) :=
    add_nonneg _ _ (sub_nonneg _ _ hb1) (mul_nonneg _ _ hb0 (div_nonneg _ _ (ofNat_nonneg dl) havg))
  have htfw : Pos (mul w (ofNat tf : S)) := mul_pos _ _ hw (ofNat_pos tf htf)
  apply div_nonneg
  · exact mul_nonneg _ _ (pos_nonneg htfw) (add_nonneg _ _ (pos_nonneg hk) one_nonneg)
  · exact add_pos_of_pos_nonneg _ _ htfw (mul_nonneg _ _ (pos_nonneg hk) hnorm)

theorem termBM25F_nonneg {P : Params S} (hP : ParamsWF P) (n : Nat) (tot dl : DocLens) (tf : FieldTF) :
    Nonneg (termBM25F P n tot dl tf) := by
  unfold termBM25F
  simp only []
  have h0 : Nonneg (zero : S) := zero_nonneg
  have step : ∀ (s x : S) (c : Prop) [Decidable c], Nonneg s → (c → Nonneg x) → Nonneg (if c then add s x else s) := by
    intro s x c _ hs hx
    split
    · rename_i hc; exact add_nonneg _ _ hs (hx hc)
    · exact hs
  apply step
  · apply step
    · apply step
      · apply step
        · exact h0
        · intro h; exact fieldBM25_nonneg hP.k1_pos hP.wCmd_pos hP.bCmd_nonneg hP.bCmd_le_one _ _ h _
      · intro h; exact fieldBM25_nonneg hP.k1_pos hP.wDesc_pos hP.bDesc_nonneg hP.bDesc_le_one _ _ h _
    · intro h; exact fieldBM25_nonneg hP.k1_pos hP.wKeys_pos hP.bKeys_nonneg hP.bKeys_le_one _ _ h _
  · intro h; exact fieldBM25_nonneg hP.k1_pos hP.wTags_pos hP.bTags_nonneg hP.bTags_le_one _ _ h _

/-! ### the score map accumulates non-negative contributions -/

/-- every value of a result / score list is non-negative -/
def AllNonneg (m : List (Nat × S)) : Prop := ∀ x ∈ m, Nonneg x.2

omit [ScoreLaws S] in
theorem allNonneg_nil : AllNonneg ([] : List (Nat × S)) := by intro x hx; cases hx

theorem allNonneg_addScore {m : List (Nat × S)} (h : AllNonneg m) (d : Nat) {x : S} (hx : Nonneg x) :
    AllNonneg (addScore m d x) := by
  induction m with
  | nil =>
    intro y hy
    simp only [addScore, List.mem_singleton] at hy
    subst hy; exact add_nonneg _ _ zero_nonneg hx
  | cons a rest ih =>
    obtain ⟨d', s⟩ := a
    have hs : Nonneg s := h (d', s) (by simp)
    have hrest : AllNonneg rest := fun y hy => h y (by simp [hy])
    simp only [addScore]
    split
    · intro y hy
      simp only [List.mem_cons] at hy
      cases hy with
      | inl hy => subst hy; exact add_nonneg _ _ hs hx
      | inr hy => exact hrest y hy
    · split
      · intro y hy
        simp only [List.mem_cons] at hy
        rcases hy with hy | hy | hy
        · subst hy; exact add_nonneg _ _ zero_nonneg hx
        · subst hy; exact hs
        · exact hrest y hy
      · intro y hy
        simp only [List.mem_cons] at hy
        cases hy with
        | inl hy => subst hy; exact hs
        | inr hy => exact ih hrest y hy

theorem boostOf_pos (tb : List (Bytes × S)) (t : Token) : Pos (boostOf tb t) := by
  unfold boostOf
  split
  · split
    · rename_i h; exact h
    · exact one_pos
  · exact one_pos

theorem processPostings_nonneg (T : Tuning S) (hP : ParamsWF T.params) (db : Db) (idx : Index) (tot : DocLens)
    (o : Opts S) {w : S} (hw : Nonneg w) (ps : List Posting) (m : List (Nat × S)) (h : AllNonneg m) :
    AllNonneg (processPostings T db idx tot o w ps m) := by
  unfold processPostings
  induction ps generalizing m with
  | nil => exact h
  | cons p rest ih =>
    simp only [List.foldl_cons]
    apply ih
    split
    · exact h
    · split
      · exact allNonneg_addScore h _ (mul_nonneg _ _ hw (termBM25F_nonneg hP _ _ _ _))
      · exact h

/-- idf is only ever asked for a document frequency that does not exceed the collection size -/
def DfLeN (idx : Index) : Prop := ∀ t k, look idx.df t = some k → k ≤ idx.n

theorem initialScores_nonneg (T : Tuning S) (hP : ParamsWF T.params)
    (db : Db) (idx : Index) (hidx : DfLeN idx) (hidf : ∀ df, df ≤ idx.n → Nonneg (T.idf idx.n df))
    (o : Opts S) (pq : Option (NlpOut S)) (terms : List Token) :
    AllNonneg (initialScores T db idx o pq terms) := by
  unfold initialScores
  generalize termBoosts o pq = tb
  generalize sumLens idx.lens = tot
  suffices h : ∀ (m : List (Nat × S)), AllNonneg m →
      AllNonneg (terms.foldl (fun sc t =>
        match look idx.postings t with
        | none => sc
        | some ps =>
          let idf := T.idf idx.n ((look idx.df t).getD 0)
          if lt idf T.params.minIDF then sc
          else processPostings T db idx tot o (mul idf (boostOf tb t)) ps sc) m) from h [] allNonneg_nil
  induction terms with
  | nil => intro m hm; exact hm
  | cons t rest ih =>
    intro m hm
    simp only [List.foldl_cons]
    apply ih
    split
    · exact hm
    · split
      · exact hm
      · apply processPostings_nonneg T hP
        · apply mul_nonneg _ _ _ (pos_nonneg (boostOf_pos tb t))
          apply hidf
          cases hl : look idx.df t with
          | none => simp
          | some k => simpa using hidx t k hl
        · exact hm

/-! ### later stages -/

/-- per-document NLP factors (`calculateIntentBoost`, `calculateBoostForCommand`) are non-negative -/
def NlpOut.FactorsNonneg (n : NlpOut S) : Prop := ∀ d, Nonneg (n.intentBoost d) ∧ Nonneg (n.cascade d)

theorem collect_nonneg (T : Tuning S) (db : Db) (o : Opts S) (pq : Option (NlpOut S))
    (hpq : ∀ n, pq = some n → n.FactorsNonneg) (m : List (Nat × S)) (h : AllNonneg m) :
    AllNonneg (collect T db o pq m) := by
  intro x hx
  unfold collect at hx
  rw [List.mem_filterMap] at hx
  obtain ⟨⟨d, s⟩, hmem, hsome⟩ := hx
  have hs : Nonneg s := h (d, s) hmem
  simp only at hsome
  split at hsome
  · cases hsome
  · rename_i c hc
    simp only [Option.some.injEq] at hsome
    subst hsome
    simp only
    have h1 : Nonneg (match pq with
        | none => s
        | some n =>
          let s' := mul s (n.intentBoost d)
          let docText := c.commandLower ++ (0x20 :: c.descriptionLower)
          if containsAnyLocal docText n.actions && containsAnyLocal docText n.targets then mul s' (ofQ coocFactor) else s') := by
      split
      · exact hs
      · rename_i n
        have hn := (hpq n rfl d).1
        simp only
        split
        · exact mul_nonneg _ _ (mul_nonneg _ _ hs hn) (ofQ_nonneg _ (by decide) (by decide))
        · exact mul_nonneg _ _ hs hn
    split
    · rename_i hb
      simp only [Bool.and_eq_true] at hb
      exact mul_nonneg _ _ h1 (pos_nonneg hb.2)
    · exact h1

omit [ScoreLaws S] in
theorem allNonneg_sortDesc {l : List (Nat × S)} (h : AllNonneg l) : AllNonneg (sortDesc (·.2) l) := by
  intro x hx; exact h x ((mem_sortDesc _).mp hx)

omit [ScoreLaws S] in
theorem allNonneg_take {l : List (Nat × S)} (h : AllNonneg l) (n : Nat) : AllNonneg (l.take n) := by
  intro x hx; exact h x (List.mem_of_mem_take hx)

/-- TF-IDF similarities are non-negative -/
def TfidfNonneg (T : Tuning S) : Prop := ∀ rank, T.tfidf = some rank → ∀ q, ∀ x ∈ rank q, Nonneg x.2

theorem rerank_nonneg (T : Tuning S) (hT : TfidfNonneg T) (nq : Bytes) (limit : Nat) (r : List (Nat × S))
    (h : AllNonneg r) : AllNonneg (rerank T nq limit r) := by
  unfold rerank
  split
  · exact h
  · rename_i rank hrank
    apply allNonneg_sortDesc
    intro x hx
    rw [List.mem_map] at hx
    obtain ⟨⟨d, s⟩, hmem, hx⟩ := hx
    have hs : Nonneg s := h (d, s) (List.mem_of_mem_take hmem)
    simp only at hx
    split at hx
    · rename_i d' sim hfind
      subst hx
      have hm := List.mem_of_find?_eq_some hfind
      have hsim : Nonneg sim := hT rank hrank nq (d', sim) (List.mem_of_mem_take hm)
      exact add_nonneg _ _ hs (mul_nonneg _ _ (mul_nonneg _ _ hsim (ofQ_nonneg _ (by decide) (by decide)))
        (ofQ_nonneg _ (by decide) (by decide)))
    · subst hx; exact hs

theorem cascade_nonneg (n : NlpOut S) (hn : n.FactorsNonneg) (r : List (Nat × S)) (h : AllNonneg r) :
    AllNonneg (cascadeStage n r) := by
  unfold cascadeStage
  split
  · exact h
  · apply allNonneg_sortDesc
    intro x hx
    rw [List.mem_map] at hx
    obtain ⟨⟨d, s⟩, hmem, hx⟩ := hx
    subst hx
    exact mul_nonneg _ _ (h (d, s) hmem) (hn d).2

end Wtf.Search
