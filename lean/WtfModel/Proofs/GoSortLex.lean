import WtfModel.Proofs.GoSort

/-!
  The tie order of Go's `sort.Stable` under a NON-strict `Less`, in closed form.

  `Proofs/GoSort.lean` shows that the modelled `sort.Stable` sorts when `Less` is the non-strict version of a total
  preorder.  Here: *which* of the sorted permutations it returns.  Every comparison `data.Less(i, j)` the algorithm makes
  has, at position `i`, an element that stood later in the input than the element at position `j` (insertion sort compares
  the element being inserted with the prefix before it; `symMerge` compares an element of the right run with one of the
  left run).  So the algorithm cannot tell `less` from any relation `R` that agrees with it on such pairs — in particular
  from `R x y = x before y strictly, or x, y equivalent and x later in the input`, which is a total preorder (a total order
  when positions are distinct).  By the sortedness proof, replayed with the two relations kept apart, the output is
  `R`-sorted: equal keys come out in REVERSE input order, and the output is the unique such permutation —
  independent of block size, merge strategy or toolchain version.
-/
namespace Wtf.GoSort

variable {α : Type} [Inhabited α]

/-- the algorithm compares with `less`; `R` is the order its output is shown to have; `tag x` is the place of `x` in the
    input.  `less` and `R` agree whenever the first argument came later in the input than the second. -/
structure Agree (less R : α → α → Bool) (tag : α → Nat) : Prop where
  pre : TotalPreorder R
  cmp : ∀ x y, tag y < tag x → less x y = R x y

/-- everything in `data[a:m]` came earlier in the input than everything in `data[m:b]` -/
def TagLt (tag : α → Nat) (d : Array α) (a m b : Nat) : Prop :=
  ∀ i j, a ≤ i → i < m → m ≤ j → j < b → tag (get d i) < tag (get d j)

theorem Frame_swp (d : Array α) (a b i j : Nat) (hi : a ≤ i) (hi' : i < b) (hj : a ≤ j) (hj' : j < b) (hb : b ≤ d.size) :
    Frame d (swp d i j) a b := by
  have g := get_swp d (i := i) (j := j) (by omega) (by omega)
  refine ⟨size_swp d i j, fun k hk => ?_, fun k k1 k2 => ?_⟩
  · rw [g, if_neg (by omega), if_neg (by omega)]
  · rw [g]
    by_cases e1 : k = i
    · rw [if_pos e1]; exact ⟨j, hj, hj', rfl⟩
    · rw [if_neg e1]
      by_cases e2 : k = j
      · rw [if_pos e2]; exact ⟨i, hi, hi', rfl⟩
      · rw [if_neg e2]; exact ⟨k, k1, k2, rfl⟩

section lex
variable (less R : α → α → Bool) (tag : α → Nat)

/-! ### insertionSort -/

theorem insertDown_lex (hA : Agree less R tag) (a J j : Nat) (d : Array α) (haj : a ≤ j) (hjJ : j ≤ J) (hJ : J < d.size)
    (h1 : S R d a j) (h2 : S R d j (J + 1))
    (h3 : ∀ x y, a ≤ x → x < j → j < y → y ≤ J → R (get d x) (get d y) = true)
    (ht : ∀ x, a ≤ x → x < j → tag (get d x) < tag (get d j)) :
    Frame d (insertDown less a j d) a (J + 1) ∧ S R (insertDown less a j d) a (J + 1) := by
  have hT := hA.pre
  induction j generalizing d with
  | zero =>
    have : a = 0 := by omega
    subst this
    exact ⟨Frame.refl _ _ _, h2⟩
  | succ j ih =>
    unfold insertDown
    by_cases hc : (decide (a < j + 1) && lessAt less d (j + 1) j) = true
    · rw [if_pos hc]
      simp only [Bool.and_eq_true, decide_eq_true_eq] at hc
      obtain ⟨haj', hl⟩ := hc
      rw [lessAt_eq less d (by omega) (by omega), hA.cmp _ _ (ht j (by omega) (by omega))] at hl
      have g := get_swp d (i := j + 1) (j := j) (by omega) (by omega)
      have hs := size_swp d (j + 1) j
      obtain ⟨r1, r3⟩ := ih (swp d (j + 1) j) (by omega) (by omega) (by omega)
        (by
          intro x y hx hxy hy
          rw [g, g, if_neg (by omega), if_neg (by omega), if_neg (by omega), if_neg (by omega)]
          exact h1 x y hx hxy (by omega))
        (by
          intro x y hx hxy hy
          rw [g, g]
          by_cases ex : x = j
          · subst ex
            rw [if_neg (by omega), if_pos rfl]
            by_cases ey : y = x + 1
            · subst ey; rw [if_pos rfl]; exact hl
            · rw [if_neg ey, if_neg (by omega)]
              exact h2 (x + 1) y (by omega) (by omega) hy
          · by_cases ex' : x = j + 1
            · subst ex'
              rw [if_pos rfl, if_neg (by omega), if_neg (by omega)]
              exact h3 j y (by omega) (by omega) (by omega) (by omega)
            · rw [if_neg ex', if_neg ex, if_neg (by omega), if_neg (by omega)]
              exact h2 x y (by omega) hxy hy)
        (by
          intro x y hx hxj hjy hyJ
          rw [g, g, if_neg (by omega), if_neg (by omega)]
          by_cases ey : y = j + 1
          · subst ey; rw [if_pos rfl]; exact h1 x j hx hxj (by omega)
          · rw [if_neg ey, if_neg (by omega)]
            exact h3 x y hx (by omega) (by omega) hyJ)
        (by
          intro x hx hxj
          rw [g, g, if_neg (by omega), if_neg (by omega), if_neg (by omega), if_pos rfl]
          exact ht x hx (by omega))
      exact ⟨(Frame_swp d a (J + 1) (j + 1) j (by omega) (by omega) (by omega) (by omega) (by omega)).trans r1, r3⟩
    · rw [if_neg hc]
      refine ⟨Frame.refl _ _ _, ?_⟩
      simp only [Bool.and_eq_true, decide_eq_true_eq, not_and, Bool.not_eq_true] at hc
      by_cases haj' : a < j + 1
      · have hl := hc haj'
        rw [lessAt_eq less d (by omega) (by omega), hA.cmp _ _ (ht j (by omega) (by omega))] at hl
        have hl' := hT.of_false hl
        intro x y hx hxy hy
        by_cases hyj : y < j + 1
        · exact h1 x y hx hxy hyj
        · by_cases hxj : j + 1 ≤ x
          · exact h2 x y hxj hxy hy
          · by_cases ey : y = j + 1
            · subst ey
              by_cases ex : x = j
              · subst ex; exact hl'
              · exact hT.trans _ _ _ (h1 x j hx (by omega) (by omega)) hl'
            · exact h3 x y hx (by omega) (by omega) (by omega)
      · have : a = j + 1 := by omega
        subst this
        exact h2

theorem insertionLoop_lex (hA : Agree less R tag) (a b fuel i : Nat) (d : Array α) (hai : a ≤ i) (hb : b ≤ d.size)
    (hf : b ≤ i + fuel) (h : S R d a i)
    (hI : ∀ x k, a ≤ x → x < k → i ≤ k → k < b → tag (get d x) < tag (get d k)) :
    Frame d (insertionLoop less a b fuel i d) a b ∧ S R (insertionLoop less a b fuel i d) a b := by
  induction fuel generalizing i d with
  | zero => exact ⟨Frame.refl _ _ _, h.mono (Nat.le_refl _) (by omega)⟩
  | succ f ih =>
    unfold insertionLoop
    by_cases hlt : i < b
    · rw [if_pos hlt]
      obtain ⟨r1, r3⟩ := insertDown_lex less R tag hA a i i d hai (Nat.le_refl _) (by omega) h
        (fun x y hx hxy hy => by omega) (fun x y _ _ h1 h2 => by omega) (fun x hx hxi => hI x i hx hxi (Nat.le_refl _) hlt)
      obtain ⟨q1, q3⟩ := ih (i + 1) (insertDown less a i d) (by omega) (by have := r1.size; omega) (by omega) r3
        (by
          intro x k hx hxk hik hkb
          rw [r1.out k (by omega)]
          by_cases c : x < i + 1
          · obtain ⟨x', e1, e2, e3⟩ := r1.mem x hx c
            rw [e3]; exact hI x' k e1 (by omega) (by omega) hkb
          · rw [r1.out x (by omega)]; exact hI x k hx hxk (by omega) hkb)
      exact ⟨(r1.mono (Nat.le_refl _) (by omega)).trans q1, q3⟩
    · rw [if_neg hlt]
      exact ⟨Frame.refl _ _ _, h.mono (Nat.le_refl _) (by omega)⟩

/-- **insertionSort** on a range that is still in input order: in `R`-order afterwards -/
theorem insertionSort_lex (hA : Agree less R tag) (d : Array α) (a b : Nat) (hb : b ≤ d.size)
    (hI : ∀ x k, a ≤ x → x < k → k < b → tag (get d x) < tag (get d k)) :
    Frame d (insertionSort less d a b) a b ∧ S R (insertionSort less d a b) a b :=
  insertionLoop_lex less R tag hA a b (b - (a + 1)) (a + 1) d (by omega) hb (by omega) (fun i j hi hij hj => by omega)
    (fun x k hx hxk _ hkb => hI x k hx hxk hkb)

/-! ### symMerge -/

theorem symMerge_general_lex (hA : Agree less R tag) (f : Nat)
    (ih : ∀ (d : Array α) (a m b : Nat), a < m → m < b → b ≤ d.size → b - a ≤ f → S R d a m → S R d m b →
      TagLt tag d a m b → Frame d (symMerge less f d a m b) a b ∧ S R (symMerge less f d a m b) a b)
    (d : Array α) (a m b mid start : Nat) (hb : b ≤ d.size) (hf : b - a ≤ f + 1)
    (hmid1 : 2 * mid ≤ a + b) (hmid2 : a + b < 2 * mid + 2) (hab : a + 2 ≤ b)
    (h1 : S R d a m) (h2 : S R d m b) (hL : TagLt tag d a m b)
    (hs1 : a ≤ start) (hsm : start ≤ m) (hsmid : start ≤ mid) (he : mid + m - start ≤ b)
    (hl : (start = a ∨ mid + m - start = b) ∨ R (get d (mid + m - start)) (get d (start - 1)) = false)
    (hr : (start = m ∨ mid + m - start = m) ∨ R (get d (mid + m - start - 1)) (get d start) = true) :
    let e := mid + m - start
    let d1 := if (decide (start < m) && decide (m < e)) = true then rotate d start m e else d
    let d2 := if (decide (a < start) && decide (start < mid)) = true then symMerge less f d1 a start mid else d1
    let d3 := if (decide (mid < e) && decide (e < b)) = true then symMerge less f d2 mid e b else d2
    Frame d d3 a b ∧ S R d3 a b := by
  intro e d1 d2 d3
  have hT := hA.pre
  have hme : m ≤ e := by omega
  have hmid : start + (e - m) = mid := by omega
  obtain ⟨A0, A1, A2, A3⟩ : d1.size = d.size ∧ (∀ x, start ≤ x → x < mid → get d1 x = get d (x - start + m)) ∧
      (∀ x, mid ≤ x → x < e → get d1 x = get d (x - mid + start)) ∧ (∀ x, (x < start ∨ e ≤ x) → get d1 x = get d x) :=
    rotIf_spec d start m e mid hsm hme (by omega) hmid
  obtain ⟨F01, S1, S2, S3, S4, X⟩ := symMerge_split R hT d d1 a m b start e mid h1 h2 hs1 hsm hme he hmid hl hr A0 A1 A2 A3
  have L1 : TagLt tag d1 a start mid := by
    intro i j hi hi' hj hj'
    rw [A3 i (Or.inl hi'), A1 j hj hj']
    exact hL _ _ hi (by omega) (by omega) (by omega)
  have L2 : TagLt tag d1 mid e b := by
    intro i j hi hi' hj hj'
    rw [A2 i hi hi', A3 j (Or.inr hj)]
    exact hL _ _ (by omega) (by omega) (by omega) hj'
  have P2 : Frame d1 d2 a mid ∧ S R d2 a mid := by
    by_cases c : a < start ∧ start < mid
    · have e2 : d2 = symMerge less f d1 a start mid := if_pos (by simpa using c)
      rw [e2]
      exact ih d1 a start mid c.1 c.2 (by omega) (by omega) S1 S2 L1
    · have e2 : d2 = d1 := if_neg (by simpa using c)
      rw [e2]
      refine ⟨Frame.refl _ _ _, ?_⟩
      by_cases c' : a = start
      · rw [c']; exact S2
      · have : start = mid := by omega
        rw [← this]; exact S1
  obtain ⟨F12, T2⟩ := P2
  have S3' : S R d2 mid e := S3.congr (fun k k1 _ => F12.out k (by omega))
  have S4' : S R d2 e b := S4.congr (fun k k1 _ => F12.out k (by omega))
  have L2' : TagLt tag d2 mid e b := by
    intro i j hi hi' hj hj'
    rw [F12.out i (by omega), F12.out j (by omega)]
    exact L2 i j hi hi' hj hj'
  have P3 : Frame d2 d3 mid b ∧ S R d3 mid b := by
    by_cases c : mid < e ∧ e < b
    · have e3 : d3 = symMerge less f d2 mid e b := if_pos (by simpa using c)
      rw [e3]
      exact ih d2 mid e b c.1 c.2 (by have := F12.size; omega) (by omega) S3' S4' L2'
    · have e3 : d3 = d2 := if_neg (by simpa using c)
      rw [e3]
      refine ⟨Frame.refl _ _ _, ?_⟩
      by_cases c' : e = mid
      · rw [← c']; exact S4'
      · have : e = b := by omega
        rw [← this]; exact S3'
  obtain ⟨F23, T3⟩ := P3
  obtain ⟨F13, T⟩ := symMerge_join R d1 d2 d3 a mid b (by omega) (by omega) F12 F23 T2 T3 X
  exact ⟨F01.trans F13, T⟩

/-- **symMerge** of two adjacent `R`-ordered runs of which the left one came earlier in the input: `R`-ordered -/
theorem symMerge_lex (hA : Agree less R tag) (fuel : Nat) (d : Array α) (a m b : Nat) (ham : a < m) (hmb : m < b)
    (hb : b ≤ d.size) (hf : b - a ≤ fuel) (h1 : S R d a m) (h2 : S R d m b) (hL : TagLt tag d a m b) :
    Frame d (symMerge less fuel d a m b) a b ∧ S R (symMerge less fuel d a m b) a b := by
  have hT := hA.pre
  induction fuel generalizing d a m b with
  | zero => omega
  | succ f ih =>
    unfold symMerge
    -- a comparison of a right-run element with a left-run element is a comparison by `R`
    have cmp : ∀ i j, a ≤ j → j < m → m ≤ i → i < b → lessAt less d i j = R (get d i) (get d j) := by
      intro i j h1' h2' h3' h4'
      rw [lessAt_eq less d (by omega) (by omega), hA.cmp _ _ (hL j i h1' h2' h3' h4')]
    by_cases c1 : m - a = 1
    · rw [if_pos (by simpa using c1)]
      have hm : m = a + 1 := by omega
      subst hm
      obtain ⟨b1, b2, b3, b4⟩ := bsearch_spec' (fun h => lessAt less d h a) (a + 1) b (by omega)
      dsimp only at b3 b4 ⊢
      refine insertFirst_sorted R hT d a b _ b1 b2 hb h2 ?_ ?_
      · rcases b3 with b3 | b3
        · exact Or.inl b3
        · by_cases q : bsearch (fun h => lessAt less d h a) (b - (a + 1)) (a + 1) b = a + 1
          · exact Or.inl q
          · rw [cmp _ a (by omega) (by omega) (by omega) (by omega)] at b3; exact Or.inr b3
      · rcases b4 with b4 | b4
        · exact Or.inl b4
        · by_cases hbb : bsearch (fun h => lessAt less d h a) (b - (a + 1)) (a + 1) b = b
          · exact Or.inl hbb
          · rw [cmp _ a (by omega) (by omega) (by omega) (by omega)] at b4; exact Or.inr b4
    · rw [if_neg (by simpa using c1)]
      by_cases c2 : b - m = 1
      · rw [if_pos (by simpa using c2)]
        have hbm : b = m + 1 := by omega
        subst hbm
        obtain ⟨b1, b2, b3, b4⟩ := bsearch_spec' (fun h => !lessAt less d m h) a m (by omega)
        dsimp only at b3 b4 ⊢
        refine insertLast_sorted R hT d a m _ b1 b2 (by omega) h1 ?_ ?_
        · rcases b3 with b3 | b3
          · exact Or.inl b3
          · by_cases q : bsearch (fun h => !lessAt less d m h) (m - a) a m = a
            · exact Or.inl q
            · rw [cmp m _ (by omega) (by omega) (by omega) (by omega)] at b3; exact Or.inr (by simpa using b3)
        · rcases b4 with b4 | b4
          · exact Or.inl b4
          · by_cases q : bsearch (fun h => !lessAt less d m h) (m - a) a m = m
            · exact Or.inl q
            · rw [cmp m _ (by omega) (by omega) (by omega) (by omega)] at b4; exact Or.inr (by simpa using b4)
      · rw [if_neg (by simpa using c2)]
        dsimp only
        generalize hmid : (a + b) / 2 = mid
        have hmid1 : 2 * mid ≤ a + b := by omega
        have hmid2 : a + b < 2 * mid + 2 := by omega
        have fin : ∀ lo hi, (lo = a ∨ (lo = mid + m - b ∧ b ≤ mid + m)) → (hi = m ∨ hi = mid) → a ≤ lo → lo ≤ hi →
            hi ≤ m → hi ≤ mid → mid + m - b ≤ lo →
            ∀ start, start = bsearch (fun c => !lessAt less d (mid + m - 1 - c) c) (hi - lo) lo hi →
            let e := mid + m - start
            let d1 := if (decide (start < m) && decide (m < e)) = true then rotate d start m e else d
            let d2 := if (decide (a < start) && decide (start < mid)) = true then symMerge less f d1 a start mid else d1
            let d3 := if (decide (mid < e) && decide (e < b)) = true then symMerge less f d2 mid e b else d2
            Frame d d3 a b ∧ S R d3 a b := by
          intro lo hi hlo hhi g1 g2 g3 g4 g5 start hst
          obtain ⟨b1, b2, b3, b4⟩ := bsearch_spec' (fun c => !lessAt less d (mid + m - 1 - c) c) lo hi g2
          rw [← hst] at b1 b2 b3 b4
          refine symMerge_general_lex less R tag hA f (fun d a m b x1 x2 x3 x4 x5 x6 x7 => ih d a m b x1 x2 x3 x4 x5 x6 x7)
            d a m b mid start hb hf hmid1 hmid2 (by omega) h1 h2 hL (by omega) (by omega) (by omega) (by omega) ?_ ?_
          · by_cases q : start = a ∨ mid + m - start = b
            · exact Or.inl q
            · rcases b3 with b3 | b3
              · exact Or.inl (by omega)
              · rw [cmp _ _ (by omega) (by omega) (by omega) (by omega)] at b3
                rw [show mid + m - 1 - (start - 1) = mid + m - start by omega] at b3
                exact Or.inr (by simpa using b3)
          · by_cases q : start = m ∨ mid + m - start = m
            · exact Or.inl q
            · rcases b4 with b4 | b4
              · exact Or.inl (by omega)
              · rw [cmp _ _ (by omega) (by omega) (by omega) (by omega)] at b4
                rw [show mid + m - 1 - start = mid + m - start - 1 by omega] at b4
                exact Or.inr (by simpa using b4)
        by_cases hgt : m > mid
        · simp only [hgt, ↓reduceIte]
          exact fin (mid + m - b) mid (Or.inr ⟨rfl, by omega⟩) (Or.inr rfl) (by omega) (by omega) (by omega) (by omega)
            (by omega) _ rfl
        · simp only [hgt, ↓reduceIte]
          exact fin a m (Or.inl rfl) (Or.inl rfl) (by omega) (by omega) (by omega) (by omega) (by omega) _ rfl

/-! ### stable -/

/-- from position `s` on, `data[:n]` consists of `R`-ordered blocks of length `bs`, each of which came earlier in the
    input than everything after it -/
inductive LBlocks (d : Array α) (bs n : Nat) : Nat → Prop
  | last (s : Nat) : n ≤ s + bs → S R d s n → LBlocks d bs n s
  | cons (s : Nat) : s + bs ≤ n → S R d s (s + bs) → TagLt tag d s (s + bs) n → LBlocks d bs n (s + bs) → LBlocks d bs n s

variable {R tag} in
theorem LBlocks.congr {d d' : Array α} {bs n s : Nat} (h : LBlocks R tag d bs n s) (he : ∀ k, s ≤ k → get d' k = get d k) :
    LBlocks R tag d' bs n s := by
  induction h with
  | last s h1 h2 => exact .last s h1 (h2.congr (fun k k1 _ => he k k1))
  | cons s h1 h2 h3 _ ih =>
    refine .cons s h1 (h2.congr (fun k k1 _ => he k k1)) ?_ (ih (fun k hk => he k (by omega)))
    intro i j hi hi' hj hj'
    rw [he i hi, he j (by omega)]
    exact h3 i j hi hi' hj hj'

variable {R tag} in
theorem LBlocks.uncons {d : Array α} {bs n s : Nat} (h : LBlocks R tag d bs n s) (hs : s + bs ≤ n) :
    S R d s (s + bs) ∧ TagLt tag d s (s + bs) n ∧ LBlocks R tag d bs n (s + bs) := by
  cases h with
  | last _ h1 h2 =>
    have : n = s + bs := by omega
    subst this
    exact ⟨h2, fun i j _ _ _ _ => by omega, .last _ (by omega) (fun i j _ _ _ => by omega)⟩
  | cons _ h1 h2 h3 h4 => exact ⟨h2, h3, h4⟩

variable {R tag} in
theorem LBlocks.final {d : Array α} {bs n s : Nat} (h : LBlocks R tag d bs n s) (hs : n ≤ s + bs) : S R d s n := by
  cases h with
  | last _ h1 h2 => exact h2
  | cons _ h1 h2 h3 h4 =>
    have : n = s + bs := by omega
    subst this
    exact h2

variable {tag} in
/-- a block keeps its place in the input order when it and what follows it are permuted separately -/
theorem TagLt.frame {d d' : Array α} {a b n : Nat} (h : TagLt tag d a b n)
    (f1 : ∀ k, a ≤ k → k < b → ∃ k', a ≤ k' ∧ k' < b ∧ get d' k = get d k')
    (f2 : ∀ k, b ≤ k → k < n → ∃ k', b ≤ k' ∧ k' < n ∧ get d' k = get d k') : TagLt tag d' a b n := by
  intro i j hi hi' hj hj'
  obtain ⟨i', e1, e2, e3⟩ := f1 i hi hi'
  obtain ⟨j', g1, g2, g3⟩ := f2 j hj hj'
  rw [e3, g3]
  exact h i' j' e1 e2 g1 g2

theorem blocksLoop_lex (hA : Agree less R tag) (n bs fuel a b : Nat) (d : Array α) (hbs : 1 ≤ bs) (hab : b = a + bs)
    (han : a ≤ n) (hn : n ≤ d.size) (hf1 : 1 ≤ fuel) (hf : n + 2 ≤ b + fuel)
    (hI : ∀ x k, a ≤ x → x < k → k < n → tag (get d x) < tag (get d k)) :
    Frame d (blocksLoop less n bs fuel a b d) a n ∧ LBlocks R tag (blocksLoop less n bs fuel a b d) bs n a := by
  induction fuel generalizing a b d with
  | zero => omega
  | succ f ih =>
    unfold blocksLoop
    by_cases hle : b ≤ n
    · rw [if_pos hle]
      obtain ⟨F, T⟩ := insertionSort_lex less R tag hA d a b (by omega) (fun x k hx hxk hk => hI x k hx hxk (by omega))
      obtain ⟨G, B⟩ := ih b (b + bs) (insertionSort less d a b) rfl hle (by have := F.size; omega) (by omega) (by omega)
        (by
          intro x k hx hxk hk
          rw [F.out x (by omega), F.out k (by omega)]
          exact hI x k (by omega) hxk hk)
      refine ⟨(F.mono (Nat.le_refl _) hle).trans (G.mono (by omega) (Nat.le_refl _)), ?_⟩
      subst hab
      refine .cons a hle (T.congr (fun k _ k2 => G.out k (Or.inl k2))) ?_ B
      have L0 : TagLt tag d a (a + bs) n := fun i j hi hi' hj hj' => hI i j hi (by omega) hj'
      refine L0.frame (fun k k1 k2 => ?_) (fun k k1 k2 => ?_)
      · obtain ⟨k', e1, e2, e3⟩ := F.mem k k1 k2
        exact ⟨k', e1, e2, by rw [G.out k (Or.inl k2), e3]⟩
      · obtain ⟨k', e1, e2, e3⟩ := G.mem k k1 k2
        exact ⟨k', e1, e2, by rw [e3, F.out k' (Or.inr e1)]⟩
    · rw [if_neg hle]
      obtain ⟨F, T⟩ := insertionSort_lex less R tag hA d a n hn hI
      exact ⟨F, .last a (by omega) T⟩

theorem mergePass_lex (hA : Agree less R tag) (n bs fuel a b : Nat) (d : Array α) (hbs : 1 ≤ bs) (hab : b = a + 2 * bs)
    (han : a ≤ n) (hn : n ≤ d.size) (hf1 : 1 ≤ fuel) (hf : n + 2 ≤ b + fuel) (h : LBlocks R tag d bs n a) :
    Frame d (mergePass less n bs fuel a b d) a n ∧ LBlocks R tag (mergePass less n bs fuel a b d) (2 * bs) n a := by
  induction fuel generalizing a b d with
  | zero => omega
  | succ f ih =>
    unfold mergePass
    by_cases hle : b ≤ n
    · rw [if_pos hle]
      obtain ⟨u1, l1, u2⟩ := h.uncons (by omega)
      obtain ⟨u3, l3, u4⟩ := u2.uncons (by omega)
      have e : a + bs + bs = b := by omega
      rw [e] at u3 l3 u4
      obtain ⟨F, T⟩ := symMerge_lex less R tag hA (b - a) d a (a + bs) b (by omega) (by omega) (by omega) (Nat.le_refl _) u1 u3
        (fun i j hi hi' hj hj' => l1 i j hi hi' hj (by omega))
      obtain ⟨G, B⟩ := ih b (b + 2 * bs) (symMerge less (b - a) d a (a + bs) b) rfl hle (by have := F.size; omega)
        (by omega) (by omega) (u4.congr (fun k hk => F.out k (Or.inr hk)))
      refine ⟨(F.mono (Nat.le_refl _) hle).trans (G.mono (by omega) (Nat.le_refl _)), ?_⟩
      subst hab
      refine .cons a hle (T.congr (fun k _ k2 => G.out k (Or.inl k2))) ?_ B
      -- the merged block [a, b) came earlier than everything after it: both halves did
      have L0 : TagLt tag d a (a + 2 * bs) n := by
        intro i j hi hi' hj hj'
        by_cases c : i < a + bs
        · exact l1 i j hi c (by omega) hj'
        · exact l3 i j (by omega) hi' hj hj'
      refine L0.frame (fun k k1 k2 => ?_) (fun k k1 k2 => ?_)
      · obtain ⟨k', e1, e2, e3⟩ := F.mem k k1 k2
        exact ⟨k', e1, e2, by rw [G.out k (Or.inl k2), e3]⟩
      · obtain ⟨k', e1, e2, e3⟩ := G.mem k k1 k2
        exact ⟨k', e1, e2, by rw [e3, F.out k' (Or.inr e1)]⟩
    · rw [if_neg hle]
      dsimp only
      by_cases hm : a + bs < n
      · rw [if_pos hm]
        obtain ⟨u1, l1, u2⟩ := h.uncons (by omega)
        have u3 := u2.final (by omega)
        obtain ⟨F, T⟩ := symMerge_lex less R tag hA (n - a) d a (a + bs) n (by omega) hm hn (Nat.le_refl _) u1 u3 l1
        exact ⟨F, .last a (by omega) T⟩
      · rw [if_neg hm]
        exact ⟨Frame.refl _ _ _, .last a (by omega) (h.final (by omega))⟩

theorem mergeLoop_lex (hA : Agree less R tag) (n fuel bs : Nat) (d : Array α) (hbs : 1 ≤ bs) (hn : n ≤ d.size)
    (hf : n ≤ bs + fuel) (h : LBlocks R tag d bs n 0) :
    S R (mergeLoop less n fuel bs d) 0 n := by
  induction fuel generalizing bs d with
  | zero => exact h.final (by omega)
  | succ f ih =>
    unfold mergeLoop
    by_cases hlt : bs < n
    · rw [if_pos hlt]
      obtain ⟨F, q3⟩ := mergePass_lex less R tag hA n bs n 0 (2 * bs) d hbs (by omega) (by omega) hn (by omega) (by omega) h
      rw [Nat.mul_comm bs 2]
      exact ih (2 * bs) _ (by omega) (by have := F.size; omega) (by omega) q3
    · rw [if_neg hlt]
      exact h.final (by omega)

/-- **stable**, started on data in input order, leaves `data[:n]` in `R`-order -/
theorem stable_lex (hA : Agree less R tag) (d : Array α) (n : Nat) (hn : n ≤ d.size)
    (hI : ∀ x k, x < k → k < n → tag (get d x) < tag (get d k)) :
    S R (stable less d n) 0 n := by
  by_cases h0 : n = 0
  · subst h0; exact fun i j _ _ _ => by omega
  · unfold stable
    obtain ⟨F, r3⟩ := blocksLoop_lex less R tag hA n blockSize n 0 blockSize d (by decide) (by omega) (by omega) hn (by omega)
      (by unfold blockSize; omega) (fun x k _ hxk hk => hI x k hxk hk)
    exact mergeLoop_lex less R tag hA n n blockSize _ (by decide) (by have := F.size; omega) (by unfold blockSize; omega) r3

end lex

/-- **the tie order of `sort.Stable`**: if `less` agrees with the total preorder `R` whenever its first argument stood later
    in the input than its second, the output is `R`-ordered — whatever `less` says on the other pairs -/
theorem goStable_lex {α : Type} (less R : α → α → Bool) (tag : α → Nat) (hR : TotalPreorder R)
    (hcmp : ∀ x y, tag y < tag x → less x y = R x y) (l : List α) (hl : l.Pairwise (fun x y => tag x < tag y)) :
    (goStable less l).Pairwise (fun a b => R a b = true) := by
  cases l with
  | nil =>
    have := goStable_perm less ([] : List α)
    rw [List.perm_nil.mp this]
    exact List.Pairwise.nil
  | cons x xs =>
    haveI : Inhabited α := ⟨x⟩
    have hp := (goStable_perm less (x :: xs)).length_eq
    have hI : ∀ i k, i < k → k < (x :: xs).length →
        tag (get (x :: xs).toArray i) < tag (get (x :: xs).toArray k) := by
      intro i k hik hk
      have hk' : k < (x :: xs).toArray.size := by simpa using hk
      rw [get_of_lt _ i (by omega), get_of_lt _ k hk']
      exact List.pairwise_iff_getElem.mp hl i k (by omega) hk hik
    have hs := stable_lex less R tag ⟨hR, hcmp⟩ (x :: xs).toArray (x :: xs).length (by simp) hI
    unfold goStable at hp ⊢
    have hsz : (stable less (x :: xs).toArray (x :: xs).length).size = (x :: xs).length := by
      simpa using hp
    exact pairwise_of_S R _ (hs.mono (Nat.le_refl 0) (Nat.le_of_eq hsz))

/-! ### the fuzzy library's sort -/

/-- higher score first; equal scores: higher index first -/
def fuzzyLex (a b : Nat × Int) : Bool := decide (a.2 > b.2 ∨ (a.2 = b.2 ∧ a.1 ≥ b.1))

theorem fuzzyLex_totalPreorder : TotalPreorder fuzzyLex := by
  constructor
  · intro x y
    simp only [fuzzyLex, gt_iff_lt, ge_iff_le, decide_eq_true_eq]
    omega
  · intro x y z
    simp only [fuzzyLex, gt_iff_lt, ge_iff_le, decide_eq_true_eq]
    omega

/-- **the fuzzy library's final sort, in closed form**: on matches in index order (as `FindFromNoSort` produces them) the
    result of `sort.Stable` with `Less = Score >=` is ordered by score, best first, and equal scores by index, HIGHEST
    first -/
theorem fuzzyStable_lex (ms : List (Nat × Int)) (h : (ms.map (·.1)).Pairwise (· < ·)) :
    (fuzzyStable ms).Pairwise (fun a b => a.2 > b.2 ∨ (a.2 = b.2 ∧ a.1 > b.1)) := by
  have h1 := goStable_lex (fun a b : Nat × Int => decide (a.2 ≥ b.2)) fuzzyLex (·.1) fuzzyLex_totalPreorder
    (by
      intro x y hxy
      simp only [fuzzyLex, ge_iff_le, gt_iff_lt, decide_eq_decide]
      omega)
    ms (by rw [List.pairwise_map] at h; exact h)
  -- indexes stay distinct
  have hnd0 : (ms.map (·.1)).Nodup := h.imp (fun hab => Nat.ne_of_lt hab)
  have hnd : ((fuzzyStable ms).map (·.1)).Nodup := ((fuzzyStable_perm ms).map (·.1)).nodup_iff.mpr hnd0
  have h2 : (fuzzyStable ms).Pairwise (fun a b => a.1 ≠ b.1) := by
    rw [List.Nodup, List.pairwise_map] at hnd; exact hnd
  refine (h1.and h2).imp ?_
  intro a b hab
  obtain ⟨hab1, hab2⟩ := hab
  simp only [fuzzyLex, gt_iff_lt, ge_iff_le, decide_eq_true_eq] at hab1
  omega

/-- … and that determines it: the only permutation of the matches in that order -/
theorem fuzzyStable_unique (ms : List (Nat × Int)) (h : (ms.map (·.1)).Pairwise (· < ·)) (l : List (Nat × Int))
    (hp : l.Perm ms) (hs : l.Pairwise (fun a b => a.2 > b.2 ∨ (a.2 = b.2 ∧ a.1 > b.1))) : l = fuzzyStable ms :=
  List.Perm.eq_of_pairwise (fun a b _ _ h1 h2 => by exfalso; omega) hs (fuzzyStable_lex ms h)
    (hp.trans (fuzzyStable_perm ms).symm)

end Wtf.GoSort
