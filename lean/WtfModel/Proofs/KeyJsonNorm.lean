import WtfModel.Model.KeyJson
import WtfModel.Model.NormQ
/-!
  The normaliser of the model (`Wtf.NormQ.normQ`, i.e. strings.ToLower ∘ strings.TrimSpace over a table of Unicode facts)
  always returns valid UTF-8, for every table: `NormValid` holds for it.  Core Lean only.
-/
namespace Wtf.KeyJson
open Wtf Utf8 GoStr Text

theorem coerceAux_copy (pre rest : Bytes) : coerceAux pre.length (pre ++ rest) = pre ++ coerceAux 0 rest := by
  induction pre with
  | nil => rfl
  | cons b t ih => simp [coerceAux, ih]

/-- a rune that decodes with width `w`, not as (RuneError, 1), is copied -/
theorem coerceAux_rune (b : UInt8) (t rest : Bytes) (c : Nat)
    (hd : decodeRune (b :: (t ++ rest)) = (c, t.length + 1)) (hc : ¬ (c = runeError ∧ t.length = 0)) :
    coerceAux 0 (b :: (t ++ rest)) = b :: (t ++ coerceAux 0 rest) := by
  rw [coerceAux]
  simp only [hd]
  have : ((c == runeError && t.length + 1 == 1) = true) = False := by
    simp only [Bool.and_eq_true, beq_iff_eq, eq_iff_iff, iff_false]
    intro h; exact hc ⟨h.1, by omega⟩
  rw [if_neg (by rw [this]; exact id)]
  simp [coerceAux_copy]

private theorem m8 {n : Nat} (h : n < 256) : n % 2 ^ 8 = n := Nat.mod_eq_of_lt h

/-- utf8.AppendRune writes a sequence that utf8.DecodeRune accepts with its full width -/
theorem coerceAux_encodeRune (r : Nat) (rest : Bytes) :
    coerceAux 0 (encodeRune r ++ rest) = encodeRune r ++ coerceAux 0 rest := by
  unfold encodeRune
  simp only
  generalize hr' : (if (0xD800 ≤ r && r ≤ 0xDFFF) || r > 0x10FFFF then runeError else r) = r'
  have hmax : r' ≤ 0x10FFFF := by
    rw [← hr']; split
    · decide
    · rename_i h; simp at h; omega
  have hsur : ¬ (0xD800 ≤ r' ∧ r' ≤ 0xDFFF) := by
    rw [← hr']; split
    · decide
    · rename_i h; simp at h; omega
  split
  · -- one byte
    rename_i h
    refine coerceAux_rune _ [] rest r' ?_ ?_
    · unfold decodeRune
      simp [UInt8.lt_iff_toNat_lt, m8 (show r' < 256 by omega), h]
    · intro hh; rw [hh.1] at h; revert h; decide
  split
  · rename_i h0 h
    refine coerceAux_rune _ [_] rest ((0xC0 + r' / 64) % 32 * 64 + (0x80 + r' % 64) % 64) ?_ (by simp)
    have a : 0xC0 + r' / 64 < 256 := by omega
    have b : 0x80 + r' % 64 < 256 := by omega
    unfold decodeRune
    simp only [List.cons_append, List.nil_append, UInt8.lt_iff_toNat_lt, UInt8.le_iff_toNat_le, isCont, UInt8.toNat_ofNat',
      UInt8.toNat_ofNat, m8 a, m8 b, List.length_cons, List.length_nil]
    rw [if_neg (by omega), if_neg (by omega), if_pos (by omega)]
    simp
    omega
  split
  · rename_i h0 h1 h
    refine coerceAux_rune _ [_, _] rest
      ((0xE0 + r' / 4096) % 16 * 4096 + (0x80 + r' / 64 % 64) % 64 * 64 + (0x80 + r' % 64) % 64) ?_ (by simp)
    have a : 0xE0 + r' / 4096 < 256 := by omega
    have b : 0x80 + r' / 64 % 64 < 256 := by omega
    have c : 0x80 + r' % 64 < 256 := by omega
    unfold decodeRune
    simp only [List.cons_append, List.nil_append, UInt8.lt_iff_toNat_lt, UInt8.le_iff_toNat_le, isCont, UInt8.toNat_ofNat',
      UInt8.toNat_ofNat, m8 a, m8 b, m8 c, List.length_cons, List.length_nil, beq_iff_eq, ← UInt8.toNat_inj]
    rw [if_neg (by omega), if_neg (by omega), if_neg (by omega), if_pos (by omega)]
    rw [if_pos]
    simp only [Bool.and_eq_true, decide_eq_true_eq]
    refine ⟨⟨?_, ?_⟩, ?_, ?_⟩
    · split <;> simp <;> omega
    · split <;> simp <;> omega
    · omega
    · omega
  · rename_i h0 h1 h2
    refine coerceAux_rune _ [_, _, _] rest
      ((0xF0 + r' / 262144) % 8 * 262144 + (0x80 + r' / 4096 % 64) % 64 * 4096 + (0x80 + r' / 64 % 64) % 64 * 64 +
        (0x80 + r' % 64) % 64) ?_ (by simp)
    have a : 0xF0 + r' / 262144 < 256 := by omega
    have b : 0x80 + r' / 4096 % 64 < 256 := by omega
    have c : 0x80 + r' / 64 % 64 < 256 := by omega
    have d : 0x80 + r' % 64 < 256 := by omega
    unfold decodeRune
    simp only [List.cons_append, List.nil_append, UInt8.lt_iff_toNat_lt, UInt8.le_iff_toNat_le, isCont, UInt8.toNat_ofNat',
      UInt8.toNat_ofNat, m8 a, m8 b, m8 c, m8 d, List.length_cons, List.length_nil, beq_iff_eq, ← UInt8.toNat_inj]
    rw [if_neg (by omega), if_neg (by omega), if_neg (by omega), if_neg (by omega), if_pos (by omega)]
    rw [if_pos]
    simp only [Bool.and_eq_true, decide_eq_true_eq]
    refine ⟨⟨⟨?_, ?_⟩, ?_, ?_⟩, ?_, ?_⟩
    · split <;> simp <;> omega
    · split <;> simp <;> omega
    · omega
    · omega
    · omega
    · omega

theorem coerceAux_flatten (rs : List Nat) : coerceAux 0 (rs.map encodeRune).flatten = (rs.map encodeRune).flatten := by
  induction rs with
  | nil => rfl
  | cons r t ih => simp only [List.map_cons, List.flatten_cons, coerceAux_encodeRune, ih]

theorem coerce_ascii (s : Bytes) (h : s.all (· < 0x80) = true) : coerce s = s := by
  unfold coerce
  induction s with
  | nil => rfl
  | cons b t ih =>
    simp only [List.all_cons, Bool.and_eq_true, decide_eq_true_eq] at h
    have := coerceAux_rune b [] t b.toNat (by simp [decodeRune, h.1]) (by
      intro hh
      have hb := h.1
      rw [UInt8.lt_iff_toNat_lt, hh.1] at hb
      revert hb; decide)
    simp only [List.nil_append] at this
    rw [this, ih h.2]

theorem lowerB_ascii (b : UInt8) (h : b < 0x80) : lowerB b < 0x80 := by
  unfold lowerB isUpperB
  split
  · rename_i hu
    simp only [Bool.and_eq_true, decide_eq_true_eq, UInt8.le_iff_toNat_le] at hu
    rw [UInt8.lt_iff_toNat_lt, UInt8.toNat_add]
    have : (32 : UInt8).toNat = 32 := rfl
    have h65 : (0x41 : UInt8).toNat = 65 := rfl
    have h90 : (0x5A : UInt8).toNat = 90 := rfl
    have h128 : (0x80 : UInt8).toNat = 128 := rfl
    omega
  · exact h

/-- strings.ToLower returns valid UTF-8 -/
theorem coerce_toLower (ri : RuneInfo) (s : Bytes) : coerce (toLower ri s) = toLower ri s := by
  unfold toLower
  split
  · rename_i h
    apply coerce_ascii
    unfold lowerAscii isAsciiStr at *
    rw [List.all_eq_true] at h ⊢
    intro b hb
    rw [List.mem_map] at hb
    obtain ⟨a, ha, rfl⟩ := hb
    have := h a ha
    simp only [decide_eq_true_eq] at this ⊢
    exact lowerB_ascii a this
  · have : (List.map (fun x => match x with | (r, _, _) => encodeRune (ri.lower r)) (decode s)) =
        ((decode s).map (fun x => ri.lower x.1)).map encodeRune := by
      rw [List.map_map]; rfl
    unfold coerce
    rw [this]
    exact coerceAux_flatten _

/-- `NormValid` for the model's normaliser, whatever the table of Unicode facts -/
theorem coerce_normQ (ri : RuneInfo) (q : Bytes) : coerce (NormQ.normQ ri q) = NormQ.normQ ri q :=
  coerce_toLower ri _

end Wtf.KeyJson
