import WtfModel.Model.Search
/-
  A kernel-evaluable score type for the non-vacuity examples of the search-family properties:
  unnormalised fractions with cross-multiplied comparison.  (Only used to *run* the model on concrete
  inputs inside `example`s; no theorem depends on it.)  Core Lean only.
-/
namespace Wtf.Example
open Wtf.Filters Wtf.Search

instance scoreQ : ScoreOps Q where
  zero := ⟨0, 1⟩
  one := ⟨1, 1⟩
  add a b := ⟨a.num * b.den + b.num * a.den, a.den * b.den⟩
  sub a b := ⟨a.num * b.den - b.num * a.den, a.den * b.den⟩
  mul a b := ⟨a.num * b.num, a.den * b.den⟩
  div a b := if b.num < 0 then ⟨-(a.num * b.den), a.den * b.num.natAbs⟩ else ⟨a.num * b.den, a.den * b.num.natAbs⟩
  lt a b := decide (a.num * b.den < b.num * a.den)
  ofNat n := ⟨n, 1⟩
  ofQ q := q

/-- a command entry as the loader builds it (ASCII lower-case cache fields) -/
def mk (cmd desc : String) (plat : List String) (pipeline : Bool := false) : Cmd :=
  { command := bs cmd, description := bs desc, keywords := [], tags := [], niche := [], platform := plat.map bs,
    pipeline := pipeline, commandLower := Text.lowerAscii (bs cmd), descriptionLower := Text.lowerAscii (bs desc),
    keywordsLower := [], tagsLower := [] }

/-- parameters for the examples: host `linux`, ASCII-only rune table, idf ≡ 1, neutral NLP, no TF-IDF
    searcher, the library's sort replaced by a stable insertion sort on the score (descending) -/
def insertDesc (x : Nat × Int) : List (Nat × Int) → List (Nat × Int)
  | [] => [x]
  | y :: ys => if y.2 < x.2 then x :: y :: ys else y :: insertDesc x ys

def sortScoreDesc (ms : List (Nat × Int)) : List (Nat × Int) := ms.foldr insertDesc []

def tuning (host : String := "linux") : Tuning Q :=
  { params := Index.genParams, idf := fun _ _ => ⟨1, 1⟩, host := bs host, ri := {},
    normQ := fun q => GoStr.toLower {} (GoStr.trimSpace {} q),
    nlp := fun _ => { intentBoost := fun _ => ⟨1, 1⟩, cascade := fun _ => ⟨1, 1⟩ }, tfidf := none,
    fuzzySort := sortScoreDesc }

def opts : Opts Q := { pipelineBoost := ⟨0, 1⟩ }

/-- ids of an answer -/
def ids (r : Except Fuzzy.Panic (List (Nat × Q))) : Option (List Nat) :=
  match r with
  | .ok l => some (l.map (·.1))
  | .error _ => none

/-- outcome of the matcher on one target: `none` = the library panics (index out of range) -/
def outcome (r : Except Fuzzy.Panic (Option (Int × List Nat))) : Option (Option (Int × List Nat)) :=
  match r with
  | .ok m => some m
  | .error _ => none

end Wtf.Example
