import WtfModel.Proofs.CacheLayer

/-!
  The cache-layer invariant and the search specification of Proofs/CacheLayer.lean once more, with the injectivity of the
  key function required only on the keys of requests that satisfy a predicate `P` (C05b uses `P` = "well-typed Go value").
  `Inv` / `search_spec` there are the instance `P := fun _ => True` with a globally injective `enc`.  Core Lean only.
-/
namespace Wtf.CacheLayer
open Wtf
set_option linter.unusedSectionVars false

variable {Db Ans κ : Type} [DecidableEq κ]

/-- `enc` separates the key pre-images of requests whose options satisfy `P` -/
def InjOn (E : Env Db Ans κ) (sh : Shape) (P : Opts → Prop) : Prop :=
  ∀ q o q' o', P o → P o' → E.enc (keyOf E sh q o) = E.enc (keyOf E sh q' o') → keyOf E sh q o = keyOf E sh q' o'

theorem InjOn.of_injective {E : Env Db Ans κ} (hinj : ∀ a b, E.enc a = E.enc b → a = b) (sh : Shape) (P : Opts → Prop) :
    InjOn E sh P := fun _ _ _ _ _ _ h => hinj _ _ h

/-- every cached pair is (key of some request satisfying `P`, the engine's answer to it on the current database) -/
def InvOn (P : Opts → Prop) (E : Env Db Ans κ) (sh : Shape) (s : State κ Db Ans) : Prop :=
  ∀ e ∈ s.lru.entries, ∃ q o, P o ∧ e.key = E.enc (keyOf E sh q o) ∧ e.val = E.answer s.db q o

/-- the searches of an operation are about options satisfying `P` -/
def OpOn (P : Opts → Prop) : Op Db → Prop
  | .search _ o => P o
  | .monitoredSearch _ o => P o
  | _ => True

variable {P : Opts → Prop}

theorem scGet_invOn {E : Env Db Ans κ} {sh : Shape} {s : State κ Db Ans} (h : InvOn P E sh s) (k : κ) :
    InvOn P E sh (scGet s k).1 := by
  unfold scGet
  split
  · exact h
  · intro e he
    obtain ⟨e0, he0, hk, hv⟩ := Lru.get_kv s.lru s.now k e he
    obtain ⟨q, o, hp, h1, h2⟩ := h e0 he0
    exact ⟨q, o, hp, hk ▸ h1, hv ▸ h2⟩

theorem scGet_someOn {E : Env Db Ans κ} {sh : Shape} {s : State κ Db Ans} (h : InvOn P E sh s) {k : κ} {v : Ans}
    (hv : (scGet s k).2 = some v) : ∃ q o, P o ∧ k = E.enc (keyOf E sh q o) ∧ v = E.answer s.db q o := by
  unfold scGet at hv
  split at hv
  · cases hv
  · obtain ⟨e, he, hk, hval, _⟩ := Lru.get_some hv
    obtain ⟨q, o, hp, h1, h2⟩ := h e he
    exact ⟨q, o, hp, hk ▸ h1, hval ▸ h2⟩

theorem scPut_invOn {E : Env Db Ans κ} {sh : Shape} {s : State κ Db Ans} (h : InvOn P E sh s) (q : Query) (o : Opts)
    (hp : P o) : InvOn P E sh (scPut E s (E.enc (keyOf E sh q o)) (E.answer s.db q o)) := by
  unfold scPut
  split
  · exact h
  · intro e he
    cases Lru.put_kv s.lru s.now _ _ e he with
    | inl hh => exact ⟨q, o, hp, hh.1, hh.2⟩
    | inr hh =>
      obtain ⟨e0, he0, hk, hv⟩ := hh
      obtain ⟨q0, o0, hp0, h1, h2⟩ := h e0 he0
      exact ⟨q0, o0, hp0, hk ▸ h1, hv ▸ h2⟩

theorem search_invOn {E : Env Db Ans κ} {sh : Shape} {s : State κ Db Ans} (h : InvOn P E sh s) (q : Query) (o : Opts)
    (hp : P o) : InvOn P E sh (search E sh s q o).1 := by
  unfold search searchK
  split
  · exact h
  · have hg := scGet_invOn h (E.enc (keyOf E sh q o))
    simp only
    split
    · exact hg
    · split
      · exact hg
      · exact scPut_invOn hg q o hp

/-- What a search returns: the engine's answer on the current database. -/
theorem search_specOn {E : Env Db Ans κ} {sh : Shape} {reads : List String}
    (hinj : InjOn E sh P)
    (hc : covers sh reads = true) (hr : EngineReadsOnly E reads) (hn : EngineNormalises E)
    {s : State κ Db Ans} (h : InvOn P E sh s) (q : Query) (o : Opts) (hp : P o) :
    (search E sh s q o).2 = E.answer s.db q o := by
  unfold search searchK
  split
  · rfl
  · simp only
    split
    · rename_i v hv
      obtain ⟨q', o', hp', hk, hval⟩ := scGet_someOn h hv
      rw [hval]
      exact (key_sound hc hr hn (hinj _ _ _ _ hp hp' hk) s.db).symm
    · rw [(scGet_frame s _).1]

theorem monitoredSearch_invOn {E : Env Db Ans κ} {shC shM : Shape} {s : State κ Db Ans} (h : InvOn P E shC s)
    (q : Query) (o : Opts) (hp : P o) : InvOn P E shC (monitoredSearch E shC shM s q o).1 :=
  search_invOn (scGet_invOn h _) q o hp

theorem monitoredSearch_specOn {E : Env Db Ans κ} {shC shM : Shape} {reads : List String}
    (hinj : InjOn E shC P)
    (hc : covers shC reads = true) (hr : EngineReadsOnly E reads) (hn : EngineNormalises E)
    {s : State κ Db Ans} (h : InvOn P E shC s) (q : Query) (o : Opts) (hp : P o) :
    (monitoredSearch E shC shM s q o).2 = E.answer s.db q o := by
  unfold monitoredSearch
  rw [search_specOn hinj hc hr hn (scGet_invOn h _) q o hp, (scGet_frame s _).1]

theorem step_invOn {E : Env Db Ans κ} {shC shM : Shape} {s : State κ Db Ans} (h : InvOn P E shC s) (op : Op Db)
    (hop : OpOn P op) : InvOn P E shC (step E shC shM s op).1 := by
  cases op with
  | search q o => exact search_invOn h q o hop
  | monitoredSearch q o => exact monitoredSearch_invOn h q o hop
  | invalidate => intro e he; simp [step, Lru.clear] at he
  | enable b => exact h
  | cleanup =>
    intro e he
    exact h e (Lru.cleanup_sub s.lru s.now e he)
  | update c => intro e he; simp [step, Lru.clear] at he
  | advance dt => exact h

theorem init_invOn (P : Opts → Prop) (E : Env Db Ans κ) (sh : Shape) (d : Nat) (cap ttl : Int) (db : Db) :
    InvOn P E sh (init d cap ttl db : State κ Db Ans) := by
  intro e he
  simp [init, Lru.init] at he

theorem run_invOn {E : Env Db Ans κ} {shC shM : Shape} {s : State κ Db Ans} (h : InvOn P E shC s) (hist : List (Op Db))
    (hh : ∀ op ∈ hist, OpOn P op) : InvOn P E shC (final E shC shM s hist) := by
  induction hist generalizing s with
  | nil => exact h
  | cons op rest ih =>
    exact ih (step_invOn h op (hh op (by simp))) (fun x hx => hh x (by simp [hx]))

end Wtf.CacheLayer
