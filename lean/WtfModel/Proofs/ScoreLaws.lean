import WtfModel.Basic.ScoreOps
/-
  The order / arithmetic laws the ranking theorems need from the score type, as a core-only class.
  `Proofs/ScoreField.lean` derives an instance for every linearly ordered field (Mathlib), in
  particular ℚ and ℝ.  IEEE floats do *not* satisfy these laws in general (NaN, rounding, overflow):
  that gap is stated in DESIGN.md §5 and covered by the monitors on the real floats.
-/
namespace Wtf
open ScoreOps

class ScoreLaws (S : Type) [ScoreOps S] : Prop where
  lt_irrefl : ∀ a : S, lt a a = false
  lt_trans : ∀ a b c : S, lt a b = true → lt b c = true → lt a c = true
  /-- negative transitivity: `≥` is transitive -/
  le_trans : ∀ a b c : S, lt a b = false → lt b c = false → lt a c = false
  lt_asymm : ∀ a b : S, lt a b = true → lt b a = false
  zero_lt_one : lt (zero : S) one = true
  add_nonneg : ∀ a b : S, lt a zero = false → lt b zero = false → lt (add a b) zero = false
  add_pos_of_nonneg_pos : ∀ a b : S, lt a zero = false → lt zero b = true → lt zero (add a b) = true
  add_pos_of_pos_nonneg : ∀ a b : S, lt zero a = true → lt b zero = false → lt zero (add a b) = true
  zero_add : ∀ a : S, add zero a = a
  mul_nonneg : ∀ a b : S, lt a zero = false → lt b zero = false → lt (mul a b) zero = false
  mul_pos : ∀ a b : S, lt zero a = true → lt zero b = true → lt zero (mul a b) = true
  div_nonneg : ∀ a b : S, lt a zero = false → lt zero b = true → lt (div a b) zero = false
  div_pos : ∀ a b : S, lt zero a = true → lt zero b = true → lt zero (div a b) = true
  sub_nonneg : ∀ a b : S, lt a b = false → lt (sub a b) zero = false      -- b ≤ a → 0 ≤ a - b
  ofNat_nonneg : ∀ n : Nat, lt (ofNat n : S) zero = false
  ofNat_pos : ∀ n : Nat, 0 < n → lt (zero : S) (ofNat n) = true
  ofNat_mono : ∀ m n : Nat, m ≤ n → lt (ofNat n : S) (ofNat m) = false
  ofQ_nonneg : ∀ q : Q, 0 ≤ q.num → 0 < q.den → lt (ofQ q : S) zero = false
  ofQ_pos : ∀ q : Q, 0 < q.num → 0 < q.den → lt (zero : S) (ofQ q) = true
  ofQ_le_one : ∀ q : Q, q.num ≤ q.den → 0 < q.den → lt (one : S) (ofQ q) = false
  /-- multiplying by a factor ≥ 1 does not decrease a non-negative score; by a non-negative factor keeps order -/
  mul_le_mul_right : ∀ a b c : S, lt a b = false → lt c zero = false → lt (mul a c) (mul b c) = false
  mul_le_mul_left : ∀ a b c : S, lt a b = false → lt c zero = false → lt (mul c a) (mul c b) = false
  add_le_add_right : ∀ a b c : S, lt a b = false → lt (add a c) (add b c) = false
  add_le_add_left : ∀ a b c : S, lt a b = false → lt (add c a) (add c b) = false
  mul_one : ∀ a : S, mul a one = a
  one_mul : ∀ a : S, mul one a = a
  div_le_div_right : ∀ a b c : S, lt a b = false → lt zero c = true → lt (div a c) (div b c) = false
  sub_zero_neg : ∀ a : S, lt zero a = true → lt (sub zero a) zero = true
  /-- an exact rational literal `≥ 1` maps to a score `≥ 1` (C13: regenerated context-boost table) -/
  ofQ_ge_one : ∀ q : Q, (q.den : Int) ≤ q.num → 0 < q.den → lt (ofQ q : S) one = false
  /-- `a ≥ b → c - a ≤ c - b` (C01: the fuzzy score normalisation is monotone on negative library scores) -/
  sub_le_sub_left : ∀ a b c : S, lt a b = false → lt (sub c b) (sub c a) = false
  /-- `0 ≤ b → a ≤ a + b` (Boosts: `boost += x` with `x ≥ 0` never lowers the cascading boost) -/
  le_add_of_nonneg_right : ∀ a b : S, lt b zero = false → lt (add a b) a = false

namespace ScoreLaws
variable {S : Type} [ScoreOps S] [ScoreLaws S]

/-- `a ≥ b` -/
abbrev ge (a b : S) : Prop := lt a b = false
/-- `0 ≤ a` -/
abbrev Nonneg (a : S) : Prop := lt a (zero : S) = false
abbrev Pos (a : S) : Prop := lt (zero : S) a = true

theorem pos_nonneg {a : S} (h : Pos a) : Nonneg a := lt_asymm _ _ h

theorem one_pos : Pos (one : S) := zero_lt_one
theorem one_nonneg : Nonneg (one : S) := pos_nonneg one_pos
theorem zero_nonneg : Nonneg (zero : S) := lt_irrefl _

end ScoreLaws
end Wtf
