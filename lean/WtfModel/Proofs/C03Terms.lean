import WtfModel.Proofs.SearchBasic
/-
  C03, part 3: which query terms reach the index (`selectTopTerms`, mirrors selectTopTerms /
  scoreTerms / filterAndSortTerms).  Core Lean only.
-/
namespace Wtf.Search
open Text Index Filters ScoreOps

variable {S : Type} [ScoreOps S]

theorem selectTopTerms_small (T : Tuning S) (idx : Index) (terms : List Token) (cap : Nat)
    (h : terms.length ≤ cap) : selectTopTerms T idx terms cap = terms := by
  unfold selectTopTerms; simp [h]

theorem mem_scoreTermsAux (T : Tuning S) (idx : Index) (p : Nat) (i : Nat) (ts seen : List Token)
    (x : TermScore S) (h : x ∈ scoreTermsAux T idx p i ts seen) : x.term ∈ ts := by
  induction ts generalizing i seen with
  | nil => simp [scoreTermsAux] at h
  | cons t rest ih =>
    simp only [scoreTermsAux] at h
    split at h
    · exact List.mem_cons_of_mem _ (ih _ _ h)
    · split at h
      · simp only [List.mem_cons] at h
        cases h with
        | inl h => subst h; simp
        | inr h => exact List.mem_cons_of_mem _ (ih _ _ h)
      · split at h
        · simp only [List.mem_cons] at h
          cases h with
          | inl h => subst h; simp
          | inr h => exact List.mem_cons_of_mem _ (ih _ _ h)
        · exact List.mem_cons_of_mem _ (ih _ _ h)

/-- at most `preserve - i` entries are marked original: only positions below `preserve` are -/
theorem orig_scoreTermsAux_le (T : Tuning S) (idx : Index) (p : Nat) (i : Nat) (ts seen : List Token) :
    ((scoreTermsAux T idx p i ts seen).filter (·.isOriginal)).length ≤ p - i := by
  induction ts generalizing i seen with
  | nil => simp [scoreTermsAux]
  | cons t rest ih =>
    simp only [scoreTermsAux]
    split
    · have := ih (i + 1) seen; omega
    · split
      · simp only [List.filter_cons]
        by_cases hi : i < p
        · simp only [hi, decide_true, ↓reduceIte, List.length_cons]
          have := ih (i + 1) (t :: seen); omega
        · simp only [hi, decide_false, Bool.false_eq_true, ↓reduceIte]
          have := ih (i + 1) (t :: seen); omega
      · split
        · rename_i hi
          simp only [List.filter_cons, ↓reduceIte, List.length_cons]
          have := ih (i + 1) (t :: seen); omega
        · have := ih (i + 1) (t :: seen); omega

/-- every not-yet-seen term at a position below `preserve` gets an entry marked original -/
theorem first_kept_scoreTermsAux (T : Tuning S) (idx : Index) (p : Nat) (i : Nat) (ts seen : List Token)
    (t : Token) (ht : t ∈ ts.take (p - i)) (hns : t ∉ seen) :
    ∃ x ∈ scoreTermsAux T idx p i ts seen, x.term = t ∧ x.isOriginal = true := by
  induction ts generalizing i seen with
  | nil => simp at ht
  | cons a rest ih =>
    have hpi : 0 < p - i := by
      cases h : p - i with
      | zero => rw [h] at ht; simp at ht
      | succ n => omega
    have hip : i < p := by omega
    have htake : (a :: rest).take (p - i) = a :: rest.take (p - (i + 1)) := by
      have : p - i = (p - (i + 1)) + 1 := by omega
      rw [this, List.take_succ_cons]
    rw [htake, List.mem_cons] at ht
    simp only [scoreTermsAux]
    by_cases hat : t = a
    · subst hat
      have hs : seen.contains t = false := by simpa using hns
      simp only [hs, Bool.false_eq_true, ↓reduceIte]
      split
      · exact ⟨_, List.mem_cons_self, rfl, by simp [hip]⟩
      · simp only [hip, ↓reduceIte]
        exact ⟨_, List.mem_cons_self, rfl, rfl⟩
    · have ht' : t ∈ rest.take (p - (i + 1)) := by
        cases ht with
        | inl h => exact absurd h hat
        | inr h => exact h
      split
      · exact ih (i + 1) seen ht' hns
      · have hns' : t ∉ a :: seen := by simp [hat, hns]
        obtain ⟨x, hx, h1, h2⟩ := ih (i + 1) (a :: seen) ht' hns'
        split
        · exact ⟨x, List.mem_cons_of_mem _ hx, h1, h2⟩
        · exact ⟨x, List.mem_cons_of_mem _ hx, h1, h2⟩

/-- every selected term is a term of the query -/
theorem selectTopTerms_subset (T : Tuning S) (idx : Index) (terms : List Token) (cap : Nat) :
    ∀ t ∈ selectTopTerms T idx terms cap, t ∈ terms := by
  intro t ht
  unfold selectTopTerms at ht
  split at ht
  · exact ht
  · dsimp only at ht
    have hsub : ∀ x ∈ scoreTermsAux T idx (min preserveCount terms.length) 0 terms [], x.term ∈ terms :=
      fun x hx => mem_scoreTermsAux T idx _ 0 terms [] x hx
    split at ht
    · obtain ⟨x, hx, rfl⟩ := List.mem_map.mp ht
      exact hsub x hx
    · split at ht
      · rw [List.mem_append] at ht
        cases ht with
        | inl h =>
          obtain ⟨x, hx, rfl⟩ := List.mem_map.mp h
          exact hsub x (List.mem_filter.mp hx).1
        | inr h =>
          obtain ⟨x, hx, rfl⟩ := List.mem_map.mp h
          have := (mem_sortDesc _).mp (List.mem_of_mem_take hx)
          exact hsub x (List.mem_filter.mp this).1
      · obtain ⟨x, hx, rfl⟩ := List.mem_map.mp ht
        exact hsub x (List.mem_filter.mp hx).1

/-- the first four terms of the query are always kept (a repeated term is kept once) -/
theorem selectTopTerms_first_four (T : Tuning S) (idx : Index) (terms : List Token) (cap : Nat) :
    ∀ t ∈ terms.take preserveCount, t ∈ selectTopTerms T idx terms cap := by
  intro t ht
  unfold selectTopTerms
  split
  · exact List.mem_of_mem_take ht
  · dsimp only
    have ht' : t ∈ terms.take (min preserveCount terms.length - 0) := by
      rw [Nat.sub_zero]
      by_cases hl : preserveCount ≤ terms.length
      · rw [Nat.min_eq_left hl]; exact ht
      · have hl' : terms.length ≤ preserveCount := by omega
        rw [Nat.min_eq_right hl', List.take_length]
        exact List.mem_of_mem_take ht
    obtain ⟨x, hx, hxt, hxo⟩ := first_kept_scoreTermsAux T idx _ 0 terms [] t ht' (by simp)
    split
    · exact List.mem_map.mpr ⟨x, hx, hxt⟩
    · have horig : t ∈ ((scoreTermsAux T idx (min preserveCount terms.length) 0 terms []).filter (·.isOriginal)).map (·.term) :=
        List.mem_map.mpr ⟨x, List.mem_filter.mpr ⟨hx, hxo⟩, hxt⟩
      split
      · exact List.mem_append_left _ horig
      · exact horig

/-- at most `cap` terms are used (at most four when a smaller cap is asked for: the protected
    prefix wins over the cap) -/
theorem selectTopTerms_length (T : Tuning S) (idx : Index) (terms : List Token) (cap : Nat) (hcap : 0 < cap) :
    (selectTopTerms T idx terms cap).length ≤ max cap preserveCount := by
  unfold selectTopTerms
  have hc : (cap == 0) = false := by simp; omega
  simp only [hc, Bool.false_or]
  split
  · rename_i h; have : terms.length ≤ cap := by simpa using h
    omega
  · have horig := orig_scoreTermsAux_le T idx (min preserveCount terms.length) 0 terms []
    have hp : min preserveCount terms.length ≤ preserveCount := Nat.min_le_left _ _
    split
    · rename_i h; simp only [List.length_map]; omega
    · split
      · simp only [List.length_append, List.length_map, List.length_take]
        omega
      · simp only [List.length_map]; omega

end Wtf.Search
