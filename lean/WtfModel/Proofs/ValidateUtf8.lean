import WtfModel.Model.Validate

/-!
  Facts about the UTF-8 decoder/encoder of `Model/Validate.lean`:
  decoding an encoded scalar gives it back (`decodeNat_encode`, `decode_encode`), decoded code points are
  scalars, widths add up to the byte length, and decoding distributes over `++` when the right part does
  not start with a continuation byte.
-/
namespace Wtf.Validate

theorem decodeNat_nil : decodeNat [] = [] := by simp [decodeNat, decodeSkip]

theorem decodeSkip_eq (n : Nat) (s : List Nat) : decodeSkip n s = decodeNat (s.drop n) := by
  induction s generalizing n with
  | nil => simp [decodeSkip, decodeNat]
  | cons b t ih =>
    cases n with
    | zero => simp [decodeNat]
    | succ n => simp [decodeSkip, ih]

theorem decodeNat_cons (b0 : Nat) (t : List Nat) :
    decodeNat (b0 :: t) = (decode1 b0 t).1 :: decodeNat (t.drop ((decode1 b0 t).2 - 1)) := by
  show decodeSkip 0 (b0 :: t) = _
  rw [decodeSkip, decodeSkip_eq]

/-! ### one rune: encode then decode -/

theorem decode1_enc1 (c : Nat) (h : c < 0x80) (t : List Nat) : decode1 c t = (.cp c, 1) := by
  simp [decode1, h]

theorem decode1_enc2 (c : Nat) (h1 : 0x80 ≤ c) (h2 : c < 0x800) (t : List Nat) :
    decode1 (0xC0 + c / 64) ((0x80 + c % 64) :: t) = (.cp c, 2) := by
  have a1 : ¬ (0xC0 + c / 64 < 0x80) := by omega
  have a2 : 0xC2 ≤ 0xC0 + c / 64 ∧ 0xC0 + c / 64 ≤ 0xDF := by omega
  have a3 : isCont (0x80 + c % 64) := by unfold isCont; omega
  have a4 : (0xC0 + c / 64 - 0xC0) * 64 + (0x80 + c % 64 - 0x80) = c := by omega
  unfold decode1
  rw [if_neg a1, if_pos a2]
  simp only [a3, a4, if_true]

theorem decode1_enc3 (c : Nat) (h1 : 0x800 ≤ c) (h2 : c < 0x10000) (hs : ¬ (0xD800 ≤ c ∧ c ≤ 0xDFFF)) (t : List Nat) :
    decode1 (0xE0 + c / 4096) ((0x80 + c / 64 % 64) :: (0x80 + c % 64) :: t) = (.cp c, 3) := by
  have a1 : ¬ (0xE0 + c / 4096 < 0x80) := by omega
  have a2 : ¬ (0xC2 ≤ 0xE0 + c / 4096 ∧ 0xE0 + c / 4096 ≤ 0xDF) := by omega
  have a3 : 0xE0 ≤ 0xE0 + c / 4096 ∧ 0xE0 + c / 4096 ≤ 0xEF := by omega
  have a4 : lo3 (0xE0 + c / 4096) ≤ 0x80 + c / 64 % 64 ∧ 0x80 + c / 64 % 64 ≤ hi3 (0xE0 + c / 4096) ∧ isCont (0x80 + c % 64) := by
    unfold isCont lo3 hi3; split <;> split <;> omega
  have a5 : (0xE0 + c / 4096 - 0xE0) * 4096 + (0x80 + c / 64 % 64 - 0x80) * 64 + (0x80 + c % 64 - 0x80) = c := by omega
  unfold decode1
  rw [if_neg a1, if_neg a2, if_pos a3]
  simp only [a4, a5, if_true, and_self]

theorem decode1_enc4 (c : Nat) (h1 : 0x10000 ≤ c) (h2 : c < 0x110000) (t : List Nat) :
    decode1 (0xF0 + c / 262144) ((0x80 + c / 4096 % 64) :: (0x80 + c / 64 % 64) :: (0x80 + c % 64) :: t) = (.cp c, 4) := by
  have a1 : ¬ (0xF0 + c / 262144 < 0x80) := by omega
  have a2 : ¬ (0xC2 ≤ 0xF0 + c / 262144 ∧ 0xF0 + c / 262144 ≤ 0xDF) := by omega
  have a3 : ¬ (0xE0 ≤ 0xF0 + c / 262144 ∧ 0xF0 + c / 262144 ≤ 0xEF) := by omega
  have a3' : 0xF0 ≤ 0xF0 + c / 262144 ∧ 0xF0 + c / 262144 ≤ 0xF4 := by omega
  have a4 : lo4 (0xF0 + c / 262144) ≤ 0x80 + c / 4096 % 64 ∧ 0x80 + c / 4096 % 64 ≤ hi4 (0xF0 + c / 262144) ∧
      isCont (0x80 + c / 64 % 64) ∧ isCont (0x80 + c % 64) := by
    unfold isCont lo4 hi4; split <;> split <;> omega
  have a5 : (0xF0 + c / 262144 - 0xF0) * 262144 + (0x80 + c / 4096 % 64 - 0x80) * 4096 + (0x80 + c / 64 % 64 - 0x80) * 64 +
      (0x80 + c % 64 - 0x80) = c := by omega
  unfold decode1
  rw [if_neg a1, if_neg a2, if_neg a3, if_pos a3']
  simp only [a4, a5, if_true, and_self]

theorem decodeNat_encodeScalar (c : Nat) (h : scalar c) (t : List Nat) :
    decodeNat (encodeScalar c ++ t) = .cp c :: decodeNat t := by
  unfold scalar at h
  unfold encodeScalar
  split
  · rename_i h1
    simp [decodeNat_cons, decode1_enc1 c h1]
  · split
    · simp [decodeNat_cons, decode1_enc2 c (by omega) (by omega)]
    · split
      · simp [decodeNat_cons, decode1_enc3 c (by omega) (by omega) h.2]
      · simp [decodeNat_cons, decode1_enc4 c (by omega) h.1]

theorem encodeNat_of_scalar {c : Nat} (h : scalar c) : encodeNat c = encodeScalar c := by
  simp [encodeNat, h]

theorem decodeNat_encodeAll (cs : List Nat) (h : ∀ c ∈ cs, scalar c) (t : List Nat) :
    decodeNat (encodeAll cs ++ t) = cs.map .cp ++ decodeNat t := by
  induction cs with
  | nil => simp [encodeAll]
  | cons c cs ih =>
    have hc := h c (by simp)
    have := ih (fun x hx => h x (by simp [hx]))
    simp only [encodeAll, List.flatMap_cons, List.append_assoc, List.map_cons, List.cons_append] at *
    rw [encodeNat_of_scalar hc, decodeNat_encodeScalar c hc, this]

/-! ### bytes -/

theorem encodeScalar_lt (c : Nat) (h : c < 0x110000) : ∀ b ∈ encodeScalar c, b < 256 := by
  intro b hb
  unfold encodeScalar at hb
  split at hb
  · simp at hb; omega
  · split at hb
    · simp at hb; omega
    · split at hb
      · simp at hb; omega
      · simp at hb; omega

theorem encodeNat_lt (c : Nat) : ∀ b ∈ encodeNat c, b < 256 := by
  unfold encodeNat
  split
  · rename_i h; exact encodeScalar_lt c h.1
  · exact encodeScalar_lt _ (by decide)

theorem encodeAll_lt (cs : List Nat) : ∀ b ∈ encodeAll cs, b < 256 := by
  intro b hb
  simp only [encodeAll, List.mem_flatMap] at hb
  obtain ⟨c, _, hb⟩ := hb
  exact encodeNat_lt c b hb

theorem toNat_toBytes (ns : List Nat) (h : ∀ b ∈ ns, b < 256) : (toBytes ns).map (·.toNat) = ns := by
  induction ns with
  | nil => simp [toBytes]
  | cons n ns ih =>
    have hn := h n (by simp)
    have := ih (fun x hx => h x (by simp [hx]))
    simp only [toBytes, List.map_cons, List.map_map] at *
    rw [this]
    congr 1
    simp [UInt8.toNat_ofNat']
    omega

/-- Re-decoding text written by `strings.Map` gives the code points back. -/
theorem decode_encode (cs : List Nat) (h : ∀ c ∈ cs, scalar c) : decodeGo (encodeGo cs) = cs.map .cp := by
  unfold decodeGo encodeGo
  rw [toNat_toBytes _ (encodeAll_lt cs)]
  simpa [decodeNat_nil] using decodeNat_encodeAll cs h []

/-! ### one rune: decode then encode -/


theorem enc_dec2 (b0 b1 : Nat) (h0 : 0xC2 ≤ b0 ∧ b0 ≤ 0xDF) (h1 : isCont b1) :
    scalar ((b0 - 0xC0) * 64 + (b1 - 0x80)) ∧ encodeScalar ((b0 - 0xC0) * 64 + (b1 - 0x80)) = [b0, b1] := by
  unfold isCont at h1
  generalize hc : (b0 - 0xC0) * 64 + (b1 - 0x80) = c
  have c1 : ¬ c < 0x80 := by omega
  have c2 : c < 0x800 := by omega
  have e0 : 0xC0 + c / 64 = b0 := by omega
  have e1 : 0x80 + c % 64 = b1 := by omega
  refine ⟨by unfold scalar; omega, ?_⟩
  unfold encodeScalar
  rw [if_neg c1, if_pos c2, e0, e1]

theorem enc_dec3 (b0 b1 b2 : Nat) (h0 : 0xE0 ≤ b0 ∧ b0 ≤ 0xEF) (h1 : lo3 b0 ≤ b1 ∧ b1 ≤ hi3 b0 ∧ isCont b2) :
    scalar ((b0 - 0xE0) * 4096 + (b1 - 0x80) * 64 + (b2 - 0x80)) ∧
    encodeScalar ((b0 - 0xE0) * 4096 + (b1 - 0x80) * 64 + (b2 - 0x80)) = [b0, b1, b2] := by
  unfold isCont at h1
  have hl : (b0 = 0xE0 → 0xA0 ≤ b1) ∧ 0x80 ≤ b1 := by
    have := h1.1; unfold lo3 at this; split at this <;> omega
  have hh : (b0 = 0xED → b1 ≤ 0x9F) ∧ b1 ≤ 0xBF := by
    have := h1.2.1; unfold hi3 at this; split at this <;> omega
  generalize hc : (b0 - 0xE0) * 4096 + (b1 - 0x80) * 64 + (b2 - 0x80) = c
  have c1 : ¬ c < 0x80 := by omega
  have c2 : ¬ c < 0x800 := by omega
  have c3 : c < 0x10000 := by omega
  have e0 : 0xE0 + c / 4096 = b0 := by omega
  have e1 : 0x80 + c / 64 % 64 = b1 := by omega
  have e2 : 0x80 + c % 64 = b2 := by omega
  refine ⟨by unfold scalar; omega, ?_⟩
  unfold encodeScalar
  rw [if_neg c1, if_neg c2, if_pos c3, e0, e1, e2]

theorem enc_dec4 (b0 b1 b2 b3 : Nat) (h0 : 0xF0 ≤ b0 ∧ b0 ≤ 0xF4)
    (h1 : lo4 b0 ≤ b1 ∧ b1 ≤ hi4 b0 ∧ isCont b2 ∧ isCont b3) :
    scalar ((b0 - 0xF0) * 262144 + (b1 - 0x80) * 4096 + (b2 - 0x80) * 64 + (b3 - 0x80)) ∧
    encodeScalar ((b0 - 0xF0) * 262144 + (b1 - 0x80) * 4096 + (b2 - 0x80) * 64 + (b3 - 0x80)) = [b0, b1, b2, b3] := by
  unfold isCont at h1
  have hl : (b0 = 0xF0 → 0x90 ≤ b1) ∧ 0x80 ≤ b1 := by
    have := h1.1; unfold lo4 at this; split at this <;> omega
  have hh : (b0 = 0xF4 → b1 ≤ 0x8F) ∧ b1 ≤ 0xBF := by
    have := h1.2.1; unfold hi4 at this; split at this <;> omega
  generalize hc : (b0 - 0xF0) * 262144 + (b1 - 0x80) * 4096 + (b2 - 0x80) * 64 + (b3 - 0x80) = c
  have c1 : ¬ c < 0x80 := by omega
  have c2 : ¬ c < 0x800 := by omega
  have c3 : ¬ c < 0x10000 := by omega
  have e0 : 0xF0 + c / 262144 = b0 := by omega
  have e1 : 0x80 + c / 4096 % 64 = b1 := by omega
  have e2 : 0x80 + c / 64 % 64 = b2 := by omega
  have e3 : 0x80 + c % 64 = b3 := by omega
  refine ⟨by unfold scalar; omega, ?_⟩
  unfold encodeScalar
  rw [if_neg c1, if_neg c2, if_neg c3, e0, e1, e2, e3]

/-- What one decoding step does: it either reads exactly the encoding of a scalar value, or declares
    the first byte invalid. -/
theorem decode1_spec (b0 : Nat) (t : List Nat) :
    (∃ c t', scalar c ∧ b0 :: t = encodeScalar c ++ t' ∧ decode1 b0 t = (.cp c, (encodeScalar c).length)) ∨
    decode1 b0 t = (.bad b0, 1) := by
  unfold decode1
  split
  · rename_i h
    exact .inl ⟨b0, t, by unfold scalar; omega, by simp [encodeScalar, h], by simp [encodeScalar, h]⟩
  · split
    · rename_i h0
      split
      · rename_i b1 t'
        split
        · rename_i h1
          have := enc_dec2 b0 b1 h0 h1
          exact .inl ⟨_, t', this.1, by rw [this.2]; rfl, by rw [this.2]; rfl⟩
        · exact .inr rfl
      · exact .inr rfl
    · split
      · rename_i h0
        split
        · rename_i b1 b2 t'
          split
          · rename_i h1
            have := enc_dec3 b0 b1 b2 h0 h1
            exact .inl ⟨_, t', this.1, by rw [this.2]; rfl, by rw [this.2]; rfl⟩
          · exact .inr rfl
        · exact .inr rfl
      · split
        · rename_i h0
          split
          · rename_i b1 b2 b3 t'
            split
            · rename_i h1
              have := enc_dec4 b0 b1 b2 b3 h0 h1
              exact .inl ⟨_, t', this.1, by rw [this.2]; rfl, by rw [this.2]; rfl⟩
            · exact .inr rfl
          · exact .inr rfl
        · exact .inr rfl


/-! ### decoding a string followed by something that does not start with a continuation byte -/


theorem lo3_ge (b : Nat) : 0x80 ≤ lo3 b := by unfold lo3; split <;> omega
theorem hi3_le (b : Nat) : hi3 b ≤ 0xBF := by unfold hi3; split <;> omega
theorem lo4_ge (b : Nat) : 0x80 ≤ lo4 b := by unfold lo4; split <;> omega
theorem hi4_le (b : Nat) : hi4 b ≤ 0xBF := by unfold hi4; split <;> omega

set_option linter.unusedSimpArgs false in
theorem decode1_append (b0 : Nat) (t : List Nat) (h : Nat) (w : List Nat) (hh : ¬ isCont h) :
    decode1 b0 (t ++ h :: w) = decode1 b0 t := by
  have l3 := lo3_ge b0; have h3 := hi3_le b0; have l4 := lo4_ge b0; have h4 := hi4_le b0
  have hh' := hh
  unfold isCont at hh'
  have n3 : ∀ X : Prop, ¬ (lo3 b0 ≤ h ∧ h ≤ hi3 b0 ∧ X) := by intro X; omega
  have n4 : ∀ X : Prop, ¬ (lo4 b0 ≤ h ∧ h ≤ hi4 b0 ∧ X) := by intro X; omega
  rcases t with _ | ⟨b1, _ | ⟨b2, _ | ⟨b3, t⟩⟩⟩
  · rcases w with _ | ⟨h2, _ | ⟨h3, w⟩⟩ <;> simp [decode1, hh, n3, n4]
  · rcases w with _ | ⟨h2, w⟩ <;> simp [decode1, hh, n3, n4]
  · simp [decode1, hh, n3, n4]
  · simp [decode1]

/-! ### the decoding loop -/

theorem encodeScalar_ne_nil (c : Nat) : encodeScalar c ≠ [] := by
  unfold encodeScalar; split <;> (try split) <;> (try split) <;> simp

theorem encodeScalar_length_pos (c : Nat) : 0 < (encodeScalar c).length :=
  List.length_pos_iff.mpr (encodeScalar_ne_nil c)

/-- One step of the loop: either the string starts with the encoding of a scalar value, which is read
    as that code point, or its first byte is read as an invalid byte. -/
theorem decodeNat_step (b0 : Nat) (t : List Nat) :
    (∃ c t', scalar c ∧ b0 :: t = encodeScalar c ++ t' ∧ decodeNat (b0 :: t) = .cp c :: decodeNat t') ∨
    (decode1 b0 t = (.bad b0, 1) ∧ decodeNat (b0 :: t) = .bad b0 :: decodeNat t) := by
  rcases decode1_spec b0 t with ⟨c, t', hs, he, _⟩ | hb
  · exact .inl ⟨c, t', hs, he, by rw [he, decodeNat_encodeScalar c hs]⟩
  · exact .inr ⟨hb, by rw [decodeNat_cons, hb]; simp⟩

theorem decode_induction {P : List Nat → Prop} (h0 : P [])
    (hv : ∀ c t', scalar c → P t' → P (encodeScalar c ++ t'))
    (hb : ∀ b0 t, decode1 b0 t = (.bad b0, 1) → P t → P (b0 :: t)) : ∀ s, P s := by
  intro s
  generalize hn : s.length = n
  induction n using Nat.strongRecOn generalizing s with
  | _ n ih =>
    cases s with
    | nil => exact h0
    | cons b0 t =>
      rcases decodeNat_step b0 t with ⟨c, t', hs, he, _⟩ | ⟨hbad, _⟩
      · rw [he]
        refine hv c t' hs (ih t'.length ?_ t' rfl)
        have := congrArg List.length he
        have := encodeScalar_length_pos c
        simp only [List.length_append, List.length_cons] at *
        omega
      · exact hb b0 t hbad (ih t.length (by simp only [List.length_cons] at hn; omega) t rfl)

theorem decodeNat_encodeScalar' (c : Nat) (h : scalar c) (t : List Nat) :
    decodeNat (encodeScalar c ++ t) = .cp c :: decodeNat t := decodeNat_encodeScalar c h t

theorem decodeNat_bad {b0 : Nat} {t : List Nat} (h : decode1 b0 t = (.bad b0, 1)) :
    decodeNat (b0 :: t) = .bad b0 :: decodeNat t := by
  rw [decodeNat_cons, h]; simp

/-- every code point produced by decoding is a scalar value (an invalid byte counts as U+FFFD) -/
theorem decodeNat_scalar (s : List Nat) : ∀ r ∈ decodeNat s, scalar r.val := by
  induction s using decode_induction with
  | h0 => simp [decodeNat_nil]
  | hv c t' hs ih =>
    rw [decodeNat_encodeScalar c hs]
    intro r hr
    rcases List.mem_cons.mp hr with rfl | hr
    · exact hs
    · exact ih r hr
  | hb b0 t hbad ih =>
    rw [decodeNat_bad hbad]
    intro r hr
    rcases List.mem_cons.mp hr with rfl | hr
    · simp only [Rune.val]; unfold scalar; omega
    · exact ih r hr

theorem decodeNat_length_le (s : List Nat) : (decodeNat s).length ≤ s.length := by
  induction s using decode_induction with
  | h0 => simp [decodeNat_nil]
  | hv c t' hs ih =>
    rw [decodeNat_encodeScalar c hs]
    have := encodeScalar_length_pos c
    simp only [List.length_cons, List.length_append]; omega
  | hb b0 t hbad ih =>
    rw [decodeNat_bad hbad]; simp only [List.length_cons]; omega

/-- the number of invalid bytes -/
def badCount (rs : List Rune) : Nat := (rs.filter Rune.isBad).length

/-- what the sanitiser writes for a decoded rune is a scalar value (the replacement byte is ASCII) -/
theorem decodeNat_scalar_out (s : List Nat) : ∀ r ∈ decodeNat s, scalar r.out := by
  intro r hr
  cases r with
  | cp c => exact decodeNat_scalar s _ hr
  | bad b => simp only [Rune.out]; decide

/-- the replacement for an invalid byte is written as one byte -/
theorem encodeNat_repl : encodeNat Wtf.Gen.Validate.invalidRepl = [Wtf.Gen.Validate.invalidRepl] := by decide

/-- Writing every rune back the way the sanitising loop of `ValidateQuery` does (a well-formed rune as its own
    bytes, an invalid byte as the one-byte replacement) gives a text of exactly the same byte length. -/
theorem encode_out_length (s : List Nat) :
    (encodeAll ((decodeNat s).map Rune.out)).length = s.length := by
  induction s using decode_induction with
  | h0 => simp [decodeNat_nil, encodeAll]
  | hv c t' hs ih =>
    rw [decodeNat_encodeScalar c hs]
    simp only [encodeAll, List.map_cons, List.flatMap_cons, List.length_append, Rune.out,
      encodeNat_of_scalar hs] at *
    omega
  | hb b0 t hbad ih =>
    rw [decodeNat_bad hbad]
    simp only [encodeAll, List.map_cons, List.flatMap_cons, List.length_append, Rune.out,
      encodeNat_repl, List.length_cons, List.length_nil] at *
    omega

/-- well-formed text is reproduced exactly -/
theorem encode_decode_valid (s : List Nat) (h : ∀ r ∈ decodeNat s, r.isBad = false) :
    encodeAll ((decodeNat s).map Rune.val) = s := by
  induction s using decode_induction with
  | h0 => simp [decodeNat_nil, encodeAll]
  | hv c t' hs ih =>
    rw [decodeNat_encodeScalar c hs] at h ⊢
    have := ih (fun r hr => h r (by simp [hr]))
    simp only [encodeAll, List.map_cons, List.flatMap_cons, Rune.val, encodeNat_of_scalar hs] at *
    rw [this]
  | hb b0 t hbad ih =>
    rw [decodeNat_bad hbad] at h
    have := h (.bad b0) (by simp)
    simp [Rune.isBad] at this

theorem decode1_bad_ge {b0 : Nat} {t : List Nat} (h : decode1 b0 t = (.bad b0, 1)) : 0x80 ≤ b0 := by
  unfold decode1 at h
  split at h
  · simp at h
  · omega

theorem encodeScalar_ascii (c b : Nat) (hb : b < 0x80) : b ∈ encodeScalar c ↔ b = c ∧ c < 0x80 := by
  unfold encodeScalar
  split
  · simp; omega
  · split
    · simp; omega
    · split
      · simp; omega
      · simp; omega

/-- An ASCII byte occurs in a string iff it occurs as a decoded character: ASCII bytes are never part of
    a longer sequence and never invalid. -/
theorem ascii_mem_decode (s : List Nat) (b : Nat) (hb : b < 0x80) :
    b ∈ s ↔ ∃ r ∈ decodeNat s, r.val = b := by
  induction s using decode_induction with
  | h0 => simp [decodeNat_nil]
  | hv c t' hs ih =>
    rw [decodeNat_encodeScalar c hs]
    simp only [List.mem_append, List.mem_cons, exists_eq_or_imp, Rune.val, encodeScalar_ascii c b hb, ih]
    constructor
    · rintro (⟨h1, _⟩ | h2)
      · exact .inl h1.symm
      · exact .inr h2
    · rintro (h1 | h2)
      · exact .inl ⟨h1.symm, by omega⟩
      · exact .inr h2
  | hb b0 t hbad ih =>
    rw [decodeNat_bad hbad]
    have := decode1_bad_ge hbad
    simp only [List.mem_cons, exists_eq_or_imp, Rune.val, ih]
    constructor
    · rintro (h1 | h2)
      · omega
      · exact .inr h2
    · rintro (h1 | h2)
      · omega
      · exact .inr h2

/-- `w` is empty or does not start with a continuation byte -/
def startOK : List Nat → Prop
  | [] => True
  | h :: _ => ¬ isCont h

theorem decodeNat_append (s w : List Nat) (hw : startOK w) : decodeNat (s ++ w) = decodeNat s ++ decodeNat w := by
  cases w with
  | nil => simp [decodeNat_nil]
  | cons h w =>
    have hh : ¬ isCont h := hw
    induction s using decode_induction with
    | h0 => simp [decodeNat_nil]
    | hv c t' hs ih =>
      rw [List.append_assoc, decodeNat_encodeScalar c hs, decodeNat_encodeScalar c hs, ih]; rfl
    | hb b0 t hbad ih =>
      have : decode1 b0 (t ++ h :: w) = (.bad b0, 1) := by rw [decode1_append b0 t h w hh, hbad]
      rw [List.cons_append, decodeNat_bad this, decodeNat_bad hbad, ih]; rfl

theorem encodeScalar_head (c : Nat) : ∃ e rest, encodeScalar c = e :: rest ∧ ¬ isCont e := by
  unfold encodeScalar isCont
  split
  · exact ⟨_, _, rfl, by omega⟩
  · split
    · exact ⟨_, _, rfl, by omega⟩
    · split
      · exact ⟨_, _, rfl, by omega⟩
      · exact ⟨_, _, rfl, by omega⟩

theorem startOK_encodeAll (cs : List Nat) (t : List Nat) (ht : cs = [] → startOK t) : startOK (encodeAll cs ++ t) := by
  cases cs with
  | nil => simpa [encodeAll] using ht rfl
  | cons c cs =>
    simp only [encodeAll, List.flatMap_cons, encodeNat, List.append_assoc]
    split
    · obtain ⟨e, rest, he, hc⟩ := encodeScalar_head c
      rw [he]; exact hc
    · obtain ⟨e, rest, he, hc⟩ := encodeScalar_head 0xFFFD
      rw [he]; exact hc

end Wtf.Validate
