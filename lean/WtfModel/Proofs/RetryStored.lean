import WtfModel.Proofs.Retry
import WtfModel.Proofs.RetryDelay

/-!
  The clauses of C15 for a `DatabaseRecovery` holding an arbitrary stored configuration `cfg`
  (helper lemmas; Props/C15.lean instantiates them with `sanitize raw`, which is `Sane`).
-/
namespace Wtf.Retry.Stored
open Wtf.Retry Wtf.Gen

theorem embedded_nonempty : Recovery.embeddedCommands ≠ [] := by decide

/-- whatever the backup file looks like, the ladder stops at a built-in, non-empty database -/
theorem fallback_builtin (backup : FileState) :
    ∃ c db, climb backup Recovery.ladder = some (c, db) ∧ db ≠ [] ∧
      ((c = .embedded ∧ db = Recovery.embeddedCommands) ∨ (c = .minimal ∧ db = Recovery.minimalCommands)) :=
  ⟨.embedded, Recovery.embeddedCommands, by rfl, embedded_nonempty, Or.inl ⟨rfl, rfl⟩⟩

/-! ### "ends with a searchable database and no error" -/

/-- For every sequence of load attempts and every backup state: no error, a database, and it is either
    what a load attempt returned (`real`) or a non-empty built-in list. -/
theorem total (cfg : Cfg) (hc : 1 ≤ cfg.maxAttempts) (f : Nat → Attempt) (backup : FileState) :
    let r := loadWithFallback cfg f backup
    r.err = none ∧ ∃ db, r.db = some db ∧
      ((r.cls = .real ∧ f r.attempts = .ok db) ∨
       (db ≠ [] ∧ ((r.cls = .embedded ∧ db = Recovery.embeddedCommands) ∨ (r.cls = .minimal ∧ db = Recovery.minimalCommands)))) := by
  have hwf := retryLoop_wf cfg f cfg.maxAttempts.toNat 1 none (Or.inl (by omega))
  have hdb := retryLoop_db cfg f cfg.maxAttempts.toNat 1 none
  obtain ⟨c, fdb, hclimb, hne, hcls⟩ := fallback_builtin backup
  simp only [loadWithFallback, loadWithRetry] at *
  rcases hwf with ⟨db, h1, h2⟩ | ⟨h1, e, h2⟩
  · simp only [h2, h1]
    exact ⟨trivial, db, by simp, Or.inl ⟨by simp, hdb db h1⟩⟩
  · simp only [h2, hclimb]
    exact ⟨trivial, fdb, by simp, Or.inr ⟨hne, hcls⟩⟩

/-! ### "the real one whenever the main file loads and the notebook loads or is merely absent,
        a built-in fallback otherwise" -/

/-- main file loads, notebook loads: main entries followed by notebook entries, first attempt -/
theorem real (cfg : Cfg) (hc : 1 ≤ cfg.maxAttempts) (m p : List Cmd) (backup : FileState) :
    let r := loadWithFallback cfg (static (.good m) (.good p)) backup
    r.cls = .real ∧ r.db = some (m ++ p) ∧ r.err = none ∧ r.attempts = 1 ∧ r.delays = [] := by
  obtain ⟨k, hk⟩ : ∃ k, cfg.maxAttempts.toNat = k + 1 := ⟨cfg.maxAttempts.toNat - 1, by omega⟩
  simp [loadWithFallback, loadWithRetry, hk, retryLoop_ok (f := static (.good m) (.good p)) (a := 1) (lwp_good_good m p)]

/-- main file loads, notebook absent: the main entries, first attempt -/
theorem real_notebook_absent (cfg : Cfg) (hc : 1 ≤ cfg.maxAttempts) (m : List Cmd) (backup : FileState) :
    let r := loadWithFallback cfg (static (.good m) .missing) backup
    r.cls = .real ∧ r.db = some m ∧ r.err = none ∧ r.attempts = 1 ∧ r.delays = [] := by
  obtain ⟨k, hk⟩ : ∃ k, cfg.maxAttempts.toNat = k + 1 := ⟨cfg.maxAttempts.toNat - 1, by omega⟩
  simp [loadWithFallback, loadWithRetry, hk, retryLoop_ok (f := static (.good m) .missing) (a := 1) (lwp_good_missing m)]

/-- … and in no other case: if the answer is the real database then the main file loaded and the
    notebook loaded or was absent (so every other fault combination ends in the built-in fallback). -/
theorem real_only_if (cfg : Cfg) (hc : 1 ≤ cfg.maxAttempts) (main personal backup : FileState) :
    let r := loadWithFallback cfg (static main personal) backup
    r.cls = .real →
      ∃ m, main = .good m ∧ ((∃ p, personal = .good p ∧ r.db = some (m ++ p)) ∨ (personal = .missing ∧ r.db = some m)) := by
  intro r hr
  obtain ⟨_, db, hdb, h | h⟩ := total cfg hc (static main personal) backup
  · obtain ⟨m, hm, h'⟩ := (lwp_ok_iff main personal db).mp h.2
    refine ⟨m, hm, ?_⟩
    rcases h' with ⟨p, hp, rfl⟩ | ⟨hp, rfl⟩
    · exact Or.inl ⟨p, hp, hdb⟩
    · exact Or.inr ⟨hp, hdb⟩
  · rcases h.2 with h' | h' <;> (have := h'.1; simp only [r] at hr; rw [hr] at this; cases this)

/-! ### "a missing or permission-denied file is tried once" -/

/-- main file missing or unreadable: one attempt, no sleep, built-in fallback — whatever the notebook -/
theorem once (cfg : Cfg) (hc : 1 ≤ cfg.maxAttempts) (main personal backup : FileState) (h : main.hopeless) :
    let r := loadWithFallback cfg (static main personal) backup
    r.attempts = 1 ∧ r.delays = [] ∧ r.cls ≠ .real ∧ r.err = none := by
  obtain ⟨k, hk⟩ : ∃ k, cfg.maxAttempts.toNat = k + 1 := ⟨cfg.maxAttempts.toNat - 1, by omega⟩
  obtain ⟨e, he, hs⟩ := lwp_main_hopeless h personal
  obtain ⟨c, fdb, hclimb, _, hcls⟩ := fallback_builtin backup
  have := retryLoop_stop (cfg := cfg) (f := static main personal) (r := k) (a := 1) (last := none) he hs
  simp only [loadWithFallback, loadWithRetry, hk, this, hclimb]
  refine ⟨by simp, by simp, ?_, by simp⟩
  rcases hcls with h | h <;> simp [h.1]

/-- the notebook beside a good main file: missing is tolerated (`real_notebook_absent`);
    permission-denied is an error that is not retried either -/
theorem once_notebook_denied (cfg : Cfg) (hc : 1 ≤ cfg.maxAttempts) (m : List Cmd) (backup : FileState) :
    let r := loadWithFallback cfg (static (.good m) .denied) backup
    r.attempts = 1 ∧ r.delays = [] ∧ r.cls ≠ .real ∧ r.err = none := by
  obtain ⟨k, hk⟩ : ∃ k, cfg.maxAttempts.toNat = k + 1 := ⟨cfg.maxAttempts.toNat - 1, by omega⟩
  obtain ⟨e, he, hs⟩ := lwp_personal_denied m
  obtain ⟨c, fdb, hclimb, _, hcls⟩ := fallback_builtin backup
  have := retryLoop_stop (cfg := cfg) (f := static (.good m) .denied) (r := k) (a := 1) (last := none) he hs
  simp only [loadWithFallback, loadWithRetry, hk, this, hclimb]
  refine ⟨by simp, by simp, ?_, by simp⟩
  rcases hcls with h | h <;> simp [h.1]

/-! ### "any other failure at most the configured number of times" -/

/-- never more attempts than configured — for every sequence of attempts and every configuration -/
theorem at_most (cfg : Cfg) (f : Nat → Attempt) (backup : FileState) :
    (loadWithFallback cfg f backup).attempts ≤ cfg.maxAttempts.toNat := by
  have := retryLoop_attempts_le cfg f cfg.maxAttempts.toNat 1 none
  simp only [loadWithFallback, loadWithRetry]
  split <;> (try split) <;> simp <;> omega

/-- a directory, a malformed file or any other read error (main file, or notebook beside a good main
    file) that persists is tried exactly the configured number of times -/
theorem exactly_max (cfg : Cfg) (main personal backup : FileState)
    (h : main.retryable ∨ (∃ m, main = .good m) ∧ personal.retryable) :
    (loadWithFallback cfg (static main personal) backup).attempts = cfg.maxAttempts.toNat := by
  have hf : ∀ n : Nat, ∃ e, static main personal n = .error e ∧ shouldRetry e = true := by
    intro _
    rcases h with h | ⟨⟨m, rfl⟩, h⟩
    · exact lwp_main_retryable h personal
    · exact lwp_personal_retryable m h
  have := (retryLoop_persistent cfg _ hf cfg.maxAttempts.toNat 1 none).1
  simp only [loadWithFallback, loadWithRetry]
  split <;> (try split) <;> simp <;> omega

/-! ### "with waits that never decrease and never exceed the configured maximum" -/

/-- For every configuration: the sleeps are exactly calculateDelay(1), …, calculateDelay(attempts−1)
    (so there are attempts − 1 of them), and none exceeds the configured maximum. -/
theorem delays_exact (cfg : Cfg) (f : Nat → Attempt) (backup : FileState) :
    let r := loadWithFallback cfg f backup
    r.delays = (List.range' 1 (r.attempts - 1)).map (delayNs cfg) ∧
    r.delays.length = r.attempts - 1 := by
  have h := retryLoop_delays cfg f cfg.maxAttempts.toNat 1 none (by omega)
  have key : (loadWithFallback cfg f backup).delays = (loadWithRetry cfg f).delays ∧
      (loadWithFallback cfg f backup).attempts = (loadWithRetry cfg f).attempts := by
    simp only [loadWithFallback]
    split <;> (try split) <;> simp
  simp only [loadWithRetry] at key h
  intro r
  have hd : r.delays = (List.range' 1 (r.attempts - 1)).map (delayNs cfg) := by
    simp only [r, key.1, key.2]; exact h
  exact ⟨hd, by rw [hd]; simp⟩

/-- For a sane stored configuration: the waits never decrease, are never negative and never exceed the cap. -/
theorem delays (cfg : Cfg) (hs : cfg.Sane) (f : Nat → Attempt) (backup : FileState) :
    let r := loadWithFallback cfg f backup
    r.delays.Pairwise (· ≤ ·) ∧ (∀ d ∈ r.delays, 0 ≤ d ∧ d ≤ cfg.max) ∧ r.delays.length = r.attempts - 1 := by
  intro r
  obtain ⟨hd, hl⟩ := delays_exact cfg f backup
  refine ⟨?_, ?_, hl⟩
  · simp only [r]; rw [hd]; exact delays_pairwise cfg hs 1 _
  · intro d hdm
    simp only [r] at hdm; rw [hd, List.mem_map] at hdm
    obtain ⟨n, _, rfl⟩ := hdm
    exact ⟨delayNs_nonneg cfg hs n, delayNs_le_max cfg hs.2.2.1 n⟩

/-! ### transient faults -/

/-- The files are broken in a retryable way for the first `k < maxAttempts` attempts and fine at attempt
    `k+1`: the real database is returned after exactly `k+1` attempts and `k` sleeps. -/
theorem transient (cfg : Cfg) (k : Nat) (hk : (k : Int) < cfg.maxAttempts)
    (mainAt personalAt : Nat → FileState) (m p : List Cmd) (backup : FileState)
    (hbad : ∀ n, 1 ≤ n → n ≤ k → (mainAt n).retryable ∨ (∃ m', mainAt n = .good m') ∧ (personalAt n).retryable)
    (hgood : mainAt (k + 1) = .good m)
    (hp : personalAt (k + 1) = .good p ∨ (personalAt (k + 1) = .missing ∧ p = [])) :
    let r := loadWithFallback cfg (dynamic mainAt personalAt) backup
    r.cls = .real ∧ r.db = some (m ++ p) ∧ r.err = none ∧ r.attempts = k + 1 ∧ r.delays.length = k := by
  intro r
  have hok : dynamic mainAt personalAt (1 + k) = .ok (m ++ p) := by
    have : 1 + k = k + 1 := by omega
    simp only [dynamic, this, hgood]
    rcases hp with hp | ⟨hp, rfl⟩
    · rw [hp]; rfl
    · rw [hp]; simpa using lwp_good_missing m
  have hfail : ∀ n, 1 ≤ n → n < 1 + k → ∃ e, dynamic mainAt personalAt n = .error e ∧ shouldRetry e = true := by
    intro n h1 h2
    rcases hbad n h1 (by omega) with h | ⟨⟨m', hm'⟩, h⟩
    · exact lwp_main_retryable h _
    · simp only [dynamic, hm']; exact lwp_personal_retryable m' h
  have h := retryLoop_transient cfg _ (m ++ p) k cfg.maxAttempts.toNat 1 none (by omega) hfail hok
  dsimp only at h
  obtain ⟨h1, h2, h3⟩ := h
  obtain ⟨_, hl⟩ := delays_exact cfg (dynamic mainAt personalAt) backup
  have hr : r.cls = .real ∧ r.db = some (m ++ p) ∧ r.err = none ∧ r.attempts = 1 + k := by
    simp only [r, loadWithFallback, loadWithRetry, h1, h2, h3]; simp
  refine ⟨hr.1, hr.2.1, hr.2.2.1, by omega, ?_⟩
  simp only [r] at hr ⊢; rw [hl, hr.2.2.2]; omega

end Wtf.Retry.Stored
