import WtfModel.Proofs.C01Score
/-
  C01, typo-fallback branch (performFuzzySearch + limitResults): indices reported by the matcher are
  strictly increasing and in range, the score normalisation is monotone and lands in [0,1], the
  collected answer is an in-order sub-list of the library's sorted matches.  Core Lean only.
-/
namespace Wtf.Search
open Text Index Filters ScoreOps ScoreLaws

variable {S : Type} [ScoreOps S]

/-! ### the matcher reports each target at most once, in target order -/

theorem findNoSort_go_spec (ri : RuneInfo) (pattern : Bytes) (ts : List Bytes) (i : Nat) (r : List (Nat × Int))
    (h : Fuzzy.findNoSort.go ri pattern i ts = .ok r) :
    (r.map (·.1)).Pairwise (· < ·) ∧ ∀ x ∈ r, i ≤ x.1 ∧ x.1 < i + ts.length := by
  induction ts generalizing i r with
  | nil =>
    simp only [Fuzzy.findNoSort.go, Except.ok.injEq] at h
    subst h; simp
  | cons t rest ih =>
    simp only [Fuzzy.findNoSort.go] at h
    split at h
    · cases h
    · cases h
    · rename_i r' _ hgo
      simp only [Except.ok.injEq] at h
      subst h
      obtain ⟨h1, h2⟩ := ih (i + 1) _ hgo
      refine ⟨h1, ?_⟩
      intro x hx
      have := h2 x hx
      simp only [List.length_cons]; omega
    · rename_i sc _ r' _ hgo
      simp only [Except.ok.injEq] at h
      subst h
      obtain ⟨h1, h2⟩ := ih (i + 1) _ hgo
      constructor
      · simp only [List.map_cons, List.pairwise_cons]
        refine ⟨?_, h1⟩
        intro k hk
        rw [List.mem_map] at hk
        obtain ⟨x, hx, rfl⟩ := hk
        have := h2 x hx; omega
      · intro x hx
        simp only [List.mem_cons] at hx
        cases hx with
        | inl hx => subst hx; simp only [List.length_cons]; omega
        | inr hx => have := h2 x hx; simp only [List.length_cons]; omega

/-- FindFromNoSort: strictly increasing target indices, all `< targets.length` -/
theorem findNoSort_spec (ri : RuneInfo) (pattern : Bytes) (targets : List Bytes) (ms : List (Nat × Int))
    (h : Fuzzy.findNoSort ri pattern targets = .ok ms) :
    (ms.map (·.1)).Pairwise (· < ·) ∧ ∀ x ∈ ms, x.1 < targets.length := by
  unfold Fuzzy.findNoSort at h
  split at h
  · simp only [Except.ok.injEq] at h; subst h; simp
  · obtain ⟨h1, h2⟩ := findNoSort_go_spec ri pattern targets 0 ms h
    refine ⟨h1, fun x hx => ?_⟩
    have := h2 x hx; omega

/-- the strings handed to the matcher never contain a NUL byte (performFuzzySearch replaces it) -/
theorem fuzzyTarget_nul_free (c : Cmd) : (0 : UInt8) ∉ fuzzyTarget c := by
  unfold fuzzyTarget nulToSpace
  intro h
  rw [List.mem_map] at h
  obtain ⟨b, _, hb⟩ := h
  split at hb
  · cases hb
  · rename_i hne
    subst hb
    simp at hne

/-! ### score normalisation -/
section norm
variable [ScoreLaws S]

/-- `clamp01 v = min 1 (max 0 v)` as the code writes it -/
def clamp01 (v : S) : S := if lt v zero then zero else if lt one v then one else v

theorem clamp01_nonneg (v : S) : Nonneg (clamp01 v) := by
  unfold clamp01
  split
  · exact zero_nonneg
  · split
    · exact one_nonneg
    · rename_i h _; simpa using h

theorem clamp01_le_one (v : S) : lt (one : S) (clamp01 v) = false := by
  unfold clamp01
  split
  · exact lt_asymm _ _ zero_lt_one
  · split
    · exact lt_irrefl _
    · rename_i h; simpa using h

/-- `v₂ ≥ v₁ → clamp01 v₂ ≥ clamp01 v₁` -/
theorem clamp01_mono {v1 v2 : S} (h : lt v2 v1 = false) : lt (clamp01 v2) (clamp01 v1) = false := by
  by_cases h1 : lt v1 zero = true
  · -- clamp v1 = 0 ≤ clamp v2
    have : clamp01 v1 = zero := by simp [clamp01, h1]
    rw [this]; exact clamp01_nonneg v2
  · have h1' : lt v1 zero = false := by simpa using h1
    have h2z : lt v2 zero = false := by
      cases hz : lt v2 zero with
      | false => rfl
      | true => have := lt_of_lt_of_ge hz h1'; rw [h] at this; cases this
    by_cases h1o : lt one v1 = true
    · have h2o : lt one v2 = true := lt_of_lt_of_ge h1o h
      have e1 : clamp01 v1 = one := by simp [clamp01, h1', h1o]
      have e2 : clamp01 v2 = one := by simp [clamp01, h2z, h2o]
      rw [e1, e2]; exact lt_irrefl _
    · have h1o' : lt one v1 = false := by simpa using h1o
      have e1 : clamp01 v1 = v1 := by simp [clamp01, h1', h1o']
      rw [e1]
      by_cases h2o : lt one v2 = true
      · have e2 : clamp01 v2 = one := by simp [clamp01, h2z, h2o]
        rw [e2]; exact h1o'
      · have h2o' : lt one v2 = false := by simpa using h2o
        have e2 : clamp01 v2 = v2 := by simp [clamp01, h2z, h2o']
        rw [e2]; exact h

/-- the signed conversion `float64(int)` -/
def ofInt (x : Int) : S := if x < 0 then sub zero (ofNat (-x).toNat) else ofNat x.toNat

theorem ofInt_mono {x1 x2 : Int} (h : x1 ≤ x2) : lt (ofInt x2 : S) (ofInt x1) = false := by
  unfold ofInt
  by_cases h2 : x2 < 0
  · have h1 : x1 < 0 := by omega
    simp only [h1, h2, ↓reduceIte]
    apply sub_le_sub_left
    apply ofNat_mono
    omega
  · by_cases h1 : x1 < 0
    · simp only [h1, h2, ↓reduceIte]
      have hneg : lt (sub zero (ofNat (-x1).toNat : S)) zero = true :=
        sub_zero_neg _ (ofNat_pos _ (by omega))
      have hge : lt (ofNat x2.toNat : S) zero = false := ofNat_nonneg _
      cases hc : lt (ofNat x2.toNat : S) (sub zero (ofNat (-x1).toNat)) with
      | false => rfl
      | true =>
        have := lt_trans _ _ _ hc hneg
        rw [hge] at this; cases this
    · simp only [h1, h2, ↓reduceIte]
      apply ofNat_mono
      omega

omit [ScoreLaws S] in
theorem normalizeFuzzy_eq (sc : Int) :
    (normalizeFuzzy sc : S) = clamp01 (div (ofInt (sc + fuzzyBase)) (ofNat fuzzyBase.toNat)) := by
  unfold normalizeFuzzy clamp01 ofInt
  rfl

theorem normalizeFuzzy_nonneg (sc : Int) : Nonneg (normalizeFuzzy sc : S) := by
  rw [normalizeFuzzy_eq]; exact clamp01_nonneg _

theorem normalizeFuzzy_le_one (sc : Int) : lt (one : S) (normalizeFuzzy sc) = false := by
  rw [normalizeFuzzy_eq]; exact clamp01_le_one _

/-- a better library score never gets a smaller normalised score -/
theorem normalizeFuzzy_mono {a b : Int} (h : a ≥ b) : lt (normalizeFuzzy a : S) (normalizeFuzzy b) = false := by
  rw [normalizeFuzzy_eq, normalizeFuzzy_eq]
  apply clamp01_mono
  apply div_le_div_right
  · exact ofInt_mono (by omega)
  · exact ofNat_pos _ (by decide)

end norm

/-! ### collection of the matches -/

/-- what `fuzzyCollect` appends: an in-order sub-list of the sorted matches, every kept match names an
    existing entry that passes the platform / pipeline gate, scores normalised -/
theorem fuzzyCollect_spec (T : Tuning S) (db : Db) (o : Opts S) (cap : Nat) (l : List (Nat × Int))
    (acc : List (Nat × S)) :
    ∃ sub : List (Nat × Int), sub.Sublist l ∧ (∀ x ∈ sub, Eligible T db o x.1) ∧
      fuzzyCollect T db o cap l acc = acc.reverse ++ sub.map (fun x => (x.1, normalizeFuzzy x.2)) ∧
      (acc.length ≤ cap → (fuzzyCollect T db o cap l acc).length ≤ cap) := by
  induction l generalizing acc with
  | nil => exact ⟨[], List.Sublist.refl _, by simp, by simp [fuzzyCollect], by simp [fuzzyCollect]⟩
  | cons a rest ih =>
    obtain ⟨i, sc⟩ := a
    simp only [fuzzyCollect]
    split
    · exact ⟨[], List.nil_sublist _, by simp, by simp, by simp⟩
    · rename_i hcap
      split
      · obtain ⟨sub, h1, h2, h3, h4⟩ := ih acc
        exact ⟨sub, h1.cons _, h2, h3, h4⟩
      · rename_i c hc
        split
        · obtain ⟨sub, h1, h2, h3, h4⟩ := ih acc
          exact ⟨sub, h1.cons _, h2, h3, h4⟩
        · rename_i hp
          split
          · obtain ⟨sub, h1, h2, h3, h4⟩ := ih acc
            exact ⟨sub, h1.cons _, h2, h3, h4⟩
          · obtain ⟨sub, h1, h2, h3, h4⟩ := ih ((i, normalizeFuzzy sc) :: acc)
            refine ⟨(i, sc) :: sub, h1.cons_cons _, ?_, ?_, ?_⟩
            · intro x hx
              simp only [List.mem_cons] at hx
              cases hx with
              | inl hx => subst hx; exact ⟨c, hc, by simpa using hp⟩
              | inr hx => exact h2 x hx
            · rw [h3]; simp
            · intro _
              apply h4
              simp only [List.length_cons]
              omega

/-- the library's sort (`sort.Stable` with the matches' `Less`): a permutation, best score first.
    Discharged by the contract of `sort.Stable` (trusted base) and checked on every generated case: the
    driver accepts Go's order only if it is a score-sorted permutation of the model's own matches. -/
def FuzzySortOK (T : Tuning S) : Prop :=
  ∀ ms, (T.fuzzySort ms).Perm ms ∧ (T.fuzzySort ms).Pairwise (fun a b => a.2 ≥ b.2)

end Wtf.Search
