/-
  Model of internal/history/history.go (SearchHistory).  Core Lean only.

  * `entries` is the Go slice `sh.Entries`, oldest first (chronological), exactly as in the code.
  * time is an input: `ts : Int` is an abstract time key, `0` = Go's zero `time.Time`; only the
    order of keys matters (`Timestamp.After`).  `add` receives the timestamp of the new entry.
  * `maxSize : Int` is `sh.MaxSize` as it is — it may be zero or negative (a file can say so);
    `add` slices with Go semantics in `Except`, so a bad bound is a visible panic.
  * `Load` decodes the file into a FRESH `SearchHistory` value and takes it over only when
    `json.Unmarshal` reports no error at all (syntax or type); otherwise the receiver is untouched.
    Inside one document encoding/json still merges: a second `"entries"` member is decoded INTO the
    slice the first one produced, go1.25 does not zero a reused slice element, so fields absent from
    the later member keep the earlier values, and `SetLen(i+1)` re-exposes slots past `len`.  The
    decoder state `DState` therefore carries `spare`: the old entries still sitting in the backing
    array just past `len` (slots beyond `len + spare.length` are zero memory).
  * encoding/json and time.Time's text form enter through a `Codec` (third-party contract, DESIGN §4);
    what *this* code does with a parsed document (which field goes where, what is kept on a type
    error, where decoding stops) is modelled here in full (`unmarshal`), following
    encoding/json/decode.go: `object`, `array`, `literalStore`, `Time.UnmarshalJSON`.
-/
import WtfModel.Basic.Bytes
import WtfModel.Gen.History
namespace Wtf.History

structure Entry where
  query : Bytes
  ts : Int
  results : Int
  context : Bytes
  duration : Int
deriving DecidableEq, Repr

/-- zero value of `SearchEntry` (fresh memory) -/
def Entry.zero : Entry := ⟨[], 0, 0, [], 0⟩

/-- the always-serialised part of an entry: (query, timestamp, results_count) -/
def Entry.core (e : Entry) : Bytes × Int × Int := (e.query, e.ts, e.results)

structure State where
  entries : List Entry
  maxSize : Int
deriving DecidableEq, Repr

/-- the value `json.Unmarshal` decodes into (`var loaded SearchHistory`), with the stale backing slots -/
structure DState where
  entries : List Entry
  maxSize : Int
  spare : List Entry
deriving DecidableEq, Repr

def DState.zero : DState := ⟨[], 0, []⟩

/-- facts regenerated from the source on every run (`Gen/History.lean`) -/
structure Params where
  newDefault : Int             -- NewSearchHistory: replaces a non-positive request
  loadGuard : Bool             -- Load takes the file's max_size only `if loaded.MaxSize > 0`
  loadFallback : Option Int    -- Load ends with `if sh.MaxSize <= 0 { sh.MaxSize = N }`
deriving Repr

inductive Panic where
  | sliceBounds (lo : Int) (len : Nat)   -- "slice bounds out of range [lo:len]"
deriving DecidableEq, Repr

/-- `NewSearchHistory(path, maxSize)` -/
def new (P : Params) (maxSize : Int) : State :=
  { entries := [], maxSize := if maxSize ≤ 0 then P.newDefault else maxSize }

/-- Go `s[lo:]`: panics unless `0 ≤ lo ≤ len(s)` -/
def sliceFrom {α : Type} (xs : List α) (lo : Int) : Except Panic (List α) :=
  if 0 ≤ lo ∧ lo ≤ (xs.length : Int) then .ok (xs.drop lo.toNat) else .error (.sliceBounds lo xs.length)

/-- the append-and-trim branch of `AddEntry` -/
def addNew (s : State) (e : Entry) : Except Panic State :=
  let es := s.entries ++ [e]
  if (es.length : Int) > s.maxSize then
    match sliceFrom es ((es.length : Int) - s.maxSize) with
    | .ok es' => .ok { s with entries := es' }
    | .error p => .error p
  else .ok { s with entries := es }

/-- `AddEntry`: an immediately repeated query replaces the last entry -/
def add (s : State) (e : Entry) : Except Panic State :=
  match s.entries.getLast? with
  | some l => if l.query = e.query then .ok { s with entries := s.entries.dropLast ++ [e] } else addNew s e
  | none => addNew s e

/-! ### Views -/

/-- `if limit <= 0 { limit = N }`, N regenerated (`Gen.History.recentDefault`) -/
def effLimit (limit : Int) : Nat := if limit ≤ 0 then Gen.History.recentDefault else limit.toNat
/-- the same in `GetTopQueries` (its own literal) -/
def effLimitTop (limit : Int) : Nat := if limit ≤ 0 then Gen.History.topDefault else limit.toNat

/-- the loop of `GetRecentQueries` over the queries, newest first -/
def recentLoop (lim : Nat) : List Bytes → List Bytes → List Bytes
  | [], acc => acc
  | q :: qs, acc =>
    if acc.length < lim then
      (if q ∈ acc then recentLoop lim qs acc else recentLoop lim qs (acc ++ [q]))
    else acc

def recent (s : State) (limit : Int) : List Bytes :=
  recentLoop (effLimit limit) (s.entries.reverse.map (·.query)) []

/-- keep the first occurrence of every element (specification function) -/
def dedupFirst {α : Type} [DecidableEq α] : List α → List α
  | [] => []
  | x :: xs => x :: (dedupFirst xs).filter (fun y => y ≠ x)

structure QF where
  query : Bytes
  count : Nat
  lastUsed : Int
deriving DecidableEq, Repr

def countOf (q : Bytes) (es : List Entry) : Nat := (es.filter (fun e => e.query = q)).length

/-- `lastSeen[q]`: starts at the zero time, replaced when `entry.Timestamp.After(lastSeen[q])` -/
def lastSeen (q : Bytes) (es : List Entry) : Int :=
  es.foldl (fun cur e => if e.query = q ∧ cur < e.ts then e.ts else cur) 0

def distinctQueries (es : List Entry) : List Bytes := dedupFirst (es.map (·.query))

/-- the frequency table (the Go code builds it in map order; here in order of first occurrence) -/
def freqTable (es : List Entry) : List QF :=
  (distinctQueries es).map (fun q => ⟨q, countOf q es, lastSeen q es⟩)

/-- the `less` of GetTopQueries' sort.Slice: by frequency, then by recency -/
def qfBefore (a b : QF) : Bool :=
  if a.count = b.count then decide (b.lastUsed < a.lastUsed) else decide (b.count < a.count)

def insertBy {α : Type} (lt : α → α → Bool) (x : α) : List α → List α
  | [] => [x]
  | y :: ys => if lt y x then y :: insertBy lt x ys else x :: y :: ys

/-- stable insertion sort (`sort.Slice` is unstable: see `TopSpec` for the schedule-independent statement) -/
def sortBy {α : Type} (lt : α → α → Bool) (xs : List α) : List α := xs.foldr (insertBy lt) []

def top (s : State) (limit : Int) : List QF :=
  (sortBy qfBefore (freqTable s.entries)).take (effLimitTop limit)

structure Stats where
  total : Nat
  unique : Nat
  sumResults : Int
  sumDuration : Int
  oldest : Int
  newest : Int
deriving DecidableEq, Repr

/-- two's-complement wrap-around of Go's 64-bit `int` / `int64` sums -/
def wrap64 (x : Int) : Int := (x + 9223372036854775808) % 18446744073709551616 - 9223372036854775808

/-- `GetStats` (the two averages are `sumResults / total` and, when `sumDuration > 0`, `sumDuration / total`;
    the sums are 64-bit machine integers) -/
def stats (s : State) : Stats :=
  match s.entries with
  | [] => ⟨0, 0, 0, 0, 0, 0⟩
  | e :: es =>
    ⟨(e :: es).length, (distinctQueries (e :: es)).length,
     wrap64 (((e :: es).map (·.results)).foldl (· + ·) 0), wrap64 (((e :: es).map (·.duration)).foldl (· + ·) 0),
     e.ts, ((e :: es).getLast?.getD e).ts⟩

def lowerByte (c : UInt8) : UInt8 := if 65 ≤ c ∧ c ≤ 90 then c + 32 else c

/-- `strings.ToLower` as far as it can influence a match against ASCII: ASCII letters, and the two
    code points whose lower case is ASCII (U+0130 -> i, U+212A -> k; DESIGN §4). -/
def lowerGo : Bytes → Bytes
  | a :: b :: c :: r =>
    if a = 0xE2 ∧ b = 0x84 ∧ c = 0xAA then 107 :: lowerGo r
    else if a = 0xC4 ∧ b = 0xB0 then 105 :: lowerGo (c :: r)
    else lowerByte a :: lowerGo (b :: c :: r)
  | [a, b] => if a = 0xC4 ∧ b = 0xB0 then [105] else [lowerByte a, lowerByte b]
  | [a] => [lowerByte a]
  | [] => []

def isInfixB (p : Bytes) : Bytes → Bool
  | [] => p.isEmpty
  | c :: cs => p.isPrefixOf (c :: cs) || isInfixB p cs

/-- `GetEntriesByPattern` -/
def byPattern (s : State) (pat : Bytes) : List Entry :=
  sortBy (fun a b => decide (b.ts < a.ts)) (s.entries.filter (fun e => isInfixB (lowerGo pat) (lowerGo e.query)))

/-! ### JSON documents and the codec contract -/

/-- A parsed JSON document as encoding/json sees it for these struct types: object members in file
    order with duplicates, keys already unquoted, string values still escaped (`Time.UnmarshalJSON`
    looks at the raw literal), number literals classified by `strconv.ParseInt(_, 10, 64)`. -/
inductive JVal where
  | null
  | bool (b : Bool)
  | int (i : Int)
  | badnum
  | str (raw : Bytes)
  | arr (xs : List JVal)
  | obj (kvs : List (Bytes × JVal))
deriving Inhabited

/-- encoding/json + time.Time text form, as a parameter.  `F` is the type of file contents. -/
structure Codec (F : Type) where
  parse : F → Option JVal          -- `none`: checkValid reports a syntax error (nothing is written)
  print : JVal → F
  isEmpty : F → Bool               -- `len(data) == 0`
  unquote : Bytes → Bytes          -- literal contents -> Go string (invalid UTF-8 becomes U+FFFD)
  quote : Bytes → Bytes
  parseTime : Bytes → Option Int   -- raw literal contents -> time key (strict RFC 3339)
  fmtTime : Int → Bytes

/-- What the theorems about save/load assume of encoding/json (exercised by the correspondence runs). -/
structure Codec.Laws {F : Type} (C : Codec F) (valid : Bytes → Prop) : Prop where
  parse_print : ∀ v, C.parse (C.print v) = some v
  print_nonempty : ∀ v, C.isEmpty (C.print v) = false
  unquote_quote : ∀ b, valid b → C.unquote (C.quote b) = b
  parseTime_fmtTime : ∀ t, C.parseTime (C.fmtTime t) = some t

def kQuery : Bytes := [113, 117, 101, 114, 121]                                         -- "query"
def kTimestamp : Bytes := [116, 105, 109, 101, 115, 116, 97, 109, 112]                  -- "timestamp"
def kResults : Bytes := [114, 101, 115, 117, 108, 116, 115, 95, 99, 111, 117, 110, 116] -- "results_count"
def kContext : Bytes := [99, 111, 110, 116, 101, 120, 116]                              -- "context"
def kDuration : Bytes := [100, 117, 114, 97, 116, 105, 111, 110]                        -- "duration"
def kEntries : Bytes := [101, 110, 116, 114, 105, 101, 115]                             -- "entries"
def kMaxSize : Bytes := [109, 97, 120, 95, 115, 105, 122, 101]                          -- "max_size"

/-- encoding/json `foldName` as far as it can hit one of the ASCII field names above: ASCII case, and the
    two non-ASCII runes that fold to ASCII letters (U+017F -> s, U+212A -> k). -/
def foldKey : Bytes → Bytes
  | a :: b :: c :: r =>
    if a = 0xE2 ∧ b = 0x84 ∧ c = 0xAA then 107 :: foldKey r
    else if a = 0xC5 ∧ b = 0xBF then 115 :: foldKey (c :: r)
    else lowerByte a :: foldKey (b :: c :: r)
  | [a, b] => if a = 0xC5 ∧ b = 0xBF then [115] else [lowerByte a, lowerByte b]
  | [a] => [lowerByte a]
  | [] => []

/-- result of decoding into a value: `err` = some error will be returned by Unmarshal;
    `abort` = it was a hard error (an Unmarshaler failed): decoding stops at once. -/
structure Dec (σ : Type) where
  st : σ
  err : Bool
  abort : Bool

/-- fold with encoding/json's error discipline: UnmarshalTypeErrors are saved and decoding goes on,
    an Unmarshaler's error stops everything -/
def foldDec {σ α : Type} (f : σ → α → Dec σ) : σ → Bool → List α → Dec σ
  | s, err, [] => ⟨s, err, false⟩
  | s, err, x :: xs =>
    let r := f s x
    if r.abort then ⟨r.st, true, true⟩ else foldDec f r.st (err || r.err) xs

section
variable {F : Type} (C : Codec F)

/-- string field: JSON string sets it, `null` leaves it, anything else is a (saved) type error -/
def storeStr (cur : Bytes) : JVal → Bytes × Bool
  | .str raw => (C.unquote raw, false)
  | .null => (cur, false)
  | _ => (cur, true)

/-- int / int64 field -/
def storeInt (cur : Int) : JVal → Int × Bool
  | .int i => (i, false)
  | .null => (cur, false)
  | _ => (cur, true)

/-- time.Time field (`Time.UnmarshalJSON`): `null` is a no-op, a string must parse, everything else and
    every parse failure is a hard error -/
def storeTime (cur : Int) : JVal → Dec Int
  | .null => ⟨cur, false, false⟩
  | .str raw =>
    match C.parseTime raw with
    | some t => ⟨t, false, false⟩
    | none => ⟨cur, true, true⟩
  | _ => ⟨cur, true, true⟩

def storeEntryField (e : Entry) (kv : Bytes × JVal) : Dec Entry :=
  let f := foldKey kv.1
  if f = kQuery then
    let r := storeStr C e.query kv.2; ⟨{ e with query := r.1 }, r.2, false⟩
  else if f = kTimestamp then
    let r := storeTime C e.ts kv.2; ⟨{ e with ts := r.st }, r.err, r.abort⟩
  else if f = kResults then
    let r := storeInt e.results kv.2; ⟨{ e with results := r.1 }, r.2, false⟩
  else if f = kContext then
    let r := storeStr C e.context kv.2; ⟨{ e with context := r.1 }, r.2, false⟩
  else if f = kDuration then
    let r := storeInt e.duration kv.2; ⟨{ e with duration := r.1 }, r.2, false⟩
  else ⟨e, false, false⟩

/-- decode one array element into the slot it lands on (the slot is NOT zeroed first) -/
def storeEntry (slot : Entry) : JVal → Dec Entry
  | .null => ⟨slot, false, false⟩
  | .obj kvs => foldDec (storeEntryField C) slot false kvs
  | _ => ⟨slot, true, false⟩

/-- the element loop of `decodeState.array`: `pool` = existing slots from index `done.length` on -/
def storeElems : List JVal → List Entry → List Entry → Bool → Dec (List Entry × List Entry)
  | [], done, pool, err => ⟨(done, pool), err, false⟩
  | v :: vs, done, pool, err =>
    let r := storeEntry C (pool.head?.getD Entry.zero) v
    if r.abort then ⟨(done ++ [r.st], pool.drop 1), true, true⟩
    else storeElems vs (done ++ [r.st]) (pool.drop 1) (err || r.err)

def storeEntries (s : DState) : JVal → Dec DState
  | .null => ⟨{ s with entries := [], spare := [] }, false, false⟩
  | .arr vs =>
    let r := storeElems C vs [] (s.entries ++ s.spare) false
    if r.abort then
      -- no truncation happened: the slice keeps max(old len, i+1) elements
      let keep := s.entries.length - r.st.1.length
      ⟨{ s with entries := r.st.1 ++ r.st.2.take keep, spare := r.st.2.drop keep }, true, true⟩
    else if r.st.1.isEmpty then ⟨{ s with entries := [], spare := [] }, r.err, false⟩   -- MakeSlice(0, 0)
    else ⟨{ s with entries := r.st.1, spare := r.st.2 }, r.err, false⟩                 -- SetLen(i)
  | _ => ⟨s, true, false⟩

def storeTopField (s : DState) (kv : Bytes × JVal) : Dec DState :=
  let f := foldKey kv.1
  if f = kEntries then storeEntries C s kv.2
  else if f = kMaxSize then
    let r := storeInt s.maxSize kv.2; ⟨{ s with maxSize := r.1 }, r.2, false⟩
  else ⟨s, false, false⟩

/-- `json.Unmarshal(data, &loaded)` after a successful syntax check: the decoded value, and whether an
    error is returned -/
def unmarshal (s : DState) : JVal → DState × Bool
  | .null => (s, false)
  | .obj kvs => let r := foldDec (storeTopField C) s false kvs; (r.st, r.err)
  | _ => (s, true)

def encEntry (e : Entry) : JVal :=
  .obj ([(kQuery, .str (C.quote e.query)), (kTimestamp, .str (C.fmtTime e.ts)), (kResults, .int e.results)]
    ++ (if e.context = [] then [] else [(kContext, .str (C.quote e.context))])
    ++ (if e.duration = 0 then [] else [(kDuration, .int e.duration)]))

/-- `json.MarshalIndent(sh, ...)` as a document -/
def encode (s : State) : JVal :=
  .obj [(kEntries, .arr (s.entries.map (encEntry C))), (kMaxSize, .int s.maxSize)]

inductive LoadErr where
  | parse
deriving DecidableEq, Repr

/-- `Load`.  `file = none`: the file does not exist.  (Read errors other than "not exist" are not modelled.) -/
def load (P : Params) (s : State) (file : Option F) : State × Option LoadErr :=
  match file with
  | none => (s, none)
  | some data =>
    if C.isEmpty data then (s, none) else
    match C.parse data with
    | none => (s, some .parse)
    | some v =>
      let r := unmarshal C DState.zero v
      if r.2 then (s, some .parse) else
      let m1 : Int := if P.loadGuard then (if 0 < r.1.maxSize then r.1.maxSize else s.maxSize) else r.1.maxSize
      let m2 : Int := match P.loadFallback with
        | some n => if m1 ≤ 0 then n else m1
        | none => m1
      ({ entries := r.1.entries, maxSize := m2 }, none)

/-- what `Save` writes (I/O failures are C09's subject, not modelled here) -/
def saveBytes (s : State) : F := C.print (encode C s)

/-- `Clear` (followed by its `Save`, see `step`) -/
def clear (s : State) : State := { s with entries := [] }

/-! ### Operation histories -/

structure Sys (F : Type) where
  h : State
  file : Option F
  clock : Int

inductive Op (F : Type) where
  | add (q : Bytes) (results : Int) (ctx : Bytes) (dur : Int) (dt : Nat)   -- the clock advances by `dt ≥ 0`
  | save
  | load
  | clear
  | restart (m : Int)         -- a new process: `NewSearchHistory(samePath, m)`; the file stays
  | setFile (f : Option F)    -- the environment replaces (or removes) the on-disk file: arbitrary content

def Op.isTool {F : Type} : Op F → Bool
  | .setFile _ => false
  | _ => true

def init (P : Params) (maxSize : Int) (t0 : Int) : Sys F := { h := new P maxSize, file := none, clock := t0 }

def step (P : Params) (y : Sys F) : Op F → Except Panic (Sys F)
  | .add q r c d dt =>
    match add y.h ⟨q, y.clock + dt, r, c, d⟩ with
    | .ok h' => .ok { y with h := h', clock := y.clock + dt }
    | .error p => .error p
  | .save => .ok { y with file := some (saveBytes C y.h) }
  | .load => .ok { y with h := (load C P y.h y.file).1 }
  | .clear => .ok { y with h := clear y.h, file := some (saveBytes C (clear y.h)) }
  | .restart m => .ok { y with h := new P m }
  | .setFile f => .ok { y with file := f }

def run (P : Params) : Sys F → List (Op F) → Except Panic (Sys F)
  | y, [] => .ok y
  | y, op :: ops =>
    match step C P y op with
    | .ok y' => run P y' ops
    | .error p => .error p

end

/-! ### The abstract log (specification) -/

abbrev Core := Bytes × Int × Int

/-- unbounded reference log: an immediately repeated query replaces the last element -/
def specAdd (log : List Core) (c : Core) : List Core :=
  match log.getLast? with
  | some l => if l.1 = c.1 then log.dropLast ++ [c] else log ++ [c]
  | none => [c]

structure Spec where
  log : List Core
  saved : Option (List Core)
  clock : Int

def specStep {F : Type} (x : Spec) : Op F → Spec
  | .add q r _ _ dt => { x with log := specAdd x.log (q, x.clock + dt, r), clock := x.clock + dt }
  | .save => { x with saved := some x.log }
  | .load => { x with log := x.saved.getD x.log }
  | .clear => { x with log := [], saved := some [] }
  | .restart _ => { x with log := [] }
  | .setFile _ => x

def specRun {F : Type} (x : Spec) (ops : List (Op F)) : Spec := ops.foldl specStep x

def lastN {α : Type} (n : Nat) (xs : List α) : List α := xs.drop (xs.length - n)

end Wtf.History
