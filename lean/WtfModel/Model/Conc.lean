/-
  Generic small-step model of concurrent access to one shared object (C11).  Core Lean only.

  * `Spec σ ι ο`: the object's *sequential* specification (`step : σ → ι → σ × ο`) together with the
    lock mode each operation takes (`mode`).  For the LRU cache `step` is `Wtf.Lru.step` and `mode`
    is read off the regenerated `Gen.LockFacts` (see Props/C11.lean).
  * A thread executes its program one operation at a time.  One operation is SIX atomic steps:
        invoke → acquire lock → load state → commit (write back + output) → release lock → respond
    The critical section is deliberately *not* atomic: `load` copies the shared state into a
    thread-local variable, `commit` writes `step local op` back.  Without mutual exclusion two
    writers lose updates (see `RacyCounter` below for exactly that effect); with the reader/writer
    lock and the discipline "an operation that takes the lock shared does not change the state" the
    commit point is a linearization point (Proofs/Conc.lean).
  * The model does NOT treat shared-mode operations specially: whatever lock an operation holds, its
    commit writes `(step local op).1` back.  "A shared holder performs a pure read" is the
    *hypothesis* `ReadersPure` of the theorems, not a built-in.
  * The scheduler is any list of thread ids; a thread that cannot move (blocked on the lock, or
    finished) stutters.
  * Invocation and response take stamps from one global clock, so a history is a list of records
    `⟨tid, op, out, inv, res⟩`; "A responded before B was invoked" is `A.res < B.inv`.  This is the
    same representation the Go stress tool records (one global atomic sequence number).
  * `trace` is a ghost variable (order of commits); nothing in the dynamics reads it.
-/
namespace Wtf.Conc

inductive Mode where
  | shared
  | excl
deriving DecidableEq, Repr

/-- Sequential specification + lock mode of every operation. -/
structure Spec (σ ι ο : Type) where
  mode : ι → Mode
  step : σ → ι → σ × ο

/-- Reader/writer lock.  Holder identities are ghost information (a real RWMutex keeps a count). -/
structure Lock where
  writer : Option Nat
  readers : List Nat
deriving DecidableEq, Repr

/-- A completed operation as a client observes it. -/
structure Rec (ι ο : Type) where
  tid : Nat
  op : ι
  out : ο
  inv : Nat
  res : Nat
deriving DecidableEq, Repr

/-- Program counter of a thread inside one operation. -/
inductive PC (σ ι ο : Type) where
  | idle
  | invoked (i : ι) (inv : Nat)
  | acquired (i : ι) (inv : Nat)
  | loaded (i : ι) (inv : Nat) (loc : σ)
  | committed (i : ι) (inv : Nat) (lin : Nat) (o : ο)
  | released (i : ι) (inv : Nat) (lin : Nat) (o : ο)
deriving Repr

structure Thread (σ ι ο : Type) where
  prog : List ι
  pc : PC σ ι ο

/-- Ghost trace entry: one per committed operation, `res` filled in when the operation returns. -/
structure TEntry (ι ο : Type) where
  tid : Nat
  op : ι
  out : ο
  inv : Nat
  lin : Nat
  res : Option Nat
deriving DecidableEq, Repr

structure Sys (σ ι ο : Type) where
  obj : σ
  lock : Lock
  clk : Nat
  threads : Nat → Thread σ ι ο
  hist : List (Rec ι ο)
  trace : List (TEntry ι ο)

variable {σ ι ο : Type}

def upd (f : Nat → Thread σ ι ο) (t : Nat) (v : Thread σ ι ο) : Nat → Thread σ ι ο :=
  fun u => if u = t then v else f u

/-- the operation a thread currently holds the lock for (between acquire and release) -/
def PC.holding : PC σ ι ο → Option ι
  | .acquired i _ => some i
  | .loaded i _ _ => some i
  | .committed i _ _ _ => some i
  | _ => none

def holdsExcl (S : Spec σ ι ο) (th : Thread σ ι ο) : Prop := ∃ i, th.pc.holding = some i ∧ S.mode i = .excl
def holdsShared (S : Spec σ ι ο) (th : Thread σ ι ο) : Prop := ∃ i, th.pc.holding = some i ∧ S.mode i = .shared
def holdsAny (th : Thread σ ι ο) : Prop := ∃ i, th.pc.holding = some i

def setRes (lin res : Nat) (e : TEntry ι ο) : TEntry ι ο :=
  if e.lin = lin then { e with res := some res } else e

def TEntry.complete? (e : TEntry ι ο) : Option (Rec ι ο) :=
  match e.res with
  | some r => some ⟨e.tid, e.op, e.out, e.inv, r⟩
  | none => none

def init (s0 : σ) (progs : List (List ι)) : Sys σ ι ο :=
  { obj := s0, lock := ⟨none, []⟩, clk := 0,
    threads := fun t => ⟨progs.getD t [], .idle⟩, hist := [], trace := [] }

/-- One scheduler step of thread `t`. -/
def tstep (S : Spec σ ι ο) (s : Sys σ ι ο) (t : Nat) : Sys σ ι ο :=
  let th := s.threads t
  match th.pc with
  | .idle =>
    match th.prog with
    | [] => s
    | i :: rest => { s with clk := s.clk + 1, threads := upd s.threads t ⟨rest, .invoked i s.clk⟩ }
  | .invoked i inv =>
    match S.mode i with
    | .excl =>
      if s.lock.writer = none ∧ s.lock.readers = [] then
        { s with lock := ⟨some t, []⟩, threads := upd s.threads t ⟨th.prog, .acquired i inv⟩ }
      else s
    | .shared =>
      if s.lock.writer = none then
        { s with lock := ⟨none, t :: s.lock.readers⟩, threads := upd s.threads t ⟨th.prog, .acquired i inv⟩ }
      else s
  | .acquired i inv => { s with threads := upd s.threads t ⟨th.prog, .loaded i inv s.obj⟩ }
  | .loaded i inv loc =>
    let r := S.step loc i
    { s with obj := r.1, clk := s.clk + 1,
             threads := upd s.threads t ⟨th.prog, .committed i inv s.clk r.2⟩,
             trace := s.trace ++ [⟨t, i, r.2, inv, s.clk, none⟩] }
  | .committed i inv lin o =>
    let lk : Lock := match S.mode i with
      | .excl => ⟨none, s.lock.readers⟩
      | .shared => ⟨s.lock.writer, s.lock.readers.filter (fun u => u != t)⟩
    { s with lock := lk, threads := upd s.threads t ⟨th.prog, .released i inv lin o⟩ }
  | .released i inv lin o =>
    { s with clk := s.clk + 1, hist := s.hist ++ [⟨t, i, o, inv, s.clk⟩],
             trace := s.trace.map (setRes lin s.clk),
             threads := upd s.threads t ⟨th.prog, .idle⟩ }

/-- Run a schedule. -/
def exec (S : Spec σ ι ο) (s : Sys σ ι ο) : List Nat → Sys σ ι ο
  | [] => s
  | t :: ts => exec S (tstep S s t) ts

/-- no operation is pending: every invocation has returned (the history is complete) -/
def Quiescent (s : Sys σ ι ο) : Prop := ∀ t, (s.threads t).pc = .idle

/-- every thread has finished its whole program -/
def Finished (s : Sys σ ι ο) : Prop := ∀ t, (s.threads t).pc = .idle ∧ (s.threads t).prog = []

/-- Sequential run of the specification. -/
def runSeq (step : σ → ι → σ × ο) (s : σ) : List ι → σ × List ο
  | [] => (s, [])
  | i :: is =>
    let r := step s i
    let r' := runSeq step r.1 is
    (r'.1, r.2 :: r'.2)

/-- `w` is a linearization of history `h`: the same operations, never ordered against real time
    (an operation is not placed before one that had already returned when it was invoked), and a
    legal sequential run of `step` from `s0` with exactly the observed outputs. -/
structure IsLinearization (step : σ → ι → σ × ο) (s0 : σ) (h w : List (Rec ι ο)) : Prop where
  perm : w.Perm h
  realtime : w.Pairwise (fun a b => ¬ b.res < a.inv)
  legal : (runSeq step s0 (w.map (·.op))).2 = w.map (·.out)

def Linearizable (step : σ → ι → σ × ο) (s0 : σ) (h : List (Rec ι ο)) : Prop :=
  ∃ w, IsLinearization step s0 h w

/-! ### Executable linearizability checker (used by the driver domain `linearize`) -/

/-- all ways of taking one element out of a list -/
def pickEach {α : Type} : List α → List (α × List α)
  | [] => []
  | a :: as => (a, as) :: (pickEach as).map (fun p => (p.1, a :: p.2))

/-- Depth-first search for a linearization of `rem` from state `s`: choose a next operation that no
    remaining operation precedes in real time, whose output under `step` is the observed one. -/
def search [DecidableEq ο] (step : σ → ι → σ × ο) : Nat → σ → List (Rec ι ο) → Bool
  | 0, _, rem => rem.isEmpty
  | fuel + 1, s, rem =>
    rem.isEmpty ||
      (pickEach rem).any (fun p =>
        p.2.all (fun r' => !decide (r'.res < p.1.inv)) &&
          (let q := step s p.1.op
           decide (q.2 = p.1.out) && search step fuel q.1 p.2))

def linearizable? [DecidableEq ο] (step : σ → ι → σ × ο) (s0 : σ) (h : List (Rec ι ο)) : Bool :=
  search step h.length s0 h

/-! ### Counters -/

/-- Atomic counter: every `Add d` is ONE step (sync/atomic).  `progs[t]` = deltas thread `t` still has to add. -/
structure AtomicCounter where
  val : Int
  progs : List (List Int)
deriving DecidableEq, Repr

def AtomicCounter.step (c : AtomicCounter) (t : Nat) : AtomicCounter :=
  match c.progs[t]? with
  | some (d :: rest) => { val := c.val + d, progs := c.progs.set t rest }
  | _ => c

def AtomicCounter.exec (c : AtomicCounter) : List Nat → AtomicCounter
  | [] => c
  | t :: ts => AtomicCounter.exec (c.step t) ts

def AtomicCounter.done (c : AtomicCounter) : Prop := ∀ p ∈ c.progs, p = []

instance (c : AtomicCounter) : Decidable c.done := by unfold AtomicCounter.done; infer_instance

/-- For contrast: `c.value++` without atomics is a load and a store, two steps. -/
structure RacyThread where
  prog : List Int
  tmp : Option Int      -- some v: the value loaded, store pending
deriving DecidableEq, Repr

structure RacyCounter where
  val : Int
  threads : List RacyThread
deriving DecidableEq, Repr

def RacyCounter.step (c : RacyCounter) (t : Nat) : RacyCounter :=
  match c.threads[t]? with
  | some ⟨d :: rest, none⟩ => { c with threads := c.threads.set t ⟨d :: rest, some c.val⟩ }      -- load
  | some ⟨d :: rest, some v⟩ => { val := v + d, threads := c.threads.set t ⟨rest, none⟩ }        -- store
  | _ => c

def RacyCounter.exec (c : RacyCounter) : List Nat → RacyCounter
  | [] => c
  | t :: ts => RacyCounter.exec (c.step t) ts

def RacyCounter.done (c : RacyCounter) : Prop := ∀ th ∈ c.threads, th.prog = [] ∧ th.tmp = none

instance (c : RacyCounter) : Decidable c.done := by unfold RacyCounter.done; infer_instance

/-! ### Lock-free readers of immutable state (direct searches on a loaded database)

  A search thread takes no lock.  It reads the database in `k` separate steps (one per "chunk": index,
  TF-IDF table, command list, …), other threads run in between.  Which steps of *other* operations
  may write the database is a parameter `wr : ω → δ → δ` (ω = the other operations); the regenerated
  fact says the operations C11 quantifies over write nothing on a loaded database, i.e. `wr = id`. -/

structure RState (δ α : Type) where
  db : δ
  /-- per reader thread: chunks read so far, newest first -/
  got : Nat → List α

/-- A schedule item: reader `t` reads its next chunk, or some other operation `w` runs. -/
inductive RAct (ω : Type) where
  | read (t : Nat)
  | other (w : ω)

def rstep {δ α ω : Type} (chunk : δ → Nat → α) (wr : ω → δ → δ) (s : RState δ α) : RAct ω → RState δ α
  | .read t => { s with got := fun u => if u = t then chunk s.db (s.got t).length :: s.got t else s.got u }
  | .other w => { s with db := wr w s.db }

def rexec {δ α ω : Type} (chunk : δ → Nat → α) (wr : ω → δ → δ) (s : RState δ α) : List (RAct ω) → RState δ α
  | [] => s
  | a :: as => rexec chunk wr (rstep chunk wr s a) as

/-- number of read steps of reader `t` in a schedule -/
def countReads {ω : Type} (t : Nat) : List (RAct ω) → Nat
  | [] => 0
  | .read u :: as => (if u = t then 1 else 0) + countReads t as
  | .other _ :: as => countReads t as

/-- what a reader has when it runs alone on `db`: chunks `0 … n-1`, newest first -/
def readAlone {δ α : Type} (chunk : δ → Nat → α) (db : δ) : Nat → List α
  | 0 => []
  | n + 1 => chunk db n :: readAlone chunk db n

end Wtf.Conc
