import WtfModel.Model.Cli
import WtfModel.Model.KeyJson
/-
  JSON texts (RFC 8259) as the CLI prints them with `--format json` (property C17).  Core Lean only.

  Two things live here.

  (1) A RECOGNISER / PARSER for JSON texts over bytes, `parseValue : Bytes → Option (JVal × Bytes)` (value, input left
      over) and `parseText` (the whole input is one value surrounded by white space).  Grammar of RFC 8259:

        ws       the bytes 20 09 0A 0D, allowed before and after every structural byte and value
        value    string | number | object | array | `true` | `false` | `null`
        array    `[` ws `]`  |  `[` value (`,` value)* `]`
        object   `{` ws `}`  |  `{` member (`,` member)* `}`,  member = ws string ws `:` value
        string   `"` … `"`: every byte below 0x20 is rejected, so are `\` followed by anything but one of
                 `"` `\` `/` `b` `f` `n` `r` `t` `u`+4 hex digits (either case), and every byte sequence that
                 utf8.DecodeRune does not accept at full width (RFC 8259 §8.1: JSON text is UTF-8).
                 The value of a string is its content DECODED, as UTF-8 bytes.
        number   `-`? (`0` | [1-9][0-9]*) (`.` [0-9]+)? ([eE] [+-]? [0-9]+)?   -- the longest run of bytes of the
                 number alphabet is taken and judged by a nine-state automaton (`isNumTok`); in a JSON text a number is
                 followed by white space, `,`, `]`, `}` or the end, none of which is in the alphabet, so taking the longest
                 run accepts the same texts as the grammar.  The value of a number is its token (no float is computed).

      The recogniser is STRICTER than the RFC in one respect: an escape `\uD800`..`\uDFFF` (a UTF-16 surrogate, paired or
      not) is rejected.  Every text it accepts is therefore RFC 8259 JSON (and I-JSON, RFC 7493, as to strings); the
      converse is not claimed.  encoding/json never writes such an escape (runes outside the BMP are copied as UTF-8).
      Totality: `parseV` recurses on a nesting budget, the element / member loops on a byte budget; `parseValue` hands out
      `length + 1` of each, which no input can exhaust (a nesting level and a loop round each consume a byte).

  (2) The STRING ENCODER the CLI's `json.NewEncoder(os.Stdout)` applies (internal/cli/search.go: the encoder is used with its
      defaults, i.e. EscapeHTML on, plus SetIndent): `jsonStrModel` is `KeyJson.goString`, the model of encoding/json's
      `appendString(…, escapeHTML = true)` already validated byte for byte for the cache key (C05): UTF-8 coercion (each
      byte utf8.DecodeRune rejects becomes U+FFFD, written `\ufffd`), `\"` `\\` `\b` `\f` `\n` `\r` `\t`, `\u00XY` for the
      other controls and for `<` `>` `&`, `\u2028` / `\u2029`, everything else copied.  SetIndent re-indents the compact
      text without touching string contents (`Cli.encodeItems` has the layout).

  `toValid` is what a reader gets back from such a string: the original bytes with every invalid byte replaced by the
  three bytes of U+FFFD.  `expectedJson` is the value the printed block must parse to.
-/
namespace Wtf.JsonText
open Wtf Wtf.Cli

inductive JVal where
  | null
  | bool (b : Bool)
  | num (tok : Bytes)
  | str (s : Bytes)
  | arr (elems : List JVal)
  | obj (members : List (Bytes × JVal))
deriving Repr, Inhabited

/-! ### white space -/

def isWs (c : UInt8) : Bool :=
  let n := c.toNat
  n == 0x20 || n == 0x09 || n == 0x0A || n == 0x0D

def skipWs : Bytes → Bytes
  | [] => []
  | c :: r => if isWs c then skipWs r else c :: r

/-! ### strings -/

def hexVal (c : UInt8) : Option Nat :=
  let n := c.toNat
  if 0x30 ≤ n ∧ n ≤ 0x39 then some (n - 0x30)
  else if 0x61 ≤ n ∧ n ≤ 0x66 then some (n - 0x57)
  else if 0x41 ≤ n ∧ n ≤ 0x46 then some (n - 0x37)
  else none

/-- the byte a two-character escape stands for -/
def unescape (e : UInt8) : Option UInt8 :=
  let n := e.toNat
  if n = 0x22 then some 0x22 else if n = 0x5C then some 0x5C else if n = 0x2F then some 0x2F
  else if n = 0x62 then some 0x08 else if n = 0x66 then some 0x0C else if n = 0x6E then some 0x0A
  else if n = 0x72 then some 0x0D else if n = 0x74 then some 0x09 else none

def hex4 (h1 h2 h3 h4 : UInt8) : Option Nat :=
  match hexVal h1, hexVal h2, hexVal h3, hexVal h4 with
  | some a, some b, some c, some d => some (((a * 16 + b) * 16 + c) * 16 + d)
  | _, _, _, _ => none

/-- the body of a string, after the opening quote: (decoded content, input after the closing quote).
    `k` = bytes still to copy of the multi-byte UTF-8 sequence being copied. -/
def parseStrAux : Nat → Bytes → Option (Bytes × Bytes)
  | _, [] => none
  | k + 1, b :: rest => (parseStrAux k rest).map (fun p => (b :: p.1, p.2))
  | 0, b :: rest =>
    if b.toNat = 0x22 then some ([], rest)
    else if b.toNat = 0x5C then
      match rest with
      | [] => none
      | e :: r1 =>
        if e.toNat = 0x75 then
          match r1 with
          | h1 :: h2 :: h3 :: h4 :: r2 =>
            match hex4 h1 h2 h3 h4 with
            | some code =>
              if 0xD800 ≤ code ∧ code ≤ 0xDFFF then none
              else (parseStrAux 0 r2).map (fun p => (Utf8.encodeRune code ++ p.1, p.2))
            | none => none
          | _ => none
        else
          match unescape e with
          | some c => (parseStrAux 0 r1).map (fun p => (c :: p.1, p.2))
          | none => none
    else if b.toNat < 0x20 then none
    else if b.toNat < 0x80 then (parseStrAux 0 rest).map (fun p => (b :: p.1, p.2))
    else
      let d := Utf8.decodeRune (b :: rest)
      if d.2 ≤ 1 then none else (parseStrAux (d.2 - 1) rest).map (fun p => (b :: p.1, p.2))

/-! ### numbers -/

inductive NumSt where
  | start | minus | zero | int | dot | frac | e | esign | exp | bad
deriving DecidableEq, Repr

def numStep (s : NumSt) (c : UInt8) : NumSt :=
  let n := c.toNat
  let digit := 0x30 ≤ n ∧ n ≤ 0x39
  match s with
  | .start => if n = 0x2D then .minus else if n = 0x30 then .zero else if digit then .int else .bad
  | .minus => if n = 0x30 then .zero else if digit then .int else .bad
  | .zero => if n = 0x2E then .dot else if n = 0x65 ∨ n = 0x45 then .e else .bad
  | .int => if digit then .int else if n = 0x2E then .dot else if n = 0x65 ∨ n = 0x45 then .e else .bad
  | .dot => if digit then .frac else .bad
  | .frac => if digit then .frac else if n = 0x65 ∨ n = 0x45 then .e else .bad
  | .e => if n = 0x2B ∨ n = 0x2D then .esign else if digit then .exp else .bad
  | .esign => if digit then .exp else .bad
  | .exp => if digit then .exp else .bad
  | .bad => .bad

def numAccept : NumSt → Bool
  | .zero | .int | .frac | .exp => true
  | _ => false

/-- `t` is a number token of RFC 8259 §6 -/
def isNumTok (t : Bytes) : Bool := t.all KeyJson.numChar && numAccept (t.foldl numStep .start)

/-- the longest prefix over the number alphabet -/
def spanNum : Bytes → Bytes × Bytes
  | [] => ([], [])
  | c :: r => if KeyJson.numChar c then ((spanNum r).1.cons c, (spanNum r).2) else ([], c :: r)

def parseNum (inp : Bytes) : Option (JVal × Bytes) :=
  let p := spanNum inp
  if isNumTok p.1 then some (.num p.1, p.2) else none

/-! ### values -/

def dropPrefix : Bytes → Bytes → Option Bytes
  | [], inp => some inp
  | _ :: _, [] => none
  | a :: as, b :: bs => if a = b then dropPrefix as bs else none

/-- `value (, value)* ]` -/
def parseElemsWith (pv : Bytes → Option (JVal × Bytes)) : Nat → Bytes → Option (List JVal × Bytes)
  | 0, _ => none
  | n + 1, inp =>
    match pv inp with
    | none => none
    | some (v, r) =>
      match skipWs r with
      | [] => none
      | c :: r' =>
        if c.toNat = 0x2C then (parseElemsWith pv n r').map (fun p => (v :: p.1, p.2))
        else if c.toNat = 0x5D then some ([v], r')
        else none

/-- `member (, member)* }` -/
def parseMembersWith (pv : Bytes → Option (JVal × Bytes)) : Nat → Bytes → Option (List (Bytes × JVal) × Bytes)
  | 0, _ => none
  | n + 1, inp =>
    match skipWs inp with
    | [] => none
    | q :: r0 =>
      if q.toNat = 0x22 then
        match parseStrAux 0 r0 with
        | none => none
        | some (k, r1) =>
          match skipWs r1 with
          | [] => none
          | c1 :: r2 =>
            if c1.toNat = 0x3A then
              match pv r2 with
              | none => none
              | some (v, r3) =>
                match skipWs r3 with
                | [] => none
                | c2 :: r4 =>
                  if c2.toNat = 0x2C then (parseMembersWith pv n r4).map (fun p => ((k, v) :: p.1, p.2))
                  else if c2.toNat = 0x7D then some ([(k, v)], r4)
                  else none
            else none
      else none

/-- one value, leading white space skipped; the first argument bounds the nesting depth -/
def parseV : Nat → Bytes → Option (JVal × Bytes)
  | 0, _ => none
  | d + 1, inp =>
    match skipWs inp with
    | [] => none
    | c :: r =>
      if c.toNat = 0x22 then (parseStrAux 0 r).map (fun p => (.str p.1, p.2))
      else if c.toNat = 0x5B then
        match skipWs r with
        | [] => none
        | c' :: r' =>
          if c'.toNat = 0x5D then some (.arr [], r')
          else (parseElemsWith (parseV d) (r'.length + 1) (c' :: r')).map (fun p => (.arr p.1, p.2))
      else if c.toNat = 0x7B then
        match skipWs r with
        | [] => none
        | c' :: r' =>
          if c'.toNat = 0x7D then some (.obj [], r')
          else (parseMembersWith (parseV d) (r'.length + 1) (c' :: r')).map (fun p => (.obj p.1, p.2))
      else if c.toNat = 0x74 then (dropPrefix [0x72, 0x75, 0x65] r).map (fun r' => (.bool true, r'))
      else if c.toNat = 0x66 then (dropPrefix [0x61, 0x6C, 0x73, 0x65] r).map (fun r' => (.bool false, r'))
      else if c.toNat = 0x6E then (dropPrefix [0x75, 0x6C, 0x6C] r).map (fun r' => (.null, r'))
      else parseNum (c :: r)

/-- one JSON value at the head of the input: (value, what follows it) -/
def parseValue (inp : Bytes) : Option (JVal × Bytes) := parseV (inp.length + 1) inp

/-- the input is one JSON text: `ws value ws` -/
def parseText (inp : Bytes) : Option JVal :=
  match parseValue inp with
  | some (v, r) => if (skipWs r).isEmpty then some v else none
  | none => none

/-! ### the encoder's side -/

/-- encoding/json's string encoder with EscapeHTML on (the `json.NewEncoder` default) -/
def jsonStrModel (s : Bytes) : Bytes := KeyJson.goString s

/-- the text a reader gets back: every byte utf8.DecodeRune rejects replaced by U+FFFD (EF BF BD), the rest unchanged -/
def toValidAux : Nat → Bytes → Bytes
  | _, [] => []
  | k + 1, b :: rest => b :: toValidAux k rest
  | 0, b :: rest =>
    let d := Utf8.decodeRune (b :: rest)
    if d.1 == Utf8.runeError && d.2 == 1 then 0xEF :: 0xBF :: 0xBD :: toValidAux 0 rest
    else b :: toValidAux (d.2 - 1) rest

def toValid (s : Bytes) : Bytes := toValidAux 0 s

variable {S : Type} [ScoreOps S]

/-- What is assumed of encoding/json's float encoder (strconv.AppendFloat with the exponent clean-up; not modelled):
    what it writes is a number token.  (For NaN / ±Inf `Encode` returns an error and writes nothing; the scores the engine
    hands the CLI are finite.  Checked on every generated run: the oracle rendering of every score goes through `isNumTok`
    in the driver.) -/
def NumOK (F : Fmt S) : Prop := ∀ s, isNumTok (F.jsonNum s) = true

/-- the JSON value a rendered field must read back as -/
def jvalOf (F : Fmt S) : Val S → JVal
  | .bytes b => .str (toValid b)
  | .strs l => .arr (l.map (fun b => .str (toValid b)))
  | .score s => .num (F.jsonNum s)
  | .int n => .num (intDec n)
  | .bool b => .bool b
  | _ => .null

/-- one object: member names as written, values read back -/
def jobjOf (F : Fmt S) (fs : List (String × Val S)) : JVal := .obj (fs.map (fun kv => (bs kv.1, jvalOf F kv.2)))

/-- the value the result block of `--format json` must parse to -/
def expectedJson (F : Fmt S) (items : List (Item S)) : JVal :=
  .arr (items.map (fun it => jobjOf F (objFields Gen.Cli.jsonFields it)))

/-- a member name the encoder writes as it is, and a reader reads as it is: printable ASCII without `"` `\` `<` `>` `&` -/
def nameOK (n : String) : Bool :=
  (bs n).all (fun c => 0x20 ≤ c.toNat && c.toNat < 0x7F && c.toNat != 0x22 && c.toNat != 0x5C &&
    c.toNat != 0x3C && c.toNat != 0x3E && c.toNat != 0x26)

/-- the layout bytes of SetIndent are white space -/
def indentOK : Bool := Gen.Cli.jsonPrefix.all isWs && Gen.Cli.jsonIndent.all isWs

/-! ### equality of values (for examples and the driver) -/

mutual
def JVal.beq : JVal → JVal → Bool
  | .null, .null => true
  | .bool a, .bool b => a == b
  | .num a, .num b => a == b
  | .str a, .str b => a == b
  | .arr a, .arr b => JVal.beqList a b
  | .obj a, .obj b => JVal.beqMembers a b
  | _, _ => false
def JVal.beqList : List JVal → List JVal → Bool
  | [], [] => true
  | a :: as, b :: bs => JVal.beq a b && JVal.beqList as bs
  | _, _ => false
def JVal.beqMembers : List (Bytes × JVal) → List (Bytes × JVal) → Bool
  | [], [] => true
  | (k, a) :: as, (k', b) :: bs => k == k' && JVal.beq a b && JVal.beqMembers as bs
  | _, _ => false
end

end Wtf.JsonText
