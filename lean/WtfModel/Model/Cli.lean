import WtfModel.Model.Search
import WtfModel.Model.History
import WtfModel.Model.Validate
import WtfModel.Gen.Cli
import WtfModel.Gen.Flags
/-
  Model of the search command of the CLI (internal/cli/search.go, `searchCmd.Run`, also run by the root
  command) as it is at /repo HEAD.  Core Lean only.

  `cliSearch flags world` is the DECISION PIPELINE of the handler as a function of what the rest of the program
  hands it (`World`): the result of `validation.ValidateQuery`, whether `LoadDatabaseWithFallback` produced a
  database, the engine (`db.SearchUniversal(query, ·)`) as a function of the option record, the answer of
  `RecoverFromSearchFailure`, the platform gate `database.FilterResults` applies, the project context, the
  history as loaded, NO_COLOR, and the text of the database entries.

      validate query ─error→ message, stop                          (nothing recorded)
      validate limit ─error→ message, stop                          (nothing recorded)     0 ⇒ default, <0 / >max ⇒ error
      load with recovery ─error→ message, stop                      (nothing recorded)
      engine search with the CLI's fixed options (`cliOpts`: Limit = limit in force, the constant fields of the
          `database.SearchOptions{…}` literal regenerated in `Gen.Cli`, the platform flags, the context boosts)
      if empty: recovery search → FilterResults (platform gate) → truncate to the limit → taken if non-empty
      history: exactly one AddEntry(validated query, number of results, context, duration)
      if still empty: suggestions text, stop
      stable re-sort by score, descending
      render: list / table / json  (format flag compared lower-cased; anything else is `list`)

  RENDERING.  The three rendering branches are not transcribed by hand: the translator turns their statements into
  `Gen.Cli.listSteps / tableSteps / jsonSteps` (print / assign / emit, with guards and loop membership, over a small
  expression language) and this module gives those steps their meaning (`eval`, `sprintf`, `runSteps`).  What a
  step sequence prints is therefore a function of the *source as it is now*; the bytes are compared with the real
  binary's stdout on every generated run (lib/props/c17.py).  Outside the model, as parameters with stated
  contracts: strconv's `%.Nf` (`fmtFloat`), encoding/json's string and number encoders (`jsonStr`, `jsonNum`).
  A value the interpreter cannot give a meaning to is `Val.bad` and prints as `%!BAD` (Go would print a `%!verb(...)`
  diagnostic or panic on a slice out of range); `Wtf.C17.spec_recognised` shows the regenerated steps contain no
  unknown expression, and the byte comparison with the binary shows `bad` is not reached.
-/
namespace Wtf.Cli
open Wtf.Gen.Cli (Expr Step JsonField)
open ScoreOps

variable {S : Type} [ScoreOps S]

def bs (s : String) : Bytes := s.toList.flatMap (fun c => Utf8.encodeRune c.toNat)

def ESC : UInt8 := 0x1b

/-! ## values, expressions -/

inductive Val (S : Type) where
  | bytes (b : Bytes)
  | int (n : Int)
  | score (s : S)
  | strs (l : List Bytes)
  | bool (b : Bool)
  | sliceLen (len : Nat)      -- a slice only its length is asked of (`results`)
  | bad

/-- the text of one database entry, as printed -/
structure Doc where
  command : Bytes := []
  description : Bytes := []
  niche : Bytes := []
  keywords : List Bytes := []
  platform : List Bytes := []
deriving Repr, DecidableEq

def lookup {α : Type} (k : String) : List (String × α) → Option α
  | [] => none
  | (k', v) :: rest => if k' == k then some v else lookup k rest

def setKey {α : Type} (k : String) (v : α) : List (String × α) → List (String × α)
  | [] => [(k, v)]
  | (k', v') :: rest => if k' == k then (k, v) :: rest else (k', v') :: setKey k v rest

/-- third-party formatters (contracts, DESIGN §4): strconv `%.Nf`, encoding/json string / float encoders -/
structure Fmt (S : Type) where
  fmtFloat : Nat → S → Bytes
  jsonStr : Bytes → Bytes
  jsonNum : S → Bytes

structure REnv (S : Type) where
  colors : List (String × Bytes)      -- the colour variables as they are after `color(...)`
  verbose : Bool
  count : Nat                         -- len(results)
  F : Fmt S
  locals : List (String × Val S) := []
  idx : Nat := 0                      -- loop key
  doc : Doc := {}                     -- r.Command
  score : S                           -- r.Score

/-- zero value of a JSON item field, by its Go type -/
def zeroOf (S : Type) [ScoreOps S] (goType : String) : Val S :=
  if goType == "string" then .bytes []
  else if goType == "[]string" then .strs []
  else if goType == "float64" then .score zero
  else if goType == "int" then .int 0
  else if goType == "bool" then .bool false
  else .bad

def selVal (env : REnv S) (p : String) : Val S :=
  if p == "r.Command.Command" then .bytes env.doc.command
  else if p == "r.Command.Description" then .bytes env.doc.description
  else if p == "r.Command.Niche" then .bytes env.doc.niche
  else if p == "r.Command.Keywords" then .strs env.doc.keywords
  else if p == "r.Command.Platform" then .strs env.doc.platform
  else if p == "r.Score" then .score env.score
  else if p == "flags.verbose" then .bool env.verbose
  else match lookup p env.locals with
    | some v => v
    | none =>
      -- a field of the JSON item that has not been assigned yet: its zero value
      match Gen.Cli.jsonFields.find? (fun f => f.itKey == p) with
      | some f => zeroOf S f.goType
      | none => .bad

def varVal (env : REnv S) (n : String) : Val S :=
  match lookup n env.locals with
  | some v => v
  | none =>
    match lookup n env.colors with
    | some c => .bytes c
    | none => if n == "i" then .int env.idx else if n == "results" then .sliceLen env.count else .bad

def joinBytes (sep : Bytes) : List Bytes → Bytes
  | [] => []
  | [x] => x
  | x :: rest => x ++ sep ++ joinBytes sep rest

/-! ### decimal integers (`%d`) -/
def natDecAux : Nat → Nat → Bytes → Bytes
  | 0, _, acc => acc
  | fuel + 1, n, acc =>
    let acc' := UInt8.ofNat (48 + n % 10) :: acc
    if n < 10 then acc' else natDecAux fuel (n / 10) acc'

def natDec (n : Nat) : Bytes := natDecAux (n + 1) n []

def intDec (n : Int) : Bytes := if n < 0 then 0x2d :: natDec n.natAbs else natDec n.natAbs

/-! ### fmt.Printf / fmt.Sprintf for the verbs the rendering block uses -/
structure Verb where
  minus : Bool := false
  width : Nat := 0
  prec : Option Nat := none
  verb : UInt8 := 0
deriving Repr, DecidableEq

inductive FPiece where
  | lit (b : Bytes)
  | verb (v : Verb)
deriving Repr, DecidableEq

structure PState where
  out : List FPiece := []         -- reversed
  lit : Bytes := []               -- reversed
  cur : Option Verb := none       -- inside a directive
  dot : Bool := false

def isDigit (c : UInt8) : Bool := 0x30 ≤ c && c ≤ 0x39

def flushLit (st : PState) : List FPiece := if st.lit.isEmpty then st.out else .lit st.lit.reverse :: st.out

def parseStep (st : PState) (c : UInt8) : PState :=
  match st.cur with
  | none => if c == 0x25 then { st with cur := some {}, dot := false } else { st with lit := c :: st.lit }
  | some v =>
    if c == 0x25 && v == {} && !st.dot then { st with lit := c :: st.lit, cur := none }   -- "%%"
    else if c == 0x2d && v.width == 0 && !st.dot then { st with cur := some { v with minus := true } }
    else if isDigit c then
      let d := (c - 0x30).toNat
      if st.dot then { st with cur := some { v with prec := some (v.prec.getD 0 * 10 + d) } }
      else { st with cur := some { v with width := v.width * 10 + d } }
    else if c == 0x2e && !st.dot then { st with cur := some { v with prec := some 0 }, dot := true }
    else { out := .verb { v with verb := c } :: flushLit st, lit := [], cur := none, dot := false }

def parseFmt (f : Bytes) : List FPiece :=
  let st := f.foldl parseStep {}
  -- a dangling "%..." at the end is a directive without a verb (Go prints %!(NOVERB))
  let st := match st.cur with
    | some v => { out := .verb { v with verb := 0 } :: flushLit st, lit := [], cur := none, dot := false }
    | none => st
  (flushLit st).reverse

def badText : Bytes := [0x25, 0x21, 0x42, 0x41, 0x44]    -- "%!BAD"

def runeCount (b : Bytes) : Nat := (Utf8.runes b).length

def pad (v : Verb) (b : Bytes) : Bytes :=
  let fill := List.replicate (v.width - runeCount b) (0x20 : UInt8)
  if v.minus then b ++ fill else fill ++ b

def fmtOne (F : Fmt S) (v : Verb) : Val S → Bytes
  | .bytes b => if v.verb == 0x73 && v.prec.isNone then pad v b else badText                  -- %s
  | .int n => if v.verb == 0x64 && v.prec.isNone then pad v (intDec n) else badText           -- %d
  | .score s => if v.verb == 0x66 then pad v (F.fmtFloat (v.prec.getD 6) s) else badText       -- %f
  | _ => badText

def sprintfPieces (F : Fmt S) : List FPiece → List (Val S) → List Bytes
  | [], [] => []
  | [], _ :: _ => [badText]                              -- %!(EXTRA ...)
  | .lit b :: ps, args => b :: sprintfPieces F ps args
  | .verb _ :: ps, [] => badText :: sprintfPieces F ps []   -- %!v(MISSING)
  | .verb v :: ps, a :: args => fmtOne F v a :: sprintfPieces F ps args

def sprintf (F : Fmt S) (f : Bytes) (args : List (Val S)) : Bytes := (sprintfPieces F (parseFmt f) args).flatten

def eval (env : REnv S) : Expr → Val S
  | .lit b => .bytes b
  | .var n => varVal env n
  | .sel p => selVal env p
  | .int n => .int n
  | .nil => .strs []
  | .len e =>
    match eval env e with
    | .bytes b => .int b.length
    | .strs l => .int l.length
    | .sliceLen n => .int n
    | _ => .bad
  | .add a b =>
    match eval env a, eval env b with
    | .int x, .int y => .int (x + y)
    | .bytes x, .bytes y => .bytes (x ++ y)
    | _, _ => .bad
  | .pfx e hi =>
    match eval env e with
    | .bytes b => if hi ≤ b.length then .bytes (b.take hi) else .bad     -- Go: slice bounds out of range
    | _ => .bad
  | .join e sep =>
    match eval env e with
    | .strs l => .bytes (joinBytes sep l)
    | _ => .bad
  | .sprintf f e => .bytes (sprintf env.F f [eval env e])
  | .appendAll a b =>
    match eval env a, eval env b with
    | .strs x, .strs y => .strs (x ++ y)
    | _, _ => .bad
  | .gt a b =>
    match eval env a, eval env b with
    | .int x, .int y => .bool (decide (x > y))
    | _, _ => .bad
  | .ne a b =>
    match eval env a, eval env b with
    | .bytes x, .bytes y => .bool (x != y)
    | _, _ => .bad
  | .not a =>
    match eval env a with
    | .bool x => .bool (!x)
    | _ => .bad
  | .and a b =>
    match eval env a with
    | .bool false => .bool false          -- short circuit
    | .bool true => (match eval env b with | .bool y => .bool y | _ => .bad)
    | _ => .bad
  | .unknown _ => .bad

def holds (env : REnv S) (g : Expr) : Bool := match eval env g with | .bool true => true | _ => false

def guardsHold (env : REnv S) (gs : List Expr) : Bool := gs.all (holds env)

/-! ## running steps -/

/-- one JSON item: the variables in scope when it is appended (its fields are the `it.X` among them) -/
abbrev Item (S : Type) := List (String × Val S)

structure RState (S : Type) where
  out : List Bytes := []            -- chunks printed so far
  locals : List (String × Val S) := []
  items : List (Item S) := []

def runStep (env : REnv S) (st : RState S) : Step → RState S
  | .print _ gs f args =>
    let e := { env with locals := st.locals }
    if guardsHold e gs then { st with out := st.out ++ [sprintf env.F f (args.map (eval e))] } else st
  | .assign _ gs t v =>
    let e := { env with locals := st.locals }
    if guardsHold e gs then { st with locals := setKey t (eval e v) st.locals } else st
  | .emit _ gs =>
    let e := { env with locals := st.locals }
    if guardsHold e gs then { st with items := st.items ++ [st.locals] } else st

def runSteps (env : REnv S) (st : RState S) (steps : List Step) : RState S := steps.foldl (runStep env) st

def stepInLoop : Step → Bool
  | .print l _ _ _ => l
  | .assign l _ _ _ => l
  | .emit l _ => l

def preSteps (steps : List Step) : List Step := steps.takeWhile (fun s => !stepInLoop s)
def loopSteps (steps : List Step) : List Step := (steps.dropWhile (fun s => !stepInLoop s)).takeWhile stepInLoop
def postSteps (steps : List Step) : List Step := (steps.dropWhile (fun s => !stepInLoop s)).dropWhile stepInLoop

/-- one iteration of `for i, r := range results` (variables declared in the body are fresh each time) -/
def runIter (env : REnv S) (locals : List (String × Val S)) (steps : List Step) (docs : Nat → Doc) (i : Nat) (r : Nat × S) : RState S :=
  runSteps { env with idx := i, doc := docs r.1, score := r.2 } { locals := locals } (loopSteps steps)

def iterate (env : REnv S) (locals : List (String × Val S)) (steps : List Step) (docs : Nat → Doc) : Nat → List (Nat × S) → List (RState S)
  | _, [] => []
  | i, r :: rs => runIter env locals steps docs i r :: iterate env locals steps docs (i + 1) rs

structure Rendered (S : Type) where
  chunks : List Bytes
  items : List (Item S)

def render (env : REnv S) (steps : List Step) (docs : Nat → Doc) (results : List (Nat × S)) : Rendered S :=
  let pre := runSteps env {} (preSteps steps)
  let its := iterate env pre.locals steps docs 0 results
  let post := runSteps env { locals := pre.locals } (postSteps steps)
  { chunks := pre.out ++ its.flatMap (·.out) ++ post.out, items := pre.items ++ its.flatMap (·.items) ++ post.items }

/-! ## JSON encoding of the items (json.Encoder with SetIndent) -/

def isZeroScore (s : S) : Bool := !(lt s zero) && !(lt zero s)

/-- `omitempty` -/
def isEmptyVal : Val S → Bool
  | .bytes b => b.isEmpty
  | .strs l => l.isEmpty
  | .score s => isZeroScore s
  | .int n => n == 0
  | .bool b => !b
  | _ => false

def itemField (it : Item S) (f : JsonField) : Val S :=
  match lookup f.itKey it with
  | some v => v
  | none => zeroOf S f.goType

/-- the members of one JSON object, in struct order: (json name, value) -/
def objFields (fields : List JsonField) (it : Item S) : List (String × Val S) :=
  fields.flatMap (fun f =>
    let v := itemField it f
    if f.omitEmpty && isEmptyVal v then [] else [(f.jsonName, v)])

def nl (depth : Nat) : Bytes := 0x0a :: Gen.Cli.jsonPrefix ++ (List.replicate depth Gen.Cli.jsonIndent).flatten

def encSeq (op cl : UInt8) (depth : Nat) (elems : List Bytes) : Bytes :=
  if elems.isEmpty then [op, cl]
  else [op] ++ nl (depth + 1) ++ joinBytes (0x2c :: nl (depth + 1)) elems ++ nl depth ++ [cl]

def encVal (F : Fmt S) (depth : Nat) : Val S → Bytes
  | .bytes b => F.jsonStr b
  | .score s => F.jsonNum s
  | .strs l => encSeq 0x5b 0x5d depth (l.map F.jsonStr)
  | .int n => intDec n
  | .bool b => if b then bs "true" else bs "false"
  | _ => bs "null"

def encObj (F : Fmt S) (depth : Nat) (fs : List (String × Val S)) : Bytes :=
  encSeq 0x7b 0x7d depth (fs.map (fun kv => [0x22] ++ bs kv.1 ++ [0x22, 0x3a, 0x20] ++ encVal F (depth + 1) kv.2))

/-- `enc.Encode(out)`: the array, indented, followed by a newline -/
def encodeItems (F : Fmt S) (items : List (Item S)) : Bytes :=
  encSeq 0x5b 0x5d 0 (items.map (fun it => encObj F 1 (objFields Gen.Cli.jsonFields it))) ++ [0x0a]

/-! ## the decision pipeline -/

structure Flags where
  limit : Int := 0
  verbose : Bool := false
  format : Bytes := bs "list"
  noColor : Bool := false
  platforms : List Bytes := []
  allPlatforms : Bool := false
  noCross : Bool := false
deriving Repr

inductive Format where
  | list | table | json
deriving DecidableEq, Repr

def asciiLower (b : Bytes) : Bytes := b.map (fun c => if 0x41 ≤ c && c ≤ 0x5a then c + 0x20 else c)

/-- `switch strings.ToLower(format)`.  ToLower is Unicode-wide, but the only non-ASCII code points whose lower
    case contains an ASCII letter are U+0130 (→ "i̇") and U+212A (→ "k"), and neither "json" nor "table" contains
    `i`-with-dot or `k`: comparing the ASCII-lowered bytes decides the same cases. -/
def formatOf (f : Bytes) : Format :=
  let l := asciiLower f
  if l == bs "json" then .json else if l == bs "table" then .table else .list

/-- everything the handler gets from the rest of the program -/
structure World (S : Type) where
  vquery : Except Unit Bytes                      -- validation.ValidateQuery(strings.Join(args, " "))
  loadOk : Bool := true                           -- LoadDatabaseWithFallback returned a database
  engine : Search.Opts S → List (Nat × S)         -- db.SearchUniversal(validated query, ·)
  recovery : Option (List (Nat × S))              -- RecoverFromSearchFailure (none: it returned an error)
  gate : Search.Opts S → Nat → Bool               -- database.FilterResults keeps document d
  boosts : List (Bytes × S) := []                 -- projectContext.GetContextBoosts() (empty without a context)
  ctxDesc : Bytes := []
  hist : History.State                            -- NewSearchHistory(path, historyMax) after Load
  now : Int := 0
  duration : Int := 0
  docs : Nat → Doc
  envNoColor : Bool := false                      -- os.LookupEnv("NO_COLOR") found the variable
  F : Fmt S

/-- `config.DefaultConfig().MaxResults`, replaced by the validated limit when that is positive -/
def limitInForce (valid : Int) : Int := if valid > 0 then valid else Gen.Cli.cfgMaxResults

/-- the option record the CLI passes to the engine -/
def cliOpts (fl : Flags) (limit : Int) (boosts : List (Bytes × S)) : Search.Opts S :=
  { limit := limit, boosts := boosts, pipelineOnly := Gen.Cli.optPipelineOnly, pipelineBoost := zero,
    useFuzzy := Gen.Cli.optUseFuzzy, fuzzyThreshold := Gen.Cli.optFuzzyThreshold, useNLP := Gen.Cli.optUseNLP,
    topTermsCap := Gen.Cli.optTopTermsCap, allPlatforms := fl.allPlatforms, platforms := fl.platforms, noCross := fl.noCross }

/-- recovery answer as the CLI uses it: filtered by the platform gate, cut to the limit -/
def recoveryAnswer (w : World S) (o : Search.Opts S) : List (Nat × S) :=
  match w.recovery with
  | none => []
  | some rs =>
    let kept := rs.filter (fun r => w.gate o r.1)
    if (kept.length : Int) > o.limit then kept.take o.limit.toNat else kept

/-- the answer the CLI is about to print: the engine's if non-empty, else the recovery answer -/
def answer (fl : Flags) (w : World S) (limit : Int) : List (Nat × S) :=
  let o := cliOpts fl limit w.boosts
  let eng := w.engine o
  if eng.isEmpty then
    let rec_ := recoveryAnswer w o
    if rec_.isEmpty then eng else rec_
  else eng

inductive Stage where
  | queryRejected | limitRejected | loadFailed | nothingFound | printed
deriving DecidableEq, Repr

inductive Path where
  | none | engine | recovery
deriving DecidableEq, Repr

structure Output (S : Type) where
  stage : Stage
  limit : Int := 0                                   -- limit in force
  path : Path := .none
  results : List (Nat × S) := []                     -- what is printed, in printed order
  format : Format := .list
  usesEscapes : Bool := false
  block : Bytes := []                                -- the result block on stdout
  jsonItems : List (Item S) := []
  histAdd : Option History.Entry := none             -- the AddEntry call
  histAfter : Option (Except History.Panic History.State) := none

def effColors (noColor : Bool) : List (String × Bytes) :=
  Gen.Cli.colors.map (fun kv => (kv.1, if noColor then [] else kv.2))

def noColorInForce (fl : Flags) (w : World S) : Bool := fl.noColor || w.envNoColor

def renderEnv (fl : Flags) (w : World S) (n : Nat) : REnv S :=
  { colors := effColors (noColorInForce fl w), verbose := fl.verbose, count := n, F := w.F, score := zero }

def stepsOf : Format → List Step
  | .list => Gen.Cli.listSteps
  | .table => Gen.Cli.tableSteps
  | .json => Gen.Cli.jsonSteps

def renderBlock (fl : Flags) (w : World S) (fmt : Format) (sorted : List (Nat × S)) : Bytes × List (Item S) :=
  let r := render (renderEnv fl w sorted.length) (stepsOf fmt) w.docs sorted
  match fmt with
  | .json => (encodeItems w.F r.items, r.items)
  | _ => (r.chunks.flatten, [])

def cliSearch (fl : Flags) (w : World S) : Output S :=
  match w.vquery with
  | .error _ => { stage := .queryRejected }
  | .ok q =>
    match Validate.validateLimit fl.limit with
    | .error _ => { stage := .limitRejected }
    | .ok valid =>
      let limit := limitInForce valid
      if !w.loadOk then { stage := .loadFailed, limit := limit } else
      let o := cliOpts fl limit w.boosts
      let eng := w.engine o
      let results := answer fl w limit
      let path : Path := if !eng.isEmpty then .engine else if results.isEmpty then .none else .recovery
      let entry : History.Entry := ⟨q, w.now, results.length, w.ctxDesc, w.duration⟩
      let hist' := History.add w.hist entry
      if results.isEmpty then
        { stage := .nothingFound, limit := limit, histAdd := some entry, histAfter := some hist' }
      else
        let sorted := Search.sortDesc (·.2) results
        let fmt := formatOf fl.format
        let rb := renderBlock fl w fmt sorted
        { stage := .printed, limit := limit, path := path, results := sorted, format := fmt,
          usesEscapes := !(noColorInForce fl w) && fmt != .json,
          block := rb.1, jsonItems := rb.2, histAdd := some entry, histAfter := some hist' }

/-! ## the command tree: flag merging cannot panic -/
open Wtf.Gen.Flags (Flag Command)

def findCmd (cmds : List Command) (v : String) : Option Command := cmds.find? (·.var == v)

/-- persistent flags of the ancestors, nearest first (cobra `updateParentsPflags`) -/
def ancestorFlags (cmds : List Command) : Nat → Command → List Flag
  | 0, _ => []
  | fuel + 1, c =>
    if c.parent == "" then [] else
    match findCmd cmds c.parent with
    | some p => p.persistentFlags ++ ancestorFlags cmds fuel p
    | none => []

/-- registering flags on ONE flag set (`X.Flags().StringP(...)`): a repeated name or a repeated shorthand panics -/
def regOk : List Flag → List Flag → Bool
  | [], _ => true
  | f :: fs, acc =>
    !acc.any (·.name == f.name) && !(f.short != "" && acc.any (·.short == f.short)) && regOk fs (acc ++ [f])

/-- pflag `AddFlagSet`: a flag whose name is already present is skipped; otherwise `AddFlag`, which panics when
    the shorthand is already used -/
def mergeOk : List Flag → List Flag → Bool
  | [], _ => true
  | f :: fs, acc =>
    if acc.any (·.name == f.name) then mergeOk fs acc
    else !(f.short != "" && acc.any (·.short == f.short)) && mergeOk fs (acc ++ [f])

def helpFlag : Flag := ⟨"help", "h", "bool"⟩

/-- starting command `c` (cobra `mergePersistentFlags` + `InitDefaultHelpFlag`) does not panic -/
def noShorthandClash (cmds : List Command) (c : Command) : Bool :=
  let anc := ancestorFlags cmds cmds.length c
  regOk c.localFlags [] && regOk c.persistentFlags [] &&
  mergeOk anc [] &&
  mergeOk (c.localFlags ++ c.persistentFlags ++ anc ++ [helpFlag]) []

/-! ## recognisability of the regenerated steps -/
def exprKnown : Expr → Bool
  | .unknown _ => false
  | .len e | .pfx e _ | .join e _ | .sprintf _ e | .not e => exprKnown e
  | .add a b | .appendAll a b | .gt a b | .ne a b | .and a b => exprKnown a && exprKnown b
  | _ => true

def stepKnown : Step → Bool
  | .print _ gs _ args => gs.all exprKnown && args.all exprKnown
  | .assign _ gs _ v => gs.all exprKnown && exprKnown v
  | .emit _ gs => gs.all exprKnown

end Wtf.Cli
