/-
  Result-buffer sizing of the legacy search entry points (search.go `resultsBufferCap`):
  min(total, limit*multiplier) computed so that the product is formed only when it cannot overflow.
  Core Lean only.
-/
namespace Wtf.Legacy

/-- Go's `/` on non-negative operands is floor division; `total` is a slice length (≥ 0). -/
def resultsBufferCap (mult total limit : Int) : Int :=
  if limit ≤ 0 ∨ limit > total / mult then max total 0 else limit * mult

end Wtf.Legacy
