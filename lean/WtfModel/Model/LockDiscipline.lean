import WtfModel.Gen.LockFacts

/-!
  The lock discipline, as a decidable predicate over the regenerated `Gen.LockFacts` (C11).  Core only.

  Units of checking.  A method body is a list of *phases* (maximal stretches during which the
  receiver's mutex is held in one mode).  A lock-free unexported helper (`removeElement`,
  `evictOldest`, `metricKey`, …) is not a unit of its own: its accesses are inlined, transitively, into
  the phase of each caller.  Every other method (exported, referenced from other code, or managing the
  lock itself like `getOrCreate`) is a unit.

  Scope.  `sc = true` (scoped) restricts everything (units checked, and the set of fields regarded as
  mutable) to the methods reachable from the operations C11 quantifies over.
-/
namespace Wtf.LockDiscipline
open Wtf.Gen.LockFacts

def find (ms : List MethodFact) (t n : String) : Option MethodFact :=
  ms.find? (fun m => m.typ == t && m.name == n)

def lockFree (m : MethodFact) : Bool := m.phases.all (fun p => p.lock == .none)

def strongest : List Phase → LockKind
  | [] => .none
  | p :: ps =>
    match p.lock, strongest ps with
    | .exclusive, _ => .exclusive
    | _, .exclusive => .exclusive
    | .shared, _ => .shared
    | _, k => k

/-- the strongest lock a method takes (`none` also for an unknown method) -/
def lockOf (ms : List MethodFact) (t n : String) : LockKind :=
  match find ms t n with
  | some m => strongest m.phases
  | none => .none

structure Acc where
  reads : List String
  writes : List String
  atomics : List String
deriving DecidableEq, Repr

def Acc.add (a b : Acc) : Acc := ⟨a.reads ++ b.reads, a.writes ++ b.writes, a.atomics ++ b.atomics⟩

/-- What calling `t.n` from inside a phase amounts to. -/
inductive Inl where
  | acc (a : Acc)     -- a lock-free helper: these accesses happen under the caller's lock
  | locks             -- the callee manages the lock itself (it is a unit of its own)
  | bad (why : String)
deriving DecidableEq, Repr

def inlineAll (rec : String → Inl) (cs : List String) : Inl :=
  cs.foldl (fun r c =>
    match r with
    | .acc a => (match rec c with
        | .acc b => .acc (a.add b)
        | .locks => .bad ("lock-free helper calls locking method " ++ c)
        | .bad w => .bad w)
    | other => other) (.acc ⟨[], [], []⟩)

def inline (ms : List MethodFact) : Nat → String → String → Inl
  | 0, _, n => .bad ("call depth exceeded at " ++ n)
  | fuel + 1, t, n =>
    match find ms t n with
    | none => .bad ("unknown callee " ++ n)
    | some m =>
      if !m.irregular.isEmpty then .bad ("irregular helper " ++ n)
      else if !lockFree m then .locks
      else
        m.phases.foldl (fun r p =>
          match r with
          | .acc a =>
            (match inlineAll (inline ms fuel t) p.selfCalls with
             | .acc b => .acc ((a.add ⟨p.reads, p.writes, p.atomics⟩).add b)
             | other => other)
          | other => other) (.acc ⟨[], [], []⟩)

def fuel : Nat := 8

/-- A phase with the accesses of its lock-free helpers inlined; `none` when that is impossible
    (unknown helper, helper with unclassified shapes, or a call to a locking method while the lock
    is held -- sync.RWMutex is not re-entrant). -/
def effPhase (ms : List MethodFact) (t : String) (p : Phase) : Option Phase :=
  p.selfCalls.foldl (fun r c =>
    match r with
    | none => none
    | some q =>
      match inline ms fuel t c with
      | .acc a => some { q with reads := q.reads ++ a.reads, writes := q.writes ++ a.writes, atomics := q.atomics ++ a.atomics }
      | .locks => if p.lock == .none then some q else none
      | .bad _ => none) (some p)

def effPhases (ms : List MethodFact) (m : MethodFact) : Option (List Phase) :=
  m.phases.foldr (fun p r =>
    match effPhase ms m.typ p, r with
    | some q, some qs => some (q :: qs)
    | _, _ => none) (some [])

def scope (ms : List MethodFact) (sc : Bool) : List MethodFact :=
  ms.filter (fun m => !sc || m.inScope)

/-- the methods checked as units -/
def units (ms : List MethodFact) (sc : Bool) : List MethodFact :=
  (scope ms sc).filter (fun m => m.entry || !lockFree m)

/-- fields of type `t` that some method in scope writes with an ordinary store -/
def written (ms : List MethodFact) (sc : Bool) (t : String) : List String :=
  ((scope ms sc).filter (fun m => m.typ == t)).flatMap (fun m => m.phases.flatMap (·.writes)) ++
  ((scope ms sc).flatMap (·.foreignWrites)).filterMap (fun p => if p.1 == t then some p.2 else none)

/-- fields of type `t` that some method in scope accesses through sync/atomic -/
def atomicFields (ms : List MethodFact) (sc : Bool) (t : String) : List String :=
  ((scope ms sc).filter (fun m => m.typ == t)).flatMap (fun m => m.phases.flatMap (·.atomics))

/-- The discipline for one unit `m` (a conjunction, so that it is decidable by evaluation):
  1. the lock protocol of the body was fully classified: lock taken at the top level, unlock deferred
     or on every path, no lock juggling inside loops, the receiver does not escape;
  2. helpers could be inlined (in particular no re-entrant locking);
  3. every ordinary store to receiver state happens while the receiver's mutex is held exclusively;
  4. code that runs without the lock reads only fields nobody (in scope) writes;
  5. a field accessed through sync/atomic is never accessed with an ordinary load or store;
  6. other tracked objects are reached only through their methods,
  7. except for reads of fields nobody writes. -/
def UnitOK (ms : List MethodFact) (sc : Bool) (m : MethodFact) : Prop :=
  m.irregular = [] ∧
  (effPhases ms m).isSome = true ∧
  (∀ ps ∈ (effPhases ms m).toList, ∀ p ∈ ps, p.writes ≠ [] → p.lock = .exclusive) ∧
  (∀ ps ∈ (effPhases ms m).toList, ∀ p ∈ ps, p.lock = .none → ∀ r ∈ p.reads, r ∉ written ms sc m.typ) ∧
  (∀ ps ∈ (effPhases ms m).toList, ∀ p ∈ ps, ∀ f ∈ p.reads ++ p.writes, f ∉ atomicFields ms sc m.typ) ∧
  m.foreignWrites = [] ∧
  (∀ q ∈ m.foreignReads, q.2 ∉ written ms sc q.1 ∧ q.2 ∉ atomicFields ms sc q.1)

set_option synthInstance.maxSize 2000 in
instance (ms : List MethodFact) (sc : Bool) (m : MethodFact) : Decidable (UnitOK ms sc m) := by
  unfold UnitOK; infer_instance

def Disciplined (ms : List MethodFact) (sc : Bool) : Prop := ∀ m ∈ units ms sc, UnitOK ms sc m

instance (ms : List MethodFact) (sc : Bool) : Decidable (Disciplined ms sc) := by
  unfold Disciplined; infer_instance

/-! The same rules as a function that lists what fails (used to document the exceptions outside the
    scope of C11, and by the orchestrator for its report). -/

structure Viol where
  typ : String
  method : String
  rule : String
  field : String
deriving DecidableEq, Repr

def violationsOf (ms : List MethodFact) (sc : Bool) (m : MethodFact) : List Viol :=
  let v := fun (rule field : String) => (⟨m.typ, m.name, rule, field⟩ : Viol)
  m.irregular.map (v "irregular") ++
  m.foreignWrites.map (fun q => v "foreign-write" (q.1 ++ "." ++ q.2)) ++
  (m.foreignReads.filter (fun q => (written ms sc q.1).contains q.2 || (atomicFields ms sc q.1).contains q.2)).map
    (fun q => v "foreign-read-of-mutable-field" (q.1 ++ "." ++ q.2)) ++
  (match effPhases ms m with
   | none => [v "helper-or-reentrant-lock" ""]
   | some ps =>
     ps.flatMap (fun p =>
       (if p.lock != .exclusive then p.writes.map (v "write-without-exclusive-lock") else []) ++
       (if p.lock == .none then (p.reads.filter (fun r => (written ms sc m.typ).contains r)).map (v "unlocked-read-of-mutable-field") else []) ++
       ((p.reads ++ p.writes).filter (fun f => (atomicFields ms sc m.typ).contains f)).map (v "plain-access-to-atomic-field")))

def violations (ms : List MethodFact) (sc : Bool) : List Viol :=
  (units ms sc).flatMap (violationsOf ms sc)

/-- number of locked phases: an operation that is one critical section has exactly one -/
def lockedPhases (m : MethodFact) : Nat := (m.phases.filter (fun p => p.lock != .none)).length

end Wtf.LockDiscipline
