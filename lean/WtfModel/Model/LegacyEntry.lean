import WtfModel.Model.LegacyScore
import WtfModel.Model.Legacy
import WtfModel.Model.Tfidf
/-
  Model of the legacy search entry points of internal/database/search.go as they are at /repo HEAD,
  built on the modelled scorer (Model/LegacyScore.lean).  Core Lean only, generic over the score type.

    searchPipeline       SearchWithPipelineOptions   (what `wtf pipeline` calls) — the scorer no longer a parameter
    searchWithOptions    SearchWithOptions + (db).calculateCommandScore (host-only platform gate)
    searchWithFuzzy      SearchWithFuzzy, performFuzzySearch on the RAW query, combineAndDeduplicateResults, limitResults
    searchWithNLP        SearchWithNLP: shared-searcher branch, temporary-searcher branch with the fallback search
    getSuggestions       GetSuggestions / isCommonWord

  Parameters, exactly as in Model/Search.lean: `Tuning` (rune facts, host platform, the order of the fuzzy
  library's `sort.Stable`, the shared TF-IDF ranking `tfidf` — `none` = `db.tfidf == nil` —, the NLP
  analysis with `NlpOut.enhanced` and `NlpOut.intentBoost` = calculateIntentBoost per document);
  `tmp` = the ranking of the temporary TF-IDF searcher SearchWithNLP builds when there is no shared one;
  `fin` = finiteScore.

  Go `int` arithmetic that can wrap (`Limit * 2`) is modelled with `wrap64`; slice expressions are reached
  only with positive limits (`defaults_pos` in Proofs/LegacyScore.lean).
-/
namespace Wtf.LegacyEntry
open Text GoStr ScoreOps Filters Search Legacy LegacyScore

variable {S : Type} [ScoreOps S]

/-- two's-complement wrap of a Go `int` (64 bit) -/
def wrap64 (x : Int) : Int := (x + 9223372036854775808) % 18446744073709551616 - 9223372036854775808

/-- `for i := range db.Commands { if r := f(cmd); r != nil { results = append(results, *r) } }` -/
def scanWith (f : Cmd → Option S) : Nat → Db → List (Nat × S)
  | _, [] => []
  | i, c :: rest =>
    match f c with
    | some s => (i, s) :: scanWith f (i + 1) rest
    | none => scanWith f (i + 1) rest

/-! ### SearchWithPipelineOptions with the modelled scorer -/

/-- the loop body of SearchWithPipelineOptions -/
def pipelineScore (fin : S → S) (ri : RuneInfo) (boosts : List (Bytes × S)) (words : List Bytes)
    (pipelineOnly : Bool) (pipelineBoost : S) (c : Cmd) : Option S :=
  if pipelineOnly && !isPipeline ri c then none else
  let s0 := calculateScore fin ri boosts c words
  let s := if isPipeline ri c && lt zero pipelineBoost then fin (mul s0 pipelineBoost) else s0
  if lt zero s then some s else none

def pipelineLimit (limit : Int) : Int := if limit ≤ 0 then Gen.LegacyScore.pipelineDefaultLimit else limit

def searchPipeline (fin : S → S) (ri : RuneInfo) (db : Db) (q : Bytes) (o : Opts S) : List (Nat × S) :=
  sortAndLimit (scanWith (pipelineScore fin ri o.boosts (queryWords ri q) o.pipelineOnly o.pipelineBoost) 0 db)
    (pipelineLimit o.limit).toNat

/-! ### SearchWithOptions -/

/-- the platform loop of (db).calculateCommandScore: some declared platform is the cross-platform tag or
    the host (the loop breaks at the first of either) -/
def hostDeclared (ri : RuneInfo) (host : Bytes) (c : Cmd) : Bool :=
  c.platform.any (fun p => isCrossTag ri p || equalFold ri p host)

/-- (db).calculateCommandScore: `none` is the nil return -/
def platformScore (fin : S → S) (ri : RuneInfo) (host : Bytes) (boosts : List (Bytes × S)) (words : List Bytes)
    (c : Cmd) : Option S :=
  if !c.platform.isEmpty && !hostDeclared ri host c then
    if crossTool ri c.command then
      let s := mul (calculateScore fin ri boosts c words) (ofQ Gen.LegacyScore.crossPlatformPenalty)
      if lt zero s then some s else none
    else none
  else
    let s := calculateScore fin ri boosts c words
    if lt zero s then some s else none

def optionsLimit (limit : Int) : Int := if limit ≤ 0 then Gen.LegacyScore.optionsDefaultLimit else limit

/-- SearchWithOptions: reads Limit and ContextBoosts only -/
def searchWithOptions (fin : S → S) (ri : RuneInfo) (host : Bytes) (db : Db) (q : Bytes) (limit : Int)
    (boosts : List (Bytes × S)) : List (Nat × S) :=
  sortAndLimit (scanWith (platformScore fin ri host boosts (queryWords ri q)) 0 db) (optionsLimit limit).toNat

/-! ### SearchWithFuzzy -/

/-- performFuzzySearch(query, options) with `options.Limit = limit`: no truncation, the candidate loop
    stops at `limit*2` results (a wrapped, negative product stops it at once) -/
def performFuzzy (T : Tuning S) (db : Db) (q : Bytes) (o : Opts S) (limit : Int) :
    Except Fuzzy.Panic (List (Nat × S)) :=
  match Fuzzy.findNoSort T.ri q (db.map fuzzyTarget) with
  | .error e => .error e
  | .ok ms => .ok (fuzzyCollect T db o (wrap64 (limit * (fuzzyMult : Int))).toNat (T.fuzzySort ms) [])

/-- `result.Command.Command + "|" + result.Command.Description` -/
def dedupKey (db : Db) (i : Nat) : Bytes :=
  match db[i]? with
  | some c => c.command ++ (0x7C :: c.description)
  | none => []

/-- one `for _, result := range …` loop of combineAndDeduplicateResults: keeps the results whose key has
    not been seen, applying `f` to the score; returns the kept results and the grown `seen` set -/
def dedupLoop (db : Db) (f : S → S) : List Bytes → List (Nat × S) → List (Nat × S) × List Bytes
  | seen, [] => ([], seen)
  | seen, r :: rest =>
    let k := dedupKey db r.1
    if seen.contains k then dedupLoop db f seen rest
    else
      let p := dedupLoop db f (k :: seen) rest
      ((r.1, f r.2) :: p.1, p.2)

/-- the list `combined` before it is sorted: exact results first, then the discounted typo results -/
def combinedList (db : Db) (exact fuzzy : List (Nat × S)) : List (Nat × S) :=
  let p1 := dedupLoop db (fun s => s) [] exact
  let p2 := dedupLoop db (fun s => mul s (ofQ Gen.LegacyScore.fuzzyDiscount)) p1.2 fuzzy
  p1.1 ++ p2.1

/-- combineAndDeduplicateResults -/
def combine (db : Db) (exact fuzzy : List (Nat × S)) (limit : Nat) : List (Nat × S) :=
  (sortDesc (·.2) (combinedList db exact fuzzy)).take limit

def fuzzyLimit (limit : Int) : Int := if limit ≤ 0 then Gen.LegacyScore.fuzzyDefaultLimit else limit

/-- `exactOptions.Limit = Limit * FuzzySearchMultiplier; if exactOptions.Limit < Limit { … = Limit }` -/
def exactLimit (limit : Int) : Int :=
  let e := wrap64 (limit * Gen.LegacyScore.exactMultiplier)
  if e < limit then limit else e

/-- `len(exactResults) >= options.Limit && exactResults[0].Score > FuzzyScoreThreshold`
    (the index expression is evaluated only when the list has at least `limit ≥ 1` elements) -/
def goodExact (exact : List (Nat × S)) (limit : Int) : Bool :=
  decide ((exact.length : Int) ≥ limit) &&
    (match exact.head? with
     | some x => lt (ofQ Gen.LegacyScore.goodExactThreshold) x.2
     | none => false)

/-- SearchWithFuzzy.  Reads Limit, ContextBoosts, UseFuzzy and — only inside performFuzzySearch — the
    threshold and the filter switches. -/
def searchWithFuzzy (fin : S → S) (T : Tuning S) (db : Db) (q : Bytes) (o : Opts S) :
    Except Fuzzy.Panic (List (Nat × S)) :=
  let limit := fuzzyLimit o.limit
  let exact := searchWithOptions fin T.ri T.host db q (exactLimit limit) o.boosts
  if goodExact exact limit then .ok (exact.take limit.toNat)
  else if o.useFuzzy then
    match performFuzzy T db q { o with limit := limit } limit with
    | .error e => .error e
    | .ok fz => .ok (combine db exact fz limit.toNat)
  else .ok (exact.take limit.toNat)

/-! ### SearchWithNLP -/

/-- `Score: similarity * 100` inside TFIDFSearcher.Search (translator assertion legacyscore:tfidf-search-tail) -/
def tfidfScoreScale : Q := ⟨100, 1⟩

def nlpLimit (limit : Int) : Int := if limit ≤ 0 then Gen.LegacyScore.nlpDefaultLimit else limit

/-- `candidateLimit := Limit * 2; if candidateLimit < Limit { candidateLimit = Limit }` -/
def candidateLimit (limit : Int) : Int :=
  let c := wrap64 (limit * 2)
  if c < limit then limit else c

/-- the branch `db.tfidf != nil && db.cmdIndex != nil` -/
def nlpShared (db : Db) (rank : Bytes → List (Nat × S)) (q : Bytes) (limit : Int) : List (Nat × S) :=
  ((((rank q).take (candidateLimit limit).toNat).filter (fun x => decide (x.1 < db.length))).map
    (fun x => (x.1, mul x.2 (ofQ Gen.LegacyScore.similarityScale)))).take limit.toNat

/-- what the fallback search contributes: SearchWithFuzzy on the enhanced query for the missing number of
    results, every score multiplied by `intentBoost * FallbackResultPriority` -/
def nlpFallback (fin : S → S) (T : Tuning S) (db : Db) (q : Bytes) (o : Opts S) (missing : Int) :
    Except Fuzzy.Panic (List (Nat × S)) :=
  let n := T.nlp q
  match searchWithFuzzy fin T db (joinSp n.enhanced) { o with useNLP := false, limit := missing } with
  | .error e => .error e
  | .ok fb => .ok (fb.map (fun x => (x.1, mul x.2 (mul (n.intentBoost x.1) (ofQ Gen.LegacyScore.fallbackPriority)))))

/-- the branch without a shared searcher -/
def nlpTemporary (fin : S → S) (T : Tuning S) (tmp : Bytes → List (Nat × S)) (db : Db) (q : Bytes) (o : Opts S)
    (limit : Int) : Except Fuzzy.Panic (List (Nat × S)) :=
  let res := ((tmp q).take (candidateLimit limit).toNat).map (fun x => (x.1, mul x.2 (ofQ tfidfScoreScale)))
  let fb : Except Fuzzy.Panic (List (Nat × S)) :=
    if (res.length : Int) < limit then nlpFallback fin T db q o (limit - res.length) else .ok []
  match fb with
  | .error e => .error e
  | .ok fbr => .ok ((sortDesc (·.2) (res ++ fbr)).take limit.toNat)

/-- SearchWithNLP -/
def searchWithNLP (fin : S → S) (T : Tuning S) (tmp : Bytes → List (Nat × S)) (db : Db) (q : Bytes) (o : Opts S) :
    Except Fuzzy.Panic (List (Nat × S)) :=
  if !o.useNLP then searchWithFuzzy fin T db q o else
  let limit := nlpLimit o.limit
  match T.tfidf with
  | some rank => .ok (nlpShared db rank q limit)
  | none => nlpTemporary fin T tmp db q o limit

/-! ### GetSuggestions -/

/-- strings.Trim(s, cutset) for an ASCII cut set: bytes of the set removed from both ends -/
def trimSet (cut s : Bytes) : Bytes :=
  ((s.dropWhile cut.contains).reverse.dropWhile cut.contains).reverse

def cleanWord (ri : RuneInfo) (cut : String) (w : Bytes) : Bytes := toLower ri (trimSet (bs cut) w)

/-- isCommonWord -/
def isCommonWord (w : Bytes) : Bool := Gen.LegacyScore.commonWords.any (fun c => bs c == w)

/-- the words one command contributes to `wordSet` -/
def wordsOfCmd (ri : RuneInfo) (c : Cmd) : List Bytes :=
  ((fields ri c.command).map (cleanWord ri Gen.LegacyScore.commandCutset)).filter (fun w => decide (w.length > 2)) ++
  ((fields ri c.description).map (cleanWord ri Gen.LegacyScore.descriptionCutset)).filter
    (fun w => decide (w.length > 2) && !isCommonWord w)

/-- every insertion into `wordSet`, in program order -/
def wordInsertions (ri : RuneInfo) (db : Db) : List Bytes := db.flatMap (wordsOfCmd ri)

/-- `words`: the keys of the set, `sort.Strings`, NUL replaced by a space -/
def suggestionWords (ri : RuneInfo) (db : Db) : List Bytes :=
  (Tfidf.sortWords (Tfidf.dedup (wordInsertions ri db))).map nulToSpace

def suggestMax (m : Int) : Int := if m ≤ 0 then Gen.LegacyScore.suggestDefaultMax else m

/-- GetSuggestions -/
def getSuggestions (T : Tuning S) (db : Db) (q : Bytes) (maxSuggestions : Int) : Except Fuzzy.Panic (List Bytes) :=
  let words := suggestionWords T.ri db
  match Fuzzy.findNoSort T.ri q words with
  | .error e => .error e
  | .ok ms =>
    .ok (((T.fuzzySort ms).take (suggestMax maxSuggestions).toNat).filterMap
      (fun m => if m.2 ≥ Gen.LegacyScore.suggestThreshold then words[m.1]? else none))

end Wtf.LegacyEntry
