import WtfModel.Basic.Bytes
/-
  Model of the personal notebook (internal/cli/save.go, pipeline.go `save-pipeline`, database/loader.go).
  Core Lean only.  Text is bytes.

  * `save` is the list update of `saveToPersonalDatabase`: the FIRST entry whose command string equals the
    new one is replaced in place, otherwise the entry is appended.
  * `entryOfSave` / `entryOfSavePipeline` build the entry the way the two handlers do, from what cobra/pflag
    hands them (positional arguments and flag values; pflag's CSV splitting of `--keywords` is not modelled:
    the "given" keywords are the list pflag returns).  The literal tables of `save-pipeline` are parameters,
    instantiated from `Gen.SavePipeline`.
  * YAML is an uninterpreted pair `enc` / `dec`.  HEAD's `writePersonalDatabase` decodes what it encoded and
    refuses to replace the file unless that reproduces the list (`saveFile`), so fidelity of a SUCCESSFUL save
    is established by the code, not assumed; the contract `RoundTrips` is needed only to say that a save
    succeeds.
-/
namespace Wtf.Notebook

structure Cmd where
  command : Bytes
  description : Bytes
  keywords : List Bytes
  tags : List Bytes
  niche : Bytes
  platform : List Bytes
  pipeline : Bool
deriving DecidableEq, Repr

/-- read-modify part of `saveToPersonalDatabase` -/
def save : List Cmd → Cmd → List Cmd
  | [], e => [e]
  | x :: xs, e => if x.command = e.command then e :: xs else x :: save xs e

/-- index of the first entry with that command string (`length` when there is none) -/
def indexOf (c : Bytes) : List Cmd → Nat
  | [] => 0
  | x :: xs => if x.command = c then 0 else indexOf c xs + 1

def present (c : Bytes) (xs : List Cmd) : Bool := xs.any (fun x => decide (x.command = c))

/-! ### the entries the handlers build -/

/-- `wtf save <command> <description> [--keywords ..] [--category ..] [--platforms ..] [--pipeline]` -/
def entryOfSave (command description : Bytes) (keywords : List Bytes) (niche : Bytes) (platforms : List Bytes)
    (pipeline : Bool) : Cmd :=
  { command, description, keywords, tags := [], niche, platform := platforms, pipeline }

/-- `strings.Contains` -/
def isPrefix : Bytes → Bytes → Bool
  | [], _ => true
  | _ :: _, [] => false
  | a :: as, b :: bs => a == b && isPrefix as bs

def contains (hay needle : Bytes) : Bool :=
  match hay with
  | [] => needle.isEmpty
  | _ :: t => isPrefix needle hay || contains t needle

/-- `len(strings.Split(s, sep))` for a one-byte separator: occurrences + 1 -/
def countSteps (sep : UInt8) (s : Bytes) : Nat := (s.filter (· == sep)).length + 1

/-- decimal digits, as `%d` prints them -/
def natToBytes (n : Nat) : Bytes := (Nat.toDigits 10 n).map (fun c => UInt8.ofNat c.toNat)

structure PipelineTables where
  base : List Bytes                          -- keywords always added
  rules : List (List Bytes × List Bytes)     -- (needles, keywords added when the command contains one of them)
  sep : UInt8                                -- step separator
  descMid : Bytes                            -- description = name ++ descMid ++ <steps> ++ descEnd
  descEnd : Bytes

def autoKeywords (T : PipelineTables) (command : Bytes) : List Bytes :=
  T.base ++ (T.rules.filter (fun r => r.1.any (contains command))).flatMap (·.2)

/-- `wtf save-pipeline <name> <command> [--keywords ..] [--category ..] [--platforms ..] [--description ..]` -/
def entryOfSavePipeline (T : PipelineTables) (name command : Bytes) (keywords : List Bytes) (niche : Bytes)
    (platforms : List Bytes) (descFlag : Bytes) : Cmd :=
  { command,
    description := if descFlag.isEmpty then name ++ T.descMid ++ natToBytes (countSteps T.sep command) ++ T.descEnd else descFlag,
    keywords := autoKeywords T command ++ keywords,
    tags := [], niche, platform := platforms, pipeline := true }

/-! ### the file level: YAML as a contract -/

/-- the encoder/decoder pair reproduces the list -/
def RoundTrips (enc : List Cmd → Bytes) (dec : Bytes → Option (List Cmd)) (xs : List Cmd) : Prop :=
  dec (enc xs) = some xs

inductive SaveErr where
  | parse          -- the existing notebook does not decode: "failed to parse personal database"
  | unfaithful     -- the new list does not read back as written: "cannot be stored faithfully"
deriving DecidableEq, Repr

/-- decoding the file the way `saveToPersonalDatabase` / `LoadDatabase` do; a missing file is an empty notebook -/
def loadFile (dec : Bytes → Option (List Cmd)) : Option Bytes → Option (List Cmd)
  | none => some []
  | some b => dec b

/-- `saveToPersonalDatabase` at HEAD: result = the new file content, or an error and the file is left alone -/
def saveFile (enc : List Cmd → Bytes) (dec : Bytes → Option (List Cmd)) (file : Option Bytes) (e : Cmd) :
    Except SaveErr Bytes :=
  match loadFile dec file with
  | none => .error .parse
  | some xs =>
    let ys := save xs e
    if dec (enc ys) = some ys then .ok (enc ys) else .error .unfaithful

/-- the file after one `save` command (unchanged when it reports an error) -/
def stepFile (enc : List Cmd → Bytes) (dec : Bytes → Option (List Cmd)) (file : Option Bytes) (e : Cmd) : Option Bytes :=
  match saveFile enc dec file e with
  | .ok b => some b
  | .error _ => file

def runFile (enc : List Cmd → Bytes) (dec : Bytes → Option (List Cmd)) (file : Option Bytes) (es : List Cmd) : Option Bytes :=
  es.foldl (stepFile enc dec) file

/-- the saves of a sequence that succeeded, in order -/
def succeeded (enc : List Cmd → Bytes) (dec : Bytes → Option (List Cmd)) : Option Bytes → List Cmd → List Cmd
  | _, [] => []
  | file, e :: es =>
    match saveFile enc dec file e with
    | .ok b => e :: succeeded enc dec (some b) es
    | .error _ => succeeded enc dec file es

/-- `LoadDatabaseWithPersonal`: main entries followed by the notebook entries; a missing notebook is ignored,
    an undecodable one fails the whole load -/
def loadWithPersonal (dec : Bytes → Option (List Cmd)) (main : List Cmd) : Option Bytes → Option (List Cmd)
  | none => some main
  | some b => (dec b).map (main ++ ·)

/-! ### abstract state used by the driver (the decoder's verdicts are inputs) -/

inductive Nb where
  | missing
  | corrupt
  | list (xs : List Cmd)
deriving DecidableEq, Repr

def Nb.entries : Nb → Option (List Cmd)
  | .missing => some []
  | .corrupt => none
  | .list xs => some xs

/-- one save; `rt` = does the resulting list survive encode/decode (evaluated on the real encoder) -/
def stepNb (rt : Bool) (s : Nb) (e : Cmd) : Nb × Bool :=
  match s.entries with
  | none => (s, false)
  | some xs => if rt then (.list (save xs e), true) else (s, false)

def mergedNb (main : List Cmd) : Nb → Option (List Cmd)
  | .missing => some main
  | .corrupt => none
  | .list xs => some (main ++ xs)

end Wtf.Notebook
