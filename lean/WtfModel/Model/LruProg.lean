import WtfModel.Model.Lru
/-
  A small statement language for the method bodies of internal/cache/lru_cache.go and its interpreter over the
  abstract LRU state of `Model/Lru.lean`.  Core Lean only.

  `xlate/x_lrucode.go` translates the bodies of Get, Put, Delete, Clear, CleanupExpired, Size, evictOldest and
  removeElement statement by statement into programs of this language (`Gen/LruCode.lean`); `Proofs/LruCode.lean` shows that
  running those programs is the hand-written model (`Lru.get`, `Lru.put`, …) — so the model the C12 / C05 / C11 theorems are
  about is the source's control flow, not a re-typing of it.

  What a statement means on the abstract state (the glue, fixed here):
    * the Go cache keeps a map `items` and a list `evictList`; the model keeps the list only.  `element, exists := c.items[key]`
      selects the entry with that key; `c.evictList.Back()` selects the last entry.
    * `c.removeElement(element)` (list removal + map delete) removes the selected entry: by key when it was selected by key,
      the last one when it was selected as `Back()`.
    * `MoveToFront` puts the selected entry (with the field updates made to it so far) at the head; `PushFront` + the map
      store put the new entry at the head.  Both advance the ghost clock `tick`; `AccessedAt = now; AccessCount++` records
      the ghost `used`.
-/
namespace Wtf.LruProg
open Wtf.Lru

inductive Cond where
  | notExists       -- !exists
  | exists_         -- exists                      (if element, exists := c.items[key]; exists)
  | selExpired      -- c.ttl > 0 && time.Since(entry.CreatedAt) > c.ttl
  | overCapacity    -- c.evictList.Len() > c.capacity
  | ttlNonPositive  -- c.ttl <= 0
  | selNonNil       -- element != nil
deriving DecidableEq, Repr

inductive Ret where
  | none_ | selVal | unit | true_ | false_ | zero | removed | size
deriving DecidableEq, Repr

/-- statements without nested blocks -/
inductive Basic where
  | lookup            -- element, exists := c.items[key]
  | lookupBack        -- element := c.evictList.Back()
  | incMisses | incHits | incEvictions
  | removeSel         -- c.removeElement(element)
  | touchSel          -- entry.AccessedAt = now (or time.Now()); entry.AccessCount++
  | setSelValue       -- entry.Value = value
  | moveSelToFront    -- c.evictList.MoveToFront(element)
  | pushNew           -- entry := &Entry{Key: key, Value: value, CreatedAt: now, …}; element := c.evictList.PushFront(entry); c.items[key] = element
  | callEvictOldest   -- c.evictOldest()
  | resetAll          -- c.items = make(…); c.evictList.Init(); c.hits = 0; c.misses = 0; c.evictions = 0
  | sweepBack         -- the back-to-front loop of CleanupExpired (shape asserted by the translator)
deriving DecidableEq, Repr

inductive Stmt where
  | basic (b : Basic)
  | ifDo (c : Cond) (body : List Basic)             -- if c { body }
  | ifRet (c : Cond) (body : List Basic) (r : Ret)  -- if c { body; return r }
  | ret (r : Ret)
deriving DecidableEq, Repr

/-- how the entry in hand was selected -/
inductive Sel (κ ν : Type) where
  | none
  | byKey (e : Entry κ ν)
  | back (e : Entry κ ν)

structure M (κ ν : Type) where
  s : State κ ν
  sel : Sel κ ν := .none
  removed : Nat := 0

/-- the arguments of a call -/
structure Args (κ ν : Type) where
  now : Int
  key : Option κ := none
  value : Option ν := none

variable {κ ν : Type} [DecidableEq κ]

def Sel.entry? : Sel κ ν → Option (Entry κ ν)
  | .none => Option.none
  | .byKey e => some e
  | .back e => some e

def Sel.map (f : Entry κ ν → Entry κ ν) : Sel κ ν → Sel κ ν
  | .none => .none
  | .byKey e => .byKey (f e)
  | .back e => .back (f e)

def evalCond (a : Args κ ν) (m : M κ ν) : Cond → Bool
  | .notExists => m.sel.entry?.isNone
  | .exists_ => m.sel.entry?.isSome
  | .selExpired => match m.sel.entry? with
    | some e => expired m.s.ttl a.now e
    | Option.none => false
  | .overCapacity => decide (m.s.cap < m.s.entries.length)
  | .ttlNonPositive => decide (m.s.ttl ≤ 0)
  | .selNonNil => m.sel.entry?.isSome

/-- evictOldest, as written in the source: `element := Back(); if element != nil { removeElement(element); evictions++ }`.
    Kept here as the meaning of the call statement; `Proofs/LruCode.lean` shows the translated body of evictOldest has
    exactly this meaning. -/
def evictOldestSem (s : State κ ν) : State κ ν :=
  match s.entries.getLast? with
  | some _ => { s with entries := s.entries.dropLast, evictions := s.evictions + 1 }
  | Option.none => s

def execBasic (a : Args κ ν) (m : M κ ν) : Basic → M κ ν
  | .lookup => match a.key with
    | some k => { m with sel := match find? k m.s.entries with
                                 | some e => .byKey e
                                 | Option.none => .none }
    | Option.none => m
  | .lookupBack => { m with sel := match m.s.entries.getLast? with
                                    | some e => .back e
                                    | Option.none => .none }
  | .incMisses => { m with s := { m.s with misses := m.s.misses + 1 } }
  | .incHits => { m with s := { m.s with hits := m.s.hits + 1 } }
  | .incEvictions => { m with s := { m.s with evictions := m.s.evictions + 1 } }
  | .removeSel => match m.sel with
    | .byKey e => { m with s := { m.s with entries := remove e.key m.s.entries }, removed := m.removed + 1 }
    | .back _ => { m with s := { m.s with entries := m.s.entries.dropLast }, removed := m.removed + 1 }
    | .none => m
  | .touchSel => { m with sel := m.sel.map (fun e => { e with used := m.s.tick }) }
  | .setSelValue => match a.value with
    | some v => { m with sel := m.sel.map (fun e => { e with val := v, stored := a.now }) }
    | Option.none => m
  | .moveSelToFront => match m.sel with
    | .byKey e => { m with s := { m.s with entries := e :: remove e.key m.s.entries, tick := m.s.tick + 1 } }
    | .back e => { m with s := { m.s with entries := e :: m.s.entries.dropLast, tick := m.s.tick + 1 } }
    | .none => m
  | .pushNew => match a.key, a.value with
    | some k, some v =>
      { m with s := { m.s with entries := { key := k, val := v, created := a.now, stored := a.now, used := m.s.tick } :: m.s.entries,
                               tick := m.s.tick + 1 } }
    | _, _ => m
  | .callEvictOldest => { m with s := evictOldestSem m.s }
  | .resetAll => { m with s := { m.s with entries := [], hits := 0, misses := 0, evictions := 0 } }
  | .sweepBack =>
    let kept := (sweepRev m.s.ttl a.now m.s.entries.reverse).reverse
    { m with s := { m.s with entries := kept }, removed := m.removed + (m.s.entries.length - kept.length) }

def execBasics (a : Args κ ν) (m : M κ ν) (bs : List Basic) : M κ ν := bs.foldl (execBasic a) m

/-- run a method body; the result is the machine and the `return` that ended it (`none`: fell off the end) -/
def exec (a : Args κ ν) : M κ ν → List Stmt → M κ ν × Option Ret
  | m, [] => (m, Option.none)
  | m, .basic b :: rest => exec a (execBasic a m b) rest
  | m, .ifDo c body :: rest => exec a (if evalCond a m c then execBasics a m body else m) rest
  | m, .ifRet c body r :: rest => if evalCond a m c then (execBasics a m body, some r) else exec a m rest
  | m, .ret r :: _ => (m, some r)

/-- the value a `return` denotes -/
def retOut (m : M κ ν) : Option Ret → Out κ ν
  | some .none_ => .val Option.none
  | some .selVal => .val (m.sel.entry?.map (·.val))
  | some .unit => .unit
  | Option.none => .unit
  | some .true_ => .bool true
  | some .false_ => .bool false
  | some .zero => .nat 0
  | some .removed => .nat m.removed
  | some .size => .nat m.s.entries.length

/-- run a translated method on a state -/
def call (prog : List Stmt) (s : State κ ν) (a : Args κ ν) : State κ ν × Out κ ν :=
  let r := exec a { s := s } prog
  (r.1.s, retOut r.1 r.2)

end Wtf.LruProg
