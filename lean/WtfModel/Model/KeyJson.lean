import WtfModel.Model.CacheLayer
import WtfModel.Basic.Utf8

/-
  Model of the TEXT that `generateCacheKey` hashes (property C05, internal/cache/search_cache.go):

      json.Marshal(struct{ Query string `json:"query"`; Options SearchOptions `json:"options"` }{nq, options})

  i.e. encoding/json (go1.25) restricted to this one struct type.  Core Lean only.

  What is taken from where:
    field list, json names, omitempty flags, Go kinds   regenerated (`Gen.CacheKey.keyFields`, `Gen.KeyJson.keyStruct`);
                                                        the text below is a function of a `KeyData` (Model/CacheLayer), which
                                                        already is "(json name, absent | rendered value) per field, in
                                                        declaration order" (`proj`), so nothing about the fields is written here
    strings          `goString s = quote (coerce s)`: encoding/json's appendString with escapeHTML = true, split in two passes
                     pass 1 `coerce`: utf8.DecodeRune over the string; every byte at which it reports (RuneError, 1) becomes the
                                      marker byte 0xFF (which occurs in no valid UTF-8 text), every other rune is copied
                     pass 2 `quote`:  bytewise: `"` `\` as \" \\ ; \b \f \n \r \t short forms; other bytes < 0x20 and `<` `>` `&`
                                      as \u00XY (lower-case hex); the marker as \ufffd; E2 80 A8 / E2 80 A9 (U+2028 / U+2029) as
                                      \u2028 / \u2029; every other byte (0x7F included) unchanged
                     `proj` applies pass 1 to every option string (its parameter `utf8`); the text applies pass 2.  The normalised
                     query sits in the `KeyData` as it is, so the text applies both passes to it.
    int              strconv.AppendInt(_, 10): `-` and decimal digits without leading zeros
    bool             true / false
    float64          PARAMETER `fmt : bits → Bytes` (strconv.AppendFloat 'f' / 'e' with -1 precision, exponent clean-up): the only
                     facts used are `FloatFmtOK` below.  encoding/json writes -0 as `-0`.
    []string         nil: `null`, otherwise `[` elements separated by `,` `]`   (a nil or empty slice under omitempty is absent)
    map[string]float64   nil: `null`, otherwise `{` "key":value separated by `,` `}`; entries in the order of the *raw* keys
                     compared bytewise (`sortEntries`; a `Val.boosts` carries the entries in that order), keys written as strings
                     (both passes -- two raw keys that differ only in invalid bytes give two entries with the same text)
    object           `{` "name":value for every field that is not absent, separated by `,` `}`
  On a Marshal error (NaN / ±Inf) the code hashes fmt.Sprintf("%#v", keyData) instead: parameter `goText`, see `GoTextOK`.
-/
namespace Wtf.KeyJson
open Wtf Wtf.CacheLayer

/-! ### strings, pass 1: what utf8.DecodeRune makes of the bytes -/

/-- stands for "a byte that is not part of a valid UTF-8 sequence" -/
def badByte : UInt8 := 0xFF

/-- `k` = bytes still to copy of the rune being copied -/
def coerceAux : Nat → Bytes → Bytes
  | _, [] => []
  | k + 1, b :: rest => b :: coerceAux k rest
  | 0, b :: rest =>
    let d := Utf8.decodeRune (b :: rest)
    if d.1 == Utf8.runeError && d.2 == 1 then badByte :: coerceAux 0 rest
    else b :: coerceAux (d.2 - 1) rest

def coerce (s : Bytes) : Bytes := coerceAux 0 s

/-! ### strings, pass 2: escaping -/

def hexDigit (n : Nat) : UInt8 := if n < 10 then UInt8.ofNat (48 + n) else UInt8.ofNat (87 + n)

/-- one byte outside the two three-byte specials -/
def escByte (b : UInt8) : Bytes :=
  let n := b.toNat
  if n = 0x22 then [0x5C, 0x22]
  else if n = 0x5C then [0x5C, 0x5C]
  else if n = 0x08 then [0x5C, 0x62]
  else if n = 0x0C then [0x5C, 0x66]
  else if n = 0x0A then [0x5C, 0x6E]
  else if n = 0x0D then [0x5C, 0x72]
  else if n = 0x09 then [0x5C, 0x74]
  else if n < 0x20 ∨ n = 0x3C ∨ n = 0x3E ∨ n = 0x26 then [0x5C, 0x75, 0x30, 0x30, hexDigit (n / 16), hexDigit (n % 16)]
  else if n = 0xFF then [0x5C, 0x75, 0x66, 0x66, 0x66, 0x64]
  else [b]

/-- `\u202` ++ last -/
def u202x (last : UInt8) : Bytes := [0x5C, 0x75, 0x32, 0x30, 0x32, last]

def quoteBody : Bytes → Bytes
  | [] => []
  | b :: rest@(b1 :: b2 :: rest') =>
    if b.toNat = 0xE2 ∧ b1.toNat = 0x80 ∧ b2.toNat = 0xA8 then u202x 0x38 ++ quoteBody rest'
    else if b.toNat = 0xE2 ∧ b1.toNat = 0x80 ∧ b2.toNat = 0xA9 then u202x 0x39 ++ quoteBody rest'
    else escByte b ++ quoteBody rest
  | b :: rest => escByte b ++ quoteBody rest

def quote (a : Bytes) : Bytes := 0x22 :: (quoteBody a ++ [0x22])

/-- encoding/json's text of the Go string `s` -/
def goString (s : Bytes) : Bytes := quote (coerce s)

/-! ### numbers -/

/-- decimal digits, no leading zeros, "0" for 0 -/
def natDigits (n : Nat) : Bytes :=
  if n < 10 then [UInt8.ofNat (48 + n)] else natDigits (n / 10) ++ [UInt8.ofNat (48 + n % 10)]
decreasing_by omega

def intText (i : Int) : Bytes := if i < 0 then 0x2D :: natDigits i.natAbs else natDigits i.natAbs

/-- the alphabet of a JSON number: `0`-`9` `.` `e` `E` `+` `-` -/
def numChar (c : UInt8) : Bool :=
  let n := c.toNat
  (48 ≤ n && n ≤ 57) || n == 0x2E || n == 0x65 || n == 0x45 || n == 0x2B || n == 0x2D

/-- What is assumed of the float formatter, on the values json.Marshal accepts (64-bit patterns that are not NaN / ±Inf):
    its output is a string over the number alphabet, and it is injective on bit patterns.
    (strconv's shortest-round-trip formatting: ParseFloat (FormatFloat x) = x for every finite x, the sign of zero
    included -- encoding/json writes -0 as `-0`.  Monitored on the real formatter over every float the harness
    generates: class float-format.) -/
structure FloatFmtOK (fmt : Nat → Bytes) : Prop where
  alphabet : ∀ b, b < 2 ^ 64 → finiteBits b = true → ∀ c ∈ fmt b, numChar c = true
  inj : ∀ b b', b < 2 ^ 64 → b' < 2 ^ 64 → finiteBits b = true → finiteBits b' = true → fmt b = fmt b' → b = b'

/-! ### values, objects -/

/-- what follows an element of a `,`-separated, `close`-terminated sequence -/
def joinTail (close : UInt8) : List Bytes → Bytes
  | [] => [close]
  | x :: t => 0x2C :: (x ++ joinTail close t)

def joinClose (close : UInt8) : List Bytes → Bytes
  | [] => [close]
  | x :: t => x ++ joinTail close t

/-- ASCII literal -/
def lit (s : String) : Bytes := s.toList.map (fun c => UInt8.ofNat c.toNat)

def nullText : Bytes := [0x6E, 0x75, 0x6C, 0x6C]
def trueText : Bytes := [0x74, 0x72, 0x75, 0x65]
def falseText : Bytes := [0x66, 0x61, 0x6C, 0x73, 0x65]

/-- one map entry `"key":value` (the key has been through pass 1 already) -/
def encEntry (fmt : Nat → Bytes) (kv : Bytes × Nat) : Bytes := quote kv.1 ++ 0x3A :: fmt kv.2

/-- a value of the view (`Val.json utf8 v`: strings have been through pass 1) -/
def encVal (fmt : Nat → Bytes) : Val → Bytes
  | .int i => intText i
  | .bool b => if b then trueText else falseText
  | .float b => fmt b
  | .str s => quote s
  | .strs none => nullText
  | .strs (some l) => 0x5B :: joinClose 0x5D (l.map quote)
  | .boosts none => nullText
  | .boosts (some m) => 0x7B :: joinClose 0x7D (m.map (encEntry fmt))

/-- `"name":` -- json names are plain ASCII without `"` `\` `<` `>` `&` and controls (asserted by the translator and
    judged by `Wtf.C05.key_names_ok`), so encoding/json writes them unescaped -/
def jname (n : String) : Bytes := 0x22 :: (lit n ++ [0x22, 0x3A])

def encField (fmt : Nat → Bytes) (e : String × Option Val) : Option Bytes :=
  e.2.map (fun v => jname e.1 ++ encVal fmt v)

/-- the options object: the fields that are not absent, in declaration order -/
def objText (fmt : Nat → Bytes) (ko : KeyOpts) : Bytes := 0x7B :: joinClose 0x7D (ko.filterMap (encField fmt))

/-- json.Marshal(keyData); `qn`, `on` = json names of the two fields of the anonymous key struct -/
def jsonText (fmt : Nat → Bytes) (qn on : String) (q : Query) (ko : KeyOpts) : Bytes :=
  0x7B :: (jname qn ++ (goString q ++ 0x2C :: (jname on ++ (objText fmt ko ++ [0x7D]))))

/-- What is assumed of the Marshal-error text fmt.Sprintf("%#v", keyData) (not modelled): it determines the normalised
    query and the Go-syntax view (`goProj`: strconv.Quote is injective on byte strings, every field is printed, nil and
    empty print differently, map entries in sorted key order, all NaNs as `NaN`), and it begins with `s` ("struct {").
    (Monitored on the real texts: classes fallback-text-collision, fallback-text-shape.) -/
structure GoTextOK (goText : Query → List (String × Val) → Bytes) : Prop where
  inj : ∀ q v q' v', goText q v = goText q' v' → q = q' ∧ v = v'
  head : ∀ q v, ∃ t, goText q v = 0x73 :: t

/-- the bytes that generateCacheKey hashes, as a function of the key's pre-image -/
def keyText (fmt : Nat → Bytes) (goText : Query → List (String × Val) → Bytes) (qn on : String) : KeyData → Bytes
  | .hashed q ko => jsonText fmt qn on q ko
  | .goSyntax q vals => goText q vals
  | .fallback _ _ => []        -- pre-repair key shape, never produced by `keyOf`

/-! ### from a Go map to the entry list a `Val.boosts` carries -/

/-- strings.Compare(a, b) < 0 -/
def bytesLt : Bytes → Bytes → Bool
  | [], [] => false
  | [], _ :: _ => true
  | _ :: _, [] => false
  | a :: as, b :: bs => if a.toNat < b.toNat then true else if b.toNat < a.toNat then false else bytesLt as bs

def insertEntry (e : Bytes × Nat) : List (Bytes × Nat) → List (Bytes × Nat)
  | [] => [e]
  | x :: t => if bytesLt e.1 x.1 then e :: x :: t else x :: insertEntry e t

/-- slices.SortFunc(sv, strings.Compare on the raw keys) -/
def sortEntries (m : List (Bytes × Nat)) : List (Bytes × Nat) := m.foldr insertEntry []

/-! ### the kinds of value the text is modelled for -/

inductive Kind where
  | int | bool | float | str | strs | boosts
deriving DecidableEq, Repr

def kindOf : Val → Kind
  | .int _ => .int
  | .bool _ => .bool
  | .float _ => .float
  | .str _ => .str
  | .strs _ => .strs
  | .boosts _ => .boosts

/-- Go type (as printed by the translator) ↦ kind -/
def kindOfGo (t : String) : Option Kind :=
  if t == "int" then some .int
  else if t == "bool" then some .bool
  else if t == "float64" then some .float
  else if t == "string" then some .str
  else if t == "[]string" then some .strs
  else if t == "map[string]float64" then some .boosts
  else none

/-- float bit patterns are 64-bit patterns -/
def bitsOK : Val → Bool
  | .float b => b < 2 ^ 64
  | .boosts m => (m.getD []).all (fun kv => kv.2 < 2 ^ 64)
  | _ => true

end Wtf.KeyJson
