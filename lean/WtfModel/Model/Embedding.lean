import WtfModel.Basic.Bytes
import WtfModel.Basic.EScoreOps

/-!
  Model of `internal/embedding/embedding.go`, of the semantic stage
  (`database.applySemanticBoost`, the last step of `applyPostScoringBoosts`) and of
  `database.LoadEmbeddings`.  Core Lean only.

  * A file is its byte string; `os.File.Stat().Size()` is its length (regular files).
  * `bufio.Reader` + `binary.Read`/`io.ReadFull` is `readFull`: all-or-error, `EOF` when nothing
    was left, `unexpected EOF` when something but not enough was left, never an error for a
    zero-length read.
  * A `float32` read from a file is its 32-bit pattern (`F32`); arithmetic happens only after the
    pattern is converted into a score type (driver: `Float32.ofBits`, then `Float32.toFloat` — the
    widening `float64(x)` is exact).
  * Every allocation request the loaders make is appended to an allocation log, in program order,
    *also on the error paths* (the table is allocated before the records are read).
  * `…With (check := false)` is the code before commit 4457add (tables sized from the unchecked
    header); it exists only so that the necessity of the size check can be exhibited.
-/
namespace Wtf.Embedding
open Wtf

/-- bit pattern of a float32 as stored in the file (little endian u32) -/
abbrev F32 := UInt32

/-! ## Reader -/

inductive Eof
  | eof          -- io.EOF: no byte was available
  | unexpected   -- io.ErrUnexpectedEOF: some, but fewer than requested
deriving DecidableEq, Repr, Inhabited

/-- `io.ReadFull(reader, make([]byte, n))` on the unread rest of the file -/
def readFull (n : Nat) (bs : Bytes) : Except Eof (Bytes × Bytes) :=
  if n = 0 then .ok ([], bs)
  else if n ≤ bs.length then .ok (bs.take n, bs.drop n)
  else if bs.isEmpty then .error .eof
  else .error .unexpected

/-- little-endian unsigned integer -/
def leNat : Bytes → Nat
  | [] => 0
  | b :: bs => b.toNat + 256 * leNat bs

/-- `binary.Read(reader, LittleEndian, []float32)` decoding step: groups of four bytes -/
def f32sOfBytes : Bytes → List F32
  | a :: b :: c :: d :: rest => UInt32.ofNat (leNat [a, b, c, d]) :: f32sOfBytes rest
  | _ => []

/-! ## Allocation log -/

inductive Alloc
  | bytes (n : Nat)      -- make([]byte, n): read buffers, decode scratch of binary.Read, bufio's buffer
  | f32s (n : Nat)       -- make([]float32, n)
  | sliceHdrs (n : Nat)  -- make([][]float32, n)
  | mapHint (n : Nat)    -- make(map[string][]float32, n)
deriving DecidableEq, Repr

/-- Bytes per hinted map entry: 16 (string header) + 24 (slice header) + 1 control byte per slot,
    times at most 2 for the power-of-two table growth at load factor 7/8, rounded up. An estimate
    of the Go runtime's behaviour, fixed here so that the bound has explicit constants. -/
def mapEntryCost : Nat := 96

def Alloc.cost : Alloc → Nat
  | .bytes n => n
  | .f32s n => 4 * n
  | .sliceHdrs n => 24 * n
  | .mapHint n => mapEntryCost * n

def allocTotal (l : List Alloc) : Nat := (l.map Alloc.cost).sum

/-- `bufio.NewReader` default buffer -/
def bufioSize : Nat := 4096

/-! ## Errors -/

inductive Part
  | vocabSize | wordLen | word | vector | numCommands | dimension | embedding
deriving DecidableEq, Repr

inductive Err
  /-- "failed to read <field> [at i]: EOF | unexpected EOF" -/
  | short (f : Part) (i : Nat) (e : Eof)
  /-- "... file too short for n entries / embeddings" -/
  | tooShort (n : Nat)
  /-- "dimension mismatch: expected want, got got" -/
  | dimMismatch (want got : Nat)
deriving DecidableEq, Repr

/-! ## LoadWordVectors -/

abbrev WordRec := Bytes × List F32

structure WvOut where
  /-- `(*Index, error)`: on success the records in file order (the Go map is `wordMap` of it) -/
  res : Except Err (List WordRec)
  allocs : List Alloc

/-- allocations of one fully attempted record: decode scratch for the u16, the word buffer,
    the vector, the decode scratch of `binary.Read` for the vector -/
def wvRecAllocs (dim wl : Nat) : List Alloc := [.bytes 2, .bytes wl, .f32s dim, .bytes (4 * dim)]

/-- the `for i := uint32(0); i < vocabSize; i++` loop: `todo` records still to read, `i` the index
    used in error messages, `bs` the unread bytes -/
def wvRecords (dim : Nat) : (todo : Nat) → (i : Nat) → Bytes → WvOut
  | 0, _, _ => ⟨.ok [], []⟩
  | todo + 1, i, bs =>
    match readFull 2 bs with
    | .error e => ⟨.error (.short .wordLen i e), [.bytes 2]⟩
    | .ok (lb, bs1) =>
      let wl := leNat lb
      match readFull wl bs1 with
      | .error e => ⟨.error (.short .word i e), [.bytes 2, .bytes wl]⟩
      | .ok (w, bs2) =>
        match readFull (4 * dim) bs2 with
        | .error e => ⟨.error (.short .vector i e), wvRecAllocs dim wl⟩
        | .ok (vb, bs3) =>
          let r := wvRecords dim todo (i + 1) bs3
          ⟨match r.res with
            | .ok recs => .ok ((w, f32sOfBytes vb) :: recs)
            | .error e => .error e,
           wvRecAllocs dim wl ++ r.allocs⟩

/-- `LoadWordVectors` on a file with content `file`; `dim` is the literal `Dimension: 100`.
    `check = true` is the code at HEAD. -/
def parseWordVectorsWith (check : Bool) (dim : Nat) (file : Bytes) : WvOut :=
  match readFull 4 file with
  | .error e => ⟨.error (.short .vocabSize 0 e), [.bytes bufioSize, .bytes 4]⟩
  | .ok (hb, rest) =>
    let n := leNat hb
    -- maxRecords := remainingBytes(f, 4) / int64(2+4*idx.Dimension); int64(vocabSize) > maxRecords
    if check && decide (n > (file.length - 4) / (2 + 4 * dim)) then
      ⟨.error (.tooShort n), [.bytes bufioSize, .bytes 4]⟩
    else
      let r := wvRecords dim n 0 rest
      ⟨r.res, [.bytes bufioSize, .bytes 4, .mapHint n] ++ r.allocs⟩

def parseWordVectors (dim : Nat) (file : Bytes) : WvOut := parseWordVectorsWith true dim file

/-- `idx.WordVectors[word] = vector` in file order: a later record replaces an earlier one -/
def lookupWord {V : Type} (recs : List (Bytes × V)) (w : Bytes) : Option V :=
  (recs.reverse.find? (fun r => r.1 == w)).map (·.2)

/-- distinct elements, first-occurrence order -/
def distinct : List Bytes → List Bytes
  | [] => []
  | x :: xs => x :: (distinct xs).filter (fun y => y != x)

/-- the distinct words (first-occurrence order); `len(idx.WordVectors)` is its length -/
def vocab {V : Type} (recs : List (Bytes × V)) : List Bytes := distinct (recs.map (·.1))

/-! ## LoadCommandEmbeddings -/

structure CeOut where
  err : Option Err
  /-- `none`: `idx.CmdEmbeddings` was not assigned; `some t`: assigned, a slot that was never
      filled (nil slice) is `[]` -/
  table : Option (List (List F32))
  allocs : List Alloc

def ceRecAllocs (dim : Nat) : List Alloc := [.f32s dim, .bytes (4 * dim)]

/-- the read loop; on a short read the remaining slots stay nil -/
def ceRecords (dim : Nat) : (todo : Nat) → (i : Nat) → Bytes → List (List F32) × Option Err × List Alloc
  | 0, _, _ => ([], none, [])
  | todo + 1, i, bs =>
    match readFull (4 * dim) bs with
    | .error e => (List.replicate (todo + 1) [], some (.short .embedding i e), ceRecAllocs dim)
    | .ok (vb, bs1) =>
      let r := ceRecords dim todo (i + 1) bs1
      (f32sOfBytes vb :: r.1, r.2.1, ceRecAllocs dim ++ r.2.2)

/-- `(*Index).LoadCommandEmbeddings` for an index with `Dimension = dim` -/
def parseCmdEmbeddingsWith (check : Bool) (dim : Nat) (file : Bytes) : CeOut :=
  match readFull 4 file with
  | .error e => ⟨some (.short .numCommands 0 e), none, [.bytes bufioSize, .bytes 4]⟩
  | .ok (nb, rest) =>
    match readFull 4 rest with
    | .error e => ⟨some (.short .dimension 0 e), none, [.bytes bufioSize, .bytes 4, .bytes 4]⟩
    | .ok (db, rest2) =>
      let n := leNat nb
      let d := leNat db
      let hdr : List Alloc := [.bytes bufioSize, .bytes 4, .bytes 4]
      if d ≠ dim then ⟨some (.dimMismatch dim d), none, hdr⟩
      else
        -- recordSize := 4*dimension
        -- numCommands > 0 && (recordSize == 0 || numCommands > remainingBytes(f, 8)/recordSize)
        if check && (decide (n > 0) && (decide (4 * d = 0) || decide (n > (file.length - 8) / (4 * d)))) then
          ⟨some (.tooShort n), none, hdr⟩
        else
          let r := ceRecords d n 0 rest2
          ⟨r.2.1, some r.1, hdr ++ [.sliceHdrs n] ++ r.2.2⟩

def parseCmdEmbeddings (dim : Nat) (file : Bytes) : CeOut := parseCmdEmbeddingsWith true dim file

/-! ## Index, LoadEmbeddings -/

/-- `embedding.Index` with components of type `V` -/
structure Index (V : Type) where
  dim : Nat
  /-- `WordVectors`, as the list of stores in order (later wins) -/
  words : List (Bytes × List V)
  /-- `CmdEmbeddings`; a nil slot is `[]` -/
  cmds : List (List V)

def Index.map {V W : Type} (f : V → W) (x : Index V) : Index W :=
  ⟨x.dim, x.words.map (fun r => (r.1, r.2.map f)), x.cmds.map (·.map f)⟩

/-- `(*Database).LoadEmbeddings`: `glove`/`cmdFile` are the contents of the two asset files if
    `FindAssetPath` found them.  The result is the value of `db.embeddingIndex` afterwards
    (the function itself always returns a nil error). -/
def loadEmbeddings (dim : Nat) (glove cmdFile : Option Bytes) : Option (Index F32) :=
  match glove with
  | none => none
  | some g =>
    match (parseWordVectors dim g).res with
    | .error _ => none
    | .ok recs =>
      let cmds := match cmdFile with
        | none => []
        | some c => ((parseCmdEmbeddings dim c).table).getD []
      some ⟨dim, recs, cmds⟩

/-! ## CosineSimilarity -/

section Scores
variable {S : Type} [EScoreOps S]
open EScoreOps

/-- the accumulation loop, index order: `(dot, normA, normB)` -/
def cosAcc : List S → List S → S × S × S → S × S × S
  | a :: as, b :: bs, (d, na, nb) => cosAcc as bs (add d (mul a b), add na (mul a a), add nb (mul b b))
  | _, _, acc => acc

/-- `-1` -/
def negOne : S := sub zero one

/-- the NaN rule and the clamp at the end of `CosineSimilarity` -/
def clampCos (c : S) : S :=
  if isNaN c then zero
  else if lt one c then one
  else if lt c negOne then negOne
  else c

/-- the quotient before the NaN rule and the clamp (the value returned before commit 9a1ef08) -/
def cosineRaw (a b : List S) : S :=
  if a.length != b.length || a.length == 0 then zero
  else
    let acc := cosAcc a b (zero, zero, zero)
    if eq acc.2.1 zero || eq acc.2.2 zero then zero
    else div acc.1 (mul (sqrt acc.2.1) (sqrt acc.2.2))

/-- `embedding.CosineSimilarity` on vectors already widened to the score type -/
def cosine (a b : List S) : S :=
  if a.length != b.length || a.length == 0 then zero
  else
    let acc := cosAcc a b (zero, zero, zero)
    if eq acc.2.1 zero || eq acc.2.2 zero then zero
    else clampCos (div acc.1 (mul (sqrt acc.2.1) (sqrt acc.2.2)))

/-- `(*Index).SemanticScores`: `none` is the nil result -/
def semanticScores (cmds : List (List S)) (q : Option (List S)) : Option (List S) :=
  match q with
  | none => none
  | some qv => if cmds.isEmpty then none else some (cmds.map (cosine qv))

/-! ## Semantic stage -/

/-- the body of the boost loop for one result `(command index, score)`;
    `sim id = none` models `!ok || idx >= len(semanticScores)` -/
def boostOne (α floor : S) (sim : Nat → Option S) (r : Nat × S) : Nat × S :=
  match sim r.1 with
  | some s => if ge s floor then (r.1, mul r.2 (add one (mul α s))) else r
  | none => r

/-- `sort.SliceStable(results, func(i, j) bool { return results[i].Score > results[j].Score })`:
    `x` may stay in front of `y` unless `y.Score > x.Score`. -/
def keepsOrder (x y : Nat × S) : Bool := !(gt y.2 x.2)

def sortDesc (l : List (Nat × S)) : List (Nat × S) := l.mergeSort keepsOrder

/-- boost loop + stable re-sort of `applySemanticBoost` -/
def semanticStage (α floor : S) (sim : Nat → Option S) (results : List (Nat × S)) : List (Nat × S) :=
  sortDesc (results.map (boostOne α floor sim))

end Scores

/-! ## EmbedQuery -/

inductive Panic
  | indexOutOfRange
deriving DecidableEq, Repr

section Embed
variable {V : Type} [EScoreOps V]
open EScoreOps

/-- `for i, v := range vec { sum[i] += v }` — panics when `vec` is longer than `sum` -/
def addVec : List V → List V → Except Panic (List V)
  | sum, [] => .ok sum
  | [], _ :: _ => .error .indexOutOfRange
  | s :: ss, v :: vs =>
    match addVec ss vs with
    | .ok r => .ok (add s v :: r)
    | .error e => .error e

def sumKnown (lookup : Bytes → Option (List V)) : List Bytes → List V × Nat → Except Panic (List V × Nat)
  | [], acc => .ok acc
  | t :: ts, (sum, count) =>
    match lookup t with
    | none => sumKnown lookup ts (sum, count)
    | some vec =>
      match addVec sum vec with
      | .ok s' => sumKnown lookup ts (s', count + 1)
      | .error e => .error e

/-- `(*Index).EmbedQuery` after tokenisation: average (in `V` arithmetic, i.e. float32) of the
    vectors of the known tokens; `none` is the nil result -/
def embedTokens (dim : Nat) (lookup : Bytes → Option (List V)) (tokens : List Bytes) : Except Panic (Option (List V)) :=
  if tokens.isEmpty then .ok none
  else
    match sumKnown lookup tokens (List.replicate dim zero, 0) with
    | .error e => .error e
    | .ok (sum, count) =>
      if count = 0 then .ok none
      else .ok (some (sum.map (fun x => div x (ofNat count))))

end Embed

/-! ## tokenize (ASCII) -/

def isAsciiAlnum (b : UInt8) : Bool :=
  (48 ≤ b && b ≤ 57) || (65 ≤ b && b ≤ 90) || (97 ≤ b && b ≤ 122)

def lowerAscii (b : UInt8) : UInt8 := if 65 ≤ b && b ≤ 90 then b + 32 else b

def isAscii (q : Bytes) : Bool := q.all (· < 128)

/-- `strings.FieldsFunc(s, notLetterOrNumber)` for ASCII `s` -/
def fieldsAlnum : Bytes → Bytes → List Bytes
  | [], cur => if cur.isEmpty then [] else [cur.reverse]
  | b :: bs, cur =>
    if isAsciiAlnum b then fieldsAlnum bs (b :: cur)
    else if cur.isEmpty then fieldsAlnum bs []
    else cur.reverse :: fieldsAlnum bs []

/-- `embedding.tokenize` — exact for ASCII input (`isAscii q`); for other input the tokeniser is
    Unicode-wide (`strings.ToLower`, `unicode.IsLetter/IsNumber`) and stays outside this model:
    every statement about the semantic stage quantifies over the token list. -/
def tokenizeAscii (q : Bytes) : List Bytes :=
  (fieldsAlnum (q.map lowerAscii) []).filter (fun w => decide (w.length ≥ 2))

/-! ## applySemanticBoost and the gate in applyPostScoringBoosts -/

section Boost
variable {S V : Type} [EScoreOps S] [EScoreOps V]

/-- `(*Database).applySemanticBoost`. `widen` is `float64(x)`; `dbSize = len(db.Commands)`: a
    result whose command is not one of the database's (`!ok`) has `id ≥ dbSize`. -/
def applySemanticBoost (α floor : S) (widen : V → S) (idx : Index V) (dbSize : Nat)
    (tokens : List Bytes) (results : List (Nat × S)) : Except Panic (List (Nat × S)) :=
  match embedTokens idx.dim (lookupWord idx.words) tokens with
  | .error e => .error e
  | .ok q =>
    match q with
    | none => .ok results
    | some qv =>
      match semanticScores (idx.cmds.map (·.map widen)) (some (qv.map widen)) with
      | none => .ok results
      | some sims =>
        .ok (semanticStage α floor (fun id => if id < dbSize then sims[id]? else none) results)

/-- the last step of `applyPostScoringBoosts`:
    `if db.HasEmbeddings() && len(results) > 0 { results = db.applySemanticBoost(results, query) }` -/
def postSemantic (α floor : S) (widen : V → S) (emb : Option (Index V)) (dbSize : Nat)
    (tokens : List Bytes) (results : List (Nat × S)) : Except Panic (List (Nat × S)) :=
  match emb with
  | none => .ok results
  | some idx => if results.isEmpty then .ok results else applySemanticBoost α floor widen idx dbSize tokens results

end Boost

end Wtf.Embedding
