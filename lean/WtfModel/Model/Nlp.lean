import WtfModel.Basic.GoStr
import WtfModel.Basic.Hint
import WtfModel.Gen.StopWords
import WtfModel.Gen.NlpTables
import WtfModel.Gen.Hints
/-
  Model of the NLP query analysis of package internal/nlp as it is at /repo HEAD:
    QueryProcessor.ProcessQuery (processor.go)  and  ProcessedQuery.GetEnhancedKeywords (+ processor_helpers.go,
    hints.go).  Core Lean only.

  Everything table-like is a field of `Tables` / `HintSpec`; `genTables` / `genHintSpec` are the values the
  translator regenerates from the source on every run (Gen/NlpTables.lean, Gen/Hints.lean, Gen/StopWords.lean).
  The functions below are the algorithm; the theorems of Props/C06.lean hold for *every* `Tables` value and
  every hint function, so a change of a table entry flows through without touching a proof.

  Text: `cleanQuery` replaces every rune outside `[A-Za-z0-9_]`, `[\t\n\f\r ]`, `-`, `.` by one space (RE2: `\w`
  and `\s` are ASCII-only; an invalid UTF-8 byte is one rune U+FFFD), collapses runs of `\s` to one space and
  trims.  Because the collapse follows, replacing every *byte* outside the class gives the same string as
  replacing every *rune* (a multi-byte rune becomes several spaces instead of one, then one again), so the model
  is byte-level.  After cleaning only ASCII remains, so `strings.ToLower` / `strings.Fields` are their ASCII
  versions.  The view-context clause reads the *raw* query lower-cased by the Unicode-aware `strings.ToLower`
  (`GoStr.toLower` over the `RuneInfo` facts: U+212A lower-cases to `k`, U+0130 to `i`).
-/
namespace Wtf.Nlp
open Text

/-- String literal → UTF-8 bytes, by structural recursion (reducible by the kernel, unlike `String.toUTF8`) -/
def ofStr (s : String) : Bytes := s.toList.flatMap (fun c => Utf8.encodeRune c.toNat)

structure IntentCase where
  labels : List Bytes
  intent : Bytes
  viewGuard : Bool          -- the case returns only `if qp.isViewContext(actions)`
deriving Repr

structure Tables where
  stop : List Bytes                              -- buildStopWords
  actions : List (Bytes × List Bytes)            -- buildActionWords
  targets : List (Bytes × List Bytes)            -- buildTargetWords
  synonyms : List (Bytes × List Bytes)           -- buildSynonyms
  general : Bytes                                -- IntentGeneral
  fromActions : List (List Bytes × Bytes)        -- detectIntentFromActions switch
  fromKeywords : List IntentCase                 -- detectIntentFromKeywords switch
  viewActions : List Bytes                       -- isViewContext
  clearActions : List Bytes
  intentKeywords : List (Bytes × List Bytes)     -- getIntentKeywords
  viewSubs : List Bytes                          -- ProcessQuery: hasViewContext substrings
  withoutSubs : List Bytes                       -- ProcessQuery: hasWithoutOpening substrings
  ctxActions : List Bytes                        -- actions appended by the view-context clause
  ipWord : Bytes
  ipCompanions : List Bytes
  ipHint : Bytes
  actionLimit : Nat
  targetLimit : Nat
  threshold : Nat

/-- Go map lookup on a map literal (keys are distinct) -/
def assoc {α : Type} (m : List (Bytes × α)) (k : Bytes) : Option α := (m.find? (·.1 == k)).map (·.2)

/-! ### cleanQuery, words -/

def isWordB (b : UInt8) : Bool := isAlnumB b || b == 0x5F
/-- RE2 `\s` = `[\t\n\f\r ]` -/
def isReSpaceB (b : UInt8) : Bool := b == 0x09 || b == 0x0A || b == 0x0C || b == 0x0D || b == 0x20
/-- the complement of `[^\w\s\-.]` on bytes -/
def keptB (b : UInt8) : Bool := isWordB b || isReSpaceB b || b == 0x2D || b == 0x2E
/-- white space of strings.TrimSpace / strings.Fields on an ASCII string: `\t\n\v\f\r` and space -/
def isAsciiSpaceB (b : UInt8) : Bool := b == 0x20 || (0x09 ≤ b && b ≤ 0x0D)

def substB (q : Bytes) : Bytes := q.map (fun b => if keptB b then b else 0x20)

/-- `\s+` → " " (the flag says: the previous byte was white space) -/
def collapseAux : Bool → Bytes → Bytes
  | _, [] => []
  | insp, b :: rest =>
    if isReSpaceB b then (if insp then collapseAux true rest else 0x20 :: collapseAux true rest)
    else b :: collapseAux false rest

def trimB (s : Bytes) : Bytes := ((s.dropWhile isAsciiSpaceB).reverse.dropWhile isAsciiSpaceB).reverse

/-- QueryProcessor.cleanQuery (= nlp.NormalizeText) -/
def clean (q : Bytes) : Bytes := trimB (collapseAux false (substB q))

def fieldsAux : Bytes → Bytes → List Bytes
  | [], cur => if cur.isEmpty then [] else [cur.reverse]
  | b :: rest, cur =>
    if isAsciiSpaceB b then (if cur.isEmpty then fieldsAux rest [] else cur.reverse :: fieldsAux rest [])
    else fieldsAux rest (b :: cur)

/-- strings.Fields(strings.ToLower(cleaned)) -/
def words (q : Bytes) : List Bytes := fieldsAux (lowerAscii (clean q)) []

/-! ### removeDuplicates -/

def dedupAux : List Bytes → List Bytes → List Bytes
  | [], _ => []
  | x :: xs, seen => if seen.contains x then dedupAux xs seen else x :: dedupAux xs (x :: seen)

/-- removeDuplicates: first occurrences, in order -/
def dedup (l : List Bytes) : List Bytes := dedupAux l []

/-! ### the word loop of ProcessQuery

  Each word contributes independently of what was collected before (`continue` after each class), so the
  three lists are `flatMap`s of a per-word contribution. -/

def isStop (Tb : Tables) (w : Bytes) : Bool := Tb.stop.contains w

def wordActions (Tb : Tables) (w : Bytes) : List Bytes :=
  if isStop Tb w then [] else (assoc Tb.actions w).getD []

def wordTargets (Tb : Tables) (w : Bytes) : List Bytes :=
  if isStop Tb w then [] else
  match assoc Tb.actions w with
  | some _ => []
  | none => (assoc Tb.targets w).getD []

/-- first synonym of a word that has a (non-empty) synonym entry -/
def firstSynonym (Tb : Tables) (w : Bytes) : List Bytes :=
  match assoc Tb.synonyms w with
  | some (s :: _) => [s]
  | _ => []

def wordKeywords (Tb : Tables) (w : Bytes) : List Bytes :=
  if isStop Tb w then [] else
  match assoc Tb.actions w with
  | some _ => []
  | none =>
    match assoc Tb.targets w with
    | some _ => [w]
    | none => w :: firstSynonym Tb w

/-! ### intent detection -/

def intentFromActions (Tb : Tables) (actions : List Bytes) : Bytes :=
  (actions.findSome? (fun a => (Tb.fromActions.find? (·.1.contains a)).map (·.2))).getD Tb.general

def isViewContext (Tb : Tables) (actions : List Bytes) : Bool :=
  let hasView := actions.any Tb.viewActions.contains
  let hasClear := actions.any Tb.clearActions.contains
  hasView || (!hasClear && actions.isEmpty)

def intentFromKeywords (Tb : Tables) (keywords actions : List Bytes) : Bytes :=
  (keywords.findSome? (fun k =>
    match Tb.fromKeywords.find? (·.labels.contains k) with
    | some c => if !c.viewGuard || isViewContext Tb actions then some c.intent else none
    | none => none)).getD Tb.general

def detectIntent (Tb : Tables) (actions keywords : List Bytes) : Bytes :=
  let i := intentFromActions Tb actions
  if i != Tb.general then i else intentFromKeywords Tb keywords actions

/-! ### ProcessQuery -/

structure Analysis where
  cleaned : Bytes := []
  actions : List Bytes := []
  targets : List Bytes := []
  keywords : List Bytes := []
  intent : Bytes := []
deriving Repr, DecidableEq

/-- keywords before removeDuplicates: each content word, immediately followed by its first synonym if it is
    neither an action nor a target word -/
def rawKeywords (Tb : Tables) (q : Bytes) : List Bytes := (words q).flatMap (wordKeywords Tb)

def processQuery (Tb : Tables) (ri : RuneInfo) (q : Bytes) : Analysis :=
  let ws := words q
  let ql := GoStr.toLower ri q
  let hasView := Tb.viewSubs.any (containsB ql)
  let hasWithout := Tb.withoutSubs.any (containsB ql)
  let acts0 := ws.flatMap (wordActions Tb)
  let acts := if hasView && hasWithout then acts0 ++ Tb.ctxActions else acts0
  let tgts := ws.flatMap (wordTargets Tb)
  let kws := rawKeywords Tb q
  { cleaned := clean q
    actions := dedup acts
    targets := dedup tgts
    keywords := dedup kws
    intent := detectIntent Tb acts kws }

/-! ### getCommandHints (interpreter of the regenerated rules) -/

structure HintSpec where
  actionFields : List String      -- ProcessedQuery fields the closure hasAction consults
  targetFields : List String
  keywordFields : List String
  rules : List HintRule

def field (a : Analysis) (f : String) : List Bytes :=
  if f == "Actions" then a.actions else if f == "Targets" then a.targets
  else if f == "Keywords" then a.keywords else []

def anyOf (a : Analysis) (fields : List String) (ss : List String) : Bool :=
  fields.any (fun f => (field a f).any (fun t => ss.any (fun s => ofStr s == t)))

def evalCond (H : HintSpec) (a : Analysis) : Cond → Bool
  | .hasAction s => anyOf a H.actionFields [s]
  | .hasTarget ss => anyOf a H.targetFields ss
  | .hasKeyword ss => anyOf a H.keywordFields ss
  | .intentIs i => a.intent == ofStr i
  | .not c => !evalCond H a c
  | .and c d => evalCond H a c && evalCond H a d
  | .or c d => evalCond H a c || evalCond H a d

def hintsOf (H : HintSpec) (a : Analysis) : List Bytes :=
  H.rules.flatMap (fun r => if r.guards.all (evalCond H a) then r.lits.map ofStr else [])

/-! ### GetEnhancedKeywords -/

def intentKw (Tb : Tables) (intent : Bytes) : List Bytes := (assoc Tb.intentKeywords intent).getD []

/-- the expanded list before the final removeDuplicates; `hints` is getCommandHints -/
def enhancedRaw (Tb : Tables) (hints : Analysis → List Bytes) (a : Analysis) : List Bytes :=
  let e0 := a.keywords ++ hints a
  let e1 := if a.keywords.contains Tb.ipWord && Tb.ipCompanions.any a.keywords.contains then e0 ++ [Tb.ipHint] else e0
  let e2 := e1 ++ a.actions.take Tb.actionLimit ++ a.targets.take Tb.targetLimit
  if e2.length < Tb.threshold then e2 ++ intentKw Tb a.intent else e2

def enhancedKeywords (Tb : Tables) (hints : Analysis → List Bytes) (a : Analysis) : List Bytes :=
  dedup (enhancedRaw Tb hints a)

/-! ### the regenerated instance -/

def convTable (t : List (String × List String)) : List (Bytes × List Bytes) :=
  t.map (fun (k, vs) => (ofStr k, vs.map ofStr))

def genTables : Tables :=
  { stop := Gen.StopWords.words.map ofStr
    actions := convTable Gen.NlpTables.actionWords
    targets := convTable Gen.NlpTables.targetWords
    synonyms := convTable Gen.NlpTables.synonyms
    general := ofStr Gen.NlpTables.intentGeneral
    fromActions := Gen.NlpTables.intentFromActions.map (fun (ls, i) => (ls.map ofStr, ofStr i))
    fromKeywords := Gen.NlpTables.intentFromKeywords.map (fun (ls, i, g) => { labels := ls.map ofStr, intent := ofStr i, viewGuard := g })
    viewActions := Gen.NlpTables.viewActions.map ofStr
    clearActions := Gen.NlpTables.clearActions.map ofStr
    intentKeywords := convTable Gen.NlpTables.intentKeywords
    viewSubs := Gen.NlpTables.viewContextSubstrings.map ofStr
    withoutSubs := Gen.NlpTables.withoutOpeningSubstrings.map ofStr
    ctxActions := Gen.NlpTables.viewContextActions.map ofStr
    ipWord := ofStr Gen.NlpTables.ipWord
    ipCompanions := Gen.NlpTables.ipCompanions.map ofStr
    ipHint := ofStr Gen.NlpTables.ipHint
    actionLimit := Gen.NlpTables.relevantActionLimit
    targetLimit := Gen.NlpTables.relevantTargetLimit
    threshold := Gen.NlpTables.intentKeywordThreshold }

def genHintSpec : HintSpec :=
  { actionFields := Gen.Hints.hasActionFields
    targetFields := Gen.Hints.hasTargetFields
    keywordFields := Gen.Hints.hasKeywordFields
    rules := Gen.Hints.rules }

/-- getCommandHints of the current source -/
def genHints : Analysis → List Bytes := hintsOf genHintSpec

/-- ProcessQuery followed by GetEnhancedKeywords, with the regenerated tables -/
def analyse (ri : RuneInfo) (q : Bytes) : Analysis × List Bytes :=
  let a := processQuery genTables ri q
  (a, enhancedKeywords genTables genHints a)

end Wtf.Nlp
