import WtfModel.Basic.Bytes
/-
  Model of the file-replacement protocols of WTF (internal/utils.WriteFileAtomic and, for contrast,
  os.WriteFile).  Core Lean only.

  * A file system is an association list `path ↦ content`; paths are opaque (`π`, decidable equality).
    Directories, permissions, inodes and open descriptors are not modelled: an operation names the path
    its descriptor was opened on.
  * Operations are system calls.  What is assumed of the kernel is exactly:
      - a `write` may stop after ANY prefix of its data (0..len) - because the process is killed, or
        because the call fails (ENOSPC, EFBIG, EIO ...) after a short write;
      - every other call either takes effect completely or (when it fails) not at all; in particular
        `rename` is atomic: the destination shows its old content or the complete source content.
  * A program step carries the clean-up the code runs when that step fails (`checked = true`:
    `if err != nil { cleanup; return err }`); an unchecked step ignores the failure and goes on.
  * `outcomes` enumerates EVERY way a run can end: killed before / inside / after any call (also during
    clean-up), any call failing (after any short write), clean-up calls themselves failing silently.
-/
namespace Wtf.AtomicWrite

abbrev Fs (π : Type) := List (π × Bytes)

inductive SysOp (π : Type) where
  | createTemp (t : π)            -- openat(O_RDWR|O_CREAT|O_EXCL): fresh empty file
  | openTrunc (p : π)             -- openat(O_WRONLY|O_CREAT|O_TRUNC): file exists and is empty afterwards
  | write (p : π) (data : Bytes)  -- appends at the descriptor's offset (descriptor freshly opened at 0 on an empty file)
  | chmod (p : π)
  | fsync (p : π)
  | close (p : π)
  | rename (a b : π)
  | unlink (p : π)
deriving DecidableEq, Repr

structure Step (π : Type) where
  op : SysOp π
  checked : Bool
  cleanup : List (SysOp π)
deriving DecidableEq, Repr

abbrev Prog (π : Type) := List (Step π)

inductive Outcome where
  | success         -- the command went on to print its success line
  | reportedError   -- an error was returned to the handler, which prints `Error ...` and does nothing further
  | killed          -- the process died; nothing more was printed
deriving DecidableEq, Repr

structure Result (π : Type) where
  fs : Fs π
  out : Outcome
  failed : Bool      -- some system call of the run failed
deriving DecidableEq, Repr

variable {π : Type} [DecidableEq π]

def read : Fs π → π → Option Bytes
  | [], _ => none
  | (q, b) :: r, p => if q = p then some b else read r p

def remove (fs : Fs π) (p : π) : Fs π := fs.filter (fun e => !decide (e.1 = p))

def put (fs : Fs π) (p : π) (b : Bytes) : Fs π := (p, b) :: remove fs p

/-- a system call that completes -/
def apply (fs : Fs π) : SysOp π → Fs π
  | .createTemp t => put fs t []
  | .openTrunc p => put fs p []
  | .write p d => match read fs p with
      | some c => put fs p (c ++ d)
      | none => fs
  | .chmod _ => fs
  | .fsync _ => fs
  | .close _ => fs
  | .rename a b => match read fs a with
      | some c => put (remove fs a) b c
      | none => fs
  | .unlink p => remove fs p

/-- the states a `write` can be stopped in: any prefix length `0..len` -/
def cuts (fs : Fs π) (p : π) (d : Bytes) : List (Fs π) :=
  (List.range (d.length + 1)).map (fun k => apply fs (.write p (d.take k)))

/-- states strictly inside a call (only `write` has any) -/
def partials (fs : Fs π) : SysOp π → List (Fs π)
  | .write p d => cuts fs p d
  | _ => []

/-- states a FAILED call can leave: a write may have stored a prefix; everything else has no effect -/
def failStates (fs : Fs π) : SysOp π → List (Fs π)
  | .write p d => cuts fs p d
  | _ => [fs]

/-- the clean-up after a failed checked step: killed at any point, each call effective or silently failing -/
def cleanupRuns (fs : Fs π) : List (SysOp π) → List (Result π)
  | [] => [⟨fs, .reportedError, true⟩]
  | c :: cs => ⟨fs, .killed, true⟩ :: (cleanupRuns (apply fs c) cs ++ cleanupRuns fs cs)

/-- every way a run of `prog` from `fs` can end -/
def outcomes (fs : Fs π) (failed : Bool) : Prog π → List (Result π)
  | [] => [⟨fs, .success, failed⟩]
  | s :: rest =>
    ⟨fs, .killed, failed⟩ :: ((partials fs s.op).map (fun f => ⟨f, .killed, failed⟩)
      ++ ((failStates fs s.op).flatMap (fun f1 => if s.checked then cleanupRuns f1 s.cleanup else outcomes f1 true rest)
      ++ outcomes (apply fs s.op) failed rest))

/-- kill-only semantics of a plain call sequence (what an strace of a successful run gives) -/
def crashStates (fs : Fs π) : List (SysOp π) → List (Fs π)
  | [] => [fs]
  | op :: rest => fs :: (partials fs op ++ crashStates (apply fs op) rest)

/-- `crashStates` with labels: (index of the call about to run / running, bytes of it already written) -/
def crashPoints (fs : Fs π) (i : Nat) : List (SysOp π) → List (Nat × Nat × Fs π)
  | [] => [(i, 0, fs)]
  | op :: rest =>
    (i, 0, fs) :: ((match op with
      | .write p d => (List.range (d.length + 1)).map (fun k => (i, k, apply fs (.write p (d.take k))))
      | _ => []) ++ crashPoints (apply fs op) (i + 1) rest)

/-- a complete, fault-free run -/
def runAll (fs : Fs π) (ops : List (SysOp π)) : Fs π := ops.foldl apply fs

/-- does the call change what `p` names? -/
def touches (p : π) : SysOp π → Bool
  | .createTemp t => decide (t = p)
  | .openTrunc q => decide (q = p)
  | .write q _ => decide (q = p)
  | .chmod _ => false
  | .fsync _ => false
  | .close _ => false
  | .rename a b => decide (a = p) || decide (b = p)
  | .unlink q => decide (q = p)

/-! ### The two programs -/

/-- utils.WriteFileAtomic: CreateTemp(dir(path)) → Write → Chmod → Sync → Close → Rename(tmp, path);
    `fail` = Close + Remove for the steps before Close, Remove alone afterwards. -/
def atomicProg (t p : π) (new : Bytes) : Prog π :=
  [ ⟨.createTemp t, true, []⟩,
    ⟨.write t new, true, [.close t, .unlink t]⟩,
    ⟨.chmod t, true, [.close t, .unlink t]⟩,
    ⟨.fsync t, true, [.close t, .unlink t]⟩,
    ⟨.close t, true, [.unlink t]⟩,
    ⟨.rename t p, true, [.unlink t]⟩ ]

/-- os.WriteFile on the live file: OpenFile(O_WRONLY|O_CREATE|O_TRUNC) → Write → Close -/
def inplaceProg (p : π) (new : Bytes) : Prog π :=
  [ ⟨.openTrunc p, true, []⟩,
    ⟨.write p new, true, [.close p]⟩,
    ⟨.close p, true, []⟩ ]

/-! ### Code shape as regenerated by the translator (`Gen/AtomicWrite.lean`) -/

inductive Tgt where | tmp | dst
deriving DecidableEq, Repr

inductive Kind where
  | createTemp | openTrunc | write | chmod | fsync | close | rename | unlink
deriving DecidableEq, Repr

structure ShapeStep where
  kind : Kind
  tgt : Tgt                       -- which file the call is made on (rename: always tmp → dst)
  checked : Bool                  -- the error result is tested and leads to `return err`
  cleanup : List (Kind × Tgt)     -- calls made on that error path before returning
deriving DecidableEq, Repr

def Kind.name : Kind → String
  | .createTemp => "createTemp" | .openTrunc => "openTrunc" | .write => "write" | .chmod => "chmod"
  | .fsync => "fsync" | .close => "close" | .rename => "rename" | .unlink => "unlink"

def instOp (t p : π) (new : Bytes) (k : Kind) (g : Tgt) : SysOp π :=
  let q := match g with | .tmp => t | .dst => p
  match k with
  | .createTemp => .createTemp q
  | .openTrunc => .openTrunc q
  | .write => .write q new
  | .chmod => .chmod q
  | .fsync => .fsync q
  | .close => .close q
  | .rename => .rename t p
  | .unlink => .unlink q

def instantiate (shape : List ShapeStep) (t p : π) (new : Bytes) : Prog π :=
  shape.map (fun s => ⟨instOp t p new s.kind s.tgt, s.checked, s.cleanup.map (fun c => instOp t p new c.1 c.2)⟩)

/-! ### A deterministic run with one planned fault (what the in-process correspondence executes) -/

/-- the state a call leaves when it fails after `k` bytes (only `write` stores anything) -/
def failAt (fs : Fs π) (k : Nat) : SysOp π → Fs π
  | .write p d => apply fs (.write p (d.take k))
  | _ => fs

/-- run `prog`; `fault = some (i, k)`: call number `i` fails after `k` bytes, clean-up fully effective -/
def runPlan (fs : Fs π) (failed : Bool) : Prog π → Option (Nat × Nat) → Result π
  | [], _ => ⟨fs, .success, failed⟩
  | s :: rest, some (0, k) =>
    if s.checked then ⟨runAll (failAt fs k s.op) s.cleanup, .reportedError, true⟩
    else runPlan (failAt fs k s.op) true rest none
  | s :: rest, some (i + 1, k) => runPlan (apply fs s.op) failed rest (some (i, k))
  | s :: rest, none => runPlan (apply fs s.op) failed rest none

end Wtf.AtomicWrite
