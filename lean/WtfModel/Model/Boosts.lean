import WtfModel.Model.Search
import WtfModel.Model.Nlp
import WtfModel.Basic.BoostRule
import WtfModel.Gen.Boosts
/-
  Model of the two per-document NLP factors of SearchUniversal as they are at /repo HEAD (core Lean only,
  generic over the score type; with `S := Float` the results are bit-identical to the Go code):

    calculateIntentBoost(cmd, pq)            search.go            → `intentBoost`
    calculateBoostForCommand(cmd, ctx)       cascading_boost.go   → `cascadeBoost`   (ctx = buildBoostContext(pq) → `buildCtx`)

  and `nlpOut`, the whole `Search.NlpOut` record that `SearchUniversal` works with when `options.UseNLP` is set:
  `pq = nlp.NewQueryProcessor().ProcessQuery(query)` with `query` the *normalised* query
  (`strings.ToLower(strings.TrimSpace(q))`, enhanceQueryWithNLP), `pq.GetEnhancedKeywords()` (both from `Model/Nlp.lean`)
  and the two factors above for every document.  `pq` is nil exactly when `UseNLP` is off (translator sites
  `boosts:SearchUniversal:pq`, `boosts:enhanceQueryWithNLP:pq`).

  Everything literal is a field of `Spec`; `genSpec` is the value the translator regenerates from the source on every
  run (`Gen/Boosts.lean`, vocabulary `Basic/BoostRule.lean`; xlate/x_boosts.go).  The float arithmetic is written with
  `ScoreOps.mul` / `add` / `ofQ` in the operation order of the Go code: `boost *= lit` is `mul boost (ofQ lit)`,
  `boost += f(..)` is `add boost (f ..)`.

  Go details kept: `strings.ToLower` is the Unicode one (`GoStr.toLower` over the case's rune facts; an invalid byte
  becomes U+FFFD); `getCommandBase` uses `strings.Fields` (Unicode white space); `calcContextBoost` tests the *raw*
  command (not lower-cased) first; `containsWord` pads with one space on both sides, so words are delimited by U+0020 only;
  `strings.Contains(x, "")` is true; `GetSynonyms` lower-cases its argument again.
-/
namespace Wtf.Boosts
open Text ScoreOps Boost
open Nlp (ofStr assoc Analysis)

variable {S : Type} [ScoreOps S]

/-- the regenerated facts the two functions are made of -/
structure Spec where
  intentInit : Q                             -- calculateIntentBoost: boost := 1.0
  intentSwitch : List (String × Stmt)        -- applyIntentBoost: intent ↦ body of boostXIntent
  intentDefault : Q
  actionBoosts : Stmt
  targetBoosts : Stmt
  cascadeInit : Q                            -- calculateBoostForCommand: boost := 1.0
  cascadeTerms : List CTerm                  -- the `boost +=` lines
  hintMiss : Q
  termMiss : Q
  contextMiss : Q
  intentNoEntry : Q
  intentHit : Q
  intentMiss : Q
  intentKeywords : List (String × List String)
  knownContexts : List String
  synonyms : List (Bytes × List Bytes)       -- nlp.buildSynonyms, read through processor.GetSynonyms

/-! ### the statement language of search.go's boost functions -/

/-- what the boost functions see of (cmd, pq) -/
structure Env where
  cmd : Bytes            -- strings.ToLower(cmd.Command)
  desc : Bytes           -- strings.ToLower(cmd.Description)
  actions : List Bytes   -- pq.Actions
  targets : List Bytes   -- pq.Targets

def Env.subj (e : Env) : Subj → Bytes
  | .cmd => e.cmd
  | .desc => e.desc

def Env.src (e : Env) : Src → List Bytes
  | .actions => e.actions
  | .targets => e.targets

/-- `v` is the current loop variable -/
def evalCond (e : Env) (v : Bytes) : BCond → Bool
  | .containsAny s lits => lits.any (fun l => containsB (e.subj s) (ofStr l))
  | .contains s lit => containsB (e.subj s) (ofStr lit)
  | .containsVar s => containsB (e.subj s) v
  | .varEq lit => v == ofStr lit
  | .not c => !evalCond e v c
  | .and a b => evalCond e v a && evalCond e v b
  | .or a b => evalCond e v a || evalCond e v b

/-- outcome of a statement: fall through with the current `boost`, or the function has returned -/
inductive Out (S : Type) where
  | cont (boost : S)
  | done (v : S)

def Out.val : Out S → S
  | .cont b => b
  | .done v => v

/-- `for _, v := range xs { body }` -/
def iter (body : Bytes → S → Out S) : List Bytes → S → Out S
  | [], b => .cont b
  | a :: rest, b =>
    match body a b with
    | .cont b' => iter body rest b'
    | .done v => .done v

def exec (e : Env) : Stmt → Bytes → S → Out S
  | .skip, _, b => .cont b
  | .ret q, _, _ => .done (ofQ q)
  | .retBoost, _, b => .done b
  | .set q, _, _ => .cont (ofQ q)
  | .mul q, _, b => .cont (mul b (ofQ q))
  | .ite c t f, v, b => if evalCond e v c then exec e t v b else exec e f v b
  | .loop src body, _, b => iter (fun a b' => exec e body a b') (e.src src) b
  | .seq a c, v, b =>
    match exec e a v b with
    | .cont b' => exec e c v b'
    | .done r => .done r

/-- value of a function whose body is `st` (every path of the translated bodies ends in a `return`: translator) -/
def runFn (e : Env) (st : Stmt) : S := (exec e st [] one).val

/-! ### calculateIntentBoost -/

/-- applyIntentBoost -/
def applyIntent (sp : Spec) (e : Env) (intent : Bytes) : S :=
  match sp.intentSwitch.find? (fun p => ofStr p.1 == intent) with
  | some p => runFn e p.2
  | none => ofQ sp.intentDefault

def envOf (ri : RuneInfo) (c : Cmd) (a : Analysis) : Env :=
  { cmd := GoStr.toLower ri c.command, desc := GoStr.toLower ri c.description, actions := a.actions, targets := a.targets }

/-- calculateIntentBoost(cmd, pq) -/
def intentBoostWith (sp : Spec) (ri : RuneInfo) (c : Cmd) (a : Analysis) : S :=
  let e := envOf ri c a
  mul (mul (mul (ofQ sp.intentInit) (applyIntent sp e a.intent)) (runFn e sp.actionBoosts)) (runFn e sp.targetBoosts)

/-! ### buildBoostContext -/

structure Ctx where
  actionTerms : List Bytes := []
  targetTerms : List Bytes := []
  keywordTerms : List Bytes := []
  hints : List Bytes := []        -- pq.GetEnhancedKeywords()
  contexts : List Bytes := []
  intent : Bytes := []

def Ctx.terms (x : Ctx) : TermList → List Bytes
  | .actionTerms => x.actionTerms
  | .targetTerms => x.targetTerms
  | .keywordTerms => x.keywordTerms

/-- `if !seen[t] { expanded = append(expanded, t); seen[t] = true }` (seen = what was appended) -/
def addUnseen (acc : List Bytes) (t : Bytes) : List Bytes := if acc.contains t then acc else acc ++ [t]

/-- processor.GetSynonyms -/
def getSynonyms (sp : Spec) (ri : RuneInfo) (w : Bytes) : List Bytes := (assoc sp.synonyms (GoStr.toLower ri w)).getD []

/-- expandWithSynonyms -/
def expand (sp : Spec) (ri : RuneInfo) (terms : List Bytes) : List Bytes :=
  terms.foldl (fun acc t =>
    let t' := GoStr.toLower ri t
    (getSynonyms sp ri t').foldl (fun acc s => addUnseen acc (GoStr.toLower ri s)) (addUnseen acc t')) []

/-- extractContexts -/
def extractContexts (sp : Spec) (ri : RuneInfo) (keywords : List Bytes) : List Bytes :=
  keywords.filterMap (fun k =>
    let kl := GoStr.toLower ri k
    if sp.knownContexts.any (fun c => ofStr c == kl) then some kl else none)

def buildCtx (sp : Spec) (ri : RuneInfo) (a : Analysis) (enhanced : List Bytes) : Ctx :=
  { actionTerms := expand sp ri a.actions
    targetTerms := expand sp ri a.targets
    keywordTerms := expand sp ri a.keywords
    hints := enhanced
    contexts := extractContexts sp ri a.keywords
    intent := a.intent }

/-! ### calculateBoostForCommand -/

/-- containsWord -/
def containsWord (text word : Bytes) : Bool := containsB (0x20 :: (text ++ [0x20])) (0x20 :: (word ++ [0x20]))

/-- getCommandBase -/
def commandBase (ri : RuneInfo) (cmd : Bytes) : Bytes :=
  match GoStr.fields ri cmd with
  | p :: _ => p
  | [] => cmd

/-- calcHintBoost -/
def calcHint (sp : Spec) (ri : RuneInfo) (command : Bytes) (hints : List Bytes) (q : Q) : S :=
  let cl := GoStr.toLower ri command
  let base := commandBase ri cl
  if hints.any (fun h => let hl := GoStr.toLower ri h; base == hl || cl == hl) then ofQ q else ofQ sp.hintMiss

/-- calcTermBoost -/
def calcTerm (sp : Spec) (text : Bytes) (terms : List Bytes) (q : Q) : S :=
  if terms.any (containsWord text) then ofQ q else ofQ sp.termMiss

/-- calcContextBoost -/
def calcContext (sp : Spec) (command text : Bytes) (ctxs : List Bytes) (q : Q) : S :=
  if ctxs.any (fun x => containsWord command x || containsWord text x) then ofQ q else ofQ sp.contextMiss

/-- getIntentBoost -/
def getIntent (sp : Spec) (intent text : Bytes) : S :=
  match sp.intentKeywords.find? (fun p => ofStr p.1 == intent) with
  | none => ofQ sp.intentNoEntry
  | some p => if p.2.any (fun k => containsWord text (ofStr k)) then ofQ sp.intentHit else ofQ sp.intentMiss

/-- `strings.ToLower(cmd.Command + " " + cmd.Description + " " + strings.Join(cmd.Keywords, " "))` -/
def searchText (ri : RuneInfo) (c : Cmd) : Bytes :=
  GoStr.toLower ri (c.command ++ (0x20 :: (c.description ++ (0x20 :: joinSp c.keywords))))

def evalTerm (sp : Spec) (ri : RuneInfo) (c : Cmd) (text : Bytes) (x : Ctx) : CTerm → S
  | .hint q => calcHint sp ri c.command x.hints q
  | .term l q => calcTerm sp text (x.terms l) q
  | .context q => calcContext sp c.command text x.contexts q
  | .intent => getIntent sp x.intent text

/-- calculateBoostForCommand(cmd, ctx) -/
def cascadeBoostWith (sp : Spec) (ri : RuneInfo) (c : Cmd) (x : Ctx) : S :=
  let text := searchText ri c
  sp.cascadeTerms.foldl (fun b t => add b (evalTerm sp ri c text x t)) (ofQ sp.cascadeInit)

/-! ### the whole NLP output for one normalised query -/

def nlpOutWith (sp : Spec) (ri : RuneInfo) (db : Db) (nq : Bytes) : Search.NlpOut S :=
  let an := Nlp.analyse ri nq
  let x := buildCtx sp ri an.1 an.2
  { actions := an.1.actions
    targets := an.1.targets
    keywords := an.1.keywords
    enhanced := an.2
    intentBoost := fun d => match db[d]? with
      | some c => intentBoostWith sp ri c an.1
      | none => one
    cascade := fun d => match db[d]? with
      | some c => cascadeBoostWith sp ri c x
      | none => one }

/-! ### the regenerated instance -/

def genSpec : Spec :=
  { intentInit := Gen.Boosts.intentInit
    intentSwitch := Gen.Boosts.intentSwitch
    intentDefault := Gen.Boosts.intentDefault
    actionBoosts := Gen.Boosts.actionBoosts
    targetBoosts := Gen.Boosts.targetBoosts
    cascadeInit := Gen.Boosts.cascadeInit
    cascadeTerms := Gen.Boosts.cascadeTerms
    hintMiss := Gen.Boosts.hintMiss
    termMiss := Gen.Boosts.termMiss
    contextMiss := Gen.Boosts.contextMiss
    intentNoEntry := Gen.Boosts.intentNoEntry
    intentHit := Gen.Boosts.intentHit
    intentMiss := Gen.Boosts.intentMiss
    intentKeywords := Gen.Boosts.intentKeywords
    knownContexts := Gen.Boosts.knownContexts
    synonyms := Nlp.genTables.synonyms }

/-- calculateIntentBoost of the current source -/
def intentBoost (ri : RuneInfo) (c : Cmd) (a : Analysis) : S := intentBoostWith genSpec ri c a

/-- calculateBoostForCommand(cmd, buildBoostContext(pq)) of the current source -/
def cascadeBoost (ri : RuneInfo) (c : Cmd) (a : Analysis) (enhanced : List Bytes) : S :=
  cascadeBoostWith genSpec ri c (buildCtx genSpec ri a enhanced)

/-- what SearchUniversal's NLP layer yields for the normalised query `nq` on database `db` -/
def nlpOut (ri : RuneInfo) (db : Db) (nq : Bytes) : Search.NlpOut S := nlpOutWith genSpec ri db nq

end Wtf.Boosts
