/-
  The executable instance of `Wtf.History.Codec` used by the driver (core Lean only): a JSON
  reader/writer that follows what encoding/json (go1.25) does for the history file.

  * `parse` accepts exactly the documents `checkValid` accepts (RFC 8259 grammar, white space
    = space/tab/CR/LF, no control bytes inside strings, escapes `\" \\ \/ \b \f \n \r \t \uXXXX`,
    raw bytes >= 0x20 of any kind inside strings, exactly one top-level value).
    (Go's nesting limit of 10000 is not modelled.)
  * `unquote` follows `unquoteBytes`: escapes are resolved, `\u` surrogate pairs are combined, a lone
    surrogate and every byte that is not part of a valid UTF-8 sequence become U+FFFD.
  * number literals are classified the way `strconv.ParseInt(lit, 10, 64)` does: an optional minus
    and digits within the int64 range is an `int`, anything else (fraction, exponent, overflow) is `badnum`.
  * times: `parseTime` accepts the UTC form `YYYY-MM-DDTHH:MM:SS[.fraction]Z` with Go's range checks and
    yields a packed-decimal key relative to 0001-01-01T00:00:00Z, which is order-isomorphic to the
    instant.  Zone offsets and the lax forms `time.Parse` still lets through (one-digit hour, `,`
    as fraction separator) are NOT accepted here; the generators never produce them.
  The module is validated against the real encoding/json by the correspondence runs (`loadraw`,
  `save`/`load`); its round-trip laws (`Codec.LawsOn`) are proved in `Proofs/HistoryJson*.lean` and used
  by `Props/C16b.lean`.
-/
import WtfModel.Model.History
namespace Wtf.History.Json
open Wtf.History

def isWs (c : UInt8) : Bool := c == 32 || c == 9 || c == 10 || c == 13
def isDigit (c : UInt8) : Bool := 48 ≤ c && c ≤ 57
def isHex (c : UInt8) : Bool := isDigit c || (97 ≤ c && c ≤ 102) || (65 ≤ c && c ≤ 70)
def hexVal (c : UInt8) : Nat :=
  if isDigit c then c.toNat - 48 else if 97 ≤ c && c ≤ 102 then c.toNat - 87 else c.toNat - 55

def skipWs : Bytes → Bytes
  | [] => []
  | c :: cs => if isWs c then skipWs cs else c :: cs

/-! ### UTF-8 (Go's utf8.DecodeRune / EncodeRune) -/

def isCont (c : UInt8) : Bool := 0x80 ≤ c && c ≤ 0xBF

/-- number of bytes of the valid UTF-8 sequence at the head of the input, or 0 -/
def utf8Len : Bytes → Nat
  | [] => 0
  | a :: r =>
    if a < 0x80 then 1
    else if 0xC2 ≤ a && a ≤ 0xDF then
      match r with
      | b :: _ => if isCont b then 2 else 0
      | _ => 0
    else if 0xE0 ≤ a && a ≤ 0xEF then
      match r with
      | b :: c :: _ =>
        let lo : UInt8 := if a == 0xE0 then 0xA0 else 0x80
        let hi : UInt8 := if a == 0xED then 0x9F else 0xBF
        if lo ≤ b && b ≤ hi && isCont c then 3 else 0
      | _ => 0
    else if 0xF0 ≤ a && a ≤ 0xF4 then
      match r with
      | b :: c :: d :: _ =>
        let lo : UInt8 := if a == 0xF0 then 0x90 else 0x80
        let hi : UInt8 := if a == 0xF4 then 0x8F else 0xBF
        if lo ≤ b && b ≤ hi && isCont c && isCont d then 4 else 0
      | _ => 0
    else 0

def replacement : Bytes := [0xEF, 0xBF, 0xBD]

def encodeRune (r : Nat) : Bytes :=
  if r < 0x80 then [UInt8.ofNat r]
  else if r < 0x800 then [UInt8.ofNat (0xC0 + r / 64), UInt8.ofNat (0x80 + r % 64)]
  else if 0xD800 ≤ r ∧ r ≤ 0xDFFF then replacement
  else if r < 0x10000 then [UInt8.ofNat (0xE0 + r / 4096), UInt8.ofNat (0x80 + r / 64 % 64), UInt8.ofNat (0x80 + r % 64)]
  else if r < 0x110000 then
    [UInt8.ofNat (0xF0 + r / 262144), UInt8.ofNat (0x80 + r / 4096 % 64), UInt8.ofNat (0x80 + r / 64 % 64), UInt8.ofNat (0x80 + r % 64)]
  else replacement

def hex4 (a b c d : UInt8) : Nat := ((hexVal a * 16 + hexVal b) * 16 + hexVal c) * 16 + hexVal d

/-- `unquoteBytes` on the contents of an (already validated) string literal.  Fuel = input length. -/
def unquoteAux : Nat → Bytes → Bytes
  | 0, _ => []
  | _, [] => []
  | fuel + 1, a :: r =>
    if a == 92 then
      match r with
      | [] => []
      | e :: r1 =>
        if e == 117 then   -- \u
          match r1 with
          | h1 :: h2 :: h3 :: h4 :: r2 =>
            let u := hex4 h1 h2 h3 h4
            if 0xD800 ≤ u ∧ u ≤ 0xDFFF then
              match r2 with
              | b1 :: b2 :: g1 :: g2 :: g3 :: g4 :: r3 =>
                let u2 := hex4 g1 g2 g3 g4
                if b1 == 92 && b2 == 117 && isHex g1 && isHex g2 && isHex g3 && isHex g4
                    && decide (u < 0xDC00) && decide (0xDC00 ≤ u2) && decide (u2 ≤ 0xDFFF) then
                  encodeRune (0x10000 + (u - 0xD800) * 1024 + (u2 - 0xDC00)) ++ unquoteAux fuel r3
                else replacement ++ unquoteAux fuel r2
              | _ => replacement ++ unquoteAux fuel r2
            else encodeRune u ++ unquoteAux fuel r2
          | _ => []
        else
          let c : UInt8 :=
            if e == 98 then 8 else if e == 102 then 12 else if e == 110 then 10
            else if e == 114 then 13 else if e == 116 then 9 else e     -- " \ / stay
          c :: unquoteAux fuel r1
    else
      let n := utf8Len (a :: r)
      if n == 0 then replacement ++ unquoteAux fuel r
      else (a :: r).take n ++ unquoteAux fuel ((a :: r).drop n)

def unquote (raw : Bytes) : Bytes := unquoteAux raw.length raw

def hexDigitB (n : Nat) : UInt8 := if n < 10 then UInt8.ofNat (48 + n) else UInt8.ofNat (87 + n)

/-- escape a Go string for a literal: `"`, `\`, control bytes; everything else raw -/
def quote : Bytes → Bytes
  | [] => []
  | c :: r =>
    if c == 34 then 92 :: 34 :: quote r
    else if c == 92 then 92 :: 92 :: quote r
    else if c < 32 then [92, 117, 48, 48, hexDigitB (c.toNat / 16), hexDigitB (c.toNat % 16)] ++ quote r
    else c :: quote r

/-- fixed by sanitising = valid UTF-8 (what encoding/json can carry unchanged) -/
def ValidUtf8 (b : Bytes) : Prop := unquote (quote b) = b

/-! ### Scanner -/

/-- contents of a string literal after the opening quote: (raw contents, rest after the closing quote) -/
def scanString : Bytes → Bytes → Option (Bytes × Bytes)
  | [], _ => none
  | a :: r, acc =>
    if a == 34 then some (acc.reverse, r)
    else if a < 32 then none
    else if a == 92 then
      match r with
      | [] => none
      | e :: r1 =>
        if e == 117 then
          match r1 with
          | h1 :: h2 :: h3 :: h4 :: r2 =>
            if isHex h1 && isHex h2 && isHex h3 && isHex h4 then scanString r2 (h4 :: h3 :: h2 :: h1 :: e :: a :: acc) else none
          | _ => none
        else if e == 34 || e == 92 || e == 47 || e == 98 || e == 102 || e == 110 || e == 114 || e == 116 then
          scanString r1 (e :: a :: acc)
        else none
    else scanString r (a :: acc)

def takeDigits : Bytes → Bytes × Bytes
  | [] => ([], [])
  | c :: r => if isDigit c then let p := takeDigits r; (c :: p.1, p.2) else ([], c :: r)

def natOfDigits (ds : Bytes) : Nat := ds.foldl (fun n c => n * 10 + (c.toNat - 48)) 0

/-- a JSON number at the head of the input: (value, rest) -/
def scanNumber (s : Bytes) : Option (JVal × Bytes) :=
  let (neg, s1) := match s with
    | 45 :: r => (true, r)
    | _ => (false, s)
  let (ds, s2) := takeDigits s1
  if ds.isEmpty then none
  else if ds.length > 1 && ds.head? == some 48 then none      -- leading zero
  else
    -- fraction
    let fr : Option (Bool × Bytes) :=
      match s2 with
      | 46 :: r => let (fs, r') := takeDigits r; if fs.isEmpty then none else some (true, r')
      | _ => some (false, s2)
    match fr with
    | none => none
    | some (hasFrac, s3) =>
      let ex : Option (Bool × Bytes) :=
        match s3 with
        | c :: r =>
          if c == 101 || c == 69 then
            let r1 := match r with
              | 43 :: t => t
              | 45 :: t => t
              | _ => r
            let (es, r') := takeDigits r1
            if es.isEmpty then none else some (true, r')
          else some (false, s3)
        | [] => some (false, [])
      match ex with
      | none => none
      | some (hasExp, s4) =>
        if hasFrac || hasExp then some (.badnum, s4)
        else
          let n := natOfDigits ds
          let i : Int := if neg then - (n : Int) else (n : Int)
          if - (9223372036854775808 : Int) ≤ i ∧ i ≤ 9223372036854775807 then some (.int i, s4)
          else some (.badnum, s4)

def startsWith (p s : Bytes) : Option Bytes := if p.isPrefixOf s then some (s.drop p.length) else none

mutual
/-- one value at the head of the (white-space skipped) input -/
def parseValue : Nat → Bytes → Option (JVal × Bytes)
  | 0, _ => none
  | fuel + 1, s =>
    match skipWs s with
    | [] => none
    | c :: r =>
      if c == 123 then        -- {
        match skipWs r with
        | 125 :: r' => some (.obj [], r')
        | r' => parseMembers fuel r' []
      else if c == 91 then    -- [
        match skipWs r with
        | 93 :: r' => some (.arr [], r')
        | r' => parseElems fuel r' []
      else if c == 34 then
        match scanString r [] with
        | some (raw, r') => some (.str raw, r')
        | none => none
      else if c == 116 then (startsWith [114, 117, 101] r).map (fun r' => (.bool true, r'))
      else if c == 102 then (startsWith [97, 108, 115, 101] r).map (fun r' => (.bool false, r'))
      else if c == 110 then (startsWith [117, 108, 108] r).map (fun r' => (.null, r'))
      else if c == 45 || isDigit c then scanNumber (c :: r)
      else none

/-- `"key" : value` pairs up to the closing brace (input starts at a key) -/
def parseMembers : Nat → Bytes → List (Bytes × JVal) → Option (JVal × Bytes)
  | 0, _, _ => none
  | fuel + 1, s, acc =>
    match skipWs s with
    | 34 :: r =>
      match scanString r [] with
      | none => none
      | some (rawKey, r1) =>
        match skipWs r1 with
        | 58 :: r2 =>
          match parseValue fuel r2 with
          | none => none
          | some (v, r3) =>
            match skipWs r3 with
            | 44 :: r4 => parseMembers fuel r4 (acc ++ [(unquote rawKey, v)])
            | 125 :: r4 => some (.obj (acc ++ [(unquote rawKey, v)]), r4)
            | _ => none
        | _ => none
    | _ => none

def parseElems : Nat → Bytes → List JVal → Option (JVal × Bytes)
  | 0, _, _ => none
  | fuel + 1, s, acc =>
    match parseValue fuel s with
    | none => none
    | some (v, r1) =>
      match skipWs r1 with
      | 44 :: r2 => parseElems fuel r2 (acc ++ [v])
      | 93 :: r2 => some (.arr (acc ++ [v]), r2)
      | _ => none
end

def parse (data : Bytes) : Option JVal :=
  match parseValue (2 * data.length + 2) data with
  | some (v, rest) => if (skipWs rest).isEmpty then some v else none
  | none => none

/-! ### Printer -/

def natDigits (n : Nat) : Bytes := (toString n).toUTF8.toList
def intLit (i : Int) : Bytes := if i < 0 then 45 :: natDigits i.natAbs else natDigits i.natAbs

mutual
def print : JVal → Bytes
  | .null => [110, 117, 108, 108]
  | .bool true => [116, 114, 117, 101]
  | .bool false => [102, 97, 108, 115, 101]
  | .int i => intLit i
  | .badnum => [49, 46, 53]
  | .str raw => 34 :: raw ++ [34]
  | .arr xs => 91 :: printElems xs ++ [93]
  | .obj kvs => 123 :: printMembers kvs ++ [125]
def printElems : List JVal → Bytes
  | [] => []
  | [v] => print v
  | v :: vs => print v ++ 44 :: 10 :: printElems vs
def printMembers : List (Bytes × JVal) → Bytes
  | [] => []
  | [(k, v)] => 34 :: quote k ++ [34, 58, 32] ++ print v
  | (k, v) :: kvs => 34 :: quote k ++ [34, 58, 32] ++ print v ++ 44 :: 10 :: printMembers kvs
end

/-! ### Time keys -/

def daysIn (y m : Nat) : Nat :=
  if m == 2 then (if (y % 4 == 0 && y % 100 != 0) || y % 400 == 0 then 29 else 28)
  else if m == 4 || m == 6 || m == 9 || m == 11 then 30 else 31

def num? (ds : Bytes) : Option Nat := if ds.all isDigit then some (natOfDigits ds) else none

/-- packed decimal YYYYMMDDhhmmss nnnnnnnnn -/
def pack (y mo d h mi s ns : Nat) : Nat := (((((y * 100 + mo) * 100 + d) * 100 + h) * 100 + mi) * 100 + s) * 1000000000 + ns

def zeroPacked : Nat := pack 1 1 1 0 0 0 0

def parseTime (b : Bytes) : Option Int :=
  match b with
  | y1 :: y2 :: y3 :: y4 :: 45 :: m1 :: m2 :: 45 :: d1 :: d2 :: 84 :: h1 :: h2 :: 58 :: i1 :: i2 :: 58 :: s1 :: s2 :: rest =>
    match num? [y1, y2, y3, y4], num? [m1, m2], num? [d1, d2], num? [h1, h2], num? [i1, i2], num? [s1, s2] with
    | some y, some mo, some d, some h, some mi, some s =>
      if 1 ≤ mo ∧ mo ≤ 12 ∧ 1 ≤ d ∧ d ≤ daysIn y mo ∧ h ≤ 23 ∧ mi ≤ 59 ∧ s ≤ 59 then
        let frac : Option Nat :=
          match rest with
          | [90] => some 0
          | 46 :: r =>
            let (fs, r') := takeDigits r
            if fs.isEmpty || r' != [90] then none
            else some (natOfDigits ((fs ++ [48, 48, 48, 48, 48, 48, 48, 48, 48]).take 9))
          | _ => none
        match frac with
        | some ns => some ((pack y mo d h mi s ns : Int) - (zeroPacked : Int))
        | none => none
      else none
    | _, _, _, _, _, _ => none
  | _ => none

def pad (w : Nat) (n : Nat) : Bytes :=
  let ds := natDigits n
  List.replicate (w - ds.length) 48 ++ ds

def fmtTime (t : Int) : Bytes :=
  let p := (t + (zeroPacked : Int)).toNat
  let ns := p % 1000000000
  let p1 := p / 1000000000
  let s := p1 % 100; let p2 := p1 / 100
  let mi := p2 % 100; let p3 := p2 / 100
  let h := p3 % 100; let p4 := p3 / 100
  let d := p4 % 100; let p5 := p4 / 100
  let mo := p5 % 100; let y := p5 / 100
  pad 4 y ++ [45] ++ pad 2 mo ++ [45] ++ pad 2 d ++ [84] ++ pad 2 h ++ [58] ++ pad 2 mi ++ [58] ++ pad 2 s ++ [46] ++ pad 9 ns ++ [90]

/-- key of YYYY-01-01T00:00:00Z -/
def yearKey (y : Nat) : Int := (pack y 1 1 0 0 0 0 : Int) - (zeroPacked : Int)

def goCodec : Codec Bytes :=
  { parse := parse, print := print, isEmpty := List.isEmpty, unquote := unquote, quote := quote,
    parseTime := parseTime, fmtTime := fmtTime }

end Wtf.History.Json
