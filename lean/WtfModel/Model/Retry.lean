import WtfModel.Gen.Recovery

/-!
  Model of database loading with retry and fallback (property C15).  Core Lean only.

  Mirrors, as the code is now:
    internal/errors/errors.go      NewDatabaseErrorWithContext (decision table regenerated into
                                   `Gen.Recovery.classifyCases`), *AppError{Type, Cause}, Unwrap
    internal/database/loader.go    LoadDatabase, LoadDatabaseWithPersonal (three tolerated forms of a
                                   missing notebook)
    internal/recovery/recovery.go  loadWithRetry, shouldRetry (predicates and types regenerated into
                                   `Gen.Recovery.noRetrySentinels/noRetryTypes`), calculateDelay,
                                   LoadDatabaseWithFallback and its ladder (`Gen.Recovery.ladder`)

  Conventions
  * a database is the list of its `Command` strings (`List Cmd`); `none` is Go's nil `*Database`;
  * errors are classes: a root cause (`Cause`, what the OS / YAML decoder reported) and the wrapping
    structure (`Err`).  `os.IsNotExist` is modelled as it behaves (it looks at the error it is given and
    does NOT follow `Unwrap`), `errors.Is` as it behaves (it follows `Unwrap`);
  * the text of a root cause is what Go prints with the path replaced by `P` (so the model assumes the
    path itself contains none of the needles of the decision table -- see Props/C15.lean);
  * durations are integers (ns); the back-off factor is an exact rational, ±Inf or NaN (`RawFactor`).
    `NewDatabaseRecovery` sanitises the configuration (`sanitize`).  The code computes the delay in float64
    and truncates; the model computes over ℚ and truncates (`delayNs`), with float overflow to +Inf made
    explicit where it changes the outcome.  Rounding is not modelled (the correspondence compares with a
    tolerance of 1 ns / 1e-9);
  * a load attempt is a function of the attempt number (`Nat → Attempt`), so that files changing between
    attempts (transient faults) are expressible.
-/
namespace Wtf.Retry
open Wtf.Gen

abbrev Cmd := String

/-! ### strings.Contains -/

def isPrefixL : List Char → List Char → Bool
  | [], _ => true
  | _ :: _, [] => false
  | a :: as, b :: bs => a == b && isPrefixL as bs

def isInfixL (n : List Char) : List Char → Bool
  | [] => n.isEmpty
  | h :: t => isPrefixL n (h :: t) || isInfixL n t

/-- `strings.Contains(s, needle)` -/
def contains (s needle : String) : Bool := isInfixL needle.toList s.toList

/-! ### errors -/

/-- what `os.ReadFile` / `yaml.Unmarshal` reported (the root of the error chain) -/
inductive Cause
  | notExist      -- *PathError{ENOENT}
  | permission    -- *PathError{EACCES}
  | isDirectory   -- *PathError{EISDIR}
  | parse         -- a yaml.v3 error
  | other         -- any other *PathError (the harness produces ELOOP: a symbolic link to itself)
  | text (msg : String)   -- errors.New(msg): no errno, used to exercise the decision table
deriving DecidableEq, Repr

/-- `cause.Error()` with the path replaced by `P` and YAML's detail elided -/
def Cause.message : Cause → String
  | .notExist => "open P: no such file or directory"
  | .permission => "open P: permission denied"
  | .isDirectory => "read P: is a directory"
  | .parse => "yaml: <detail>"
  | .other => "open P: too many levels of symbolic links"
  | .text m => m

/-- Go `error` values that occur on the loading path -/
inductive Err
  | nil                                   -- the nil error (only as a Cause)
  | os (c : Cause)                        -- unwrapped OS / YAML error
  | app (type : String) (cause : Err)     -- *errors.AppError{Type, Cause}
  | dbError (cause : Err)                 -- *errors.DatabaseError{Cause}
  | plain                                 -- fmt.Errorf without %w
deriving DecidableEq, Repr

/-- does the root cause carry the errno that `sentinel` (os.ErrNotExist / os.ErrPermission) matches -/
def Cause.matches (sentinel : String) (c : Cause) : Bool :=
  (sentinel == "notExist" && c == .notExist) || (sentinel == "permission" && c == .permission)

/-- `os.IsNotExist(e)` / `os.IsPermission(e)`: unwraps *PathError only, never `Unwrap()` chains -/
def osIs (sentinel : String) : Err → Bool
  | .os c => c.matches sentinel
  | _ => false

/-- `errors.Is(e, os.ErrNotExist)` / `errors.Is(e, os.ErrPermission)`: follows `Unwrap()` -/
def errorsIs (sentinel : String) : Err → Bool
  | .os c => c.matches sentinel
  | .app _ c => errorsIs sentinel c
  | .dbError c => errorsIs sentinel c
  | _ => false

/-- the Type chosen by the `switch` of NewDatabaseErrorWithContext for a cause with text `msg` -/
def classifyType (msg : String) : String :=
  match Recovery.classifyCases.find? (fun r => r.1.any (contains msg)) with
  | some r => r.2
  | none => Recovery.classifyDefault

/-- `errors.NewDatabaseErrorWithContext(op, path, cause)`; every branch keeps the cause -/
def classifyLoadError : Option Cause → Err
  | none => .app Recovery.classifyNil .nil
  | some c => .app (classifyType c.message) (.os c)

/-! ### files and the loader -/

/-- what is wrong (or not) with one file -/
inductive FileState
  | missing | denied | directory | malformed | other
  | good (cmds : List Cmd)
deriving DecidableEq, Repr

/-- `os.ReadFile` followed by `yaml.Unmarshal` -/
def readAndParse : FileState → Except Cause (List Cmd)
  | .missing => .error .notExist
  | .denied => .error .permission
  | .directory => .error .isDirectory
  | .malformed => .error .parse
  | .other => .error .other
  | .good cs => .ok cs

/-- `database.LoadDatabase` -/
def loadDatabase (f : FileState) : Except Err (List Cmd) :=
  match readAndParse f with
  | .ok cs => .ok cs
  | .error c => .error (classifyLoadError (some c))

/-- the three ways LoadDatabaseWithPersonal recognises "the notebook does not exist" -/
def personalAbsent (e : Err) : Bool :=
  osIs "notExist" e ||
  (match e with | .dbError c => osIs "notExist" c | _ => false) ||
  (match e with | .app _ c => c != .nil && osIs "notExist" c | _ => false)

/-- `database.LoadDatabaseWithPersonal` -/
def loadWithPersonal (main personal : FileState) : Except Err (List Cmd) :=
  match loadDatabase main with
  | .error e => .error e
  | .ok m =>
    match loadDatabase personal with
    | .ok p => .ok (m ++ p)
    | .error e => if personalAbsent e then .ok m else .error e

/-! ### retry -/

/-- a float64 back-off factor as the caller may pass it -/
inductive RawFactor
  | fin (q : Rat) | posInf | negInf | nan
deriving DecidableEq, Repr

/-- a back-off factor as NewDatabaseRecovery stores it (`!(f >= 1)` has been replaced by 1, so NaN and
    -Inf cannot occur; finite values below 1 appear only in the "why the clamp is needed" witnesses) -/
inductive Factor
  | fin (q : Rat) | posInf
deriving DecidableEq, Repr

/-- the `RetryConfig` handed to `NewDatabaseRecovery` (any int, any duration, any float64) -/
structure RawCfg where
  maxAttempts : Int
  base : Int        -- BaseDelay, ns
  max : Int         -- MaxDelay, ns
  factor : RawFactor
deriving Repr

/-- the `retryConfig` field of a `DatabaseRecovery` -/
structure Cfg where
  maxAttempts : Int
  base : Int        -- BaseDelay, ns
  max : Int         -- MaxDelay, ns
  factor : Factor   -- BackoffFactor
deriving Repr

/-- the clamps at the top of `NewDatabaseRecovery` -/
def sanitize (c : RawCfg) : Cfg :=
  { maxAttempts := if c.maxAttempts < 1 then 1 else c.maxAttempts,
    base := if c.base < 0 then 0 else c.base,
    max := if c.max < 0 then 0 else c.max,
    factor := match c.factor with          -- `if !(f >= 1) { f = 1 }`
      | .fin q => if 1 ≤ q then .fin q else .fin 1
      | .posInf => .posInf
      | .negInf => .fin 1
      | .nan => .fin 1 }

/-- what `sanitize` establishes -/
def Cfg.Sane (c : Cfg) : Prop :=
  1 ≤ c.maxAttempts ∧ 0 ≤ c.base ∧ 0 ≤ c.max ∧ (match c.factor with | .fin q => 1 ≤ q | .posInf => True)

/-- `recovery.DefaultRetryConfig()` (regenerated) -/
def defaultRaw : RawCfg :=
  { maxAttempts := Recovery.defaultMaxAttempts, base := Recovery.defaultBaseDelay, max := Recovery.defaultMaxDelay,
    factor := .fin (mkRat Recovery.defaultBackoffFactor.num Recovery.defaultBackoffFactor.den) }

def defaultCfg : Cfg := sanitize defaultRaw

/-- `shouldRetry`: no retry if any of the regenerated sentinel tests fires or the error is an *AppError
    of one of the regenerated types -/
def shouldRetry (e : Err) : Bool :=
  if Recovery.noRetrySentinels.any (fun t => if t.1 then errorsIs t.2 e else osIs t.2 e) then false
  else match e with
    | .app t _ => !(Recovery.noRetryTypes.contains t)
    | _ => true

/-- the cap: `if delay > MaxDelay { delay = MaxDelay }` -/
def capQ (cfg : Cfg) (d : Rat) : Rat := if (cfg.max : Rat) < d then (cfg.max : Rat) else d

/-- `time.Duration(x)`: truncation toward zero -/
def truncQ (d : Rat) : Int := if 0 ≤ d then d.floor else d.ceil

/-- smallest power at which `math.Pow` answers +Inf (≈ 2^1024; the exact rounding boundary of
    math.Pow is not modelled) -/
def floatOverflow : Rat := 2 ^ 1024

/-- `calculateDelay`.  The code computes `float64(base) * math.Pow(factor, attempt-1)` and caps it when it
    exceeds MaxDelay *or is NaN*; the model computes over ℚ, with the two float corners that change the
    outcome made explicit:
    * `0 * +Inf = NaN` (zero base delay, power overflowing float64 or factor = +Inf) → MaxDelay;
    * `negative * +Inf = -Inf` (only for unsanitised configurations) → `time.Duration(-Inf)`, which is
      implementation-defined; MinInt64 on amd64. -/
def delayNs (cfg : Cfg) (attempt : Nat) : Int :=
  match cfg.factor with
  | .fin q =>
    let p := q ^ (attempt - 1)
    if cfg.base = 0 ∧ floatOverflow ≤ p then cfg.max
    else truncQ (capQ cfg ((cfg.base : Rat) * p))
  | .posInf =>
    if attempt ≤ 1 then truncQ (capQ cfg (cfg.base : Rat))      -- Pow(+Inf, 0) = 1
    else if cfg.base < 0 then -(2 ^ 63)                           -- -Inf
    else cfg.max                                                  -- +Inf > max, or NaN

abbrev Attempt := Except Err (List Cmd)

structure Outcome where
  db : Option (List Cmd)
  err : Option Err
  attempts : Nat          -- number of load attempts made
  delays : List Int       -- the sleeps, in order (ns)
deriving Repr

/-- the `for attempt := 1; attempt <= MaxAttempts; attempt++` loop; `remaining` = MaxAttempts - attempt + 1 -/
def retryLoop (cfg : Cfg) (f : Nat → Attempt) : (remaining : Nat) → (attempt : Nat) → (lastErr : Option Err) → Outcome
  | 0, attempt, last => { db := none, err := last, attempts := attempt - 1, delays := [] }
  | r + 1, attempt, _ =>
    match f attempt with
    | .ok db => { db := some db, err := none, attempts := attempt, delays := [] }
    | .error e =>
      if shouldRetry e then
        let rest := retryLoop cfg f r (attempt + 1) (some e)
        if (attempt : Int) < cfg.maxAttempts then { rest with delays := delayNs cfg attempt :: rest.delays } else rest
      else { db := none, err := some e, attempts := attempt, delays := [] }

/-- `loadWithRetry` (returns `(nil, nil)` when MaxAttempts ≤ 0) -/
def loadWithRetry (cfg : Cfg) (f : Nat → Attempt) : Outcome :=
  retryLoop cfg f cfg.maxAttempts.toNat 1 none

/-! ### fallback ladder -/

inductive Class | real | embedded | backup | minimal | nildb | failed
deriving DecidableEq, Repr

/-- `loadBackupDatabase`: `os.Stat` says "does not exist" → plain error, otherwise LoadDatabase -/
def loadBackup (backup : FileState) : Attempt :=
  match backup with
  | .missing => .error .plain
  | b => loadDatabase b

def runStrategy (backup : FileState) (name : String) : Class × Attempt :=
  if name == "loadEmbeddedDatabase" then (.embedded, .ok Recovery.embeddedCommands)
  else if name == "loadBackupDatabase" then (.backup, loadBackup backup)
  else if name == "createMinimalDatabase" then (.minimal, .ok Recovery.minimalCommands)
  else (.failed, .error .plain)  -- unreachable: the translator admits only the three names above

/-- the `for _, strategy := range fallbackStrategies` loop: first strategy without error wins -/
def climb (backup : FileState) : List String → Option (Class × List Cmd)
  | [] => none
  | s :: rest =>
    match runStrategy backup s with
    | (c, .ok db) => some (c, db)
    | (_, .error _) => climb backup rest

structure Final where
  db : Option (List Cmd)   -- `none` = nil *Database
  err : Option Err
  cls : Class
  attempts : Nat
  delays : List Int
  warned : Bool            -- the "Warning: ..." line was printed
deriving Repr

/-- `(*DatabaseRecovery).LoadDatabaseWithFallback` for a recovery holding `cfg` -/
def loadWithFallback (cfg : Cfg) (f : Nat → Attempt) (backup : FileState) : Final :=
  let r := loadWithRetry cfg f
  match r.err with
  | none => { db := r.db, err := none, cls := if r.db.isSome then .real else .nildb,
              attempts := r.attempts, delays := r.delays, warned := false }
  | some e =>
    match climb backup Recovery.ladder with
    | some (c, db) => { db := some db, err := none, cls := c, attempts := r.attempts, delays := r.delays, warned := true }
    | none => { db := none, err := some (.app "database" e), cls := .failed,
                attempts := r.attempts, delays := r.delays, warned := false }

/-- `recovery.NewDatabaseRecovery(raw).LoadDatabaseWithFallback(main, personal)` -/
def recover (raw : RawCfg) (f : Nat → Attempt) (backup : FileState) : Final :=
  loadWithFallback (sanitize raw) f backup

/-- files that do not change between attempts -/
def static (main personal : FileState) : Nat → Attempt := fun _ => loadWithPersonal main personal

/-- files that may change between attempts -/
def dynamic (main personal : Nat → FileState) : Nat → Attempt := fun n => loadWithPersonal (main n) (personal n)

end Wtf.Retry
