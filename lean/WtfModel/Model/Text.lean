import WtfModel.Basic.Bytes
import WtfModel.Gen.StopWords
/-
  Byte-level text model (DESIGN.md §4 "Text is bytes").  Core Lean only.

  `tokenize` models database.normalizeAndTokenize:
     NormalizeText (every rune outside [A-Za-z0-9_ \t\n\f\r.-] becomes a space, white space collapsed),
     strings.ToLower, FieldsFunc(!letter && !number), drop tokens shorter than 2 bytes, drop stop words.
  After NormalizeText only ASCII survives, so a token is exactly a maximal run of ASCII alphanumerics,
  lower-cased; every other byte (including every byte of a multi-byte or invalid sequence) separates.
-/
namespace Wtf.Text

abbrev Token := Bytes

def isUpperB (b : UInt8) : Bool := 0x41 ≤ b && b ≤ 0x5A
def isLowerB (b : UInt8) : Bool := 0x61 ≤ b && b ≤ 0x7A
def isDigitB (b : UInt8) : Bool := 0x30 ≤ b && b ≤ 0x39
def isAlnumB (b : UInt8) : Bool := isUpperB b || isLowerB b || isDigitB b
def lowerB (b : UInt8) : UInt8 := if isUpperB b then b + 0x20 else b

/-- ASCII-only lower-casing (what strings.ToLower does to an all-ASCII string) -/
def lowerAscii (s : Bytes) : Bytes := s.map lowerB

/-- split into maximal runs of ASCII alphanumerics, lower-cased (no filtering yet) -/
def runsAux : Bytes → Bytes → List Token
  | [], cur => if cur.isEmpty then [] else [cur.reverse]
  | b :: rest, cur =>
    if isAlnumB b then runsAux rest (lowerB b :: cur)
    else if cur.isEmpty then runsAux rest []
    else cur.reverse :: runsAux rest []

def runs (s : Bytes) : List Token := runsAux s []

def stopWords : List Token := Wtf.Gen.StopWords.words.map Bytes.ofString

def isStop (t : Token) : Bool := stopWords.contains t

def keepToken (t : Token) : Bool := decide (2 ≤ t.length) && !isStop t

/-- database.normalizeAndTokenize -/
def tokenize (s : Bytes) : List Token := (runs s).filter keepToken

/-- strings.Join(xs, " ") -/
def joinSp : List Bytes → Bytes
  | [] => []
  | [x] => x
  | x :: xs => x ++ (0x20 :: joinSp xs)

/-- strings.Contains on bytes -/
def isPrefixOfB : Bytes → Bytes → Bool
  | [], _ => true
  | _ :: _, [] => false
  | a :: as, b :: bs => a == b && isPrefixOfB as bs

def containsB : Bytes → Bytes → Bool
  | s, [] => true || s.isEmpty
  | [], _ :: _ => false
  | s@(_ :: rest), sub => isPrefixOfB sub s || containsB rest sub

def hasPrefixB (s pre : Bytes) : Bool := isPrefixOfB pre s

end Wtf.Text
