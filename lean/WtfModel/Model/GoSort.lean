/-
  Model of Go's `sort.Stable` (go1.25 `sort/zsortinterface.go`: `stable`, `insertionSort`, `symMerge`, `rotate`,
  `swapRange`) over an array, for an arbitrary — in particular a NON-strict — `less`.  Core Lean only.

  Why: `github.com/sahilm/fuzzy` sorts its matches with `sort.Stable(matches)` where
  `func (a Matches) Less(i, j int) bool { return a[i].Score >= a[j].Score }`.  That `Less` is not a strict order, so
  the contract of `sort.Stable` says nothing about the order of equal scores: it is whatever the algorithm does.
  This file transliterates the algorithm; `fuzzyStable` is the library's sort.

  Conventions.
  * `data.Swap(i, j)` is `swp`, `data.Less(i, j)` is `lessAt`.  The model touches the data through these two only,
    exactly like the Go code touches it through `sort.Interface`.
  * Go `int` arithmetic is rendered with `Nat`: every subtraction in the Go code has a non-negative result when
    `stable` is entered with `n = data.Len()` (`a < m < b ≤ n` at each `symMerge`; `a < m < b` at each `rotate`), so
    truncated subtraction coincides with it; `int(uint(x+y) >> 1)` is `(x + y) / 2`.
  * An index outside the array would be a panic in Go; here `swp` / `lessAt` are total (no-op / `false`) and
    `Proofs/GoSort.lean` shows by the sortedness proof itself that the run never leaves the array
    (the proofs need, and have, every index in range).
  * Each Go `for` loop is one structurally recursive function with an explicit fuel argument; the callers pass a
    fuel that is provably sufficient (`Proofs/GoSort.lean` never uses the fuel-exhausted branch).
-/
namespace Wtf.GoSort

variable {α : Type}

/-- `data.Swap(i, j)` -/
def swp (d : Array α) (i j : Nat) : Array α := d.swapIfInBounds i j

/-- `data.Less(i, j)` -/
def lessAt (less : α → α → Bool) (d : Array α) (i j : Nat) : Bool :=
  match d[i]?, d[j]? with
  | some x, some y => less x y
  | _, _ => false

/-! ### insertionSort -/

/-- `for j := i; j > a && data.Less(j, j-1); j-- { data.Swap(j, j-1) }` — recursion on `j` -/
def insertDown (less : α → α → Bool) (a : Nat) : Nat → Array α → Array α
  | 0, d => d
  | j + 1, d => if a < j + 1 && lessAt less d (j + 1) j then insertDown less a j (swp d (j + 1) j) else d

/-- `for i := …; i < b; i++ { <inner loop> }` -/
def insertionLoop (less : α → α → Bool) (a b : Nat) : Nat → Nat → Array α → Array α
  | 0, _, d => d
  | fuel + 1, i, d => if i < b then insertionLoop less a b fuel (i + 1) (insertDown less a i d) else d

/-- `insertionSort(data, a, b)` -/
def insertionSort (less : α → α → Bool) (d : Array α) (a b : Nat) : Array α :=
  insertionLoop less a b (b - (a + 1)) (a + 1) d

/-! ### swapRange, rotate -/

/-- `for i := …; i < n; i++ { data.Swap(a+i, b+i) }` -/
def swapRangeLoop (a b n : Nat) : Nat → Nat → Array α → Array α
  | 0, _, d => d
  | fuel + 1, i, d => if i < n then swapRangeLoop a b n fuel (i + 1) (swp d (a + i) (b + i)) else d

/-- `swapRange(data, a, b, n)` -/
def swapRange (d : Array α) (a b n : Nat) : Array α := swapRangeLoop a b n n 0 d

/-- the loop of `rotate` and the `swapRange` after it:
    `for i != j { if i > j { swapRange(m-i, m, j); i -= j } else { swapRange(m-i, m+j-i, i); j -= i } }; swapRange(m-i, m, i)` -/
def rotateLoop (m : Nat) : Nat → Nat → Nat → Array α → Array α
  | 0, _, _, d => d
  | fuel + 1, i, j, d =>
    if i != j then
      if i > j then rotateLoop m fuel (i - j) j (swapRange d (m - i) m j)
      else rotateLoop m fuel i (j - i) (swapRange d (m - i) (m + j - i) i)
    else swapRange d (m - i) m i

/-- `rotate(data, a, m, b)`: `x u v y ↦ x v u y` for `u = data[a:m]`, `v = data[m:b]`; assumes `a < m < b` -/
def rotate (d : Array α) (a m b : Nat) : Array α := rotateLoop m ((m - a) + (b - m)) (m - a) (b - m) d

/-! ### symMerge -/

/-- the three binary searches of `symMerge` have one shape:
    `for i < j { h := int(uint(i+j) >> 1); if <go right at h> { i = h + 1 } else { j = h } }`, result `i` -/
def bsearch (right : Nat → Bool) : Nat → Nat → Nat → Nat
  | 0, i, _ => i
  | fuel + 1, i, j =>
    if i < j then
      let h := (i + j) / 2
      if right h then bsearch right fuel (h + 1) j else bsearch right fuel i h
    else i

/-- `for k := …; k < hi; k++ { data.Swap(k, k+1) }` -/
def bubbleUp (hi : Nat) : Nat → Nat → Array α → Array α
  | 0, _, d => d
  | fuel + 1, k, d => if k < hi then bubbleUp hi fuel (k + 1) (swp d k (k + 1)) else d

/-- `for k := …; k > lo; k-- { data.Swap(k, k-1) }` — recursion on `k` -/
def bubbleDown (lo : Nat) : Nat → Array α → Array α
  | 0, d => d
  | k + 1, d => if k + 1 > lo then bubbleDown lo k (swp d (k + 1) k) else d

/-- `symMerge(data, a, m, b)`; assumes `a < m < b`.  The recursion depth is at most `log₂ (b - a)`; fuel `b - a`. -/
def symMerge (less : α → α → Bool) : Nat → Array α → Nat → Nat → Nat → Array α
  | 0, d, _, _, _ => d
  | fuel + 1, d, a, m, b =>
    if m - a == 1 then
      -- lowest i in [m, b) with ¬ Less(i, a), else b; then data[a] travels to position i - 1
      let i := bsearch (fun h => lessAt less d h a) (b - m) m b
      bubbleUp (i - 1) (i - 1 - a) a d
    else if b - m == 1 then
      -- lowest i in [a, m) with Less(m, i), else m; then data[m] travels to position i
      let i := bsearch (fun h => !lessAt less d m h) (m - a) a m
      bubbleDown i m d
    else
      let mid := (a + b) / 2
      let n := mid + m
      let sr : Nat × Nat := if m > mid then (n - b, mid) else (a, m)
      let p := n - 1
      let start := bsearch (fun c => !lessAt less d (p - c) c) (sr.2 - sr.1) sr.1 sr.2
      let end_ := n - start
      let d := if start < m && m < end_ then rotate d start m end_ else d
      let d := if a < start && start < mid then symMerge less fuel d a start mid else d
      let d := if mid < end_ && end_ < b then symMerge less fuel d mid end_ b else d
      d

/-! ### stable -/

/-- `for b <= n { insertionSort(data, a, b); a = b; b += blockSize }; insertionSort(data, a, n)` -/
def blocksLoop (less : α → α → Bool) (n bs : Nat) : Nat → Nat → Nat → Array α → Array α
  | 0, _, _, d => d
  | fuel + 1, a, b, d =>
    if b ≤ n then blocksLoop less n bs fuel b (b + bs) (insertionSort less d a b)
    else insertionSort less d a n

/-- `for b <= n { symMerge(data, a, a+blockSize, b); a = b; b += 2 * blockSize };
     if m := a + blockSize; m < n { symMerge(data, a, m, n) }` -/
def mergePass (less : α → α → Bool) (n bs : Nat) : Nat → Nat → Nat → Array α → Array α
  | 0, _, _, d => d
  | fuel + 1, a, b, d =>
    if b ≤ n then mergePass less n bs fuel b (b + 2 * bs) (symMerge less (b - a) d a (a + bs) b)
    else
      let m := a + bs
      if m < n then symMerge less (n - a) d a m n else d

/-- `for blockSize < n { a, b = 0, 2*blockSize; <mergePass>; blockSize *= 2 }` -/
def mergeLoop (less : α → α → Bool) (n : Nat) : Nat → Nat → Array α → Array α
  | 0, _, d => d
  | fuel + 1, bs, d =>
    if bs < n then mergeLoop less n fuel (bs * 2) (mergePass less n bs n 0 (2 * bs) d) else d

/-- `blockSize := 20` -/
def blockSize : Nat := 20

/-- `stable(data, n)` -/
def stable (less : α → α → Bool) (d : Array α) (n : Nat) : Array α :=
  let d := blocksLoop less n blockSize n 0 blockSize d
  mergeLoop less n n blockSize d

/-- `sort.Stable(data)`: `stable(data, data.Len())`, on a list -/
def goStable (less : α → α → Bool) (l : List α) : List α :=
  (stable less l.toArray l.length).toList

/-- `sahilm/fuzzy`: `sort.Stable(matches)` with `Less(i, j) = matches[i].Score >= matches[j].Score`, matches as
    `(Index, Score)` -/
def fuzzyStable : List (Nat × Int) → List (Nat × Int) :=
  goStable (fun a b => decide (a.2 ≥ b.2))

end Wtf.GoSort
