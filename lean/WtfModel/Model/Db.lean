import WtfModel.Model.Text
/-
  Command entries (database.Command) including the cached lower-case fields, which the engine reads
  directly.  Core Lean only.
-/
namespace Wtf

structure Cmd where
  command : Bytes
  description : Bytes
  keywords : List Bytes
  tags : List Bytes
  niche : Bytes
  platform : List Bytes
  pipeline : Bool
  commandLower : Bytes
  descriptionLower : Bytes
  keywordsLower : List Bytes
  tagsLower : List Bytes
deriving Repr, Inhabited

abbrev Db := List Cmd

namespace Cmd
open Text

/-- text indexed for each field (indexCommand: cached lower-case field preferred when non-empty) -/
def cmdText (c : Cmd) : Bytes := if c.commandLower.isEmpty then c.command else c.commandLower
def descText (c : Cmd) : Bytes := if c.descriptionLower.isEmpty then c.description else c.descriptionLower
def keysText (c : Cmd) : Bytes :=
  if !c.keywordsLower.isEmpty then joinSp c.keywordsLower
  else if !c.keywords.isEmpty then joinSp c.keywords else []
def tagsText (c : Cmd) : Bytes :=
  if !c.tagsLower.isEmpty then joinSp c.tagsLower
  else if !c.tags.isEmpty then joinSp c.tags else []

def cmdTokens (c : Cmd) : List Token := tokenize c.cmdText
def descTokens (c : Cmd) : List Token := tokenize c.descText
def keysTokens (c : Cmd) : List Token := tokenize c.keysText
def tagsTokens (c : Cmd) : List Token := tokenize c.tagsText

end Cmd
end Wtf
