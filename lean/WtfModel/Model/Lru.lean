/-
  Model of internal/cache/lru_cache.go (LRUCache).  Core Lean only.

  * `entries` is the eviction list, head = most recently used (container/list front).
  * time is an input: every step receives `now` (ns); `created`/`stored` are timestamps.
  * `used` and `stored` are ghost fields (Go keeps `AccessedAt`; `stored` is the time the current value
    was written).  They never influence behaviour; theorems about "longest ago" and staleness are
    stated with them.
  * `tick` is a ghost logical clock (one per state-changing access) so that recency is strict.
-/
namespace Wtf.Lru

structure Entry (κ ν : Type) where
  key : κ
  val : ν
  created : Int
  stored : Int
  used : Nat
deriving Repr

structure State (κ ν : Type) where
  cap : Nat
  ttl : Int
  entries : List (Entry κ ν)
  hits : Nat
  misses : Nat
  evictions : Nat
  tick : Nat
deriving Repr

inductive Op (κ ν : Type) where
  | get (k : κ)
  | put (k : κ) (v : ν)
  | delete (k : κ)
  | clear
  | cleanup
  | size
  | stats
  | keys
deriving Repr

inductive Out (κ ν : Type) where
  | val (o : Option ν)
  | unit
  | bool (b : Bool)
  | nat (n : Nat)
  | stats (hits misses evictions size cap : Nat)
  | keys (ks : List κ)
deriving Repr

variable {κ ν : Type} [DecidableEq κ]

/-- `NewLRUCache`: a non-positive capacity is replaced by the default. -/
def effCap (defaultCap : Nat) (cap : Int) : Nat := if cap ≤ 0 then defaultCap else cap.toNat

def init (defaultCap : Nat) (cap : Int) (ttl : Int) : State κ ν :=
  { cap := effCap defaultCap cap, ttl := ttl, entries := [], hits := 0, misses := 0, evictions := 0, tick := 0 }

/-- `c.ttl > 0 && now.Sub(entry.CreatedAt) > c.ttl` -/
def expired (ttl now : Int) (e : Entry κ ν) : Bool := decide (0 < ttl) && decide (ttl < now - e.created)

def find? (k : κ) (es : List (Entry κ ν)) : Option (Entry κ ν) := es.find? (fun e => e.key == k)

def remove (k : κ) (es : List (Entry κ ν)) : List (Entry κ ν) := es.filter (fun e => !(e.key == k))

def get (s : State κ ν) (now : Int) (k : κ) : State κ ν × Option ν :=
  match find? k s.entries with
  | none => ({ s with misses := s.misses + 1 }, none)
  | some e =>
    if expired s.ttl now e then
      ({ s with entries := remove k s.entries, misses := s.misses + 1 }, none)
    else
      ({ s with entries := { e with used := s.tick } :: remove k s.entries,
                hits := s.hits + 1, tick := s.tick + 1 }, some e.val)

def put (s : State κ ν) (now : Int) (k : κ) (v : ν) : State κ ν :=
  match find? k s.entries with
  | some e =>
    { s with entries := { e with val := v, stored := now, used := s.tick } :: remove k s.entries,
             tick := s.tick + 1 }
  | none =>
    let es := { key := k, val := v, created := now, stored := now, used := s.tick } :: s.entries
    if s.cap < es.length then
      { s with entries := es.dropLast, evictions := s.evictions + 1, tick := s.tick + 1 }
    else
      { s with entries := es, tick := s.tick + 1 }

def delete (s : State κ ν) (k : κ) : State κ ν × Bool :=
  match find? k s.entries with
  | some _ => ({ s with entries := remove k s.entries }, true)
  | none => (s, false)

def clear (s : State κ ν) : State κ ν :=
  { s with entries := [], hits := 0, misses := 0, evictions := 0 }

/-- Walk from the back while the tail entry is expired (early exit at the first live one). -/
def sweepRev (ttl now : Int) : List (Entry κ ν) → List (Entry κ ν)
  | [] => []
  | e :: rest => if expired ttl now e then sweepRev ttl now rest else e :: rest

def cleanup (s : State κ ν) (now : Int) : State κ ν × Nat :=
  if s.ttl ≤ 0 then (s, 0) else
  let kept := (sweepRev s.ttl now s.entries.reverse).reverse
  ({ s with entries := kept }, s.entries.length - kept.length)

def step (s : State κ ν) (now : Int) : Op κ ν → State κ ν × Out κ ν
  | .get k => let r := get s now k; (r.1, .val r.2)
  | .put k v => (put s now k v, .unit)
  | .delete k => let r := delete s k; (r.1, .bool r.2)
  | .clear => (clear s, .unit)
  | .cleanup => let r := cleanup s now; (r.1, .nat r.2)
  | .size => (s, .nat s.entries.length)
  | .stats => (s, .stats s.hits s.misses s.evictions s.entries.length s.cap)
  | .keys => (s, .keys (s.entries.map (·.key)))

/-- A history is a list of timed operations; `run` folds `step`, collecting outputs. -/
def run (s : State κ ν) : List (Int × Op κ ν) → State κ ν × List (Out κ ν)
  | [] => (s, [])
  | (now, op) :: rest =>
    let r := step s now op
    let r' := run r.1 rest
    (r'.1, r.2 :: r'.2)

def final (s : State κ ν) (h : List (Int × Op κ ν)) : State κ ν := (run s h).1

end Wtf.Lru
