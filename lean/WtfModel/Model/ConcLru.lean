import WtfModel.Model.Conc
import WtfModel.Model.Lru
import WtfModel.Model.LockDiscipline

/-!
  The LRU cache as an instance of the concurrent model (C11).  Core only.
  The lock mode of every operation is *read off the regenerated lock facts*: `lruMode op` is
  exclusive iff `Gen.LockFacts` says the corresponding Go method takes `mu.Lock()`.
-/
namespace Wtf.ConcLru
open Wtf.Conc Wtf.Lru

deriving instance DecidableEq for Wtf.Lru.Out

variable {κ ν : Type} [DecidableEq κ]

/-- the Go method that implements an operation of the model -/
def lruMethod : Op κ ν → String
  | .get _ => "Get"
  | .put _ _ => "Put"
  | .delete _ => "Delete"
  | .clear => "Clear"
  | .cleanup => "CleanupExpired"
  | .size => "Size"
  | .stats => "Stats"
  | .keys => "Keys"

def lruMethods : List String := ["Get", "Put", "Delete", "Clear", "CleanupExpired", "Size", "Stats", "Keys"]

def modeOfLock : Wtf.Gen.LockFacts.LockKind → Mode
  | .exclusive => .excl
  | _ => .shared

def lruMode (op : Op κ ν) : Mode :=
  modeOfLock (Wtf.LockDiscipline.lockOf Wtf.Gen.LockFacts.methods "LRUCache" (lruMethod op))

/-- An operation of the concurrent system is a sequential LRU operation together with the clock value
    it reads inside its critical section (any value: nothing is assumed about clocks). -/
def lruSpec : Spec (State κ ν) (Int × Op κ ν) (Out κ ν) :=
  { mode := fun p => lruMode p.2, step := fun s p => Lru.step s p.1 p.2 }

end Wtf.ConcLru
