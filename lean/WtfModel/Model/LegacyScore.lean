import WtfModel.Model.Filters
import WtfModel.Model.Index
import WtfModel.Basic.ScoreOps
import WtfModel.Gen.LegacyScore
/-
  Model of the legacy scorer of internal/database/search.go as it is at /repo HEAD: `calculateScore` and
  everything under it (calculateWordScore, calculateCommandScore(word, cmdLower), calculateDomainScore /
  isDomainSpecificMatch, calculateKeywordScore, calculateDescriptionScore, calculateTagScore,
  getCategoryRelevanceBoost / getCategoryBoostForWord with the get*Boost and is*Tool helpers, the context
  and niche boosts, finiteScore).  Core Lean only, generic over the score type.

  Every floating-point operation is written with `ScoreOps` in the order of the Go code, every literal is
  an exact rational regenerated from the source (`Gen.LegacyScore`, extractor xlate/x_legacyscore.go), so
  with `S := Float` the model is bit-identical to the real code (driver op `mls`, compared with the
  values of the hook `VerifLegacyScore` on every generated case).

  The control flow of each function is the one asserted by the translator (`legacyscore:shape:<func>`);
  the category helpers are not transcribed but interpreted from the regenerated rule table
  `Gen.LegacyScore.categoryRules`.

  One parameter: `fin : S → S` stands for `finiteScore` (saturation of +Inf at math.MaxFloat64).  An
  ordered field has no infinite element; the driver passes the IEEE function, theorems assume only
  that it keeps non-negative scores non-negative.
-/
namespace Wtf.LegacyScore
open Text GoStr ScoreOps Filters Index

variable {S : Type} [ScoreOps S]


def sp : Bytes := [0x20]

/-- strings.HasSuffix -/
def hasSuffixB (s suf : Bytes) : Bool := decide (suf.length ≤ s.length) && s.drop (s.length - suf.length) == suf

/-! ### the five summands of calculateWordScore -/

/-- calculateCommandScore(word, cmdLower) -/
def commandScore (word cmdLower : Bytes) : S :=
  if cmdLower == word then ofQ Gen.LegacyScore.cmdExact
  else if hasPrefixB cmdLower (word ++ sp) || hasPrefixB cmdLower word then ofQ Gen.LegacyScore.cmdPrefix
  else if containsB cmdLower (sp ++ word ++ sp) || containsB cmdLower (sp ++ word) then ofQ Gen.LegacyScore.cmdWord
  else if containsB cmdLower word then ofQ Gen.LegacyScore.cmdContains
  else zero

/-- isDomainSpecificMatch(word, cmd): `cmdLower` is `strings.ToLower(cmd.Command)`, recomputed -/
def isDomainSpecificMatch (ri : RuneInfo) (word : Bytes) (c : Cmd) : Bool :=
  let cmdLower := toLower ri c.command
  match Gen.LegacyScore.domainMappings.find? (fun e => bs e.1 == word) with
  | some (_, commands) => commands.any (fun dc => cmdLower == bs dc || hasPrefixB cmdLower (bs dc ++ sp))
  | none => false

/-- calculateDomainScore -/
def domainScore (ri : RuneInfo) (word : Bytes) (c : Cmd) : S :=
  if isDomainSpecificMatch ri word c then ofQ Gen.LegacyScore.domainScore else zero

/-- the two-pass loops of calculateKeywordScore / calculateTagScore: an exact match anywhere wins over a
    partial one -/
def listScore (word : Bytes) (items : List Bytes) (exact partialV : Q) : S :=
  if items.any (· == word) then ofQ exact
  else if items.any (fun k => containsB k word) then ofQ partialV
  else zero

def keywordScore (word : Bytes) (keywordsLower : List Bytes) : S := listScore word keywordsLower Gen.LegacyScore.keywordExact Gen.LegacyScore.keywordPartial

def tagScore (word : Bytes) (tagsLower : List Bytes) : S := listScore word tagsLower Gen.LegacyScore.tagExact Gen.LegacyScore.tagPartial

/-- calculateDescriptionScore(word, descLower) -/
def descriptionScore (word descLower : Bytes) : S :=
  if containsB descLower (sp ++ word ++ sp) || hasPrefixB descLower (word ++ sp) || hasSuffixB descLower (sp ++ word)
  then ofQ Gen.LegacyScore.descWord
  else if containsB descLower word then ofQ Gen.LegacyScore.descPartial
  else zero

/-- calculateWordScore: `var wordScore float64` then five `+=` in this order -/
def wordScore (ri : RuneInfo) (word : Bytes) (c : Cmd) : S :=
  add (add (add (add (add zero (commandScore word c.commandLower)) (domainScore ri word c))
    (keywordScore word c.keywordsLower)) (descriptionScore word c.descriptionLower)) (tagScore word c.tagsLower)

/-! ### category factors (interpreted from the regenerated rule table) -/

def evalAtom (cmdLower : Bytes) : Gen.LegacyScore.Atom → Bool
  | .eq s => cmdLower == bs s
  | .pre s => hasPrefixB cmdLower (bs s)
  | .has s => containsB cmdLower (bs s)

/-- one get<X>Boost helper: the value of the first rule one of whose atoms holds, else the default -/
def evalRules (cmdLower : Bytes) : List (List Gen.LegacyScore.Atom × Q) → Q → Q
  | [], d => d
  | (atoms, v) :: rest, d => if atoms.any (evalAtom cmdLower) then v else evalRules cmdLower rest d

/-- getCategoryBoostForWord(word, cmdLower) as an exact rational -/
def categoryBoostQ (word cmdLower : Bytes) : Q :=
  match Gen.LegacyScore.categoryRules.find? (fun r => r.1.any (fun w => bs w == word)) with
  | some (_, rules, d) => evalRules cmdLower rules d
  | none => Gen.LegacyScore.categoryDefault

/-- getCategoryRelevanceBoost(cmd, queryWords): one factor per query word (short words included) -/
def categoryBoost (ri : RuneInfo) (c : Cmd) (words : List Bytes) : S :=
  let cmdLower := toLower ri c.command
  words.foldl (fun b w => mul b (ofQ (categoryBoostQ w cmdLower))) (ofQ Gen.LegacyScore.categoryInit)

/-! ### calculateScore -/

structure Acc (S : Type) where
  score : S
  maxWord : S
  matched : Nat

/-- one iteration of the loop over the query words -/
def stepWord (ri : RuneInfo) (boosts : List (Bytes × S)) (c : Cmd) (a : Acc S) (word : Bytes) : Acc S :=
  if (word.length : Int) < Gen.LegacyScore.minWordLength then a else
  let ws : S := wordScore ri word c
  let maxWord := if lt a.maxWord ws then ws else a.maxWord
  let matched := if lt zero ws then a.matched + 1 else a.matched
  let ws' := match look boosts word with
    | some b => mul ws b
    | none => ws
  { score := add a.score ws', maxWord := maxWord, matched := matched }

def scoreLoop (ri : RuneInfo) (boosts : List (Bytes × S)) (c : Cmd) (words : List Bytes) : Acc S :=
  words.foldl (stepWord ri boosts c) { score := zero, maxWord := zero, matched := 0 }

/-- `if len(queryWords) > 1 && matchedWords > 1 { score *= 1.0 + matched/len * 0.5 }` -/
def completeness (nWords matched : Nat) (score : S) : S :=
  if nWords > 1 && matched > 1 then
    mul score (add (ofQ Gen.LegacyScore.completenessBase) (mul (div (ofNat matched) (ofNat nWords)) (ofQ Gen.LegacyScore.completenessWeight)))
  else score

/-- `if max >= Direct { score *= DirectBonus } else if max >= Command { score *= CommandBonus }` -/
def matchBonus (maxWord score : S) : S :=
  if !(lt maxWord (ofQ Gen.LegacyScore.directThreshold)) then mul score (ofQ Gen.LegacyScore.directBonus)
  else if !(lt maxWord (ofQ Gen.LegacyScore.commandThreshold)) then mul score (ofQ Gen.LegacyScore.commandBonus)
  else score

/-- `if contextBoosts != nil && cmd.Niche != "" { if b, ok := contextBoosts[lower(niche)]; ok { score *= 1.0 + b*factor } }` -/
def nicheBoost (ri : RuneInfo) (boosts : List (Bytes × S)) (c : Cmd) (score : S) : S :=
  if c.niche.isEmpty then score else
  match look boosts (toLower ri c.niche) with
  | some b => mul score (add (ofQ Gen.LegacyScore.nicheBase) (mul b (ofQ Gen.LegacyScore.nicheFactor)))
  | none => score

/-- calculateScore before the final `finiteScore` -/
def rawScore (ri : RuneInfo) (boosts : List (Bytes × S)) (c : Cmd) (words : List Bytes) : S :=
  let a := scoreLoop ri boosts c words
  let s1 := completeness words.length a.matched a.score
  let s2 := matchBonus a.maxWord s1
  let s3 := mul s2 (categoryBoost ri c words)
  nicheBoost ri boosts c s3

/-- calculateScore(cmd, queryWords, contextBoosts).  `boosts` is the map as an association list with
    distinct keys (a nil map and an empty map behave alike: every lookup misses). -/
def calculateScore (fin : S → S) (ri : RuneInfo) (boosts : List (Bytes × S)) (c : Cmd) (words : List Bytes) : S :=
  fin (rawScore ri boosts c words)

/-- `queryWords := strings.Fields(strings.ToLower(query))` -/
def queryWords (ri : RuneInfo) (q : Bytes) : List Bytes := fields ri (toLower ri q)

end Wtf.LegacyScore
