import WtfModel.Basic.Bytes
import WtfModel.Basic.Q

/-!
  Model of /repo/internal/metrics (metrics.go, performance.go) — C18.  Core Lean only.

  * series keys: `metricKey sorts sp name tags σ`.  `tags` is the tag map as a duplicate-free
    association list, `σ` the order in which Go's `range tags` happens to deliver the tag names (an
    arbitrary permutation of them, chosen anew by the runtime for every loop).  `sorts` is the
    regenerated code-shape fact `Gen.Metrics.keyLoopSortsTags`: when it is true the names collected
    in order `σ` go through `sort.Strings` before they are concatenated (the code at HEAD); when it is
    false the concatenation itself walks the map, i.e. follows `σ` (the code before commit cdc2e318).
  * `Registry`: one of the four `map[string]*T` of a `Collector`, as a list of series in creation
    order.  The position of a series in that list plays the role of the Go pointer: `getOrCreate`
    returns it, and two calls return "the same metric" iff they return the same position.
  * `Counter` (an int64: arithmetic wraps), `Hist` (histogram) over an abstract number type
    (`Float` in the driver, `Rat` in the proofs), and the recording functions of `PerformanceMonitor`.
-/
namespace Wtf.Metrics

/-- ASCII literal as bytes (used for the fixed metric / tag names of performance.go). -/
def asc (s : String) : Bytes := s.toList.map (fun c => UInt8.ofNat c.toNat)

/-! ## Series keys -/

/-- Go's `<=` on strings: bytewise lexicographic order. -/
def bytesLe : Bytes → Bytes → Bool
  | [], _ => true
  | _ :: _, [] => false
  | a :: as, b :: bs =>
    if a.toNat < b.toNat then true else if b.toNat < a.toNat then false else bytesLe as bs

def insertBy {α : Type} (le : α → α → Bool) (x : α) : List α → List α
  | [] => [x]
  | y :: ys => if le x y then x :: y :: ys else y :: insertBy le x ys

/-- insertion sort; `sort.Strings` is `sortBy bytesLe` (any correct sort gives the same list, the order
    being total and antisymmetric — `Proofs/Metrics.lean`, `sortBy_perm_eq`). -/
def sortBy {α : Type} (le : α → α → Bool) : List α → List α
  | [] => []
  | x :: xs => insertBy le x (sortBy le xs)

def sortKeys (ks : List Bytes) : List Bytes := sortBy bytesLe ks

/-- a tag map: association list without duplicate names -/
abbrev Tags := List (Bytes × Bytes)

def tagNames (tags : Tags) : List Bytes := tags.map (·.1)

/-- `tags[k]` (the empty string for a missing key, as in Go) -/
def tagValue : Tags → Bytes → Bytes
  | [], _ => []
  | (k', v) :: rest, k => if k' = k then v else tagValue rest k

/-- the two separator literals of `key += ":" + k + "=" + v` (regenerated) -/
structure Seps where
  tag : Bytes
  kv : Bytes

/-- `key := name; for _, k := range order { key += sep.tag + k + sep.kv + tags[k] }` -/
def render (sp : Seps) (name : Bytes) (tags : Tags) (order : List Bytes) : Bytes :=
  order.foldl (fun key k => key ++ sp.tag ++ k ++ sp.kv ++ tagValue tags k) name

/-- `Collector.metricKey`.  `σ` = order in which `range tags` delivers the names. -/
def metricKey (sorts : Bool) (sp : Seps) (name : Bytes) (tags : Tags) (σ : List Bytes) : Bytes :=
  if tags.isEmpty then name
  else if sorts then render sp name tags (sortKeys σ)
  else render sp name tags σ

/-- `σ` is a possible iteration order of the map `tags` -/
def ValidSched (tags : Tags) (σ : List Bytes) : Prop := σ.Perm (tagNames tags)

/-! ## Registries (get-or-create) -/

/-- one stored metric: the key it is filed under, and the name / tag map given by the call that created it -/
structure Series (β : Type) where
  key : Bytes
  name : Bytes
  tags : Tags
  val : β

abbrev Registry (β : Type) := List (Series β)

/-- `getOrCreate`: position of the series filed under `key`; appended (with the factory's fresh value)
    when there is none.  Both lookups and the store of the Go function use the same `key`, and the
    second lookup + store happen under the collector's exclusive lock, so the function is one atomic
    get-or-create on the map. -/
def getOrCreate {β : Type} : Registry β → Bytes → Bytes → Tags → β → Registry β × Nat
  | [], key, name, tags, fresh => ([⟨key, name, tags, fresh⟩], 0)
  | s :: rest, key, name, tags, fresh =>
    if s.key = key then (s :: rest, 0)
    else
      let r := getOrCreate rest key name tags fresh
      (s :: r.1, r.2 + 1)

def modifyAt {β : Type} : Registry β → Nat → (β → β) → Registry β
  | [], _, _ => []
  | s :: rest, 0, f => { s with val := f s.val } :: rest
  | s :: rest, i + 1, f => s :: modifyAt rest i f

/-- the metric filed under `key`, if any -/
def valueOf? {β : Type} : Registry β → Bytes → Option β
  | [], _ => none
  | s :: rest, key => if s.key = key then some s.val else valueOf? rest key

/-- look the metric up (creating it if needed) and apply `f` to it: what every recorded event does -/
def touch {β : Type} (r : Registry β) (key name : Bytes) (tags : Tags) (fresh : β) (f : β → β) : Registry β :=
  let g := getOrCreate r key name tags fresh
  modifyAt g.1 g.2 f

/-! ## Counter -/

/-- int64 wrap-around (`atomic.AddInt64` wraps silently) -/
def wrap64 (x : Int) : Int := Int.bmod x (2 ^ 64)

inductive CounterOp where
  | inc
  | add (n : Int)
  | reset
deriving Repr, DecidableEq

def counterStep (v : Int) : CounterOp → Int
  | .inc => wrap64 (v + 1)
  | .add n => wrap64 (v + n)
  | .reset => 0

def counterRun (v : Int) (ops : List CounterOp) : Int := ops.foldl counterStep v

/-! ## Histogram -/

/-- the arithmetic a histogram needs; `target count p` is `int64(float64(count) * p / 100.0)` -/
class Num (α : Type) where
  zero : α
  add : α → α → α
  le : α → α → Bool
  target : Nat → α → Int

structure Hist (α : Type) where
  buckets : List α
  counts : List Nat      -- `len(buckets)+1` cells, the last one is the overflow cell
  sum : α
  count : Nat

def Hist.new {α : Type} [Num α] (buckets : List α) : Hist α :=
  { buckets := buckets, counts := List.replicate (buckets.length + 1) 0, sum := Num.zero, count := 0 }

/-- the bucket loop of `Observe`: first bucket with `value <= bucket`, else the overflow cell.
    (The last clause is unreachable: `counts` always has `len(buckets)+1` cells.) -/
def bump {α : Type} [Num α] : List α → List Nat → α → List Nat
  | b :: bs, c :: cs, v => if Num.le v b then (c + 1) :: cs else c :: bump bs cs v
  | [], c :: cs, _ => (c + 1) :: cs
  | _, [], _ => []

def Hist.observe {α : Type} [Num α] (h : Hist α) (v : α) : Hist α :=
  { h with sum := Num.add h.sum v, count := h.count + 1, counts := bump h.buckets h.counts v }

def Hist.observeAll {α : Type} [Num α] (h : Hist α) (vs : List α) : Hist α := vs.foldl Hist.observe h

/-- the loop of `Percentile`: index of the first cell at which the running total reaches `target` -/
def pctIdx : List Nat → Int → Int → Nat → Option Nat
  | [], _, _, _ => none
  | c :: cs, cum, target, i =>
    if cum + (c : Int) ≥ target then some i else pctIdx cs (cum + c) target (i + 1)

/-- value reported for cell `i`: `buckets[i]`, and `buckets[len(buckets)-1]` for the overflow cell.
    `none` = Go panics (index -1: a histogram built with an empty custom bucket list). -/
def bucketAt {α : Type} (buckets : List α) (i : Nat) : Option α :=
  if i < buckets.length then buckets[i]? else buckets.getLast?

/-- `Percentile` once the integer target is known; `none` = panic -/
def Hist.percentileAt {α : Type} [Num α] (h : Hist α) (target : Int) : Option α :=
  if h.count = 0 then some Num.zero
  else match pctIdx h.counts 0 target 0 with
    | some i => bucketAt h.buckets i
    | none => some Num.zero

def Hist.percentile {α : Type} [Num α] (h : Hist α) (p : α) : Option α :=
  h.percentileAt (Num.target h.count p)

/-! ## Collector and PerformanceMonitor -/

/-- what the model takes from `Gen.Metrics` -/
structure Cfg (α : Type) where
  sorts : Bool
  sp : Seps
  defaultBuckets : List α

structure Collector (α : Type) where
  counters : Registry Int
  gauges : Registry Int             -- thousandths, as the Go gauge stores them
  hists : Registry (Hist α)
  timers : Registry (Hist α)        -- a Timer is a histogram named `<name>_duration`

def Collector.empty {α : Type} : Collector α := ⟨[], [], [], []⟩

variable {α : Type} [Num α]

def Collector.counter (cfg : Cfg α) (c : Collector α) (name : Bytes) (tags : Tags) (σ : List Bytes)
    (op : CounterOp) : Collector α :=
  { c with counters := touch c.counters (metricKey cfg.sorts cfg.sp name tags σ) name tags 0 (counterStep · op) }

def Collector.gaugeSet (cfg : Cfg α) (c : Collector α) (name : Bytes) (tags : Tags) (σ : List Bytes)
    (milli : Int) : Collector α :=
  { c with gauges := touch c.gauges (metricKey cfg.sorts cfg.sp name tags σ) name tags 0 (fun _ => milli) }

def Collector.observe (cfg : Cfg α) (c : Collector α) (name : Bytes) (tags : Tags) (σ : List Bytes)
    (v : α) : Collector α :=
  let r := touch c.hists (metricKey cfg.sorts cfg.sp name tags σ) name tags (Hist.new cfg.defaultBuckets) (·.observe v)
  { c with hists := r }

def Collector.timerObserve (cfg : Cfg α) (c : Collector α) (name : Bytes) (tags : Tags) (σ : List Bytes)
    (v : α) : Collector α :=
  let r := touch c.timers (metricKey cfg.sorts cfg.sp name tags σ) name tags (Hist.new cfg.defaultBuckets) (·.observe v)
  { c with timers := r }

structure Monitor (α : Type) where
  enabled : Bool
  c : Collector α

/-- `NewPerformanceMonitor` -/
def Monitor.new : Monitor α := { enabled := true, c := Collector.empty }

/-- `fmt.Sprintf("%t", b)` -/
def boolTag (b : Bool) : Bytes := if b then asc "true" else asc "false"

def nSearchDuration := asc "search_duration"
def nSearchResults := asc "search_results"
def nQueryLength := asc "query_length"
def nSearchesTotal := asc "searches_total"
def nCacheHits := asc "cache_hits_total"
def nCacheMisses := asc "cache_misses_total"
def nDbDuration := asc "database_operation_duration"
def nDbTotal := asc "database_operations_total"
def tCacheHit := asc "cache_hit"
def tOperation := asc "operation"
def tSuccess := asc "success"

def searchTags (cacheHit : Bool) : Tags := [(tCacheHit, boolTag cacheHit)]
def dbTags (operation : Bytes) (success : Bool) : Tags := [(tOperation, operation), (tSuccess, boolTag success)]

/-- `RecordSearchOperation(duration, resultCount, cacheHit, queryLength)`; `durMs`, `qlen` are the two
    observed values already converted to float64.  A one-tag map has a single iteration order. -/
def Monitor.recordSearch (cfg : Cfg α) (m : Monitor α) (durMs : α) (resultCount : Int) (cacheHit : Bool)
    (qlen : α) : Monitor α :=
  if !m.enabled then m else
  let c := m.c.timerObserve cfg nSearchDuration (searchTags cacheHit) [tCacheHit] durMs
  let c := c.gaugeSet cfg nSearchResults [] [] (resultCount * 1000)
  let c := c.observe cfg nQueryLength [] [] qlen
  let c := c.counter cfg nSearchesTotal (searchTags cacheHit) [tCacheHit] .inc
  let c := if cacheHit then c.counter cfg nCacheHits [] [] .inc else c.counter cfg nCacheMisses [] [] .inc
  { m with c := c }

/-- `RecordDatabaseOperation(operation, duration, success)`.  Two separate two-tag map literals are
    built and ranged over: `σT` / `σC` are the iteration orders of the timer's and the counter's map. -/
def Monitor.recordDb (cfg : Cfg α) (m : Monitor α) (operation : Bytes) (durMs : α) (success : Bool)
    (σT σC : List Bytes) : Monitor α :=
  if !m.enabled then m else
  let c := m.c.timerObserve cfg nDbDuration (dbTags operation success) σT durMs
  let c := c.counter cfg nDbTotal (dbTags operation success) σC .inc
  { m with c := c }

inductive MonOp (α : Type) where
  | search (durMs : α) (resultCount : Int) (cacheHit : Bool) (qlen : α)
  | db (operation : Bytes) (durMs : α) (success : Bool) (σT σC : List Bytes)
  | enable (b : Bool)

def Monitor.step (cfg : Cfg α) (m : Monitor α) : MonOp α → Monitor α
  | .search d r h q => m.recordSearch cfg d r h q
  | .db o d s σT σC => m.recordDb cfg o d s σT σC
  | .enable b => { m with enabled := b }

def Monitor.run (cfg : Cfg α) (m : Monitor α) (ops : List (MonOp α)) : Monitor α := ops.foldl (Monitor.step cfg) m

/-- Σ of the values of all series created under metric name `name` -/
def sumByName (r : Registry Int) (name : Bytes) : Int :=
  (r.filter (·.name = name)).foldl (fun acc s => acc + s.val) 0

/-! ## Concurrency: interleavings of per-goroutine programs over one shared cell

  Each goroutine runs a list of instructions on one shared `int64` cell.  `atomicAdd n` is
  `atomic.AddInt64(&v, n)` (one indivisible step).  `load` / `storeAdd n` are the two halves of the
  non-atomic `v += n` (read into a goroutine-local register, then write register + n back).
  A schedule is the list of goroutine numbers in the order in which they take their next step. -/

inductive Instr where
  | atomicAdd (n : Int)
  | load
  | storeAdd (n : Int)
deriving Repr, DecidableEq

structure Thread where
  prog : List Instr
  reg : Int
deriving Repr, DecidableEq

structure Sys where
  shared : Int
  threads : List Thread
deriving Repr, DecidableEq

/-- the program of `k` increments: `atomic.AddInt64(&v,1)` each when the counter is atomic, the
    read-modify-write pair `v++` otherwise -/
def incProg (atomic : Bool) (k : Nat) : List Instr :=
  if atomic then List.replicate k (.atomicAdd 1)
  else (List.replicate k [Instr.load, Instr.storeAdd 1]).flatten

def Sys.init (atomic : Bool) (ks : List Nat) : Sys :=
  { shared := 0, threads := ks.map (fun k => { prog := incProg atomic k, reg := 0 }) }

def execThread (shared : Int) (t : Thread) : Int × Thread :=
  match t.prog with
  | [] => (shared, t)
  | .atomicAdd n :: rest => (shared + n, { t with prog := rest })
  | .load :: rest => (shared, { prog := rest, reg := shared })
  | .storeAdd n :: rest => (t.reg + n, { t with prog := rest })

def stepThreads (shared : Int) : List Thread → Nat → Int × List Thread
  | [], _ => (shared, [])
  | t :: ts, 0 => let r := execThread shared t; (r.1, r.2 :: ts)
  | t :: ts, i + 1 => let r := stepThreads shared ts i; (r.1, t :: r.2)

/-- goroutine `tid` takes its next step (nothing happens if it has finished or does not exist) -/
def Sys.step (s : Sys) (tid : Nat) : Sys :=
  let r := stepThreads s.shared s.threads tid
  { shared := r.1, threads := r.2 }

def Sys.run (s : Sys) (sched : List Nat) : Sys := sched.foldl Sys.step s

def Sys.done (s : Sys) : Bool := s.threads.all (·.prog.isEmpty)

end Wtf.Metrics
