import WtfModel.Model.Db
import WtfModel.Basic.ScoreOps
import WtfModel.Gen.Bm25
/-
  Model of the BM25F inverted index (search_universal.go: BuildUniversalIndex, indexCommand,
  termBM25F, fieldBM25).  Core Lean only.  Maps are association lists; only lookups are observable.
-/
namespace Wtf.Index
open Text

structure FieldTF where
  cmd : Nat := 0
  desc : Nat := 0
  keys : Nat := 0
  tags : Nat := 0
deriving Repr, DecidableEq, Inhabited

structure Posting where
  doc : Nat
  tf : FieldTF
deriving Repr, DecidableEq

structure DocLens where
  cmd : Nat := 0
  desc : Nat := 0
  keys : Nat := 0
  tags : Nat := 0
deriving Repr, DecidableEq, Inhabited

inductive Field where | cmd | desc | keys | tags
deriving Repr, DecidableEq

def FieldTF.inc (t : FieldTF) : Field → FieldTF
  | .cmd => { t with cmd := t.cmd + 1 }
  | .desc => { t with desc := t.desc + 1 }
  | .keys => { t with keys := t.keys + 1 }
  | .tags => { t with tags := t.tags + 1 }

/-- association-list update: `m[k] = f(m[k])` with a default for a missing key -/
def upd {α : Type} (m : List (Token × α)) (k : Token) (dflt : α) (f : α → α) : List (Token × α) :=
  match m with
  | [] => [(k, f dflt)]
  | (k', v) :: rest => if k' == k then (k', f v) :: rest else (k', v) :: upd rest k dflt f

def look {α : Type} (m : List (Token × α)) (k : Token) : Option α :=
  match m with
  | [] => none
  | (k', v) :: rest => if k' == k then some v else look rest k

/-- per-document term frequencies (indexCommand's `termFreqs`) -/
def addTokens (m : List (Token × FieldTF)) (ts : List Token) (f : Field) : List (Token × FieldTF) :=
  ts.foldl (fun m t => upd m t {} (·.inc f)) m

def docTF (c : Cmd) : List (Token × FieldTF) :=
  addTokens (addTokens (addTokens (addTokens [] c.cmdTokens .cmd) c.descTokens .desc) c.keysTokens .keys)
    c.tagsTokens .tags

def docLens (c : Cmd) : DocLens :=
  { cmd := c.cmdTokens.length, desc := c.descTokens.length, keys := c.keysTokens.length,
    tags := c.tagsTokens.length }

structure Index where
  postings : List (Token × List Posting) := []
  df : List (Token × Nat) := []
  lens : List DocLens := []
  n : Nat := 0
deriving Repr

/-- one step of BuildUniversalIndex's two loops, fused per document (order of documents preserved) -/
def addDoc (idx : Index) (c : Cmd) : Index :=
  let id := idx.lens.length
  let tf := docTF c
  { postings := tf.foldl (fun p (t, ftf) => upd p t [] (· ++ [{ doc := id, tf := ftf }])) idx.postings
    df := tf.foldl (fun d (t, _) => upd d t 0 (· + 1)) idx.df
    lens := idx.lens ++ [docLens c]
    n := idx.n + 1 }

def build (db : Db) : Index := db.foldl addDoc {}

def sumLens (ls : List DocLens) : DocLens :=
  ls.foldl (fun a l => { cmd := a.cmd + l.cmd, desc := a.desc + l.desc, keys := a.keys + l.keys,
                         tags := a.tags + l.tags }) {}

section scoring
variable {S : Type} [ScoreOps S]
open ScoreOps

structure Params (S : Type) where
  k1 : S
  bCmd : S
  bDesc : S
  bKeys : S
  bTags : S
  wCmd : S
  wDesc : S
  wKeys : S
  wTags : S
  minIDF : S

/-- defaultParams(), regenerated -/
def genParams : Params S :=
  { k1 := ofQ Gen.Bm25.k1, bCmd := ofQ Gen.Bm25.b_cmd, bDesc := ofQ Gen.Bm25.b_desc,
    bKeys := ofQ Gen.Bm25.b_keys, bTags := ofQ Gen.Bm25.b_tags, wCmd := ofQ Gen.Bm25.w_cmd,
    wDesc := ofQ Gen.Bm25.w_desc, wKeys := ofQ Gen.Bm25.w_keys, wTags := ofQ Gen.Bm25.w_tags,
    minIDF := ofQ Gen.Bm25.minIDF }

/-- average field length: float64(sum)/float64(N) -/
def avgOf (total n : Nat) : S := div (ofNat total) (ofNat n)

def fieldBM25 (k1 : S) (tf dl avgdl w b : S) : S :=
  let avgdl := if le avgdl zero then one else avgdl
  let norm := add (sub one b) (mul b (div dl avgdl))
  let tfw := mul w tf
  div (mul tfw (add k1 one)) (add tfw (mul k1 norm))

/-- termBM25F, given the document's field lengths and the collection totals -/
def termBM25F (P : Params S) (n : Nat) (tot : DocLens) (dl : DocLens) (tf : FieldTF) : S :=
  let s0 : S := zero
  let s1 := if tf.cmd > 0 then add s0 (fieldBM25 P.k1 (ofNat tf.cmd) (ofNat dl.cmd) (avgOf tot.cmd n) P.wCmd P.bCmd) else s0
  let s2 := if tf.desc > 0 then add s1 (fieldBM25 P.k1 (ofNat tf.desc) (ofNat dl.desc) (avgOf tot.desc n) P.wDesc P.bDesc) else s1
  let s3 := if tf.keys > 0 then add s2 (fieldBM25 P.k1 (ofNat tf.keys) (ofNat dl.keys) (avgOf tot.keys n) P.wKeys P.bKeys) else s2
  let s4 := if tf.tags > 0 then add s3 (fieldBM25 P.k1 (ofNat tf.tags) (ofNat dl.tags) (avgOf tot.tags n) P.wTags P.bTags) else s3
  s4

end scoring

/-! ### Scan specification (no index): what the index is supposed to answer -/

def count (ts : List Token) (t : Token) : Nat := (ts.filter (· == t)).length

def tfOf (c : Cmd) (t : Token) : FieldTF :=
  { cmd := count c.cmdTokens t, desc := count c.descTokens t, keys := count c.keysTokens t,
    tags := count c.tagsTokens t }

def FieldTF.isZero (f : FieldTF) : Bool := f.cmd == 0 && f.desc == 0 && f.keys == 0 && f.tags == 0

def containsTerm (c : Cmd) (t : Token) : Bool := !(tfOf c t).isZero

def dfOf (db : Db) (t : Token) : Nat := (db.filter (containsTerm · t)).length

def scanPostingsAux : Nat → Db → Token → List Posting
  | _, [], _ => []
  | i, c :: rest, t =>
    if containsTerm c t then { doc := i, tf := tfOf c t } :: scanPostingsAux (i + 1) rest t
    else scanPostingsAux (i + 1) rest t

def scanPostings (db : Db) (t : Token) : List Posting := scanPostingsAux 0 db t

end Wtf.Index
