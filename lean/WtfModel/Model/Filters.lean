import WtfModel.Model.Db
import WtfModel.Basic.GoStr
import WtfModel.Gen.Platform
/-
  Platform / pipeline gate shared by every search path (search_universal.go passesFilters,
  checkPlatformVariant; search.go isPipelineCommand, isCrossPlatformTool).  Core Lean only.
-/
namespace Wtf.Filters
open Text GoStr

def bs (s : String) : Bytes := Bytes.ofString s

/-- checkPlatformVariant(p, current) -/
def platformVariant (ri : RuneInfo) (p current : Bytes) : Bool :=
  let pl := toLower ri p
  Gen.Platform.variants.any (fun (host, exact, prefixes) =>
    bs host == current && (exact.any (fun e => bs e == pl) || prefixes.any (fun q => hasPrefixB pl (bs q))))

/-- isCrossPlatformTool(command) -/
def crossTool (ri : RuneInfo) (command : Bytes) : Bool :=
  let cl := toLower ri command
  Gen.Platform.crossPlatformTools.any (fun t => hasPrefixB cl (bs t ++ [0x20]) || cl == bs t)

/-- isPipelineCommand -/
def isPipeline (ri : RuneInfo) (c : Cmd) : Bool :=
  c.pipeline || containsB c.command (bs "|") || containsB (toLower ri c.command) (bs "pipe") ||
    containsB c.command (bs "&&") || containsB c.command (bs ">>")

def isCrossTag (ri : RuneInfo) (p : Bytes) : Bool := equalFold ri p (bs "cross-platform")

/-- the platforms in force: the ones asked for, otherwise the host -/
def inForce (host : Bytes) (platforms : List Bytes) : List Bytes :=
  if platforms.isEmpty then [host] else platforms

/-- a declared platform `p` (not the cross tag) names a platform in force -/
def declares (ri : RuneInfo) (force : List Bytes) (p : Bytes) : Bool :=
  force.any (fun want => equalFold ri p want || platformVariant ri p (toLower ri want))

structure FilterOpts where
  allPlatforms : Bool
  platforms : List Bytes
  noCross : Bool
  pipelineOnly : Bool
deriving Repr

def platformOK (ri : RuneInfo) (host : Bytes) (o : FilterOpts) (c : Cmd) : Bool :=
  if !o.allPlatforms && !c.platform.isEmpty then
    let force := inForce host o.platforms
    let declared := c.platform.any (fun p => !isCrossTag ri p && declares ri force p)
    let crossTag := c.platform.any (isCrossTag ri)
    !(!declared && (o.noCross || (!crossTag && !crossTool ri c.command)))
  else true

/-- passesFilters -/
def passes (ri : RuneInfo) (host : Bytes) (o : FilterOpts) (c : Cmd) : Bool :=
  platformOK ri host o c && !(o.pipelineOnly && !isPipeline ri c)

end Wtf.Filters
