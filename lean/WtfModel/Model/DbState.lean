import WtfModel.Model.Search
/-
  Model of the *state* around SearchUniversal: which commands are searched, which inverted index is
  consulted, and which command list the TF-IDF re-ranker (db.tfidf + db.cmdIndex) was built from —
  across the operations that create or change a database at run time
    LoadDatabase, LoadDatabaseWithPersonal (loader.go), CachedDatabase.UpdateDatabase
    (search_cached.go), direct growth / replacement of db.Commands, and SearchUniversal's lazy rebuild
    `if db.uIndex == nil || db.uIndex.N != len(db.Commands) { BuildUniversalIndex(); buildTFIDFSearcher() }`
  as they are at /repo HEAD.  Core Lean only, executable (driver domain `c03`).

  Not modelled: load errors (a failed load produces no database), the result cache (C05), embeddings.
  In a state whose re-ranker is stale the real code resolves result pointers through the old
  `cmdIndex` map (unknown pointers read as index 0); the model instead ranks by document id.  The two
  agree whenever the re-ranker is fresh, which `Wtf.C03.fresh` proves for every reachable state of the
  property's operations, so the difference is never observable there.
-/
namespace Wtf.Search
open Text Index Filters ScoreOps GoStr

variable {S : Type} [ScoreOps S]

/-- SearchUniversal after the lazy-rebuild check, with the index it consults as an explicit argument
    (`search T db q o` is the instance `idx := build db`) -/
def searchWith (T : Tuning S) (db : Db) (idx : Index) (q : Bytes) (o : Opts S) :
    Except Fuzzy.Panic (List (Nat × S)) :=
  let limit := effLimit o
  let nq := T.normQ q
  let terms0 := tokenize nq
  let pq : Option (NlpOut S) := if o.useNLP then some (T.nlp nq) else none
  let terms1 := match pq with | some n => enhanceTerms terms0 n.enhanced | none => terms0
  let fallback : Except Fuzzy.Panic (List (Nat × S)) :=
    if o.useFuzzy then fuzzySearch T db nq o limit else .ok []
  if terms1.isEmpty then fallback else
  let terms := selectTopTerms T idx terms1 (effCap o)
  let scores := initialScores T db idx o pq terms
  if scores.isEmpty then fallback else
  let r0 := sortDesc (·.2) (collect T db o pq scores)
  let r1 := if o.useNLP then rerank T nq limit r0 else r0
  let r2 := match pq with | some n => cascadeStage n r1 | none => r1
  .ok (r2.take limit)

/-- the loader's cache population (LoadDatabase: `XLower = strings.ToLower(X)`, element-wise for lists) -/
def populate (ri : RuneInfo) (c : Cmd) : Cmd :=
  { c with commandLower := toLower ri c.command, descriptionLower := toLower ri c.description,
           keywordsLower := c.keywords.map (toLower ri), tagsLower := c.tags.map (toLower ri) }

structure DbState where
  /-- db.Commands -/
  cmds : List Cmd := []
  /-- db.uIndex (none: nil) -/
  idx : Option Index := none
  /-- the command list db.tfidf / db.cmdIndex were built from (none: never built) -/
  rr : Option (List Cmd) := none

inductive Op (S : Type) where
  /-- LoadDatabase(file with these entries) -/
  | load (raw : List Cmd)
  /-- LoadDatabaseWithPersonal(main, personal); `none`: the personal file does not exist -/
  | loadWithPersonal (main : List Cmd) (personal : Option (List Cmd))
  /-- CachedDatabase.UpdateDatabase(cmds) -/
  | update (cmds : List Cmd)
  /-- db.Commands = append(db.Commands, more...) behind the engine's back -/
  | growDirect (more : List Cmd)
  /-- db.Commands = cmds behind the engine's back (NOT one of the property's operations) -/
  | replaceDirect (cmds : List Cmd)
  /-- SearchUniversal(q, o): its effect on the state is the lazy rebuild -/
  | search (q : Bytes) (o : Opts S)

namespace DbState

/-- the zero value `&Database{}` -/
def init : DbState := {}

/-- BuildUniversalIndex(); buildTFIDFSearcher() over `cmds` -/
def built (cmds : List Cmd) : DbState := { cmds := cmds, idx := some (build cmds), rr := some cmds }

/-- `db.uIndex == nil || db.uIndex.N != len(db.Commands)` -/
def needsRebuild (s : DbState) : Bool :=
  match s.idx with
  | none => true
  | some i => i.n != s.cmds.length

/-- the lazy rebuild at the top of SearchUniversal (HEAD: index *and* re-ranker) -/
def refresh (s : DbState) : DbState := if s.needsRebuild then built s.cmds else s

def step (ri : RuneInfo) (s : DbState) : Op S → DbState
  | .load raw => built (raw.map (populate ri))
  | .loadWithPersonal m none => built (m.map (populate ri))
  | .loadWithPersonal m (some p) => built (m.map (populate ri) ++ p.map (populate ri))
  | .update cs => built cs
  | .growDirect more => { s with cmds := s.cmds ++ more }
  | .replaceDirect cs => { s with cmds := cs }
  | .search _ _ => s.refresh

def run (ri : RuneInfo) (s : DbState) (ops : List (Op S)) : DbState := ops.foldl (step ri) s

/-- db.tfidf as the re-rank stage sees it: nil before the first build and for an empty list
    (buildTFIDFSearcher), otherwise the searcher `mk` builds from that list -/
def rankerOf (mk : List Cmd → Bytes → List (Nat × S)) (rr : Option (List Cmd)) : Option (Bytes → List (Nat × S)) :=
  match rr with
  | none => none
  | some l => if l.isEmpty then none else some (mk l)

/-- the answer of SearchUniversal(q, o) issued in state `s` -/
def answer (T : Tuning S) (mk : List Cmd → Bytes → List (Nat × S)) (s : DbState) (q : Bytes) (o : Opts S) :
    Except Fuzzy.Panic (List (Nat × S)) :=
  let s' := s.refresh
  match s'.idx with
  | some i => searchWith { T with tfidf := rankerOf mk s'.rr } s'.cmds i q o
  | none => .ok []   -- unreachable: `refresh` always leaves an index (Wtf.Search.DbState.refresh_idx)

end DbState
end Wtf.Search
