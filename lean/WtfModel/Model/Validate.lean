import WtfModel.Basic.Bytes
import WtfModel.Gen.Constants
import WtfModel.Gen.Validate

/-!
  Model of `ValidateQuery` / `ValidateLimit` (internal/validation/validation.go).  Core Lean only.

  Go strings are byte strings.  Every library call in `ValidateQuery` that looks at characters decodes
  UTF-8 the way `utf8.DecodeRuneInString` / `range` do: a well-formed shortest-form sequence is one rune,
  anything else makes the *first byte alone* a rune of width 1 whose value is U+FFFD.

  * `decode1` / `decodeNat` / `decodeGo` : that decoder (Go's `first` / `acceptRanges` tables written as
    range tests).  Bytes are handled as naturals; `decodeGo` converts from `UInt8`.
  * `encodeNat` : `utf8.AppendRune`.  The sanitising loop of `ValidateQuery` copies the bytes of every
    well-formed rune it keeps (`b.WriteString(query[i : i+size])`), which are `encodeNat` of its code point
    (`Wtf.Validate.decode1_spec`); an invalid byte is written as the single ASCII byte
    `Gen.Validate.invalidRepl` (`'?'`), see `Rune.out`.
  * `isSpace`, `isControl` : `unicode.IsSpace`, `unicode.IsControl`.  The two range tables below are
    compared with the Go toolchain over all 0x110000 code points on every run of the check
    (correspondence stream `validate-unicode-tables`).
  * `validate` follows the statement order of the Go function: blank test on the raw input
    (`strings.TrimSpace(query) == ""`), byte-length test on the raw input, control strip, metacharacter
    test on the stripped text, `TrimSpace`, `Fields` + `Join`, empty test.

  After the control strip the text is well-formed UTF-8 (invalid bytes have been replaced), so the model
  keeps it as a list of code points;
  Go re-decodes it in `regexp`, `TrimSpace` and `Fields`, and `Wtf.Validate.decode_encode`
  (Proofs/ValidateUtf8.lean) proves that re-decoding the encoded text gives exactly these code points.

  Constants: `MaxQueryLength`, `DefaultSearchLimit` from `Gen.Constants`; `maxLimit`, the metacharacter
  class, the exempted control characters and the replacement byte for invalid bytes from `Gen.Validate`
  (regenerated from the source on every run).

  History: until the repair of finding K01 the strip was `strings.Map`, which wrote U+FFFD (three bytes) for
  every invalid byte, so an accepted query could come back longer than `MaxQueryLength`.  Copying the invalid
  byte unchanged instead is not an option: the bytes around a removed control character can then join into a
  new character (`C2 01 80` ↦ U+0080, a control character; `C2 01 A0` ↦ U+00A0, white space).
-/
namespace Wtf.Validate

/-! ## Unicode tables -/

/-- `unicode.IsSpace`: the 25 White_Space code points, as inclusive ranges. -/
def spaceRanges : List (Nat × Nat) :=
  [(0x09, 0x0D), (0x20, 0x20), (0x85, 0x85), (0xA0, 0xA0), (0x1680, 0x1680), (0x2000, 0x200A),
   (0x2028, 0x2029), (0x202F, 0x202F), (0x205F, 0x205F), (0x3000, 0x3000)]

/-- `unicode.IsControl`: general category Cc. -/
def controlRanges : List (Nat × Nat) := [(0x00, 0x1F), (0x7F, 0x9F)]

def inRanges (rs : List (Nat × Nat)) (c : Nat) : Bool := rs.any fun r => r.1 ≤ c && c ≤ r.2

def isSpace (c : Nat) : Bool := inRanges spaceRanges c
def isControl (c : Nat) : Bool := inRanges controlRanges c

/-- member of the rejected character class `[<>|&;$]` -/
def isMeta (c : Nat) : Bool := Wtf.Gen.Validate.metaChars.contains c

/-- a Unicode scalar value (what a well-formed UTF-8 sequence can denote) -/
def scalar (c : Nat) : Prop := c < 0x110000 ∧ ¬ (0xD800 ≤ c ∧ c ≤ 0xDFFF)

instance (c : Nat) : Decidable (scalar c) := by unfold scalar; infer_instance

/-! ## UTF-8 as Go reads and writes it -/

/-- What `range` / `DecodeRuneInString` yields at one position: a decoded code point, or an invalid
    byte (value U+FFFD, width 1). -/
inductive Rune where
  | cp (c : Nat)
  | bad (b : Nat)
deriving DecidableEq, Repr

/-- the `rune` value Go code sees -/
def Rune.val : Rune → Nat
  | .cp c => c
  | .bad _ => 0xFFFD

def Rune.isBad : Rune → Bool
  | .cp _ => false
  | .bad _ => true

/-- what the sanitising loop of `ValidateQuery` writes for a rune it keeps: the rune's own bytes (= the
    encoding of its code point) if it is well formed, the replacement byte `'?'` for an invalid byte -/
def Rune.out : Rune → Nat
  | .cp c => c
  | .bad _ => Wtf.Gen.Validate.invalidRepl

def isCont (b : Nat) : Prop := 0x80 ≤ b ∧ b ≤ 0xBF
instance (b : Nat) : Decidable (isCont b) := by unfold isCont; infer_instance

/-- accept range of the second byte after a three-byte lead (`acceptRanges`: E0 → A0..BF, ED → 80..9F) -/
def lo3 (b0 : Nat) : Nat := if b0 = 0xE0 then 0xA0 else 0x80
def hi3 (b0 : Nat) : Nat := if b0 = 0xED then 0x9F else 0xBF
/-- accept range of the second byte after a four-byte lead (F0 → 90..BF, F4 → 80..8F) -/
def lo4 (b0 : Nat) : Nat := if b0 = 0xF0 then 0x90 else 0x80
def hi4 (b0 : Nat) : Nat := if b0 = 0xF4 then 0x8F else 0xBF

/-- `utf8.DecodeRuneInString (b0 :: t)`: the rune and its width.  Leads C0, C1, F5..FF and stray
    continuation bytes are invalid; a sequence cut short by the end of the string is invalid. -/
def decode1 (b0 : Nat) (t : List Nat) : Rune × Nat :=
  if b0 < 0x80 then (.cp b0, 1)
  else if 0xC2 ≤ b0 ∧ b0 ≤ 0xDF then
    match t with
    | b1 :: _ =>
      if isCont b1 then (.cp ((b0 - 0xC0) * 64 + (b1 - 0x80)), 2) else (.bad b0, 1)
    | _ => (.bad b0, 1)
  else if 0xE0 ≤ b0 ∧ b0 ≤ 0xEF then
    match t with
    | b1 :: b2 :: _ =>
      if lo3 b0 ≤ b1 ∧ b1 ≤ hi3 b0 ∧ isCont b2 then
        (.cp ((b0 - 0xE0) * 4096 + (b1 - 0x80) * 64 + (b2 - 0x80)), 3)
      else (.bad b0, 1)
    | _ => (.bad b0, 1)
  else if 0xF0 ≤ b0 ∧ b0 ≤ 0xF4 then
    match t with
    | b1 :: b2 :: b3 :: _ =>
      if lo4 b0 ≤ b1 ∧ b1 ≤ hi4 b0 ∧ isCont b2 ∧ isCont b3 then
        (.cp ((b0 - 0xF0) * 262144 + (b1 - 0x80) * 4096 + (b2 - 0x80) * 64 + (b3 - 0x80)), 4)
      else (.bad b0, 1)
    | _ => (.bad b0, 1)
  else (.bad b0, 1)

/-- `for _, r := range s`, started after skipping `skip` bytes (the tail of the previous rune).
    Structural on the byte list so that it evaluates in the kernel. -/
def decodeSkip : Nat → List Nat → List Rune
  | _, [] => []
  | n + 1, _ :: t => decodeSkip n t
  | 0, b0 :: t => (decode1 b0 t).1 :: decodeSkip ((decode1 b0 t).2 - 1) t

def decodeNat (s : List Nat) : List Rune := decodeSkip 0 s

/-- the runes of a Go string -/
def decodeGo (q : Bytes) : List Rune := decodeNat (q.map (·.toNat))

/-- `utf8.AppendRune` on a scalar value -/
def encodeScalar (c : Nat) : List Nat :=
  if c < 0x80 then [c]
  else if c < 0x800 then [0xC0 + c / 64, 0x80 + c % 64]
  else if c < 0x10000 then [0xE0 + c / 4096, 0x80 + c / 64 % 64, 0x80 + c % 64]
  else [0xF0 + c / 262144, 0x80 + c / 4096 % 64, 0x80 + c / 64 % 64, 0x80 + c % 64]

/-- `utf8.AppendRune`: surrogates and values above U+10FFFF are written as U+FFFD -/
def encodeNat (c : Nat) : List Nat := if scalar c then encodeScalar c else encodeScalar 0xFFFD

def encodeAll (cs : List Nat) : List Nat := cs.flatMap encodeNat

def toBytes (ns : List Nat) : Bytes := ns.map UInt8.ofNat

/-- a Go string holding the given code points -/
def encodeGo (cs : List Nat) : Bytes := toBytes (encodeAll cs)

/-- `utf8.ValidString` -/
def validUTF8 (q : Bytes) : Prop := ∀ r ∈ decodeGo q, r.isBad = false

/-- `utf8.RuneCountInString` -/
def runeCount (q : Bytes) : Nat := (decodeGo q).length

/-! ## The steps of ValidateQuery -/

inductive Err where
  | empty      -- NewQueryEmptyError
  | toolong    -- NewQueryTooLongError
  | badchars   -- NewQueryInvalidCharsError
deriving DecidableEq, Repr

/-- results can be compared by evaluation (used by the `example`s next to the theorems) -/
instance : DecidableEq (Except Err Bytes)
  | .ok a, .ok b => if h : a = b then isTrue (h ▸ rfl) else isFalse (fun h' => h (Except.ok.inj h'))
  | .error a, .error b => if h : a = b then isTrue (h ▸ rfl) else isFalse (fun h' => h (Except.error.inj h'))
  | .ok _, .error _ => isFalse (fun h => nomatch h)
  | .error _, .ok _ => isFalse (fun h => nomatch h)

instance : DecidableEq (Except Int Int)
  | .ok a, .ok b => if h : a = b then isTrue (h ▸ rfl) else isFalse (fun h' => h (Except.ok.inj h'))
  | .error a, .error b => if h : a = b then isTrue (h ▸ rfl) else isFalse (fun h' => h (Except.error.inj h'))
  | .ok _, .error _ => isFalse (fun h => nomatch h)
  | .error _, .ok _ => isFalse (fun h => nomatch h)

def maxQueryLength : Nat := Wtf.Gen.Constants.MaxQueryLength.toNat

/-- `strings.TrimSpace(s) == ""`: every rune is white space (an invalid byte is U+FFFD, not a space) -/
def blank (rs : List Rune) : Bool := rs.all fun r => !r.isBad && isSpace r.val

/-- the sanitising loop keeps a well-formed rune with this code point (control characters other than the
    exempted ones are skipped) -/
def kept (c : Nat) : Bool := !(isControl c && !Wtf.Gen.Validate.keptControls.contains c)

/-- one iteration of the sanitising loop, in the order of its `switch`: an invalid byte
    (`r == utf8.RuneError && size == 1`) is written as the replacement byte, a control character that is not
    exempted is skipped, anything else is copied -/
def stripStep : Rune → Option Nat
  | .bad _ => some Wtf.Gen.Validate.invalidRepl
  | .cp c => if kept c then some c else none

/-- `cleaned := b.String()` after the loop, as code points -/
def stripCtl (rs : List Rune) : List Nat := rs.filterMap stripStep

/-- `strings.TrimSpace` on well-formed text -/
def trimSpace (cs : List Nat) : List Nat := ((cs.dropWhile isSpace).reverse.dropWhile isSpace).reverse

def startsNonSpace : List Nat → Bool
  | d :: _ => !isSpace d
  | [] => false

def consHead (c : Nat) : List (List Nat) → List (List Nat)
  | f :: fs => (c :: f) :: fs
  | [] => [[c]]

/-- `strings.Fields` on well-formed text: the maximal runs of non-space code points -/
def fields : List Nat → List (List Nat)
  | [] => []
  | c :: cs =>
    if isSpace c then fields cs
    else if startsNonSpace cs then consHead c (fields cs)
    else [c] :: fields cs

/-- `strings.Join(·, " ")` -/
def joinSp : List (List Nat) → List Nat
  | [] => []
  | [f] => f
  | f :: fs => f ++ 0x20 :: joinSp fs

/-- everything after the two tests on the raw input, on decoded runes -/
def sanitize (rs : List Rune) : Except Err (List Nat) :=
  let cleaned := stripCtl rs
  if cleaned.any isMeta then .error .badchars
  else
    let out := joinSp (fields (trimSpace cleaned))
    if out.isEmpty then .error .empty else .ok out

/-- `validation.ValidateQuery` -/
def validate (q : Bytes) : Except Err Bytes :=
  let rs := decodeGo q
  if blank rs then .error .empty
  else if q.length > maxQueryLength then .error .toolong
  else match sanitize rs with
    | .error e => .error e
    | .ok cs => .ok (encodeGo cs)

/-! ## Predicates used to state the property -/

/-- the shell metacharacters named by the property text: `< > | & ; $` -/
def shellMetas : List Nat := [0x3C, 0x3E, 0x7C, 0x26, 0x3B, 0x24]
def isShellMeta (c : Nat) : Bool := shellMetas.contains c

/-- the characters of a Go string as `range` sees them (an invalid byte is U+FFFD) -/
def chars (q : Bytes) : List Nat := (decodeGo q).map Rune.val

/-- no two neighbouring characters are both white space -/
def noAdjSpace : List Nat → Prop
  | a :: b :: t => ¬ (isSpace a = true ∧ isSpace b = true) ∧ noAdjSpace (b :: t)
  | _ => True

/-- neither the first nor the last character is white space -/
def noEdgeSpace (l : List Nat) : Prop :=
  (∀ x, l.head? = some x → isSpace x = false) ∧ (∀ x, l.getLast? = some x → isSpace x = false)

/-- The input on which a second validation failed before the repair of K01 (334 invalid bytes came back as
    334 × U+FFFD = 1002 bytes).  The check takes it from here (driver op `witness`) and runs it on the real
    code on every run; see `Wtf.C14.idem_old_witness`. -/
def idemWitness : Bytes := List.replicate 334 0xFF

/-! ## ValidateLimit -/

def maxLimit : Int := Wtf.Gen.Validate.maxLimit
def defaultLimit : Int := Wtf.Gen.Constants.DefaultSearchLimit

/-- `validation.ValidateLimit`: `.ok m` for `(m, nil)`, `.error m` for `(m, err)` -/
def validateLimit (n : Int) : Except Int Int :=
  if n < 0 then .error 0
  else if n = 0 then .ok defaultLimit
  else if n > maxLimit then .error maxLimit
  else .ok n

end Wtf.Validate
