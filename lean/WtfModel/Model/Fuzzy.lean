import WtfModel.Basic.GoStr
/-
  Transliteration of github.com/sahilm/fuzzy v0.1.1 `FindFromNoSort` for one target string
  (the library is 200 lines and is where C07/C10/C20 live, so it is modelled in full).
  Go's index expression `runes[patternIndex]` can panic: modelled with `Except`.  Core Lean only.
-/
namespace Wtf.Fuzzy
open Utf8

inductive Panic where
  | indexOutOfRange
deriving Repr, DecidableEq

def isSeparator (r : Nat) : Bool :=
  r == 0x2F || r == 0x2D || r == 0x5F || r == 0x20 || r == 0x2E || r == 0x5C   -- "/-_ .\\"

structure St where
  score : Int := 0                 -- match.Score
  matched : List Nat := []         -- match.MatchedIndexes, most recent first
  patternIndex : Nat := 0
  bestScore : Int := -1
  matchedIndex : Int := -1         -- never reset by the library after a commit
  currAdj : Int := 0
  last : Nat := 0
  lastIndex : Nat := 0
deriving Repr

/-- Go's `int` (64 bits, two's complement): the library's score arithmetic wraps.  The adjacency bonus triples with every
    adjacent matched character, so it passes 2^63 after about forty of them - a perfect 42-character match really gets a
    negative score from the library (found by the thorough tier, DESIGN 13.6) - and the model follows it. -/
def wrap64 (x : Int) : Int := (x + 9223372036854775808) % 18446744073709551616 - 9223372036854775808

def adjacentCharBonus (i : Nat) (lastMatch : Nat) (cur : Int) : Int :=
  if lastMatch == i then wrap64 (cur * 2 + 5) else 0

/-- one iteration of the inner loop at byte offset `j` on rune `candidate`, `nextc` = next rune (0 at the end) -/
def stepRune (ri : RuneInfo) (pat : Array Nat) (s : St) (j candidate nextc : Nat) : Except Panic St :=
  if h : s.patternIndex < pat.size then
    let pc := pat[s.patternIndex]
    let s1 : St :=
      if ri.eqFold candidate pc then
        let sc0 : Int := 0
        let sc1 := if j == 0 then sc0 + 10 else sc0
        let sc2 := if ri.isLower s.last && ri.isUpper candidate then sc1 + 20 else sc1
        let sc3 := if j != 0 && isSeparator s.last then sc2 + 20 else sc2
        let (sc4, adj) :=
          match s.matched with
          | lastMatch :: _ =>
            let bonus := adjacentCharBonus s.lastIndex lastMatch s.currAdj
            (wrap64 (sc3 + bonus), wrap64 (s.currAdj + bonus))
          | [] => (sc3, s.currAdj)
        if sc4 > s.bestScore then { s with bestScore := sc4, matchedIndex := j, currAdj := adj }
        else { s with currAdj := adj }
      else s
    let nextp : Nat := if s1.patternIndex + 1 < pat.size then pat[s1.patternIndex + 1]! else 0
    let s2 : St :=
      if (ri.eqFold nextp nextc || nextc == 0) && s1.matchedIndex > -1 then
        let best :=
          if s1.matched.isEmpty then
            let penalty : Int := s1.matchedIndex * (-5)
            s1.bestScore + (if penalty > -15 then penalty else -15)
          else s1.bestScore
        { s1 with score := wrap64 (s1.score + best), matched := s1.matchedIndex.toNat :: s1.matched,
                  bestScore := -1, patternIndex := s1.patternIndex + 1 }
      else s1
    .ok { s2 with lastIndex := j, last := candidate }
  else .error .indexOutOfRange

def loop (ri : RuneInfo) (pat : Array Nat) : St → List (Nat × Nat × Nat) → Except Panic St
  | s, [] => .ok s
  | s, (r, off, _) :: rest =>
    let nextc := match rest with | (r', _, _) :: _ => r' | [] => 0
    match stepRune ri pat s off r nextc with
    | .ok s' => loop ri pat s' rest
    | .error e => .error e

/-- result for one target: `none` = no match, `some (score, matched indexes ascending)` -/
def matchOne (ri : RuneInfo) (pattern target : Bytes) : Except Panic (Option (Int × List Nat)) :=
  let pat := (runes pattern).toArray
  match loop ri pat {} (decode target) with
  | .error e => .error e
  | .ok s =>
    let score := s.score + ((s.matched.length : Int) - (target.length : Int))
    if s.matched.length == pat.size then .ok (some (score, s.matched.reverse)) else .ok none

/-- FindFromNoSort: matches in target order as (index, score); empty pattern ⇒ nothing -/
def findNoSort (ri : RuneInfo) (pattern : Bytes) (targets : List Bytes) : Except Panic (List (Nat × Int)) :=
  if pattern.isEmpty then .ok [] else
  let rec go (i : Nat) : List Bytes → Except Panic (List (Nat × Int))
    | [] => .ok []
    | t :: ts =>
      match matchOne ri pattern t, go (i + 1) ts with
      | .error e, _ => .error e
      | _, .error e => .error e
      | .ok none, .ok r => .ok r
      | .ok (some (sc, _)), .ok r => .ok ((i, sc) :: r)
  go 0 targets

end Wtf.Fuzzy
