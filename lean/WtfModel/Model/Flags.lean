import WtfModel.Gen.Flags
/-
  What cobra / pflag do with the regenerated flag table when a command is executed (core Lean only).

  pflag.FlagSet.AddFlag panics when the name is already defined in the set, or when a non-empty shorthand is
  already used by a flag of the set.  FlagSet.AddFlagSet adds every flag whose NAME is not yet in the set (a
  local flag shadows an inherited one of the same name) through AddFlag - so an inherited flag with a new
  name but an already used shorthand panics.  cobra.Command.execute first merges, into the command's local
  set, its own persistent set and then the persistent sets of all ancestors (`mergePersistentFlags`), and
  then adds `--help` (shorthand `h`) unless a flag named `help` exists (`InitDefaultHelpFlag`).  The `--version` (shorthand `v`) flag of
  the root command is only given its shorthand when `-v` is free, so it cannot clash.
-/
namespace Wtf.Flags
open Wtf.Gen.Flags

def find (cs : List Command) (v : String) : Option Command := cs.find? (fun c => c.var == v)

/-- persistent sets of the proper ancestors, nearest first (fuel = number of commands) -/
def ancestors (cs : List Command) : Nat → Command → List (List Flag)
  | 0, _ => []
  | n + 1, c =>
    if c.parent == "" then [] else
    match find cs c.parent with
    | none => []
    | some p => p.persistentFlags :: ancestors cs n p

/-- `AddFlag`; `none` = panic -/
def addFlag (acc : List Flag) (g : Flag) : Option (List Flag) :=
  if acc.any (fun f => f.name == g.name) then none
  else if g.short != "" && acc.any (fun f => f.short == g.short) then none
  else some (acc ++ [g])

/-- registration calls at init time: `X.Flags().BoolP(...)` one after the other -/
def registerAll (fs : List Flag) : Option (List Flag) := fs.foldlM addFlag []

/-- `AddFlagSet` -/
def addFlagSet (acc : List Flag) (new : List Flag) : Option (List Flag) :=
  new.foldlM (fun a g => if a.any (fun f => f.name == g.name) then some a else addFlag a g) acc

def helpFlag : Flag := ⟨"help", "h", "bool"⟩

/-- the flag set a command ends up with when it is executed; `none` = cobra panics before the handler runs -/
def mergedFlags (cs : List Command) (c : Command) : Option (List Flag) := do
  let l ← registerAll c.localFlags
  let p ← registerAll c.persistentFlags
  let a ← addFlagSet l p
  let b ← (ancestors cs cs.length c).foldlM addFlagSet a
  addFlagSet b [helpFlag]

/-- the command starts: registration and merging succeed -/
def noShorthandClash (cs : List Command) (c : Command) : Bool := (mergedFlags cs c).isSome

/-- the direct reading of the clause: no local flag shares its shorthand with a differently named inherited flag -/
def shorthandsDisjoint (cs : List Command) (c : Command) : Bool :=
  c.localFlags.all fun l => ((ancestors cs cs.length c).flatten ++ [helpFlag]).all fun g =>
    l.name == g.name || l.short == "" || l.short != g.short

/-- every flag the handler fetches exists in the merged set with the kind it is fetched as -/
def readsRegistered (cs : List Command) (c : Command) : Bool :=
  match mergedFlags cs c with
  | none => false
  | some fs => c.reads.all fun r => fs.any fun f => f.name == r.1 && f.kind == r.2

end Wtf.Flags
