import WtfModel.Model.Search
import WtfModel.Model.Boosts
import WtfModel.Model.Tfidf
/-
  SearchUniversal with every modelled layer plugged in: the one parameter set that both the correspondence driver
  (Driver/Search.lean, `S := Float`, run against the real code on every check) and the end-to-end theorem
  (`Wtf.C01.universal_modelled`, Props/C01b.lean, every score type with the laws) are about.  Core Lean only.
-/
namespace Wtf.Search
open Index

variable {S : Type} [ScoreOps S]

/-- BM25F parameters regenerated from `defaultParams()`; NLP layer = `Boosts.nlpOut` (ProcessQuery, GetEnhancedKeywords,
    calculateIntentBoost, calculateBoostForCommand as modelled, for the commands `db`); re-ranker = the model of
    `TFIDFSearcher.Search` over the index `idx?` (`none`: the database has no searcher) with similarity threshold `minSim`.
    External: `idf` (math.Log), `sqrt`, the log table inside `idx?`, the tie order of the fuzzy library's sort, the rune
    table, the host name, the query normaliser. -/
def modelledTuning (idf : Nat → Nat → S) (host : Bytes) (ri : RuneInfo) (normQ : Bytes → Bytes)
    (fuzzySort : List (Nat × Int) → List (Nat × Int)) (sqrt : S → S) (minSim : S) (idx? : Option (Tfidf.Index S)) (db : Db) :
    Tuning S :=
  { params := genParams, idf := idf, host := host, ri := ri, normQ := normQ,
    nlp := Boosts.nlpOut ri db,
    tfidf := idx?.map (fun idx nq => Tfidf.search ri sqrt minSim idx nq db.length),
    fuzzySort := fuzzySort }

end Wtf.Search
