import WtfModel.Model.Db
import WtfModel.Basic.GoStr
import WtfModel.Basic.ScoreOps
/-
  Model of internal/nlp/tfidf.go (TFIDFSearcher: buildIndex, tokenize, Search, cosineSimilarity) as it is
  at /repo HEAD: the vocabulary is numbered in sorted word order and every floating-point sum runs over
  term indices in increasing order, so the whole thing is a function of the commands and the query.
  `log` and `sqrt` are parameters (math.Log enters as a table, sqrt is IEEE-exact in the driver).
  Core Lean only.
-/
namespace Wtf.Tfidf
open Text GoStr Utf8 ScoreOps

variable {S : Type} [ScoreOps S]

/-- lexicographic byte order: Go's string `<` (sort.Strings) -/
def bytesLt : Bytes → Bytes → Bool
  | [], [] => false
  | [], _ :: _ => true
  | _ :: _, [] => false
  | a :: as, b :: bs => if a < b then true else if b < a then false else bytesLt as bs

def bytesLe (a b : Bytes) : Bool := !(bytesLt b a)

/-- TFIDFSearcher.tokenize: lower-case, split on runes that are neither letters nor numbers,
    keep tokens of at least 2 bytes that are not stop words -/
def splitLetNum (ri : RuneInfo) (s : Bytes) : List Bytes :=
  let rec go : List (Nat × Nat × Nat) → Bytes → List Bytes
    | [], cur => if cur.isEmpty then [] else [cur]
    | (r, off, w) :: rest, cur =>
      let isWord := if r < 0x80 then isAlnumB (UInt8.ofNat r) else ((ri.find r).map (·.isLetNum)).getD false
      if isWord then go rest (cur ++ (s.drop off).take w)
      else if cur.isEmpty then go rest [] else cur :: go rest []
  go (decode s) []

def tokenize (ri : RuneInfo) (text : Bytes) : List Bytes :=
  (splitLetNum ri (toLower ri text)).filter (fun w => decide (2 ≤ w.length) && !isStop w)

/-- the document text of a command: command, description and keywords joined by single spaces -/
def docText (c : Cmd) : Bytes := joinSp [c.command, c.description, joinSp c.keywords]

def dedup (l : List Bytes) : List Bytes := l.foldl (fun acc w => if acc.contains w then acc else acc ++ [w]) []

def count (l : List Bytes) (w : Bytes) : Nat := (l.filter (· == w)).length

structure Index (S : Type) where
  n : Nat
  docs : List (List Bytes)          -- tokens per command
  vocab : List Bytes                -- sorted, position = term index
  idf : List S
  vecs : List (List (Nat × S))      -- per command: (term index, tf-idf), increasing index
  norms : List S

def insertSorted (w : Bytes) : List Bytes → List Bytes
  | [] => [w]
  | x :: xs => if bytesLe w x then w :: x :: xs else x :: insertSorted w xs

def sortWords (l : List Bytes) : List Bytes := l.foldr insertSorted []

def indexOf (vocab : List Bytes) (w : Bytes) : Option Nat :=
  let rec go : List Bytes → Nat → Option Nat
    | [], _ => none
    | x :: xs, i => if x == w then some i else go xs (i + 1)
  go vocab 0

/-- (term index, count) pairs of a token list, in increasing term index -/
def termCounts (vocab : List Bytes) (tokens : List Bytes) : List (Nat × Nat) :=
  (List.range vocab.length).filterMap (fun i =>
    match vocab[i]? with
    | some w => let c := count tokens w; if c > 0 then some (i, c) else none
    | none => none)

def sumSq (v : List (Nat × S)) : S := v.foldl (fun acc (_, x) => add acc (mul x x)) zero

def build (ri : RuneInfo) (log : Nat → Nat → S) (sqrt : S → S) (db : Db) : Index S :=
  let docs := db.map (fun c => tokenize ri (docText c))
  let n := db.length
  let words := sortWords (dedup docs.flatten)
  let docCount (w : Bytes) : Nat := (docs.filter (·.contains w)).length
  let maxDocs := max (n * 8 / 10) 1
  let vocab := words.filter (fun w => decide (1 ≤ docCount w) && decide (docCount w ≤ maxDocs))
  let idf := vocab.map (fun w => log n (docCount w))
  let vecs := docs.map (fun toks =>
    (termCounts vocab toks).map (fun (i, c) => (i, mul (div (ofNat c) (ofNat toks.length)) (idf.getD i zero))))
  { n := n, docs := docs, vocab := vocab, idf := idf, vecs := vecs, norms := vecs.map (fun v => sqrt (sumSq v)) }

def look (v : List (Nat × S)) (i : Nat) : Option S := (v.find? (·.1 == i)).map (·.2)

def cosine (qv : List (Nat × S)) (qn : S) (dv : List (Nat × S)) (dn : S) : S :=
  if !(lt zero qn || lt qn zero) || !(lt zero dn || lt dn zero) then zero else
  let dot := qv.foldl (fun acc (i, q) => match look dv i with | some d => add acc (mul q d) | none => acc) zero
  div dot (mul qn dn)

def sortDescSim (l : List (Nat × S)) : List (Nat × S) := l.mergeSort (fun a b => !(lt a.2 b.2))

/-- TFIDFSearcher.Search(query, limit): (command index, similarity), best first -/
def search (ri : RuneInfo) (sqrt : S → S) (minSim : S) (idx : Index S) (query : Bytes) (limit : Nat) : List (Nat × S) :=
  let qt := tokenize ri query
  if qt.isEmpty then [] else
  let qv := (termCounts idx.vocab qt).map (fun (i, c) => (i, mul (div (ofNat c) (ofNat qt.length)) (idx.idf.getD i zero)))
  let qn := sqrt (sumSq qv)
  if !(lt zero qn || lt qn zero) then [] else
  let sims := (List.range idx.n).filterMap (fun d =>
    let s := cosine qv qn (idx.vecs.getD d []) (idx.norms.getD d zero)
    if lt minSim s then some (d, s) else none)
  (sortDescSim sims).take limit

end Wtf.Tfidf
