import WtfModel.Basic.GoStr
/-
  Query normalisation on entry to SearchUniversal (and in the cache key):
  `strings.ToLower(strings.TrimSpace(query))`.  Core Lean only.
-/
namespace Wtf.NormQ
open GoStr

def normQ (ri : RuneInfo) (q : Bytes) : Bytes := toLower ri (trimSpace ri q)

end Wtf.NormQ
