import WtfModel.Model.Search
import WtfModel.Gen.Constants
/-
  Model of the two remaining search entry points the CLI uses, as they are at /repo HEAD.  Core Lean only.

  * `searchLegacyPipeline` — database.SearchWithPipelineOptions (search.go), what `wtf pipeline` calls.
    The legacy scorer `calculateScore` (word / domain / keyword / description / tag heuristics,
    ~400 lines) enters as an UNINTERPRETED per-document function `score : Nat → S`: only the pipeline
    gate, the pipeline boost, the `score > 0` filter, the stable descending sort and the truncation to
    the limit (default `constants.DefaultSearchLimit`) matter for C01/C04.
  * `recover` — recovery.RecoverFromSearchFailure (recovery.go): three substring scans with constant
    scores, first non-empty one wins; modelled exactly.
  * `cliResults` — the step in cli/search.go: the engine's answer if non-empty, otherwise the recovered
    answer, filtered by the platform / pipeline gate (database.FilterResults) and cut to `searchOptions.Limit` (`recovered[:Limit]`, a Go slice expression: it panics for a
    negative limit, which the CLI never passes — `cliLimit`).
-/
namespace Wtf.Legacy
open Text Filters ScoreOps GoStr Search

variable {S : Type} [ScoreOps S]

/-! ### SearchWithPipelineOptions -/

/-- `if options.Limit <= 0 { options.Limit = constants.DefaultSearchLimit }` -/
def legacyLimit (limit : Int) : Nat :=
  if limit ≤ 0 then Gen.Constants.DefaultSearchLimit.toNat else limit.toNat

/-- the loop over `db.Commands`: documents in database order with their final score -/
def pipelineScan (ri : RuneInfo) (score : Nat → S) (pipelineOnly : Bool) (pipelineBoost : S) :
    Nat → Db → List (Nat × S)
  | _, [] => []
  | i, c :: rest =>
    if pipelineOnly && !isPipeline ri c then pipelineScan ri score pipelineOnly pipelineBoost (i + 1) rest
    else
      let s0 := score i
      let s := if isPipeline ri c && lt zero pipelineBoost then mul s0 pipelineBoost else s0
      if lt zero s then (i, s) :: pipelineScan ri score pipelineOnly pipelineBoost (i + 1) rest
      else pipelineScan ri score pipelineOnly pipelineBoost (i + 1) rest

/-- sortAndLimitResults: sort.SliceStable by score descending, then `results[:limit]` if longer -/
def sortAndLimit (results : List (Nat × S)) (limit : Nat) : List (Nat × S) :=
  (sortDesc (·.2) results).take limit

def searchLegacyPipeline (ri : RuneInfo) (score : Nat → S) (db : Db) (o : Opts S) : List (Nat × S) :=
  sortAndLimit (pipelineScan ri score o.pipelineOnly o.pipelineBoost 0 db) (legacyLimit o.limit)

/-! ### recovery searches -/

def basicScore : Q := Gen.SearchParams.recoveryBasicScore
def singleWordScore : Q := Gen.SearchParams.recoverySingleWordScore
def partialScore : Q := Gen.SearchParams.recoveryPartialScore

/-- `for i := range db.Commands { if p(cmd) { results = append(results, {cmd, s}) } }` -/
def scan (p : Cmd → Bool) (s : S) : Nat → Db → List (Nat × S)
  | _, [] => []
  | i, c :: rest => if p c then (i, s) :: scan p s (i + 1) rest else scan p s (i + 1) rest

/-- basicKeywordSearch: the lower-cased query is a substring of the cached lower-case command -/
def basicKeywordSearch (ri : RuneInfo) (db : Db) (q : Bytes) : List (Nat × S) :=
  let ql := toLower ri q
  scan (fun c => containsB c.commandLower ql) (ofQ basicScore) 0 db

/-- singleWordSearch: `none` is the error return ("no words in query") -/
def singleWordSearch (ri : RuneInfo) (db : Db) (q : Bytes) : Option (List (Nat × S)) :=
  match fields ri (toLower ri q) with
  | [] => none
  | w :: _ => some (scan (fun c => containsB c.commandLower w || containsB c.descriptionLower w) (ofQ singleWordScore) 0 db)

/-- partialMatchSearch: some word of at least two bytes occurs in the command or the description -/
def partialMatchSearch (ri : RuneInfo) (db : Db) (q : Bytes) : List (Nat × S) :=
  let ws := fields ri (toLower ri q)
  scan (fun c => ws.any (fun w => decide (2 ≤ w.length) &&
      (containsB c.commandLower w || containsB c.descriptionLower w))) (ofQ partialScore) 0 db

/-- RecoverFromSearchFailure: the first strategy with `err == nil && len(results) > 0`;
    `[]` stands for the error return (every strategy came back empty) -/
def recover (ri : RuneInfo) (db : Db) (q : Bytes) : List (Nat × S) :=
  let r1 : List (Nat × S) := basicKeywordSearch ri db q
  if !r1.isEmpty then r1 else
  let r2 : List (Nat × S) := (singleWordSearch ri db q).getD []
  if !r2.isEmpty then r2 else
  partialMatchSearch ri db q

/-! ### the CLI step -/

inductive Panic where
  | fuzzy (p : Fuzzy.Panic)
  | sliceBounds
deriving Repr, DecidableEq

/-- `if len(rec) > Limit { rec = rec[:Limit] }` with Go's slice-expression semantics -/
def truncate (rc : List (Nat × S)) (limit : Int) : Except Panic (List (Nat × S)) :=
  if (rc.length : Int) > limit then
    (if limit < 0 then .error .sliceBounds else .ok (rc.take limit.toNat))
  else .ok rc

/-- database.FilterResults: keep the results that pass the platform / pipeline gate of the options -/
def filterResults (T : Tuning S) (db : Db) (o : Opts S) (rs : List (Nat × S)) : List (Nat × S) :=
  rs.filter (fun x => match db[x.1]? with
    | some c => passes T.ri T.host o.filter c
    | none => false)

/-- cli/search.go: `results := db.SearchUniversal(query, searchOptions)`; if that is empty, the
    recovered results that pass the platform / pipeline gate (if any) cut to `searchOptions.Limit` -/
def cliResults (T : Tuning S) (db : Db) (q : Bytes) (o : Opts S) : Except Panic (List (Nat × S)) :=
  match search T db q o with
  | .error e => .error (.fuzzy e)
  | .ok r =>
    if !r.isEmpty then .ok r else
    let got := filterResults T db o (recover (S := S) T.ri db q)
    if !got.isEmpty then truncate got o.limit else .ok r

/-- The limit the CLI puts into `searchOptions.Limit` for `--limit flag`:
    validation.ValidateLimit rejects `flag < 0` and `flag > maxLimit` (100) (the command returns before searching:
    `none`), maps 0 to `constants.DefaultSearchLimit`; then `if limit > 0 { cfg.MaxResults = limit }` over
    the default written in config.DefaultConfig(). -/
def cliMaxLimit : Int := (Gen.SearchParams.cliMaxLimit : Nat)

def cliLimit (configDefault : Int) (flag : Int) : Option Int :=
  if flag < 0 || flag > cliMaxLimit then none else
  let v := if flag == 0 then Gen.Constants.DefaultSearchLimit else flag
  some (if v > 0 then v else configDefault)

end Wtf.Legacy
