import WtfModel.Basic.GoStr
import WtfModel.Basic.CtxRule
import WtfModel.Gen.Context
/-
  Model of the project-context analyzer (internal/context/analyzer.go) as it is at /repo HEAD:
  AnalyzeDirectory = for every directory entry (os.ReadDir order: sorted by name) apply the check*
  rules (regenerated: Gen.Context.rules), then removeDuplicateProjectTypes and the generic fallback;
  GetContextBoosts; extractMakeTargets' line rule.  Core Lean only.

  Parameters (not modelled): encoding/json — the model takes the script names json.Unmarshal produced
  (`none`: package.json unreadable / not valid JSON / scripts of a wrong type) —, the contents of the
  files named Makefile / makefile (`none`: unreadable, e.g. a directory), Unicode white space
  (`RuneInfo`, for strings.TrimSpace).
-/
namespace Wtf.Context
open Text

def hasSuffixB (s suf : Bytes) : Bool := decide (suf.length ≤ s.length) && s.drop (s.length - suf.length) == suf

def evalCond (name : Bytes) : NameCond → Bool
  | .eq l => name == Bytes.ofString l
  | .suffix l => hasSuffixB name (Bytes.ofString l)
  | .contains l => containsB name (Bytes.ofString l)
  | .or a b => evalCond name a || evalCond name b
  | .and a b => evalCond name a && evalCond name b

/-- the branch of one statement that fires on a name (first match; a `switch` has no fallthrough) -/
def fireRule (name : Bytes) : MarkerRule → Option MarkerBranch
  | [] => none
  | b :: rest => if evalCond name b.cond then some b else fireRule name rest

/-- project types one name contributes, in the order the check* functions append them -/
def typesOfName (rules : List MarkerRule) (name : Bytes) : List String :=
  rules.filterMap (fun r => (fireRule name r).map (·.ptype))

structure Ctx where
  types : List String := []
  scripts : List Bytes := []       -- keys of PackageScripts (a Go map: a set)
  targets : List Bytes := []       -- MakeTargets, in order, duplicates kept
deriving Repr

/-! ### extractMakeTargets -/

/-- strings.Split(s, sep) for a one-byte separator: always at least one part -/
def splitByte (sep : UInt8) : Bytes → List Bytes
  | [] => [[]]
  | b :: rest =>
    if b == sep then [] :: splitByte sep rest
    else match splitByte sep rest with
      | [] => [[b]]          -- unreachable: the result is never empty
      | p :: ps => (b :: p) :: ps

def targetOfLine (ri : RuneInfo) (line : Bytes) : Option Bytes :=
  let line := GoStr.trimSpace ri line
  if line.contains 0x3A && !(hasPrefixB line [0x23]) && !(hasPrefixB line [0x09]) then
    let target := GoStr.trimSpace ri ((splitByte 0x3A line).headD [])
    if !(target.contains 0x3D) && !(hasPrefixB target [0x2E]) && !target.isEmpty then some target else none
  else none

def makeTargetsOf (ri : RuneInfo) (content : Bytes) : List Bytes :=
  (splitByte 0x0A content).filterMap (targetOfLine ri)

/-! ### analyzeFile / AnalyzeDirectory -/

def applyBranch (ri : RuneInfo) (pkg : Option (List Bytes)) (mkText : Bytes → Option Bytes) (name : Bytes)
    (ctx : Ctx) (b : MarkerBranch) : Ctx :=
  let ctx := { ctx with types := ctx.types ++ [b.ptype] }
  let ctx := if b.readsPkg then (match pkg with | some s => { ctx with scripts := s } | none => ctx) else ctx
  if b.readsMake then
    (match mkText name with
     | some text => { ctx with targets := ctx.targets ++ makeTargetsOf ri text }
     | none => ctx)
  else ctx

def analyzeFile (rules : List MarkerRule) (ri : RuneInfo) (pkg : Option (List Bytes)) (mkText : Bytes → Option Bytes)
    (ctx : Ctx) (name : Bytes) : Ctx :=
  rules.foldl (fun ctx r => match fireRule name r with
    | none => ctx
    | some b => applyBranch ri pkg mkText name ctx b) ctx

/-- removeDuplicateProjectTypes: first occurrences, in order -/
def dedupAux (seen : List String) : List String → List String
  | [] => []
  | t :: rest => if seen.contains t then dedupAux seen rest else t :: dedupAux (t :: seen) rest

def dedup (l : List String) : List String := dedupAux [] l

/-- finalizeContext -/
def finalize (generic : String) (ctx : Ctx) : Ctx :=
  let ts := dedup ctx.types
  { ctx with types := if ts.isEmpty then [generic] else ts }

/-- AnalyzeDirectory on a readable directory whose entries are `listing` (in os.ReadDir order) -/
def analyzeWith (rules : List MarkerRule) (generic : String) (ri : RuneInfo) (listing : List Bytes)
    (pkg : Option (List Bytes)) (mkText : Bytes → Option Bytes) : Ctx :=
  finalize generic (listing.foldl (analyzeFile rules ri pkg mkText) {})

/-- the analyzer of the current source -/
def analyze (ri : RuneInfo) (listing : List Bytes) (pkg : Option (List Bytes)) (mkText : Bytes → Option Bytes) : Ctx :=
  analyzeWith Gen.Context.rules Gen.Context.genericType ri listing pkg mkText

/-- AnalyzeDirectory when os.ReadDir fails: the context is returned as initialised (no type at all) -/
def analyzeUnreadable : Ctx := {}

/-! ### GetContextBoosts -/

/-- `m[k] = v` on an association list (insertion order kept; only the set of pairs is observable) -/
def setKV (m : List (Bytes × Q)) (k : Bytes) (v : Q) : List (Bytes × Q) :=
  match m with
  | [] => [(k, v)]
  | (k', v') :: rest => if k' == k then (k', v) :: rest else (k', v') :: setKV rest k v

def tableOf (table : List (String × List (String × Q))) (t : String) : Option (List (String × Q)) :=
  (table.find? (·.1 == t)).map (·.2)

def contextBoostsWith (table : List (String × List (String × Q))) (scriptB targetB : Q) (ctx : Ctx) : List (Bytes × Q) :=
  let b1 := ctx.types.foldl (fun m t =>
    match tableOf table t with
    | some tbl => tbl.foldl (fun m (kv : String × Q) => setKV m (Bytes.ofString kv.1) kv.2) m
    | none => m) []
  let b2 := ctx.scripts.foldl (fun m s => setKV m s scriptB) b1
  ctx.targets.foldl (fun m t => setKV m t targetB) b2

def contextBoosts (ctx : Ctx) : List (Bytes × Q) :=
  contextBoostsWith Gen.Context.projectBoosts Gen.Context.scriptBoost Gen.Context.targetBoost ctx

/-! ### os.ReadDir order -/

/-- bytewise `≤` on names (Go's string `<=`) -/
def leBytes : Bytes → Bytes → Bool
  | [], _ => true
  | _ :: _, [] => false
  | a :: as, b :: bs => a < b || (a == b && leBytes as bs)

def sortNames (l : List Bytes) : List Bytes := l.mergeSort leBytes

/-- what the code computes for a directory with the given set of entries -/
def analyzeDir (ri : RuneInfo) (entries : List Bytes) (pkg : Option (List Bytes)) (mkText : Bytes → Option Bytes) : Ctx :=
  analyze ri (sortNames entries) pkg mkText

end Wtf.Context
