import WtfModel.Model.Index
import WtfModel.Model.Filters
import WtfModel.Model.Fuzzy
import WtfModel.Gen.SearchParams
/-
  Model of database.SearchUniversal (search_universal.go, search_helpers.go, search.go
  performFuzzySearch) as it is at /repo HEAD.  Core Lean only, generic over the score type.

  What is *modelled here*: query normalisation on entry, tokenisation, NLP term merge, term selection,
  BM25F accumulation over the inverted index with the platform / pipeline gate, result collection in
  document order, the boosts' place in the pipeline, the stable sorts, the re-rank window, truncation,
  and the typo fallback (matcher in Model/Fuzzy.lean).
  What enters as *parameters* (`Tuning`): idf (math.Log), the NLP analysis of the query and the per-document
  NLP boost factors, the TF-IDF ranking, the tie order of the fuzzy library's sort, Unicode facts.
  Theorems quantify over all parameter values satisfying stated well-formedness conditions.  Since round 2 the NLP
  analysis and factors (Model/Nlp.lean, Model/Boosts.lean) and the TF-IDF ranking (Model/Tfidf.lean) are modelled too:
  `Wtf.Search.modelledTuning` (Model/Modelled.lean) plugs them in, the driver runs exactly that parameter set, and only
  idf values, the fuzzy tie order and Unicode facts are still fed from what the real code computed.
-/
namespace Wtf.Search
open Text Index Filters ScoreOps

variable {S : Type} [ScoreOps S]

structure Opts (S : Type) where
  limit : Int := 0
  boosts : List (Bytes × S) := []
  pipelineOnly : Bool := false
  pipelineBoost : S
  useFuzzy : Bool := false
  fuzzyThreshold : Int := 0
  useNLP : Bool := false
  topTermsCap : Int := 0
  allPlatforms : Bool := false
  platforms : List Bytes := []
  noCross : Bool := false

def Opts.filter (o : Opts S) : FilterOpts :=
  { allPlatforms := o.allPlatforms, platforms := o.platforms, noCross := o.noCross, pipelineOnly := o.pipelineOnly }

/-- what the NLP layer produced for one (normalised) query -/
structure NlpOut (S : Type) where
  actions : List Bytes := []
  targets : List Bytes := []
  keywords : List Bytes := []
  enhanced : List Bytes := []          -- GetEnhancedKeywords()
  intentBoost : Nat → S                -- calculateIntentBoost per document
  cascade : Nat → S                    -- calculateBoostForCommand per document

structure Tuning (S : Type) where
  params : Params S
  idf : Nat → Nat → S                                  -- bm25IDF(N, df)
  host : Bytes                                         -- getCurrentPlatform()
  ri : RuneInfo
  normQ : Bytes → Bytes                                -- strings.ToLower(strings.TrimSpace(q))
  nlp : Bytes → NlpOut S
  tfidf : Option (Bytes → List (Nat × S))              -- TF-IDF ranking of all commands (none: no searcher)
  fuzzySort : List (Nat × Int) → List (Nat × Int)      -- sort.Stable with the library's Less

/-! constants of the pipeline (inline literals in SearchUniversal and friends): the values the translator read off the source on
    this run (`Gen/SearchParams.lean`), so that a re-tuned literal is followed by the model and by every theorem that does not
    depend on its value -/
def defaultLimit : Nat := Gen.SearchParams.defaultLimit
def appendCap : Nat := Gen.SearchParams.appendCap
def defaultTermCap : Nat := Gen.SearchParams.defaultTermCap
def preserveCount : Nat := Gen.SearchParams.preserveCount
def rerankMult : Nat := Gen.SearchParams.rerankMult
def rerankMin : Nat := Gen.SearchParams.rerankMin
def fuzzyMult : Nat := Gen.SearchParams.fuzzyMult
def fuzzyBase : Int := (Gen.SearchParams.fuzzyBase : Nat)
def actionEmphasis : Q := Gen.SearchParams.actionEmphasis
def targetEmphasis : Q := Gen.SearchParams.targetEmphasis
def coocFactor : Q := Gen.SearchParams.coocFactor
def rerankAlpha : Q := Gen.SearchParams.rerankAlpha
def rerankScale : Q := Gen.SearchParams.rerankScale

def effLimit (o : Opts S) : Nat := if o.limit ≤ 0 then defaultLimit else o.limit.toNat
def effCap (o : Opts S) : Nat := if o.topTermsCap ≤ 0 then defaultTermCap else o.topTermsCap.toNat

/-- enhanceQueryWithNLP: append enhanced terms that are absent while fewer than 8 terms -/
def enhanceTerms (terms : List Token) (enh : List Bytes) : List Token :=
  enh.foldl (fun ts e => if !ts.contains e && ts.length < appendCap then ts ++ [e] else ts) terms

/-! ### selectTopTerms -/
structure TermScore (S : Type) where
  term : Token
  idf : S
  isOriginal : Bool

def scoreTermsAux (T : Tuning S) (idx : Index) (preserve : Nat) :
    Nat → List Token → List Token → List (TermScore S)
  | _, [], _ => []
  | i, t :: rest, seen =>
    if seen.contains t then scoreTermsAux T idx preserve (i + 1) rest seen
    else
      let seen' := t :: seen
      match look idx.df t with
      | some (df + 1) =>
        { term := t, idf := T.idf idx.n (df + 1), isOriginal := decide (i < preserve) } ::
          scoreTermsAux T idx preserve (i + 1) rest seen'
      | _ =>
        if i < preserve then { term := t, idf := one, isOriginal := true } :: scoreTermsAux T idx preserve (i + 1) rest seen'
        else scoreTermsAux T idx preserve (i + 1) rest seen'

/-- stable descending sort by a score projection (sort.SliceStable with `a > b`) -/
def sortDesc {α : Type} (key : α → S) (l : List α) : List α :=
  l.mergeSort (fun a b => !(lt (key a) (key b)))

def selectTopTerms (T : Tuning S) (idx : Index) (terms : List Token) (maxTerms : Nat) : List Token :=
  if maxTerms == 0 || terms.length ≤ maxTerms then terms else
  let preserve := min preserveCount terms.length
  let list := scoreTermsAux T idx preserve 0 terms []
  if list.length ≤ maxTerms then list.map (·.term) else
  let orig := list.filter (·.isOriginal)
  let enh := list.filter (fun x => !x.isOriginal)
  let out := orig.map (·.term)
  let remaining := maxTerms - out.length
  if remaining > 0 && !enh.isEmpty then out ++ ((sortDesc (·.idf) enh).take remaining).map (·.term) else out

/-! ### BM25F accumulation -/

/-- per-term boost table: context boosts, then NLP action (≥2.0) and target (≥1.6) emphasis -/
def raiseTo (tb : List (Bytes × S)) (k : Bytes) (v : S) : List (Bytes × S) :=
  match look tb k with
  | some b => if lt b v then upd tb k zero (fun _ => v) else tb
  | none => if lt zero v then upd tb k zero (fun _ => v) else tb

def termBoosts (o : Opts S) (pq : Option (NlpOut S)) : List (Bytes × S) :=
  match pq with
  | none => o.boosts
  | some n =>
    let tb := n.actions.foldl (fun tb a => raiseTo tb a (ofQ actionEmphasis)) o.boosts
    n.targets.foldl (fun tb t => raiseTo tb t (ofQ targetEmphasis)) tb

def boostOf (tb : List (Bytes × S)) (t : Token) : S :=
  match look tb t with
  | some b => if lt zero b then b else one
  | none => one

/-- score map keyed by document id, kept sorted by id (collectResults walks it in document order) -/
def addScore (m : List (Nat × S)) (d : Nat) (x : S) : List (Nat × S) :=
  match m with
  | [] => [(d, add zero x)]
  | (d', s) :: rest =>
    if d' == d then (d', add s x) :: rest
    else if d < d' then (d, add zero x) :: (d', s) :: rest
    else (d', s) :: addScore rest d x

def processPostings (T : Tuning S) (db : Db) (idx : Index) (tot : DocLens) (o : Opts S) (w : S)
    (ps : List Posting) (scores : List (Nat × S)) : List (Nat × S) :=
  ps.foldl (fun sc p =>
    match db[p.doc]? with
    | none => sc
    | some c =>
      if passes T.ri T.host o.filter c then
        addScore sc p.doc (mul w (termBM25F T.params idx.n tot (idx.lens.getD p.doc {}) p.tf))
      else sc) scores

def initialScores (T : Tuning S) (db : Db) (idx : Index) (o : Opts S) (pq : Option (NlpOut S))
    (terms : List Token) : List (Nat × S) :=
  let tb := termBoosts o pq
  let tot := sumLens idx.lens
  terms.foldl (fun sc t =>
    match look idx.postings t with
    | none => sc
    | some ps =>
      let idf := T.idf idx.n ((look idx.df t).getD 0)
      if lt idf T.params.minIDF then sc
      else processPostings T db idx tot o (mul idf (boostOf tb t)) ps sc) []

/-! ### result collection and post-scoring stages -/

def containsAnyLocal (s : Bytes) (words : List Bytes) : Bool :=
  !(words.isEmpty || s.isEmpty) && words.any (fun w => !w.isEmpty && containsB s w)

def collect (T : Tuning S) (db : Db) (o : Opts S) (pq : Option (NlpOut S)) (scores : List (Nat × S)) :
    List (Nat × S) :=
  scores.filterMap (fun (d, s) =>
    match db[d]? with
    | none => none
    | some c =>
      let s1 := match pq with
        | none => s
        | some n =>
          let s' := mul s (n.intentBoost d)
          let docText := c.commandLower ++ (0x20 :: c.descriptionLower)
          if containsAnyLocal docText n.actions && containsAnyLocal docText n.targets then mul s' (ofQ coocFactor) else s'
      let s2 := if isPipeline T.ri c && lt zero o.pipelineBoost then mul s1 o.pipelineBoost else s1
      some (d, s2))

def rerank (T : Tuning S) (nq : Bytes) (limit : Nat) (results : List (Nat × S)) : List (Nat × S) :=
  match T.tfidf with
  | none => results
  | some rank =>
    let cand := max (limit * rerankMult) rerankMin
    let topK := results.take cand
    let sims := (rank nq).take topK.length
    let blended := topK.map (fun (d, s) =>
      match sims.find? (·.1 == d) with
      | some (_, sim) => (d, add s (mul (mul sim (ofQ rerankAlpha)) (ofQ rerankScale)))
      | none => (d, s))
    sortDesc (·.2) blended

def cascadeStage (n : NlpOut S) (results : List (Nat × S)) : List (Nat × S) :=
  if results.isEmpty then results else sortDesc (·.2) (results.map (fun (d, s) => (d, mul s (n.cascade d))))

/-! ### typo fallback (performFuzzySearch + limitResults) -/

def nulToSpace (s : Bytes) : Bytes := s.map (fun b => if b == 0 then 0x20 else b)

def fuzzyTarget (c : Cmd) : Bytes := nulToSpace (c.command ++ (0x20 :: c.description))

def normalizeFuzzy (score : Int) : S :=
  let v : S := div (if score + fuzzyBase < 0 then sub zero (ofNat (-(score + fuzzyBase)).toNat) else ofNat (score + fuzzyBase).toNat)
                   (ofNat fuzzyBase.toNat)
  if lt v zero then zero else if lt one v then one else v

def fuzzyCollect (T : Tuning S) (db : Db) (o : Opts S) (cap : Nat) :
    List (Nat × Int) → List (Nat × S) → List (Nat × S)
  | [], acc => acc.reverse
  | (i, sc) :: rest, acc =>
    if acc.length ≥ cap then acc.reverse
    else match db[i]? with
      | none => fuzzyCollect T db o cap rest acc
      | some c =>
        if !passes T.ri T.host o.filter c then fuzzyCollect T db o cap rest acc
        else if o.fuzzyThreshold != 0 && sc < o.fuzzyThreshold then fuzzyCollect T db o cap rest acc
        else fuzzyCollect T db o cap rest ((i, normalizeFuzzy sc) :: acc)

def fuzzySearch (T : Tuning S) (db : Db) (nq : Bytes) (o : Opts S) (limit : Nat) :
    Except Fuzzy.Panic (List (Nat × S)) :=
  match Fuzzy.findNoSort T.ri nq (db.map fuzzyTarget) with
  | .error e => .error e
  | .ok ms => .ok ((fuzzyCollect T db o (limit * fuzzyMult) (T.fuzzySort ms) []).take limit)

/-! ### SearchUniversal -/

def search (T : Tuning S) (db : Db) (q : Bytes) (o : Opts S) : Except Fuzzy.Panic (List (Nat × S)) :=
  let idx := build db
  let limit := effLimit o
  let nq := T.normQ q
  let terms0 := tokenize nq
  let pq : Option (NlpOut S) := if o.useNLP then some (T.nlp nq) else none
  let terms1 := match pq with | some n => enhanceTerms terms0 n.enhanced | none => terms0
  let fallback : Except Fuzzy.Panic (List (Nat × S)) :=
    if o.useFuzzy then fuzzySearch T db nq o limit else .ok []
  if terms1.isEmpty then fallback else
  let terms := selectTopTerms T idx terms1 (effCap o)
  let scores := initialScores T db idx o pq terms
  if scores.isEmpty then fallback else
  let r0 := sortDesc (·.2) (collect T db o pq scores)
  let r1 := if o.useNLP then rerank T nq limit r0 else r0
  let r2 := match pq with | some n => cascadeStage n r1 | none => r1
  .ok (r2.take limit)

end Wtf.Search
