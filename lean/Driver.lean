import Driver.Dispatch
