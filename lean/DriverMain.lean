import Driver.Dispatch

/-!
  Line-protocol driver.  Input: a sequence of cases
      case <idx> <domain>
      <op line>*
  Output: `case <idx>` followed by exactly one line per op line.
  Each domain is a pure function from the op lines of one case to output lines.
-/

partial def readAll (h : IO.FS.Stream) (acc : Array String) : IO (Array String) := do
  let line ← h.getLine
  if line.isEmpty then return acc
  let l := (line.trimAsciiEnd).toString
  readAll h (acc.push l)

def flushCase (out : IO.FS.Stream) (hdr : Option (String × String)) (ops : Array String) : IO Unit := do
  match hdr with
  | none => pure ()
  | some (idx, dom) =>
    out.putStrLn s!"case {idx}"
    let res := Driver.dispatch dom ops
    for r in res do out.putStrLn r
    -- keep the one-line-per-op contract visible even if a domain misbehaves
    if res.size != ops.size then
      out.putStrLn s!"#driver-error domain={dom} ops={ops.size} outs={res.size}"

def main : IO Unit := do
  let stdin ← IO.getStdin
  let stdout ← IO.getStdout
  let lines ← readAll stdin #[]
  let mut hdr : Option (String × String) := none
  let mut ops : Array String := #[]
  for l in lines do
    if l.startsWith "case " then
      flushCase stdout hdr ops
      match l.splitOn " " with
      | [_, idx, dom] => hdr := some (idx, dom)
      | _ => hdr := some ("?", "?")
      ops := #[]
    else if l.startsWith "#" || l.isEmpty then
      pure ()
    else
      ops := ops.push l
  flushCase stdout hdr ops
  stdout.flush
