#!/bin/sh
# Builds the whole framework offline from files on disk: translator, Gen, all Lean modules, driver, harness.
set -e
cd "$(dirname "$0")"
export GOFLAGS=-mod=mod GOPROXY=off
python3 - <<'PY'
import sys, os
sys.path.insert(0, os.path.join(os.getcwd(), "lib"))
import core
ok, facts, out = core.run_xlate()
print("translator:", "ok" if ok else "FAILED"); 
if not ok: print(out); sys.exit(1)
import glob
mods = ["WtfModel." + d + "." + os.path.basename(f)[:-5] for d in ("Props", "Audit") for f in sorted(glob.glob("lean/WtfModel/%s/*.lean" % d))]
ok, out = core.lake_build(["WtfModel", "Driver", "wtfdriver"] + mods)
print(out[-3000:])
if not ok: sys.exit(1)
ok, out = core.build_harness()
print("harness:", "ok" if ok else "FAILED\n" + out)
if not ok: sys.exit(1)
ok, out = core.build_harness(race=True)
print("harness(-race):", "ok" if ok else "FAILED\n" + out)
ok, out, _ = core.build_wtf_binary()
print("wtf binary:", "ok" if ok else "FAILED\n" + out)
PY
