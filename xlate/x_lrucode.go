package main

// The method bodies of internal/cache/lru_cache.go (Get, Put, Delete, Clear, CleanupExpired, Size, evictOldest), translated
// statement by statement into programs of the small language of lean/WtfModel/Model/LruProg.lean -> Gen/LruCode.lean.
// Proofs/LruCode.lean shows that running these programs on the abstract state is the hand-written model (Lru.get, Lru.put, …)
// that the C12 / C05 / C11 theorems are about: a re-ordered statement, a dropped counter update, a changed guard or return
// value changes the generated program and breaks those obligations before any case is run.
//
// Statements understood (anything else fails the assertion lrucode:<method>:body and the module is withheld):
//   locking (`c.mu.Lock()`, `defer c.mu.Unlock()`, RLock / RUnlock: the discipline is Gen/LockFacts' subject), `now := time.Now()`,
//   `removed := 0`, `entry := element.Value.(*Entry)` and `entry.AccessCount++` are skipped;
//   element, exists := c.items[key]                      lookup
//   if element, exists := c.items[key]; exists { … }     lookup; if exists_ …
//   if <cond> { …; return … } / if <cond> { … }          ifRet / ifDo        (conditions: the table lrucodeConds)
//   c.hits++ / c.misses++ / c.evictions++                incHits / incMisses / incEvictions
//   c.removeElement(element)                             removeSel
//   entry.AccessedAt = time.Now() | now                  touchSel
//   entry.Value = value                                  setSelValue
//   c.evictList.MoveToFront(element)                     moveSelToFront
//   entry := &Entry{Key: key, Value: value, CreatedAt: now, …}; element := c.evictList.PushFront(entry); c.items[key] = element
//                                                        pushNew  (the three together, in this order)
//   c.evictOldest()                                      callEvictOldest
//   c.items = make(…); c.evictList.Init(); c.hits = 0; c.misses = 0; c.evictions = 0   (all five, any order)    resetAll
//   the back-to-front loop of CleanupExpired (compared as a whole with lrucodeSweepLoop)                      sweepBack
//   element := c.evictList.Back()                        lookupBack
//   return nil, false | entry.Value, true | <nothing> | true | false | 0 | removed | len(c.items)

import (
	"bytes"
	"go/ast"
	"go/printer"
	"go/token"
	"regexp"
	"strings"
)

var lrucodeConds = map[string]string{
	"!exists": "notExists",
	"exists":  "exists_",
	"c.ttl > 0 && time.Since(entry.CreatedAt) > c.ttl": "selExpired",
	"c.evictList.Len() > c.capacity":                   "overCapacity",
	"c.ttl <= 0":                                       "ttlNonPositive",
	"element != nil":                                   "selNonNil",
}

var lrucodeRets = map[string]string{
	"nil, false":        "none_",
	"entry.Value, true": "selVal",
	"":                  "unit",
	"true":              "true_",
	"false":             "false_",
	"0":                 "zero",
	"removed":           "removed",
	"len(c.items)":      "Ret.size",
}

const lrucodeSweepLoop = `for element := c.evictList.Back(); element != nil; { entry := element.Value.(*Entry) if now.Sub(entry.CreatedAt) > c.ttl { next := element.Prev() c.removeElement(element) removed++ element = next } else { break } }`

const lrucodeRemoveElement = `{ c.evictList.Remove(element) entry := element.Value.(*Entry) delete(c.items, entry.Key) }`

var lrucodeWS = regexp.MustCompile(`\s+`)

type lrucodeTr struct {
	x    *X
	site string
	ok   bool
	why  string
}

func (t *lrucodeTr) src(n ast.Node) string {
	if n == nil {
		return ""
	}
	// comments are not part of the statement
	var b bytes.Buffer
	printer.Fprint(&b, t.x.Fset, n)
	s := b.String()
	var out []string
	for _, l := range strings.Split(s, "\n") {
		if i := strings.Index(l, "//"); i >= 0 {
			l = l[:i]
		}
		out = append(out, l)
	}
	return strings.TrimSpace(lrucodeWS.ReplaceAllString(strings.Join(out, " "), " "))
}

func (t *lrucodeTr) fail(format string, n ast.Node) {
	if t.ok {
		t.why = format + ": " + t.src(n)
	}
	t.ok = false
}

var lrucodeSkip = map[string]bool{
	"c.mu.Lock()": true, "defer c.mu.Unlock()": true, "c.mu.RLock()": true, "defer c.mu.RUnlock()": true,
	"now := time.Now()": true, "removed := 0": true, "entry := element.Value.(*Entry)": true, "entry.AccessCount++": true,
}

var lrucodeBasic = map[string]string{
	"element, exists := c.items[key]":  "lookup",
	"c.hits++":                         "incHits",
	"c.misses++":                       "incMisses",
	"c.evictions++":                    "incEvictions",
	"c.removeElement(element)":         "removeSel",
	"entry.AccessedAt = time.Now()":    "touchSel",
	"entry.AccessedAt = now":           "touchSel",
	"entry.Value = value":              "setSelValue",
	"c.evictList.MoveToFront(element)": "moveSelToFront",
	"c.evictOldest()":                  "callEvictOldest",
	"element := c.evictList.Back()":    "lookupBack",
}

var lrucodeReset = []string{"c.items = make(map[string]*list.Element)", "c.evictList.Init()", "c.hits = 0", "c.misses = 0", "c.evictions = 0"}

// basics translates a statement list without nested blocks; ret is the trailing return ("" = none, "-" prefix never used).
func (t *lrucodeTr) basics(list []ast.Stmt) (bs []string, ret string, hasRet bool) {
	for i := 0; i < len(list); i++ {
		st := list[i]
		s := t.src(st)
		if lrucodeSkip[s] {
			continue
		}
		if b, ok := lrucodeBasic[s]; ok {
			bs = append(bs, b)
			continue
		}
		if rs, ok := st.(*ast.ReturnStmt); ok {
			if i != len(list)-1 {
				t.fail("return before the end of a block", st)
				return
			}
			r, ok := lrucodeRets[strings.TrimSpace(strings.TrimPrefix(t.src(rs), "return"))]
			if !ok {
				t.fail("return value", st)
				return
			}
			return bs, r, true
		}
		// entry := &Entry{…}; element := c.evictList.PushFront(entry); c.items[key] = element
		if strings.HasPrefix(s, "entry := &Entry{") && i+2 < len(list) {
			as := st.(*ast.AssignStmt)
			fields := map[string]string{}
			if ue, ok := as.Rhs[0].(*ast.UnaryExpr); ok {
				if cl, ok := ue.X.(*ast.CompositeLit); ok {
					for _, e := range cl.Elts {
						if kv, ok := e.(*ast.KeyValueExpr); ok {
							fields[t.src(kv.Key)] = t.src(kv.Value)
						}
					}
				}
			}
			if fields["Key"] == "key" && fields["Value"] == "value" && fields["CreatedAt"] == "now" &&
				t.src(list[i+1]) == "element := c.evictList.PushFront(entry)" && t.src(list[i+2]) == "c.items[key] = element" {
				bs = append(bs, "pushNew")
				i += 2
				continue
			}
			t.fail("new-entry sequence", st)
			return
		}
		// the five resets of Clear, in any order
		isReset := false
		for _, r := range lrucodeReset {
			if s == r {
				isReset = true
			}
		}
		if isReset {
			seen := map[string]bool{}
			j := i
			for ; j < len(list); j++ {
				sj := t.src(list[j])
				found := false
				for _, r := range lrucodeReset {
					if sj == r && !seen[r] {
						seen[r], found = true, true
					}
				}
				if !found {
					break
				}
			}
			if len(seen) != len(lrucodeReset) {
				t.fail("Clear resets only part of the state", st)
				return
			}
			bs = append(bs, "resetAll")
			i = j - 1
			continue
		}
		if fs, ok := st.(*ast.ForStmt); ok {
			if t.src(fs) == lrucodeSweepLoop {
				bs = append(bs, "sweepBack")
				continue
			}
			t.fail("loop is not the back-to-front sweep", st)
			return
		}
		t.fail("statement", st)
		return
	}
	return bs, "", false
}

func (t *lrucodeTr) body(bl *ast.BlockStmt) []string {
	var out []string
	emitBasics := func(bs []string) {
		for _, b := range bs {
			out = append(out, "basic "+b)
		}
	}
	list := bl.List
	for i := 0; i < len(list); i++ {
		st := list[i]
		ifs, isIf := st.(*ast.IfStmt)
		if !isIf {
			// maximal run of non-if statements
			j := i
			for j < len(list) {
				if _, ok := list[j].(*ast.IfStmt); ok {
					break
				}
				j++
			}
			bs, r, hasRet := t.basics(list[i:j])
			if !t.ok {
				return nil
			}
			emitBasics(bs)
			if hasRet {
				if j != len(list) {
					t.fail("statements after return", list[j])
					return nil
				}
				out = append(out, "ret "+r)
			}
			i = j - 1
			continue
		}
		if ifs.Else != nil {
			t.fail("if with else", st)
			return nil
		}
		if ifs.Init != nil {
			b, ok := lrucodeBasic[t.src(ifs.Init)]
			if !ok {
				t.fail("if initialiser", ifs.Init)
				return nil
			}
			out = append(out, "basic "+b)
		}
		c, ok := lrucodeConds[t.src(ifs.Cond)]
		if !ok {
			t.fail("condition", ifs.Cond)
			return nil
		}
		for _, s := range ifs.Body.List {
			if _, nested := s.(*ast.IfStmt); nested {
				t.fail("nested if", s)
				return nil
			}
		}
		bs, r, hasRet := t.basics(ifs.Body.List)
		if !t.ok {
			return nil
		}
		if hasRet {
			out = append(out, "ifRet "+c+" ["+strings.Join(bs, ", ")+"] "+r)
		} else {
			out = append(out, "ifDo "+c+" ["+strings.Join(bs, ", ")+"]")
		}
	}
	return out
}

func init() {
	register("c_lrucode", func(x *X) {
		const pkg = "internal/cache"
		methods := [][2]string{{"Get", "get"}, {"Put", "put"}, {"Delete", "delete"}, {"Clear", "clear"}, {"CleanupExpired", "cleanupExpired"},
			{"Size", "size"}, {"evictOldest", "evictOldest"}}
		var sb strings.Builder
		sb.WriteString("import WtfModel.Model.LruProg\n/-\n  Method bodies of internal/cache/lru_cache.go, translated statement by statement (xlate/x_lrucode.go).\n-/\n")
		sb.WriteString("namespace Wtf.Gen.LruCode\nopen Wtf.LruProg Wtf.LruProg.Stmt Wtf.LruProg.Basic Wtf.LruProg.Cond Wtf.LruProg.Ret\n\n")
		recvOK := func(fd *ast.FuncDecl) bool {
			if fd == nil || fd.Recv == nil || len(fd.Recv.List) != 1 || len(fd.Recv.List[0].Names) != 1 {
				return false
			}
			t := &lrucodeTr{x: x}
			return fd.Recv.List[0].Names[0].Name == "c" && t.src(fd.Recv.List[0].Type) == "*LRUCache"
		}
		method := func(name string) *ast.FuncDecl {
			for _, f := range x.Pkg(pkg) {
				for _, d := range f.Decls {
					if fd, ok := d.(*ast.FuncDecl); ok && fd.Name.Name == name && recvOK(fd) {
						return fd
					}
				}
			}
			return nil
		}
		paramStr := func(fd *ast.FuncDecl) string {
			t := &lrucodeTr{x: x}
			var ps []string
			for _, f := range fd.Type.Params.List {
				var ns []string
				for _, n := range f.Names {
					ns = append(ns, n.Name)
				}
				ps = append(ps, strings.Join(ns, ", ")+" "+t.src(f.Type))
			}
			return strings.Join(ps, ", ")
		}
		params := map[string]string{"Get": "key string", "Put": "key string, value interface{}", "Delete": "key string", "Clear": "",
			"CleanupExpired": "", "Size": "", "evictOldest": ""}
		for _, m := range methods {
			fd := method(m[0])
			if !x.Assert("lrucode:"+m[0], fd != nil && fd.Body != nil, "method (c *LRUCache) %s not found", m[0]) {
				continue
			}
			t := &lrucodeTr{x: x, site: "lrucode:" + m[0] + ":body", ok: true}
			x.Assert("lrucode:"+m[0]+":params", paramStr(fd) == params[m[0]], "parameters %s", paramStr(fd))
			prog := t.body(fd.Body)
			if !x.Assert(t.site, t.ok, "not in the statement language: %s", t.why) {
				continue
			}
			sb.WriteString("def " + m[1] + " : List Stmt := [" + strings.Join(prog, ", ") + "]\n")
		}
		// removeElement: list removal + map delete of the element's own key (the meaning of removeSel)
		fd := method("removeElement")
		if x.Assert("lrucode:removeElement", fd != nil && fd.Body != nil, "method removeElement not found") {
			t := &lrucodeTr{x: x}
			x.Assert("lrucode:removeElement:body", t.src(fd.Body) == lrucodeRemoveElement && paramStr(fd) == "element *list.Element",
				"got %s", t.src(fd.Body))
		}
		// every store to the fields of the cache is in one of the translated methods or the constructor
		writers := map[string]bool{}
		for _, f := range x.Pkg(pkg) {
			for _, d := range f.Decls {
				fd, ok := d.(*ast.FuncDecl)
				if !ok || fd.Body == nil || !recvOK(fd) {
					continue
				}
				ast.Inspect(fd.Body, func(n ast.Node) bool {
					mark := func(e ast.Expr) {
						t := &lrucodeTr{x: x}
						s := t.src(e)
						for _, fld := range []string{"c.items", "c.evictList", "c.hits", "c.misses", "c.evictions", "c.capacity", "c.ttl"} {
							if s == fld || strings.HasPrefix(s, fld+"[") {
								writers[fd.Name.Name] = true
							}
						}
					}
					switch v := n.(type) {
					case *ast.AssignStmt:
						for _, l := range v.Lhs {
							mark(l)
						}
					case *ast.IncDecStmt:
						mark(v.X)
					case *ast.CallExpr:
						t := &lrucodeTr{x: x}
						s := t.src(v.Fun)
						if strings.HasPrefix(s, "c.evictList.") && s != "c.evictList.Len" && s != "c.evictList.Back" && s != "c.evictList.Front" {
							writers[fd.Name.Name] = true
						}
						if s == "delete" && len(v.Args) > 0 && t.src(v.Args[0]) == "c.items" {
							writers[fd.Name.Name] = true
						}
					}
					return true
				})
			}
		}
		var extra []string
		known := map[string]bool{"Get": true, "Put": true, "Delete": true, "Clear": true, "CleanupExpired": true, "evictOldest": true, "removeElement": true}
		for w := range writers {
			if !known[w] {
				extra = append(extra, w)
			}
		}
		x.Assert("lrucode:no-other-writer", len(extra) == 0, "methods that change the cache state outside the translated ones: %v", extra)
		sb.WriteString("\nend Wtf.Gen.LruCode\n")
		x.WriteLean("LruCode", sb.String())
	})
}

var _ = token.ADD
