package main

import (
	"bytes"
	"fmt"
	"go/ast"
	"go/importer"
	"go/printer"
	"go/token"
	"go/types"
	"os"
	"path/filepath"
	"sort"
	"strings"
)

// NLP query analysis (package internal/nlp): the word tables, the intent switch tables, the literals of
// ProcessQuery / GetEnhancedKeywords, the hint rules of hints.go (a recogniser for its regular shape) and
// the map-iteration facts behind "analysing the same text twice gives the same analysis".
//
//   Gen/NlpTables.lean   tables + constants + code-shape facts
//   Gen/Hints.lean       getCommandHints as a flat list of guarded rules (Wtf.Nlp.HintRule)
//
// Every shape the model of Model/Nlp.lean relies on is asserted; an unrecognised statement fails the
// assertion of its site, and the check reports a broken translation.

const nlpDir = "internal/nlp"

func (x *X) nodeStr(n ast.Node) string {
	var b bytes.Buffer
	printer.Fprint(&b, x.Fset, n)
	return strings.Join(strings.Fields(b.String()), " ")
}

func isASCII(s string) bool {
	for i := 0; i < len(s); i++ {
		if s[i] >= 0x80 || s[i] < 0x20 {
			return false
		}
	}
	return true
}

type kvTable struct {
	keys []string
	vals map[string][]string
}

func (t kvTable) lean() string {
	var sb strings.Builder
	sb.WriteString("[\n")
	for i, k := range t.keys {
		fmt.Fprintf(&sb, "  (%s, %s)", leanStr(k), leanStrList(t.vals[k]))
		if i < len(t.keys)-1 {
			sb.WriteString(",")
		}
		sb.WriteString("\n")
	}
	sb.WriteString("]")
	return sb.String()
}

// mapTable: `func f() map[string][]string { return map[string][]string{ "k": {"v", ...}, ... } }`
func (x *X) mapTable(fn string) (kvTable, bool) {
	t := kvTable{vals: map[string][]string{}}
	fd := x.Func(nlpDir, fn)
	site := "nlp:" + fn
	if !x.Assert(site, fd != nil && fd.Body != nil && len(fd.Body.List) == 1, "function %s with a single return statement expected", fn) {
		return t, false
	}
	rs, ok := fd.Body.List[0].(*ast.ReturnStmt)
	if !x.Assert(site+":return", ok && len(rs.Results) == 1, "single `return map[string][]string{...}` expected") {
		return t, false
	}
	cl, ok := rs.Results[0].(*ast.CompositeLit)
	if !x.Assert(site+":literal", ok && x.nodeStr(cl.Type) == "map[string][]string", "map[string][]string literal expected") {
		return t, false
	}
	good := true
	for _, e := range cl.Elts {
		kv, ok := e.(*ast.KeyValueExpr)
		if !ok {
			good = false
			break
		}
		k, ok := strLit(kv.Key)
		vl, ok2 := kv.Value.(*ast.CompositeLit)
		if !ok || !ok2 || !isASCII(k) {
			good = false
			break
		}
		if _, dup := t.vals[k]; dup {
			good = false
			break
		}
		vs := []string{}
		for _, ve := range vl.Elts {
			s, ok := strLit(ve)
			if !ok || !isASCII(s) {
				good = false
			}
			vs = append(vs, s)
		}
		t.keys = append(t.keys, k)
		t.vals[k] = vs
	}
	x.Assert(site+":entries", good && len(t.keys) > 0, "every entry must be `\"key\": {\"v\", ...}` with ASCII string literals and distinct keys")
	return t, good && len(t.keys) > 0
}

type intentCase struct {
	labels []string
	intent string
	guard  bool // body is `if qp.isViewContext(actions) { return Intent }`
}

// switchTable: `for _, v := range <slice> { switch v { case lits: return IntentX | if qp.isViewContext(actions) { return IntentX } } } return IntentGeneral`
func (x *X) switchTable(fn, rangeOver string, intents map[string]string, allowGuard bool) ([]intentCase, bool) {
	site := "nlp:" + fn
	fd := x.Func(nlpDir, fn)
	if !x.Assert(site, fd != nil && fd.Body != nil && len(fd.Body.List) == 2, "function %s = one range loop + one return expected", fn) {
		return nil, false
	}
	rs, ok := fd.Body.List[0].(*ast.RangeStmt)
	ret, ok2 := fd.Body.List[1].(*ast.ReturnStmt)
	if !x.Assert(site+":loop", ok && ok2 && x.nodeStr(rs.X) == rangeOver && rs.Value != nil && len(rs.Body.List) == 1 &&
		len(ret.Results) == 1 && x.nodeStr(ret.Results[0]) == "IntentGeneral",
		"`for _, v := range %s { switch v {...} }; return IntentGeneral` expected", rangeOver) {
		return nil, false
	}
	sw, ok := rs.Body.List[0].(*ast.SwitchStmt)
	if !x.Assert(site+":switch", ok && sw.Init == nil && sw.Tag != nil && x.nodeStr(sw.Tag) == x.nodeStr(rs.Value), "switch on the loop variable expected") {
		return nil, false
	}
	var cases []intentCase
	good := true
	seen := map[string]bool{}
	for _, c := range sw.Body.List {
		cc := c.(*ast.CaseClause)
		ic := intentCase{}
		if len(cc.List) == 0 || len(cc.Body) != 1 {
			good = false
			break
		}
		for _, l := range cc.List {
			s, ok := strLit(l)
			if !ok || !isASCII(s) || seen[s] {
				good = false
			}
			seen[s] = true
			ic.labels = append(ic.labels, s)
		}
		var r *ast.ReturnStmt
		switch b := cc.Body[0].(type) {
		case *ast.ReturnStmt:
			r = b
		case *ast.IfStmt:
			if allowGuard && b.Init == nil && b.Else == nil && x.nodeStr(b.Cond) == "qp.isViewContext(actions)" && len(b.Body.List) == 1 {
				r, _ = b.Body.List[0].(*ast.ReturnStmt)
				ic.guard = true
			}
		}
		if r == nil || len(r.Results) != 1 {
			good = false
			break
		}
		id, ok := r.Results[0].(*ast.Ident)
		if !ok {
			good = false
			break
		}
		v, ok := intents[id.Name]
		if !ok {
			good = false
			break
		}
		ic.intent = v
		cases = append(cases, ic)
	}
	x.Assert(site+":cases", good && len(cases) > 0, "every case must be `case \"lit\", ...: return IntentX` (or the isViewContext-guarded return)")
	return cases, good && len(cases) > 0
}

// orChainContains: `strings.Contains(v, "a") || strings.Contains(v, "b") || ...`
func (x *X) orChainContains(e ast.Expr, v string) ([]string, bool) {
	switch t := e.(type) {
	case *ast.ParenExpr:
		return x.orChainContains(t.X, v)
	case *ast.BinaryExpr:
		if t.Op != token.LOR {
			return nil, false
		}
		a, ok1 := x.orChainContains(t.X, v)
		b, ok2 := x.orChainContains(t.Y, v)
		return append(a, b...), ok1 && ok2
	case *ast.CallExpr:
		if x.nodeStr(t.Fun) == "strings.Contains" && len(t.Args) == 2 && x.nodeStr(t.Args[0]) == v {
			s, ok := strLit(t.Args[1])
			return []string{s}, ok && isASCII(s)
		}
	}
	return nil, false
}

// appendLits: `<dst> = append(<dst>, "a", "b", ...)`
func (x *X) appendLits(st ast.Stmt, dst string) ([]string, bool) {
	as, ok := st.(*ast.AssignStmt)
	if !ok || as.Tok != token.ASSIGN || len(as.Lhs) != 1 || len(as.Rhs) != 1 || x.nodeStr(as.Lhs[0]) != dst {
		return nil, false
	}
	call, ok := as.Rhs[0].(*ast.CallExpr)
	if !ok || x.nodeStr(call.Fun) != "append" || len(call.Args) < 2 || x.nodeStr(call.Args[0]) != dst || call.Ellipsis != token.NoPos {
		return nil, false
	}
	var out []string
	for _, a := range call.Args[1:] {
		s, ok := strLit(a)
		if !ok || !isASCII(s) {
			return nil, false
		}
		out = append(out, s)
	}
	return out, true
}

// appendSpread: `<dst> = append(<dst>, <expr>...)` -> printed <expr>
func (x *X) appendSpread(st ast.Stmt, dst string) (ast.Expr, bool) {
	as, ok := st.(*ast.AssignStmt)
	if !ok || as.Tok != token.ASSIGN || len(as.Lhs) != 1 || len(as.Rhs) != 1 || x.nodeStr(as.Lhs[0]) != dst {
		return nil, false
	}
	call, ok := as.Rhs[0].(*ast.CallExpr)
	if !ok || x.nodeStr(call.Fun) != "append" || len(call.Args) != 2 || x.nodeStr(call.Args[0]) != dst || call.Ellipsis == token.NoPos {
		return nil, false
	}
	return call.Args[1], true
}

// ---- hints.go recogniser ----------------------------------------------------------------------

type hintRule struct {
	guards []string // Lean Cond terms, all must hold
	lits   []string
	fn     string
}

type hintX struct {
	x      *X
	rules  []hintRule
	fields map[string][]string // closure kind -> ProcessedQuery fields consulted, in order
	bad    []string
	depth  int
	funcs  []string
	words  map[string]bool // literals tested by the conditions
}

func (h *hintX) fail(fn string, n ast.Node, why string) {
	pos := ""
	if n != nil {
		p := h.x.Fset.Position(n.Pos())
		pos = fmt.Sprintf("%s:%d ", filepath.Base(p.Filename), p.Line)
	}
	h.bad = append(h.bad, fmt.Sprintf("%s%s: %s", pos, fn, why))
}

func (h *hintX) litArgs(args []ast.Expr) ([]string, bool) {
	var out []string
	for _, a := range args {
		s, ok := strLit(a)
		if !ok || !isASCII(s) {
			return nil, false
		}
		out = append(out, s)
		h.words[s] = true
	}
	return out, len(out) > 0
}

// cond ::= hasAction(lit) | hasTarget(lits...) | hasKeyword(lits...) | pq.Intent == C | !c | c && c | c || c | (c)
func (h *hintX) cond(fn string, e ast.Expr, env map[string]string, intents map[string]string) (string, bool) {
	switch t := e.(type) {
	case *ast.ParenExpr:
		return h.cond(fn, t.X, env, intents)
	case *ast.UnaryExpr:
		if t.Op == token.NOT {
			c, ok := h.cond(fn, t.X, env, intents)
			return ".not (" + c + ")", ok
		}
	case *ast.BinaryExpr:
		switch t.Op {
		case token.LAND, token.LOR:
			a, ok1 := h.cond(fn, t.X, env, intents)
			b, ok2 := h.cond(fn, t.Y, env, intents)
			op := ".and"
			if t.Op == token.LOR {
				op = ".or"
			}
			return op + " (" + a + ") (" + b + ")", ok1 && ok2
		case token.EQL:
			if h.x.nodeStr(t.X) == "pq.Intent" {
				if id, ok := t.Y.(*ast.Ident); ok {
					if v, ok := intents[id.Name]; ok {
						return ".intentIs " + leanStr(v), true
					}
				}
			}
		}
	case *ast.CallExpr:
		if id, ok := t.Fun.(*ast.Ident); ok && t.Ellipsis == token.NoPos {
			kind, bound := env[id.Name]
			lits, okl := h.litArgs(t.Args)
			if bound && okl {
				switch kind {
				case "hasAction":
					if len(lits) == 1 {
						return ".hasAction " + leanStr(lits[0]), true
					}
				case "hasTarget":
					return ".hasTarget " + leanStrList(lits), true
				case "hasKeyword":
					return ".hasKeyword " + leanStrList(lits), true
				}
			}
		}
	}
	h.fail(fn, e, "unrecognised condition `"+h.x.nodeStr(e)+"`")
	return ".hasKeyword []", false
}

// closure: `func(p string | p ...string) bool { for _, a := range pq.F { [for _, b := range p {] if a == b { return true } [}] } ... return false }`
func (h *hintX) closure(fn, name string, fl *ast.FuncLit) ([]string, bool) {
	if fl.Type.Params == nil || len(fl.Type.Params.List) != 1 || len(fl.Type.Params.List[0].Names) != 1 ||
		fl.Type.Results == nil || len(fl.Type.Results.List) != 1 || h.x.nodeStr(fl.Type.Results.List[0].Type) != "bool" {
		return nil, false
	}
	param := fl.Type.Params.List[0].Names[0].Name
	_, variadic := fl.Type.Params.List[0].Type.(*ast.Ellipsis)
	body := fl.Body.List
	if len(body) < 2 || h.x.nodeStr(body[len(body)-1]) != "return false" {
		return nil, false
	}
	var fields []string
	for _, st := range body[:len(body)-1] {
		rs, ok := st.(*ast.RangeStmt)
		if !ok || rs.Value == nil || len(rs.Body.List) != 1 {
			return nil, false
		}
		sel, ok := rs.X.(*ast.SelectorExpr)
		if !ok || h.x.nodeStr(sel.X) != "pq" {
			return nil, false
		}
		outer := h.x.nodeStr(rs.Value)
		inner := param
		in := rs.Body.List[0]
		if variadic {
			rs2, ok := in.(*ast.RangeStmt)
			if !ok || rs2.Value == nil || h.x.nodeStr(rs2.X) != param || len(rs2.Body.List) != 1 {
				return nil, false
			}
			inner = h.x.nodeStr(rs2.Value)
			in = rs2.Body.List[0]
		}
		want1 := fmt.Sprintf("if %s == %s { return true }", outer, inner)
		want2 := fmt.Sprintf("if %s == %s { return true }", inner, outer)
		if got := h.x.nodeStr(in); got != want1 && got != want2 {
			return nil, false
		}
		fields = append(fields, sel.Sel.Name)
	}
	return fields, true
}

// fn translates one hint function, inlining the helper methods it calls with the closures.
func (h *hintX) fn(name string, env map[string]string, guards []string, intents map[string]string) {
	h.depth++
	defer func() { h.depth-- }()
	if h.depth > 8 {
		h.fail(name, nil, "helper call depth exceeded")
		return
	}
	fd := h.x.Func(nlpDir, name)
	if fd == nil || fd.Body == nil || fd.Recv == nil || len(fd.Recv.List) != 1 || len(fd.Recv.List[0].Names) != 1 || fd.Recv.List[0].Names[0].Name != "pq" {
		h.fail(name, nil, "method on receiver `pq` not found")
		return
	}
	h.funcs = append(h.funcs, name)
	if fd.Type.Results == nil || len(fd.Type.Results.List) != 1 || h.x.nodeStr(fd.Type.Results.List[0].Type) != "[]string" {
		h.fail(name, fd, "result type []string expected")
		return
	}
	start := len(h.rules)
	var block func(stmts []ast.Stmt, guards []string, top bool) (returned bool)
	call := func(e ast.Expr, guards []string) bool {
		ce, ok := e.(*ast.CallExpr)
		if !ok || ce.Ellipsis != token.NoPos {
			return false
		}
		sel, ok := ce.Fun.(*ast.SelectorExpr)
		if !ok || h.x.nodeStr(sel.X) != "pq" {
			return false
		}
		callee := h.x.Func(nlpDir, sel.Sel.Name)
		if callee == nil {
			return false
		}
		var pnames []string
		for _, f := range callee.Type.Params.List {
			for _, n := range f.Names {
				pnames = append(pnames, n.Name)
			}
		}
		if len(pnames) != len(ce.Args) {
			return false
		}
		env2 := map[string]string{}
		for i, a := range ce.Args {
			id, ok := a.(*ast.Ident)
			if !ok {
				return false
			}
			kind, ok := env[id.Name]
			if !ok {
				return false
			}
			if pnames[i] != "_" {
				env2[pnames[i]] = kind
			}
		}
		h.fn(sel.Sel.Name, env2, guards, intents)
		return true
	}
	block = func(stmts []ast.Stmt, guards []string, top bool) bool {
		guards = append([]string(nil), guards...)
		for i, st := range stmts {
			switch s := st.(type) {
			case *ast.DeclStmt:
				if h.x.nodeStr(s) != "var hints []string" {
					h.fail(name, s, "unrecognised declaration `"+h.x.nodeStr(s)+"`")
				}
			case *ast.AssignStmt:
				if s.Tok == token.DEFINE && len(s.Lhs) == 1 && len(s.Rhs) == 1 && top {
					if fl, ok := s.Rhs[0].(*ast.FuncLit); ok {
						nm := h.x.nodeStr(s.Lhs[0])
						fields, ok := h.closure(name, nm, fl)
						if !ok || (nm != "hasAction" && nm != "hasTarget" && nm != "hasKeyword") {
							h.fail(name, s, "closure `"+nm+"` is not of the membership-test shape")
						} else {
							env[nm] = nm
							h.fields[nm] = fields
						}
						continue
					}
				}
				if lits, ok := h.x.appendLits(s, "hints"); ok {
					h.rules = append(h.rules, hintRule{guards: append([]string(nil), guards...), lits: lits, fn: name})
					continue
				}
				if e, ok := h.x.appendSpread(s, "hints"); ok && call(e, guards) {
					continue
				}
				h.fail(name, s, "unrecognised statement `"+h.x.nodeStr(s)+"`")
			case *ast.IfStmt:
				if s.Init != nil {
					h.fail(name, s, "if with init statement")
					continue
				}
				c, ok := h.cond(name, s.Cond, env, intents)
				if !ok {
					continue
				}
				// early return: `if c { return nil }` at the top level, before anything was appended
				if len(s.Body.List) == 1 && h.x.nodeStr(s.Body.List[0]) == "return nil" && s.Else == nil {
					if !top || len(h.rules) != start {
						h.fail(name, s, "early `return nil` after an append or inside a nested block")
					}
					guards = append(guards, ".not ("+c+")")
					continue
				}
				if block(s.Body.List, append(guards, c), false) {
					h.fail(name, s, "return inside a conditional block")
				}
				neg := append(append([]string(nil), guards...), ".not ("+c+")")
				switch e := s.Else.(type) {
				case nil:
				case *ast.BlockStmt:
					if block(e.List, neg, false) {
						h.fail(name, s, "return inside an else block")
					}
				case *ast.IfStmt:
					if block([]ast.Stmt{e}, neg, false) {
						h.fail(name, s, "return inside an else-if block")
					}
				}
			case *ast.ReturnStmt:
				if i != len(stmts)-1 || len(s.Results) != 1 {
					h.fail(name, s, "return must be the last statement")
					return true
				}
				if !top {
					return true
				}
				if h.x.nodeStr(s.Results[0]) == "hints" {
					return true
				}
				if !call(s.Results[0], guards) {
					h.fail(name, s, "unrecognised return `"+h.x.nodeStr(s)+"`")
				}
				return true
			default:
				h.fail(name, st, "unrecognised statement `"+h.x.nodeStr(st)+"`")
			}
		}
		return false
	}
	if !block(fd.Body.List, guards, true) {
		h.fail(name, fd, "function does not end in a return")
	}
}

// ---- type-checked view of package nlp (map-range sites) ------------------------------------------

type repoImporter struct {
	x     *X
	mod   string
	std   types.Importer
	cache map[string]*types.Package
}

func (ri *repoImporter) Import(path string) (*types.Package, error) {
	if p, ok := ri.cache[path]; ok {
		return p, nil
	}
	if strings.HasPrefix(path, ri.mod+"/") {
		rel := strings.TrimPrefix(path, ri.mod+"/")
		files := ri.x.Pkg(rel)
		var names []string
		for n := range files {
			names = append(names, n)
		}
		sort.Strings(names)
		var fs []*ast.File
		for _, n := range names {
			fs = append(fs, files[n])
		}
		conf := types.Config{Importer: ri, Error: func(error) {}}
		p, _ := conf.Check(path, ri.x.Fset, fs, nil)
		if p == nil {
			return nil, fmt.Errorf("cannot type-check %s", path)
		}
		ri.cache[path] = p
		return p, nil
	}
	p, err := ri.std.Import(path)
	if err == nil {
		ri.cache[path] = p
	}
	return p, err
}

func (x *X) modulePath() string {
	b, _ := os.ReadFile(filepath.Join(x.Repo, "go.mod"))
	for _, l := range strings.Split(string(b), "\n") {
		if strings.HasPrefix(l, "module ") {
			return strings.TrimSpace(strings.TrimPrefix(l, "module "))
		}
	}
	return ""
}

// nlpSites: every `range` over a map-typed expression, `go` and `select` statement in the functions of
// package nlp reachable from the given roots (static call graph inside the package, closures included).
func (x *X) nlpSites(roots []string) (sites []string, reached []string, pkgVars []string, ok bool) {
	files := x.Pkg(nlpDir)
	var names []string
	for n := range files {
		names = append(names, n)
	}
	sort.Strings(names)
	var fs []*ast.File
	for _, n := range names {
		fs = append(fs, files[n])
	}
	mod := x.modulePath()
	imp := &repoImporter{x: x, mod: mod, std: importer.ForCompiler(x.Fset, "source", nil), cache: map[string]*types.Package{}}
	info := &types.Info{Types: map[ast.Expr]types.TypeAndValue{}, Uses: map[*ast.Ident]types.Object{}, Defs: map[*ast.Ident]types.Object{}}
	var terrs []string
	conf := types.Config{Importer: imp, Error: func(e error) { terrs = append(terrs, e.Error()) }}
	pkg, _ := conf.Check(mod+"/"+nlpDir, x.Fset, fs, info)
	if !x.Assert("nlp:typecheck", pkg != nil && len(terrs) == 0, "package nlp must type-check: %v", terrs) {
		return nil, nil, nil, false
	}
	decls := map[types.Object]*ast.FuncDecl{}
	byName := map[string]*ast.FuncDecl{}
	for _, f := range fs {
		for _, d := range f.Decls {
			if fd, ok := d.(*ast.FuncDecl); ok {
				decls[info.Defs[fd.Name]] = fd
				byName[fd.Name.Name] = fd
			}
		}
	}
	seen := map[*ast.FuncDecl]bool{}
	ok = true
	var visit func(fd *ast.FuncDecl)
	visit = func(fd *ast.FuncDecl) {
		if fd == nil || seen[fd] || fd.Body == nil {
			return
		}
		seen[fd] = true
		reached = append(reached, fd.Name.Name)
		ast.Inspect(fd.Body, func(n ast.Node) bool {
			switch t := n.(type) {
			case *ast.RangeStmt:
				ty := info.TypeOf(t.X)
				if ty == nil || ty == types.Typ[types.Invalid] {
					ok = false
					return true
				}
				if _, isMap := ty.Underlying().(*types.Map); isMap {
					p := x.Fset.Position(t.Pos())
					sites = append(sites, fmt.Sprintf("%s:%s:range-map:%s", filepath.Base(p.Filename), fd.Name.Name, x.nodeStr(t.X)))
				}
			case *ast.Ident:
				if v, isVar := info.Uses[t].(*types.Var); isVar && v.Parent() == pkg.Scope() {
					pkgVars = append(pkgVars, fd.Name.Name+":"+v.Name())
				}
			case *ast.GoStmt:
				sites = append(sites, fd.Name.Name+":go-statement")
			case *ast.SelectStmt:
				sites = append(sites, fd.Name.Name+":select-statement")
			case *ast.CallExpr:
				var id *ast.Ident
				switch f := t.Fun.(type) {
				case *ast.Ident:
					id = f
				case *ast.SelectorExpr:
					id = f.Sel
				}
				if id != nil {
					if fn, isFn := info.Uses[id].(*types.Func); isFn && fn.Pkg() == pkg {
						visit(decls[fn])
					}
				}
			}
			return true
		})
	}
	for _, r := range roots {
		if !x.Assert("nlp:root:"+r, byName[r] != nil, "function %s not found", r) {
			ok = false
			continue
		}
		visit(byName[r])
	}
	sort.Strings(reached)
	sort.Strings(pkgVars)
	return sites, reached, pkgVars, ok
}

func init() {
	register("n_nlp", func(x *X) {
		// --- intent constants
		intents := map[string]string{}
		var intentNames []string
		for _, f := range x.Pkg(nlpDir) {
			for _, d := range f.Decls {
				gd, ok := d.(*ast.GenDecl)
				if !ok || gd.Tok != token.CONST {
					continue
				}
				for _, sp := range gd.Specs {
					vs := sp.(*ast.ValueSpec)
					if vs.Type != nil && x.nodeStr(vs.Type) == "QueryIntent" && len(vs.Names) == 1 && len(vs.Values) == 1 {
						if s, ok := strLit(vs.Values[0]); ok && isASCII(s) {
							intents[vs.Names[0].Name] = s
							intentNames = append(intentNames, vs.Names[0].Name)
						}
					}
				}
			}
		}
		_, hasGeneral := intents["IntentGeneral"]
		if !x.Assert("nlp:intent-constants", hasGeneral && len(intents) >= 2, "QueryIntent string constants incl. IntentGeneral expected, got %v", intents) {
			return
		}

		// --- word tables
		actions, ok1 := x.mapTable("buildActionWords")
		targets, ok2 := x.mapTable("buildTargetWords")
		synonyms, ok3 := x.mapTable("buildSynonyms")
		if !(ok1 && ok2 && ok3) {
			return
		}
		// NewQueryProcessor wires the four tables to the four fields
		if fd := x.Func(nlpDir, "NewQueryProcessor"); x.Assert("nlp:NewQueryProcessor", fd != nil, "NewQueryProcessor not found") {
			x.Assert("nlp:NewQueryProcessor:wiring", x.nodeStr(fd.Body) ==
				"{ return &QueryProcessor{ stopWords: buildStopWords(), synonyms: buildSynonyms(), actionWords: buildActionWords(), targetWords: buildTargetWords(), } }",
				"NewQueryProcessor must fill stopWords/synonyms/actionWords/targetWords from the four build* functions; got %s", x.nodeStr(fd.Body))
		}
		// buildStopWords: a set built from the literal list (a_stopwords extracted the list)
		if fd := x.Func(nlpDir, "buildStopWords"); fd != nil {
			n := len(fd.Body.List)
			x.Assert("nlp:buildStopWords:shape", n == 4 && x.nodeStr(fd.Body.List[1]) == "stopWords := make(map[string]bool)" &&
				x.nodeStr(fd.Body.List[2]) == "for _, word := range words { stopWords[word] = true }" && x.nodeStr(fd.Body.List[3]) == "return stopWords",
				"buildStopWords must turn the literal list into a set")
		}

		// --- cleanQuery
		cleanOK := false
		var cleanPat, spacePat string
		if fd := x.Func(nlpDir, "cleanQuery"); x.Assert("nlp:cleanQuery", fd != nil && fd.Body != nil, "cleanQuery not found") {
			b := fd.Body.List
			if len(b) == 5 {
				pat := func(st ast.Stmt, lhsTok string) (string, bool) {
					as, ok := st.(*ast.AssignStmt)
					if !ok || len(as.Rhs) != 1 || x.nodeStr(as.Lhs[0]) != "re" {
						return "", false
					}
					ce, ok := as.Rhs[0].(*ast.CallExpr)
					if !ok || x.nodeStr(ce.Fun) != "regexp.MustCompile" || len(ce.Args) != 1 {
						return "", false
					}
					return strLit(ce.Args[0])
				}
				p1, o1 := pat(b[0], ":=")
				p2, o2 := pat(b[2], "=")
				cleanPat, spacePat = p1, p2
				cleanOK = o1 && o2 && x.nodeStr(b[1]) == `cleaned := re.ReplaceAllString(query, " ")` &&
					x.nodeStr(b[3]) == `cleaned = re.ReplaceAllString(cleaned, " ")` && x.nodeStr(b[4]) == "return strings.TrimSpace(cleaned)"
			}
			x.Assert("nlp:cleanQuery:shape", cleanOK && cleanPat == `[^\w\s\-.]` && spacePat == `\s+`,
				"cleanQuery must be: replace `[^\\w\\s\\-.]` by \" \", replace `\\s+` by \" \", TrimSpace; got %q %q", cleanPat, spacePat)
		}

		// --- ProcessQuery
		var viewSubs, withoutSubs, ctxActions []string
		if fd := x.Func(nlpDir, "ProcessQuery"); x.Assert("nlp:ProcessQuery", fd != nil && fd.Body != nil, "ProcessQuery not found") {
			var loop *ast.RangeStmt
			var seq []string
			shape := true
			for _, st := range fd.Body.List {
				s := x.nodeStr(st)
				switch t := st.(type) {
				case *ast.AssignStmt:
					lhs := x.nodeStr(t.Lhs[0])
					switch lhs {
					case "pq":
						seq = append(seq, "init")
						for _, fld := range []string{"Actions: []string{}", "Targets: []string{}", "Keywords: []string{}", "Intent: IntentGeneral"} {
							if !strings.Contains(s, fld) {
								shape = false
							}
						}
					case "cleaned":
						seq = append(seq, "clean")
						shape = shape && s == "cleaned := qp.cleanQuery(query)"
					case "pq.Cleaned":
						shape = shape && s == "pq.Cleaned = cleaned"
					case "words":
						seq = append(seq, "words")
						shape = shape && s == "words := strings.Fields(strings.ToLower(cleaned))"
					case "queryLower":
						shape = shape && s == "queryLower := strings.ToLower(query)"
					case "hasViewContext":
						v, ok := x.orChainContains(t.Rhs[0], "queryLower")
						viewSubs, shape = v, shape && ok
					case "hasWithoutOpening":
						v, ok := x.orChainContains(t.Rhs[0], "queryLower")
						withoutSubs, shape = v, shape && ok
					case "pq.Intent":
						seq = append(seq, "intent")
						shape = shape && s == "pq.Intent = qp.detectIntent(pq.Actions, pq.Keywords)"
					case "pq.Actions", "pq.Targets", "pq.Keywords":
						seq = append(seq, "dedup")
						shape = shape && s == lhs+" = removeDuplicates("+lhs+")"
					default:
						shape = false
					}
				case *ast.RangeStmt:
					seq = append(seq, "loop")
					loop = t
				case *ast.IfStmt:
					seq = append(seq, "viewctx")
					lits, ok := []string(nil), false
					if t.Init == nil && t.Else == nil && x.nodeStr(t.Cond) == "hasViewContext && hasWithoutOpening" && len(t.Body.List) == 1 {
						lits, ok = x.appendLits(t.Body.List[0], "pq.Actions")
					}
					ctxActions, shape = lits, shape && ok
				case *ast.ReturnStmt:
					seq = append(seq, "return")
					shape = shape && s == "return pq"
				default:
					shape = false
				}
			}
			x.Assert("nlp:ProcessQuery:sequence", shape && strings.Join(seq, ",") == "init,clean,words,loop,viewctx,intent,dedup,dedup,dedup,return" &&
				len(viewSubs) > 0 && len(withoutSubs) > 0 && len(ctxActions) > 0,
				"ProcessQuery must be: init, clean, words, word loop, view-context clause, detectIntent, removeDuplicates x3, return; got %v (shape=%v)", seq, shape)
			// the word loop: stop word -> skip; action -> append mapped actions, skip; target -> append mapped targets + keep word, skip;
			// otherwise keyword + first synonym
			lok := loop != nil && x.nodeStr(loop.X) == "words" && loop.Value != nil && x.nodeStr(loop.Value) == "word" && len(loop.Body.List) == 5
			if lok {
				b := loop.Body.List
				lok = x.nodeStr(b[0]) == "if qp.stopWords[word] { continue }" &&
					x.nodeStr(b[1]) == "if actions, found := qp.actionWords[word]; found { pq.Actions = append(pq.Actions, actions...) continue }" &&
					x.nodeStr(b[2]) == "if targets, found := qp.targetWords[word]; found { pq.Targets = append(pq.Targets, targets...) pq.Keywords = append(pq.Keywords, word) continue }" &&
					x.nodeStr(b[3]) == "pq.Keywords = append(pq.Keywords, word)" &&
					x.nodeStr(b[4]) == "if synonyms, found := qp.synonyms[word]; found { if len(synonyms) > 0 { pq.Keywords = append(pq.Keywords, synonyms[0]) } }"
			}
			x.Assert("nlp:ProcessQuery:word-loop", lok, "the word loop of ProcessQuery no longer has the modelled shape (stop / action / target+keyword / keyword + first synonym)")
		}

		// --- intent detection
		if fd := x.Func(nlpDir, "detectIntent"); x.Assert("nlp:detectIntent", fd != nil && fd.Body != nil, "detectIntent not found") {
			x.Assert("nlp:detectIntent:shape", x.nodeStr(fd.Body) ==
				"{ if intent := qp.detectIntentFromActions(actions); intent != IntentGeneral { return intent } return qp.detectIntentFromKeywords(keywords, actions) }",
				"detectIntent must try the actions first, then the keywords; got %s", x.nodeStr(fd.Body))
		}
		fromActions, okA := x.switchTable("detectIntentFromActions", "actions", intents, false)
		fromKeywords, okK := x.switchTable("detectIntentFromKeywords", "keywords", intents, true)
		var viewActs, clearActs []string
		vcOK := false
		if fd := x.Func(nlpDir, "isViewContext"); x.Assert("nlp:isViewContext", fd != nil && fd.Body != nil, "isViewContext not found") {
			b := fd.Body.List
			if len(b) == 4 && x.nodeStr(b[0]) == "hasViewAction := false" && x.nodeStr(b[1]) == "hasClearAction := false" &&
				x.nodeStr(b[3]) == "return hasViewAction || (!hasClearAction && len(actions) == 0)" {
				if rs, ok := b[2].(*ast.RangeStmt); ok && x.nodeStr(rs.X) == "actions" && len(rs.Body.List) == 1 {
					if sw, ok := rs.Body.List[0].(*ast.SwitchStmt); ok && sw.Tag != nil && x.nodeStr(sw.Tag) == x.nodeStr(rs.Value) && len(sw.Body.List) == 2 {
						get := func(cc *ast.CaseClause, flag string) ([]string, bool) {
							if len(cc.Body) != 1 || x.nodeStr(cc.Body[0]) != flag+" = true" {
								return nil, false
							}
							var out []string
							for _, l := range cc.List {
								s, ok := strLit(l)
								if !ok {
									return nil, false
								}
								out = append(out, s)
							}
							return out, len(out) > 0
						}
						var o1, o2 bool
						viewActs, o1 = get(sw.Body.List[0].(*ast.CaseClause), "hasViewAction")
						clearActs, o2 = get(sw.Body.List[1].(*ast.CaseClause), "hasClearAction")
						vcOK = o1 && o2
					}
				}
			}
			x.Assert("nlp:isViewContext:shape", vcOK, "isViewContext must be the two-flag switch with `return hasViewAction || (!hasClearAction && len(actions) == 0)`")
		}

		// --- GetEnhancedKeywords
		var order []string
		var ipWord, ipHint string
		var ipCompanions []string
		threshold := ""
		geOK := true
		if fd := x.Func(nlpDir, "GetEnhancedKeywords"); x.Assert("nlp:GetEnhancedKeywords", fd != nil && fd.Body != nil, "GetEnhancedKeywords not found") {
			flagLit := map[string]string{}
			var flagOrder []string
			for _, st := range fd.Body.List {
				s := x.nodeStr(st)
				switch t := st.(type) {
				case *ast.DeclStmt:
					geOK = geOK && s == "var enhanced []string"
				case *ast.AssignStmt:
					if e, ok := x.appendSpread(st, "enhanced"); ok {
						switch x.nodeStr(e) {
						case "pq.Keywords":
							order = append(order, "keywords")
						case "pq.getCommandHints()":
							order = append(order, "hints")
						case "pq.getRelevantActions()":
							order = append(order, "actions")
						case "pq.getRelevantTargets()":
							order = append(order, "targets")
						default:
							geOK = false
						}
					} else if t.Tok == token.DEFINE && len(t.Rhs) == 1 && x.nodeStr(t.Rhs[0]) == "false" {
						flagLit[x.nodeStr(t.Lhs[0])] = ""
						flagOrder = append(flagOrder, x.nodeStr(t.Lhs[0]))
					} else {
						geOK = false
					}
				case *ast.RangeStmt:
					if x.nodeStr(t.X) != "pq.Keywords" || t.Value == nil {
						geOK = false
						break
					}
					v := x.nodeStr(t.Value)
					for _, in := range t.Body.List {
						is, ok := in.(*ast.IfStmt)
						if !ok || is.Init != nil || is.Else != nil || len(is.Body.List) != 1 {
							geOK = false
							continue
						}
						be, ok := is.Cond.(*ast.BinaryExpr)
						if !ok || be.Op != token.EQL || x.nodeStr(be.X) != v {
							geOK = false
							continue
						}
						lit, ok := strLit(be.Y)
						as, ok2 := is.Body.List[0].(*ast.AssignStmt)
						if !ok || !ok2 || len(as.Rhs) != 1 || x.nodeStr(as.Rhs[0]) != "true" {
							geOK = false
							continue
						}
						fl := x.nodeStr(as.Lhs[0])
						if prev, known := flagLit[fl]; !known || prev != "" {
							geOK = false
							continue
						}
						flagLit[fl] = lit
					}
				case *ast.IfStmt:
					if t.Init != nil || t.Else != nil || len(t.Body.List) != 1 {
						geOK = false
						break
					}
					if lits, ok := x.appendLits(t.Body.List[0], "enhanced"); ok && len(lits) == 1 && len(flagOrder) == 3 &&
						x.nodeStr(t.Cond) == fmt.Sprintf("%s && (%s || %s)", flagOrder[0], flagOrder[1], flagOrder[2]) {
						order = append(order, "ipconfig")
						ipHint = lits[0]
						ipWord = flagLit[flagOrder[0]]
						ipCompanions = []string{flagLit[flagOrder[1]], flagLit[flagOrder[2]]}
					} else if e, ok := x.appendSpread(t.Body.List[0], "enhanced"); ok && x.nodeStr(e) == "pq.getIntentKeywords()" {
						be, ok := t.Cond.(*ast.BinaryExpr)
						if ok && be.Op == token.LSS && x.nodeStr(be.X) == "len(enhanced)" {
							if bl, ok := be.Y.(*ast.BasicLit); ok && bl.Kind == token.INT {
								threshold = bl.Value
								order = append(order, "intent")
								break
							}
						}
						geOK = false
					} else {
						geOK = false
					}
				case *ast.ReturnStmt:
					geOK = geOK && s == "return removeDuplicates(enhanced)"
					order = append(order, "dedup")
				default:
					geOK = false
				}
			}
			x.Assert("nlp:GetEnhancedKeywords:shape", geOK && threshold != "" && ipWord != "" && ipHint != "" && len(ipCompanions) == 2 &&
				ipCompanions[0] != "" && ipCompanions[1] != "",
				"GetEnhancedKeywords: unrecognised statement (expected appends of keywords / hints / ip rule / actions / targets / intent keywords, then removeDuplicates); order=%v", order)
			x.Assert("nlp:GetEnhancedKeywords:order", strings.Join(order, ",") == "keywords,hints,ipconfig,actions,targets,intent,dedup",
				"the expanded list must be built as keywords, hints, ip rule, actions, targets, intent keywords, removeDuplicates; got %v", order)
		}
		// getRelevantActions / getRelevantTargets: `if len(pq.F) > 0 { l := utils.Min(len(pq.F), N); return pq.F[:l] }; return nil`
		limit := func(fn, field string) string {
			fd := x.Func(nlpDir, fn)
			if !x.Assert("nlp:"+fn, fd != nil && fd.Body != nil && len(fd.Body.List) == 2, "%s not found / unexpected length", fn) {
				return ""
			}
			is, ok := fd.Body.List[0].(*ast.IfStmt)
			lim := ""
			if ok && is.Init == nil && is.Else == nil && x.nodeStr(is.Cond) == "len(pq."+field+") > 0" && len(is.Body.List) == 2 &&
				x.nodeStr(fd.Body.List[1]) == "return nil" {
				if as, ok := is.Body.List[0].(*ast.AssignStmt); ok && len(as.Rhs) == 1 {
					if ce, ok := as.Rhs[0].(*ast.CallExpr); ok && x.nodeStr(ce.Fun) == "utils.Min" && len(ce.Args) == 2 && x.nodeStr(ce.Args[0]) == "len(pq."+field+")" {
						if bl, ok := ce.Args[1].(*ast.BasicLit); ok && bl.Kind == token.INT &&
							x.nodeStr(is.Body.List[1]) == "return pq."+field+"[:"+x.nodeStr(as.Lhs[0])+"]" {
							lim = bl.Value
						}
					}
				}
			}
			x.Assert("nlp:"+fn+":shape", lim != "", "%s must return the first min(len, N) entries of pq.%s", fn, field)
			return lim
		}
		actLimit := limit("getRelevantActions", "Actions")
		tgtLimit := limit("getRelevantTargets", "Targets")
		if fd := x.Func("internal/utils", "Min"); x.Assert("nlp:utils.Min", fd != nil && fd.Body != nil, "utils.Min not found") {
			x.Assert("nlp:utils.Min:shape", x.nodeStr(fd.Body) == "{ if a < b { return a } return b }", "utils.Min must be the minimum of two ints")
		}
		// getIntentKeywords: switch pq.Intent { case IntentX: return []string{...} }; return nil
		type ik struct {
			intent string
			words  []string
		}
		var intentKw []ik
		ikOK := false
		if fd := x.Func(nlpDir, "getIntentKeywords"); x.Assert("nlp:getIntentKeywords", fd != nil && fd.Body != nil && len(fd.Body.List) == 2, "getIntentKeywords not found") {
			if sw, ok := fd.Body.List[0].(*ast.SwitchStmt); ok && sw.Init == nil && sw.Tag != nil && x.nodeStr(sw.Tag) == "pq.Intent" && x.nodeStr(fd.Body.List[1]) == "return nil" {
				ikOK = true
				for _, c := range sw.Body.List {
					cc := c.(*ast.CaseClause)
					if len(cc.List) == 0 || len(cc.Body) != 1 {
						ikOK = false
						break
					}
					rs, ok := cc.Body[0].(*ast.ReturnStmt)
					if !ok || len(rs.Results) != 1 {
						ikOK = false
						break
					}
					cl, ok := rs.Results[0].(*ast.CompositeLit)
					if !ok || x.nodeStr(cl.Type) != "[]string" {
						ikOK = false
						break
					}
					var ws []string
					for _, e := range cl.Elts {
						s, ok := strLit(e)
						if !ok || !isASCII(s) {
							ikOK = false
						}
						ws = append(ws, s)
					}
					for _, l := range cc.List {
						id, ok := l.(*ast.Ident)
						if !ok {
							ikOK = false
							break
						}
						v, ok := intents[id.Name]
						if !ok {
							ikOK = false
							break
						}
						intentKw = append(intentKw, ik{v, ws})
					}
				}
			}
			x.Assert("nlp:getIntentKeywords:shape", ikOK, "getIntentKeywords must be `switch pq.Intent { case IntentX: return []string{...} }; return nil`")
		}
		// removeDuplicates: first occurrences, in order
		if fd := x.Func(nlpDir, "removeDuplicates"); x.Assert("nlp:removeDuplicates", fd != nil && fd.Body != nil, "removeDuplicates not found") {
			x.Assert("nlp:removeDuplicates:shape", x.nodeStr(fd.Body) ==
				"{ seen := make(map[string]bool) result := []string{} for _, item := range slice { if !seen[item] { seen[item] = true result = append(result, item) } } return result }",
				"removeDuplicates must keep first occurrences in order; got %s", x.nodeStr(fd.Body))
		}

		// --- determinism facts
		sites, reached, pkgVars, okSites := x.nlpSites([]string{"NewQueryProcessor", "ProcessQuery", "GetEnhancedKeywords"})
		x.Assert("nlp:no-map-iteration", okSites && len(sites) == 0,
			"ProcessQuery / GetEnhancedKeywords must not range over a map, start goroutines or select (map order is the only nondeterminism source there); found %v", sites)
		x.Assert("nlp:no-package-state", len(pkgVars) == 0, "the analysis path must not read or write package-level variables (hidden state between two analyses); found %v", pkgVars)

		if !(okA && okK && vcOK && geOK && ikOK && cleanOK && actLimit != "" && tgtLimit != "" && threshold != "") {
			return
		}

		// --- hints
		h := &hintX{x: x, fields: map[string][]string{}, words: map[string]bool{}}
		h.fn("getCommandHints", map[string]string{}, nil, intents)
		x.Assert("hints:recogniser", len(h.bad) == 0 && len(h.rules) > 0, "hints.go: %d unrecognised statements: %s", len(h.bad), strings.Join(h.bad, " | "))
		for _, k := range []string{"hasAction", "hasTarget", "hasKeyword"} {
			okf := len(h.fields[k]) > 0
			for _, f := range h.fields[k] {
				if f != "Actions" && f != "Targets" && f != "Keywords" {
					okf = false
				}
			}
			x.Assert("hints:closure:"+k, okf, "closure %s must test membership in pq.Actions / pq.Targets / pq.Keywords; got %v", k, h.fields[k])
		}
		if len(h.bad) != 0 || len(h.rules) == 0 {
			return
		}

		// --- emit
		var sb strings.Builder
		sb.WriteString("namespace Wtf.Gen.NlpTables\n\n")
		fmt.Fprintf(&sb, "/-- nlp.buildActionWords (source order; Go map literals cannot repeat a key) -/\ndef actionWords : List (String × List String) := %s\n\n", actions.lean())
		fmt.Fprintf(&sb, "/-- nlp.buildTargetWords -/\ndef targetWords : List (String × List String) := %s\n\n", targets.lean())
		fmt.Fprintf(&sb, "/-- nlp.buildSynonyms -/\ndef synonyms : List (String × List String) := %s\n\n", synonyms.lean())
		sb.WriteString("/-- QueryIntent constants (name, value) -/\ndef intents : List (String × String) := [")
		for i, n := range intentNames {
			if i > 0 {
				sb.WriteString(", ")
			}
			fmt.Fprintf(&sb, "(%s, %s)", leanStr(n), leanStr(intents[n]))
		}
		sb.WriteString("]\n")
		fmt.Fprintf(&sb, "def intentGeneral : String := %s\n\n", leanStr(intents["IntentGeneral"]))
		sb.WriteString("/-- detectIntentFromActions: (case labels, intent), in source order -/\ndef intentFromActions : List (List String × String) := [\n")
		for i, c := range fromActions {
			fmt.Fprintf(&sb, "  (%s, %s)", leanStrList(c.labels), leanStr(c.intent))
			if i < len(fromActions)-1 {
				sb.WriteString(",")
			}
			sb.WriteString("\n")
		}
		sb.WriteString("]\n\n/-- detectIntentFromKeywords: (case labels, intent, returns only if isViewContext(actions)) -/\ndef intentFromKeywords : List (List String × String × Bool) := [\n")
		for i, c := range fromKeywords {
			fmt.Fprintf(&sb, "  (%s, %s, %v)", leanStrList(c.labels), leanStr(c.intent), c.guard)
			if i < len(fromKeywords)-1 {
				sb.WriteString(",")
			}
			sb.WriteString("\n")
		}
		sb.WriteString("]\n\n")
		fmt.Fprintf(&sb, "/-- isViewContext: actions that set hasViewAction / hasClearAction -/\ndef viewActions : List String := %s\ndef clearActions : List String := %s\n\n", leanStrList(viewActs), leanStrList(clearActs))
		sb.WriteString("/-- getIntentKeywords -/\ndef intentKeywords : List (String × List String) := [")
		for i, k := range intentKw {
			if i > 0 {
				sb.WriteString(", ")
			}
			fmt.Fprintf(&sb, "(%s, %s)", leanStr(k.intent), leanStrList(k.words))
		}
		sb.WriteString("]\n\n")
		fmt.Fprintf(&sb, "/-- ProcessQuery: substrings of the lower-cased raw query that set hasViewContext / hasWithoutOpening, and the actions then appended -/\n")
		fmt.Fprintf(&sb, "def viewContextSubstrings : List String := %s\ndef withoutOpeningSubstrings : List String := %s\ndef viewContextActions : List String := %s\n\n",
			leanStrList(viewSubs), leanStrList(withoutSubs), leanStrList(ctxActions))
		fmt.Fprintf(&sb, "/-- GetEnhancedKeywords: the legacy ip rule, the relevant-action/target limits, the intent-keyword threshold -/\n")
		fmt.Fprintf(&sb, "def ipWord : String := %s\ndef ipCompanions : List String := %s\ndef ipHint : String := %s\n", leanStr(ipWord), leanStrList(ipCompanions), leanStr(ipHint))
		fmt.Fprintf(&sb, "def relevantActionLimit : Nat := %s\ndef relevantTargetLimit : Nat := %s\ndef intentKeywordThreshold : Nat := %s\n\n", actLimit, tgtLimit, threshold)
		fmt.Fprintf(&sb, "/-- order in which GetEnhancedKeywords builds the expanded list -/\ndef enhancedOrder : List String := %s\n\n", leanStrList(order))
		fmt.Fprintf(&sb, "/-- cleanQuery's two regular expressions -/\ndef cleanPattern : String := %s\ndef spacePattern : String := %s\n\n", leanStr(cleanPat), leanStr(spacePat))
		fmt.Fprintf(&sb, "/-- `range` over a map / go / select sites in the functions reachable from NewQueryProcessor, ProcessQuery,\n    GetEnhancedKeywords inside package nlp (type-checked), and the package-level variables those functions use -/\n")
		fmt.Fprintf(&sb, "def orderSensitiveSites : List String := %s\ndef packageVariables : List String := %s\ndef reachedFunctions : List String := %s\n\n", leanStrList(sites), leanStrList(pkgVars), leanStrList(reached))
		sb.WriteString("end Wtf.Gen.NlpTables\n")
		x.WriteLean("NlpTables", sb.String())

		var hb strings.Builder
		hb.WriteString("import WtfModel.Basic.Hint\nnamespace Wtf.Gen.Hints\nopen Wtf.Nlp\n\n")
		fmt.Fprintf(&hb, "/-- ProcessedQuery fields consulted by the three closures of getCommandHints, in order -/\n")
		fmt.Fprintf(&hb, "def hasActionFields : List String := %s\ndef hasTargetFields : List String := %s\ndef hasKeywordFields : List String := %s\n\n",
			leanStrList(h.fields["hasAction"]), leanStrList(h.fields["hasTarget"]), leanStrList(h.fields["hasKeyword"]))
		fmt.Fprintf(&hb, "/-- getCommandHints, flattened: each `hints = append(hints, lits...)` in execution order with the\n    conjunction of the conditions that guard it (helpers inlined, early `return nil` negated) -/\ndef rules : List HintRule := [\n")
		for i, r := range h.rules {
			fmt.Fprintf(&hb, "  -- %s\n  { guards := [%s], lits := %s }", r.fn, strings.Join(r.guards, ",\n               "), leanStrList(r.lits))
			if i < len(h.rules)-1 {
				hb.WriteString(",")
			}
			hb.WriteString("\n")
		}
		hb.WriteString("]\n\nend Wtf.Gen.Hints\n")
		x.WriteLean("Hints", hb.String())

		// facts for the harness generators
		wordSet := map[string]bool{}
		add := func(t kvTable) {
			for _, k := range t.keys {
				wordSet[k] = true
				for _, v := range t.vals[k] {
					wordSet[v] = true
				}
			}
		}
		add(actions)
		add(targets)
		add(synonyms)
		for _, c := range fromActions {
			for _, l := range c.labels {
				wordSet[l] = true
			}
		}
		for _, c := range fromKeywords {
			for _, l := range c.labels {
				wordSet[l] = true
			}
		}
		if sw, ok := x.out.Facts["stopwords"].([]string); ok {
			for _, w := range sw {
				wordSet[w] = true
			}
		}
		hintWords := h.words
		for _, w := range append(append([]string{ipWord, ipHint}, ipCompanions...), viewSubs...) {
			wordSet[w] = true
		}
		var words, hws []string
		for w := range wordSet {
			if !strings.ContainsAny(w, " ,=") {
				words = append(words, w)
			}
		}
		for w := range hintWords {
			if !wordSet[w] && !strings.ContainsAny(w, " ,=") {
				hws = append(hws, w)
			}
		}
		sort.Strings(words)
		sort.Strings(hws)
		x.Fact("nlp.words", words)
		x.Fact("nlp.hintWords", hws)
		x.Fact("nlp.hintRules", len(h.rules))
		x.Fact("nlp.hintFunctions", h.funcs)
		x.Fact("nlp.reachedFunctions", reached)
		x.Fact("nlp.phrases", withoutSubs)
	})
}
