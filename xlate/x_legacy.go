package main

import (
	"go/ast"
	"go/printer"
	"strings"
)

// Legacy search entry points (C10): result buffers must be sized through resultsBufferCap, whose body
// must have the overflow-safe shape that Model/Legacy0.lean mirrors.
func init() {
	register("e_legacy", func(x *X) {
		fd := x.Func("internal/database", "resultsBufferCap")
		if !x.Assert("legacy:resultsBufferCap", fd != nil, "function resultsBufferCap not found") {
			return
		}
		var sb strings.Builder
		printer.Fprint(&sb, x.Fset, fd.Body)
		body := strings.Join(strings.Fields(sb.String()), " ")
		want := "{ if limit <= 0 || limit > total/constants.ResultsBufferMultiplier { return utils.Max(total, 0) } return limit * constants.ResultsBufferMultiplier }"
		x.Assert("legacy:resultsBufferCap-shape", body == want, "body is %q, expected %q", body, want)
		// every make([]SearchResult, 0, <cap>) in the legacy searches uses it
		for _, fn := range []string{"SearchWithOptions", "SearchWithPipelineOptions"} {
			f := x.Func("internal/database", fn)
			ok := false
			if f != nil {
				ast.Inspect(f.Body, func(n ast.Node) bool {
					if call, isCall := n.(*ast.CallExpr); isCall {
						if id, isID := call.Fun.(*ast.Ident); isID && id.Name == "make" && len(call.Args) == 3 {
							if c, isC := call.Args[2].(*ast.CallExpr); isC {
								if cid, isCID := c.Fun.(*ast.Ident); isCID && cid.Name == "resultsBufferCap" {
									ok = true
								}
							}
						}
					}
					return true
				})
			}
			x.Assert("legacy:"+fn+"-uses-resultsBufferCap", ok, "expected make([]SearchResult, 0, resultsBufferCap(...)) in %s", fn)
		}
	})
}
