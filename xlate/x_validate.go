package main

import (
	"fmt"
	"go/ast"
	"go/token"
	"strconv"
	"strings"
)

// Validate (C14): the facts of internal/validation/validation.go that the model in
// WtfModel/Model/Validate.lean takes from the source instead of from memory:
//
//	maxLimit       the literal of `const maxLimit = N` in ValidateLimit
//	metaChars      the members of the character class handed to regexp.MustCompile in ValidateQuery
//	keptControls   the control characters exempted in the strings.Map callback (`r != '\n' && r != '\t'`)
//
// and two site assertions that tie the generated constants to their use: the length test compares
// len(query) with constants.MaxQueryLength, and limit 0 yields constants.DefaultSearchLimit.
func init() {
	register("validate", func(x *X) {
		const pkg = "internal/validation"
		vq := x.Func(pkg, "ValidateQuery")
		vl := x.Func(pkg, "ValidateLimit")
		if !x.Assert("validate:ValidateQuery", vq != nil && vq.Body != nil, "function ValidateQuery not found") ||
			!x.Assert("validate:ValidateLimit", vl != nil && vl.Body != nil, "function ValidateLimit not found") {
			return
		}
		if vq == nil || vl == nil {
			return
		}
		qname := ""
		if ps := vq.Type.Params.List; len(ps) == 1 && len(ps[0].Names) == 1 {
			qname = ps[0].Names[0].Name
		}
		lname := ""
		if ps := vl.Type.Params.List; len(ps) == 1 && len(ps[0].Names) == 1 {
			lname = ps[0].Names[0].Name
		}
		x.Assert("validate:signatures", qname != "" && lname != "", "expected ValidateQuery(<one string>) and ValidateLimit(<one int>)")

		// ---- maxLimit ------------------------------------------------------------------------
		maxLimit := ""
		nConst := 0
		ast.Inspect(vl.Body, func(n ast.Node) bool {
			gd, ok := n.(*ast.GenDecl)
			if !ok || gd.Tok != token.CONST {
				return true
			}
			for _, sp := range gd.Specs {
				vs := sp.(*ast.ValueSpec)
				for i, nm := range vs.Names {
					if nm.Name == "maxLimit" {
						nConst++
						if i < len(vs.Values) {
							if lit, ok := vs.Values[i].(*ast.BasicLit); ok && lit.Kind == token.INT {
								if v, err := strconv.ParseInt(lit.Value, 0, 64); err == nil {
									maxLimit = strconv.FormatInt(v, 10)
								}
							}
						}
					}
				}
			}
			return true
		})
		okMax := x.Assert("validate:maxLimit", nConst == 1 && maxLimit != "", "expected exactly one `const maxLimit = <int literal>` in ValidateLimit (found %d, value %q)", nConst, maxLimit)

		// limit == 0  =>  return constants.DefaultSearchLimit, nil
		defOK := false
		for _, st := range vl.Body.List {
			is, ok := st.(*ast.IfStmt)
			if !ok {
				continue
			}
			be, ok := is.Cond.(*ast.BinaryExpr)
			if !ok || be.Op != token.EQL || !c14IsIdent(be.X, lname) || !c14IsIntLit(be.Y, "0") {
				continue
			}
			if len(is.Body.List) == 1 {
				if rs, ok := is.Body.List[0].(*ast.ReturnStmt); ok && len(rs.Results) == 2 &&
					c14IsSel(rs.Results[0], "constants", "DefaultSearchLimit") && c14IsIdent(rs.Results[1], "nil") {
					defOK = true
				}
			}
		}
		x.Assert("validate:limit-default-const", defOK, "expected `if %s == 0 { return constants.DefaultSearchLimit, nil }` in ValidateLimit", lname)

		// ---- the length test uses constants.MaxQueryLength ----------------------------------------
		lenOp := ""
		nLen := 0
		ast.Inspect(vq.Body, func(n ast.Node) bool {
			is, ok := n.(*ast.IfStmt)
			if !ok {
				return true
			}
			if be, ok := is.Cond.(*ast.BinaryExpr); ok {
				switch {
				case c14IsLenOf(be.X, qname) && c14IsSel(be.Y, "constants", "MaxQueryLength"):
					nLen++
					lenOp = "len " + be.Op.String() + " max"
				case c14IsLenOf(be.Y, qname) && c14IsSel(be.X, "constants", "MaxQueryLength"):
					nLen++
					lenOp = "max " + be.Op.String() + " len"
				}
			}
			return true
		})
		x.Assert("validate:maxlen-const", nLen == 1, "expected exactly one `if len(%s) <op> constants.MaxQueryLength` in ValidateQuery (found %d)", qname, nLen)

		// ---- metacharacter class ---------------------------------------------------------------
		var pats []string
		ast.Inspect(vq.Body, func(n ast.Node) bool {
			ce, ok := n.(*ast.CallExpr)
			if !ok {
				return true
			}
			if se, ok := ce.Fun.(*ast.SelectorExpr); ok && c14IsIdent(se.X, "regexp") && strings.HasPrefix(se.Sel.Name, "MustCompile") {
				if len(ce.Args) == 1 {
					if lit, ok := ce.Args[0].(*ast.BasicLit); ok && lit.Kind == token.STRING {
						if s, err := strconv.Unquote(lit.Value); err == nil {
							pats = append(pats, s)
							return true
						}
					}
				}
				pats = append(pats, "\x00<not a string literal>")
			}
			return true
		})
		var metas []int
		classOK := len(pats) == 1
		if classOK {
			p := pats[0]
			classOK = len(p) >= 3 && p[0] == '[' && p[len(p)-1] == ']'
			if classOK {
				for i, r := range p[1 : len(p)-1] {
					// a plain class member: printable ASCII that is not special inside [...]
					if r < 0x21 || r > 0x7e || r == '\\' || r == ']' || r == '[' || r == '-' || (r == '^' && i == 0) || r == ':' {
						classOK = false
					}
					metas = append(metas, int(r))
				}
			}
		}
		okClass := x.Assert("validate:metaclass", classOK, "expected exactly one regexp.MustCompile(`[<plain ASCII members>]`) in ValidateQuery, got %q", pats)

		// ---- strings.Map callback: unicode.IsControl(r) && r != c1 && r != c2 ... => -1 ; else r --------
		var kept []int
		mapOK := false
		nMap := 0
		ast.Inspect(vq.Body, func(n ast.Node) bool {
			ce, ok := n.(*ast.CallExpr)
			if !ok {
				return true
			}
			se, ok := ce.Fun.(*ast.SelectorExpr)
			if !ok || !c14IsIdent(se.X, "strings") || se.Sel.Name != "Map" || len(ce.Args) != 2 {
				return true
			}
			nMap++
			fl, ok := ce.Args[0].(*ast.FuncLit)
			if !ok || !c14IsIdent(ce.Args[1], qname) || len(fl.Type.Params.List) != 1 || len(fl.Type.Params.List[0].Names) != 1 {
				return true
			}
			rn := fl.Type.Params.List[0].Names[0].Name
			if len(fl.Body.List) != 2 {
				return true
			}
			is, ok1 := fl.Body.List[0].(*ast.IfStmt)
			ret, ok2 := fl.Body.List[1].(*ast.ReturnStmt)
			if !ok1 || !ok2 || is.Else != nil || is.Init != nil || len(ret.Results) != 1 || !c14IsIdent(ret.Results[0], rn) {
				return true
			}
			// body of the if: return -1
			if len(is.Body.List) != 1 {
				return true
			}
			r1, ok := is.Body.List[0].(*ast.ReturnStmt)
			if !ok || len(r1.Results) != 1 {
				return true
			}
			if ue, ok := r1.Results[0].(*ast.UnaryExpr); !ok || ue.Op != token.SUB || !c14IsIntLit(ue.X, "1") {
				return true
			}
			// condition: flatten the && chain
			var conj []ast.Expr
			var flat func(e ast.Expr)
			flat = func(e ast.Expr) {
				if pe, ok := e.(*ast.ParenExpr); ok {
					flat(pe.X)
					return
				}
				if be, ok := e.(*ast.BinaryExpr); ok && be.Op == token.LAND {
					flat(be.X)
					flat(be.Y)
					return
				}
				conj = append(conj, e)
			}
			flat(is.Cond)
			good := len(conj) >= 1
			seenCtl := 0
			var ks []int
			for _, c := range conj {
				if call, ok := c.(*ast.CallExpr); ok {
					if s2, ok := call.Fun.(*ast.SelectorExpr); ok && c14IsIdent(s2.X, "unicode") && s2.Sel.Name == "IsControl" &&
						len(call.Args) == 1 && c14IsIdent(call.Args[0], rn) {
						seenCtl++
						continue
					}
				}
				if be, ok := c.(*ast.BinaryExpr); ok && be.Op == token.NEQ && c14IsIdent(be.X, rn) {
					if lit, ok := be.Y.(*ast.BasicLit); ok && lit.Kind == token.CHAR {
						if s, err := strconv.Unquote(lit.Value); err == nil {
							rs := []rune(s)
							if len(rs) == 1 {
								ks = append(ks, int(rs[0]))
								continue
							}
						}
					}
				}
				good = false
			}
			if good && seenCtl == 1 {
				mapOK = true
				kept = ks
			}
			return true
		})
		okMap := x.Assert("validate:control-strip", mapOK && nMap == 1,
			"expected exactly one strings.Map(func(r rune) rune { if unicode.IsControl(r) && r != '<c>'... { return -1 }; return r }, %s) in ValidateQuery (found %d strings.Map calls)", qname, nMap)

		if !(okMax && okClass && okMap) {
			return
		}
		var sb strings.Builder
		sb.WriteString("namespace Wtf.Gen.Validate\n\n")
		fmt.Fprintf(&sb, "/-- `const maxLimit` of ValidateLimit -/\ndef maxLimit : Int := %s\n\n", maxLimit)
		fmt.Fprintf(&sb, "/-- members of the character class rejected by ValidateQuery (code points of %s) -/\ndef metaChars : List Nat := %s\n\n", leanStr(pats[0]), c14NatList(metas))
		fmt.Fprintf(&sb, "/-- control characters that the strings.Map callback of ValidateQuery keeps -/\ndef keptControls : List Nat := %s\n\n", c14NatList(kept))
		sb.WriteString("end Wtf.Gen.Validate\n")
		x.WriteLean("Validate", sb.String())
		x.Fact("validate.maxLimit", maxLimit)
		x.Fact("validate.metaChars", metas)
		x.Fact("validate.keptControls", kept)
		x.Fact("validate.lengthTest", lenOp)
	})
}

func c14NatList(xs []int) string {
	s := make([]string, len(xs))
	for i, v := range xs {
		s[i] = strconv.Itoa(v)
	}
	return "[" + strings.Join(s, ", ") + "]"
}

func c14IsIdent(e ast.Expr, name string) bool {
	id, ok := e.(*ast.Ident)
	return ok && name != "" && id.Name == name
}

func c14IsIntLit(e ast.Expr, v string) bool {
	lit, ok := e.(*ast.BasicLit)
	return ok && lit.Kind == token.INT && lit.Value == v
}

func c14IsSel(e ast.Expr, pkg, name string) bool {
	se, ok := e.(*ast.SelectorExpr)
	return ok && c14IsIdent(se.X, pkg) && se.Sel.Name == name
}

func c14IsLenOf(e ast.Expr, name string) bool {
	ce, ok := e.(*ast.CallExpr)
	return ok && c14IsIdent(ce.Fun, "len") && len(ce.Args) == 1 && c14IsIdent(ce.Args[0], name)
}
