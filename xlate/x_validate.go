package main

import (
	"fmt"
	"go/ast"
	"go/token"
	"strconv"
	"strings"
)

// Validate (C14): the facts of internal/validation/validation.go that the model in
// WtfModel/Model/Validate.lean takes from the source instead of from memory:
//
//	maxLimit       the literal of `const maxLimit = N` in ValidateLimit
//	metaChars      the members of the character class handed to regexp.MustCompile in ValidateQuery
//	keptControls   the control characters exempted in the sanitising loop (`r != '\n' && r != '\t'`)
//	invalidRepl    the byte written for a byte that is not valid UTF-8 (`b.WriteByte('?')`)
//
// two site assertions that tie the generated constants to their use (the length test compares len(query) with
// constants.MaxQueryLength, and limit 0 yields constants.DefaultSearchLimit), and the shape of the
// sanitising loop statement by statement (see below): decode at i, invalid byte -> one replacement byte,
// control character -> nothing, anything else -> the ORIGINAL bytes query[i:i+size], advance by size.
func init() {
	register("validate", func(x *X) {
		const pkg = "internal/validation"
		vq := x.Func(pkg, "ValidateQuery")
		vl := x.Func(pkg, "ValidateLimit")
		if !x.Assert("validate:ValidateQuery", vq != nil && vq.Body != nil, "function ValidateQuery not found") ||
			!x.Assert("validate:ValidateLimit", vl != nil && vl.Body != nil, "function ValidateLimit not found") {
			return
		}
		if vq == nil || vl == nil {
			return
		}
		qname := ""
		if ps := vq.Type.Params.List; len(ps) == 1 && len(ps[0].Names) == 1 {
			qname = ps[0].Names[0].Name
		}
		lname := ""
		if ps := vl.Type.Params.List; len(ps) == 1 && len(ps[0].Names) == 1 {
			lname = ps[0].Names[0].Name
		}
		x.Assert("validate:signatures", qname != "" && lname != "", "expected ValidateQuery(<one string>) and ValidateLimit(<one int>)")

		// ---- maxLimit ------------------------------------------------------------------------
		maxLimit := ""
		nConst := 0
		ast.Inspect(vl.Body, func(n ast.Node) bool {
			gd, ok := n.(*ast.GenDecl)
			if !ok || gd.Tok != token.CONST {
				return true
			}
			for _, sp := range gd.Specs {
				vs := sp.(*ast.ValueSpec)
				for i, nm := range vs.Names {
					if nm.Name == "maxLimit" {
						nConst++
						if i < len(vs.Values) {
							if lit, ok := vs.Values[i].(*ast.BasicLit); ok && lit.Kind == token.INT {
								if v, err := strconv.ParseInt(lit.Value, 0, 64); err == nil {
									maxLimit = strconv.FormatInt(v, 10)
								}
							}
						}
					}
				}
			}
			return true
		})
		okMax := x.Assert("validate:maxLimit", nConst == 1 && maxLimit != "", "expected exactly one `const maxLimit = <int literal>` in ValidateLimit (found %d, value %q)", nConst, maxLimit)

		// limit == 0  =>  return constants.DefaultSearchLimit, nil
		defOK := false
		for _, st := range vl.Body.List {
			is, ok := st.(*ast.IfStmt)
			if !ok {
				continue
			}
			be, ok := is.Cond.(*ast.BinaryExpr)
			if !ok || be.Op != token.EQL || !c14IsIdent(be.X, lname) || !c14IsIntLit(be.Y, "0") {
				continue
			}
			if len(is.Body.List) == 1 {
				if rs, ok := is.Body.List[0].(*ast.ReturnStmt); ok && len(rs.Results) == 2 &&
					c14IsSel(rs.Results[0], "constants", "DefaultSearchLimit") && c14IsIdent(rs.Results[1], "nil") {
					defOK = true
				}
			}
		}
		x.Assert("validate:limit-default-const", defOK, "expected `if %s == 0 { return constants.DefaultSearchLimit, nil }` in ValidateLimit", lname)

		// ---- the length test uses constants.MaxQueryLength ----------------------------------------
		lenOp := ""
		nLen := 0
		ast.Inspect(vq.Body, func(n ast.Node) bool {
			is, ok := n.(*ast.IfStmt)
			if !ok {
				return true
			}
			if be, ok := is.Cond.(*ast.BinaryExpr); ok {
				switch {
				case c14IsLenOf(be.X, qname) && c14IsSel(be.Y, "constants", "MaxQueryLength"):
					nLen++
					lenOp = "len " + be.Op.String() + " max"
				case c14IsLenOf(be.Y, qname) && c14IsSel(be.X, "constants", "MaxQueryLength"):
					nLen++
					lenOp = "max " + be.Op.String() + " len"
				}
			}
			return true
		})
		x.Assert("validate:maxlen-const", nLen == 1, "expected exactly one `if len(%s) <op> constants.MaxQueryLength` in ValidateQuery (found %d)", qname, nLen)

		// ---- metacharacter class ---------------------------------------------------------------
		var pats []string
		ast.Inspect(vq.Body, func(n ast.Node) bool {
			ce, ok := n.(*ast.CallExpr)
			if !ok {
				return true
			}
			if se, ok := ce.Fun.(*ast.SelectorExpr); ok && c14IsIdent(se.X, "regexp") && strings.HasPrefix(se.Sel.Name, "MustCompile") {
				if len(ce.Args) == 1 {
					if lit, ok := ce.Args[0].(*ast.BasicLit); ok && lit.Kind == token.STRING {
						if s, err := strconv.Unquote(lit.Value); err == nil {
							pats = append(pats, s)
							return true
						}
					}
				}
				pats = append(pats, "\x00<not a string literal>")
			}
			return true
		})
		var metas []int
		classOK := len(pats) == 1
		if classOK {
			p := pats[0]
			classOK = len(p) >= 3 && p[0] == '[' && p[len(p)-1] == ']'
			if classOK {
				for i, r := range p[1 : len(p)-1] {
					// a plain class member: printable ASCII that is not special inside [...]
					if r < 0x21 || r > 0x7e || r == '\\' || r == ']' || r == '[' || r == '-' || (r == '^' && i == 0) || r == ':' {
						classOK = false
					}
					metas = append(metas, int(r))
				}
			}
		}
		okClass := x.Assert("validate:metaclass", classOK, "expected exactly one regexp.MustCompile(`[<plain ASCII members>]`) in ValidateQuery, got %q", pats)

		// ---- the sanitising loop ------------------------------------------------------------------------
		//	var b strings.Builder
		//	b.Grow(len(query))                                   (optional)
		//	for i := 0; i < len(query); {
		//		r, size := utf8.DecodeRuneInString(query[i:])
		//		switch {
		//		case r == utf8.RuneError && size == 1:  b.WriteByte('<ascii>')            validate:strip-invalid
		//		case unicode.IsControl(r) && r != '<c>' ...:   (nothing)                   validate:control-strip
		//		default:                                b.WriteString(query[i : i+size])   validate:strip-copy
		//		}
		//		i += size
		//	}
		//	cleaned := b.String()                                                       validate:strip-result
		// Every site is a separate assertion; nothing else may touch the builder, and ValidateQuery must not
		// call strings.Map / strings.ToValidUTF8 (which write U+FFFD, three bytes, for an invalid byte).
		var kept []int
		repl := -1
		sl := c14FindStripLoop(vq, qname)
		okLoop := x.Assert("validate:strip-loop", sl.err == "", "sanitising loop of ValidateQuery: %s", sl.err)
		okMap, okInv, okCopy, okRes := false, false, false, false
		if okLoop {
			repl, okInv = c14InvalidCase(sl)
			x.Assert("validate:strip-invalid", okInv,
				"expected first case `%s == utf8.RuneError && %s == 1:` with body exactly `%s.WriteByte('<printable ASCII>')` in the sanitising loop of ValidateQuery", sl.r, sl.size, sl.b)
			kept, okMap = c14ControlCase(sl)
			x.Assert("validate:control-strip", okMap,
				"expected second case `unicode.IsControl(%s) && %s != '<c>'...:` with an empty body in the sanitising loop of ValidateQuery", sl.r, sl.r)
			okCopy = c14CopyCase(sl, qname)
			x.Assert("validate:strip-copy", okCopy,
				"expected `default:` with body exactly `%s.WriteString(%s[%s : %s+%s])` (the rune's own bytes, not string(%s) / WriteRune(%s)) in the sanitising loop of ValidateQuery",
				sl.b, qname, sl.i, sl.i, sl.size, sl.r, sl.r)
			msg := c14BuilderUse(vq, sl)
			okRes = msg == ""
			x.Assert("validate:strip-result", okRes, "builder of the sanitising loop of ValidateQuery: %s", msg)
		} else {
			for _, site := range []string{"validate:strip-invalid", "validate:control-strip", "validate:strip-copy", "validate:strip-result"} {
				x.Assert(site, false, "sanitising loop of ValidateQuery not recognised (%s)", sl.err)
			}
		}
		okMap = okLoop && okMap && okInv && okCopy && okRes

		if !(okMax && okClass && okMap) {
			return
		}
		var sb strings.Builder
		sb.WriteString("namespace Wtf.Gen.Validate\n\n")
		fmt.Fprintf(&sb, "/-- `const maxLimit` of ValidateLimit -/\ndef maxLimit : Int := %s\n\n", maxLimit)
		fmt.Fprintf(&sb, "/-- members of the character class rejected by ValidateQuery (code points of %s) -/\ndef metaChars : List Nat := %s\n\n", leanStr(pats[0]), c14NatList(metas))
		fmt.Fprintf(&sb, "/-- control characters that the sanitising loop of ValidateQuery keeps -/\ndef keptControls : List Nat := %s\n\n", c14NatList(kept))
		fmt.Fprintf(&sb, "/-- the byte that the sanitising loop of ValidateQuery writes for a byte that is not valid UTF-8 (%s) -/\ndef invalidRepl : Nat := %d\n\n", leanStr(strconv.QuoteRune(rune(repl))), repl)
		sb.WriteString("end Wtf.Gen.Validate\n")
		x.WriteLean("Validate", sb.String())
		x.Fact("validate.maxLimit", maxLimit)
		x.Fact("validate.metaChars", metas)
		x.Fact("validate.keptControls", kept)
		x.Fact("validate.invalidRepl", repl)
		x.Fact("validate.lengthTest", lenOp)
	})
}

// c14StripLoop: the parts of the sanitising loop of ValidateQuery once its frame has been recognised.
type c14StripLoop struct {
	err           string
	b, i, r, size string // builder, index, rune and width variables
	cleaned       string // variable that receives b.String()
	declIdx       int    // index in the function body of `var b strings.Builder`
	forIdx        int    // index in the function body of the for statement
	grow          bool   // b.Grow(len(query)) present between the two
	clauses       []*ast.CaseClause
}

func c14CallOn(e ast.Expr, recv, method string, nargs int) *ast.CallExpr {
	ce, ok := e.(*ast.CallExpr)
	if !ok || len(ce.Args) != nargs || ce.Ellipsis != token.NoPos {
		return nil
	}
	se, ok := ce.Fun.(*ast.SelectorExpr)
	if !ok || !c14IsIdent(se.X, recv) || se.Sel.Name != method {
		return nil
	}
	return ce
}

// frame: `for i := 0; i < len(q); { r, size := utf8.DecodeRuneInString(q[i:]); switch {3 clauses}; i += size }`, preceded by
// `var b strings.Builder` (optionally `b.Grow(len(q))`) and followed directly by `cleaned := b.String()`, all at the top
// level of the function body.
func c14FindStripLoop(fn *ast.FuncDecl, q string) (sl c14StripLoop) {
	sl.forIdx = -1
	nFor := 0
	ast.Inspect(fn.Body, func(n ast.Node) bool {
		if _, ok := n.(*ast.ForStmt); ok { // (the `range` loops of the error message do not touch the text)
			nFor++
		}
		return true
	})
	for k, st := range fn.Body.List {
		if _, ok := st.(*ast.ForStmt); ok && sl.forIdx < 0 {
			sl.forIdx = k
		}
	}
	nBad := 0
	ast.Inspect(fn.Body, func(n ast.Node) bool {
		if se, ok := n.(*ast.SelectorExpr); ok && c14IsIdent(se.X, "strings") {
			switch se.Sel.Name {
			case "Map", "ToValidUTF8", "Trim", "TrimFunc", "Replace", "ReplaceAll", "NewReplacer":
				nBad++
			}
		}
		return true
	})
	if nBad != 0 {
		sl.err = fmt.Sprintf("ValidateQuery calls strings.Map / ToValidUTF8 / Trim / Replace… (%d uses); the model knows only TrimSpace, Fields, Join", nBad)
		return
	}
	if sl.forIdx < 0 || nFor != 1 {
		sl.err = fmt.Sprintf("expected exactly one three-clause `for` loop, at the top level of ValidateQuery (found %d)", nFor)
		return
	}
	fs := fn.Body.List[sl.forIdx].(*ast.ForStmt)
	// for i := 0; i < len(q); {
	as, ok := fs.Init.(*ast.AssignStmt)
	if !ok || as.Tok != token.DEFINE || len(as.Lhs) != 1 || len(as.Rhs) != 1 || !c14IsIntLit(as.Rhs[0], "0") {
		sl.err = "loop header is not `for i := 0; i < len(" + q + "); {`"
		return
	}
	id, ok := as.Lhs[0].(*ast.Ident)
	if !ok {
		sl.err = "loop variable is not an identifier"
		return
	}
	sl.i = id.Name
	be, ok := fs.Cond.(*ast.BinaryExpr)
	if !ok || be.Op != token.LSS || !c14IsIdent(be.X, sl.i) || !c14IsLenOf(be.Y, q) || fs.Post != nil {
		sl.err = "loop header is not `for " + sl.i + " := 0; " + sl.i + " < len(" + q + "); {` (no post statement)"
		return
	}
	if len(fs.Body.List) != 3 {
		sl.err = fmt.Sprintf("loop body has %d statements, expected 3 (decode; switch; advance)", len(fs.Body.List))
		return
	}
	// r, size := utf8.DecodeRuneInString(q[i:])
	d, ok := fs.Body.List[0].(*ast.AssignStmt)
	if !ok || d.Tok != token.DEFINE || len(d.Lhs) != 2 || len(d.Rhs) != 1 {
		sl.err = "first statement of the loop is not `r, size := utf8.DecodeRuneInString(" + q + "[" + sl.i + ":])`"
		return
	}
	rid, ok1 := d.Lhs[0].(*ast.Ident)
	sid, ok2 := d.Lhs[1].(*ast.Ident)
	ce := c14CallOn(d.Rhs[0], "utf8", "DecodeRuneInString", 1)
	if !ok1 || !ok2 || ce == nil || rid.Name == "_" || sid.Name == "_" || rid.Name == sid.Name {
		sl.err = "first statement of the loop is not `r, size := utf8.DecodeRuneInString(" + q + "[" + sl.i + ":])`"
		return
	}
	sl.r, sl.size = rid.Name, sid.Name
	se, ok := ce.Args[0].(*ast.SliceExpr)
	if !ok || !c14IsIdent(se.X, q) || !c14IsIdent(se.Low, sl.i) || se.High != nil || se.Max != nil || se.Slice3 {
		sl.err = "the loop does not decode at the current position: expected utf8.DecodeRuneInString(" + q + "[" + sl.i + ":])"
		return
	}
	// switch { … }
	sw, ok := fs.Body.List[1].(*ast.SwitchStmt)
	if !ok || sw.Init != nil || sw.Tag != nil || len(sw.Body.List) != 3 {
		sl.err = "second statement of the loop is not a tagless `switch` with exactly three clauses"
		return
	}
	for _, c := range sw.Body.List {
		sl.clauses = append(sl.clauses, c.(*ast.CaseClause))
	}
	// i += size
	adv, ok := fs.Body.List[2].(*ast.AssignStmt)
	if !ok || adv.Tok != token.ADD_ASSIGN || len(adv.Lhs) != 1 || len(adv.Rhs) != 1 || !c14IsIdent(adv.Lhs[0], sl.i) || !c14IsIdent(adv.Rhs[0], sl.size) {
		sl.err = "last statement of the loop is not `" + sl.i + " += " + sl.size + "` (advance by the width of the decoded rune)"
		return
	}
	// cleaned := b.String() directly after the loop
	if sl.forIdx+1 >= len(fn.Body.List) {
		sl.err = "nothing follows the loop"
		return
	}
	res, ok := fn.Body.List[sl.forIdx+1].(*ast.AssignStmt)
	if !ok || res.Tok != token.DEFINE || len(res.Lhs) != 1 || len(res.Rhs) != 1 {
		sl.err = "the statement after the loop is not `cleaned := <builder>.String()`"
		return
	}
	cid, ok := res.Lhs[0].(*ast.Ident)
	rc, ok2 := res.Rhs[0].(*ast.CallExpr)
	if !ok || !ok2 || len(rc.Args) != 0 {
		sl.err = "the statement after the loop is not `cleaned := <builder>.String()`"
		return
	}
	rse, ok := rc.Fun.(*ast.SelectorExpr)
	bid, ok2 := func() (*ast.Ident, bool) {
		if !ok {
			return nil, false
		}
		b, ok := rse.X.(*ast.Ident)
		return b, ok
	}()
	if !ok || !ok2 || rse.Sel.Name != "String" {
		sl.err = "the statement after the loop is not `cleaned := <builder>.String()`"
		return
	}
	sl.cleaned, sl.b = cid.Name, bid.Name
	// var b strings.Builder [; b.Grow(len(q))] directly before the loop
	k := sl.forIdx - 1
	if k >= 0 {
		if es, ok := fn.Body.List[k].(*ast.ExprStmt); ok {
			if g := c14CallOn(es.X, sl.b, "Grow", 1); g != nil && c14IsLenOf(g.Args[0], q) {
				sl.grow = true
				k--
			}
		}
	}
	declOK := false
	if k >= 0 {
		if ds, ok := fn.Body.List[k].(*ast.DeclStmt); ok {
			if gd, ok := ds.Decl.(*ast.GenDecl); ok && gd.Tok == token.VAR && len(gd.Specs) == 1 {
				vs := gd.Specs[0].(*ast.ValueSpec)
				if len(vs.Names) == 1 && vs.Names[0].Name == sl.b && len(vs.Values) == 0 && c14IsSel(vs.Type, "strings", "Builder") {
					declOK = true
					sl.declIdx = k
				}
			}
		}
	}
	if !declOK {
		sl.err = "expected `var " + sl.b + " strings.Builder` (optionally followed by `" + sl.b + ".Grow(len(" + q + "))`) directly before the loop"
		return
	}
	names := map[string]bool{sl.b: true, sl.i: true, sl.r: true, sl.size: true, q: true, sl.cleaned: true}
	if len(names) != 6 {
		sl.err = "the variables of the loop are not six different names"
	}
	return
}

// flatten an && chain
func c14Conj(e ast.Expr) []ast.Expr {
	if pe, ok := e.(*ast.ParenExpr); ok {
		return c14Conj(pe.X)
	}
	if be, ok := e.(*ast.BinaryExpr); ok && be.Op == token.LAND {
		return append(c14Conj(be.X), c14Conj(be.Y)...)
	}
	return []ast.Expr{e}
}

// case r == utf8.RuneError && size == 1:  b.WriteByte('?')
func c14InvalidCase(sl c14StripLoop) (int, bool) {
	c := sl.clauses[0]
	if len(c.List) != 1 || len(c.Body) != 1 {
		return -1, false
	}
	conj := c14Conj(c.List[0])
	if len(conj) != 2 {
		return -1, false
	}
	seenR, seenS := 0, 0
	for _, e := range conj {
		be, ok := e.(*ast.BinaryExpr)
		if !ok || be.Op != token.EQL {
			return -1, false
		}
		switch {
		case c14IsIdent(be.X, sl.r) && c14IsSel(be.Y, "utf8", "RuneError"):
			seenR++
		case c14IsIdent(be.X, sl.size) && c14IsIntLit(be.Y, "1"):
			seenS++
		default:
			return -1, false
		}
	}
	if seenR != 1 || seenS != 1 {
		return -1, false
	}
	es, ok := c.Body[0].(*ast.ExprStmt)
	if !ok {
		return -1, false
	}
	ce := c14CallOn(es.X, sl.b, "WriteByte", 1)
	if ce == nil {
		return -1, false
	}
	lit, ok := ce.Args[0].(*ast.BasicLit)
	if !ok || lit.Kind != token.CHAR {
		return -1, false
	}
	s, err := strconv.Unquote(lit.Value)
	if err != nil {
		return -1, false
	}
	rs := []rune(s)
	if len(rs) != 1 || rs[0] < 0x21 || rs[0] > 0x7e { // one printable ASCII byte; what else it must not be is a theorem (gen_facts_ok)
		return -1, false
	}
	return int(rs[0]), true
}

// case unicode.IsControl(r) && r != '\n' && r != '\t':  (nothing)
func c14ControlCase(sl c14StripLoop) ([]int, bool) {
	c := sl.clauses[1]
	if len(c.List) != 1 || len(c.Body) != 0 {
		return nil, false
	}
	seenCtl := 0
	var ks []int
	for _, e := range c14Conj(c.List[0]) {
		if call := c14CallOn(e, "unicode", "IsControl", 1); call != nil && c14IsIdent(call.Args[0], sl.r) {
			seenCtl++
			continue
		}
		if be, ok := e.(*ast.BinaryExpr); ok && be.Op == token.NEQ && c14IsIdent(be.X, sl.r) {
			if lit, ok := be.Y.(*ast.BasicLit); ok && lit.Kind == token.CHAR {
				if s, err := strconv.Unquote(lit.Value); err == nil {
					if rs := []rune(s); len(rs) == 1 {
						ks = append(ks, int(rs[0]))
						continue
					}
				}
			}
		}
		return nil, false
	}
	return ks, seenCtl == 1
}

// default:  b.WriteString(q[i : i+size])
func c14CopyCase(sl c14StripLoop, q string) bool {
	c := sl.clauses[2]
	if c.List != nil || len(c.Body) != 1 {
		return false
	}
	es, ok := c.Body[0].(*ast.ExprStmt)
	if !ok {
		return false
	}
	ce := c14CallOn(es.X, sl.b, "WriteString", 1)
	if ce == nil {
		return false
	}
	se, ok := ce.Args[0].(*ast.SliceExpr)
	if !ok || !c14IsIdent(se.X, q) || !c14IsIdent(se.Low, sl.i) || se.Max != nil || se.Slice3 {
		return false
	}
	hi, ok := se.High.(*ast.BinaryExpr)
	return ok && hi.Op == token.ADD && c14IsIdent(hi.X, sl.i) && c14IsIdent(hi.Y, sl.size)
}

// The builder is used only by its declaration, Grow, the two writes of the loop and String(); the query, the index,
// the rune and the width are not assigned anywhere else; `cleaned` is what the rest of the function works on.
func c14BuilderUse(fn *ast.FuncDecl, sl c14StripLoop) string {
	count := func(name string) int {
		n := 0
		ast.Inspect(fn.Body, func(nd ast.Node) bool {
			if id, ok := nd.(*ast.Ident); ok && id.Name == name {
				n++
			}
			return true
		})
		return n
	}
	wantB := 4 // decl, WriteByte, WriteString, String
	if sl.grow {
		wantB++
	}
	if n := count(sl.b); n != wantB {
		return fmt.Sprintf("`%s` occurs %d times in ValidateQuery, expected %d (declaration, Grow, WriteByte, WriteString, String)", sl.b, n, wantB)
	}
	if n := count(sl.i); n != 6 { // init, cond, q[i:], q[i : i+size] twice, i += size
		return fmt.Sprintf("`%s` occurs %d times, expected 6", sl.i, n)
	}
	if n := count(sl.size); n != 4 { // define, size == 1, i+size, i += size
		return fmt.Sprintf("`%s` occurs %d times, expected 4", sl.size, n)
	}
	// assignments to the query parameter or a second definition of cleaned would detach the model's data flow
	bad := ""
	qn := ""
	if ps := fn.Type.Params.List; len(ps) == 1 && len(ps[0].Names) == 1 {
		qn = ps[0].Names[0].Name
	}
	ast.Inspect(fn.Body, func(nd ast.Node) bool {
		switch s := nd.(type) {
		case *ast.AssignStmt:
			for _, l := range s.Lhs {
				if c14IsIdent(l, qn) {
					bad = "the query parameter is assigned to"
				}
				if c14IsIdent(l, sl.cleaned) && s.Tok == token.DEFINE && s.Pos() != fn.Body.List[sl.forIdx+1].Pos() {
					bad = "`" + sl.cleaned + "` is defined a second time"
				}
			}
		case *ast.IncDecStmt:
			if c14IsIdent(s.X, sl.i) {
				bad = "the index is incremented outside `" + sl.i + " += " + sl.size + "`"
			}
		}
		return true
	})
	return bad
}

func c14NatList(xs []int) string {
	s := make([]string, len(xs))
	for i, v := range xs {
		s[i] = strconv.Itoa(v)
	}
	return "[" + strings.Join(s, ", ") + "]"
}

func c14IsIdent(e ast.Expr, name string) bool {
	id, ok := e.(*ast.Ident)
	return ok && name != "" && id.Name == name
}

func c14IsIntLit(e ast.Expr, v string) bool {
	lit, ok := e.(*ast.BasicLit)
	return ok && lit.Kind == token.INT && lit.Value == v
}

func c14IsSel(e ast.Expr, pkg, name string) bool {
	se, ok := e.(*ast.SelectorExpr)
	return ok && c14IsIdent(se.X, pkg) && se.Sel.Name == name
}

func c14IsLenOf(e ast.Expr, name string) bool {
	ce, ok := e.(*ast.CallExpr)
	return ok && c14IsIdent(ce.Fun, "len") && len(ce.Args) == 1 && c14IsIdent(ce.Args[0], name)
}
