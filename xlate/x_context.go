package main

import (
	"fmt"
	"go/ast"
	"go/token"
	"strings"
)

// Context (C13): the project-type detector of internal/context/analyzer.go.
//
//   Gen/Context.lean:
//     typeNames      every ProjectType constant's value
//     genericType    the value of ProjectTypeGeneric (finalizeContext's fallback)
//     rules          for every statement of every check* function, in the order analyzeFile applies them:
//                    the `if … else if …` chain / `switch filename` as a list of branches
//                    (condition tree over the file name, appended ProjectType, reads package.json / Makefile)
//     projectBoosts  the projectBoosts map literal, exact rationals
//     scriptBoost / targetBoost   the literals GetContextBoosts stores for scripts / make targets
//
// Shapes are asserted: a statement or condition form this recogniser does not know makes the
// assertion of that site fail (the check then reports the broken tie instead of silently trusting a
// stale table).

type ctxBranch struct {
	cond      string // Lean term of type Wtf.NameCond
	ptype     string
	readsPkg  bool
	readsMake bool
}

// ctxLits collects every literal the marker rules test a file name against: (kind, literal).
var ctxLits [][2]string

func isIdent(e ast.Expr, name string) bool {
	id, ok := e.(*ast.Ident)
	return ok && id.Name == name
}

func isSel(e ast.Expr, x, sel string) bool {
	se, ok := e.(*ast.SelectorExpr)
	return ok && isIdent(se.X, x) && se.Sel.Name == sel
}

// ctxCond translates a condition over `filename`.
func ctxCond(e ast.Expr) (string, bool) {
	switch t := e.(type) {
	case *ast.ParenExpr:
		return ctxCond(t.X)
	case *ast.BinaryExpr:
		switch t.Op {
		case token.LOR, token.LAND:
			a, ok1 := ctxCond(t.X)
			b, ok2 := ctxCond(t.Y)
			if !ok1 || !ok2 {
				return "", false
			}
			op := ".or"
			if t.Op == token.LAND {
				op = ".and"
			}
			return fmt.Sprintf("(%s %s %s)", op, a, b), true
		case token.EQL:
			if isIdent(t.X, "filename") {
				if s, ok := strLit(t.Y); ok {
					ctxLits = append(ctxLits, [2]string{"eq", s})
					return "(.eq " + leanStr(s) + ")", true
				}
			}
		}
	case *ast.CallExpr:
		if se, ok := t.Fun.(*ast.SelectorExpr); ok && isIdent(se.X, "strings") && len(t.Args) == 2 && isIdent(t.Args[0], "filename") {
			if s, ok := strLit(t.Args[1]); ok {
				switch se.Sel.Name {
				case "HasSuffix":
					ctxLits = append(ctxLits, [2]string{"suffix", s})
					return "(.suffix " + leanStr(s) + ")", true
				case "Contains":
					ctxLits = append(ctxLits, [2]string{"contains", s})
					return "(.contains " + leanStr(s) + ")", true
				}
			}
		}
	}
	return "", false
}

// ctxBody translates the body of one branch: exactly one append of a ProjectType constant, plus
// statements that do not touch ProjectTypes (flags, language, build system, the two file readers).
func ctxBody(stmts []ast.Stmt, consts map[string]string) (ctxBranch, string) {
	var b ctxBranch
	appends := 0
	for _, st := range stmts {
		switch s := st.(type) {
		case *ast.AssignStmt:
			if len(s.Lhs) != 1 || len(s.Rhs) != 1 || s.Tok != token.ASSIGN {
				return b, "unsupported assignment"
			}
			lhs, ok := s.Lhs[0].(*ast.SelectorExpr)
			if !ok || !isIdent(lhs.X, "ctx") {
				return b, "assignment to something other than a ctx field"
			}
			switch lhs.Sel.Name {
			case "ProjectTypes":
				call, ok := s.Rhs[0].(*ast.CallExpr)
				if !ok || !isIdent(call.Fun, "append") || len(call.Args) != 2 || !isSel(call.Args[0], "ctx", "ProjectTypes") {
					return b, "ctx.ProjectTypes assigned something other than append(ctx.ProjectTypes, <const>)"
				}
				id, ok := call.Args[1].(*ast.Ident)
				if !ok {
					return b, "appended project type is not a constant"
				}
				v, ok := consts[id.Name]
				if !ok {
					return b, "unknown ProjectType constant " + id.Name
				}
				b.ptype = v
				appends++
			case "HasGit", "HasDocker", "BuildSystem", "Language":
				// does not influence ProjectTypes / boosts
			default:
				return b, "assignment to ctx." + lhs.Sel.Name
			}
		case *ast.ExprStmt:
			call, ok := s.X.(*ast.CallExpr)
			if !ok {
				return b, "unsupported expression statement"
			}
			se, ok := call.Fun.(*ast.SelectorExpr)
			if !ok || !isIdent(se.X, "a") {
				return b, "call of something other than a method of the analyzer"
			}
			joinOK := func() bool {
				if len(call.Args) != 2 || !isIdent(call.Args[1], "ctx") {
					return false
				}
				j, ok := call.Args[0].(*ast.CallExpr)
				return ok && isSel(j.Fun, "filepath", "Join") && len(j.Args) == 2 && isIdent(j.Args[0], "dir") && isIdent(j.Args[1], "filename")
			}
			switch se.Sel.Name {
			case "setLanguageIfEmpty":
			case "extractPackageScripts":
				if !joinOK() {
					return b, "extractPackageScripts not called on filepath.Join(dir, filename)"
				}
				b.readsPkg = true
			case "extractMakeTargets":
				if !joinOK() {
					return b, "extractMakeTargets not called on filepath.Join(dir, filename)"
				}
				b.readsMake = true
			default:
				return b, "call of a." + se.Sel.Name
			}
		default:
			return b, fmt.Sprintf("unsupported statement %T", st)
		}
	}
	if appends != 1 {
		return b, fmt.Sprintf("%d appends to ctx.ProjectTypes in one branch (expected exactly 1)", appends)
	}
	return b, ""
}

func init() {
	register("d_context", func(x *X) {
		const pkg = "internal/context"
		// ProjectType constants
		consts := map[string]string{}
		var constOrder []string
		for _, f := range x.Pkg(pkg) {
			for _, d := range f.Decls {
				gd, ok := d.(*ast.GenDecl)
				if !ok || gd.Tok != token.CONST {
					continue
				}
				for _, sp := range gd.Specs {
					vs := sp.(*ast.ValueSpec)
					if id, ok := vs.Type.(*ast.Ident); !ok || id.Name != "ProjectType" {
						continue
					}
					for i, n := range vs.Names {
						if i < len(vs.Values) {
							if s, ok := strLit(vs.Values[i]); ok {
								consts[n.Name] = s
								constOrder = append(constOrder, n.Name)
							}
						}
					}
				}
			}
		}
		generic, okG := consts["ProjectTypeGeneric"]
		if !x.Assert("context:ProjectType-constants", len(consts) > 0 && okG, "typed string constants `ProjectTypeX ProjectType = \"…\"` incl. ProjectTypeGeneric not found") {
			return
		}
		// distinct values (the model identifies a type with its string)
		seenV := map[string]bool{}
		distinct := true
		for _, v := range consts {
			if seenV[v] {
				distinct = false
			}
			seenV[v] = true
		}
		x.Assert("context:ProjectType-distinct", distinct, "two ProjectType constants share a value")

		// analyzeFile: a sequence of a.checkX(filename, [dir,] ctx)
		af := x.Func(pkg, "analyzeFile")
		if !x.Assert("context:analyzeFile", af != nil, "analyzeFile not found") {
			return
		}
		var checks []string
		okAF := true
		for _, st := range af.Body.List {
			es, ok := st.(*ast.ExprStmt)
			if !ok {
				okAF = false
				continue
			}
			call, ok := es.X.(*ast.CallExpr)
			if !ok {
				okAF = false
				continue
			}
			se, ok := call.Fun.(*ast.SelectorExpr)
			if !ok || !isIdent(se.X, "a") || !strings.HasPrefix(se.Sel.Name, "check") || len(call.Args) < 2 ||
				!isIdent(call.Args[0], "filename") || !isIdent(call.Args[len(call.Args)-1], "ctx") {
				okAF = false
				continue
			}
			checks = append(checks, se.Sel.Name)
		}
		x.Assert("context:analyzeFile-shape", okAF && len(checks) > 0, "expected analyzeFile to be a sequence of a.check*(filename, [dir,] ctx) calls")

		// every check* function: statements are if-chains or switches on filename
		ctxLits = nil
		var rules [][]ctxBranch
		shapeOK := true
		var shapeMsg []string
		fail := func(fn, msg string) {
			shapeOK = false
			shapeMsg = append(shapeMsg, fn+": "+msg)
		}
		for _, cn := range checks {
			fd := x.Func(pkg, cn)
			if fd == nil {
				fail(cn, "function not found")
				continue
			}
			for _, st := range fd.Body.List {
				var rule []ctxBranch
				switch s := st.(type) {
				case *ast.IfStmt:
					for cur := s; cur != nil; {
						if cur.Init != nil {
							fail(cn, "if with init statement")
						}
						c, ok := ctxCond(cur.Cond)
						if !ok {
							fail(cn, "unrecognised condition shape")
						}
						b, msg := ctxBody(cur.Body.List, consts)
						if msg != "" {
							fail(cn, msg)
						}
						b.cond = c
						rule = append(rule, b)
						switch e := cur.Else.(type) {
						case nil:
							cur = nil
						case *ast.IfStmt:
							cur = e
						default:
							fail(cn, "plain else block")
							cur = nil
						}
					}
				case *ast.SwitchStmt:
					if s.Init != nil || !isIdent(s.Tag, "filename") {
						fail(cn, "switch not on filename")
					}
					for _, c := range s.Body.List {
						cc := c.(*ast.CaseClause)
						if len(cc.List) == 0 {
							fail(cn, "default clause")
							continue
						}
						cond := ""
						for i, e := range cc.List {
							lit, ok := strLit(e)
							if !ok {
								fail(cn, "case expression is not a string literal")
								continue
							}
							ctxLits = append(ctxLits, [2]string{"eq", lit})
							t := "(.eq " + leanStr(lit) + ")"
							if i == 0 {
								cond = t
							} else {
								cond = "(.or " + cond + " " + t + ")"
							}
						}
						for _, bs := range cc.Body {
							if br, ok := bs.(*ast.BranchStmt); ok && br.Tok == token.FALLTHROUGH {
								fail(cn, "fallthrough")
							}
						}
						b, msg := ctxBody(cc.Body, consts)
						if msg != "" {
							fail(cn, msg)
						}
						b.cond = cond
						rule = append(rule, b)
					}
				default:
					fail(cn, fmt.Sprintf("unsupported statement %T", st))
				}
				if len(rule) > 0 {
					rules = append(rules, rule)
				}
			}
		}
		x.Assert("context:check-shapes", shapeOK && len(rules) > 0, "%s", strings.Join(shapeMsg, "; "))

		// projectBoosts map literal
		type kv struct{ k, q string }
		var boosts []struct {
			t  string
			kv []kv
		}
		boostsOK := false
		dupKey := false
		for _, f := range x.Pkg(pkg) {
			for _, d := range f.Decls {
				gd, ok := d.(*ast.GenDecl)
				if !ok || gd.Tok != token.VAR {
					continue
				}
				for _, sp := range gd.Specs {
					vs := sp.(*ast.ValueSpec)
					if len(vs.Names) != 1 || vs.Names[0].Name != "projectBoosts" || len(vs.Values) != 1 {
						continue
					}
					cl, ok := vs.Values[0].(*ast.CompositeLit)
					if !ok {
						continue
					}
					boostsOK = true
					outer := map[string]bool{}
					for _, e := range cl.Elts {
						okv, ok := e.(*ast.KeyValueExpr)
						if !ok {
							boostsOK = false
							continue
						}
						id, ok := okv.Key.(*ast.Ident)
						tv, known := "", false
						if ok {
							tv, known = consts[id.Name]
						}
						inner, ok2 := okv.Value.(*ast.CompositeLit)
						if !known || !ok2 {
							boostsOK = false
							continue
						}
						if outer[tv] {
							dupKey = true
						}
						outer[tv] = true
						ent := struct {
							t  string
							kv []kv
						}{t: tv}
						seen := map[string]bool{}
						for _, ie := range inner.Elts {
							ikv, ok := ie.(*ast.KeyValueExpr)
							if !ok {
								boostsOK = false
								continue
							}
							k, ok1 := strLit(ikv.Key)
							q, ok2 := numLitQ(ikv.Value)
							if !ok1 || !ok2 {
								boostsOK = false
								continue
							}
							if seen[k] {
								dupKey = true
							}
							seen[k] = true
							ent.kv = append(ent.kv, kv{k, q})
						}
						boosts = append(boosts, ent)
					}
				}
			}
		}
		x.Assert("context:projectBoosts-literal", boostsOK && len(boosts) > 0 && !dupKey,
			"expected `var projectBoosts = map[ProjectType]map[string]float64{ProjectTypeX: {\"word\": <number>, …}, …}` without duplicate keys")

		// GetContextBoosts: three range loops (types -> table copy, scripts -> literal, targets -> literal)
		scriptQ, targetQ := "", ""
		gcbOK := false
		if fd := x.Func(pkg, "GetContextBoosts"); fd != nil {
			var ranges []*ast.RangeStmt
			for _, st := range fd.Body.List {
				if rs, ok := st.(*ast.RangeStmt); ok {
					ranges = append(ranges, rs)
				}
			}
			litAssign := func(rs *ast.RangeStmt) (string, bool) {
				if len(rs.Body.List) != 1 {
					return "", false
				}
				as, ok := rs.Body.List[0].(*ast.AssignStmt)
				if !ok || len(as.Lhs) != 1 || len(as.Rhs) != 1 || as.Tok != token.ASSIGN {
					return "", false
				}
				ix, ok := as.Lhs[0].(*ast.IndexExpr)
				if !ok || !isIdent(ix.X, "boosts") {
					return "", false
				}
				kid, ok := ix.Index.(*ast.Ident)
				if !ok {
					return "", false
				}
				// the index must be the loop variable that walks the keys (map) / elements (slice)
				walker := rs.Key
				if rs.Value != nil {
					walker = rs.Value
				}
				if w, ok := walker.(*ast.Ident); !ok || w.Name != kid.Name {
					return "", false
				}
				return numLitQ(as.Rhs[0])
			}
			if len(ranges) == 3 && isSel(ranges[0].X, "ctx", "ProjectTypes") && isSel(ranges[1].X, "ctx", "PackageScripts") &&
				isSel(ranges[2].X, "ctx", "MakeTargets") {
				// first loop: if m, ok := projectBoosts[t]; ok { for k, v := range m { boosts[k] = v } }
				first := false
				if len(ranges[0].Body.List) == 1 {
					if is, ok := ranges[0].Body.List[0].(*ast.IfStmt); ok && is.Else == nil && len(is.Body.List) == 1 {
						if as, ok := is.Init.(*ast.AssignStmt); ok && len(as.Rhs) == 1 {
							if ix, ok := as.Rhs[0].(*ast.IndexExpr); ok && isIdent(ix.X, "projectBoosts") {
								if tv, ok := ranges[0].Value.(*ast.Ident); ok && isIdent(ix.Index, tv.Name) {
									if inner, ok := is.Body.List[0].(*ast.RangeStmt); ok && len(inner.Body.List) == 1 {
										if ias, ok := inner.Body.List[0].(*ast.AssignStmt); ok && len(ias.Lhs) == 1 && len(ias.Rhs) == 1 {
											if iix, ok := ias.Lhs[0].(*ast.IndexExpr); ok && isIdent(iix.X, "boosts") {
												k, ok1 := inner.Key.(*ast.Ident)
												v, ok2 := inner.Value.(*ast.Ident)
												if ok1 && ok2 && isIdent(iix.Index, k.Name) && isIdent(ias.Rhs[0], v.Name) {
													first = true
												}
											}
										}
									}
								}
							}
						}
					}
				}
				q1, ok1 := litAssign(ranges[1])
				q2, ok2 := litAssign(ranges[2])
				if first && ok1 && ok2 {
					gcbOK, scriptQ, targetQ = true, q1, q2
				}
			}
		}
		x.Assert("context:GetContextBoosts-shape", gcbOK,
			"expected three loops: types -> copy of projectBoosts[t], PackageScripts -> boosts[s] = <lit>, MakeTargets -> boosts[t] = <lit>")

		// finalizeContext: dedup, then generic iff empty
		finOK := false
		if fd := x.Func(pkg, "finalizeContext"); fd != nil && len(fd.Body.List) == 2 {
			a1, ok1 := fd.Body.List[0].(*ast.AssignStmt)
			i2, ok2 := fd.Body.List[1].(*ast.IfStmt)
			if ok1 && ok2 && len(a1.Lhs) == 1 && len(a1.Rhs) == 1 && isSel(a1.Lhs[0], "ctx", "ProjectTypes") && i2.Else == nil && i2.Init == nil {
				c1 := false
				if call, ok := a1.Rhs[0].(*ast.CallExpr); ok && isIdent(call.Fun, "removeDuplicateProjectTypes") && len(call.Args) == 1 && isSel(call.Args[0], "ctx", "ProjectTypes") {
					c1 = true
				}
				c2 := false
				if be, ok := i2.Cond.(*ast.BinaryExpr); ok && be.Op == token.EQL {
					if call, ok := be.X.(*ast.CallExpr); ok && isIdent(call.Fun, "len") && len(call.Args) == 1 && isSel(call.Args[0], "ctx", "ProjectTypes") {
						if lit, ok := be.Y.(*ast.BasicLit); ok && lit.Value == "0" {
							c2 = true
						}
					}
				}
				c3 := false
				if len(i2.Body.List) == 1 {
					b, msg := ctxBody(i2.Body.List, consts)
					c3 = msg == "" && b.ptype == generic && !b.readsPkg && !b.readsMake
				}
				finOK = c1 && c2 && c3
			}
		}
		x.Assert("context:finalizeContext-shape", finOK,
			"expected `ctx.ProjectTypes = removeDuplicateProjectTypes(ctx.ProjectTypes); if len(ctx.ProjectTypes) == 0 { append generic }`")

		// removeDuplicateProjectTypes: for _, t := range types { if !seen[t] { seen[t] = true; result = append(result, t) } }
		dedupOK := false
		if fd := x.Func(pkg, "removeDuplicateProjectTypes"); fd != nil {
			for _, st := range fd.Body.List {
				rs, ok := st.(*ast.RangeStmt)
				if !ok || len(rs.Body.List) != 1 {
					continue
				}
				is, ok := rs.Body.List[0].(*ast.IfStmt)
				if !ok || is.Else != nil || len(is.Body.List) != 2 {
					continue
				}
				u, ok := is.Cond.(*ast.UnaryExpr)
				if !ok || u.Op != token.NOT {
					continue
				}
				ix, ok := u.X.(*ast.IndexExpr)
				tv, ok2 := rs.Value.(*ast.Ident)
				if !ok || !ok2 || !isIdent(ix.X, "seen") || !isIdent(ix.Index, tv.Name) {
					continue
				}
				s1, ok1 := is.Body.List[0].(*ast.AssignStmt)
				s2, ok2 := is.Body.List[1].(*ast.AssignStmt)
				if !ok1 || !ok2 || len(s1.Lhs) != 1 || len(s2.Lhs) != 1 || len(s2.Rhs) != 1 {
					continue
				}
				l1, ok := s1.Lhs[0].(*ast.IndexExpr)
				if !ok || !isIdent(l1.X, "seen") || !isIdent(l1.Index, tv.Name) || !isIdent(s1.Rhs[0], "true") {
					continue
				}
				call, ok := s2.Rhs[0].(*ast.CallExpr)
				if ok && isIdent(s2.Lhs[0], "result") && isIdent(call.Fun, "append") && len(call.Args) == 2 && isIdent(call.Args[0], "result") && isIdent(call.Args[1], tv.Name) {
					dedupOK = true
				}
			}
		}
		x.Assert("context:removeDuplicateProjectTypes-shape", dedupOK, "expected the seen-map first-occurrence filter")

		// AnalyzeDirectory: for _, file := range files { a.analyzeFile(file.Name(), dir, ctx) }; a.finalizeContext(ctx)
		adOK := false
		if fd := x.Func(pkg, "AnalyzeDirectory"); fd != nil {
			loop, fin, readDir := false, false, false
			ast.Inspect(fd.Body, func(n ast.Node) bool {
				switch t := n.(type) {
				case *ast.RangeStmt:
					if isIdent(t.X, "files") && len(t.Body.List) == 1 {
						if es, ok := t.Body.List[0].(*ast.ExprStmt); ok {
							if call, ok := es.X.(*ast.CallExpr); ok && isSel(call.Fun, "a", "analyzeFile") && len(call.Args) == 3 {
								if nc, ok := call.Args[0].(*ast.CallExpr); ok {
									if se, ok := nc.Fun.(*ast.SelectorExpr); ok && se.Sel.Name == "Name" {
										loop = true
									}
								}
							}
						}
					}
				case *ast.CallExpr:
					if isSel(t.Fun, "a", "finalizeContext") {
						fin = true
					}
					if isSel(t.Fun, "os", "ReadDir") {
						readDir = true
					}
				}
				return true
			})
			adOK = loop && fin && readDir
		}
		x.Assert("context:AnalyzeDirectory-shape", adOK, "expected os.ReadDir, a loop calling a.analyzeFile(file.Name(), dir, ctx) and a.finalizeContext(ctx)")

		// extractMakeTargets: the string literals of the line rule, in source order
		var mkLits []string
		if fd := x.Func(pkg, "extractMakeTargets"); fd != nil {
			ast.Inspect(fd.Body, func(n ast.Node) bool {
				if bl, ok := n.(*ast.BasicLit); ok && bl.Kind == token.STRING {
					if s, ok := strLit(bl); ok {
						mkLits = append(mkLits, s)
					}
				}
				return true
			})
		}
		wantLits := []string{"\n", ":", "#", "\t", ":", "=", ".", ""}
		x.Assert("context:extractMakeTargets-literals", strings.Join(mkLits, "\x00") == strings.Join(wantLits, "\x00"),
			"string literals of extractMakeTargets changed: %q (the line rule is modelled by hand in Model/Context.lean)", mkLits)

		if !(shapeOK && boostsOK && gcbOK) {
			return
		}
		var sb strings.Builder
		sb.WriteString("import WtfModel.Basic.CtxRule\nimport WtfModel.Basic.Q\nnamespace Wtf.Gen.Context\n\n")
		sb.WriteString("/-- values of the ProjectType constants -/\ndef typeNames : List String := [")
		for i, n := range constOrder {
			if i > 0 {
				sb.WriteString(", ")
			}
			sb.WriteString(leanStr(consts[n]))
		}
		sb.WriteString("]\n\n/-- ProjectTypeGeneric -/\ndef genericType : String := " + leanStr(generic) + "\n\n")
		sb.WriteString("/-- the statements of the check* functions in the order analyzeFile applies them (" + strings.Join(checks, ", ") + ") -/\n")
		sb.WriteString("def rules : List Wtf.MarkerRule := [\n")
		for i, r := range rules {
			sb.WriteString("  [")
			for j, b := range r {
				if j > 0 {
					sb.WriteString(",\n   ")
				}
				fmt.Fprintf(&sb, "{ cond := %s, ptype := %s, readsPkg := %v, readsMake := %v }", b.cond, leanStr(b.ptype), b.readsPkg, b.readsMake)
			}
			sb.WriteString("]")
			if i < len(rules)-1 {
				sb.WriteString(",")
			}
			sb.WriteString("\n")
		}
		sb.WriteString("]\n\n/-- the projectBoosts literal -/\ndef projectBoosts : List (String × List (String × Wtf.Q)) := [\n")
		for i, e := range boosts {
			fmt.Fprintf(&sb, "  (%s, [", leanStr(e.t))
			for j, p := range e.kv {
				if j > 0 {
					sb.WriteString(", ")
				}
				fmt.Fprintf(&sb, "(%s, %s)", leanStr(p.k), p.q)
			}
			sb.WriteString("])")
			if i < len(boosts)-1 {
				sb.WriteString(",")
			}
			sb.WriteString("\n")
		}
		sb.WriteString("]\n\n")
		fmt.Fprintf(&sb, "/-- `boosts[script] = …` -/\ndef scriptBoost : Wtf.Q := %s\n\n/-- `boosts[target] = …` -/\ndef targetBoost : Wtf.Q := %s\n\n", scriptQ, targetQ)
		sb.WriteString("end Wtf.Gen.Context\n")
		x.WriteLean("Context", sb.String())
		nb := 0
		for _, r := range rules {
			nb += len(r)
		}
		x.Fact("context.rules", len(rules))
		x.Fact("context.branches", nb)
		x.Fact("context.checks", checks)
		x.Fact("context.literals", ctxLits)
	})
}
