package main

import (
	"fmt"
	"go/ast"
	"go/token"
	"sort"
	"strings"
)

// AtomicWrite (C09): the system-call program of utils.WriteFileAtomic, read off its body, and the two
// call-site facts (the notebook writer and the history writer go through it and make no direct write).
//
// Recognised statement forms inside WriteFileAtomic (anything else fails `atomic:shape`):
//
//	v, err := <call>            followed by   if err != nil { <cleanup>; return ... }        (checked step)
//	if [_,] err := <call>; err != nil { <cleanup>; return err | return fail(err) }          (checked step)
//	<call>     |   _ = <call>   |   _, _ = <call>                                            (unchecked step)
//	name := tmp.Name()          fail := func(err error) error { <cleanup>; return err }      return nil
//
// <call>    ::= os.CreateTemp(dir, pattern) | tmp.Write(data) | tmp.Chmod(..) | os.Chmod(tmpName,..) | tmp.Sync()
//
//	| tmp.Close() | os.Rename(tmpName, path) | os.Remove(tmpName) | os.WriteFile(path, ..)
//
// <cleanup> ::= ( tmp.Close() | os.Remove(tmpName) )*
type awStep struct {
	Kind    string     `json:"kind"`
	Tgt     string     `json:"tgt"`
	Checked bool       `json:"checked"`
	Cleanup [][]string `json:"cleanup"`
}

type awCtx struct {
	x        *X
	pathPar  string // name of the path parameter
	dataPar  string
	tmpVar   string // *os.File of the temp file
	nameVars map[string]bool
	failFn   string
	failCl   [][]string
	dirOK    bool
	pattern  string
	problems []string
}

func (c *awCtx) bad(pos token.Pos, format string, a ...interface{}) {
	c.problems = append(c.problems, fmt.Sprintf("%s: %s", c.x.Fset.Position(pos), fmt.Sprintf(format, a...)))
}

func awSelCall(e ast.Expr) (recv, name string, call *ast.CallExpr) {
	ce, ok := e.(*ast.CallExpr)
	if !ok {
		return "", "", nil
	}
	se, ok := ce.Fun.(*ast.SelectorExpr)
	if !ok {
		if id, ok := ce.Fun.(*ast.Ident); ok {
			return "", id.Name, ce
		}
		return "", "", ce
	}
	if id, ok := se.X.(*ast.Ident); ok {
		return id.Name, se.Sel.Name, ce
	}
	return "?", se.Sel.Name, ce
}

func awIdent(e ast.Expr) string {
	if id, ok := e.(*ast.Ident); ok {
		return id.Name
	}
	return ""
}

// isTmpName: the expression denotes the temp file's name (a variable bound to tmp.Name(), or tmp.Name() itself)
func (c *awCtx) isTmpName(e ast.Expr) bool {
	if n := awIdent(e); n != "" && c.nameVars[n] {
		return true
	}
	r, m, ce := awSelCall(e)
	return ce != nil && r == c.tmpVar && c.tmpVar != "" && m == "Name"
}

// classify returns the steps a call expands to (kind, tgt) or nil when it is not a file operation.
func (c *awCtx) classify(e ast.Expr) [][]string {
	r, m, ce := awSelCall(e)
	if ce == nil {
		return nil
	}
	switch {
	case r == "os" && m == "CreateTemp":
		if len(ce.Args) == 2 {
			dr, dm, dce := awSelCall(ce.Args[0])
			c.dirOK = dce != nil && dr == "filepath" && dm == "Dir" && len(dce.Args) == 1 && awIdent(dce.Args[0]) == c.pathPar
			// pattern: filepath.Base(path) + "<infix>*"
			if be, ok := ce.Args[1].(*ast.BinaryExpr); ok && be.Op == token.ADD {
				br, bm, bce := awSelCall(be.X)
				if lit, ok := be.Y.(*ast.BasicLit); ok && lit.Kind == token.STRING && bce != nil && br == "filepath" && bm == "Base" &&
					len(bce.Args) == 1 && awIdent(bce.Args[0]) == c.pathPar {
					c.pattern = strings.Trim(lit.Value, "\"`")
				}
			}
		}
		return [][]string{{"createTemp", "tmp"}}
	case r == "os" && (m == "WriteFile"):
		if len(ce.Args) >= 1 && awIdent(ce.Args[0]) == c.pathPar {
			return [][]string{{"openTrunc", "dst"}, {"write", "dst"}, {"close", "dst"}}
		}
		c.bad(ce.Pos(), "os.WriteFile on something other than the path parameter")
		return [][]string{{"openTrunc", "dst"}, {"write", "dst"}, {"close", "dst"}}
	case r == "os" && m == "Rename":
		if len(ce.Args) != 2 || !c.isTmpName(ce.Args[0]) || awIdent(ce.Args[1]) != c.pathPar {
			c.bad(ce.Pos(), "os.Rename is not Rename(<temp name>, <path parameter>)")
		}
		return [][]string{{"rename", "tmp"}}
	case r == "os" && m == "Remove":
		if len(ce.Args) != 1 || !c.isTmpName(ce.Args[0]) {
			c.bad(ce.Pos(), "os.Remove of something other than the temp file")
			return [][]string{{"unlink", "dst"}}
		}
		return [][]string{{"unlink", "tmp"}}
	case r == "os" && m == "Chmod":
		if len(ce.Args) >= 1 && c.isTmpName(ce.Args[0]) {
			return [][]string{{"chmod", "tmp"}}
		}
		return [][]string{{"chmod", "dst"}}
	case r != "" && r == c.tmpVar:
		switch m {
		case "Write", "WriteString":
			if len(ce.Args) != 1 || awIdent(ce.Args[0]) != c.dataPar {
				c.bad(ce.Pos(), "tmp.%s argument is not the data parameter", m)
			}
			return [][]string{{"write", "tmp"}}
		case "Chmod":
			return [][]string{{"chmod", "tmp"}}
		case "Sync":
			return [][]string{{"fsync", "tmp"}}
		case "Close":
			return [][]string{{"close", "tmp"}}
		case "Name":
			return nil
		}
		c.bad(ce.Pos(), "unrecognised method tmp.%s", m)
		return nil
	}
	return nil
}

func awIsErrNotNil(e ast.Expr) bool {
	be, ok := e.(*ast.BinaryExpr)
	return ok && be.Op == token.NEQ && awIdent(be.X) == "err" && awIdent(be.Y) == "nil"
}

// cleanupOf parses the body of an `if err != nil { ... }` block: clean-up calls then a return of a non-nil error.
func (c *awCtx) cleanupOf(b *ast.BlockStmt) (cl [][]string, ok bool) {
	cl = [][]string{}
	for i, st := range b.List {
		switch s := st.(type) {
		case *ast.ExprStmt:
			ks := c.classify(s.X)
			if ks == nil {
				c.bad(s.Pos(), "unrecognised clean-up statement")
				return cl, false
			}
			cl = append(cl, ks...)
		case *ast.ReturnStmt:
			if i != len(b.List)-1 || len(s.Results) != 1 {
				c.bad(s.Pos(), "error path does not end in a single `return <err>`")
				return cl, false
			}
			if awIdent(s.Results[0]) == "err" {
				return cl, true
			}
			if _, fn, ce := awSelCall(s.Results[0]); ce != nil && fn == c.failFn && c.failFn != "" && len(ce.Args) == 1 && awIdent(ce.Args[0]) == "err" {
				return append(cl, c.failCl...), true
			}
			// fmt.Errorf("...: %w", err) is also a non-nil error
			if r, fn, ce := awSelCall(s.Results[0]); ce != nil && r == "fmt" && fn == "Errorf" {
				return cl, true
			}
			c.bad(s.Pos(), "error path returns something other than err / fail(err)")
			return cl, false
		default:
			c.bad(st.Pos(), "unrecognised statement on the error path")
			return cl, false
		}
	}
	c.bad(b.Pos(), "error path does not return")
	return cl, false
}

func extractAtomic(x *X, fd *ast.FuncDecl) (steps []awStep, c *awCtx) {
	c = &awCtx{x: x, nameVars: map[string]bool{}}
	ps := []string{}
	for _, f := range fd.Type.Params.List {
		for _, n := range f.Names {
			ps = append(ps, n.Name)
		}
	}
	if len(ps) < 2 {
		c.bad(fd.Pos(), "expected parameters (path, data, ...)")
		return nil, c
	}
	c.pathPar, c.dataPar = ps[0], ps[1]
	add := func(ks [][]string, checked bool, cl [][]string) {
		for _, k := range ks {
			if cl == nil {
				cl = [][]string{}
			}
			steps = append(steps, awStep{k[0], k[1], checked, cl})
		}
	}
	list := fd.Body.List
	for i := 0; i < len(list); i++ {
		switch s := list[i].(type) {
		case *ast.AssignStmt:
			if len(s.Rhs) != 1 {
				c.bad(s.Pos(), "unrecognised assignment")
				continue
			}
			// fail := func(err error) error { ... }
			if fl, ok := s.Rhs[0].(*ast.FuncLit); ok && len(s.Lhs) == 1 {
				c.failFn = awIdent(s.Lhs[0])
				cl, ok := c.cleanupOf(fl.Body)
				if !ok {
					c.bad(fl.Pos(), "unrecognised body of the clean-up closure")
				}
				c.failCl = cl
				continue
			}
			// name := tmp.Name()
			if r, m, ce := awSelCall(s.Rhs[0]); ce != nil && r == c.tmpVar && c.tmpVar != "" && m == "Name" && len(s.Lhs) == 1 {
				c.nameVars[awIdent(s.Lhs[0])] = true
				continue
			}
			ks := c.classify(s.Rhs[0])
			if ks == nil {
				c.bad(s.Pos(), "unrecognised assignment")
				continue
			}
			if ks[0][0] == "createTemp" && len(s.Lhs) == 2 {
				c.tmpVar = awIdent(s.Lhs[0])
			}
			// does the statement bind err, and is it tested by the next statement?
			bindsErr := false
			for _, l := range s.Lhs {
				if awIdent(l) == "err" {
					bindsErr = true
				}
			}
			if bindsErr && i+1 < len(list) {
				if is, ok := list[i+1].(*ast.IfStmt); ok && is.Init == nil && awIsErrNotNil(is.Cond) && is.Else == nil {
					cl, ok := c.cleanupOf(is.Body)
					add(ks, ok, cl)
					i++
					continue
				}
			}
			add(ks, false, nil)
		case *ast.IfStmt:
			as, ok := s.Init.(*ast.AssignStmt)
			if !ok || len(as.Rhs) != 1 || !awIsErrNotNil(s.Cond) || s.Else != nil {
				c.bad(s.Pos(), "unrecognised if statement")
				continue
			}
			ks := c.classify(as.Rhs[0])
			if ks == nil {
				c.bad(s.Pos(), "unrecognised call in if statement")
				continue
			}
			bindsErr := false
			for _, l := range as.Lhs {
				if awIdent(l) == "err" {
					bindsErr = true
				}
			}
			cl, ok := c.cleanupOf(s.Body)
			add(ks, ok && bindsErr, cl)
		case *ast.ExprStmt:
			ks := c.classify(s.X)
			if ks == nil {
				c.bad(s.Pos(), "unrecognised expression statement")
				continue
			}
			add(ks, false, nil)
		case *ast.ReturnStmt:
			if i != len(list)-1 {
				c.bad(s.Pos(), "return before the end of the function")
				continue
			}
			if len(s.Results) == 1 && awIdent(s.Results[0]) == "nil" {
				continue
			}
			// `return os.Rename(..)` / `return os.WriteFile(..)`: the error is handed to the caller = checked, no clean-up
			if len(s.Results) == 1 {
				if ks := c.classify(s.Results[0]); ks != nil {
					add(ks, true, nil)
					continue
				}
			}
			c.bad(s.Pos(), "unrecognised final return")
		default:
			c.bad(list[i].Pos(), "unrecognised statement (%T)", list[i])
		}
	}
	return steps, c
}

// awWriteCalls lists the direct file-writing calls and the WriteFileAtomic calls inside a function body.
func awWriteCalls(body ast.Node) (direct []string, atomic []*ast.CallExpr) {
	ast.Inspect(body, func(n ast.Node) bool {
		r, m, ce := awSelCallNode(n)
		if ce == nil {
			return true
		}
		switch {
		case (r == "os" || r == "ioutil") && (m == "WriteFile" || m == "Create" || m == "OpenFile" || m == "Rename" || m == "Truncate"):
			direct = append(direct, r+"."+m)
		case r == "utils" && m == "WriteFileAtomic":
			atomic = append(atomic, ce)
		}
		return true
	})
	return
}

func awSelCallNode(n ast.Node) (string, string, *ast.CallExpr) {
	if e, ok := n.(ast.Expr); ok {
		return awSelCall(e)
	}
	return "", "", nil
}

func awLeanShape(steps []awStep) string {
	var sb strings.Builder
	sb.WriteString("[")
	for i, s := range steps {
		if i > 0 {
			sb.WriteString(",")
		}
		cl := []string{}
		for _, c := range s.Cleanup {
			cl = append(cl, fmt.Sprintf("(.%s, .%s)", c[0], c[1]))
		}
		fmt.Fprintf(&sb, "\n  ⟨.%s, .%s, %v, [%s]⟩", s.Kind, s.Tgt, s.Checked, strings.Join(cl, ", "))
	}
	sb.WriteString(" ]")
	return sb.String()
}

func init() {
	register("atomic", func(x *X) {
		var steps []awStep
		pattern, dirOK := "", false
		fd := x.Func("internal/utils", "WriteFileAtomic")
		if x.Assert("atomic:WriteFileAtomic", fd != nil && fd.Body != nil, "function utils.WriteFileAtomic not found") {
			var c *awCtx
			steps, c = extractAtomic(x, fd)
			x.Assert("atomic:shape", len(c.problems) == 0, "%s", strings.Join(c.problems, "; "))
			kinds := []string{}
			allChecked := true
			for _, s := range steps {
				kinds = append(kinds, s.Kind+":"+s.Tgt)
				allChecked = allChecked && s.Checked
			}
			want := "createTemp:tmp write:tmp chmod:tmp fsync:tmp close:tmp rename:tmp"
			x.Assert("atomic:order", strings.Join(kinds, " ") == want,
				"expected CreateTemp -> Write -> Chmod -> Sync -> Close -> Rename(tmp, path), found: %s", strings.Join(kinds, " "))
			x.Assert("atomic:errors-checked", allChecked && len(steps) > 0, "every call's error must lead to `return err`; steps: %+v", steps)
			pattern, dirOK = c.pattern, c.dirOK
			x.Assert("atomic:temp-in-target-dir", dirOK,
				"the temp file must be created in filepath.Dir(path): a rename across file systems fails (EXDEV) or is not atomic")
			x.Assert("atomic:temp-pattern", strings.HasSuffix(pattern, "*") && len(pattern) >= 2,
				"expected pattern filepath.Base(path)+\"<non-empty infix>*\", found %q", pattern)
		}
		// call sites
		site := func(pkg, fn string, label string) (atomicOK bool, direct []string) {
			f := x.Func(pkg, fn)
			if !x.Assert("atomic:site:"+label, f != nil && f.Body != nil, "function %s.%s not found", pkg, fn) {
				return false, nil
			}
			d, at := awWriteCalls(f.Body)
			sort.Strings(d)
			first := ""
			if len(f.Type.Params.List) > 0 && len(f.Type.Params.List[0].Names) > 0 {
				first = f.Type.Params.List[0].Names[0].Name
			}
			ok := len(at) == 1 && len(at[0].Args) == 3
			if ok && label == "notebook" {
				ok = awIdent(at[0].Args[0]) == first
			}
			if ok && label == "history" {
				se, isSel := at[0].Args[0].(*ast.SelectorExpr)
				ok = isSel && se.Sel.Name == "FilePath"
			}
			x.Assert("atomic:site:"+label+":uses-WriteFileAtomic", ok, "%s.%s must write its file with exactly one utils.WriteFileAtomic(<its path>, data, perm) call", pkg, fn)
			x.Assert("atomic:site:"+label+":no-direct-write", len(d) == 0, "%s.%s writes directly: %v", pkg, fn, d)
			return ok, d
		}
		nbOK, nbDirect := site("internal/cli", "writePersonalDatabase", "notebook")
		hOK, hDirect := site("internal/history", "Save", "history")
		// saveToPersonalDatabase itself must not write either
		if f := x.Func("internal/cli", "saveToPersonalDatabase"); f != nil && f.Body != nil {
			d, at := awWriteCalls(f.Body)
			x.Assert("atomic:site:notebook:outer", len(d) == 0 && len(at) == 0, "saveToPersonalDatabase writes by itself: %v", d)
			nbDirect = append(nbDirect, d...)
		}
		// the whole history package has no other writer
		hAll := []string{}
		for _, f := range x.Pkg("internal/history") {
			d, _ := awWriteCalls(f)
			hAll = append(hAll, d...)
		}
		x.Assert("atomic:site:history:package", len(hAll) == 0, "internal/history writes directly: %v", hAll)
		hDirect = append(hDirect, hAll...)

		infix := strings.TrimSuffix(pattern, "*")
		var sb strings.Builder
		sb.WriteString("import WtfModel.Model.AtomicWrite\nnamespace Wtf.Gen.AtomicWrite\nopen Wtf.AtomicWrite\n\n")
		sb.WriteString("/-- utils.WriteFileAtomic, statement by statement: call, target, error tested?, calls on that error path -/\n")
		fmt.Fprintf(&sb, "def writeFileAtomic : List ShapeStep := %s\n\n", awLeanShape(steps))
		fmt.Fprintf(&sb, "/-- the temp file is created in filepath.Dir(path) -/\ndef tempInTargetDir : Bool := %v\n\n", dirOK)
		fmt.Fprintf(&sb, "/-- temp name = filepath.Base(path) ++ tempInfix ++ <random digits> -/\ndef tempInfix : String := %s\n\n", leanStr(infix))
		fmt.Fprintf(&sb, "/-- cli.writePersonalDatabase writes the notebook with one utils.WriteFileAtomic(dbPath, ..) call -/\ndef notebookUsesAtomic : Bool := %v\n", nbOK)
		fmt.Fprintf(&sb, "/-- direct writes (os.WriteFile, os.Create, os.OpenFile, os.Rename ..) in the notebook writer -/\ndef notebookDirectWrites : List String := %s\n\n", leanStrList(nbDirect))
		fmt.Fprintf(&sb, "/-- (*SearchHistory).Save writes the history with one utils.WriteFileAtomic(sh.FilePath, ..) call -/\ndef historyUsesAtomic : Bool := %v\n", hOK)
		fmt.Fprintf(&sb, "/-- direct writes anywhere in internal/history -/\ndef historyDirectWrites : List String := %s\n\n", leanStrList(hDirect))
		sb.WriteString("end Wtf.Gen.AtomicWrite\n")
		x.WriteLean("AtomicWrite", sb.String())
		x.Fact("atomic.steps", steps)
		x.Fact("atomic.tempInfix", infix)
		x.Fact("atomic.tempInTargetDir", dirOK)
		x.Fact("atomic.notebookUsesAtomic", nbOK)
		x.Fact("atomic.historyUsesAtomic", hOK)
	})
}
